package net

// C24 P2P message decoding never panics and round-trips every message.
//
// Oracles (none of them is the decoder itself):
//   - generated message of each of the 21 kinds: reference encoder == Serialization, reference
//     framing == WriteMessage, ReadMessage succeeds, decoded fields == generated fields,
//     re-encoding byte-identical, exactly the frame is consumed from a stream of two frames;
//   - any stream: message or error, never a panic (recover / isolated worker for fatal errors);
//   - reference model of the frame checks: wrong magic, length > MAX_PAYLOAD_LEN, short payload and
//     checksum mismatch must be rejected; for an oversize length a counting reader shows that only
//     the 24 header bytes were consumed;
//   - cumulative allocation (MemStats.TotalAlloc delta, single goroutine) <= 256 x stream + 1 MiB
//     (+ the declared length when it is legal: that is the payload buffer);
//   - mutated payloads that decode: decode(encode(decode(b))) == decode(b) (semantic idempotence).
//   - payloads that differ from a valid one only in the width of 1-3 length prefixes (c24_nonmin_test.go):
//     rejected, or the returned message re-serializes to exactly the received frame.
//   - held results (c24_held_test.go): messages returned by ReadMessage and buffers returned by the
//     encoder side are kept next to a copy taken at return time while 1-8 further frames are read from
//     the same and from other readers / further messages are written (optionally also by joined
//     goroutines), and must then be unchanged, reproducible, independent of the caller's buffers and of
//     each other, and usable again.

import (
	"bytes"
	"crypto/elliptic"
	"encoding/binary"
	"encoding/hex"
	"encoding/json"
	"fmt"
	"os"
	"sort"
	"strings"
	"testing"

	"github.com/ontio/ontology/common"
	pcom "github.com/ontio/ontology/p2pserver/common"
	"pgregory.net/rapid"

	"verifharness/internal/harn"
)

const c24Rule = "typed generators for the 21 message kinds encoded by a reference encoder (lists 0/1/max/small, varuint width edges, zoo keys, signed subnet/offline messages), then either kept (round-trip), given a mutated header, a hostile count in one count/length field, truncated at field boundaries, given 1-3 non-minimal (FD/FE/FF-widened, value unchanged) var-uint count / var-bytes / var-string length prefixes drawn uniformly over the (kind, field) pairs of all 10 kinds that have such fields (oracle: rejected, or re-serialized byte-identically to the received frame), or byte-mutated / replaced by random payloads under a valid header; non-trivial = the stream passes the frame checks and reaches a per-type decoder with a non-empty message (round-trip: at least one element/field), distinct = different (kind, mutation, payload)"

func c24ev() *harn.Collector {
	return harn.For("C24").Rule(c24Rule).
		Assume("trusted: crypto/sha256 (reference checksum), runtime.MemStats.TotalAlloc as allocation meter, the harness's reference encoder").
		Assume("decoders with a wall-clock freshness window (getmembers) are generated with timestamp 0 or a far-future timestamp, so no verdict depends on the clock")
}

// fail reports a violation with the failing stream.
func failStream(t *rapid.T, what string, stream []byte, v verdict) {
	t.Fatalf("%s\n verdict %s: %s\n stream (%d bytes) %s", what, v.Kind, v.Detail, len(stream), hex.EncodeToString(clip(stream, 600)))
}

func clip(b []byte, n int) []byte {
	if len(b) > n {
		return b[:n]
	}
	return b
}

// ---------------------------------------------------------------------------------------------

// The three witness tests replay the deterministic witness of each finding made by this check. While
// a finding still reproduces and is not listed in known_findings.json they report the violation.
func witnessTest(t *testing.T, name string, still, known bool, stream []byte, format string, detail string) {
	ev := c24ev()
	if !still {
		ev.Class("witness:" + name + ":fixed")
		return
	}
	ev.Class("witness:" + name + ":reproduces")
	if !known {
		harn.Violation(t, "C24", map[string]string{"stream": hex.EncodeToString(stream)}, format, detail)
	}
}

func TestC24_WitnessAddrCount(t *testing.T) {
	setup()
	replayKnown()
	witnessTest(t, "addr-count", addrStill, knownAddr, witnessAddr(), "addr message with count 2^63 (payload 0000000000000080): %s", addrDetail)
}

func TestC24_WitnessCCMsgSigLen(t *testing.T) {
	setup()
	replayKnown()
	witnessTest(t, "ccmsg-siglen", ccStill, knownCC, witnessCC(1<<63), "block message whose cross-chain message declares 2^63 signatures: %s", ccDetail)
}

func TestC24_WitnessOffCurveKey(t *testing.T) {
	setup()
	replayKnown()
	witnessTest(t, "offcurve-pubkey", curveStill, knownCurve, witnessOffCurve(),
		"consensus message whose owner key is the uncompressed P-256 point (x=0300..00, y=0), not on the curve: %s", curveDetail)
}

func TestC24_WitnessOfflineProposerSig(t *testing.T) {
	setup()
	replayKnown()
	witnessTest(t, "offline-proposersig", offStill, knownOff, witnessOffline(),
		"a correctly signed offline-witness message written by the reference encoder (== OfflineWitnessMsg.Serialization) is not decoded: %s", offDetail)
}

func TestC24_RoundTrip(t *testing.T) {
	setup()
	ev := c24ev()
	replayKnown()
	for _, c := range allCmds {
		if c == pcom.SUBNET_OFFLINE_TYPE && knownOff {
			continue
		}
		ev.Floor("roundtrip:"+c, "roundtrip", 0.01)
	}
	harn.Check(t, 2500, 60000, func(t *rapid.T) {
		g := genMsg(t)
		if g.cmd == pcom.SUBNET_OFFLINE_TYPE && knownOff {
			// recorded finding: the decoder skips ProposerSig, no offline message decodes; only "no panic" is left
			if v := judge(refFrame(g.cmd, g.p.b)); v.bad() {
				failStream(t, "generated "+g.descr, refFrame(g.cmd, g.p.b), v)
			}
			ev.Excluded()
			return
		}
		var ser []byte
		func() {
			defer func() {
				if r := recover(); r != nil {
					t.Fatalf("Serialization of generated %s panicked: %v", g.descr, r)
				}
			}()
			s := common.NewZeroCopySink(nil)
			g.msg.Serialization(s)
			ser = s.Bytes()
		}()
		if !bytes.Equal(ser, g.p.b) {
			t.Fatalf("%s: Serialization differs from the reference encoding\n got  %x\n want %x", g.descr, ser, g.p.b)
		}
		frame := refFrame(g.cmd, g.p.b)
		wf, pan := encodeFrame(g.msg)
		if pan != nil || !bytes.Equal(wf, frame) {
			t.Fatalf("%s: WriteMessage differs from reference framing (panic=%v)\n got  %x\n want %x", g.descr, pan, wf, frame)
		}
		// a stream of this frame followed by another one: exactly the frame must be consumed
		stream := append(append([]byte{}, frame...), refFrame(pcom.PING_TYPE, make([]byte, 8))...)
		v := judge(stream[:len(frame)])
		if v.Kind != "msg" {
			failStream(t, "generated valid "+g.descr+" was not decoded", frame, v)
		}
		if want := canon(g.msg); v.Canon != want {
			t.Fatalf("%s: decoded fields differ\n decoded   %s\n generated %s", g.descr, v.Canon, want)
		}
		back, _ := encodeFrame(v.msg)
		if !bytes.Equal(back, frame) {
			t.Fatalf("%s: re-encoding the decoded message is not byte-identical\n got  %x\n want %x", g.descr, back, frame)
		}
		m1, _, err, pan, _, consumed := readMeasured(stream)
		if pan != nil || err != nil || consumed != len(frame) || canon(m1) != v.Canon {
			t.Fatalf("%s: reading from a two-frame stream: err=%v panic=%v consumed=%d want %d", g.descr, err, pan, consumed, len(frame))
		}
		ev.Class("roundtrip")
		ev.Class("roundtrip:" + g.cmd)
		ev.Case(g.size > 0, "roundtrip "+g.descr)
	})
}

// ---------------------------------------------------------------------------------------------

func TestC24_HeaderMutants(t *testing.T) {
	setup()
	ev := c24ev()
	def := magic()
	kinds := []string{"magic", "oversize", "shorter", "longer", "checksum", "payloadbit", "cut", "biglegal", "valid", "cmd"}
	for _, k := range kinds {
		if k != "biglegal" {
			ev.Floor("hdr:"+k, "hdr", 0.04)
		}
	}
	harn.Check(t, 2500, 40000, func(t *rapid.T) {
		m := rapid.SampledFrom([]uint32{def, def, 0, 0xffffffff, 0x74746e41, 1}).Draw(t, "netmagic")
		setMagic(m)
		defer setMagic(def)
		g := genMsg(t)
		pay := g.p.b
		kind := rapid.SampledFrom(kinds).Draw(t, "mutation")
		if kind == "biglegal" && rapid.IntRange(0, 3).Draw(t, "rare") != 0 {
			kind = "valid" // 30 MiB buffers are slow: keep them rare
		}
		ck := refChecksum(pay)
		var stream []byte
		mustReject := true
		switch kind {
		case "magic":
			x := rapid.SampledFrom([]uint32{1, 0x80000000, 0xffffffff, 0x100, 0x74746e41}).Draw(t, "xor")
			stream = refFrameHdr(m^x, g.cmd, uint32(len(pay)), ck, pay)
		case "oversize":
			l := rapid.SampledFrom([]uint32{pcom.MAX_PAYLOAD_LEN + 1, pcom.MAX_PAYLOAD_LEN + 24, pcom.MAX_MSG_LEN, 0x7fffffff, 0x80000000, 0xffffffff, 0xfffffffe}).Draw(t, "len")
			stream = refFrameHdr(m, g.cmd, l, ck, pay)
		case "shorter":
			if len(pay) == 0 {
				kind, mustReject = "valid", false
				stream = refFrame(g.cmd, pay)
				break
			}
			l := uint32(rapid.IntRange(0, len(pay)-1).Draw(t, "len"))
			stream = refFrameHdr(m, g.cmd, l, ck, pay)
			mustReject = refChecksum(pay[:l]) != ck
		case "longer":
			l := uint32(len(pay) + rapid.SampledFrom([]int{1, 2, 24, 255, 65536}).Draw(t, "extra"))
			stream = refFrameHdr(m, g.cmd, l, ck, pay)
		case "checksum":
			i := rapid.IntRange(0, 31).Draw(t, "bit")
			ck[i/8] ^= 1 << uint(i%8)
			stream = refFrameHdr(m, g.cmd, uint32(len(pay)), ck, pay)
		case "payloadbit":
			if len(pay) == 0 {
				kind, mustReject = "valid", false
				stream = refFrame(g.cmd, pay)
				break
			}
			q := append([]byte{}, pay...)
			i := rapid.IntRange(0, len(pay)*8-1).Draw(t, "bit")
			q[i/8] ^= 1 << uint(i%8)
			stream = refFrameHdr(m, g.cmd, uint32(len(pay)), ck, q)
		case "cut":
			full := refFrame(g.cmd, pay)
			n := rapid.IntRange(0, len(full)-1).Draw(t, "cut")
			if rapid.Bool().Draw(t, "inheader") {
				n = rapid.IntRange(0, 23).Draw(t, "hcut")
			}
			stream = full[:n]
		case "biglegal":
			l := rapid.SampledFrom([]uint32{pcom.MAX_PAYLOAD_LEN, pcom.MAX_PAYLOAD_LEN - 1, 1 << 24, 1 << 20}).Draw(t, "len")
			stream = refFrameHdr(m, g.cmd, l, ck, pay)
		case "cmd":
			// same payload under another (possibly unknown) command: decoded as that type or rejected
			c := rapid.SampledFrom(append([]string{"", "foo", "abcdefghijkl", "ping\x00x", "PING"}, allCmds...)).Draw(t, "othercmd")
			stream = refFrame(c, pay)
			mustReject = false
		default:
			stream = refFrame(g.cmd, pay)
			mustReject = false
		}
		v, excl := judgeGuarded(ev, stream)
		if excl {
			return
		}
		if v.bad() {
			failStream(t, "header mutant "+kind+" of "+g.descr, stream, v)
		}
		if mustReject && v.Kind != "err" {
			failStream(t, "header mutant "+kind+" of "+g.descr+" must be rejected", stream, v)
		}
		if kind == "valid" && v.Kind != "msg" && !(g.cmd == pcom.SUBNET_OFFLINE_TYPE && knownOff) {
			failStream(t, "untouched frame of "+g.descr+" rejected", stream, v)
		}
		if kind == "oversize" && (v.Consumed != 24 || v.Alloc > uint64(256*len(stream))+1<<20+p224Slack(stream)) {
			failStream(t, fmt.Sprintf("oversize length: consumed %d bytes (want 24), allocated %d", v.Consumed, v.Alloc), stream, v)
		}
		ev.Class("hdr")
		ev.Class("hdr:" + kind)
		ev.Class("hdr:" + kind + ":" + v.Kind)
		ev.Case(len(stream) >= 24, fmt.Sprintf("hdr %s magic=%#x %s", kind, m, shortHex(stream)))
	})
}

// ---------------------------------------------------------------------------------------------

// hostileEncodings lists the replacement encodings for one count field.
func hostileEncodings(c cmark) (out [][]byte, names []string) {
	add := func(name string, b []byte) { out, names = append(out, b), append(names, name) }
	switch c.Kind {
	case cFix32:
		for _, v := range []uint32{0xffffffff, 0x80000000, 0x7fffffff, 1 << 24, 1 << 20, 1 << 16, uint32(c.Val) + 1, uint32(c.Val) - 1, 0} {
			add(fmt.Sprintf("%#x", v), binary.LittleEndian.AppendUint32(nil, v))
		}
	case cFix64:
		for _, v := range []uint64{0xffffffff, 1 << 63, 1<<64 - 1, 1<<63 - 1, 1 << 32, 1 << 24, 1 << 20, c.Val + 1, c.Val - 1, 0} {
			add(fmt.Sprintf("%#x", v), binary.LittleEndian.AppendUint64(nil, v))
		}
	case cVar:
		for _, v := range []uint64{0xffffffff, 1 << 63, 1<<64 - 1, 1<<63 - 1, 1 << 32, 1 << 24, 1 << 20, 1 << 16, c.Val + 1, c.Val - 1, 0} {
			add(fmt.Sprintf("%#x", v), refVarUint(v))
		}
		// irregular (non-shortest) encodings of the true value
		add("irregular-ff", binary.LittleEndian.AppendUint64([]byte{0xff}, c.Val))
		if c.Val <= 0xffffffff {
			add("irregular-fe", binary.LittleEndian.AppendUint32([]byte{0xfe}, uint32(c.Val)))
		}
		if c.Val < 0xfd {
			add("irregular-fd", binary.LittleEndian.AppendUint16([]byte{0xfd}, uint16(c.Val)))
		}
	}
	return
}

// cmdsWithCounts: kinds whose payload has at least one count/length field.
var cmdsWithCounts = []string{pcom.VERSION_TYPE, pcom.ADDR_TYPE, pcom.HEADERS_TYPE, pcom.INV_TYPE, pcom.BLOCK_TYPE, pcom.TX_TYPE,
	pcom.CONSENSUS_TYPE, pcom.FINDNODE_RESP_TYPE, pcom.UPDATE_KADID_TYPE, pcom.GET_SUBNET_MEMBERS_TYPE, pcom.SUBNET_MEMBERS_TYPE, pcom.SUBNET_OFFLINE_TYPE}

// fieldClass strips indices from a count-field name: "blk.tx1.sig0.invoke.len" -> "blk.tx.sig.invoke.len".
func fieldClass(name string) string {
	out := make([]byte, 0, len(name))
	for i := 0; i < len(name); i++ {
		if name[i] >= '0' && name[i] <= '9' && !(i >= 3 && name[i-3:i] == "eip") {
			continue
		}
		out = append(out, name[i])
	}
	return string(out)
}

func TestC24_HostileCounts(t *testing.T) {
	setup()
	replayKnown()
	ev := c24ev()
	defer worker.Close()
	seen := map[string]int{}
	one := func(fatal func(string, []byte, verdict), g gm, i int, enc []byte, name string) {
		c := g.p.counts[i]
		stream := refFrame(g.cmd, g.p.withCount(i, enc))
		desc := fmt.Sprintf("hostile %s field %s@%d (was %d) := %s in %s", g.cmd, c.Name, c.Off, c.Val, name, g.descr)
		if cmd, pay, ok := framePayload(stream); ok {
			if (isAddrOverflow(cmd, pay) && knownAddr) || (isCCPrealloc(cmd, pay) && knownCC) {
				ev.Excluded()
				return
			}
		}
		v, timedOut := judgeIsolated(stream)
		if timedOut {
			ev.Class("timeout")
			return
		}
		if v.Kind == "offcurve" && knownCurve {
			ev.Excluded()
			return
		}
		if v.bad() {
			fatal(desc, stream, v)
			return
		}
		seen[g.cmd+":"+fieldClass(c.Name)]++
		ev.Class("hostile:" + v.Kind)
		ev.Class("hostile")
		ev.Case(true, desc)
	}

	if rp := os.Getenv("VERIF_REPLAY"); strings.HasSuffix(rp, ".case.json") {
		var saved struct {
			Case struct{ Stream, What string }
		}
		b, err := os.ReadFile(rp)
		if err != nil || json.Unmarshal(b, &saved) != nil {
			t.Fatalf("cannot read replay file %s: %v", rp, err)
		}
		stream, _ := hex.DecodeString(saved.Case.Stream)
		if v, _ := judgeIsolated(stream); v.bad() {
			t.Fatalf("replayed %s\n verdict %s: %s", saved.Case.What, v.Kind, v.Detail)
		}
		return
	}
	// (a) deterministic sweep: every count field of a few examples of every kind x every hostile value
	var first string
	nEx := harn.N(2, 12)
	for _, cmd := range cmdsWithCounts {
		cmd := cmd
		gen := rapid.Custom(func(t *rapid.T) gm { return genMsgOf(t, cmd) })
		for s := 0; s < nEx; s++ {
			g := gen.Example(s*harn.Shards() + harn.Shard() + 1)
			for i, c := range g.p.counts {
				encs, names := hostileEncodings(c)
				for j := range encs {
					one(func(desc string, stream []byte, v verdict) {
						if first == "" {
							first = desc
							harn.Violation(t, "C24", map[string]string{"stream": hex.EncodeToString(stream), "what": desc}, "%s\n verdict %s: %s", desc, v.Kind, v.Detail)
						}
					}, g, i, encs[j], names[j])
					if first != "" {
						return
					}
				}
			}
		}
	}
	// (b) random: generated message, one drawn count field, one drawn hostile encoding
	harn.Check(t, 1500, 60000, func(t *rapid.T) {
		g := genMsgOf(t, rapid.SampledFrom(cmdsWithCounts).Draw(t, "cmd"))
		if len(g.p.counts) == 0 { // getmembers from a seed node has none
			ev.Class("hostile:nocountfield")
			return
		}
		i := rapid.IntRange(0, len(g.p.counts)-1).Draw(t, "field")
		encs, names := hostileEncodings(g.p.counts[i])
		j := rapid.IntRange(0, len(encs)-1).Draw(t, "value")
		one(func(desc string, stream []byte, v verdict) { failStream(t, desc, stream, v) }, g, i, encs[j], names[j])
	})
	var fields []string
	for f := range seen {
		fields = append(fields, f)
	}
	sort.Strings(fields)
	ev.Extra("hostile_count_fields_covered", len(fields))
	t.Logf("count fields covered: %d %v", len(fields), fields)
}

// ---------------------------------------------------------------------------------------------

func TestC24_Truncation(t *testing.T) {
	setup()
	ev := c24ev()
	// truncations that still end on a frame boundary are ~1% of all truncations by construction: the floor
	// only guards against the class vanishing (0.01 itself starved at one seed with 0.97%)
	ev.Floor("trunc:msg", "trunc", 0.004)
	harn.Check(t, 1200, 12000, func(t *rapid.T) {
		g := genMsg(t)
		cuts := map[int]bool{}
		for _, o := range g.p.bounds {
			cuts[o] = true
		}
		offs := make([]int, 0, len(cuts))
		for o := range cuts {
			if o < len(g.p.b) {
				offs = append(offs, o)
			}
		}
		sort.Ints(offs)
		if len(offs) > 48 { // large messages: a drawn window of boundaries
			s := rapid.IntRange(0, len(offs)-48).Draw(t, "window")
			offs = offs[s : s+48]
		}
		if len(g.p.b) > 0 { // and one cut inside a field
			offs = append(offs, rapid.IntRange(0, len(g.p.b)-1).Draw(t, "mid"))
		}
		dec := 0
		for _, o := range offs {
			stream := refFrame(g.cmd, g.p.b[:o])
			v, excl := judgeGuarded(ev, stream)
			if excl {
				continue
			}
			if v.bad() {
				failStream(t, fmt.Sprintf("%s truncated to %d of %d payload bytes", g.descr, o, len(g.p.b)), stream, v)
			}
			ev.Class("trunc")
			ev.Class("trunc:" + v.Kind)
			if v.Kind == "msg" {
				dec++
				ev.Class("trunc:msg:" + g.cmd)
			}
		}
		ev.Case(len(offs) >= 2, fmt.Sprintf("trunc cuts=%d decoded=%d %s", len(offs), dec, g.descr))
	})
}

// ---------------------------------------------------------------------------------------------

// kinds that carry serialized public keys, and the names of the length fields in front of them
var keyCmds = []string{pcom.CONSENSUS_TYPE, pcom.UPDATE_KADID_TYPE, pcom.GET_SUBNET_MEMBERS_TYPE, pcom.HEADERS_TYPE, pcom.BLOCK_TYPE}

func isKeyField(name string) bool {
	f := fieldClass(name)
	return strings.HasSuffix(f, "cons.owner.len") || strings.HasSuffix(f, "kad.key.len") || strings.HasSuffix(f, "req.key.len") || strings.HasSuffix(f, "bk.len")
}

var edgeBytes = []byte{0x00, 0x01, 0x02, 0x7f, 0x80, 0xfc, 0xfd, 0xfe, 0xff}

func TestC24_ByteMutants(t *testing.T) {
	setup()
	ev := c24ev()
	ev.Floor("mut:msg", "mut", 0.05)
	ev.Floor("mut:err", "mut", 0.05)
	modes := []string{"replace", "insert", "delete", "splice", "random", "trailing", "dup", "keyform"}
	harn.Check(t, 4000, 160000, func(t *rapid.T) {
		g := genMsg(t)
		pay := append([]byte{}, g.p.b...)
		cmd := g.cmd
		mode := rapid.SampledFrom(modes).Draw(t, "mode")
		drawByte := func(l string) byte {
			if rapid.Bool().Draw(t, l+".edge") {
				return rapid.SampledFrom(edgeBytes).Draw(t, l)
			}
			return rapid.Byte().Draw(t, l)
		}
		switch mode {
		case "replace":
			if len(pay) == 0 {
				mode = "random"
				pay = rapid.SliceOfN(rapid.Byte(), 0, 80).Draw(t, "rnd")
				break
			}
			for k := rapid.IntRange(1, 3).Draw(t, "k"); k > 0; k-- {
				pay[rapid.IntRange(0, len(pay)-1).Draw(t, "pos")] = drawByte("val")
			}
		case "insert":
			pos := rapid.IntRange(0, len(pay)).Draw(t, "pos")
			ins := rapid.SliceOfN(rapid.SampledFrom(edgeBytes), 1, 9).Draw(t, "ins")
			pay = append(append(append([]byte{}, pay[:pos]...), ins...), pay[pos:]...)
		case "delete":
			if len(pay) == 0 {
				break
			}
			pos := rapid.IntRange(0, len(pay)-1).Draw(t, "pos")
			n := rapid.IntRange(1, 9).Draw(t, "n")
			if pos+n > len(pay) {
				n = len(pay) - pos
			}
			pay = append(append([]byte{}, pay[:pos]...), pay[pos+n:]...)
		case "splice": // payload of one kind under the command of another
			cmd = rapid.SampledFrom(allCmds).Draw(t, "othercmd")
		case "random":
			cmd = rapid.SampledFrom(append([]string{"", "zzz"}, allCmds...)).Draw(t, "rcmd")
			pay = rapid.SliceOfN(rapid.Byte(), 0, 200).Draw(t, "rnd")
			if rapid.Bool().Draw(t, "zeros") { // long runs of zero: many empty elements after a count
				pay = append(pay, make([]byte, rapid.IntRange(0, 4000).Draw(t, "nz"))...)
			}
		case "trailing":
			pay = append(pay, rapid.SliceOfN(rapid.Byte(), 1, 40).Draw(t, "tail")...)
		case "keyform": // a compressed P-256 key re-encoded uncompressed (accepted alternative form), optionally moved off the curve
			g = genMsgOf(t, rapid.SampledFrom(keyCmds).Draw(t, "keycmd"))
			cmd, pay = g.cmd, append([]byte{}, g.p.b...)
			var cand []cmark
			for _, c := range g.p.counts {
				if c.Val == 33 && c.Width == 1 && isKeyField(c.Name) && (pay[c.Off+1] == 2 || pay[c.Off+1] == 3) {
					cand = append(cand, c)
				}
			}
			if len(cand) == 0 {
				mode = "keyform:nokey"
				break
			}
			c := cand[rapid.IntRange(0, len(cand)-1).Draw(t, "whichkey")]
			x, y := elliptic.UnmarshalCompressed(elliptic.P256(), pay[c.Off+1:c.Off+34])
			if x == nil {
				t.Fatalf("harness: zoo key %x does not decompress", pay[c.Off+1:c.Off+34])
			}
			unc := make([]byte, 65)
			unc[0] = 4
			x.FillBytes(unc[1:33])
			y.FillBytes(unc[33:65])
			if rapid.Bool().Draw(t, "offcurve") {
				unc[32] ^= 1 // x+-1: about half of these are not the x-coordinate of any curve point
				mode = "keyform:offcurve"
			}
			pay = append(append(append(append([]byte{}, pay[:c.Off]...), 65), unc...), pay[c.Off+34:]...)
		case "dup": // duplicate a slice of the payload (repeated elements)
			if len(pay) < 2 {
				break
			}
			a := rapid.IntRange(0, len(pay)-1).Draw(t, "a")
			b := rapid.IntRange(a+1, len(pay)).Draw(t, "b")
			pay = append(append(append([]byte{}, pay[:b]...), pay[a:b]...), pay[b:]...)
		}
		stream := refFrame(cmd, pay)
		v, excl := judgeGuarded(ev, stream)
		if excl {
			return
		}
		desc := fmt.Sprintf("mut %s cmd=%q of %s -> %s", mode, cmd, g.cmd, shortHex(pay))
		if v.bad() {
			failStream(t, desc, stream, v)
		}
		if mode == "keyform" && v.Kind != "msg" && !(cmd == pcom.SUBNET_OFFLINE_TYPE) {
			failStream(t, desc+": an uncompressed encoding of a valid key was rejected", stream, v)
		}
		ev.Class("mut")
		ev.Class("mut:" + v.Kind)
		ev.Class("mut:" + mode + ":" + v.Kind)
		if v.Kind == "msg" {
			ev.Class("mut:msg:" + v.Cmd)
		}
		ev.Case(len(pay) > 0, desc)
	})
}

// ---------------------------------------------------------------------------------------------

// FuzzC24_ReadMessage: coverage-guided streams. Each input is judged as it is (frame checks) and
// once more with magic, length and checksum repaired around its command and payload bytes, so that
// the mutations reach the per-type decoders.
func FuzzC24_ReadMessage(f *testing.F) {
	setup()
	replayKnown()
	for _, cmd := range allCmds {
		cmd := cmd
		g := rapid.Custom(func(t *rapid.T) gm { return genMsgOf(t, cmd) }).Example(7)
		f.Add(refFrame(cmd, g.p.b))
	}
	f.Add(refFrame("nosuchcmd", []byte{1, 2, 3}))
	check := func(t *testing.T, stream []byte) {
		if cmd, pay, ok := framePayload(stream); ok {
			if isAddrOverflow(cmd, pay) && knownAddr {
				return
			}
			if isCCPrealloc(cmd, pay) {
				if knownCC {
					return
				}
				if n, _, _ := ccSigLen(cmd, pay); n > 1<<22 {
					return // would exhaust memory in-process; smaller counts expose the same defect
				}
			}
		}
		if v := judge(stream); v.bad() && !(v.Kind == "offcurve" && knownCurve) {
			t.Fatalf("verdict %s: %s\n stream (%d bytes) %x", v.Kind, v.Detail, len(stream), clip(stream, 2000))
		}
	}
	f.Fuzz(func(t *testing.T, data []byte) {
		if len(data) > 1<<16 {
			return
		}
		check(t, data)
		if len(data) >= 24 {
			check(t, refFrame(string(bytes.TrimRight(data[4:16], "\x00")), data[24:]))
		}
	})
}
