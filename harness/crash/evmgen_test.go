package crash

// Generator of kind (c): EVM bytecode (valid PUSH framing, every opcode incl. undefined ones,
// hostile immediates, precompile / native / prefix-contract call targets, CREATE/CREATE2,
// SELFDESTRUCT, memory and copy operations with huge offsets and sizes).

import (
	"encoding/hex"
	"sort"

	"pgregory.net/rapid"
)

type evmGen struct {
	t    *rapid.T
	b    []byte
	tags map[string]bool
}

func (g *evmGen) intn(lo, hi int, l string) int { return rng(g.t, lo, hi, l) }

func (g *evmGen) push(v []byte) {
	for len(v) > 1 && v[0] == 0 {
		v = v[1:]
	}
	if len(v) == 0 {
		v = []byte{0}
	}
	if len(v) > 32 {
		v = v[:32]
	}
	g.b = append(g.b, byte(0x5f+len(v)))
	g.b = append(g.b, v...)
}

func (g *evmGen) pushU(u uint64) {
	var v [8]byte
	for i := 0; i < 8; i++ {
		v[7-i] = byte(u >> (8 * uint(i)))
	}
	g.push(v[:])
}

var evmHostile = [][]byte{{0}, {1}, {2}, {0x1f}, {0x20}, {0x21}, {0x40}, {0xff}, {0x01, 0x00}, {0xff, 0xff}, {0x01, 0x00, 0x00},
	{0xff, 0xff, 0xff, 0xff}, {0x01, 0x00, 0x00, 0x00, 0x00}, {0x7f, 0xff, 0xff, 0xff, 0xff, 0xff, 0xff, 0xff}, {0x80, 0, 0, 0, 0, 0, 0, 0},
	{0xff, 0xff, 0xff, 0xff, 0xff, 0xff, 0xff, 0xff}, {1, 0, 0, 0, 0, 0, 0, 0, 0},
	{0x80, 0, 0, 0, 0, 0, 0, 0, 0, 0, 0, 0, 0, 0, 0, 0, 0, 0, 0, 0, 0, 0, 0, 0, 0, 0, 0, 0, 0, 0, 0, 0},
	{0xff, 0xff, 0xff, 0xff, 0xff, 0xff, 0xff, 0xff, 0xff, 0xff, 0xff, 0xff, 0xff, 0xff, 0xff, 0xff, 0xff, 0xff, 0xff, 0xff, 0xff, 0xff, 0xff, 0xff, 0xff, 0xff, 0xff, 0xff, 0xff, 0xff, 0xff, 0xff}}

func (g *evmGen) pushHostile() { g.push(evmHostile[g.intn(0, len(evmHostile)-1, "eh")]) }

func (g *evmGen) pushSmall() { g.pushU(uint64(g.intn(0, 96, "es"))) }

func (g *evmGen) pushAddr() {
	switch g.intn(0, 5, "ea") {
	case 0, 1: // precompiles 1..9 (and 10..18 which are not active)
		g.pushU(uint64(g.intn(0, 19, "pre")))
		g.tags["target:precompile"] = true
	case 2: // native contract addresses
		g.pushU(uint64(pick(g.t, []int{1, 2, 3, 4, 6, 7, 8, 9, 10, 11, 255}, "nat")))
	case 3:
		a := evmPrefixAddr(g.intn(0, 2, "pfx"))
		g.push(a[:])
		g.tags["target:prefix-contract"] = true
	case 4:
		g.b = append(g.b, 0x30) // ADDRESS
	default:
		g.push(zoo()[g.intn(0, zooLen-1, "za")].Address[:])
	}
}

// arg pushes one operand: small, hostile or a size/offset pair friendly value.
func (g *evmGen) arg() {
	switch g.intn(0, 9, "argk") {
	case 0, 1, 2, 3, 4:
		g.pushSmall()
	case 5, 6, 7:
		g.pushHostile()
	case 8:
		g.pushAddr()
	default:
		g.b = append(g.b, byte(pick(g.t, []int{0x36, 0x38, 0x3d, 0x59, 0x5a, 0x43, 0x42, 0x34, 0x33}, "envop")))
	}
}

func (g *evmGen) opWithArgs(op byte, n int) {
	for i := 0; i < n; i++ {
		g.arg()
	}
	g.b = append(g.b, op)
}

func (g *evmGen) call(op byte) {
	// CALL/CALLCODE: gas addr value inOff inSize outOff outSize ; DELEGATECALL/STATICCALL: no value
	g.arg() // outSize
	g.arg() // outOff
	g.arg() // inSize
	g.arg() // inOff
	if op == 0xf1 || op == 0xf2 {
		if g.intn(0, 2, "cv") == 0 {
			g.arg()
		} else {
			g.pushU(0)
		}
	}
	g.pushAddr()
	if g.intn(0, 1, "cg") == 0 {
		g.b = append(g.b, 0x5a) // GAS
	} else {
		g.arg()
	}
	g.b = append(g.b, op)
	g.tags["call"] = true
}

var evmArity = map[byte]int{0x01: 2, 0x02: 2, 0x03: 2, 0x04: 2, 0x05: 2, 0x06: 2, 0x07: 2, 0x08: 3, 0x09: 3, 0x0a: 2, 0x0b: 2, 0x10: 2, 0x11: 2, 0x12: 2, 0x13: 2, 0x14: 2,
	0x15: 1, 0x16: 2, 0x17: 2, 0x18: 2, 0x19: 1, 0x1a: 2, 0x1b: 2, 0x1c: 2, 0x1d: 2, 0x20: 2, 0x31: 1, 0x35: 1, 0x37: 3, 0x39: 3, 0x3b: 1, 0x3c: 4, 0x3e: 3, 0x3f: 1,
	0x40: 1, 0x50: 1, 0x51: 1, 0x52: 2, 0x53: 2, 0x54: 1, 0x55: 2, 0x56: 1, 0x57: 2, 0xa0: 2, 0xa1: 3, 0xa2: 4, 0xa3: 5, 0xa4: 6, 0xf0: 3, 0xf3: 2, 0xf5: 4, 0xfd: 2, 0xff: 1}

func (g *evmGen) code(maxOps int) {
	n := g.intn(1, maxOps, "evmn")
	for i := 0; i < n; i++ {
		switch k := g.intn(0, 19, "ek"); {
		case k <= 8: // an opcode with as many operands as it pops
			ops := make([]int, 0, len(evmArity))
			for o := range evmArity {
				ops = append(ops, int(o))
			}
			sort.Ints(ops)
			op := byte(pick(g.t, ops, "eop"))
			if op == 0x56 || op == 0x57 { // jumps: mostly to a JUMPDEST we place right after
				if g.intn(0, 2, "jk") > 0 {
					if op == 0x57 {
						g.pushSmall()
					}
					at := len(g.b)
					g.b = append(g.b, 0x61, 0, 0, op, 0x5b) // PUSH2 dest JUMP(I) JUMPDEST
					d := at + 4
					g.b[at+1], g.b[at+2] = byte(d>>8), byte(d)
					continue
				}
			}
			g.opWithArgs(op, evmArity[op])
		case k <= 10:
			g.call(byte(pick(g.t, []int{0xf1, 0xf2, 0xf4, 0xfa}, "callop")))
		case k == 11: // memory fill then hash / log / return of a large region
			g.pushHostile()
			g.pushSmall()
			g.b = append(g.b, 0x52) // MSTORE
		case k == 12: // CREATE / CREATE2 with init code = own code (recursion) or tiny code
			g.b = append(g.b, 0x38, 0x60, 0x00, 0x60, 0x00, 0x39) // CODESIZE PUSH1 0 PUSH1 0 CODECOPY
			if g.intn(0, 1, "c2") == 0 {
				g.b = append(g.b, 0x38, 0x60, 0x00, 0x60, 0x00, 0xf0) // CREATE(0,0,codesize)
			} else {
				g.pushSmall()
				g.b = append(g.b, 0x38, 0x60, 0x00, 0x60, 0x00, 0xf5)
			}
			g.tags["create"] = true
		case k == 13: // bounded loop: counter; JUMPDEST; body; dec; JUMPI
			g.pushU(uint64(pick(g.t, []int{1, 10, 1000, 100000}, "eloop")))
			dest := len(g.b)
			g.b = append(g.b, 0x5b)
			g.code(3)
			g.b = append(g.b, 0x60, 0x01, 0x90, 0x03, 0x80, 0x61, byte(dest>>8), byte(dest), 0x57) // PUSH1 1 SWAP1 SUB DUP1 PUSH2 dest JUMPI
			g.tags["loop"] = true
		case k == 14:
			g.b = append(g.b, byte(g.intn(0, 255, "anyop"))) // any byte incl. undefined opcodes and unframed PUSH
		case k == 15: // stack shuffles
			g.b = append(g.b, byte(pick(g.t, []int{0x80, 0x81, 0x8f, 0x90, 0x91, 0x9f, 0x50}, "shuf")))
		case k == 16: // returndata after a call
			g.call(0xfa)
			g.opWithArgs(0x3e, 3)
		case k == 17:
			g.opWithArgs(0xff, 1)
			g.tags["selfdestruct"] = true
		default:
			g.arg()
		}
	}
}

func (g *evmGen) tagList() string {
	var out []string
	for k := range g.tags {
		out = append(out, k)
	}
	sort.Strings(out)
	s := ""
	for _, k := range out {
		s += k + ","
	}
	return s
}

func genEvm(t *rapid.T) (*evmCase, string) {
	g := &evmGen{t: t, tags: map[string]bool{}}
	e := &evmCase{}
	if rng(t, 0, 14, "rawevm") == 0 {
		g.b = rapid.SliceOfN(rapid.Byte(), 0, 100).Draw(t, "rawevmcode")
		g.tags["raw"] = true
	} else {
		g.code(40)
	}
	mode := rng(t, 0, 9, "evmmode")
	switch {
	case mode <= 3: // generated code runs as init code of a creation
		e.Init = g.b
		g.tags["as:init"] = true
	case mode <= 7: // generated code installed as runtime code and called in the same block
		e.Init = evmDeployWrapper(g.b)
		e.Call = true
		e.CallData = rapid.SliceOfN(rapid.Byte(), 0, 100).Draw(t, "calldata")
		g.tags["as:runtime"] = true
	default: // call a prefix contract / precompile / native address with generated calldata
		e.Init = g.b
		e.Call = true
		switch rng(t, 0, 2, "tk") {
		case 0:
			a := evmPrefixAddr(rng(t, 0, 2, "pfx"))
			e.Target = hex.EncodeToString(a[:])
		case 1:
			e.Target = hex.EncodeToString(append(make([]byte, 19), byte(rng(t, 1, 18, "pre"))))
		default:
			e.Target = hex.EncodeToString(append(make([]byte, 19), byte(pick(t, []int{1, 2, 3, 4, 6, 7, 9, 255}, "natt"))))
		}
		e.CallData = rapid.SliceOfN(rapid.Byte(), 0, 300).Draw(t, "calldata2")
		g.tags["as:target"] = true
	}
	e.Gas = uint64(pick(t, []int{20000, 53000, 100000, 100000, 300000, 300000, 1000000, 1000000, 3000000, 6000000}, "evmgas"))
	e.GasPrice = uint64(pick(t, []int{0, 0, 1, 2500}, "evmgp"))
	e.Value = uint64(pick(t, []int{0, 0, 0, 1, 1000000000}, "evmval"))
	return e, g.tagList()
}
