package txval

// C16 Only correctly signed transactions paid by a signer are accepted.
//
// Oracles
//   (A) independent verifier (indep_test.go): validator accepted  =>  every signature set has >= M DISTINCT keys
//       of the set with a valid signature over the hash of the signed content, and payer = account of some set.
//       Applied to every transaction the tests produce (valid bases, invalid bases, every mutant).
//   (B) must-be-rejected, only for the mutation classes the property names: a byte substitution in the signed
//       content, in the payer, or in a signature of an accepted transaction that carries exactly M signatures
//       per set. Structural edits of scripts are judged by (A) alone.
//   A panic of the decoder/validator is reported as a violation (its contract is an error code).
//   (C) the verdict must not depend on how the object reached the validator: every judged tx draws an intake mode
//       (plain / GetSignatureAddresses() called first, as the tx pool does / verified twice), and signature
//       substitutions are also applied to the Sigs of an already validated object and re-verified: the verdict
//       must equal that of a fresh decode of the mutated bytes.

import (
	"fmt"
	"testing"

	"github.com/ontio/ontology/common"
	"github.com/ontio/ontology/core/types"
	"pgregory.net/rapid"

	"verifharness/internal/fix"
	"verifharness/internal/harn"
)

const (
	c16KeyDup   = "duplicate-key-in-multisig-counts-twice"
	c16KeyRecID = "eth-signature-recovery-byte-ignored"
)

const c16Rule = "txs with 1..16 signature sets (single key or m-of-n, n<=16) over the key zoo (P-224/256/384/521 ECDSA, SM2, Ed25519, ethereum secp256k1), " +
	"serialised by the harness, signed once; then byte substitutions (signed content / payer / signature) and structural script edits reusing the signatures; " +
	"non-trivial = multi-set tx or m-of-n with m<n, and every mutant; distinct = different (tx hash, mutation) description"

func c16Ev() *harn.Collector {
	ev := harn.For("C16").Rule(c16Rule)
	ev.Assume("ontology-crypto primitives (key decoding, single-signature verification, key ordering), go-ethereum PubkeyToAddress, sha256 and ripemd160 are trusted; the independent verifier shares no code with core/validation, core/signature, core/program or core/types")
	for m := intake(0); m < numIntake; m++ {
		ev.Floor("intake:"+m.String(), "judged", 0.2)
		ev.Floor("intake:"+m.String()+":accepted", "intake:"+m.String(), 0.05)
	}
	ev.Assume("a byte substitution in signed content or in a signature invalidates the signature except with cryptographically negligible probability")
	return ev
}

// ---------------------------------------------------------------------------------------------
// deterministic witnesses of the recorded / suspected findings

func witnessBody() bodySpec {
	return bodySpec{TxType: 0xd1, Nonce: 7, GasPrice: 0, GasLimit: 20000, Payload: appendVarBytes(nil, []byte{0x51})}
}

// witnessDupKey: script 2-of-3 [A, A, C], invocation = ONE signature of A pushed twice.
func witnessDupKey() (fails bool, detail string, raw []byte) {
	A, C := fix.Key(fix.KP256, 0), fix.Key(fix.KP256, 2)
	s := &setSpec{Multi: true, M: 2, Keys: []keyItem{{Z: A}, {Z: A}, {Z: C}}, Sigs: []sigItem{{Signer: A}}}
	tx := &txSpec{Body: witnessBody(), Sets: []*setSpec{s}}
	tx.Payer = specSetAddress(s)
	tx.sign()
	s.Sigs = append(s.Sigs, s.Sigs[0])
	raw, _ = tx.raw()
	v := runValidator(raw)
	iv := indepVerify(raw)
	return v.Accepted && !iv.OK, fmt.Sprintf("verify script %x with the single signature of %s pushed twice: validator %v; independent verifier: %s", s.verifyScript(), keyName(A), v, iv.Why), raw
}

// witnessRecID: single ethereum-type key; last byte of the signature replaced.
func witnessRecID() (fails bool, detail string, raw []byte) {
	E := fix.Key(fix.KEth, 0)
	s := &setSpec{M: 1, Keys: []keyItem{{Z: E}}, Sigs: []sigItem{{Signer: E}}}
	tx := &txSpec{Body: witnessBody(), Sets: []*setSpec{s}}
	tx.Payer = specSetAddress(s)
	tx.sign()
	base, lay := tx.raw()
	if !runValidator(base).Accepted {
		return false, "base tx not accepted", base
	}
	raw = append([]byte{}, base...)
	raw[lay.SigData[0].To-1] ^= 0x5a
	v := runValidator(raw)
	return v.Accepted, fmt.Sprintf("ethereum-type key %s, signature byte %d of %d (recovery id) xor 5a: validator %v", keyName(E), lay.SigData[0].To-1-lay.SigData[0].From, lay.SigData[0].To-lay.SigData[0].From, v), raw
}

// witnessShortKeccak: single ethereum-type key; signature = 0b 01 02 03. Regression witness of the repaired
// defect "short KECCAK256 signature panics the validator" (fix ff49a5ba in core/signature): never excluded.
func witnessShortKeccak() (fails bool, detail string, raw []byte) {
	E := fix.Key(fix.KEth, 0)
	s := &setSpec{M: 1, Keys: []keyItem{{Z: E}}, Sigs: []sigItem{{Data: []byte{0x0b, 1, 2, 3}}}}
	tx := &txSpec{Body: witnessBody(), Sets: []*setSpec{s}}
	tx.Payer = specSetAddress(s)
	raw, _ = tx.raw()
	v := runValidator(raw)
	return v.Panic != "", fmt.Sprintf("ethereum-type key %s with signature 0b010203: validator %v", keyName(E), v), raw
}

// witnessOffCurve: a single-key script pushing an UNCOMPRESSED point that is not on its curve (Y xor 1).
// Variant A: NIST-curve key + SM3withSM2-scheme signature (r=s=1); variant B: SM2 key + ECDSA-scheme signature.
// Go's elliptic operations panic on invalid points; the key decoder does not check curve membership.
// Regression witness of the repaired defect "off-curve key panics the validator" (fix 27c9fb98 in core/signature): never excluded.
func witnessOffCurve() (fails bool, detail string, raw []byte) {
	one := make([]byte, 32)
	one[31] = 1
	type v struct {
		z   *fix.ZooKey
		sig []byte
	}
	for _, w := range []v{{fix.Key(fix.KP256, 0), append(append([]byte{0x09, 0x00}, one...), one...)},
		{fix.Key(fix.KSM2, 0), append(append([]byte{0x01}, one...), one...)}} {
		kb := append([]byte{}, encodeKey(w.z, encUncompressed, nil)...)
		kb[len(kb)-1] ^= 1
		s := &setSpec{M: 1, Keys: []keyItem{{Z: w.z, Raw: kb}}, Sigs: []sigItem{{Data: w.sig}}}
		tx := &txSpec{Body: witnessBody(), Sets: []*setSpec{s}}
		raw, _ = tx.raw()
		if r := runValidator(raw); r.Panic != "" {
			return true, fmt.Sprintf("single-key script pushing off-curve uncompressed %s key %x with signature %x: validator %v", w.z.Kind, kb, w.sig, r), raw
		}
	}
	return false, "no panic", raw
}

type c16Known struct{ dup, recID bool }

// c16Replay replays the witnesses; a class is excluded only when its finding is listed AND still reproduces.
func c16Replay() c16Known {
	fix.Quiet()
	d, _, _ := witnessDupKey()
	r, _, _ := witnessRecID()
	return c16Known{dup: harn.Known("C16", c16KeyDup, d), recID: harn.Known("C16", c16KeyRecID, r)}
}

func TestC16_KnownWitnesses(t *testing.T) {
	ev := c16Ev()
	fix.Quiet()
	type w struct {
		key string
		f   func() (bool, string, []byte)
	}
	for _, x := range []w{{c16KeyDup, witnessDupKey}, {c16KeyRecID, witnessRecID},
		{"regression-off-curve-key-panic", witnessOffCurve}, {"regression-short-keccak-signature-panic", witnessShortKeccak}} {
		x := x
		name := x.key
		regression := len(name) > 11 && name[:11] == "regression-"
		t.Run(name, func(t *testing.T) {
			fails, detail, raw := x.f()
			ev.Case(true, "witness:"+name)
			ev.Class(fmt.Sprintf("witness:%s:fails=%v", name, fails))
			if fails && (regression || !harn.Known("C16", x.key, true)) {
				harn.Violation(t, "C16", map[string]string{"witness": name, "raw_tx": fmt.Sprintf("%x", raw)}, "%s", detail)
			}
		})
	}
}

// ---------------------------------------------------------------------------------------------
// recognisers of the known classes (as narrow as the root causes)

// isRecIDMutation: substitution of the LAST byte of a 66-byte KECCAK256 (0x0b) signature made by an ethereum-type key.
func isRecIDMutation(tx *txSpec, m byteMut) bool {
	if m.Sig == nil || m.Off != m.Sig.To-1 {
		return false
	}
	g := tx.Sets[m.Sig.Set].Sigs[m.Sig.Idx]
	return g.Signer != nil && g.Signer.Kind == fix.KEth && len(g.Data) == 66 && g.Data[0] == 0x0b
}

// ---------------------------------------------------------------------------------------------
// shared evaluation

// judge applies oracle (A) to one transaction; returns the verdict. excluded=true when the case falls into a known class.
func judge(t *rapid.T, ev *harn.Collector, kn c16Known, raw []byte, what string) (v verdict, excluded bool) {
	if kn.dup && hasDuplicateKeyScript(raw) {
		ev.Excluded()
		return v, true
	}
	mode := intake(uniR(t, 0, int(numIntake)-1, "intake"))
	v = runValidatorMode(raw, mode)
	ev.Class("judged")
	ev.Class("intake:" + mode.String())
	if v.Panic != "" {
		t.Fatalf("C16: decoder/validator PANICKED (%s) on %s (intake %s)\nraw tx %x", v.Panic, what, mode, raw)
	}
	if v.Inconsistent != "" {
		t.Fatalf("C16: verdict depends on the object's history: %s\ncase: %s\nraw tx %x", v.Inconsistent, what, raw)
	}
	if v.Accepted {
		ev.Class("intake:" + mode.String() + ":accepted")
		iv := indepVerify(raw)
		if !iv.OK {
			t.Fatalf("C16: validator ACCEPTED (intake %s) a transaction that does not meet the acceptance conditions: %s\ncase: %s\nraw tx %x", mode, iv.Why, what, raw)
		}
	}
	return v, false
}

func setsClass(n int) string {
	switch {
	case n == 1:
		return "1"
	case n <= 3:
		return "2-3"
	case n <= 8:
		return "4-8"
	}
	return "9-16"
}

func recordBase(ev *harn.Collector, tx *txSpec, v verdict) {
	ev.Class("base")
	if v.Accepted {
		ev.Class("base:accepted")
	} else {
		ev.Class("base:rejected")
	}
	ev.Class("base:sets:" + setsClass(len(tx.Sets)))
	for _, k := range kindsOf(tx) {
		ev.Class("base:kind:" + k)
	}
	multi, mlt := false, false
	for _, s := range tx.Sets {
		if s.Multi {
			multi = true
			if s.M < len(s.Keys) {
				mlt = true
			}
		}
	}
	if multi {
		ev.Class("base:has-multisig")
	}
	if mlt {
		ev.Class("base:has-m<n")
	}
}

// selfCheckCanonical compares the harness serialisation of a canonical spec with the repo's own builder
// (types.MutableTransaction): a harness self-test, not part of the property.
func selfCheckCanonical(t *rapid.T, tx *txSpec, raw []byte) {
	mtx := &types.MutableTransaction{TxType: types.TransactionType(tx.Body.TxType), Nonce: tx.Body.Nonce, GasPrice: tx.Body.GasPrice,
		GasLimit: tx.Body.GasLimit, Payer: tx.Payer}
	probe, err := types.TransactionFromRawBytes(append([]byte{}, raw...))
	if err != nil {
		t.Fatalf("HARNESS: canonical tx does not decode: %v\n%x", err, raw)
	}
	mtx.Payload = probe.Payload
	for _, s := range tx.Sets {
		sg := types.Sig{M: uint16(s.M)}
		for _, k := range s.Keys {
			sg.PubKeys = append(sg.PubKeys, k.Z.PublicKey)
		}
		for _, g := range s.Sigs {
			sg.SigData = append(sg.SigData, g.Data)
		}
		mtx.Sigs = append(mtx.Sigs, sg)
	}
	im, err := mtx.IntoImmutable()
	if err != nil {
		t.Fatalf("HARNESS: MutableTransaction cannot serialise the canonical spec: %v", err)
	}
	if string(im.ToArray()) != string(raw) {
		t.Fatalf("HARNESS: harness serialisation differs from MutableTransaction for a canonical spec\nharness %x\nrepo    %x", raw, im.ToArray())
	}
	h := tx.hash()
	if im.Hash() != common.Uint256(h) {
		t.Fatalf("HARNESS: hash mismatch")
	}
}

// ---------------------------------------------------------------------------------------------
// (B) byte substitutions in signed content, payer and signatures

func TestC16_ByteSubstitutions(t *testing.T) {
	ev := c16Ev()
	kn := c16Replay()
	ev.Floor("base:accepted", "base", 0.9)
	ev.Floor("mut:sig", "mut", 0.25)
	ev.Floor("sameobj", "mut:sig", 0.9)
	ev.Floor("sameobj:rejected", "sameobj", 0.9)
	ev.Floor("mut:payer", "mut", 0.1)
	ev.Floor("mut:unsigned", "mut", 0.25)
	ev.Floor("base:kind:EthSecp256k1", "base", 0.1)
	ev.Floor("base:kind:P521", "base", 0.02)
	ev.Floor("base:kind:SM2", "base", 0.1)
	ev.Floor("base:kind:Ed25519", "base", 0.1)
	ev.Floor("base:has-m<n", "base", 0.15)
	harn.Check(t, 400, 3000, func(t *rapid.T) {
		tx := genValidTx(t)
		raw, lay := tx.raw()
		selfCheckCanonical(t, tx, raw)
		desc := tx.describe()
		v, _ := judge(t, ev, kn, raw, "valid canonical base: "+desc)
		recordBase(ev, tx, v)
		h := tx.hash()
		id := fmt.Sprintf("%x", h[:6])
		ev.Case(tx.nontrivial(), "base "+id+" "+desc)
		if !v.Accepted {
			return // (B) speaks about accepted transactions only; the floor on base:accepted guards vacuity
		}
		// (4) one object that passed validation; signature mutations are also applied to ITS Sigs and re-verified
		obj := runValidator(raw)
		if !obj.Accepted {
			t.Fatalf("C16: verdict depends on the intake: tx [%s] was accepted before, a plain decode+verify of the same bytes gives %v\nraw tx %x", desc, obj, raw)
		}
		nm := 10
		for i := 0; i < nm; i++ {
			var m byteMut
			switch uniR(t, 0, 9, "mutClass") {
			case 0, 1, 2, 3:
				m = genUnsignedMut(t, lay)
			case 4:
				m = genPayerMut(t)
			default:
				m = genSigMut(t, lay)
			}
			if kn.recID && isRecIDMutation(tx, m) {
				ev.Excluded()
				continue
			}
			mraw := m.apply(raw)
			what := fmt.Sprintf("byte substitution %s of accepted tx [%s]", m, desc)
			mv, excl := judge(t, ev, kn, mraw, what)
			if excl {
				continue
			}
			ev.Class("mut")
			ev.Class("mut:" + m.Class)
			if mv.Accepted {
				t.Fatalf("C16: %s is STILL ACCEPTED (must be rejected)\noriginal %x\nmutated  %x", what, raw, mraw)
			}
			if !mv.Decoded {
				ev.Class("mut:" + m.Class + ":rejected-undecodable")
			} else {
				ev.Class("mut:" + m.Class + ":rejected-by-validator")
			}
			if m.Sig != nil {
				if g := tx.Sets[m.Sig.Set].Sigs[m.Sig.Idx]; g.Signer != nil {
					ev.Class("mut:sig:" + g.Signer.Kind.String())
				}
				// same-object variant: the validated object's invocation script gets the same substitution
				isp := lay.Invoke[m.Sig.Set]
				orig := obj.Tx.Sigs[m.Sig.Set].Invoke
				if len(orig) != isp.To-isp.From {
					t.Fatalf("HARNESS: layout mismatch for invocation script of set %d", m.Sig.Set)
				}
				mutated := append([]byte{}, orig...)
				mutated[m.Off-isp.From] ^= m.Xor
				obj.Tx.Sigs[m.Sig.Set].Invoke = mutated
				acc2, pan := reverify(obj.Tx)
				obj.Tx.Sigs[m.Sig.Set].Invoke = orig
				ev.Class("sameobj")
				if pan != "" {
					t.Fatalf("C16: validator PANICKED (%s) re-verifying an object after %s", pan, what)
				}
				if acc2 != mv.Accepted {
					t.Fatalf("C16: %s applied to the Sigs of the ALREADY VALIDATED object: re-verification accepted=%v, but a fresh decode of the mutated bytes gives %v\noriginal %x\nmutated  %x", what, acc2, mv, raw, mraw)
				}
				if acc2 {
					ev.Class("sameobj:accepted")
				} else {
					ev.Class("sameobj:rejected")
				}
			}
			ev.Case(true, "mut "+id+" "+m.String())
		}
	})
}

// ---------------------------------------------------------------------------------------------
// (A) structural edits of scripts, reusing the signatures of an accepted base

func TestC16_StructuralEdits(t *testing.T) {
	ev := c16Ev()
	kn := c16Replay()
	names := structMutNames()
	for _, n := range names {
		ev.Floor("struct:"+n, "struct", 0.01)
	}
	ev.Floor("struct:accepted", "struct", 0.15)
	ev.Floor("struct:rejected", "struct", 0.15)
	harn.Check(t, 320, 2400, func(t *rapid.T) {
		tx := genValidTx(t)
		raw, _ := tx.raw()
		desc := tx.describe()
		v, _ := judge(t, ev, kn, raw, "valid canonical base: "+desc)
		recordBase(ev, tx, v)
		h := tx.hash()
		id := fmt.Sprintf("%x", h[:6])
		ev.Case(tx.nontrivial(), "base "+id+" "+desc)
		for i := 0; i < 8; i++ {
			mtx := tx.clone()
			depth := 1
			if uniR(t, 0, 3, "stack") == 0 {
				depth = 2 // two edits on top of each other
			}
			var applied string
			for d := 0; d < depth; d++ {
				start := uniR(t, 0, len(structMuts)-1, "edit")
				for k := 0; k < len(structMuts); k++ {
					sm := structMuts[(start+k)%len(structMuts)]
					if how := sm.Apply(t, mtx); how != "" {
						ev.Class("struct:" + sm.Name)
						applied += sm.Name + "(" + how + ") "
						break
					}
				}
			}
			if applied == "" {
				continue
			}
			mraw, _ := mtx.raw()
			what := fmt.Sprintf("structural edit %son tx [%s] giving [%s]", applied, desc, mtx.describe())
			mv, excl := judge(t, ev, kn, mraw, what)
			if excl {
				continue
			}
			ev.Class("struct")
			if mv.Accepted {
				ev.Class("struct:accepted")
			} else {
				ev.Class("struct:rejected")
			}
			ev.Case(true, "edit "+id+" "+applied)
		}
	})
}

// ---------------------------------------------------------------------------------------------
// (A) transactions that are properly signed but violate one acceptance condition by construction

func TestC16_InvalidBases(t *testing.T) {
	ev := c16Ev()
	kn := c16Replay()
	ev.Floor("invalid:rejected", "invalid", 0.5)
	// this test's bases are invalid by construction: nothing is accepted through any intake, so the
	// acceptance floors of the shared collector do not apply to this process
	for m := intake(0); m < numIntake; m++ {
		ev.Floor("intake:"+m.String()+":accepted", "intake:"+m.String(), 0)
	}
	harn.Check(t, 600, 4800, func(t *rapid.T) {
		tx := &txSpec{Body: genBody(t)}
		ns := genNSets(t)
		if ns > 6 {
			ns = 6
		}
		for i := 0; i < ns; i++ {
			tx.Sets = append(tx.Sets, genSet(t, fmt.Sprintf("set%d", i), 6))
		}
		pi := uniR(t, 0, ns-1, "payerSet")
		tx.Payer = specSetAddress(tx.Sets[pi])
		tx.Note = fmt.Sprintf("set%d", pi)
		ps := tx.Sets[pi]
		var how string
		defect := uniR(t, 0, 7, "defect")
		tag := [...]string{"payer-nonsigner", "payer-random", "payer-related", "m-1-sigs", "one-key-signs-m-times", "key-listed-m-times", "outsider-sig", "empty-invocation"}[defect]
		switch defect {
		case 0: // payer = account of a key that signs nothing
			o := drawKey(t, nil, "payerKey")
			for tries := 0; tries < 8; tries++ {
				a := specSetAddress(&setSpec{Keys: []keyItem{{Z: o}}, M: 1})
				clash := false
				for _, s := range tx.Sets {
					if specSetAddress(s) == a {
						clash = true
					}
				}
				if !clash {
					tx.Payer = a
					break
				}
				o = fix.Key(o.Kind, (o.Idx+1)%zooCount[o.Kind])
			}
			how = "payer=account of non-signer " + keyName(o)
		case 1: // payer = arbitrary bytes
			b := rapid.SliceOfN(rapid.Byte(), 20, 20).Draw(t, "payerBytes")
			copy(tx.Payer[:], b)
			how = fmt.Sprintf("payer=random %x", b)
		case 2: // payer = hash160 of the (canonical) script of a single ethereum-type signer, or the account of the same keys with another m
			if !ps.Multi && ps.Keys[0].Z.Kind == fix.KEth {
				tx.Payer = hash160(ps.verifyScript())
				how = "payer=hash160(script) of ethereum-type signer"
			} else if ps.Multi && len(ps.Keys) > 1 {
				alt := ps.clone()
				alt.M = ps.M%len(ps.Keys) + 1
				tx.Payer = specSetAddress(alt)
				how = fmt.Sprintf("payer=account of the same keys with m=%d", alt.M)
			} else {
				tx.Payer = common.ADDRESS_EMPTY
				how = "payer=zero address"
			}
			for _, s := range tx.Sets {
				if specSetAddress(s) == tx.Payer {
					how = "" // accidentally valid
				}
			}
		case 3: // one signature too few
			_, s := pickSet(t, tx, anySet)
			s.Sigs = s.Sigs[:len(s.Sigs)-1]
			how = "m-1 signatures in " + s.describe()
		case 4: // m signatures, all by the same member key (fresh signatures, different bytes)
			_, s := pickSet(t, tx, func(s *setSpec) bool { return s.Multi && s.M >= 2 })
			if s != nil {
				for i := range s.Sigs {
					s.Sigs[i] = sigItem{Signer: s.Sigs[0].Signer}
				}
				how = "all m signatures by one member in " + s.describe()
			}
		case 5: // same, and the script lists that key m times (the recorded finding's class)
			_, s := pickSet(t, tx, func(s *setSpec) bool { return s.Multi && s.M >= 2 })
			if s != nil {
				a := s.Sigs[0].Signer
				for i := 1; i < len(s.Sigs); i++ {
					b := s.Sigs[i].Signer
					for k := range s.Keys {
						if s.Keys[k].Z == b {
							s.Keys[k] = keyItem{Z: a}
						}
					}
					s.Sigs[i] = sigItem{Signer: a}
				}
				if s == ps {
					// the account changes with the script; keep the payer a signer account so that only distinctness is at stake
					tx.Payer = specSetAddress(s)
				}
				how = "key listed m times and signing m times in " + s.describe()
			}
		case 6: // one signature by an outsider
			_, s := pickSet(t, tx, anySet)
			gi := uniR(t, 0, len(s.Sigs)-1, "sig")
			s.Sigs[gi] = sigItem{Signer: outsider(t, s)}
			how = "outsider signature in " + s.describe()
		default: // member of another kind signs with the right key but one set has no signature at all
			_, s := pickSet(t, tx, anySet)
			s.Sigs = nil
			how = "empty invocation script in " + s.describe()
		}
		if how == "" {
			ev.Class("invalid:not-applicable")
			return
		}
		tx.sign()
		raw, _ := tx.raw()
		desc := how + " | " + tx.describe()
		v, excl := judge(t, ev, kn, raw, "properly signed tx violating one condition: "+desc)
		if excl {
			return
		}
		ev.Class("invalid")
		ev.Class("invalid:" + tag)
		if v.Accepted {
			ev.Class("invalid:accepted")
		} else {
			ev.Class("invalid:rejected")
		}
		ev.Case(true, "invalid "+desc)
	})
}
