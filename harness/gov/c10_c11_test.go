package gov

// C10 Governance fee split never distributes more than it is splitting; every credit is withdrawable.
// C11 Governance holds exactly the ONT participants have staked; nobody withdraws more than deposited and unfrozen.
//
// One stateful harness (native sandbox over a 7-peer VBFT genesis, network id 3), two oracles (hist_test.go).
// Each Test function is one process with its own generator profile; TestC10_* judge the C10 oracle,
// TestC11_* the C11 oracle; a recovered panic inside a native call is a violation of either.

import (
	"strings"
	"testing"

	"github.com/ontio/ontology/common"
	"pgregory.net/rapid"

	"verifharness/internal/harn"
)

const (
	ruleC10 = "stateful histories over the governance contract (7 genesis peers + 3 candidate nodes, 2 extra owners, 4 authorizers; " +
		"21 action kinds, ~70% valid-by-construction from the observed state, rest arbitrary arguments/signers; advancing height/time; " +
		"0-9 warm-up epochs so that executeSplit2 is normally active). Public keys are hex strings: ~8% of the valid-by-construction " +
		"steps (every kind that names a peer) and part of the arbitrary ones pass the key in another spelling of the same bytes " +
		"(upper-case, one upper-case digit, mixed case), and about a quarter of the registerCandidate steps offer a key that is " +
		"already in the pool again in such a spelling (preferably a peer others have staked on); the reference model identifies a peer " +
		"by the decoded key bytes, so per settlement the credits are still bounded by the amount being split whatever the spelling. Non-trivial: the history contains an epoch change in split2 mode " +
		"that credited somebody while at least one authorizer (not the node owner) held a validated or withdraw-pending position. " +
		"Distinct: different action/outcome sequence."
	ruleC11 = "same harness (incl. alternative hex spellings of the same key bytes in every call that names a peer). Non-trivial: the history contains a successful quitNode or blackNode followed later by a successful " +
		"withdraw that paid ONT out of governance. Distinct: different action/outcome sequence. Every successful withdraw is also " +
		"judged against an independent release model kept only from the arguments of the successful calls (per address and per address/peer pair). " +
		"Every method that takes a list of peers (withdraw, authorizeForPeer, unAuthorizeForPeer with parallel amount lists, blackNode) is also " +
		"called with the same peer named 2-3 times in one list (~30% of the state-built withdraws, ~18% of the authorize/un-authorize calls, ~15% of " +
		"the blackNode calls, a quarter of the arbitrary lists; sometimes with another peer in between, and in the respelt steps in different " +
		"spellings): amounts that are each valid on their own (1..unfrozen pos, multiples of MinAuthorizePos up to the position / the headroom " +
		"and the payer's ONT) and whose sum is below, equal to, or above what the state offers for that peer. The release model and the judgement " +
		"of a withdraw take the entries one after the other: all entries of a peer together take no more than was unfrozen on it, the unfrozen " +
		"record shrinks by exactly their sum, and no more ONT is paid than the call asked for."
	assume1 = "set-up: the ONT owner moves Σ genesis InitPos ONT to the governance address (initConfig only records the genesis stakes), as on every production network"
	assume2 = "set-up: on network id 3 the whole ONG supply is minted to bookkeeper 0; it moves an ONG pool to the ONT contract address (pays ONG unbound to governance), to a bank account (governance income) and to the cast (candidate fee)"
	assume4 = "witness sets contain only key-holding accounts, never a contract address (governance, ONT, zero address): no transaction can carry those"
	assume3 = "one simulated transaction = one NativeService call on a CacheDB over the genesis state, committed on success and reset on error (fix.Native), with the signer set given as witnesses"
)

func collector(prop string) *harn.Collector {
	ev := harn.For(prop)
	ev.Assume(assume1).Assume(assume2).Assume(assume3).Assume(assume4)
	fl := func(num, den string, min float64) { ev.Floor(num, den, min) }
	// every action kind must both succeed and fail often enough to mean something
	fl("registerCandidate:ok", "registerCandidate", 0.20)
	fl("quitNode:ok", "quitNode", 0.15)
	fl("authorizeForPeer:ok", "authorizeForPeer", 0.30)
	fl("unAuthorizeForPeer:ok", "unAuthorizeForPeer", 0.20)
	fl("withdraw:ok", "withdraw", 0.25)
	fl("commitDpos:ok", "commitDpos", 0.40)
	fl("blackNode:ok", "blackNode", 0.20)
	fl("intent:arbitrary:failed", "", 1.0) // at least one failing arbitrary action per history on average
	fl("spelling:alt", "", 1.0)            // at least one step with respelt keys per history on average
	if prop == "C10" {
		ev.Rule(ruleC10)
		fl("epoch:split2", "epoch", 0.50)
		fl("epoch:split2:authorizers", "epoch:split2", 0.20)
		fl("epoch:split2:authorizerCredited", "epoch:split2", 0.05)
		fl("epoch:split2:withdrawPending", "epoch:split2", 0.05)
		fl("epoch:split2:dapp>0", "epoch:split2", 0.03)
		fl("withdrawFee:ok:paid>0", "withdrawFee", 0.30)
		// an in-pool key offered again in another spelling; at all, and of a peer whose authorize records a second
		// pool entry would share
		fl("hist:respelt-pool-key", "", 0.25)
		fl("hist:respelt-pool-key:staked", "", 0.12)
		fl("hist:respelt-pool-key:then-split2", "", 0.10)
		fl("hist:nontrivial", "", 0.30)
	} else {
		ev.Rule(ruleC11)
		fl("withdraw:ok:paid>0", "withdraw", 0.20)
		fl("withdraw:ok:fromQuitPeer", "withdraw:ok:paid>0", 0.05)
		fl("withdraw:ok:fromBlackedPeer", "withdraw:ok:paid>0", 0.05)
		fl("unAuthorizeForPeer:ok:exceedsTopUp:candidate", "unAuthorizeForPeer:ok", 0.025)
		fl("unAuthorizeForPeer:ok:exceedsTopUp:consensus", "unAuthorizeForPeer:ok", 0.04)
		fl("withdraw:ok:afterTopUpUnauth:candidate", "withdraw:ok:paid>0", 0.02)
		fl("withdraw:ok:afterTopUpUnauth:consensus", "withdraw:ok:paid>0", 0.03)
		fl("hist:reblacklist-with-undrained-penalty", "", 0.03)
		fl("blackNode:ok:reblacklist-with-undrained-penalty", "blackNode:ok", 0.03)
		fl("addInitPos:ok", "addInitPos", 0.30)
		fl("reduceInitPos:ok", "reduceInitPos", 0.15)
		// the same peer named 2-3 times in one list (entries are processed one after the other)
		fl("withdraw:repeat", "withdraw", 0.10)
		fl("withdraw:repeat:exceeds:failed", "withdraw:repeat", 0.12)
		fl("withdraw:repeat:equal:ok", "withdraw:repeat", 0.12)
		fl("withdraw:repeat:below:ok", "withdraw:repeat", 0.08)
		fl("withdraw:ok:repeat:paid>0", "withdraw:ok:paid>0", 0.08)
		fl("unAuthorizeForPeer:repeat", "unAuthorizeForPeer", 0.06)
		fl("authorizeForPeer:repeat", "authorizeForPeer", 0.06)
		fl("hist:repeated-peer-in-list", "", 0.50)
		fl("hist:nontrivial", "", 0.15)
	}
	return ev
}

// runHistories is the shared history driver.
func runHistories(t *testing.T, prop string, prof *profile, steps, quickN, thoroughN int) {
	w := newWorld(t)
	ev := collector(prop)
	if harn.Thorough() {
		steps *= 2
	}
	harn.Check(t, quickN, thoroughN, func(rt *rapid.T) {
		h := &hist{t: rt, w: w, n: w.chain.NewNative(), ev: ev, prop: prop, prof: prof, g: gen{rt},
			deposited: map[common.Address]uint64{}, withdrawn: map[common.Address]uint64{},
			goneQuit: map[string]bool{}, goneBlack: map[string]bool{}, counts: map[string]int{},
			mdl: newModel(w), topUp: map[pairKey]int{}, topUpKind: map[pairKey]string{}}
		h.setup()
		h.n.Height = uint32(h.g.of("startHeight", baseHeight, baseHeight, baseHeight, 414100, 2_799_990))
		h.n.Time += 100
		h.s = h.readSnap()
		if h.s.ontGov != nGenesis*w.genesisPos || h.s.sumStake != h.s.ontGov || h.s.view != 1 {
			rt.Fatalf("harness: unexpected genesis state: ONT(gov)=%d Σstake=%d view=%d", h.s.ontGov, h.s.sumStake, h.s.view)
		}

		// warm-up: epochs by the admin (normally past view 6 so that executeSplit2 is the active path) and
		// authorization limits raised by some genesis peers; judged like every other action
		warm := int(h.g.of("warmEpochs", 7, 7, 7, 7, 8, 8, 9, 6, 3, 0))
		h.warm = true
		for i := 0; i < warm; i++ {
			h.tick(1, uint32(h.g.of("warmDt", 1, 10, 600)))
			h.exec(h.mk("commitDpos", "commitDpos", nil, []common.Address{w.admin}, true, "warm-up"))
		}
		for i := 0; i < nGenesis; i++ {
			if h.g.pct("warmMaxAuth") < 60 {
				nd := w.nodes[i]
				h.tick(1, 1)
				a := h.validActionFor("changeMaxAuthorization", nd.pub)
				if a != nil {
					h.exec(a)
				}
			}
		}
		if h.g.pct("prelude") < prof.prelude {
			h.prelude()
		}
		h.warm = false
		h.log = append(h.log, "|")

		n := steps/2 + h.g.n("steps", steps+1)
		for i := 0; i < n; i++ {
			h.drawTick()
			h.exec(h.next())
		}
		if prop == "C10" {
			h.drain()
		}

		nontrivial := h.nt10
		if prop == "C11" {
			nontrivial = h.nt11
		}
		if nontrivial {
			ev.Class("hist:nontrivial")
		}
		if h.reblack {
			ev.Class("hist:reblacklist-with-undrained-penalty")
		}
		if h.dupTried {
			ev.Class("hist:respelt-pool-key")
		}
		if h.dupStaked {
			ev.Class("hist:respelt-pool-key:staked")
		}
		if h.repeated {
			ev.Class("hist:repeated-peer-in-list")
		}
		if h.dupSplit {
			ev.Class("hist:respelt-pool-key:then-split2")
		}
		ev.Case(nontrivial, prof.name+" "+strings.Join(h.log, " "))
	})
}

// validActionFor builds the full-limit changeMaxAuthorization of one node (warm-up helper).
func (h *hist) validActionFor(kind, pub string) *action {
	p, ok := h.s.pool[pub]
	if !ok {
		return nil
	}
	limit := uint64(h.s.gp.PosLimit) * p.initPos
	return h.mkMaxAuth(p, uint32(limit))
}

func TestC10_SplitMixedHistories(t *testing.T)   { runHistories(t, "C10", profMixed, 40, 200, 9000) }
func TestC10_SplitFocusedHistories(t *testing.T) { runHistories(t, "C10", profSplit, 40, 200, 9000) }
func TestC11_StakeMixedHistories(t *testing.T)   { runHistories(t, "C11", profMixed, 40, 200, 9000) }
func TestC11_StakeCustodyHistories(t *testing.T) { runHistories(t, "C11", profCustody, 40, 200, 9000) }

// prelude builds, through ordinary judged calls, the situation random histories of this length rarely reach: an
// eighth node ranked below the top K (a candidate that is not a consensus node) on which an authorizer holds a
// position counted in an earlier epoch (CandidatePos), while every consensus node carries larger positions.
func (h *hist) prelude() {
	w, s := h.w, h.s
	run := func(a *action) bool {
		h.tick(1, 1)
		return h.exec(a)
	}
	nd := w.nodes[nGenesis+h.g.n("preNode", nExtra)]
	if _, in := s.pool[nd.pub]; in || s.isBlack(nd.pub) {
		return
	}
	if !run(h.mkRegister(nd.pub, nd.defOwner, s.gp.MinInitStake, []common.Address{nd.defOwner}, true)) {
		return
	}
	for _, pub := range h.s.poolKeys {
		if p := h.s.pool[pub]; h.s.attr(pub).MaxAuthorize == 0 {
			run(h.mkMaxAuth(p, uint32(uint64(h.s.gp.PosLimit)*p.initPos)))
		}
	}
	minPos := h.s.gp2.MinAuthorizePos
	for i := 0; i < nGenesis; i++ {
		u := w.authorizers[h.g.n("preUser", len(w.authorizers))]
		pos := minPos * uint32(3+h.g.n("prePos", 6))
		run(h.mkAuthorize("authorizeForPeer", "authorizeForPeer", u, []string{w.nodes[i].pub}, []uint32{pos}, []common.Address{u}, true))
	}
	for i, k := 0, 1+h.g.n("preCandUsers", 2); i < k; i++ {
		u := w.authorizers[h.g.n("preCandUser", len(w.authorizers))]
		if u == nd.defOwner {
			continue
		}
		pos := minPos * uint32(1+h.g.n("preCandPos", 2))
		run(h.mkAuthorize("authorizeForPeer", "authorizeForPeer", u, []string{nd.pub}, []uint32{pos}, []common.Address{u}, true))
	}
	run(h.mk("commitDpos", "commitDpos", nil, []common.Address{w.admin}, true, "prelude"))
}
