package vm

// C15 (continued): mutation histories. KEYS / VALUES / Serialize must present a map in sorted key
// order WHATEVER sequence of updates produced it — an implementation is free to cache a key index
// instead of sorting on every call, but then every update path (insert, overwrite, remove, remove of
// a missing key, re-insertion, emptying) has to keep it sorted. Programs build one map of 3–40
// entries (at top level, or nested in an array / struct / map, optionally replaced by the result of
// Deserialize(Serialize(·)) so that the map was created by the decoder), then run a generated
// history of SETITEM of new keys, SETITEM overwriting a present key (also through another
// representation of the same key bytes: 1 / 0x01 / true), REMOVE of present and absent keys,
// re-insertion of removed keys and Serialize/Deserialize round trips, interleaved with observations
// (KEYS, VALUES, Serialize of the map or of its parent, Serialize∘Deserialize∘Serialize,
// KEYS of the deserialized map, notify / storage put of the bytes, HASKEY, PICKITEM); the
// observations are packed into the returned array.
//
// Oracles: (1) reference model — a harness-side map from key bytes to (latest key value, value)
// replays the history; every observation must equal what the model gives with the keys in
// ascending byte order (serializations are compared with the independent reference encoder of
// C14); (2) metamorphic — K executions in fresh engines over identical state must agree on
// success/failure, value, notifications and write set.

import (
	"bytes"
	"crypto/sha256"
	"encoding/hex"
	"fmt"
	"math/big"
	"sort"
	"strings"
	"testing"

	scneovm "github.com/ontio/ontology/smartcontract/service/neovm"
	"github.com/ontio/ontology/vm/neovm"
	"pgregory.net/rapid"

	"verifharness/internal/harn"
)

const c15HistRule = "map mutation histories: one map of 3–40 entries (keys: 0–3 letters of a–d, raw bytes 00/01/02/0000, small and edge integers, booleans — so different representations of the same key bytes collide; values: small ints, 0–4 bytes, booleans), at top level or nested in an array/struct/map, in 1/3 of the cases first replaced by Deserialize(Serialize(·)); then 1–45 generated steps: SETITEM of a new key, SETITEM overwriting a present key (same or other representation), REMOVE of a present key, REMOVE of an absent key, re-insertion of a removed key, Serialize/Deserialize round trip of the map (modes mixed / draining towards 0–2 entries / growing), interleaved with and followed by 1–6 observations (KEYS, VALUES, Serialize of map or parent, re-serialize, KEYS of the deserialized map, notify / put of the bytes, HASKEY, PICKITEM) packed into the result; oracle 1: every observation equals the sorted-key reference computed by a harness model of the history (independent reference encoder); oracle 2: 16 executions in fresh engines agree; non-trivial = an order observation (KEYS/VALUES/Serialize) of the map with >= 2 entries made after at least one effective mutation of the history; distinct = different program bytes"

// uni draws a uniform value of 0..n-1 from boolean draws (rapid's integer generators favour small values).
func uni(t *rapid.T, label string, n int) int {
	if n <= 1 {
		return 0
	}
	bits := 0
	for 1<<uint(bits) < n {
		bits++
	}
	v := 0
	for try := 0; try < 6; try++ {
		v = 0
		for i := 0; i < bits; i++ {
			v <<= 1
			if rapid.Bool().Draw(t, label) {
				v |= 1
			}
		}
		if v < n {
			return v
		}
	}
	return v % n
}

// fromNeoBytes: little-endian two's complement -> integer (independent of the code under test).
func fromNeoBytes(b []byte) *big.Int {
	if len(b) == 0 {
		return big.NewInt(0)
	}
	be := make([]byte, len(b))
	for i := range b {
		be[len(b)-1-i] = b[i]
	}
	v := new(big.Int).SetBytes(be)
	if b[len(b)-1]&0x80 != 0 {
		v.Sub(v, new(big.Int).Lsh(big.NewInt(1), uint(8*len(b))))
	}
	return v
}

var histIntEdges = []int64{127, 128, 255, 256, -128, -129, 65535, 1 << 31, 1<<63 - 1, -1 << 63}

func genHistKey(t *rapid.T) node {
	switch uni(t, "kkind", 8) {
	case 0, 1, 2:
		n := uni(t, "klen", 4)
		b := make([]byte, n)
		for i := range b {
			b[i] = byte('a' + uni(t, "kb", 4))
		}
		return node{K: kBytes, B: b}
	case 3:
		return node{K: kBytes, B: [][]byte{{0}, {1}, {2}, {0, 0}, {0x80}, {0xff}, {1, 0}}[uni(t, "kraw", 7)]}
	case 4, 5:
		return node{K: kInt, I: fmt.Sprint(uni(t, "ki", 44) - 3)}
	case 6:
		return node{K: kInt, I: fmt.Sprint(histIntEdges[uni(t, "kedge", len(histIntEdges))])}
	default:
		return node{K: kBool, O: rapid.Bool().Draw(t, "kbool")}
	}
}

func genHistVal(t *rapid.T) node {
	switch uni(t, "vkind", 4) {
	case 0, 1:
		return node{K: kInt, I: fmt.Sprint(uni(t, "vi", 304) - 3)}
	case 2:
		n := uni(t, "vlen", 5)
		b := make([]byte, n)
		for i := range b {
			b[i] = rapid.Byte().Draw(t, "vb")
		}
		return node{K: kBytes, B: b}
	default:
		return node{K: kBool, O: rapid.Bool().Draw(t, "vbool")}
	}
}

// keyReprs lists the primitive values whose map key bytes are kb.
func keyReprs(kb []byte) []node {
	out := []node{{K: kBytes, B: append([]byte{}, kb...)}}
	if v := fromNeoBytes(kb); bytes.Equal(neoBytes(v), kb) {
		out = append(out, node{K: kInt, I: v.String()})
	}
	if bytes.Equal(kb, []byte{1}) {
		out = append(out, node{K: kBool, O: true})
	}
	if bytes.Equal(kb, []byte{0}) {
		out = append(out, node{K: kBool, O: false})
	}
	return out
}

type histEntry struct{ k, v int }

// histModel is the reference: key bytes -> (key value as last written, value).
type histModel struct {
	s       *spec
	m       int
	cur     map[string]histEntry
	removed []string // key bytes that were removed at some point (may be present again)
}

func (h *histModel) sortedKeys() []string {
	ks := make([]string, 0, len(h.cur))
	for k := range h.cur {
		ks = append(ks, k)
	}
	sort.Strings(ks)
	return ks
}

// sync writes the model's entries into the description of the map node (for the reference encoder).
func (h *histModel) sync() {
	n := &h.s.N[h.m]
	n.MK, n.E = nil, nil
	for _, k := range h.sortedKeys() {
		n.MK = append(n.MK, h.cur[k].k)
		n.E = append(n.E, h.cur[k].v)
	}
}

func (h *histModel) absentRemoved() []string {
	var out []string
	seen := map[string]bool{}
	for _, k := range h.removed {
		if _, ok := h.cur[k]; !ok && !seen[k] {
			seen[k] = true
			out = append(out, k)
		}
	}
	return out
}

func (h *histModel) freshKey(t *rapid.T) int {
	for try := 0; ; try++ {
		kn := genHistKey(t)
		if try > 20 {
			kn = node{K: kBytes, B: []byte(fmt.Sprintf("zz%d-%d", len(h.cur), try))}
		}
		tmp := spec{N: []node{kn}}
		if _, ok := h.cur[string(tmp.keyBytes(0))]; !ok {
			return h.s.add(kn)
		}
	}
}

func canonList(s *spec, ids []int) string {
	var sb strings.Builder
	sb.WriteString("[")
	for i, id := range ids {
		if i > 0 {
			sb.WriteString(",")
		}
		sb.WriteString(s.canonOf(id))
	}
	sb.WriteString("]")
	return sb.String()
}

func TestC15_MapHistories(t *testing.T) {
	ev := harn.For("C15").Rule(c15HistRule)
	ev.Assume("fresh in-memory state (overlay over an empty memory store with the script deployed as a contract) is the same state for every run")
	ev.Floor("hist:order-observed-after-remove>=2", "hist", 0.50)
	ev.Floor("hist:order-observed-after-mutation>=2", "hist", 0.70)
	ev.Floor("hist:nested", "hist", 0.30)
	ev.Floor("hist:deserialized", "hist", 0.15)
	ev.Floor("hist:left<=1", "hist", 0.04)
	ev.Floor("step:remove-present", "step", 0.15)
	ev.Floor("step:remove-absent", "step", 0.04)
	ev.Floor("step:set-new", "step", 0.10)
	ev.Floor("step:overwrite", "step", 0.08)
	ev.Floor("step:reinsert", "step", 0.04)
	w := newWorker(ev)
	defer w.Close()
	const K = 16

	harn.Check(t, 400, 24000, func(t *rapid.T) {
		s := &spec{}
		m := s.add(node{K: kMap})
		h := &histModel{s: s, m: m, cur: map[string]histEntry{}}
		var n0 int
		switch uni(t, "n0kind", 4) {
		case 0:
			n0 = 3 + uni(t, "n0small", 3) // 3..5
		case 1:
			n0 = 6 + uni(t, "n0mid", 5) // 6..10 (around the 8-slot bucket)
		default:
			n0 = 3 + uni(t, "n0", 38) // 3..40
		}
		for i := 0; i < n0; i++ {
			k := h.freshKey(t)
			h.cur[string(s.keyBytes(k))] = histEntry{k, s.add(genHistVal(t))}
		}
		// initial insertion order is generated (the description keeps the order of the draws)
		for _, k := range h.sortedKeys() {
			s.N[m].MK = append(s.N[m].MK, h.cur[k].k)
			s.N[m].E = append(s.N[m].E, h.cur[k].v)
		}
		for i := len(s.N[m].E) - 1; i > 0; i-- {
			j := uni(t, "shuffle", i+1)
			s.N[m].MK[i], s.N[m].MK[j] = s.N[m].MK[j], s.N[m].MK[i]
			s.N[m].E[i], s.N[m].E[j] = s.N[m].E[j], s.N[m].E[i]
		}
		nest := []string{"", "", kArray, kStruct, kMap}[uni(t, "nest", 5)]
		root, nestPos, nestKey := m, 0, 0
		switch nest {
		case kArray, kStruct:
			nestPos = uni(t, "nestPos", 3)
			var e []int
			for i := 0; i < 3; i++ {
				if i == nestPos {
					e = append(e, m)
				} else {
					e = append(e, s.add(genHistVal(t)))
				}
			}
			root = s.add(node{K: nest, E: e})
		case kMap:
			k1 := s.add(node{K: kBytes, B: []byte("a")})
			nestKey = s.add(node{K: kBytes, B: []byte("wide")})
			k3 := s.add(node{K: kBytes, B: []byte("z")})
			root = s.add(node{K: kMap, MK: []int{k3, nestKey, k1}, E: []int{s.add(genHistVal(t)), m, s.add(genHistVal(t))}})
		}
		s.Root = root
		c := compileValue(s)
		deser := uni(t, "deser", 3) == 0
		if deser {
			// registry[root] = Deserialize(Serialize(root)); registry[m] = the map inside it
			c.op(neovm.DUPFROMALTSTACK)
			c.pushIndex(c.cidx[root])
			c.ref(root)
			c.syscall(scneovm.RUNTIME_SERIALIZE_NAME)
			c.syscall(scneovm.RUNTIME_DESERIALIZE_NAME)
			c.op(neovm.SETITEM)
			if nest != "" {
				c.op(neovm.DUPFROMALTSTACK)
				c.pushIndex(c.cidx[m])
				c.ref(root)
				if nest == kMap {
					c.pushPrim(nestKey)
				} else {
					c.pushIndex(nestPos)
				}
				c.op(neovm.PICKITEM)
				c.op(neovm.SETITEM)
			}
		}

		var hist []string     // readable history
		var expected []string // canonical form of every observation, in program order
		var obsNames []string
		stepClasses := map[string]int{}
		removedPresent, mutated := false, false
		orderAfterRemove, orderAfterMutation := false, false
		minLeft := n0

		keyStr := func(id int) string { return s.canonOf(id) }
		observe := func() {
			h.sync()
			kinds := []string{"keys", "values", "serialize", "serialize", "reserialize", "deser-keys", "keys-notify", "serialize-put", "haskey", "pickitem"}
			kind := kinds[uni(t, "obs", len(kinds))]
			if kind == "pickitem" && len(h.cur) == 0 {
				kind = "haskey"
			}
			target := m
			order := false
			sorted := h.sortedKeys()
			switch kind {
			case "keys", "keys-notify", "deser-keys":
				c.ref(m)
				if kind == "deser-keys" {
					c.syscall(scneovm.RUNTIME_SERIALIZE_NAME)
					c.syscall(scneovm.RUNTIME_DESERIALIZE_NAME)
				}
				c.op(neovm.KEYS)
				if kind == "keys-notify" {
					c.op(neovm.DUP)
					c.syscall(scneovm.RUNTIME_NOTIFY_NAME)
				}
				var ids []int
				for _, k := range sorted {
					ids = append(ids, h.cur[k].k)
				}
				expected = append(expected, canonList(s, ids))
				order = true
			case "values":
				c.ref(m)
				c.op(neovm.VALUES)
				var ids []int
				for _, k := range sorted {
					ids = append(ids, h.cur[k].v)
				}
				expected = append(expected, canonList(s, ids))
				order = true
			case "serialize", "reserialize", "serialize-put":
				if rapid.Bool().Draw(t, "ofRoot") {
					target = root
				}
				c.ref(target)
				c.syscall(scneovm.RUNTIME_SERIALIZE_NAME)
				switch kind {
				case "reserialize":
					c.syscall(scneovm.RUNTIME_DESERIALIZE_NAME)
					c.syscall(scneovm.RUNTIME_SERIALIZE_NAME)
				case "serialize-put":
					c.op(neovm.DUP)
					c.pushBytes([]byte("key"))
					c.syscall(scneovm.STORAGE_GETCONTEXT_NAME)
					c.syscall(scneovm.STORAGE_PUT_NAME)
				}
				expected = append(expected, "b'"+hex.EncodeToString(s.refEncode(nil, target))+"'")
				order = true
			case "haskey", "pickitem":
				var kid int
				present := kind == "pickitem" || (len(h.cur) > 0 && uni(t, "present", 3) > 0)
				if present {
					kb := sorted[uni(t, "okey", len(sorted))]
					reprs := keyReprs([]byte(kb))
					kid = s.add(reprs[uni(t, "orepr", len(reprs))])
				} else if ar := h.absentRemoved(); len(ar) > 0 && rapid.Bool().Draw(t, "oremoved") {
					kid = s.add(node{K: kBytes, B: []byte(ar[uni(t, "oabs", len(ar))])})
				} else {
					kid = h.freshKey(t)
				}
				c.ref(m)
				c.pushPrim(kid)
				if kind == "haskey" {
					c.op(neovm.HASKEY)
					if present {
						expected = append(expected, "T")
					} else {
						expected = append(expected, "F")
					}
				} else {
					c.op(neovm.PICKITEM)
					expected = append(expected, s.canonOf(h.cur[string(s.keyBytes(kid))].v))
				}
				kind += ":" + keyStr(kid)
			}
			if order && len(h.cur) >= 2 {
				if removedPresent {
					orderAfterRemove = true
				}
				if mutated {
					orderAfterMutation = true
				}
			}
			name := kind
			if target != m {
				name += "(parent)"
			}
			obsNames = append(obsNames, "obs:"+strings.SplitN(kind, ":", 2)[0])
			hist = append(hist, "?"+name)
		}

		mode := []string{"mixed", "mixed", "drain", "grow"}[uni(t, "mode", 4)]
		var nsteps int
		switch mode {
		case "drain":
			nsteps = n0 - 2 + uni(t, "nsteps", 6) // ends around 0..3 entries when most steps remove
			if nsteps < 1 {
				nsteps = 1
			}
			if nsteps > 45 {
				nsteps = 45
			}
		default:
			nsteps = 1 + uni(t, "nsteps", 14)
		}
		nobs := 0
		for i := 0; i < nsteps; i++ {
			var kind string
			r := uni(t, "step", 16)
			switch mode {
			case "drain":
				switch {
				case r < 11:
					kind = "remove-present"
				case r < 12:
					kind = "remove-absent"
				case r < 13:
					kind = "reinsert"
				case r < 14:
					kind = "overwrite"
				case r < 15:
					kind = "set-new"
				default:
					kind = "observe"
				}
			case "grow":
				switch {
				case r < 7:
					kind = "set-new"
				case r < 9:
					kind = "overwrite"
				case r < 12:
					kind = "remove-present"
				case r < 13:
					kind = "remove-absent"
				case r < 14:
					kind = "reinsert"
				case r < 15:
					kind = "roundtrip"
				default:
					kind = "observe"
				}
			default:
				switch {
				case r < 3:
					kind = "set-new"
				case r < 5:
					kind = "overwrite"
				case r < 9:
					kind = "remove-present"
				case r < 11:
					kind = "remove-absent"
				case r < 13:
					kind = "reinsert"
				case r < 14:
					kind = "roundtrip"
				default:
					kind = "observe"
				}
			}
			// valid by construction from the model's state
			if (kind == "remove-present" || kind == "overwrite") && len(h.cur) == 0 {
				kind = "set-new"
			}
			if kind == "reinsert" && len(h.absentRemoved()) == 0 {
				kind = "remove-present"
				if len(h.cur) == 0 {
					kind = "set-new"
				}
			}
			if kind == "roundtrip" && nest != "" {
				kind = "remove-absent" // the parent would keep the old map
			}
			if kind == "observe" && nobs >= 3 {
				kind = "remove-absent"
			}
			if kind == "set-new" && len(h.cur) >= 60 {
				kind = "remove-present"
			}
			switch kind {
			case "set-new", "reinsert":
				var kid int
				if kind == "set-new" {
					kid = h.freshKey(t)
				} else {
					ar := h.absentRemoved()
					reprs := keyReprs([]byte(ar[uni(t, "rkey", len(ar))]))
					kid = s.add(reprs[uni(t, "rrepr", len(reprs))])
				}
				vid := s.add(genHistVal(t))
				c.ref(m)
				c.pushPrim(kid)
				c.pushPrim(vid)
				c.op(neovm.SETITEM)
				h.cur[string(s.keyBytes(kid))] = histEntry{kid, vid}
				hist = append(hist, "S "+keyStr(kid)+"="+s.canonOf(vid))
				mutated = true
			case "overwrite":
				sorted := h.sortedKeys()
				kb := sorted[uni(t, "wkey", len(sorted))]
				kid := h.cur[kb].k
				if rapid.Bool().Draw(t, "wother") {
					reprs := keyReprs([]byte(kb))
					kid = s.add(reprs[uni(t, "wrepr", len(reprs))])
					if s.N[kid].K != s.N[h.cur[kb].k].K {
						stepClasses["overwrite-other-representation"]++
					}
				}
				vid := s.add(genHistVal(t))
				c.ref(m)
				c.pushPrim(kid)
				c.pushPrim(vid)
				c.op(neovm.SETITEM)
				h.cur[kb] = histEntry{kid, vid}
				hist = append(hist, "W "+keyStr(kid)+"="+s.canonOf(vid))
				mutated = true
			case "remove-present":
				sorted := h.sortedKeys()
				// smallest, largest and inner keys all matter for an index kept in order
				var kb string
				switch uni(t, "xwhich", 4) {
				case 0:
					kb = sorted[0]
				case 1:
					kb = sorted[len(sorted)-1]
				default:
					kb = sorted[uni(t, "xkey", len(sorted))]
				}
				kid := h.cur[kb].k
				if rapid.Bool().Draw(t, "xother") {
					reprs := keyReprs([]byte(kb))
					kid = s.add(reprs[uni(t, "xrepr", len(reprs))])
				}
				c.ref(m)
				c.pushPrim(kid)
				c.op(neovm.REMOVE)
				delete(h.cur, kb)
				h.removed = append(h.removed, kb)
				hist = append(hist, "X "+keyStr(kid))
				removedPresent, mutated = true, true
			case "remove-absent":
				var kid int
				if ar := h.absentRemoved(); len(ar) > 0 && rapid.Bool().Draw(t, "aremoved") {
					kid = s.add(node{K: kBytes, B: []byte(ar[uni(t, "akey", len(ar))])}) // removing it twice
				} else {
					kid = h.freshKey(t)
				}
				c.ref(m)
				c.pushPrim(kid)
				c.op(neovm.REMOVE)
				hist = append(hist, "x "+keyStr(kid))
			case "roundtrip":
				c.op(neovm.DUPFROMALTSTACK)
				c.pushIndex(c.cidx[m])
				c.ref(m)
				c.syscall(scneovm.RUNTIME_SERIALIZE_NAME)
				c.syscall(scneovm.RUNTIME_DESERIALIZE_NAME)
				c.op(neovm.SETITEM)
				hist = append(hist, "RT")
			case "observe":
				observe()
				nobs++
			}
			if kind != "observe" {
				stepClasses[kind]++
			}
			if len(h.cur) < minLeft {
				minLeft = len(h.cur)
			}
		}
		for i := 1 + uni(t, "nfinal", 3); i > 0; i-- {
			observe()
			nobs++
		}
		c.pushIndex(nobs)
		c.op(neovm.PACK)

		var rev []string
		for i := len(expected) - 1; i >= 0; i-- {
			rev = append(rev, expected[i])
		}
		want := "OK [" + strings.Join(rev, ",") + "]"

		sum := sha256.Sum256(c.code)
		desc := fmt.Sprintf("history code#%x n0=%d nest=%q deser=%v mode=%s left=%d: %s", sum[:6], n0, nest, deser, mode, len(h.cur), strings.Join(hist, "; "))
		full := desc
		if len(desc) > 590 {
			desc = desc[:590]
		}

		r := callWorker(w, &wreq{Op: "run", Raw: c.code, K: K, Full: true})
		if r.timedOut {
			ev.Class("timeout")
			return
		}
		if r.died {
			t.Fatalf("the process executing the program DIED (%s); program %s code=%s", diagHead(r.diag), full, harn.Hex(c.code))
		}
		if r.res.Bad != "" || len(r.res.Runs) == 0 {
			t.Fatalf("harness error (not a finding): %s", r.res.Bad)
		}
		if r.res.Panic != "" {
			t.Fatalf("panic while executing the program: %s; program %s code=%s", r.res.Panic, full, harn.Hex(c.code))
		}
		for _, o := range r.res.Runs {
			if strings.HasPrefix(o, "harness:") {
				t.Fatalf("harness error (not a finding): %s", o)
			}
		}
		// oracle 1: every execution returns what the model of the history gives in sorted key order
		for i, o := range r.res.Runs {
			got := o
			if j := strings.Index(o, " | notify:"); j >= 0 {
				got = o[:j]
			}
			if got != want {
				t.Fatalf("%d of %d executions returned observations that differ from the sorted-key reference of the map's history:\n  got:  %s\n  want: %s\n(observations are packed last-first: %s)\nprogram: %s\ncode: %s",
					r.res.Counts[i], K, got, want, strings.Join(obsNames, " "), full, harn.Hex(c.code))
			}
		}
		// oracle 2: all executions agree on everything observable (value, notifications, write set)
		obs, counts, _ := distinctObservable(r.res)
		if len(obs) > 1 {
			var sb strings.Builder
			for i := range obs {
				sb.WriteString(fmt.Sprintf("\n  %d× %s", counts[i], clipOutcome(obs[i])))
			}
			t.Fatalf("%d executions of the same program on the same state gave %d different results:%s\nprogram: %s\ncode: %s", K, len(obs), sb.String(), full, harn.Hex(c.code))
		}

		ev.Class("hist")
		ev.Class("ran")
		ev.Class("result:ok")
		ev.Class("hist:mode-" + mode)
		if nest != "" {
			ev.Class("hist:nested")
			ev.Class("hist:nested-" + nest)
		}
		if deser {
			ev.Class("hist:deserialized")
		}
		if orderAfterRemove {
			ev.Class("hist:order-observed-after-remove>=2")
		}
		if orderAfterMutation {
			ev.Class("hist:order-observed-after-mutation>=2")
		}
		switch {
		case minLeft <= 1:
			ev.Class("hist:left<=1")
			if minLeft == 0 {
				ev.Class("hist:left=0")
			}
		case minLeft == 2:
			ev.Class("hist:left=2")
		default:
			ev.Class("hist:left>=3")
		}
		if n0 > 8 {
			ev.Class("hist:n0>8")
		}
		var sc []string
		for k := range stepClasses {
			sc = append(sc, k)
		}
		sort.Strings(sc)
		for _, k := range sc {
			for i := 0; i < stepClasses[k]; i++ {
				ev.Class("step:" + k)
				if k != "overwrite-other-representation" {
					ev.Class("step")
				}
			}
		}
		for _, o := range obsNames {
			ev.Class(o)
		}
		ev.Case(orderAfterMutation, desc)
	})
}
