package txval

// Transaction builder used by C16 and C17: a structural description (txSpec) of an Ontology-format
// transaction with 1..16 signature sets that is serialised by the harness itself (NOT through
// types.MutableTransaction), so that verification/invocation scripts can be re-encoded freely:
// alternative accepted key encodings, generated key order, PUSHBYTES / PUSHDATA1/2/4 pushes,
// n/m via PUSHn or bytes, duplicate keys, junk. Signatures are produced once per spec and are
// kept when a spec is cloned and re-encoded (signing is randomised and is the dominant cost).

import (
	"crypto/sha256"
	"encoding/binary"
	"fmt"
	"sort"
	"strings"

	"github.com/ontio/ontology-crypto/ec"
	"github.com/ontio/ontology-crypto/keypair"
	"github.com/ontio/ontology/common"
	"github.com/ontio/ontology/core/signature"
	"pgregory.net/rapid"

	"verifharness/internal/fix"
)

// ---------------------------------------------------------------------------------------------
// key zoo slice used here

var zooCount = map[fix.KeyKind]int{fix.KP256: 8, fix.KP224: 5, fix.KP384: 5, fix.KP521: 3, fix.KSM2: 5, fix.KEd25519: 5, fix.KEth: 6, fix.KSecp256k1: 5}

// weights of the kinds when a key is drawn (P-521 verification costs ~7 ms and decoding a compressed P-224 key
// ~10 ms inside the node's own script parser, so these are rarer).
var kindWeights = []struct {
	k fix.KeyKind
	w int
}{{fix.KP256, 6}, {fix.KEth, 4}, {fix.KP224, 1}, {fix.KP384, 2}, {fix.KSM2, 3}, {fix.KEd25519, 3}, {fix.KP521, 1}, {fix.KSecp256k1, 3}}

var kindDraw []fix.KeyKind

func init() {
	for _, kw := range kindWeights {
		for i := 0; i < kw.w; i++ {
			kindDraw = append(kindDraw, kw.k)
		}
	}
}

// uniR draws an (almost exactly) uniform integer in [lo, hi]. rapid.IntRange is deliberately biased towards
// small values (geometric bit length), which starves classes when it is used to pick alternatives or offsets.
func uniR(t *rapid.T, lo, hi int, label string) int {
	if hi < lo {
		panic(fmt.Sprintf("harness: empty range [%d,%d] for %s", lo, hi, label))
	}
	n := hi - lo + 1
	if n == 1 {
		return lo
	}
	k := 4
	for x := n - 1; x > 0; x >>= 1 {
		k++
	}
	v := 0
	for _, b := range rapid.SliceOfN(rapid.Bool(), k, k).Draw(t, label) {
		v <<= 1
		if b {
			v |= 1
		}
	}
	return lo + v%n
}

func pick[E any](t *rapid.T, from []E, label string) E { return from[uniR(t, 0, len(from)-1, label)] }

func keyName(z *fix.ZooKey) string { return fmt.Sprintf("%s#%d", z.Kind, z.Idx) }

func canonKey(z *fix.ZooKey) []byte { return keypair.SerializePublicKey(z.PublicKey) }

// drawKey draws a zoo key that is not in used (linear probing keeps the draw deterministic).
func drawKey(t *rapid.T, used map[string]bool, label string) *fix.ZooKey {
	k := pick(t, kindDraw, label+".kind")
	i := uniR(t, 0, zooCount[k]-1, label+".idx")
	for tries := 0; tries < 64; tries++ {
		z := fix.Key(k, i)
		if used == nil || !used[keyName(z)] {
			if used != nil {
				used[keyName(z)] = true
			}
			return z
		}
		i++
		if i >= zooCount[k] {
			i = 0
			k = fix.KeyKind((int(k) + 1) % len(fix.AllKinds()))
		}
	}
	panic("zoo exhausted")
}

// ---------------------------------------------------------------------------------------------
// key encodings

type keyEnc int

const (
	encCanon           keyEnc = iota // keypair.SerializePublicKey
	encPrefixed                      // P-256 only: 0x12 0x02 || compressed point
	encUncompressed                  // EC keys: (label ||) 0x04 X Y
	encPrefixedUncompr               // P-256 only: 0x12 0x02 0x04 X Y
	encTrailing                      // EC keys: canonical || junk (the decoder checks a minimum length only)
	numEnc
)

func (e keyEnc) String() string {
	return [...]string{"canon", "prefixed", "uncompressed", "prefixed-uncompressed", "trailing"}[e]
}

func ecPub(z *fix.ZooKey) *ec.PublicKey {
	p, _ := z.PublicKey.(*ec.PublicKey)
	return p
}

// encodeKey returns the bytes of z in the given encoding, or nil when the encoding does not exist for the kind.
func encodeKey(z *fix.ZooKey, e keyEnc, junk []byte) []byte {
	c := canonKey(z)
	switch e {
	case encCanon:
		return c
	case encPrefixed:
		if z.Kind != fix.KP256 {
			return nil
		}
		return append([]byte{0x12, 0x02}, c...)
	case encUncompressed:
		p := ecPub(z)
		if p == nil {
			return nil
		}
		u := ec.EncodePublicKey(p.PublicKey, false)
		if z.Kind == fix.KP256 {
			return u
		}
		return append(append([]byte{}, c[:2]...), u...)
	case encPrefixedUncompr:
		if z.Kind != fix.KP256 {
			return nil
		}
		return append([]byte{0x12, 0x02}, ec.EncodePublicKey(ecPub(z).PublicKey, false)...)
	case encTrailing:
		if ecPub(z) == nil {
			return nil
		}
		if len(junk) == 0 {
			junk = []byte{0x00}
		}
		return append(append([]byte{}, c...), junk...)
	}
	return nil
}

// acceptedEnc[kind][enc] = the crypto library's decoder accepts the encoding AND maps it to the same key
// (observed once per process; generators draw alternative encodings only from this table).
var acceptedEnc = map[fix.KeyKind][]keyEnc{}

func init() {
	for _, k := range fix.AllKinds() {
		z := fix.Key(k, 0)
		for e := keyEnc(0); e < numEnc; e++ {
			b := encodeKey(z, e, []byte{0xaa, 0x55})
			if b == nil {
				continue
			}
			pk, err := keypair.DeserializePublicKey(b)
			if err != nil || string(keypair.SerializePublicKey(pk)) != string(canonKey(z)) {
				continue
			}
			acceptedEnc[k] = append(acceptedEnc[k], e)
		}
	}
}

// ---------------------------------------------------------------------------------------------
// script pieces

const (
	opPUSHDATA1     = 0x4c
	opPUSHDATA2     = 0x4d
	opPUSHDATA4     = 0x4e
	opPUSH1         = 0x51
	opCHECKSIG      = 0xac
	opCHECKMULTISIG = 0xae
)

type pushStyle int

const (
	pushMin pushStyle = iota // what program.ProgramBuilder.PushBytes emits
	pushData1
	pushData2
	pushData4
)

func (p pushStyle) String() string {
	return [...]string{"min", "PUSHDATA1", "PUSHDATA2", "PUSHDATA4"}[p]
}

func pushData(out []byte, b []byte, st pushStyle) []byte {
	n := len(b)
	if st == pushData1 && n >= 0x100 {
		st = pushMin
	}
	if st == pushData2 && n >= 0x10000 {
		st = pushMin
	}
	switch st {
	case pushData1:
		out = append(out, opPUSHDATA1, byte(n))
	case pushData2:
		out = append(out, opPUSHDATA2, byte(n), byte(n>>8))
	case pushData4:
		out = append(out, opPUSHDATA4, byte(n), byte(n>>8), byte(n>>16), byte(n>>24))
	default:
		switch {
		case n >= 1 && n <= 75:
			out = append(out, byte(n))
		case n < 0x100:
			out = append(out, opPUSHDATA1, byte(n))
		case n < 0x10000:
			out = append(out, opPUSHDATA2, byte(n), byte(n>>8))
		default:
			out = append(out, opPUSHDATA4, byte(n), byte(n>>8), byte(n>>16), byte(n>>24))
		}
	}
	return append(out, b...)
}

type numStyle int

const (
	numOp       numStyle = iota // PUSH0 / PUSH1..PUSH16 (canonical)
	numBytes1                   // PUSHBYTES1 v
	numBytesBE2                 // PUSHBYTES2 00 v   (big-endian zero padded)
	numBytesLE2                 // PUSHBYTES2 v 00   (little-endian zero padded)
	numData1                    // PUSHDATA1 01 v
)

func (s numStyle) String() string {
	return [...]string{"PUSHn", "bytes1", "bytesBE2", "bytesLE2", "PUSHDATA1"}[s]
}

func pushNum(out []byte, v int, st numStyle) []byte {
	switch st {
	case numBytes1:
		return append(out, 0x01, byte(v))
	case numBytesBE2:
		return append(out, 0x02, 0x00, byte(v))
	case numBytesLE2:
		return append(out, 0x02, byte(v), 0x00)
	case numData1:
		return append(out, opPUSHDATA1, 0x01, byte(v))
	}
	if v == 0 {
		return append(out, 0x00)
	}
	if v >= 1 && v <= 16 {
		return append(out, byte(opPUSH1+v-1))
	}
	if v < 0x80 {
		return append(out, 0x01, byte(v))
	}
	return append(out, 0x02, byte(v), byte(v>>8))
}

// ---------------------------------------------------------------------------------------------
// specs

type keyItem struct {
	Z    *fix.ZooKey
	Enc  keyEnc
	Push pushStyle
	Junk []byte
	Raw  []byte // when non-nil: pushed verbatim instead of an encoding of Z
}

func (k keyItem) bytes() []byte {
	if k.Raw != nil {
		return k.Raw
	}
	return encodeKey(k.Z, k.Enc, k.Junk)
}

type sigItem struct {
	Signer *fix.ZooKey // nil for raw data
	Push   pushStyle
	Data   []byte // signature bytes; produced by sign() when nil
}

type setSpec struct {
	Multi     bool
	Keys      []keyItem // script order
	M         int
	MStyle    numStyle
	NStyle    numStyle
	NValue    int // value pushed as n; 0 = len(Keys)
	Sigs      []sigItem
	RawVerify []byte // verbatim verification script when non-nil
	RawInvoke []byte // verbatim invocation script when non-nil
}

func (s *setSpec) clone() *setSpec {
	c := *s
	c.Keys = append([]keyItem{}, s.Keys...)
	c.Sigs = append([]sigItem{}, s.Sigs...)
	return &c
}

func (s *setSpec) verifyScript() []byte {
	if s.RawVerify != nil {
		return s.RawVerify
	}
	var out []byte
	if !s.Multi {
		out = pushData(out, s.Keys[0].bytes(), s.Keys[0].Push)
		return append(out, opCHECKSIG)
	}
	out = pushNum(out, s.M, s.MStyle)
	for _, k := range s.Keys {
		out = pushData(out, k.bytes(), k.Push)
	}
	n := s.NValue
	if n == 0 {
		n = len(s.Keys)
	}
	out = pushNum(out, n, s.NStyle)
	return append(out, opCHECKMULTISIG)
}

func (s *setSpec) describe() string {
	var sb strings.Builder
	if s.RawVerify != nil {
		return fmt.Sprintf("rawverify(%x)", s.RawVerify)
	}
	if s.Multi {
		fmt.Fprintf(&sb, "%d/%d", s.M, len(s.Keys))
		if s.MStyle != numOp {
			fmt.Fprintf(&sb, "[m:%s]", s.MStyle)
		}
		if s.NStyle != numOp {
			fmt.Fprintf(&sb, "[n:%s]", s.NStyle)
		}
		if s.NValue != 0 {
			fmt.Fprintf(&sb, "[n=%d]", s.NValue)
		}
	}
	sb.WriteString("(")
	for i, k := range s.Keys {
		if i > 0 {
			sb.WriteString(",")
		}
		if k.Raw != nil {
			fmt.Fprintf(&sb, "raw:%x", k.Raw)
			continue
		}
		sb.WriteString(keyName(k.Z))
		if k.Enc != encCanon {
			sb.WriteString(":" + k.Enc.String())
		}
		if k.Push != pushMin {
			sb.WriteString(":" + k.Push.String())
		}
	}
	sb.WriteString(")<")
	if s.RawInvoke != nil {
		fmt.Fprintf(&sb, "rawinvoke:%d", len(s.RawInvoke))
	}
	for i, g := range s.Sigs {
		if i > 0 {
			sb.WriteString(",")
		}
		if g.Signer != nil {
			sb.WriteString(keyName(g.Signer))
		} else {
			fmt.Fprintf(&sb, "raw%d", len(g.Data))
		}
		if g.Push != pushMin {
			sb.WriteString(":" + g.Push.String())
		}
	}
	sb.WriteString(">")
	return sb.String()
}

type bodySpec struct {
	TxType   byte
	Nonce    uint32
	GasPrice uint64
	GasLimit uint64
	Payload  []byte // serialised payload
}

type txSpec struct {
	Body  bodySpec
	Payer common.Address
	Sets  []*setSpec
	Note  string // how the payer was chosen etc.
}

func (t *txSpec) clone() *txSpec {
	c := *t
	c.Sets = make([]*setSpec, len(t.Sets))
	for i, s := range t.Sets {
		c.Sets[i] = s.clone()
	}
	return &c
}

func (t *txSpec) unsigned() []byte {
	out := []byte{0x00, t.Body.TxType}
	out = binary.LittleEndian.AppendUint32(out, t.Body.Nonce)
	out = binary.LittleEndian.AppendUint64(out, t.Body.GasPrice)
	out = binary.LittleEndian.AppendUint64(out, t.Body.GasLimit)
	out = append(out, t.Payer[:]...)
	out = append(out, t.Body.Payload...)
	return append(out, 0x00) // attributes
}

const payerOff = 2 + 4 + 8 + 8

func (t *txSpec) hash() common.Uint256 {
	h1 := sha256.Sum256(t.unsigned())
	return sha256.Sum256(h1[:])
}

func appendVarUint(out []byte, v uint64) []byte {
	switch {
	case v < 0xfd:
		return append(out, byte(v))
	case v <= 0xffff:
		return append(out, 0xfd, byte(v), byte(v>>8))
	case v <= 0xffffffff:
		return append(out, 0xfe, byte(v), byte(v>>8), byte(v>>16), byte(v>>24))
	}
	out = append(out, 0xff)
	return binary.LittleEndian.AppendUint64(out, v)
}

func appendVarBytes(out, b []byte) []byte { return append(appendVarUint(out, uint64(len(b))), b...) }

// sign produces the missing signatures (over the hash of the current unsigned part).
func (t *txSpec) sign() {
	h := t.hash()
	for _, s := range t.Sets {
		for i := range s.Sigs {
			if s.Sigs[i].Data == nil && s.Sigs[i].Signer != nil {
				s.Sigs[i].Data = signWith(s.Sigs[i].Signer, h[:])
			}
		}
	}
}

func signWith(z *fix.ZooKey, msg []byte) []byte {
	sig, err := signature.Sign(z, msg)
	if err != nil {
		panic(fmt.Sprintf("harness: signing with %s failed: %v", keyName(z), err))
	}
	return sig
}

// layout records where things ended up in the raw bytes.
type span struct{ Set, Idx, From, To int }

type layout struct {
	UnsignedLen int
	SigData     []span // bytes of each signature (without the push opcode)
	Verify      []span // verification script bytes per set
	Invoke      []span // invocation script bytes per set
}

func (t *txSpec) raw() ([]byte, *layout) {
	out := t.unsigned()
	lay := &layout{UnsignedLen: len(out)}
	out = appendVarUint(out, uint64(len(t.Sets)))
	for si, s := range t.Sets {
		var inv []byte
		var rel []span
		if s.RawInvoke != nil {
			inv = s.RawInvoke
		} else {
			for gi, g := range s.Sigs {
				inv = pushData(inv, g.Data, g.Push)
				rel = append(rel, span{si, gi, len(inv) - len(g.Data), len(inv)})
			}
		}
		out = appendVarUint(out, uint64(len(inv)))
		base := len(out)
		out = append(out, inv...)
		lay.Invoke = append(lay.Invoke, span{si, 0, base, len(out)})
		for _, r := range rel {
			lay.SigData = append(lay.SigData, span{r.Set, r.Idx, base + r.From, base + r.To})
		}
		v := s.verifyScript()
		out = appendVarUint(out, uint64(len(v)))
		base = len(out)
		out = append(out, v...)
		lay.Verify = append(lay.Verify, span{si, 0, base, len(out)})
	}
	return out, lay
}

func (t *txSpec) describe() string {
	var sb strings.Builder
	fmt.Fprintf(&sb, "type=%02x nonce=%d gas=%d/%d pl=%d payer=%s sets=[", t.Body.TxType, t.Body.Nonce, t.Body.GasPrice, t.Body.GasLimit,
		len(t.Body.Payload), t.Note)
	for i, s := range t.Sets {
		if i > 0 {
			sb.WriteString(" ")
		}
		sb.WriteString(s.describe())
	}
	sb.WriteString("]")
	return sb.String()
}

// ---------------------------------------------------------------------------------------------
// generators

func genBody(t *rapid.T) bodySpec {
	b := bodySpec{
		Nonce:    rapid.Uint32().Draw(t, "nonce"),
		GasPrice: rapid.OneOf(rapid.Uint64Range(0, 5000), rapid.Uint64()).Draw(t, "gasPrice"),
		GasLimit: rapid.OneOf(rapid.Uint64Range(20000, 100000), rapid.Uint64()).Draw(t, "gasLimit"),
	}
	codeLen := pick(t, []int{0, 1, 3, 8, 20, 40, 252, 253, 300}, "codeLen")
	code := rapid.SliceOfN(rapid.Byte(), codeLen, codeLen).Draw(t, "code")
	switch uniR(t, 0, 5, "txType") {
	case 0:
		b.TxType = 0xd2 // InvokeWasm
		b.Payload = appendVarBytes(nil, code)
	case 1: // Deploy (NeoVM flags 0 or 1; never wasm: that would need a valid module)
		b.TxType = 0xd0
		p := appendVarBytes(nil, code)
		p = append(p, byte(uniR(t, 0, 1, "vmFlags")))
		for _, f := range []string{"name", "version", "author", "email", "desc"} {
			p = appendVarBytes(p, []byte(rapid.StringOfN(rapid.RuneFrom([]rune("abcXYZ 019_-")), 0, 12, -1).Draw(t, f)))
		}
		b.Payload = p
	default:
		b.TxType = 0xd1 // InvokeNeo
		b.Payload = appendVarBytes(nil, code)
	}
	return b
}

// genSet draws a canonical, valid-by-construction signature set: a single key, or m-of-n with the keys in
// canonical (sorted) order, exactly m signers in generated order.
func genSet(t *rapid.T, label string, maxN int) *setSpec {
	used := map[string]bool{}
	if !rapid.Bool().Draw(t, label+".multi") {
		z := drawKey(t, used, label+".key")
		return &setSpec{Keys: []keyItem{{Z: z}}, M: 1, Sigs: []sigItem{{Signer: z}}}
	}
	var n int
	switch w := uniR(t, 0, 19, label+".nclass"); {
	case w < 12:
		n = uniR(t, 2, 4, label+".n")
	case w < 17:
		n = uniR(t, 5, 8, label+".n")
	default:
		n = uniR(t, 9, 16, label+".n")
	}
	if n > maxN {
		n = maxN
	}
	var m int
	switch uniR(t, 0, 4, label+".mclass") {
	case 0:
		m = 1
	case 1:
		m = n
	default:
		m = uniR(t, 1, n, label+".m")
	}
	s := &setSpec{Multi: true, M: m}
	var zs []*fix.ZooKey
	for i := 0; i < n; i++ {
		zs = append(zs, drawKey(t, used, fmt.Sprintf("%s.k%d", label, i)))
	}
	for _, z := range sortZoo(zs) {
		s.Keys = append(s.Keys, keyItem{Z: z})
	}
	perm := rapid.Permutation(zs).Draw(t, label+".signers")
	for _, z := range perm[:m] {
		s.Sigs = append(s.Sigs, sigItem{Signer: z})
	}
	return s
}

func sortZoo(zs []*fix.ZooKey) []*fix.ZooKey {
	pks := make([]keypair.PublicKey, len(zs))
	by := map[string]*fix.ZooKey{}
	for i, z := range zs {
		pks[i] = z.PublicKey
		by[string(canonKey(z))] = z
	}
	pks = keypair.SortPublicKeys(pks)
	out := make([]*fix.ZooKey, len(zs))
	for i, p := range pks {
		out[i] = by[string(keypair.SerializePublicKey(p))]
	}
	return out
}

func genNSets(t *rapid.T) int {
	switch w := uniR(t, 0, 99, "nsetsClass"); {
	case w < 35:
		return 1
	case w < 55:
		return 2
	case w < 68:
		return 3
	case w < 92:
		return uniR(t, 4, 8, "nsets")
	default:
		return uniR(t, 9, 16, "nsets")
	}
}

// genValidTx draws a canonical transaction that satisfies the acceptance conditions by construction
// (payer = account of one of the sets), signed.
func genValidTx(t *rapid.T) *txSpec {
	tx := &txSpec{Body: genBody(t)}
	ns := genNSets(t)
	maxN := 16
	if ns > 3 {
		maxN = 5
		if uniR(t, 0, 9, "bigInMany") == 0 {
			maxN = 16
		}
	}
	for i := 0; i < ns; i++ {
		tx.Sets = append(tx.Sets, genSet(t, fmt.Sprintf("set%d", i), maxN))
	}
	pi := uniR(t, 0, ns-1, "payerSet")
	tx.Payer = specSetAddress(tx.Sets[pi])
	tx.Note = fmt.Sprintf("set%d", pi)
	tx.sign()
	return tx
}

// specSetAddress is the account of a set as the harness's independent derivation defines it (see indep_test.go).
func specSetAddress(s *setSpec) common.Address {
	var ks []keypair.PublicKey
	for _, k := range s.Keys {
		ks = append(ks, k.Z.PublicKey)
	}
	a, ok := indepSetAddress(ks, s.M, s.Multi)
	if !ok {
		panic("harness: no address for generated set")
	}
	return a
}

func (t *txSpec) nontrivial() bool {
	if len(t.Sets) > 1 {
		return true
	}
	for _, s := range t.Sets {
		if s.Multi && s.M < len(s.Keys) {
			return true
		}
	}
	return false
}

func kindsOf(t *txSpec) []string {
	seen := map[string]bool{}
	for _, s := range t.Sets {
		for _, k := range s.Keys {
			if k.Z != nil {
				seen[k.Z.Kind.String()] = true
			}
		}
	}
	var out []string
	for k := range seen {
		out = append(out, k)
	}
	sort.Strings(out)
	return out
}
