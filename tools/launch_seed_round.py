#!/usr/bin/env python3
"""Prepare /tmp/seed2-<id> worktrees and TASK.md for a second round of seeded changes."""
import json,subprocess,sys,os
ids=sys.argv[1:]
tmpl=open('/tmp/seed_prompt.txt').read()
props={json.loads(l)['id']:json.loads(l) for l in open('/verif/properties.jsonl')}
for i in ids:
    wt='/tmp/seed-%s'%i
    subprocess.check_call(['git','-C','/repo','worktree','add','-q',wt,'HEAD'])
    os.makedirs(wt+'/SEED',exist_ok=True)
    p=props[i]
    json.dump({k:p[k] for k in ('id','title','statement','quantifier','anchors')},open(wt+'/SEED/property.json','w'),indent=1)
    prev=[]
    for d in ('/verif/seeded/%s'%i,'/verif/seeded/%s-r2'%i,'/verif/seeded/%s-r3'%i,'/verif/seeded/%s-r4'%i,'/verif/seeded/%s-r5'%i):
        if os.path.exists(d+'/meta.json'):
            m=json.load(open(d+'/meta.json')); prev.append('- '+m.get('summary','')+' (files: '+', '.join(m.get('files_changed',[]))+')')
    t=tmpl.replace('@ID@',i)
    if prev:
        t+="\n\nIMPORTANT — an earlier engineer already delivered the following breaking change(s) for this property; yours must be DIFFERENT in kind and touch a different mechanism/site (ideally a different file or function named in the property's anchors, or a different clause of the property statement):\n"+"\n".join(prev)+"\n"
    open(wt+'/SEED/TASK.md','w').write(t)
    print('prepared',wt)
