package chainq

// Shared helpers of the chain-query checks (C40, C42, C43): EIP-155 transaction builders over the
// key zoo's secp256k1 keys, a tiny EVM init-code assembler that emits LOG0..LOG4, and a logical
// (key/value) dump of a closed ledger directory.

import (
	"bytes"
	"crypto/sha256"
	"encoding/binary"
	"fmt"
	"math/big"
	"os"
	"path/filepath"
	"sort"

	ethcommon "github.com/ethereum/go-ethereum/common"
	ethtypes "github.com/ethereum/go-ethereum/core/types"
	ethcrypto "github.com/ethereum/go-ethereum/crypto"
	"github.com/ontio/ontology/common"
	"github.com/ontio/ontology/common/config"
	"github.com/ontio/ontology/common/constants"
	"github.com/ontio/ontology/core/types"
	"github.com/syndtr/goleveldb/leveldb"
	"github.com/syndtr/goleveldb/leveldb/opt"

	"verifharness/internal/fix"
)

// ---------------------------------------------------------------------------------------------
// EIP-155 transactions

func ethAddr(k *fix.ZooKey) ethcommon.Address {
	return ethcrypto.PubkeyToAddress(k.EthECDSA().PublicKey)
}

func evmChainID() *big.Int { return big.NewInt(int64(config.DefConfig.P2PNode.EVMChainId)) }

// signEIP155 builds the ontology wrapper of a signed EIP-155 transaction. to == nil is a contract
// creation. gasPriceGwei is in GWei (the ledger requires a multiple of GWei); valueWei in wei
// (1 ONG unit = 1e9 wei).
func signEIP155(k *fix.ZooKey, nonce uint64, to *ethcommon.Address, valueWei *big.Int, gasLimit, gasPriceGwei uint64, data []byte) (*types.Transaction, *ethtypes.Transaction, error) {
	gp := new(big.Int).Mul(new(big.Int).SetUint64(gasPriceGwei), big.NewInt(constants.GWei))
	var raw *ethtypes.Transaction
	if to == nil {
		raw = ethtypes.NewContractCreation(nonce, valueWei, gasLimit, gp, data)
	} else {
		raw = ethtypes.NewTransaction(nonce, *to, valueWei, gasLimit, gp, data)
	}
	signed, err := ethtypes.SignTx(raw, ethtypes.NewEIP155Signer(evmChainID()), k.EthECDSA())
	if err != nil {
		return nil, nil, err
	}
	tx, err := types.TransactionFromEIP155(signed)
	if err != nil {
		return nil, nil, err
	}
	return tx, signed, nil
}

// ---------------------------------------------------------------------------------------------
// EVM init-code assembler

// evmLog is one LOGn the generated init code emits: len(Topics) in 0..4.
type evmLog struct {
	Topics []ethcommon.Hash
	Data   []byte
}

const (
	opSTOP     = 0x00
	opCODECOPY = 0x39
	opPUSH1    = 0x60
	opPUSH2    = 0x61
	opPUSH32   = 0x7f
	opLOG0     = 0xa0
	opRETURN   = 0xf3
	opREVERT   = 0xfd
	opINVALID  = 0xfe
	opSSTORE   = 0x55
)

// initEnd selects how the init code terminates.
type initEnd int

const (
	endReturnEmpty initEnd = iota // RETURN(0,0): creation succeeds, empty runtime code
	endRevert                     // REVERT(0,0): creation fails, logs are rolled back
	endInvalid                    // INVALID: creation fails consuming all gas
	endReturnCode                 // RETURN a one-byte runtime (STOP)
)

// asmInitCode assembles init code that optionally stores `sstore` pairs, emits the given logs in
// order (data copied from a blob appended to the program with CODECOPY), then ends as requested.
// Every immediate uses a fixed width, so the program length is known before the data offsets.
func asmInitCode(logs []evmLog, sstore [][2]byte, end initEnd) []byte {
	progLen := 0
	for _, l := range logs {
		progLen += 3 + 3 + 2 + 1 // PUSH2 len, PUSH2 off, PUSH1 0, CODECOPY
		progLen += 33 * len(l.Topics)
		progLen += 3 + 2 + 1 // PUSH2 len, PUSH1 0, LOGn
	}
	progLen += len(sstore) * 5 // PUSH1 v PUSH1 k SSTORE
	switch end {
	case endReturnEmpty, endRevert:
		progLen += 5
	case endInvalid:
		progLen += 1
	case endReturnCode:
		progLen += 2 + 2 + 1 + 2 + 2 + 1 // PUSH1 0 PUSH1 0 MSTORE8? (see below)
	}
	var prog, blob []byte
	push2 := func(v int) { prog = append(prog, opPUSH2, byte(v>>8), byte(v)) }
	for _, kv := range sstore {
		prog = append(prog, opPUSH1, kv[1], opPUSH1, kv[0], opSSTORE)
	}
	for _, l := range logs {
		off := progLen + len(blob)
		blob = append(blob, l.Data...)
		push2(len(l.Data))
		push2(off)
		prog = append(prog, opPUSH1, 0, opCODECOPY)
		for i := len(l.Topics) - 1; i >= 0; i-- {
			prog = append(prog, opPUSH32)
			prog = append(prog, l.Topics[i][:]...)
		}
		push2(len(l.Data))
		prog = append(prog, opPUSH1, 0, byte(opLOG0+len(l.Topics)))
	}
	switch end {
	case endReturnEmpty:
		prog = append(prog, opPUSH1, 0, opPUSH1, 0, opRETURN)
	case endRevert:
		prog = append(prog, opPUSH1, 0, opPUSH1, 0, opREVERT)
	case endInvalid:
		prog = append(prog, opINVALID)
	case endReturnCode:
		// MSTORE8(0, 0x00=STOP) is the zero memory already: PUSH1 0 PUSH1 0 MSTORE8 ; PUSH1 1 PUSH1 0 RETURN
		prog = append(prog, opPUSH1, 0, opPUSH1, 0, 0x53, opPUSH1, 1, opPUSH1, 0, opRETURN)
	}
	if len(prog) != progLen {
		panic(fmt.Sprintf("asmInitCode: program length %d != planned %d", len(prog), progLen))
	}
	return append(prog, blob...)
}

// ---------------------------------------------------------------------------------------------
// logical dump of a closed ledger directory

// dbDump is the logical content of one LevelDB: sorted key/value pairs folded into a hash, plus the
// pair count, kept with a small index so that a difference can be reported by key.
type dbDump struct {
	N    int
	Hash [32]byte
	KV   map[string]string
}

// dumpLevelDB opens the (closed) LevelDB at dir read-only and returns its logical content.
// Read-only opening replays the journal in memory and rewrites nothing.
func dumpLevelDB(dir string, keep bool) (dbDump, error) {
	var d dbDump
	db, err := leveldb.OpenFile(dir, &opt.Options{ReadOnly: true, ErrorIfMissing: true})
	if err != nil {
		return d, fmt.Errorf("open %s read-only: %v", dir, err)
	}
	defer db.Close()
	h := sha256.New()
	if keep {
		d.KV = map[string]string{}
	}
	it := db.NewIterator(nil, nil)
	defer it.Release()
	var lb [8]byte
	for it.Next() {
		k, v := it.Key(), it.Value()
		binary.LittleEndian.PutUint32(lb[:4], uint32(len(k)))
		binary.LittleEndian.PutUint32(lb[4:], uint32(len(v)))
		h.Write(lb[:])
		h.Write(k)
		h.Write(v)
		d.N++
		if keep {
			d.KV[string(k)] = string(v)
		}
	}
	if err := it.Error(); err != nil {
		return d, err
	}
	h.Sum(d.Hash[:0])
	return d, nil
}

// ledgerDump is the logical content of every persistent artefact of a ledger directory.
type ledgerDump struct {
	DBs   map[string]dbDump // relative dir -> content
	Files map[string]string // relative path of non-LevelDB files -> sha256 + size
}

// dumpLedgerDir walks a CLOSED ledger directory: every sub-directory containing a LevelDB
// (CURRENT file) is dumped logically; every other regular file outside a LevelDB directory (the
// merkle tree file) is hashed byte-for-byte.
func dumpLedgerDir(root string, keep bool) (ledgerDump, error) {
	out := ledgerDump{DBs: map[string]dbDump{}, Files: map[string]string{}}
	var dbDirs []string
	err := filepath.Walk(root, func(p string, info os.FileInfo, err error) error {
		if err != nil {
			return err
		}
		if info.IsDir() {
			if _, e := os.Stat(filepath.Join(p, "CURRENT")); e == nil {
				dbDirs = append(dbDirs, p)
				return filepath.SkipDir
			}
			return nil
		}
		b, err := os.ReadFile(p)
		if err != nil {
			return err
		}
		rel, _ := filepath.Rel(root, p)
		out.Files[rel] = fmt.Sprintf("%x/%d", sha256.Sum256(b), len(b))
		return nil
	})
	if err != nil {
		return out, err
	}
	sort.Strings(dbDirs)
	for _, d := range dbDirs {
		dd, err := dumpLevelDB(d, keep)
		if err != nil {
			return out, err
		}
		rel, _ := filepath.Rel(root, d)
		out.DBs[rel] = dd
	}
	return out, nil
}

// diffDumps returns "" when a and b have the same logical content, else a description of the first
// differences (by store and key).
func diffDumps(a, b ledgerDump) string {
	var out []string
	names := map[string]bool{}
	for n := range a.DBs {
		names[n] = true
	}
	for n := range b.DBs {
		names[n] = true
	}
	var sorted []string
	for n := range names {
		sorted = append(sorted, n)
	}
	sort.Strings(sorted)
	for _, n := range sorted {
		x, okx := a.DBs[n]
		y, oky := b.DBs[n]
		if !okx || !oky {
			out = append(out, fmt.Sprintf("store %s present before=%v after=%v", n, okx, oky))
			continue
		}
		if x.N == y.N && x.Hash == y.Hash {
			continue
		}
		msg := fmt.Sprintf("store %s: %d pairs before, %d after", n, x.N, y.N)
		if x.KV != nil && y.KV != nil {
			var keys []string
			for k := range x.KV {
				keys = append(keys, k)
			}
			for k := range y.KV {
				if _, ok := x.KV[k]; !ok {
					keys = append(keys, k)
				}
			}
			sort.Strings(keys)
			shown := 0
			for _, k := range keys {
				vx, ox := x.KV[k]
				vy, oy := y.KV[k]
				if ox && oy && vx == vy {
					continue
				}
				if shown < 4 {
					msg += fmt.Sprintf("; key %x: before=%s after=%s", k, showVal(vx, ox), showVal(vy, oy))
				}
				shown++
			}
			msg += fmt.Sprintf(" (%d keys differ)", shown)
		}
		out = append(out, msg)
	}
	fnames := map[string]bool{}
	for n := range a.Files {
		fnames[n] = true
	}
	for n := range b.Files {
		fnames[n] = true
	}
	sorted = sorted[:0]
	for n := range fnames {
		sorted = append(sorted, n)
	}
	sort.Strings(sorted)
	for _, n := range sorted {
		if a.Files[n] != b.Files[n] {
			out = append(out, fmt.Sprintf("file %s: before=%s after=%s", n, a.Files[n], b.Files[n]))
		}
	}
	if len(out) == 0 {
		return ""
	}
	return fmt.Sprint(out)
}

func showVal(v string, ok bool) string {
	if !ok {
		return "<absent>"
	}
	if len(v) > 40 {
		return fmt.Sprintf("%x…(%d)", v[:40], len(v))
	}
	return fmt.Sprintf("%x", v)
}

// ---------------------------------------------------------------------------------------------
// misc

func u256(b byte, rest ...byte) common.Uint256 {
	var h common.Uint256
	h[0] = b
	copy(h[1:], rest)
	return h
}

func sameBytes(a, b []byte) bool { return bytes.Equal(a, b) }
