package pure

// C27 Cross-chain merkle paths prove exactly the included values.
// Oracles: round trip MerkleProve(MerkleLeafPath(v, hashes), root) = v for every member, with the root taken from
// HashFullTreeWithLeafHash and cross-checked against the independent RFC 6962 reference of c26_test.go;
// soundness under mutation: whatever MerkleProve returns without error must have its leaf hash in the list;
// non-members get no path.

import (
	"bytes"
	"crypto/sha256"
	"encoding/binary"
	"fmt"
	"testing"

	"github.com/ontio/ontology/common"
	"github.com/ontio/ontology/merkle"
	"pgregory.net/rapid"

	"verifharness/internal/harn"
)

func c27LeafHash(v []byte) common.Uint256 {
	return sha256.Sum256(append([]byte{0}, v...))
}

// c27Parse splits a path produced by MerkleLeafPath: varbytes(value) then (direction byte, 32-byte hash)*.
func c27Parse(path []byte) (value []byte, dirs []byte, sibs []common.Uint256, ok bool) {
	if len(path) == 0 {
		return nil, nil, nil, false
	}
	var l, hdr int
	switch path[0] {
	case 0xfd:
		if len(path) < 3 {
			return nil, nil, nil, false
		}
		l, hdr = int(binary.LittleEndian.Uint16(path[1:])), 3
	case 0xfe:
		if len(path) < 5 {
			return nil, nil, nil, false
		}
		l, hdr = int(binary.LittleEndian.Uint32(path[1:])), 5
	case 0xff:
		return nil, nil, nil, false
	default:
		l, hdr = int(path[0]), 1
	}
	if len(path) < hdr+l {
		return nil, nil, nil, false
	}
	value = path[hdr : hdr+l]
	rest := path[hdr+l:]
	if len(rest)%33 != 0 {
		return nil, nil, nil, false
	}
	for i := 0; i < len(rest); i += 33 {
		dirs = append(dirs, rest[i])
		var h common.Uint256
		copy(h[:], rest[i+1:i+33])
		sibs = append(sibs, h)
	}
	return value, dirs, sibs, true
}

func c27VarBytes(v []byte) []byte {
	var out []byte
	switch {
	case len(v) < 0xfd:
		out = append(out, byte(len(v)))
	case len(v) <= 0xffff:
		out = append(out, 0xfd, byte(len(v)), byte(len(v)>>8))
	default:
		out = append(out, 0xfe, byte(len(v)), byte(len(v)>>8), byte(len(v)>>16), byte(len(v)>>24))
	}
	return append(out, v...)
}

func c27Build(value []byte, dirs []byte, sibs []common.Uint256) []byte {
	out := c27VarBytes(value)
	for i := range dirs {
		out = append(out, dirs[i])
		out = append(out, sibs[i][:]...)
	}
	return out
}

func c27Prove(t interface{ Fatalf(string, ...interface{}) }, path []byte, root common.Uint256) (v []byte, err error) {
	defer func() {
		if r := recover(); r != nil {
			t.Fatalf("MerkleProve panicked on path %x: %v", path, r)
		}
	}()
	return merkle.MerkleProve(path, root)
}

const c27Rule = "lists of 1..200 values (0..100 bytes, 64/65-byte values and occasional duplicates included), exhaustive list sizes 1..64 (quick) / 1..600 (thorough) with every member (all paths of a list generated back to back, then each re-checked: unchanged bytes, still proves its member); " +
	"mutations of a genuine path: value bytes, one sibling hash, direction byte, dropped/added level, trailing bytes, internal node presented as value (with and without prefix byte), other root; " +
	"non-trivial = list size >= 2 for completeness cases, every mutated path for soundness cases; distinct = different (seed, size, member) or (list, member, mutation)"

func c27Values(seed uint64, n int) [][]byte {
	out := make([][]byte, n)
	for i := range out {
		var b [16]byte
		binary.LittleEndian.PutUint64(b[:8], seed)
		binary.LittleEndian.PutUint64(b[8:], uint64(i))
		h := sha256.Sum256(b[:])
		l := int(h[0]) % 70
		v := bytes.Repeat(h[:], 3)[:l]
		out[i] = append(v, byte(i), byte(i>>8)) // distinct
	}
	return out
}

// Every member of every list size: the path proves the value; the root is the RFC 6962 root; non-members get no path.
func TestC27_ExhaustiveMembers(t *testing.T) {
	ev := harn.For("C27").Rule(c27Rule)
	N := 64
	if harn.Thorough() {
		N = 600
	}
	seed := harn.Seed()
	for n := 1; n <= N; n++ {
		if n%harn.Shards() != harn.Shard() {
			continue
		}
		vals := c27Values(seed+uint64(n), n)
		hashes := make([]common.Uint256, n)
		for i, v := range vals {
			hashes[i] = merkle.HashLeaf(v)
			if hashes[i] != c27LeafHash(v) {
				harn.Violation(t, "C27", fmt.Sprintf("%x", v), "HashLeaf(%x) is not sha256(0x00 || value)", v)
			}
		}
		root := merkle.TreeHasher{}.HashFullTreeWithLeafHash(hashes)
		if ref := newC26Ref(hashes).mth(0, n); root != ref {
			harn.Violation(t, "C27", map[string]interface{}{"seed": seed, "n": n}, "HashFullTreeWithLeafHash of %d leaves differs from the RFC 6962 tree hash", n)
		}
		var held, heldCopy [][]byte
		for i, v := range vals {
			path, err := merkle.MerkleLeafPath(v, hashes)
			if err != nil {
				harn.Violation(t, "C27", map[string]interface{}{"seed": seed, "n": n, "member": i}, "MerkleLeafPath for member %d of %d: %v", i, n, err)
			}
			held, heldCopy = append(held, path), append(heldCopy, append([]byte{}, path...))
			got, err := merkle.MerkleProve(path, root)
			if err != nil || !bytes.Equal(got, v) {
				harn.Violation(t, "C27", map[string]interface{}{"seed": seed, "n": n, "member": i, "path": fmt.Sprintf("%x", path)},
					"path of member %d of %d does not prove its value against the list root: got %x err %v", i, n, got, err)
			}
			ev.Case(n >= 2, fmt.Sprintf("member seed=%d n=%d i=%d", seed, n, i))
		}
		// a path is a value: the paths of all members, generated back to back (as the proof RPC and the
		// cross-chain manager do for the keys of a block), stay what they were and keep proving their member
		for i, v := range vals {
			if !bytes.Equal(held[i], heldCopy[i]) {
				harn.Violation(t, "C27", map[string]interface{}{"seed": seed, "n": n, "member": i},
					"the path returned for member %d of %d changed after later MerkleLeafPath calls: was %x, is %x", i, n, heldCopy[i], held[i])
			}
			got, err := merkle.MerkleProve(held[i], root)
			if err != nil || !bytes.Equal(got, v) {
				harn.Violation(t, "C27", map[string]interface{}{"seed": seed, "n": n, "member": i},
					"the path of member %d of %d, kept while the other members' paths were generated, no longer proves its value: got %x err %v", i, n, got, err)
			}
			ev.Class("member:path-held-across-calls")
		}
		// non-members
		for j := 0; j < 3; j++ {
			nm := append([]byte("absent"), byte(j), byte(n))
			if p, err := merkle.MerkleLeafPath(nm, hashes); err == nil {
				harn.Violation(t, "C27", map[string]interface{}{"seed": seed, "n": n}, "MerkleLeafPath returned a path %x for a value that is not in the list", p)
			}
			ev.Class("nonmember:no-path")
		}
	}
}

// Generated lists and mutated paths: soundness.
func TestC27_MutatedPaths(t *testing.T) {
	ev := harn.For("C27").Rule(c27Rule)
	ev.Floor("proved:value-in-list", "mutated:cases", 0.01)
	harn.Check(t, 40000, 1000000, func(t *rapid.T) {
		var n int
		switch rapid.IntRange(0, 2).Draw(t, "sizekind") {
		case 0:
			n = rapid.IntRange(1, 9).Draw(t, "n")
		case 1:
			n = (1 << uint(rapid.IntRange(1, 7).Draw(t, "exp"))) + rapid.IntRange(-1, 1).Draw(t, "d")
		default:
			n = rapid.IntRange(1, 200).Draw(t, "n")
		}
		valGen := rapid.OneOf(
			rapid.SliceOfN(rapid.Byte(), 0, 100),
			rapid.SliceOfN(rapid.Byte(), 64, 65),
			rapid.SliceOfN(rapid.SampledFrom([]byte{0, 1}), 0, 3),
		)
		seedVals := rapid.SliceOfN(valGen, 1, 6).Draw(t, "vals")
		cseed := rapid.Uint64().Draw(t, "fill")
		vals := c27Values(cseed, n)
		for i, v := range seedVals { // generated values (possibly duplicated) at generated positions
			vals[(i*7+int(cseed%13))%n] = v
		}
		if n >= 2 && rapid.IntRange(0, 5).Draw(t, "dup") == 0 {
			vals[n-1] = vals[0]
		}
		hashes := make([]common.Uint256, n)
		inList := map[common.Uint256]bool{}
		for i, v := range vals {
			hashes[i] = merkle.HashLeaf(v)
			inList[c27LeafHash(v)] = true
		}
		root := merkle.TreeHasher{}.HashFullTreeWithLeafHash(hashes)
		idx := rapid.IntRange(0, n-1).Draw(t, "member")
		v := vals[idx]
		path, err := merkle.MerkleLeafPath(v, hashes)
		if err != nil {
			t.Fatalf("MerkleLeafPath for member %d (%x) of a list of %d: %v", idx, v, n, err)
		}
		if got, err := c27Prove(t, path, root); err != nil || !bytes.Equal(got, v) {
			t.Fatalf("genuine path of member %d (%x) of %d not proved: got %x err %v", idx, v, n, got, err)
		}
		value, dirs, sibs, ok := c27Parse(path)
		if !ok || !bytes.Equal(value, v) {
			t.Fatalf("path %x is not varbytes(value) followed by (direction,hash) pairs", path)
		}
		mval := append([]byte{}, value...)
		mdirs := append([]byte{}, dirs...)
		msibs := append([]common.Uint256{}, sibs...)
		mroot := root
		var raw []byte // set for byte-level mutants
		kind := ""
		switch rapid.IntRange(0, 10).Draw(t, "mutation") {
		case 0: // value bytes
			switch rapid.IntRange(0, 2).Draw(t, "vm") {
			case 0:
				if len(mval) > 0 {
					mval[rapid.IntRange(0, len(mval)-1).Draw(t, "pos")] ^= byte(rapid.IntRange(1, 255).Draw(t, "xor"))
				} else {
					mval = []byte{0}
				}
			case 1:
				mval = append(mval, rapid.Byte().Draw(t, "appended"))
			default:
				mval = rapid.SliceOfN(rapid.Byte(), 0, 70).Draw(t, "othervalue")
			}
			kind = "value"
		case 1: // other member's value with this path
			mval = append([]byte{}, vals[rapid.IntRange(0, n-1).Draw(t, "other")]...)
			kind = "value:other-member"
		case 2: // sibling hash
			if len(msibs) == 0 {
				kind = "none"
				break
			}
			i := rapid.IntRange(0, len(msibs)-1).Draw(t, "level")
			msibs[i][rapid.IntRange(0, 31).Draw(t, "byte")] ^= byte(rapid.IntRange(1, 255).Draw(t, "xor"))
			kind = "sibling"
		case 3: // direction byte
			if len(mdirs) == 0 {
				kind = "none"
				break
			}
			i := rapid.IntRange(0, len(mdirs)-1).Draw(t, "level")
			mdirs[i] = rapid.SampledFrom([]byte{0, 1, 2, 0xff}).Draw(t, "dir")
			kind = "direction"
		case 4: // drop a level
			if len(mdirs) == 0 {
				kind = "none"
				break
			}
			i := rapid.IntRange(0, len(mdirs)-1).Draw(t, "level")
			mdirs = append(mdirs[:i:i], mdirs[i+1:]...)
			msibs = append(msibs[:i:i], msibs[i+1:]...)
			kind = "drop-level"
		case 5: // add a level
			i := rapid.IntRange(0, len(mdirs)).Draw(t, "level")
			var h common.Uint256
			if rapid.Bool().Draw(t, "fromlist") {
				h = hashes[rapid.IntRange(0, n-1).Draw(t, "which")]
			} else {
				copy(h[:], rapid.SliceOfN(rapid.Byte(), 32, 32).Draw(t, "h"))
			}
			mdirs = append(mdirs[:i:i], append([]byte{rapid.SampledFrom([]byte{0, 1}).Draw(t, "dir")}, mdirs[i:]...)...)
			msibs = append(msibs[:i:i], append([]common.Uint256{h}, msibs[i:]...)...)
			kind = "add-level"
		case 6: // trailing bytes / truncation of the raw encoding
			raw = append([]byte{}, path...)
			if rapid.Bool().Draw(t, "truncate") && len(raw) > 1 {
				raw = raw[:rapid.IntRange(0, len(raw)-1).Draw(t, "cut")]
				kind = "raw:truncate"
			} else {
				raw = append(raw, rapid.SliceOfN(rapid.Byte(), 1, 40).Draw(t, "tail")...)
				kind = "raw:extend"
			}
		case 7, 8: // internal node presented as the proven value: value' = [prefix] || left || right of the first level
			if len(mdirs) == 0 {
				kind = "none"
				break
			}
			leaf := c27LeafHash(value)
			var l, r common.Uint256
			if mdirs[0] == merkle.LEFT {
				l, r = msibs[0], leaf
			} else {
				l, r = leaf, msibs[0]
			}
			pre := rapid.SampledFrom([][]byte{{}, {1}, {0}, {0, 1}}).Draw(t, "prefix")
			mval = append(append(append([]byte{}, pre...), l[:]...), r[:]...)
			mdirs, msibs = mdirs[1:], msibs[1:]
			kind = fmt.Sprintf("internal-node-as-value:prefix=%x", pre)
		case 9: // another root: a sub-tree root or the root of the list without its last element
			if n >= 2 {
				mroot = merkle.TreeHasher{}.HashFullTreeWithLeafHash(hashes[:n-1])
			} else {
				mroot[0] ^= 1
			}
			kind = "root:other-list"
		default:
			kind = "none"
		}
		if raw == nil {
			raw = c27Build(mval, mdirs, msibs)
		}
		got, perr := c27Prove(t, raw, mroot)
		if perr == nil {
			if mroot != root {
				// proved against the root of the shorter list: must be a member of that list
				short := map[common.Uint256]bool{}
				for _, h := range hashes[:n-1] {
					short[h] = true
				}
				if !short[c27LeafHash(got)] {
					t.Fatalf("mutation %s: path %x proves value %x against the root of the first %d hashes, but its leaf hash is not among them", kind, raw, got, n-1)
				}
			} else if !inList[c27LeafHash(got)] {
				t.Fatalf("mutation %s on member %d of %d: path %x proves value %x against the list root, but sha256(0x00||value) is not in the list (values %d)", kind, idx, n, raw, got, len(vals))
			}
			ev.Class("proved:value-in-list")
		} else {
			ev.Class("rejected")
		}
		if kind == "none" && perr != nil {
			t.Fatalf("unmutated path rejected: %v", perr)
		}
		ev.Class("mutation:" + kind)
		ev.Class("mutated:cases")
		ev.Case(kind != "none", fmt.Sprintf("n=%d member=%d mutation=%s path=%s", n, idx, kind, harn.Hex(raw)))
	})
}

// Values that are not in the list never get a path, and a path assembled for them from genuine siblings never proves.
func TestC27_NonMembers(t *testing.T) {
	ev := harn.For("C27").Rule(c27Rule)
	harn.Check(t, 12000, 300000, func(t *rapid.T) {
		n := rapid.IntRange(1, 120).Draw(t, "n")
		cseed := rapid.Uint64().Draw(t, "fill")
		vals := c27Values(cseed, n)
		hashes := make([]common.Uint256, n)
		inList := map[common.Uint256]bool{}
		for i, v := range vals {
			hashes[i] = merkle.HashLeaf(v)
			inList[hashes[i]] = true
		}
		var nm []byte
		switch rapid.IntRange(0, 2).Draw(t, "kind") {
		case 0:
			nm = rapid.SliceOfN(rapid.Byte(), 0, 80).Draw(t, "nm")
		case 1: // a member with one byte changed / appended
			nm = append([]byte{}, vals[rapid.IntRange(0, n-1).Draw(t, "near")]...)
			nm = append(nm, 0)
		default: // the 32 bytes of a leaf hash itself
			nm = append([]byte{}, hashes[rapid.IntRange(0, n-1).Draw(t, "ashash")][:]...)
		}
		if inList[c27LeafHash(nm)] {
			ev.Case(false, "nonmember: drew a member")
			return
		}
		if p, err := merkle.MerkleLeafPath(nm, hashes); err == nil {
			t.Fatalf("MerkleLeafPath(%x) returned path %x although the value's leaf hash is not in the list of %d", nm, p, n)
		}
		// forge: genuine path of some member with the value replaced
		idx := rapid.IntRange(0, n-1).Draw(t, "victim")
		path, err := merkle.MerkleLeafPath(vals[idx], hashes)
		if err != nil {
			t.Fatalf("MerkleLeafPath for member %d: %v", idx, err)
		}
		_, dirs, sibs, ok := c27Parse(path)
		if !ok {
			t.Fatalf("unparseable genuine path %x", path)
		}
		root := merkle.TreeHasher{}.HashFullTreeWithLeafHash(hashes)
		forged := c27Build(nm, dirs, sibs)
		if got, err := c27Prove(t, forged, root); err == nil {
			t.Fatalf("forged path %x proves non-member value %x (returned %x) against the list root", forged, nm, got)
		}
		ev.Class("nonmember:no-path")
		ev.Case(true, fmt.Sprintf("nonmember n=%d fill=%d value=%s victim=%d", n, cseed, harn.Hex(nm), idx))
	})
}
