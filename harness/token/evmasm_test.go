package token

// EVM bytecode template generator for C07: programs are concatenations of stack-balanced segments
// (PUSH/arith, SSTORE/SLOAD, LOGn, CALL-family with value, CREATE/CREATE2 with small init codes),
// optionally guarded terminals (STOP/RETURN/REVERT/INVALID/SELFDESTRUCT/out-of-gas loops/memory bombs)
// and a random byte tail. Every choice is a rapid draw.

import (
	"fmt"
	"math/big"
	"strings"

	ethcommon "github.com/ethereum/go-ethereum/common"
	"pgregory.net/rapid"
)

const (
	opSTOP         = 0x00
	opADD          = 0x01
	opMUL          = 0x02
	opSUB          = 0x03
	opDIV          = 0x04
	opEXP          = 0x0a
	opLT           = 0x10
	opISZERO       = 0x15
	opSHA3         = 0x20
	opADDRESS      = 0x30
	opBALANCE      = 0x31
	opORIGIN       = 0x32
	opCALLER       = 0x33
	opCALLVALUE    = 0x34
	opCALLDATALOAD = 0x35
	opCALLDATASIZE = 0x36
	opGASPRICE     = 0x3a
	opEXTCODESIZE  = 0x3b
	opBLOCKHASH    = 0x40
	opTIMESTAMP    = 0x42
	opNUMBER       = 0x43
	opCHAINID      = 0x46
	opSELFBALANCE  = 0x47
	opPOP          = 0x50
	opMLOAD        = 0x51
	opMSTORE       = 0x52
	opSLOAD        = 0x54
	opSSTORE       = 0x55
	opJUMP         = 0x56
	opJUMPI        = 0x57
	opGAS          = 0x5a
	opJUMPDEST     = 0x5b
	opPUSH1        = 0x60
	opDUP1         = 0x80
	opSWAP1        = 0x90
	opLOG0         = 0xa0
	opCREATE       = 0xf0
	opCALL         = 0xf1
	opCALLCODE     = 0xf2
	opRETURN       = 0xf3
	opDELEGATECALL = 0xf4
	opCREATE2      = 0xf5
	opSTATICCALL   = 0xfa
	opREVERT       = 0xfd
	opINVALID      = 0xfe
	opSELFDESTRUCT = 0xff
)

type evmAsm struct {
	b    []byte
	note []string
}

func (a *evmAsm) op(ops ...byte) { a.b = append(a.b, ops...) }

// push emits the shortest PUSHn of v (PUSH1 0 for zero).
func (a *evmAsm) push(v *big.Int) {
	bs := v.Bytes()
	if len(bs) == 0 {
		bs = []byte{0}
	}
	if len(bs) > 32 {
		bs = bs[len(bs)-32:]
	}
	a.b = append(a.b, byte(opPUSH1+len(bs)-1))
	a.b = append(a.b, bs...)
}

func (a *evmAsm) pushU(v uint64) { a.push(new(big.Int).SetUint64(v)) }

func (a *evmAsm) pushBytes(bs []byte) {
	if len(bs) == 0 || len(bs) > 32 {
		panic("pushBytes: bad length")
	}
	a.b = append(a.b, byte(opPUSH1+len(bs)-1))
	a.b = append(a.b, bs...)
}

// pushPC2 emits PUSH2 <absolute code offset>.
func (a *evmAsm) pushPC2(pc int) { a.b = append(a.b, opPUSH1+1, byte(pc>>8), byte(pc)) }

func (a *evmAsm) say(f string, args ...interface{}) { a.note = append(a.note, fmt.Sprintf(f, args...)) }

// evmTargets is what generated programs may name: 4 fixed addresses plus the dynamic ones.
type evmTargets struct {
	Fixed [4]ethcommon.Address // contract 0, contract 1, an externally owned account, an empty address
	Names [4]string
	Fee   ethcommon.Address // the fee receiver (governance contract address)
}

// emitAddr pushes a call / selfdestruct target and returns its name.
func (tg *evmTargets) emitAddr(t *rapid.T, a *evmAsm, label string) string {
	k := rapid.IntRange(0, 9).Draw(t, label)
	switch {
	case k <= 3:
		a.pushBytes(tg.Fixed[k][:])
		return tg.Names[k]
	case k <= 5:
		a.op(opADDRESS)
		return "self"
	case k == 6:
		a.op(opCALLER)
		return "caller"
	case k == 7:
		a.op(opORIGIN)
		return "origin"
	case k == 8:
		a.pushBytes(tg.Fee[:])
		return "feeReceiver"
	default:
		j := rapid.IntRange(0, 3).Draw(t, label+"-fixed")
		a.pushBytes(tg.Fixed[j][:])
		return tg.Names[j]
	}
}

// emitValue pushes the value operand of CALL/CALLCODE/CREATE and returns a description.
func emitValue(t *rapid.T, a *evmAsm, label string) string {
	switch rapid.IntRange(0, 15).Draw(t, label) { // (rapid favours low indexes a little: payable values first)
	case 0, 1, 2:
		a.pushU(1)
		return "1"
	case 3, 4:
		v := uint64(rapid.IntRange(1, 2000000).Draw(t, label+"-gwei"))*1000000000 + uint64(rapid.IntRange(0, 999).Draw(t, label+"-noise"))
		a.pushU(v)
		return fmt.Sprint(v)
	case 5, 6:
		a.op(opCALLVALUE)
		return "callvalue"
	case 7, 8:
		a.op(opSELFBALANCE)
		return "selfbalance"
	case 9, 10: // half of the own balance
		a.pushU(2)
		a.op(opSELFBALANCE, opDIV)
		return "selfbalance/2"
	case 11, 12, 13:
		a.pushU(0)
		return "0"
	case 14: // more than anybody has
		a.push(new(big.Int).Lsh(big.NewInt(1), 200))
		return "2^200"
	default:
		a.op(opSELFBALANCE)
		a.pushU(1)
		a.op(opADD)
		return "selfbalance+1"
	}
}

// small init codes used by CREATE/CREATE2 segments (<= 32 bytes, stored with one MSTORE)
var evmInitCodes = []struct {
	name string
	code []byte
}{
	{"init:ADDRESS-SELFDESTRUCT", []byte{opADDRESS, opSELFDESTRUCT}},
	{"init:CALLER-SELFDESTRUCT", []byte{opCALLER, opSELFDESTRUCT}},
	{"init:ORIGIN-SELFDESTRUCT", []byte{opORIGIN, opSELFDESTRUCT}},
	{"init:STOP", []byte{opSTOP}},
	{"init:INVALID", []byte{opINVALID}},
	{"init:REVERT", []byte{opPUSH1, 0, opPUSH1, 0, opREVERT}},
	{"init:RETURN-empty", []byte{opPUSH1, 0, opPUSH1, 0, opRETURN}},
	// deploy runtime "CALLER SELFDESTRUCT": PUSH2 33ff PUSH1 0 MSTORE PUSH1 2 PUSH1 30 RETURN
	{"init:deploy(CALLER-SELFDESTRUCT)", []byte{opPUSH1 + 1, opCALLER, opSELFDESTRUCT, opPUSH1, 0, opMSTORE, opPUSH1, 2, opPUSH1, 30, opRETURN}},
	// deploy runtime "ADDRESS SELFDESTRUCT"
	{"init:deploy(ADDRESS-SELFDESTRUCT)", []byte{opPUSH1 + 1, opADDRESS, opSELFDESTRUCT, opPUSH1, 0, opMSTORE, opPUSH1, 2, opPUSH1, 30, opRETURN}},
	// send the endowment back to the creator, then stop: 0 0 0 0 CALLVALUE CALLER GAS CALL
	{"init:pay-back-caller", []byte{opPUSH1, 0, opDUP1, opDUP1, opDUP1, opCALLVALUE, opCALLER, opGAS, opCALL, opSTOP}},
	// out of gas
	{"init:loop", []byte{opJUMPDEST, opPUSH1, 0, opJUMP}},
}

func (tg *evmTargets) segment(t *rapid.T, a *evmAsm) {
	switch rapid.IntRange(0, 15).Draw(t, "segment") { // (rapid favours low indexes a little)
	case 14: // PUSH/arith
		x := rapid.Uint64().Draw(t, "x")
		y := rapid.Uint64Range(0, 300).Draw(t, "y")
		o := rapid.SampledFrom([]byte{opADD, opMUL, opSUB, opDIV, opEXP, opLT}).Draw(t, "arith")
		a.pushU(y)
		a.pushU(x)
		a.op(o, opPOP)
		a.say("arith(%#x)", o)
	case 10, 11: // SSTORE (half of them clear a slot -> refund)
		k := rapid.Uint64Range(0, 5).Draw(t, "slot")
		v := uint64(0)
		if rapid.Bool().Draw(t, "nonzero") {
			v = rapid.Uint64Range(1, 3).Draw(t, "val")
		}
		a.pushU(v)
		a.pushU(k)
		a.op(opSSTORE)
		a.say("sstore(%d=%d)", k, v)
	case 12: // SLOAD / environment reads
		switch rapid.IntRange(0, 3).Draw(t, "read") {
		case 0:
			a.pushU(rapid.Uint64Range(0, 5).Draw(t, "slot"))
			a.op(opSLOAD, opPOP)
			a.say("sload")
		case 1:
			nm := tg.emitAddr(t, a, "baladdr")
			a.op(opBALANCE, opPOP)
			a.say("balance(%s)", nm)
		case 2:
			a.pushU(rapid.Uint64Range(0, 300).Draw(t, "blk"))
			a.op(opBLOCKHASH, opPOP)
			a.say("blockhash")
		default:
			a.op(rapid.SampledFrom([]byte{opTIMESTAMP, opNUMBER, opCHAINID, opGASPRICE, opSELFBALANCE, opCALLDATASIZE}).Draw(t, "env"), opPOP)
			a.say("env")
		}
	case 13: // LOGn
		n := rapid.IntRange(0, 4).Draw(t, "topics")
		for i := 0; i < n; i++ {
			a.pushU(uint64(i + 1))
		}
		a.pushU(rapid.Uint64Range(0, 64).Draw(t, "logsize"))
		a.pushU(rapid.Uint64Range(0, 64).Draw(t, "logoff"))
		a.op(byte(opLOG0 + n))
		a.say("log%d", n)
	case 0, 1, 2, 3, 4, 5, 6: // CALL family
		kind := rapid.SampledFrom([]byte{opCALL, opCALL, opCALL, opCALLCODE, opDELEGATECALL, opSTATICCALL}).Draw(t, "callkind")
		a.pushU(0)                                               // retSize
		a.pushU(0)                                               // retOffset
		a.pushU(rapid.Uint64Range(0, 36).Draw(t, "argsize"))     // argsSize
		a.pushU(0)                                               // argsOffset
		val := "-"
		if kind == opCALL || kind == opCALLCODE {
			val = emitValue(t, a, "callvalue")
		}
		to := tg.emitAddr(t, a, "callto")
		g := "gas"
		if rapid.IntRange(0, 3).Draw(t, "gasmode") == 0 {
			gv := rapid.SampledFrom([]uint64{0, 2300, 10000, 50000}).Draw(t, "callgas")
			a.pushU(gv)
			g = fmt.Sprint(gv)
		} else {
			a.op(opGAS)
		}
		a.op(kind, opPOP)
		a.say("%s(to=%s,value=%s,gas=%s)", map[byte]string{opCALL: "call", opCALLCODE: "callcode", opDELEGATECALL: "delegatecall", opSTATICCALL: "staticcall"}[kind], to, val, g)
	case 7, 8, 9: // CREATE / CREATE2 with a small init code
		ic := rapid.SampledFrom(evmInitCodes).Draw(t, "initcode")
		a.pushBytes(ic.code)
		a.pushU(0)
		a.op(opMSTORE)
		two := rapid.Bool().Draw(t, "create2")
		if two {
			a.pushU(rapid.Uint64Range(0, 3).Draw(t, "salt"))
		}
		a.pushU(uint64(len(ic.code)))
		a.pushU(uint64(32 - len(ic.code)))
		val := emitValue(t, a, "endowment")
		if two {
			a.op(opCREATE2, opPOP)
		} else {
			a.op(opCREATE, opPOP)
		}
		a.say("create%s(%s,value=%s)", map[bool]string{false: "", true: "2"}[two], ic.name, val)
	default: // keccak over a little memory
		a.pushU(rapid.Uint64Range(0, 96).Draw(t, "shasize"))
		a.pushU(0)
		a.op(opSHA3, opPOP)
		a.say("sha3")
	}
}

func (tg *evmTargets) terminal(t *rapid.T, a *evmAsm) {
	switch rapid.IntRange(0, 11).Draw(t, "terminal") {
	case 0:
		a.op(opSTOP)
		a.say("stop")
	case 1:
		a.pushU(rapid.Uint64Range(0, 40).Draw(t, "retsize"))
		a.pushU(0)
		a.op(opRETURN)
		a.say("return")
	case 2, 3:
		a.pushU(rapid.Uint64Range(0, 40).Draw(t, "revsize"))
		a.pushU(0)
		a.op(opREVERT)
		a.say("revert")
	case 4:
		a.op(opINVALID)
		a.say("invalid")
	case 5: // JUMP loop until out of gas
		pc := len(a.b)
		a.op(opJUMPDEST)
		a.pushPC2(pc)
		a.op(opJUMP)
		a.say("loop")
	case 6: // memory expansion far beyond any gas limit
		a.push(new(big.Int).SetUint64(0xffffffff))
		a.op(opMLOAD)
		a.say("membomb")
	case 7: // stack underflow
		a.op(opPOP)
		a.say("underflow")
	default: // SELFDESTRUCT to other / self / caller / origin / fee receiver
		to := tg.emitAddr(t, a, "beneficiary")
		a.op(opSELFDESTRUCT)
		a.say("selfdestruct(%s)", to)
	}
}

// program draws a whole program. Terminals in the middle are guarded by a runtime condition
// (call value zero / non-zero, or calldata empty) so that the same code takes different paths per call.
func (tg *evmTargets) program(t *rapid.T) (code []byte, desc string) {
	a := &evmAsm{}
	n := rapid.SampledFrom([]int{3, 2, 4, 1, 5, 6, 8, 0}).Draw(t, "segments")
	for i := 0; i < n; i++ {
		if rapid.IntRange(0, 7).Draw(t, "guarded-terminal") == 7 {
			// <cond> PUSH2 skip JUMPI <terminal> JUMPDEST
			switch rapid.IntRange(0, 2).Draw(t, "cond") {
			case 0:
				a.op(opCALLVALUE)
				a.say("if value==0:")
			case 1:
				a.op(opCALLVALUE, opISZERO)
				a.say("if value!=0:")
			default:
				a.op(opCALLDATASIZE)
				a.say("if nodata:")
			}
			hole := len(a.b)
			a.pushPC2(0)
			a.op(opJUMPI)
			tg.terminal(t, a)
			dest := len(a.b)
			a.b[hole+1], a.b[hole+2] = byte(dest>>8), byte(dest)
			a.op(opJUMPDEST)
			continue
		}
		tg.segment(t, a)
	}
	if rapid.IntRange(0, 3).Draw(t, "final-terminal") > 0 {
		tg.terminal(t, a)
	}
	tail := rapid.SliceOfN(rapid.Byte(), 0, 10).Draw(t, "tail")
	if len(tail) > 0 {
		a.b = append(a.b, tail...)
		a.say("tail(%x)", tail)
	}
	return a.b, strings.Join(a.note, " ")
}
