package token

// C06 Native token operations conserve supply and respect authorization.
//
// Stateful property over the native-contract sandbox (one call = one simulated transaction, commit on
// success / reset on error exactly as HandleInvokeTransaction does). Two configuration profiles, each
// its own process because ONG accrual depends on config.DefConfig.P2PNode.NetworkId:
//   * solo    : network id 3, height 100 (holder deadline 0, nothing accrues, bookkeeper owns all ONG)
//   * mainnet : network id 1 genesis, height 20 000 000 (all V2 methods registered, no uint64 wrapping),
//               block times on both sides of the ONT-holder unbound deadline, so that ONT transfers
//               approve (before) or really move (after) accrued ONG out of the ONT contract's pool.
// Every call arrives through a generated invocation stack (0..4 calling-contract contexts above the token
// contract); the authorisation model is {tx signers} U {immediate caller}, never a deeper ancestor.
// Oracle = invariants over RAW storage decoded by the harness's own storage-item parser
// (helpers_test.go); there is no re-implementation of the token logic.

import (
	"bytes"
	"fmt"
	"math"
	"math/big"
	"os"
	"path/filepath"
	"sort"
	"strings"
	"testing"

	"github.com/laizy/bigint"
	"github.com/ontio/ontology-crypto/keypair"
	"github.com/ontio/ontology/common"
	"github.com/ontio/ontology/common/config"
	"github.com/ontio/ontology/common/constants"
	"github.com/ontio/ontology/core/genesis"
	cstates "github.com/ontio/ontology/core/states"
	"github.com/ontio/ontology/core/types"
	"github.com/ontio/ontology/smartcontract"
	sctx "github.com/ontio/ontology/smartcontract/context"
	"github.com/ontio/ontology/smartcontract/service/native/ont"
	nutils "github.com/ontio/ontology/smartcontract/service/native/utils"
	"pgregory.net/rapid"

	"verifharness/internal/fix"
	"verifharness/internal/harn"
)

const (
	c06ONT = 0
	c06ONG = 1
)

var (
	c06Tokens    = [2]common.Address{nutils.OntContractAddress, nutils.OngContractAddress}
	c06TokName   = [2]string{"ONT", "ONG"}
	c06Ops       = []string{"transfer", "transferV2", "approve", "approveV2", "transferFrom", "transferFromV2"}
	c06OntSupply = new(big.Int).Mul(big.NewInt(constants.ONT_TOTAL_SUPPLY), unit9)
	c06OngSupply = new(big.Int).Mul(new(big.Int).SetUint64(constants.ONG_TOTAL_SUPPLY), unit9)
)

type c06Env struct {
	prof     string
	ch       *fix.Chain
	users    []common.Address
	ctrs     []common.Address // generic (non-native) contract accounts: hold balances/allowances, witness only as the immediate caller
	parties  []common.Address // users + ctrs: everybody who can witness a call one way or the other
	all      []common.Address
	label    map[common.Address]string
	isUser   map[common.Address]bool
	isCtr    map[common.Address]bool
	height   uint32
	deadline uint32 // ONT holder unbound deadline (offset from the genesis timestamp)
}

type c06Xfer struct {
	From, To common.Address
	U        uint64   // whole tokens (V1 methods)
	B        *big.Int // 1e-9 units (V2 methods)
}

type c06Call struct {
	Tok     int
	Op      string
	St      []c06Xfer
	Sender  common.Address
	Signers []common.Address
	Mode    string
	// Stack is the invocation stack ABOVE the token contract when the call arrives: Stack[0] is the entry
	// context of the transaction, Stack[len-1] the immediate caller of the token contract. Empty = the
	// sandbox's bare call (no calling context at all).
	Stack  []common.Address
	Defect string
	// generation-time wishes resolved by finishStack
	wantTop, wantAnc *common.Address
}

// caller returns the immediate calling contract, if any.
func (c *c06Call) caller() (common.Address, bool) {
	if len(c.Stack) == 0 {
		return common.Address{}, false
	}
	return c.Stack[len(c.Stack)-1], true
}

// witnesses is the model of CheckWitness: exactly {transaction signers} U {immediate calling contract}.
func (c *c06Call) witnesses() map[common.Address]bool {
	w := map[common.Address]bool{}
	for _, a := range c.Signers {
		w[a] = true
	}
	if top, ok := c.caller(); ok {
		w[top] = true
	}
	return w
}

// ancestorOnly: a is on the invocation stack, but only below the immediate caller, and did not sign.
func (c *c06Call) ancestorOnly(a common.Address) bool {
	if c.witnesses()[a] {
		return false
	}
	for i := 0; i+1 < len(c.Stack); i++ {
		if c.Stack[i] == a {
			return true
		}
	}
	return false
}

// principals lists the accounts whose witness the call needs in order to take effect.
func (c *c06Call) principals() []common.Address {
	var out []common.Address
	switch c06Family(c.Op) {
	case "transfer":
		for _, s := range c.St {
			if s.units(c06IsV2(c.Op)).Sign() > 0 {
				out = addSigner(out, s.From)
			}
		}
	case "approve":
		out = append(out, c.St[0].From)
	case "transferFrom":
		out = append(out, c.Sender)
	}
	return out
}

func c06IsV2(op string) bool       { return strings.HasSuffix(op, "V2") }
func c06Family(op string) string   { return strings.TrimSuffix(op, "V2") }
func (x c06Xfer) units(v2 bool) *big.Int {
	if v2 {
		return x.B
	}
	return new(big.Int).Mul(new(big.Int).SetUint64(x.U), unit9)
}

// newC06Env builds one solo-consensus ledger per process under the given network id.
func newC06Env(t *testing.T, prof string, netID, height uint32) *c06Env {
	bk := fix.Key(fix.KP256, 0)
	fix.Quiet()
	fix.SoloConfig(bk)
	config.DefConfig.P2PNode.NetworkId = netID
	bks := []keypair.PublicKey{bk.PublicKey}
	gb, err := genesis.BuildGenesisBlock(bks, config.DefConfig.Genesis)
	if err != nil {
		t.Fatalf("harness: genesis: %v", err)
	}
	dir := fix.TempDir("c06-" + prof + "-")
	t.Cleanup(func() { os.RemoveAll(filepath.Dir(dir)) })
	ch := &fix.Chain{Dir: dir, Genesis: gb, BKs: bks, Signers: []*fix.ZooKey{bk}}
	if err := ch.Open(); err != nil {
		t.Fatalf("harness: open ledger: %v", err)
	}
	t.Cleanup(ch.Close)
	e := &c06Env{prof: prof, ch: ch, height: height, deadline: config.GetOntHolderUnboundDeadline(),
		label: map[common.Address]string{}, isUser: map[common.Address]bool{}, isCtr: map[common.Address]bool{}}
	for i, k := range fix.P256(5) {
		e.users = append(e.users, k.Address)
		e.isUser[k.Address] = true
		e.label[k.Address] = fmt.Sprintf("u%d", i)
	}
	for i := 0; i < 4; i++ {
		a := common.AddressFromVmCode([]byte(fmt.Sprintf("verif C06 generic contract %d", i)))
		e.ctrs = append(e.ctrs, a)
		e.isCtr[a] = true
		e.label[a] = "c" + string(rune('A'+i))
	}
	e.parties = append(append([]common.Address{}, e.users...), e.ctrs...)
	e.all = append(append([]common.Address{}, e.parties...), nutils.OntContractAddress, nutils.OngContractAddress, nutils.GovernanceContractAddress)
	e.label[nutils.OntContractAddress], e.label[nutils.OngContractAddress], e.label[nutils.GovernanceContractAddress] = "ONTc", "ONGc", "GOVc"
	return e
}

func (e *c06Env) scan(t *rapid.T, n *fix.Native) [2]*tokenState {
	var out [2]*tokenState
	for i, c := range c06Tokens {
		ts, err := scanToken(n.Cache.NewIterator(c[:]), c)
		if err != nil {
			t.Fatalf("C06 %s storage: %v", c06TokName[i], err)
		}
		out[i] = ts
	}
	return out
}

func (e *c06Env) describe(c *c06Call) string {
	var sb strings.Builder
	fmt.Fprintf(&sb, "%s.%s[", c06TokName[c.Tok], c.Op)
	for i, s := range c.St {
		if i > 0 {
			sb.WriteByte(',')
		}
		if c06IsV2(c.Op) {
			fmt.Fprintf(&sb, "%s>%s:%se-9", e.label[s.From], e.label[s.To], s.B)
		} else {
			fmt.Fprintf(&sb, "%s>%s:%d", e.label[s.From], e.label[s.To], s.U)
		}
	}
	sb.WriteByte(']')
	if c06Family(c.Op) == "transferFrom" {
		fmt.Fprintf(&sb, "by:%s", e.label[c.Sender])
	}
	sb.WriteString("sig{")
	for i, a := range c.Signers {
		if i > 0 {
			sb.WriteByte(',')
		}
		sb.WriteString(e.label[a])
	}
	sb.WriteByte('}')
	if len(c.Stack) > 0 {
		sb.WriteString("via[")
		for i, a := range c.Stack {
			if i > 0 {
				sb.WriteByte('>')
			}
			sb.WriteString(e.label[a])
		}
		sb.WriteByte(']')
	}
	return sb.String()
}

// invoke is fix.Native.CallFrom with a whole invocation stack instead of at most one calling context: every
// ancestor is pushed as a context (bottom first) before the native service is created, the way the native
// testsuite of the repository simulates nested contract calls; NativeCall then pushes the token contract itself.
// One call = one transaction: commit on success, reset on error or panic.
func (c *c06Call) invoke(n *fix.Native) (res []byte, err error) {
	defer func() {
		if r := recover(); r != nil {
			n.Cache.Reset()
			err = fmt.Errorf("PANIC: %v", r)
		}
	}()
	tx := &types.Transaction{SignedAddr: append([]common.Address{}, c.Signers...)}
	sc := smartcontract.SmartContract{Config: &smartcontract.Config{Time: n.Time, Height: n.Height, Tx: tx},
		CacheDB: n.Cache, Store: n.LS, Gas: math.MaxUint64 / 2}
	for _, a := range c.Stack {
		sc.PushContext(&sctx.Context{ContractAddress: a})
	}
	svc, e := sc.NewNativeService()
	if e != nil {
		return nil, e
	}
	r, e := svc.NativeCall(c06Tokens[c.Tok], c.Op, c.encode())
	if e != nil {
		n.Cache.Reset()
		return nil, e
	}
	n.Cache.Commit()
	return r, nil
}

func (c *c06Call) encode() []byte {
	nb := func(b *big.Int) cstates.NativeTokenBalance { return cstates.NativeTokenBalance{Balance: bigint.New(new(big.Int).Set(b))} }
	switch c.Op {
	case "transfer":
		var sts []ont.TransferState
		for _, s := range c.St {
			sts = append(sts, ont.TransferState{From: s.From, To: s.To, Value: s.U})
		}
		return common.SerializeToBytes(&ont.TransferStates{States: sts})
	case "transferV2":
		var sts []*ont.TransferStateV2
		for _, s := range c.St {
			sts = append(sts, &ont.TransferStateV2{From: s.From, To: s.To, Value: nb(s.B)})
		}
		return common.SerializeToBytes(&ont.TransferStatesV2{States: sts})
	case "approve":
		s := c.St[0]
		return common.SerializeToBytes(&ont.TransferState{From: s.From, To: s.To, Value: s.U})
	case "approveV2":
		s := c.St[0]
		return common.SerializeToBytes(&ont.TransferStateV2{From: s.From, To: s.To, Value: nb(s.B)})
	case "transferFrom":
		s := c.St[0]
		return common.SerializeToBytes(&ont.TransferFrom{Sender: c.Sender, TransferState: ont.TransferState{From: s.From, To: s.To, Value: s.U}})
	case "transferFromV2":
		s := c.St[0]
		return common.SerializeToBytes(&ont.TransferFromStateV2{Sender: c.Sender, TransferStateV2: ont.TransferStateV2{From: s.From, To: s.To, Value: nb(s.B)}})
	}
	panic("bad op " + c.Op)
}

// ---------------------------------------------------------------------------------------------
// generators

// drawUpTo draws an integer in [0,max] with extra weight on both ends.
func drawUpTo(t *rapid.T, max *big.Int, label string) *big.Int {
	if max.Sign() <= 0 {
		return new(big.Int)
	}
	switch rapid.IntRange(0, 11).Draw(t, label+"-shape") {
	case 0:
		return new(big.Int).Set(max)
	case 1:
		return new(big.Int)
	}
	if max.IsUint64() {
		return new(big.Int).SetUint64(rapid.Uint64Range(0, max.Uint64()).Draw(t, label))
	}
	r := rapid.Uint64().Draw(t, label+"-frac")
	v := new(big.Int).Mul(max, new(big.Int).SetUint64(r))
	return v.Rsh(v, 64)
}

// drawAmount fills x with an amount in [lo,max] units: whole tokens for V1 methods (max is rounded down),
// any 1e-9 amount for V2 methods. Reports false when no such amount exists.
func drawAmount(t *rapid.T, x *c06Xfer, v2 bool, lo int64, max *big.Int, label string) bool {
	if v2 {
		if max.Cmp(big.NewInt(lo)) < 0 {
			return false
		}
		x.B = drawUpTo(t, new(big.Int).Sub(max, big.NewInt(lo)), label)
		x.B.Add(x.B, big.NewInt(lo))
		if rapid.Bool().Draw(t, label+"-whole") { // whole-token amounts keep version-0 items in play
			w := new(big.Int).Div(x.B, unit9)
			w.Mul(w, unit9)
			if w.Cmp(big.NewInt(lo)) >= 0 {
				x.B = w
			}
		}
		return true
	}
	tok := new(big.Int).Div(max, unit9)
	if tok.Cmp(big.NewInt(lo)) < 0 {
		return false
	}
	v := drawUpTo(t, new(big.Int).Sub(tok, big.NewInt(lo)), label)
	x.U = v.Uint64() + uint64(lo)
	return true
}

func drawArbAmount(t *rapid.T, x *c06Xfer, v2 bool, label string) {
	if v2 {
		x.B = rapid.OneOf(
			rapid.Custom(func(t *rapid.T) *big.Int { return big.NewInt(rapid.Int64Range(0, 5).Draw(t, "tiny")) }),
			rapid.Custom(func(t *rapid.T) *big.Int { return big.NewInt(rapid.Int64Range(0, 3000000000000000000).Draw(t, "mid")) }),
			rapid.Custom(func(t *rapid.T) *big.Int { return big.NewInt(-rapid.Int64Range(1, 2000000000).Draw(t, "neg")) }),
			rapid.Just(new(big.Int).Add(c06OntSupply, big.NewInt(1))),
			rapid.Just(new(big.Int).Add(c06OngSupply, big.NewInt(1))),
			rapid.Just(new(big.Int).Lsh(big.NewInt(1), 70)),
			rapid.Just(new(big.Int).Lsh(big.NewInt(1), 200)),
		).Draw(t, label)
		return
	}
	x.U = rapid.OneOf(rapid.Uint64Range(0, 5), rapid.Uint64Range(0, 2000000000), rapid.Just(uint64(constants.ONT_TOTAL_SUPPLY)),
		rapid.Just(uint64(constants.ONT_TOTAL_SUPPLY+1)), rapid.Just(uint64(constants.ONG_TOTAL_SUPPLY)), rapid.Just(uint64(math.MaxUint64))).Draw(t, label)
}

func sortAddrs(a []common.Address) {
	sort.Slice(a, func(i, j int) bool { return bytes.Compare(a[i][:], a[j][:]) < 0 })
}

func addSigner(s []common.Address, a common.Address) []common.Address {
	for _, x := range s {
		if x == a {
			return s
		}
	}
	return append(s, a)
}

// uni draws a (nearly) uniform integer in [0,n), n <= 16, from fair coin flips (rapid's integer generators
// favour small values).
func uni(t *rapid.T, n int, label string) int {
	v := 0
	for i := 0; i < 6; i++ {
		v <<= 1
		if rapid.Bool().Draw(t, label) {
			v |= 1
		}
	}
	return v % n
}

// witness makes a witness the call the only way it can: a user signs the transaction, a contract account
// has to be the immediate caller (at most one contract account per call can be a witness).
func (e *c06Env) witness(c *c06Call, a common.Address) {
	if e.isCtr[a] {
		if c.wantTop == nil {
			c.wantTop = &a
		}
		return
	}
	c.Signers = addSigner(c.Signers, a)
}

// unwitness withdraws a's witness. A contract account is then either absent from the invocation stack or
// - the class a stack-walking CheckWitness would wrongly accept - still on it, but only as a NON-immediate ancestor.
func (e *c06Env) unwitness(t *rapid.T, c *c06Call, a common.Address) {
	var keep []common.Address
	for _, s := range c.Signers {
		if s != a {
			keep = append(keep, s)
		}
	}
	c.Signers = keep
	if c.wantTop != nil && *c.wantTop == a {
		c.wantTop = nil
	}
	if e.isCtr[a] && uni(t, 4, "demote-to-ancestor") != 0 {
		c.wantAnc = &a
		c.Defect += "(ancestor-only)"
	}
}

// finishStack draws the invocation stack above the token contract: depth 0 (bare call, half of the calls that
// do not need a caller) or 1..4 generic contract accounts; wantTop ends up as the immediate caller, wantAnc
// somewhere below the immediate caller (and is not the immediate caller).
func (e *c06Env) finishStack(t *rapid.T, c *c06Call) {
	if c.wantTop != nil && c.wantAnc != nil && *c.wantTop == *c.wantAnc {
		c.wantAnc = nil
	}
	pick := func(label string, not *common.Address) common.Address {
		for {
			a := e.ctrs[uni(t, len(e.ctrs), label)]
			if not == nil || a != *not {
				return a
			}
		}
	}
	depth := 0
	switch {
	case c.wantAnc != nil:
		depth = 2 + uni(t, 3, "depth")
	case c.wantTop != nil:
		depth = 1 + uni(t, 4, "depth")
	case uni(t, 2, "called-by-contract") == 1:
		depth = 1 + uni(t, 4, "depth")
	}
	c.Stack = nil
	for i := 0; i < depth; i++ {
		if i == depth-1 {
			if c.wantTop != nil {
				c.Stack = append(c.Stack, *c.wantTop)
			} else {
				c.Stack = append(c.Stack, pick("caller", c.wantAnc))
			}
		} else {
			c.Stack = append(c.Stack, pick("ancestor", nil))
		}
	}
	if c.wantAnc != nil {
		c.Stack[uni(t, depth-1, "ancestor-pos")] = *c.wantAnc
	}
}

// genCall draws one call. ~65 % valid by construction from the observed state, ~15 % valid with exactly one
// defect (missing witness, one unit too much, wrong spender; for multi-state transfers in the LAST state, so
// that earlier states were already applied when the call is rejected), ~20 % arbitrary. Accounts are 5 users
// (witness by signature) and 4 generic contract accounts (witness only as the immediate caller); every call
// gets an invocation stack of depth 0..4.
func (e *c06Env) genCall(t *rapid.T, st [2]*tokenState) *c06Call {
	c := e.genCall0(t, st)
	e.finishStack(t, c)
	if c.Mode == "arbitrary" && len(c.Stack) > 0 && rapid.Bool().Draw(t, "caller-honest") {
		top, _ := c.caller()
		if c06Family(c.Op) == "transferFrom" {
			c.Sender = top
		} else if len(c.St) > 0 {
			c.St[0].From = top
		}
	}
	return c
}

func (e *c06Env) genCall0(t *rapid.T, st [2]*tokenState) *c06Call {
	c := &c06Call{Tok: rapid.IntRange(0, 1).Draw(t, "token"), Op: rapid.SampledFrom(c06Ops).Draw(t, "op")}
	v2 := c06IsV2(c.Op)
	ts := st[c.Tok]
	m := rapid.IntRange(0, 99).Draw(t, "mode")
	anyAddr := rapid.SampledFrom(e.all)
	userAddr := rapid.SampledFrom(e.users)
	partyAddr := rapid.SampledFrom(e.parties)
	if m >= 80 {
		c.Mode = "arbitrary"
		n := 1
		if c06Family(c.Op) == "transfer" {
			n = rapid.IntRange(0, 3).Draw(t, "nstates")
		}
		for i := 0; i < n; i++ {
			x := c06Xfer{From: anyAddr.Draw(t, "from"), To: anyAddr.Draw(t, "to")}
			drawArbAmount(t, &x, v2, "amt")
			c.St = append(c.St, x)
		}
		c.Sender = anyAddr.Draw(t, "sender")
		for i, k := 0, rapid.IntRange(0, 2).Draw(t, "nsign"); i < k; i++ {
			c.Signers = addSigner(c.Signers, userAddr.Draw(t, "signer"))
		}
		if len(c.Signers) > 0 && rapid.Bool().Draw(t, "honest") {
			if c06Family(c.Op) == "transferFrom" {
				c.Sender = c.Signers[0]
			} else if len(c.St) > 0 {
				c.St[0].From = c.Signers[0]
			}
		}
		return c
	}
	c.Mode = "valid"
	defect := ""
	if m >= 65 {
		c.Mode = "near-valid"
		defect = rapid.SampledFrom([]string{"no-witness", "too-much", "wrong-party"}).Draw(t, "defect")
		c.Defect = defect
	}
	need := big.NewInt(1)
	if !v2 {
		need = unit9
	}

	if c06Family(c.Op) == "transferFrom" {
		// (from, sender) pairs with a spendable allowance, from the observed state
		var pairs []addrPair
		for p, al := range ts.Allow {
			lim := al
			if b := ts.bal(p[0]); b.Cmp(lim) < 0 {
				lim = b
			}
			if (e.isUser[p[1]] || e.isCtr[p[1]]) && lim.Cmp(need) >= 0 {
				pairs = append(pairs, p)
			}
		}
		if len(pairs) == 0 {
			// nothing to spend yet: grant an allowance instead (keeps the history moving towards transferFrom)
			c.Op = map[bool]string{false: "approve", true: "approveV2"}[v2]
			c.Mode += "(fallback)"
		} else {
			sort.Slice(pairs, func(i, j int) bool {
				return string(pairs[i][0][:])+string(pairs[i][1][:]) < string(pairs[j][0][:])+string(pairs[j][1][:])
			})
			p := rapid.SampledFrom(pairs).Draw(t, "pair")
			lim := new(big.Int).Set(ts.allow(p[0], p[1]))
			if b := ts.bal(p[0]); b.Cmp(lim) < 0 {
				lim = b
			}
			x := c06Xfer{From: p[0], To: anyAddr.Draw(t, "to")}
			drawAmount(t, &x, v2, 1, lim, "amt")
			c.Sender = p[1]
			e.witness(c, c.Sender)
			switch defect {
			case "no-witness":
				e.unwitness(t, c, c.Sender)
				if rapid.Bool().Draw(t, "owner-signs-instead") && (e.isUser[x.From] || e.isCtr[x.From]) && x.From != c.Sender {
					e.witness(c, x.From) // the owner's witness does not authorise the spender
				}
			case "too-much":
				if v2 {
					x.B = new(big.Int).Add(lim, big.NewInt(1))
				} else {
					x.U = new(big.Int).Div(lim, unit9).Uint64() + 1
				}
			case "wrong-party":
				c.Sender = partyAddr.Draw(t, "other-sender")
				c.Signers, c.wantTop = nil, nil
				e.witness(c, c.Sender)
			}
			c.St = []c06Xfer{x}
			if rapid.IntRange(0, 3).Draw(t, "extra-signer") == 0 {
				c.Signers = addSigner(c.Signers, userAddr.Draw(t, "signer"))
			}
			return c
		}
	}

	var holders []common.Address
	for _, u := range e.parties {
		if ts.bal(u).Cmp(need) >= 0 {
			holders = append(holders, u)
		}
	}

	if c06Family(c.Op) == "approve" {
		x := c06Xfer{From: partyAddr.Draw(t, "from"), To: anyAddr.Draw(t, "to")}
		if len(holders) > 0 && rapid.IntRange(0, 9).Draw(t, "holder-approves") < 7 {
			x.From = rapid.SampledFrom(holders).Draw(t, "holder")
		}
		if rapid.IntRange(0, 9).Draw(t, "to-user") < 7 {
			x.To = partyAddr.Draw(t, "spender")
		}
		max := map[int]*big.Int{c06ONT: c06OntSupply, c06ONG: c06OngSupply}[c.Tok]
		if c.Tok == c06ONG && !v2 {
			max = new(big.Int).Mul(new(big.Int).SetUint64(math.MaxUint64), unit9) // V1 value is a uint64 of whole tokens
			if max.Cmp(c06OngSupply) > 0 {
				max = c06OngSupply
			}
		}
		if b := ts.bal(x.From); b.Sign() > 0 && rapid.IntRange(0, 9).Draw(t, "within-balance") < 6 {
			max = b
		}
		drawAmount(t, &x, v2, 0, max, "amt")
		e.witness(c, x.From)
		switch defect {
		case "no-witness":
			e.unwitness(t, c, x.From)
		case "too-much":
			over := map[int]*big.Int{c06ONT: c06OntSupply, c06ONG: c06OngSupply}[c.Tok]
			if v2 {
				x.B = new(big.Int).Add(over, big.NewInt(1))
			} else {
				x.U = new(big.Int).Div(over, unit9).Uint64() + 1
			}
		case "wrong-party":
			c.Signers, c.wantTop = nil, nil
			if e.isCtr[x.To] {
				e.witness(c, x.To)
			} else {
				c.Signers = []common.Address{x.To}
			}
		}
		c.St = []c06Xfer{x}
		if rapid.IntRange(0, 3).Draw(t, "extra-signer") == 0 {
			c.Signers = addSigner(c.Signers, userAddr.Draw(t, "signer"))
		}
		return c
	}

	// transfer / transferV2 with 1..3 states, jointly valid against the observed balances
	if len(holders) == 0 {
		c.Mode += "(no-holder)"
		x := c06Xfer{From: userAddr.Draw(t, "from"), To: anyAddr.Draw(t, "to")}
		drawArbAmount(t, &x, v2, "amt")
		c.St = []c06Xfer{x}
		c.Signers = []common.Address{x.From}
		return c
	}
	n := rapid.SampledFrom([]int{1, 1, 2, 2, 3}).Draw(t, "nstates")
	remaining := map[common.Address]*big.Int{}
	for _, h := range e.all {
		remaining[h] = new(big.Int).Set(ts.bal(h))
	}
	for i := 0; i < n; i++ {
		// at most one contract account can witness (as the immediate caller): once one is a source, the other
		// contract accounts are no candidates any more
		cands := holders
		if c.wantTop != nil {
			cands = nil
			for _, h := range holders {
				if !e.isCtr[h] || h == *c.wantTop {
					cands = append(cands, h)
				}
			}
		}
		x := c06Xfer{From: rapid.SampledFrom(cands).Draw(t, "from"), To: anyAddr.Draw(t, "to")}
		lo := int64(0)
		if i == 0 {
			lo = 1 // the first state really moves something, so a later rejection has something to undo
		}
		if !drawAmount(t, &x, v2, lo, remaining[x.From], "amt") {
			drawAmount(t, &x, v2, 0, remaining[x.From], "amt0")
		}
		u := x.units(v2)
		remaining[x.From].Sub(remaining[x.From], u)
		remaining[x.To].Add(remaining[x.To], u)
		e.witness(c, x.From)
		c.St = append(c.St, x)
	}
	last := &c.St[len(c.St)-1]
	switch defect {
	case "no-witness":
		e.unwitness(t, c, last.From)
		if last.units(v2).Sign() == 0 { // a zero state is skipped before the witness check
			if v2 {
				last.B = big.NewInt(1)
			} else {
				last.U = 1
			}
		}
	case "too-much":
		over := new(big.Int).Add(remaining[last.From], last.units(v2))
		if v2 {
			last.B = over.Add(over, big.NewInt(1))
		} else {
			last.U = over.Div(over, unit9).Uint64() + 1
		}
	case "wrong-party":
		last.From = anyAddr.Draw(t, "foreign-from")
		if v2 {
			last.B = big.NewInt(1)
		} else {
			last.U = 1
		}
	}
	if rapid.IntRange(0, 3).Draw(t, "extra-signer") == 0 {
		c.Signers = addSigner(c.Signers, userAddr.Draw(t, "signer"))
	}
	return c
}

// ---------------------------------------------------------------------------------------------
// oracle

type c06Outcome struct {
	ok, partial, movedOng, panicked bool
	callerOnly                      bool // a debit / allowance change whose only authority is the immediate calling contract
	tag                             string
}

func (e *c06Env) check(t *rapid.T, c *c06Call, total [2]*big.Int, pre, post [2]*tokenState, res []byte, err error, at string) c06Outcome {
	var out c06Outcome
	desc := e.describe(c) + at
	// a recovered panic is judged like any other failed call (the statement is about balances; "never
	// panics" is C12's subject) but it is counted, so that it shows in the evidence
	out.panicked = fix.IsPanic(err)
	out.ok = err == nil && bytes.Equal(res, []byte{1})
	out.tag = "err"
	if out.ok {
		out.tag = "ok"
	} else if err == nil {
		out.tag = "false"
	}
	for i := range c06Tokens {
		if s := post[i].sum(); s.Cmp(total[i]) != 0 {
			t.Fatalf("C06: sum of all %s balances changed from %v to %v (e-9 units) by %s -> %s (err=%v)", c06TokName[i], total[i], s, desc, out.tag, err)
		}
	}
	v2 := c06IsV2(c.Op)
	// the model of "witnessed the call": signed the transaction, or is the contract that called the token
	// contract directly - never a contract further down the invocation stack
	signed := c.witnesses()
	top, hasTop := c.caller()
	bySig := map[common.Address]bool{}
	for _, a := range c.Signers {
		bySig[a] = true
	}
	callerOnly := func(a common.Address) bool { return hasTop && a == top && !bySig[a] }
	if !out.ok {
		for i := range c06Tokens {
			if d := sameBalancesAndAllowances(pre[i], post[i]); d != "" {
				t.Fatalf("C06: failed call (%s, err=%v) changed %s state: %s; call %s", out.tag, err, c06TokName[i], d, desc)
			}
		}
		// "attempted >= 1 partial state": first state was applicable on its own, a later one made the call fail
		if c06Family(c.Op) == "transfer" && len(c.St) >= 2 && err != nil {
			f := c.St[0]
			u := f.units(v2)
			if signed[f.From] && u.Sign() > 0 && u.Cmp(pre[c.Tok].bal(f.From)) <= 0 && u.Cmp(map[int]*big.Int{c06ONT: c06OntSupply, c06ONG: c06OngSupply}[c.Tok]) <= 0 {
				out.partial = true
			}
		}
		return out
	}

	called, other := c.Tok, 1-c.Tok
	fam := c06Family(c.Op)
	// debits in the called token
	for _, a := range sortedAddrs(pre[called].RawBal, post[called].RawBal) {
		d := new(big.Int).Sub(pre[called].bal(a), post[called].bal(a))
		if d.Sign() <= 0 {
			continue
		}
		switch fam {
		case "transfer":
			isFrom := false
			for _, s := range c.St {
				if s.From == a && s.units(v2).Sign() > 0 {
					isFrom = true
				}
			}
			if !isFrom || !signed[a] {
				t.Fatalf("C06: %s debited %v e-9 %s from %s, which %s; call %s", c.Op, d, c06TokName[called], e.label[a],
					map[bool]string{true: "did not witness the call (neither a signer nor the immediate caller)", false: "is not the source of any transfer state"}[isFrom], desc)
			}
			if callerOnly(a) {
				out.callerOnly = true
			}
		case "transferFrom":
			s := c.St[0]
			pa, na := pre[called].allow(s.From, c.Sender), post[called].allow(s.From, c.Sender)
			ownerWitnessed := a == s.From && signed[a]
			spentAllowance := a == s.From && signed[c.Sender] && pa.Cmp(d) >= 0 && new(big.Int).Sub(pa, na).Cmp(d) == 0
			if !ownerWitnessed && !spentAllowance {
				t.Fatalf("C06: %s debited %v e-9 %s from %s: from=%s spender=%s witnessed-by-spender=%v allowance %v -> %v; call %s",
					c.Op, d, c06TokName[called], e.label[a], e.label[s.From], e.label[c.Sender], signed[c.Sender], pa, na, desc)
			}
			if !ownerWitnessed && callerOnly(c.Sender) {
				out.callerOnly = true
			}
		default:
			t.Fatalf("C06: %s debited %v e-9 %s from %s; call %s", c.Op, d, c06TokName[called], e.label[a], desc)
		}
	}
	// debits in the other token: only the ONT contract's unbound-ONG pool may pay out, and only on an ONT call
	for _, a := range sortedAddrs(pre[other].RawBal, post[other].RawBal) {
		d := new(big.Int).Sub(pre[other].bal(a), post[other].bal(a))
		if d.Sign() <= 0 {
			continue
		}
		if called == c06ONT && a == nutils.OntContractAddress {
			out.movedOng = true
			continue
		}
		t.Fatalf("C06: a %s call debited %v e-9 %s from %s; call %s", c06TokName[called], d, c06TokName[other], e.label[a], desc)
	}
	// allowances: only granted by a witnessed approve, only reduced by the spender's transferFrom
	pairs := map[addrPair]bool{}
	for p := range pre[called].RawAl {
		pairs[p] = true
	}
	for p := range post[called].RawAl {
		pairs[p] = true
	}
	for _, p := range sortedPairs(pairs) {
		pa, na := pre[called].allow(p[0], p[1]), post[called].allow(p[0], p[1])
		if pa.Cmp(na) == 0 {
			continue
		}
		s := c.St[0]
		switch {
		case fam == "approve" && p == (addrPair{s.From, s.To}) && signed[s.From]:
			if callerOnly(s.From) {
				out.callerOnly = true
			}
		case fam == "transferFrom" && p == (addrPair{s.From, c.Sender}) && na.Cmp(pa) < 0 && signed[c.Sender]:
		default:
			t.Fatalf("C06: %s changed the %s allowance %s->%s from %v to %v without the owner's witnessed approve / the spender's transferFrom; call %s",
				c.Op, c06TokName[called], e.label[p[0]], e.label[p[1]], pa, na, desc)
		}
	}
	pairs = map[addrPair]bool{}
	for p := range pre[other].RawAl {
		pairs[p] = true
	}
	for p := range post[other].RawAl {
		pairs[p] = true
	}
	for _, p := range sortedPairs(pairs) {
		if pre[other].RawAl[p] == post[other].RawAl[p] {
			continue
		}
		if called == c06ONT && p[0] == nutils.OntContractAddress {
			continue // accrued ONG approved by the ONT contract to the holder
		}
		t.Fatalf("C06: a %s call changed the %s allowance %s->%s; call %s", c06TokName[called], c06TokName[other], e.label[p[0]], e.label[p[1]], desc)
	}
	return out
}

// ---------------------------------------------------------------------------------------------
// property

func c06Run(t *testing.T, prof string, netID, height uint32) {
	ev := harn.For("C06").
		Rule("histories of ~30 native ONT/ONG calls {transfer (0-3 states), transferV2, approve, approveV2, transferFrom, transferFromV2} among 5 user accounts (witness by signature) + 4 generic contract accounts (hold balances/allowances, can witness only as a calling context) + the ONT/ONG/governance contract addresses on the native sandbox; every call arrives through a generated invocation stack of depth 0 (bare call) or 1-4 contract contexts above the token contract, and the model authorises exactly {tx signers} U {IMMEDIATE calling contract}: the source of a transfer state / approve owner / transferFrom spender is a signer, the immediate caller, a NON-immediate ancestor on the stack (must be rejected) or unrelated; ~65% of calls valid by construction from the observed raw state, ~15% valid with one defect (missing witness - for a contract account: absent from the stack or demoted to a non-immediate ancestor -, one unit over balance/allowance, wrong spender, placed in the LAST transfer state), ~20% arbitrary (zero, self, over supply, uint64 max, negative / 2^200 V2 amounts, random signer sets); block time advances randomly; profiles: network id 3 @ height 100 and mainnet-id genesis @ height 20 000 000 with times on both sides of the ONT-holder unbound deadline. Non-trivial history = >=1 successful transferFrom/transferFromV2, or >=1 rejected multi-state transfer whose first state had been applicable (partial work undone); floors additionally require successful debits authorised only by the immediate caller, otherwise-valid calls whose principal is only a deeper ancestor, and every stack depth 0-4; distinct by the full call list incl. stacks").
		Assume("the native sandbox (fix.Native) commits the transaction cache on success and resets it on error exactly as HandleInvokeTransaction does; witnesses are injected through Transaction.SignedAddr (signature verification itself is C16's subject); calling contracts are simulated by pushing their contexts on SmartContract.Contexts before the native call, as the repository's native testsuite does (a failing nested native call aborts the whole transaction in both VMs, so one call = one transaction still holds)").
		Assume("block times are non-decreasing within a history, as on a real chain")
	e := newC06Env(t, prof, netID, height)
	ev.Floor("transferFrom:ok", "transferFrom", 0.05)
	ev.Floor("transferFromV2:ok", "transferFromV2", 0.05)
	ev.Floor("transfer:ok", "transfer", 0.20)
	ev.Floor("transferV2:ok", "transferV2", 0.20)
	ev.Floor("approve:ok", "approve", 0.20)
	ev.Floor("approveV2:ok", "approveV2", 0.20)
	ev.Floor("transfer*:partial-reject", "transfer*", 0.01)
	ev.Floor("history:nontrivial", "history", 0.30)
	ev.Floor("auth:immediate-caller-only:ok", "call", 0.05)
	ev.Floor("auth:ancestor-only:else-valid", "call", 0.002)
	ev.Floor("history:immediate-caller-only-ok", "history", 0.30)
	ev.Floor("history:ancestor-only-else-valid", "history", 0.05)
	for _, d := range []string{"ctx:depth0", "ctx:depth1", "ctx:depth2", "ctx:depth3", "ctx:depth4"} {
		ev.Floor(d, "call", 0.05)
	}
	if prof == "mainnet" {
		ev.Floor("mainnet:ONT-call-ok:moved-ONG", "mainnet:ONT-call-ok", 0.03)
		ev.Floor("mainnet:history:moved-ONG", "history", 0.30)
		ev.Floor("mainnet:history:moved-ONG>=2", "history", 0.05)
		ev.Floor("mainnet:step:pre-deadline", "mainnet:step", 0.10)
		ev.Floor("mainnet:step:post-deadline", "mainnet:step", 0.10)
	}

	harn.CheckSteps(t, 30, 1000, 40000, func(t *rapid.T) {
		n := e.ch.NewNative()
		n.Height = e.height
		// start time: right after genesis, around the holder deadline, or well after it
		startOff := uint32(1)
		if e.deadline > 0 {
			startOff = rapid.OneOf(rapid.Just(uint32(1)), rapid.Uint32Range(1, e.deadline), rapid.Uint32Range(1, e.deadline), rapid.Uint32Range(e.deadline-3000000, e.deadline),
				rapid.Uint32Range(e.deadline-200000, e.deadline+200000), rapid.Uint32Range(e.deadline+1, e.deadline+50000000)).Draw(t, "start-offset")
		} else {
			startOff = rapid.Uint32Range(1, 100000000).Draw(t, "start-offset")
		}
		n.Time = constants.GENESIS_BLOCK_TIMESTAMP + startOff
		st := e.scan(t, n)
		total := [2]*big.Int{st[0].sum(), st[1].sum()}
		if st[c06ONT].bal(e.users[0]).Sign() == 0 {
			t.Fatalf("harness: account u0 holds no ONT at genesis")
		}
		var hist []string
		nontrivial := false
		movedOng := 0
		callerOnlyOK, ancestorRejected := 0, 0
		step := func(t *rapid.T, c *c06Call, dt uint32) {
			n.Time += dt
			pre := st
			res, err := c.invoke(n)
			post := e.scan(t, n)
			off := n.Time - constants.GENESIS_BLOCK_TIMESTAMP
			o := e.check(t, c, total, pre, post, res, err, fmt.Sprintf("@%d", off))
			st = post
			hist = append(hist, fmt.Sprintf("%s@%d:%s", e.describe(c), off, o.tag))
			ev.Class(c.Op)
			ev.Class(c.Op + ":" + o.tag)
			ev.Class("mode:" + c.Mode)
			ev.Class("mode:" + c.Mode + ":" + o.tag)
			if o.panicked {
				ev.Class("call:recovered-panic")
			}
			ev.Class("call")
			ev.Class(fmt.Sprintf("ctx:depth%d", len(c.Stack)))
			if o.callerOnly {
				ev.Class("auth:immediate-caller-only:ok")
				ev.Class("auth:immediate-caller-only:ok:" + c06Family(c.Op))
				callerOnlyOK++
			}
			for _, a := range c.principals() {
				if c.ancestorOnly(a) {
					// the account whose witness is needed is on the invocation stack, but not as the immediate caller
					ev.Class("auth:ancestor-only")
					ev.Class("auth:ancestor-only:" + o.tag)
					if strings.Contains(c.Defect, "(ancestor-only)") {
						ev.Class("auth:ancestor-only:else-valid")
						ev.Class("auth:ancestor-only:else-valid:" + c06Family(c.Op))
						ancestorRejected++
					}
					break
				}
			}
			if c.Defect != "" {
				ev.Class("defect:" + c.Defect)
			}
			if c06Family(c.Op) == "transfer" {
				ev.Class("transfer*")
				if o.partial {
					ev.Class("transfer*:partial-reject")
					nontrivial = true
				}
				if len(c.St) >= 2 && o.ok {
					ev.Class("transfer*:multi-state-ok")
				}
			}
			if c06Family(c.Op) == "transferFrom" && o.ok {
				nontrivial = true
			}
			if e.prof == "mainnet" {
				ev.Class("mainnet:step")
				if off <= e.deadline {
					ev.Class("mainnet:step:pre-deadline")
				} else {
					ev.Class("mainnet:step:post-deadline")
				}
				if c.Tok == c06ONT && o.ok && c06Family(c.Op) != "approve" {
					ev.Class("mainnet:ONT-call-ok")
					if o.movedOng {
						movedOng++
						ev.Class("mainnet:ONT-call-ok:moved-ONG")
					}
				}
			}
		}
		// prelude: the genesis owner funds 1-4 other accounts (users or contract accounts) (valid transfers, judged like every other call)
		for i, k := 0, 1+uni(t, 4, "prelude"); i < k; i++ {
			tok := rapid.IntRange(0, 1).Draw(t, "ptoken")
			if st[tok].bal(e.users[0]).Cmp(unit9) < 0 {
				tok = c06ONT
			}
			x := c06Xfer{From: e.users[0], To: e.parties[1+uni(t, len(e.parties)-1, "pto")]}
			v2 := rapid.Bool().Draw(t, "pv2")
			max := new(big.Int).Div(st[tok].bal(e.users[0]), big.NewInt(4))
			if !drawAmount(t, &x, v2, 1, max, "pamt") {
				continue
			}
			op := map[bool]string{false: "transfer", true: "transferV2"}[v2]
			step(t, &c06Call{Tok: tok, Op: op, St: []c06Xfer{x}, Signers: []common.Address{e.users[0]}, Mode: "prelude"}, 0)
		}
		dtGen := rapid.OneOf(rapid.Uint32Range(0, 3), rapid.Uint32Range(0, 100000), rapid.Uint32Range(0, 40000000))
		t.Repeat(map[string]func(*rapid.T){
			"call": func(t *rapid.T) {
				dt := dtGen.Draw(t, "dt")
				if n.Time > math.MaxUint32-dt-1 {
					dt = 0
				}
				step(t, e.genCall(t, st), dt)
			},
		})
		ev.Class("history")
		if movedOng >= 1 {
			ev.Class("mainnet:history:moved-ONG")
		}
		if movedOng >= 2 {
			ev.Class("mainnet:history:moved-ONG>=2")
		}
		if callerOnlyOK > 0 {
			ev.Class("history:immediate-caller-only-ok")
		}
		if ancestorRejected > 0 {
			ev.Class("history:ancestor-only-else-valid")
		}
		if nontrivial {
			ev.Class("history:nontrivial")
		}
		ev.Case(nontrivial, e.prof+": "+strings.Join(hist, " ; "))
	})
}

func TestC06_SoloNetwork(t *testing.T)    { c06Run(t, "solo", config.NETWORK_ID_SOLO_NET, 100) }
func TestC06_MainnetAccrual(t *testing.T) { c06Run(t, "mainnet", config.NETWORK_ID_MAIN_NET, 20000000) }
