package codec

// C21 Numeric encodings round-trip exactly.
// Oracles: decode∘encode = id; independent .NET-BigInteger reference encoder (minimality);
// exact I128 range; native varuint range; balance storage item version rule; token balances over the
// full bigint range (storage round trip or loud refusal, accessors against math/big, hand-built items).

import (
	"bytes"
	"fmt"
	"math/big"
	"testing"

	"github.com/laizy/bigint"
	"github.com/ontio/ontology/common"
	"github.com/ontio/ontology/core/states"
	nutils "github.com/ontio/ontology/smartcontract/service/native/utils"
	"pgregory.net/rapid"

	"verifharness/internal/harn"
)

// genBig draws integers concentrated on sign and byte-length boundaries ±2^(8k-1)±d, ±2^(8k)±d.
func genBig(maxBytes int) *rapid.Generator[*big.Int] {
	return rapid.Custom(func(t *rapid.T) *big.Int {
		switch rapid.IntRange(0, 3).Draw(t, "kind") {
		case 0: // boundary
			k := rapid.IntRange(1, maxBytes).Draw(t, "k")
			bit := uint(8*k - rapid.IntRange(0, 1).Draw(t, "half"))
			v := new(big.Int).Lsh(big.NewInt(1), bit)
			v.Add(v, big.NewInt(int64(rapid.IntRange(-2, 2).Draw(t, "d"))))
			if rapid.Bool().Draw(t, "neg") {
				v.Neg(v)
			}
			return v
		case 1: // small
			return big.NewInt(int64(rapid.IntRange(-300, 300).Draw(t, "small")))
		case 2: // int64 edge
			e := []int64{-1 << 63, -1<<63 + 1, 1<<63 - 1, 1<<63 - 2, -1 << 31, 1 << 31, 1<<32 - 1}
			return big.NewInt(rapid.SampledFrom(e).Draw(t, "edge"))
		default:
			b := rapid.SliceOfN(rapid.Byte(), 0, maxBytes).Draw(t, "bytes")
			v := new(big.Int).SetBytes(b)
			if rapid.Bool().Draw(t, "neg") {
				v.Neg(v)
			}
			return v
		}
	})
}

// refNeoBytes: independent reference of System.Numerics.BigInteger.ToByteArray (shortest
// little-endian two's complement), except that zero is the empty string as the repo documents.
func refNeoBytes(v *big.Int) []byte {
	if v.Sign() == 0 {
		return []byte{}
	}
	for n := 1; ; n++ {
		lim := new(big.Int).Lsh(big.NewInt(1), uint(8*n-1)) // 2^(8n-1)
		if v.Cmp(lim) < 0 && v.Cmp(new(big.Int).Neg(lim)) >= 0 {
			m := new(big.Int).Set(v)
			if m.Sign() < 0 {
				m.Add(m, new(big.Int).Lsh(big.NewInt(1), uint(8*n)))
			}
			be := m.Bytes()
			out := make([]byte, n)
			for i := range be {
				out[len(be)-1-i] = be[i]
			}
			return out
		}
	}
}

func nearByteBoundary(v *big.Int) bool {
	a := new(big.Int).Abs(v)
	for _, d := range []int64{-2, -1, 0, 1, 2} {
		x := new(big.Int).Add(a, big.NewInt(d))
		if x.Sign() > 0 && x.BitLen()%8 <= 1 && new(big.Int).And(x, new(big.Int).Sub(x, big.NewInt(1))).Sign() == 0 {
			return true
		}
	}
	return false
}

func TestC21_NeoBytes(t *testing.T) {
	ev := harn.For("C21").Rule("big.Int from boundary pool ±2^(8k-1)±d, ±2^8k±d (k<=34), int64 edges, uniform bytes; non-trivial = within 2 of a power of two at a byte/sign boundary, or an I128/uint64 range edge, or a balance with a fractional part")
	harn.Check(t, 40000, 3000000, func(t *rapid.T) {
		v := genBig(34).Draw(t, "v")
		enc := common.BigIntToNeoBytes(v)
		ref := refNeoBytes(v)
		if !bytes.Equal(enc, ref) {
			t.Fatalf("BigIntToNeoBytes(%s) = %x, reference shortest two's complement = %x", v, enc, ref)
		}
		dec := common.BigIntFromNeoBytes(enc)
		if dec.Cmp(v) != 0 {
			t.Fatalf("BigIntFromNeoBytes(BigIntToNeoBytes(%s)) = %s", v, dec)
		}
		// minimality / uniqueness among encodings produced by the encoder: dropping the last byte changes the value
		if len(enc) > 0 {
			if common.BigIntFromNeoBytes(enc[:len(enc)-1]).Cmp(v) == 0 {
				t.Fatalf("encoding of %s is not minimal: %x", v, enc)
			}
		}
		// decoder agrees with reference two's complement on arbitrary bytes (incl. non-minimal)
		raw := rapid.SliceOfN(rapid.Byte(), 0, 40).Draw(t, "raw")
		got := common.BigIntFromNeoBytes(raw)
		want := refFromNeo(raw)
		if got.Cmp(want) != 0 {
			t.Fatalf("BigIntFromNeoBytes(%x) = %s, reference %s", raw, got, want)
		}
		ev.Case(nearByteBoundary(v), "neo:"+v.String())
	})
}

func refFromNeo(b []byte) *big.Int {
	if len(b) == 0 {
		return new(big.Int)
	}
	be := make([]byte, len(b))
	for i := range b {
		be[len(b)-1-i] = b[i]
	}
	v := new(big.Int).SetBytes(be)
	if b[len(b)-1]&0x80 != 0 {
		v.Sub(v, new(big.Int).Lsh(big.NewInt(1), uint(8*len(b))))
	}
	return v
}

func TestC21_I128(t *testing.T) {
	ev := harn.For("C21")
	max := new(big.Int).Sub(new(big.Int).Lsh(big.NewInt(1), 127), big.NewInt(1))
	min := new(big.Int).Neg(new(big.Int).Lsh(big.NewInt(1), 127))
	harn.Check(t, 30000, 2000000, func(t *rapid.T) {
		v := genBig(18).Draw(t, "v")
		in := new(big.Int).Set(v)
		i, err := common.I128FromBigInt(v)
		if v.Cmp(in) != 0 {
			t.Fatalf("I128FromBigInt mutated its argument %s -> %s", in, v)
		}
		inRange := v.Cmp(max) <= 0 && v.Cmp(min) >= 0
		if inRange != (err == nil) {
			t.Fatalf("I128FromBigInt(%s): in range=%v, err=%v", v, inRange, err)
		}
		edge := new(big.Int).Sub(new(big.Int).Abs(v), new(big.Int).Lsh(big.NewInt(1), 127))
		nontriv := edge.CmpAbs(big.NewInt(3)) <= 0
		if err == nil {
			back := i.ToBigInt()
			if back.Cmp(v) != 0 {
				t.Fatalf("I128 round trip %s -> %x -> %s", v, i[:], back)
			}
			// little-endian two's complement, 16 bytes: compare with reference
			ref := refNeoBytes(v)
			pad := byte(0)
			if v.Sign() < 0 {
				pad = 0xff
			}
			for k := 0; k < 16; k++ {
				w := pad
				if k < len(ref) {
					w = ref[k]
				}
				if i[k] != w {
					t.Fatalf("I128FromBigInt(%s) byte %d = %02x want %02x", v, k, i[k], w)
				}
			}
			// sink/source transport
			s := common.NewZeroCopySink(nil)
			s.WriteI128(i)
			j, eof := common.NewZeroCopySource(s.Bytes()).NextI128()
			if eof || j != i {
				t.Fatalf("I128 sink/source mismatch")
			}
			if v.IsInt64() {
				if common.I128FromInt64(v.Int64()) != i {
					t.Fatalf("I128FromInt64(%s) differs from I128FromBigInt", v)
				}
			}
			if v.IsUint64() {
				if common.I128FromUint64(v.Uint64()) != i {
					t.Fatalf("I128FromUint64(%s) differs from I128FromBigInt", v)
				}
			}
		}
		ev.Case(nontriv, "i128:"+v.String())
	})
}

func TestC21_NativeVarUint(t *testing.T) {
	ev := harn.For("C21")
	harn.Check(t, 30000, 2000000, func(t *rapid.T) {
		var x uint64
		switch rapid.IntRange(0, 2).Draw(t, "k") {
		case 0:
			x = rapid.Uint64().Draw(t, "x")
		case 1:
			sh := uint(rapid.IntRange(0, 63).Draw(t, "sh"))
			x = (uint64(1) << sh) + uint64(rapid.IntRange(-2, 2).Draw(t, "d"))
		default:
			x = ^uint64(0) - uint64(rapid.IntRange(0, 3).Draw(t, "d"))
		}
		s := common.NewZeroCopySink(nil)
		nutils.EncodeVarUint(s, x)
		src := common.NewZeroCopySource(s.Bytes())
		y, err := nutils.DecodeVarUint(src)
		if err != nil || y != x || src.Len() != 0 {
			t.Fatalf("DecodeVarUint(EncodeVarUint(%d)) = %d, %v, rest %d", x, y, err, src.Len())
		}
		// values outside uint64 (negative, >64 bit) must be rejected
		v := genBig(12).Draw(t, "v")
		s2 := common.NewZeroCopySink(nil)
		s2.WriteVarBytes(common.BigIntToNeoBytes(v))
		z, err := nutils.DecodeVarUint(common.NewZeroCopySource(s2.Bytes()))
		ok := v.Sign() >= 0 && v.IsUint64()
		if ok != (err == nil) || (ok && z != v.Uint64()) {
			t.Fatalf("DecodeVarUint of %s: got %d err %v, representable=%v", v, z, err, ok)
		}
		edge := new(big.Int).Sub(v, new(big.Int).Lsh(big.NewInt(1), 64))
		ev.Case(edge.CmpAbs(big.NewInt(3)) <= 0 || v.CmpAbs(big.NewInt(2)) <= 0 && v.Sign() < 0 || x > ^uint64(0)-4, fmt.Sprintf("varuint:%d/%s", x, v))
	})
}

func TestC21_BalanceStorageItem(t *testing.T) {
	ev := harn.For("C21")
	harn.Check(t, 30000, 2000000, func(t *rapid.T) {
		intPart := rapid.OneOf(rapid.Uint64(), rapid.Uint64Range(0, 5), rapid.Just(^uint64(0)), rapid.Just(uint64(1e18))).Draw(t, "int")
		frac := rapid.OneOf(rapid.Just(uint64(0)), rapid.Uint64Range(0, states.ScaleFactor-1), rapid.Just(uint64(1)), rapid.Just(uint64(states.ScaleFactor-1))).Draw(t, "frac")
		bal := states.NativeTokenBalance{Balance: bigint.Add(bigint.Mul(intPart, states.ScaleFactor), frac)}
		item := bal.MustToStorageItem()
		wantVer := byte(states.DefaultVersion)
		if frac != 0 {
			wantVer = states.ScaleDecimal9Version
		}
		if item.StateVersion != wantVer {
			t.Fatalf("balance %s stored with version %d, want %d", bal.String(), item.StateVersion, wantVer)
		}
		raw := item.ToArray()
		var it2 states.StorageItem
		if err := it2.Deserialization(common.NewZeroCopySource(raw)); err != nil {
			t.Fatalf("storage item decode: %v", err)
		}
		back, err := states.NativeTokenBalanceFromStorageItem(&it2)
		if err != nil || back.Balance.BigInt().Cmp(bal.Balance.BigInt()) != 0 {
			t.Fatalf("balance round trip %s -> %x -> %s (%v)", bal.String(), raw, back.String(), err)
		}
		if !bytes.Equal(back.MustToStorageItemBytes(), raw) {
			t.Fatalf("balance %s has two encodings", bal.String())
		}
		if bal.FloatPart() != frac || bal.IsFloat() != (frac != 0) || bal.MustToInteger64() != intPart {
			t.Fatalf("balance accessors disagree for %s", bal.String())
		}
		ev.Case(frac != 0, fmt.Sprintf("bal:%d.%09d", intPart, frac))
	})
}

// ---------------------------------------------------------------------------------------------
// NativeTokenBalance over its full range. A balance is a non-negative integer of 1e-9 units held in
// an unbounded bigint.Int. The storage item has two forms: version 0 = the whole-token part as a
// uint64 (only for balances without a fractional part), version 1 = the shortest two's complement of
// the whole balance. A value that the chosen form cannot hold must be refused loudly (panic/error);
// storing some other value silently is the violation.

var (
	c21Scale = big.NewInt(states.ScaleFactor)
	c21Two64 = new(big.Int).Lsh(big.NewInt(1), 64)
)

// c21GenBalance draws a balance >= 0 from boundary-heavy pools.
func c21GenBalance(t *rapid.T) *big.Int {
	d := func(label string, r int) *big.Int { return big.NewInt(int64(rapid.IntRange(-r, r).Draw(t, label))) }
	whole := new(big.Int)
	switch rapid.IntRange(0, 9).Draw(t, "wholeKind") {
	case 0:
		whole.SetUint64(rapid.Uint64().Draw(t, "w64"))
	case 1:
		whole.SetUint64(uint64(rapid.IntRange(0, 5).Draw(t, "wSmall")))
	case 2: // 2^64 +- k
		whole.Add(c21Two64, d("wd", 3))
	case 3: // j*2^64 + low: the low 64 bits alone look like an ordinary balance
		whole.Mul(c21Two64, big.NewInt(int64(rapid.IntRange(1, 5).Draw(t, "j"))))
		if rapid.Bool().Draw(t, "lowSmall") {
			whole.Add(whole, big.NewInt(int64(rapid.IntRange(0, 5).Draw(t, "low"))))
		} else {
			whole.Add(whole, new(big.Int).SetUint64(rapid.Uint64().Draw(t, "low64")))
		}
	case 4: // 2^k +- d, k up to 130
		whole.Lsh(big.NewInt(1), uint(rapid.IntRange(1, 130).Draw(t, "k")))
		whole.Add(whole, d("wd", 2))
	case 5: // max uint64 - k
		whole.SetUint64(^uint64(0) - uint64(rapid.IntRange(0, 3).Draw(t, "wmax")))
	case 6: // balance near 2^128
		whole.Quo(new(big.Int).Lsh(big.NewInt(1), 128), c21Scale)
		whole.Add(whole, d("wd", 2))
	case 7: // uniform up to 20 bytes
		whole.SetBytes(rapid.SliceOfN(rapid.Byte(), 0, 20).Draw(t, "wBytes"))
	default: // direct balance values around powers of two and around (2^64)*1e9
		b := new(big.Int)
		if rapid.Bool().Draw(t, "pow") {
			b.Lsh(big.NewInt(1), uint(rapid.IntRange(1, 200).Draw(t, "bk")))
		} else {
			b.Mul(c21Two64, c21Scale)
			if rapid.Bool().Draw(t, "max64") {
				b.Sub(b, c21Scale) // MaxUint64 * 1e9
			}
		}
		b.Add(b, d("bd", 3))
		if b.Sign() < 0 {
			b.SetInt64(0)
		}
		return b
	}
	if whole.Sign() < 0 {
		whole.SetInt64(0)
	}
	var frac uint64
	switch rapid.IntRange(0, 5).Draw(t, "fracKind") {
	case 0, 1, 2:
	case 3:
		frac = 1
	case 4:
		frac = states.ScaleFactor - 1
	default:
		frac = rapid.Uint64Range(0, states.ScaleFactor-1).Draw(t, "frac")
	}
	b := new(big.Int).Mul(whole, c21Scale)
	return b.Add(b, new(big.Int).SetUint64(frac))
}

// c21Loud runs f and reports whether it panicked (the "must" functions refuse by panicking).
func c21Loud(f func()) (refused bool, why interface{}) {
	defer func() {
		if r := recover(); r != nil {
			refused, why = true, r
		}
	}()
	f()
	return false, nil
}

const c21BalRule = "NativeTokenBalance over the full range: whole-token part uniform uint64 / small / 2^64±k / j*2^64+low / 2^k±d (k<=130) / MaxUint64-k / near 2^128/1e9 / uniform <=20 bytes, balances 2^k±d (k<=200) and 2^64*1e9±d, MaxUint64*1e9±d, each with fractional part 0 / 1 / 1e9-1 / uniform; MustToStorageItem -> ToArray -> Deserialization -> NativeTokenBalanceFromStorageItem must return the same value with the expected version (0 iff no fractional part) or refuse loudly, refusal being allowed only for a non-fractional balance whose whole part is >= 2^64; ToInteger/FloatPart/IsFloat/MustToInteger64/FromInteger/ToBigInt against math/big; hand-built version 0/1/other storage items (value length 0..12 / arbitrary two's complement incl. negative and non-minimal) decode to the reference value or an error; non-trivial = whole part >= 2^64-3, a fractional part, or a hand-built item that is rejected or non-canonical"

func TestC21_BalanceFullRange(t *testing.T) {
	ev := harn.For("C21").Rule(c21BalRule)
	ev.Floor("bal:whole>=2^64:nofrac", "bal", 0.10)
	ev.Floor("bal:whole>=2^64:frac", "bal", 0.05)
	ev.Floor("bal:whole<2^64:nofrac", "bal", 0.10)
	ev.Floor("bal:whole<2^64:frac", "bal", 0.05)
	harn.Check(t, 30000, 2000000, func(t *rapid.T) {
		b := c21GenBalance(t)
		whole, frac := new(big.Int).QuoRem(b, c21Scale, new(big.Int))
		fits := whole.IsUint64()
		hasFrac := frac.Sign() != 0
		bal := states.NativeTokenBalance{Balance: bigint.New(new(big.Int).Set(b))}
		cls := "bal:whole<2^64"
		if !fits {
			cls = "bal:whole>=2^64"
		}
		if hasFrac {
			cls += ":frac"
		} else {
			cls += ":nofrac"
		}
		ev.Class("bal")
		ev.Class(cls)

		// accessors against math/big
		if got := bal.ToInteger().BigInt(); got.Cmp(whole) != 0 {
			t.Fatalf("balance %s: ToInteger() = %s, reference %s", b, got, whole)
		}
		if bal.FloatPart() != frac.Uint64() || bal.IsFloat() != hasFrac {
			t.Fatalf("balance %s: FloatPart() = %d IsFloat() = %v, reference fractional part %s", b, bal.FloatPart(), bal.IsFloat(), frac)
		}
		if bal.ToBigInt().Cmp(b) != 0 || bal.Balance.BigInt().Cmp(b) != 0 {
			t.Fatalf("balance %s changed by its accessors: now %s", b, bal.ToBigInt())
		}
		var i64 uint64
		refused, why := c21Loud(func() { i64 = bal.MustToInteger64() })
		switch {
		case refused && fits:
			t.Fatalf("balance %s: MustToInteger64 refused (%v) although the whole part %s fits 64 bits", b, why, whole)
		case !refused && (!fits || i64 != whole.Uint64()):
			t.Fatalf("balance %s: MustToInteger64() = %d silently, but the whole-token part is %s", b, i64, whole)
		}
		if refused {
			ev.Class("bal:int64:refused")
		}

		// storage item round trip
		var item *states.StorageItem
		refused, why = c21Loud(func() { item = bal.MustToStorageItem() })
		if refused {
			ev.Class("bal:item:refused")
			if hasFrac || fits {
				t.Fatalf("balance %s (whole part %s, fractional part %s) is representable but MustToStorageItem refused: %v", b, whole, frac, why)
			}
			if r2, _ := c21Loud(func() { bal.MustToStorageItemBytes() }); !r2 {
				t.Fatalf("balance %s: MustToStorageItem refuses but MustToStorageItemBytes does not", b)
			}
		} else {
			wantVer := byte(states.DefaultVersion)
			if hasFrac {
				wantVer = states.ScaleDecimal9Version
			}
			raw := item.ToArray()
			var it2 states.StorageItem
			if err := it2.Deserialization(common.NewZeroCopySource(append([]byte{}, raw...))); err != nil {
				t.Fatalf("balance %s: storage item %x does not decode: %v", b, raw, err)
			}
			back, err := states.NativeTokenBalanceFromStorageItem(&it2)
			if err != nil || back.Balance.BigInt().Cmp(b) != 0 {
				t.Fatalf("balance %s (whole part %s, fractional part %s) stored as version-%d item %x reads back as %s (err %v): value silently changed",
					b, whole, frac, item.StateVersion, item.Value, back.String(), err)
			}
			if fits && item.StateVersion != wantVer {
				t.Fatalf("balance %s stored with version %d, want %d", b, item.StateVersion, wantVer)
			}
			switch item.StateVersion {
			case states.DefaultVersion:
				want := make([]byte, 8)
				for i := range want {
					want[i] = byte(whole.Uint64() >> (8 * uint(i)))
				}
				if hasFrac || !bytes.Equal(item.Value, want) {
					t.Fatalf("balance %s: version-0 item value %x, want the whole part %s as 8 little-endian bytes", b, item.Value, whole)
				}
			case states.ScaleDecimal9Version:
				if !bytes.Equal(item.Value, refNeoBytes(b)) {
					t.Fatalf("balance %s: version-1 item value %x, reference shortest two's complement %x", b, item.Value, refNeoBytes(b))
				}
			default:
				t.Fatalf("balance %s stored with unknown version %d", b, item.StateVersion)
			}
			if !bytes.Equal(bal.MustToStorageItemBytes(), raw) || !bytes.Equal(back.MustToStorageItemBytes(), raw) {
				t.Fatalf("balance %s has two encodings", b)
			}
			ev.Class(fmt.Sprintf("bal:item:v%d", item.StateVersion))
		}

		// FromInteger is the inverse of MustToInteger64 on non-fractional balances
		if fits {
			fi := states.NativeTokenBalanceFromInteger(whole.Uint64())
			if fi.Balance.BigInt().Cmp(new(big.Int).Mul(whole, c21Scale)) != 0 || fi.IsFloat() || fi.FloatPart() != 0 || fi.MustToInteger64() != whole.Uint64() {
				t.Fatalf("NativeTokenBalanceFromInteger(%s) = %s", whole, fi.String())
			}
			if !hasFrac && fi.Balance.BigInt().Cmp(b) != 0 {
				t.Fatalf("NativeTokenBalanceFromInteger(MustToInteger64(%s)) = %s", b, fi.String())
			}
		}
		near := new(big.Int).Sub(whole, c21Two64)
		ev.Case(hasFrac || near.Cmp(big.NewInt(-3)) >= 0, "bal "+b.String())
	})
}

// TestC21_BalanceItemDecode: hand-built storage items of every version.
func TestC21_BalanceItemDecode(t *testing.T) {
	ev := harn.For("C21").Rule(c21BalRule)
	ev.Floor("item:v0:ok", "item", 0.10)
	ev.Floor("item:v1:ok", "item", 0.10)
	ev.Floor("item:rejected", "item", 0.10)
	harn.Check(t, 30000, 2000000, func(t *rapid.T) {
		ver := rapid.SampledFrom([]byte{0, 0, 0, 1, 1, 1, 2, 0xFF}).Draw(t, "version")
		if ver == 2 {
			ver = rapid.Byte().Draw(t, "anyVersion")
		}
		var val []byte
		switch rapid.IntRange(0, 3).Draw(t, "valueKind") {
		case 0: // exactly a uint64
			val = make([]byte, 8)
			x := rapid.OneOf(rapid.Uint64(), rapid.Uint64Range(0, 5), rapid.Just(^uint64(0)), rapid.Just(uint64(1)<<63)).Draw(t, "u64")
			for i := range val {
				val[i] = byte(x >> (8 * uint(i)))
			}
		case 1: // any length around 8
			val = rapid.SliceOfN(rapid.Byte(), 0, 12).Draw(t, "val")
		case 2: // shortest two's complement of a boundary integer (negative ones included)
			if rapid.IntRange(0, 3).Draw(t, "neg") == 0 {
				val = refNeoBytes(genBig(20).Draw(t, "big"))
			} else {
				val = refNeoBytes(c21GenBalance(t))
			}
		default: // non-minimal two's complement: sign-extended
			v := genBig(12).Draw(t, "big")
			val = refNeoBytes(v)
			pad := byte(0)
			if v.Sign() < 0 {
				pad = 0xFF
			}
			val = append(val, bytes.Repeat([]byte{pad}, rapid.IntRange(1, 3).Draw(t, "pad"))...)
		}
		item := &states.StorageItem{StateBase: states.StateBase{StateVersion: ver}, Value: val}
		// through the wire form of the storage item
		var it2 states.StorageItem
		if err := it2.Deserialization(common.NewZeroCopySource(item.ToArray())); err != nil || it2.StateVersion != ver || !bytes.Equal(it2.Value, val) {
			t.Fatalf("storage item version %d value %x does not survive ToArray/Deserialization (err %v)", ver, val, err)
		}
		var bal states.NativeTokenBalance
		var err error
		if p, why := c21Loud(func() { bal, err = states.NativeTokenBalanceFromStorageItem(&it2) }); p {
			t.Fatalf("NativeTokenBalanceFromStorageItem(version %d, value %x) panicked: %v", ver, val, why)
		}
		ev.Class("item")
		nontrivial := false
		switch {
		case ver == states.DefaultVersion:
			if (err == nil) != (len(val) >= 8) {
				t.Fatalf("version-0 item with a %d-byte value %x: err = %v", len(val), val, err)
			}
			if err == nil {
				want := new(big.Int).Mul(new(big.Int).SetUint64(c18LE(val[:8])), c21Scale)
				if bal.Balance.BigInt().Cmp(want) != 0 {
					t.Fatalf("version-0 item %x decodes to %s, reference %s", val, bal.String(), want)
				}
			}
		default: // version 1 (every non-zero version is read as the scaled form)
			want := refFromNeo(val)
			if (err == nil) != (want.Sign() >= 0) {
				t.Fatalf("version-%d item %x holds %s: err = %v", ver, val, want, err)
			}
			if err == nil && bal.Balance.BigInt().Cmp(want) != 0 {
				t.Fatalf("version-%d item %x decodes to %s, reference %s", ver, val, bal.String(), want)
			}
		}
		if err != nil {
			ev.Class("item:rejected")
			nontrivial = true
		} else {
			if ver <= 1 {
				ev.Class(fmt.Sprintf("item:v%d:ok", ver))
			} else {
				ev.Class("item:vOther:ok")
			}
			// an accepted value re-encodes (or is refused: whole part >= 2^64 without fraction) and the
			// canonical item decodes to the same value
			b := bal.Balance.BigInt()
			whole, frac := new(big.Int).QuoRem(b, c21Scale, new(big.Int))
			var canon *states.StorageItem
			refused, why := c21Loud(func() { canon = bal.MustToStorageItem() })
			if refused {
				if frac.Sign() != 0 || whole.IsUint64() {
					t.Fatalf("decoded balance %s is representable but MustToStorageItem refused: %v", b, why)
				}
				ev.Class("item:reencode-refused")
			} else {
				back, err := states.NativeTokenBalanceFromStorageItem(canon)
				if err != nil || back.Balance.BigInt().Cmp(b) != 0 {
					t.Fatalf("balance %s decoded from version-%d item %x re-encodes as version-%d item %x which reads as %s (err %v)", b, ver, val, canon.StateVersion, canon.Value, back.String(), err)
				}
				if canon.StateVersion != ver || !bytes.Equal(canon.Value, val) {
					ev.Class("item:noncanonical-accepted")
					nontrivial = true
				}
			}
		}
		ev.Case(nontrivial, fmt.Sprintf("item v%d %x", ver, val))
	})
}
