package ledger

// C05 A failed transaction changes nothing except the fee it is charged.
//
// Blocks of generated invoke transactions are executed on a real solo ledger. The effect of the
// i-th transaction is isolated by executing the block prefixes [0..i-1] and [0..i] (ExecuteBlock
// does not commit) and diffing the two write sets over the committed state. For a failed
// transaction (notify.State == 0) the diff may contain only the ONG balance keys of the payer and
// of the governance contract, with -Δpayer = Δgovernance = notify.GasConsumed <= payer's
// pre-balance; for a successful one Δgovernance must equal notify.GasConsumed.

import (
	"bytes"
	"fmt"
	"math/big"
	"os"
	"path/filepath"
	"sort"
	"strings"
	"testing"

	"github.com/ontio/ontology/common"
	"github.com/ontio/ontology/core/types"
	cutils "github.com/ontio/ontology/core/utils"
	"github.com/ontio/ontology/smartcontract/service/native/ont"
	nutils "github.com/ontio/ontology/smartcontract/service/native/utils"
	"pgregory.net/rapid"

	"verifharness/internal/fix"
	"verifharness/internal/harn"
)

const c05StoragePrefix = 0x05 // scom.ST_STORAGE

// c05DecodeBalance is an independent parser of a token balance storage item:
// version(1) || varbytes(value); version 0 = uint64 LE in the token's legacy unit (x 1e9),
// version 1 = little-endian two's complement big integer in 1e-9 of the legacy unit.
func c05DecodeBalance(raw []byte) (*big.Int, error) {
	if len(raw) == 0 {
		return new(big.Int), nil
	}
	ver := raw[0]
	rest := raw[1:]
	if len(rest) == 0 {
		return nil, fmt.Errorf("short item")
	}
	var l uint64
	switch rest[0] {
	case 0xfd:
		if len(rest) < 3 {
			return nil, fmt.Errorf("short item")
		}
		l = uint64(rest[1]) | uint64(rest[2])<<8
		rest = rest[3:]
	case 0xfe, 0xff:
		return nil, fmt.Errorf("oversized item")
	default:
		l = uint64(rest[0])
		rest = rest[1:]
	}
	if uint64(len(rest)) != l {
		return nil, fmt.Errorf("length mismatch")
	}
	switch ver {
	case 0:
		if l != 8 {
			return nil, fmt.Errorf("v0 balance not 8 bytes")
		}
		v := new(big.Int)
		for i := 7; i >= 0; i-- {
			v.Lsh(v, 8)
			v.Or(v, big.NewInt(int64(rest[i])))
		}
		return v.Mul(v, big.NewInt(1000000000)), nil
	case 1:
		be := make([]byte, len(rest))
		for i := range rest {
			be[len(rest)-1-i] = rest[i]
		}
		v := new(big.Int).SetBytes(be)
		if len(rest) > 0 && rest[len(rest)-1]&0x80 != 0 {
			v.Sub(v, new(big.Int).Lsh(big.NewInt(1), uint(8*len(rest))))
		}
		return v, nil
	}
	return nil, fmt.Errorf("unknown version %d", ver)
}

type c05State struct {
	ws       map[string][]byte
	readBack func(k string) []byte
}

func (s c05State) val(k string) []byte {
	if v, ok := s.ws[k]; ok {
		return v
	}
	return s.readBack(k)
}

func c05OngKey(a common.Address) string {
	return string(append(append([]byte{c05StoragePrefix}, nutils.OngContractAddress[:]...), a[:]...))
}

type c05St struct{ From, To int; Amt uint64 }

type c05TxSpec struct {
	St       []c05St
	Kind     string
	Payer    int
	Signers  []int
	GasPrice uint64
	GasLimit uint64
	States   []ont.TransferState `json:"-"`
	Token    int
	Tail     string
	Mid      string
	Raw      []byte
}

// argument of the native system contract's evmInvoke
type c05EvmInvokeParam struct {
	Caller common.Address
	Target common.Address
	Input  []byte
}

func TestC05_FailedTxOnlyChargesFee(t *testing.T) {
	ev := harn.For("C05").Rule("blocks of 1-4 invoke txs on a solo ledger with gas price in {0,1,2500}: native ONT/ONG transfer scripts with 1-3 states (valid, over-balance, missing witness, later state failing after earlier ones wrote), the same followed by THROW / infinite loop (out of gas) / division by zero / invalid opcode / 2 KiB padding (code-length gas), malformed native args, random bytes; payers funded with 0, <min fee, =min fee, small and large ONG; payer any one of the signers; effect of each tx isolated by diffing the write sets of block prefixes. Non-trivial = failed tx (State 0) that is charged a non-zero fee, or whose script performed a balance write before failing; distinct by (tx spec, payer balance)").
		Assume("transactions reach block execution only after the validator accepted them: payer is one of the signers, GasLimit >= 20000 (pool minimum)")
	ev.Floor("failed", "", 0.2)
	ev.Floor("failed:after-write", "", 0.05)
	ev.Floor("success", "", 0.1)
	bk := fix.Key(fix.KP256, 0)
	users := []*fix.ZooKey{bk, fix.Key(fix.KP256, 1), fix.Key(fix.KP256, 2), fix.Key(fix.KP256, 3), fix.Key(fix.KP256, 4), fix.Key(fix.KP256, 5)}
	gov := nutils.GovernanceContractAddress
	const minFee2500 = 20000 * 2500
	funding0 := []uint64{0 /*bk: untouched*/, 0, minFee2500 - 1, minFee2500, minFee2500*3 + 777, 5000000000000}

	harn.Check(t, 90, 2400, func(t *rapid.T) {
		// user 4 holds a small balance that is mostly NOT a whole number of fee units (fees are rounded
		// up to 20000-gas units and capped by the balance: the partial unit is the boundary)
		funding := append([]uint64{}, funding0...)
		funding[4] = minFee2500*rapid.Uint64Range(1, 3).Draw(t, "units4") +
			rapid.SampledFrom([]uint64{777, minFee2500 / 2, minFee2500/2 + 777, minFee2500 - 1, minFee2500 / 4}).Draw(t, "frac4")
		base, err := os.MkdirTemp("", "c05-")
		if err != nil {
			t.Fatal(err)
		}
		defer os.RemoveAll(base)
		ch, err := fix.NewSolo(filepath.Join(base, "a"), bk)
		if err != nil {
			t.Fatal(err)
		}
		defer ch.Close()
		// funding block (gas price 0): ONG per the table, some ONT to users 3..5
		var fund []*types.Transaction
		for i := 1; i < len(users); i++ {
			if funding[i] > 0 {
				tx, err := ch.Transfer(nutils.OngContractAddress, bk, users[i].Address, funding[i], 0, 20000)
				if err != nil {
					t.Fatal(err)
				}
				fund = append(fund, tx)
			}
			if i >= 3 {
				tx, err := ch.Transfer(nutils.OntContractAddress, bk, users[i].Address, 1000, 0, 20000)
				if err != nil {
					t.Fatal(err)
				}
				fund = append(fund, tx)
			}
		}
		if _, res, err := ch.AddTxs(fund); err != nil {
			t.Fatal(err)
		} else {
			for _, n := range res.Notify {
				if n.State != 1 {
					t.Fatalf("funding tx failed")
				}
			}
		}

		// ---- generate the block's transactions
		nTx := rapid.IntRange(1, 4).Draw(t, "ntx")
		var specs []c05TxSpec
		var txs []*types.Transaction
		for j := 0; j < nTx; j++ {
			var sp c05TxSpec
			sp.Kind = rapid.SampledFrom([]string{"transfer", "transfer", "transfer", "transfer+tail", "transfer+tail", "transfer+tail", "badargs", "random", "create+fail"}).Draw(t, "kind")
			nSig := rapid.IntRange(1, 3).Draw(t, "nsig")
			perm := rapid.Permutation([]int{0, 1, 2, 3, 4, 5}).Draw(t, "signers")
			sp.Signers = perm[:nSig]
			if rapid.IntRange(0, 9).Draw(t, "richfirst") < 5 {
				// make a well-funded account (0, 4 or 5) the first signer in half of the cases
				r := rapid.SampledFrom([]int{0, 4, 5}).Draw(t, "rich")
				for i, v := range perm {
					if v == r {
						perm[0], perm[i] = perm[i], perm[0]
					}
				}
				sp.Signers = perm[:nSig]
			}
			sp.Payer = sp.Signers[rapid.IntRange(0, nSig-1).Draw(t, "payer")]
			sp.GasPrice = rapid.SampledFrom([]uint64{0, 1, 2500, 2500, 2500}).Draw(t, "gp")
			sp.GasLimit = rapid.SampledFrom([]uint64{20000, 20000, 20001, 30000, 100000, 40000}).Draw(t, "gl")
			sp.Token = rapid.IntRange(0, 1).Draw(t, "tok")
			// out-of-gas execution paid by the small account with a gas limit above what it can afford:
			// the consumed gas reaches into the account's last, partial fee unit
			burnPartial := rapid.IntRange(0, 7).Draw(t, "burnpartial") == 0
			if burnPartial {
				sp.Kind, sp.Signers, sp.Payer, sp.GasPrice, sp.GasLimit = "transfer+tail", []int{4}, 4, 2500, 100000+20000*rapid.Uint64Range(0, 3).Draw(t, "glx")
				ev.Class("gen:out-of-gas-into-partial-fee-unit")
			}
			tok := nutils.OntContractAddress
			if sp.Token == 1 {
				tok = nutils.OngContractAddress
			}
			var code []byte
			switch sp.Kind {
			case "transfer", "transfer+tail":
				ns := rapid.IntRange(1, 3).Draw(t, "nstates")
				var sts []*ont.TransferState
				for k := 0; k < ns; k++ {
					var from int
					if rapid.IntRange(0, 9).Draw(t, "witnessed") < 8 {
						// prefer a signer that holds the token (ONT: 0,3,4,5; ONG: all but 1)
						var holders []int
						for _, sg := range sp.Signers {
							if sg == 0 || sg >= 3 || (sp.Token == 1 && sg == 2) {
								holders = append(holders, sg)
							}
						}
						if len(holders) == 0 {
							holders = sp.Signers
						}
						from = holders[rapid.IntRange(0, len(holders)-1).Draw(t, "fromsig")]
					} else {
						from = rapid.IntRange(0, 5).Draw(t, "fromany")
					}
					// mostly affordable amounts (users 3..5 hold 1000 ONT; ONG balances are >= 5e7-1 except user 1)
					amt := rapid.OneOf(rapid.Uint64Range(0, 3), rapid.Uint64Range(0, 3), rapid.Uint64Range(1, 300), rapid.Uint64Range(1, 300),
						rapid.Uint64Range(1, 300), rapid.Just(uint64(1)<<62)).Draw(t, "amt")
					to := rapid.IntRange(0, 5).Draw(t, "to")
					// ONG transfers that leave the sender with less than the fee: execution succeeds, then the
					// post-execution balance check fails (the "balance < costGas after execution" branch)
					if sp.Token == 1 && from >= 2 && to != from && rapid.IntRange(0, 2).Draw(t, "nearlyall") == 0 {
						amt = funding[from] - rapid.Uint64Range(0, 30000000).Draw(t, "leave")
						ev.Class("gen:ong-transfer-leaving-less-than-fee")
					}
					sp.St = append(sp.St, c05St{from, to, amt})
					st := ont.TransferState{From: users[from].Address, To: users[to].Address, Value: amt}
					sp.States = append(sp.States, st)
					s2 := st
					sts = append(sts, &s2)
				}
				code, err = cutils.BuildNativeInvokeCode(tok, 0, "transfer", []interface{}{sts})
				if err != nil {
					t.Fatal(err)
				}
				if sp.Kind == "transfer+tail" {
					// between the transfer and the failing tail the script may call into other native
					// services that work on the same transaction cache: the system contract's evmInvoke
					// (an EVM call frame inside a NeoVM transaction; caller must be witnessed) or a read
					switch rapid.IntRange(0, 5).Draw(t, "mid") {
					case 0, 1:
						caller := users[sp.Signers[0]].Address
						if rapid.IntRange(0, 5).Draw(t, "midcaller") == 0 {
							caller = users[rapid.IntRange(0, 5).Draw(t, "midanycaller")].Address
						}
						var target common.Address
						copy(target[:], rapid.SliceOfN(rapid.Byte(), 20, 20).Draw(t, "midtarget"))
						mid, err := cutils.BuildNativeInvokeCode(nutils.SystemContractAddress, 0, "evmInvoke",
							[]interface{}{&c05EvmInvokeParam{Caller: caller, Target: target, Input: rapid.SliceOfN(rapid.Byte(), 0, 8).Draw(t, "midinput")}})
						if err != nil {
							t.Fatal(err)
						}
						code = append(code, mid...)
						sp.Mid = "evmInvoke"
						ev.Class("gen:write-then-evmInvoke-then-tail")
					case 2:
						mid, err := cutils.BuildNativeInvokeCode(nutils.OngContractAddress, 0, "balanceOf", []interface{}{users[0].Address})
						if err != nil {
							t.Fatal(err)
						}
						code = append(code, mid...)
						sp.Mid = "balanceOf"
					}
					sp.Tail = rapid.SampledFrom([]string{"throw", "loop", "div0", "badop", "pad2k+throw", "pad2k"}).Draw(t, "tail")
					if burnPartial {
						sp.Tail = "loop"
					}
					switch sp.Tail {
					case "throw":
						code = append(code, 0xF0)
					case "loop":
						code = append(code, 0x62, 0x00, 0x00)
					case "div0":
						code = append(code, 0x51, 0x00, 0x96)
					case "badop":
						code = append(code, 0xFE)
					case "pad2k+throw":
						code = append(append(code, bytes.Repeat([]byte{0x61}, 2100)...), 0xF0)
					case "pad2k":
						code = append(code, bytes.Repeat([]byte{0x61}, 2100)...)
					}
				}
			case "create+fail":
				// contract-level write (Ontology.Contract.Create puts a contract record through the
				// tx cache) followed by a failure: desc, email, author, version, name, vmtype, code
				cc := rapid.SliceOfN(rapid.Byte(), 1, 12).Draw(t, "ccode")
				a := &c02Asm{}
				a.pushBytes([]byte("d")).pushBytes([]byte("e")).pushBytes([]byte("a")).pushBytes([]byte("v")).pushBytes([]byte("n")).pushInt(1).pushBytes(cc)
				a.syscall("Ontology.Contract.Create").op(0x75)
				sp.Tail = rapid.SampledFrom([]string{"throw", "div0", "badop", "none"}).Draw(t, "ctail")
				switch sp.Tail {
				case "throw":
					a.op(0xF0)
				case "div0":
					a.op(0x51).op(0x00).op(0x96)
				case "badop":
					a.op(0xFE)
				}
				code = a.b
				sp.Raw = cc
				sp.GasLimit = 30000000
				if sp.GasPrice > 1 {
					sp.GasPrice = 1
				}
			case "badargs":
				method := rapid.SampledFrom([]string{"transfer", "approve", "transferFrom", "nosuchmethod", "balanceOf"}).Draw(t, "method")
				args := rapid.SliceOfN(rapid.Byte(), 0, 40).Draw(t, "args")
				code, err = cutils.BuildNativeInvokeCode(tok, 0, method, []interface{}{args})
				if err != nil {
					t.Fatal(err)
				}
			default:
				sp.Raw = rapid.SliceOfN(rapid.Byte(), 1, 60).Draw(t, "raw")
				code = sp.Raw
			}
			mtx := ch.RawInvoke(code, sp.GasPrice, sp.GasLimit)
			mtx.Payer = users[sp.Payer].Address
			var ks []*fix.ZooKey
			for _, s := range sp.Signers {
				ks = append(ks, users[s])
			}
			tx, err := fix.Sign(mtx, ks...)
			if err != nil {
				t.Fatal(err)
			}
			specs = append(specs, sp)
			txs = append(txs, tx)
		}

		// ---- execute prefixes and diff
		cache := ch.LS.GetCacheDB()
		readBack := func(k string) []byte {
			v, err := cache.Get([]byte(k)[1:])
			if err != nil {
				t.Fatalf("read committed state: %v", err)
			}
			return v
		}
		prev := c05State{ws: map[string][]byte{}, readBack: readBack}
		var probe *types.Transaction
		for i := range txs {
			b, err := ch.MakeBlock(txs[:i+1], 0)
			if err != nil {
				t.Fatal(err)
			}
			res, err := ch.LS.ExecuteBlock(b)
			if err != nil {
				// an overlay error rejects the whole block: nothing is applied, nothing to judge
				ev.Class("block-rejected")
				ev.Case(false, fmt.Sprintf("rejected:%v", err))
				return
			}
			cur := c05State{ws: map[string][]byte{}, readBack: readBack}
			res.WriteSet.ForEach(func(k, v []byte) {
				cur.ws[string(k)] = append([]byte{}, v...)
			})
			keys := map[string]bool{}
			for k := range prev.ws {
				keys[k] = true
			}
			for k := range cur.ws {
				keys[k] = true
			}
			var changed []string
			for k := range keys {
				if !bytes.Equal(prev.val(k), cur.val(k)) {
					changed = append(changed, k)
				}
			}
			sort.Strings(changed)
			n := res.Notify[i]
			sp := specs[i]
			payer := users[sp.Payer].Address
			pk, gk := c05OngKey(payer), c05OngKey(gov)
			bal := func(s c05State, k string) *big.Int {
				v, err := c05DecodeBalance(s.val(k))
				if err != nil {
					t.Fatalf("tx %d %+v: undecodable ONG balance item %x: %v", i, sp, s.val(k), err)
				}
				if v.Sign() < 0 {
					t.Fatalf("tx %d %+v: negative ONG balance %s", i, sp, v)
				}
				return v
			}
			prePayer := bal(prev, pk)
			dPayer := new(big.Int).Sub(bal(cur, pk), prePayer)
			dGov := new(big.Int).Sub(bal(cur, gk), bal(prev, gk))
			fee := new(big.Int).Mul(new(big.Int).SetUint64(n.GasConsumed), big.NewInt(1000000000))
			desc := fmt.Sprintf("kind=%s tail=%s tok=%d st=%v raw=%x payer=%d signers=%v gp=%d gl=%d payerBal=%s -> state=%d gas=%d",
				sp.Kind, sp.Tail, sp.Token, sp.St, sp.Raw, sp.Payer, sp.Signers, sp.GasPrice, sp.GasLimit, prePayer, n.State, n.GasConsumed)
			if n.State == 0 {
				for _, k := range changed {
					if k != pk && k != gk {
						t.Fatalf("failed tx %d left a storage effect on key %x (tx %s)", i, k, desc)
					}
				}
				if dGov.Cmp(fee) != 0 || new(big.Int).Neg(dPayer).Cmp(fee) != 0 {
					t.Fatalf("failed tx %d: payer delta %s, governance delta %s, reported GasConsumed %s (x1e9) (tx %s)", i, dPayer, dGov, fee, desc)
				}
				if fee.Cmp(prePayer) > 0 {
					t.Fatalf("failed tx %d: fee %s exceeds payer balance %s (tx %s)", i, fee, prePayer, desc)
				}
				if sp.GasPrice == 0 && fee.Sign() != 0 {
					t.Fatalf("failed tx %d with gas price 0 was charged %s (tx %s)", i, fee, desc)
				}
				ev.Class("failed")
				wrote := false
				if sp.Kind == "transfer+tail" || sp.Kind == "create+fail" || (sp.Kind == "transfer" && len(sp.States) > 1) {
					wrote = true // the script performed (or attempted) balance writes before the failure point
					ev.Class("failed:after-write")
				}
				// The discarded effects must also be invisible to the rest of the block: a following
				// no-op transaction (0 ONG from the bookkeeper to itself, gas price 0) must leave the
				// block's write set exactly as it is now.
				if probe == nil {
					ptx, err := ch.Transfer(nutils.OngContractAddress, bk, bk.Address, 0, 0, 20000)
					if err != nil {
						t.Fatal(err)
					}
					probe = ptx
				}
				pb, err := ch.MakeBlock(append(append([]*types.Transaction{}, txs[:i+1]...), probe), 0)
				if err != nil {
					t.Fatal(err)
				}
				pres, err := ch.LS.ExecuteBlock(pb)
				if err != nil {
					t.Fatalf("probe block after failed tx %d rejected: %v", i, err)
				}
				if pres.Notify[i+1].State != 1 {
					t.Fatalf("probe tx after failed tx %d did not succeed", i)
				}
				after := c05State{ws: map[string][]byte{}, readBack: readBack}
				pres.WriteSet.ForEach(func(k, v []byte) { after.ws[string(k)] = append([]byte{}, v...) })
				for k := range after.ws {
					if !bytes.Equal(after.val(k), cur.val(k)) {
						t.Fatalf("effects of failed tx %d resurfaced in the next transaction of the block: key %x = %x, expected %x (tx %s)", i, k, after.val(k), cur.val(k), desc)
					}
				}
				ev.Class("failed:" + sp.Kind + ":" + sp.Tail)
				ev.Case(fee.Sign() > 0 || wrote, desc)
			} else {
				if dGov.Cmp(fee) != 0 {
					t.Fatalf("successful tx %d: governance received %s but GasConsumed reports %s (x1e9) (tx %s)", i, dGov, fee, desc)
				}
				// payer pays at least the fee unless it also received ONG in this tx
				ev.Class("success")
				ev.Case(false, desc)
			}
			if strings.Contains(desc, "\x00") {
				_ = desc
			}
			prev = cur
		}
	})
}
