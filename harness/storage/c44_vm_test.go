package storage

// C44(b) Contract migration and destruction — VM level on a real solo ledger (network id 3: destroyed
// contract tracking is active from height 0).
//
// A family of generated NeoVM dispatcher contracts (neoasm_test.go; the generations differ in a tag and
// in their embedded init entries, i.e. in their address) is driven through REAL signed deploy / invoke
// transactions packed into blocks that are executed and committed by the ledger store:
//   - Storage.Put / Storage.Delete / init in earlier blocks, earlier transactions of the same block and
//     the same transaction as the final call (persistent store / block overlay / transaction cache);
//   - Contract.Migrate to another generation, Contract.Destroy;
//   - afterwards: deploy transactions with the old code, Contract.Create with the old code, calls and
//     writes through the old address (later transaction, same transaction, same execution), migrations
//     onto destroyed addresses (from a live contract and from a bare script).
// Oracle: reference model (status + map per generation). After every block: every transaction's
// success flag, CacheDB.GetContract (record / destroyed marker), the complete storage under every
// generation's address (iterator), GetStorageItem point reads and Storage.Get executed by the VM
// (pre-execution) must agree with the model; again after reopening the ledger.

import (
	"bytes"
	"encoding/hex"
	"fmt"
	"os"
	"path/filepath"
	"sort"
	"strings"
	"testing"

	"github.com/ontio/ontology/common"
	"github.com/ontio/ontology/core/payload"
	"github.com/ontio/ontology/core/states"
	"github.com/ontio/ontology/core/types"
	cutils "github.com/ontio/ontology/core/utils"
	vm "github.com/ontio/ontology/vm/neovm"
	"pgregory.net/rapid"

	"verifharness/internal/fix"
	"verifharness/internal/harn"
)

const (
	stNone = iota
	stAlive
	stDestroyed
)

const c44GasLimit = 2000000000

var c44Meta = deployMeta{"c44", "1", "verif", "v@x", "dispatcher"}

type vmGen struct {
	code     []byte
	addr     common.Address
	embedded []kv
}

type vmCall struct {
	kind   string // put delete init migrate destroy destroyThenPut migrateThenPut create bareMigrate
	target int    // callee generation (APPCALL); -1 for bare syscalls
	to     int    // generation whose code is passed to Migrate/Create
	k, v   []byte
}

func (c vmCall) String() string {
	switch c.kind {
	case "put":
		return fmt.Sprintf("G%d.put(%x=%x)", c.target, c.k, c.v)
	case "delete":
		return fmt.Sprintf("G%d.del(%x)", c.target, c.k)
	case "init", "destroy":
		return fmt.Sprintf("G%d.%s", c.target, c.kind)
	case "migrate":
		return fmt.Sprintf("G%d.migrate(G%d)", c.target, c.to)
	case "destroyThenPut":
		return fmt.Sprintf("G%d.destroy+put(%x=%x)", c.target, c.k, c.v)
	case "migrateThenPut":
		return fmt.Sprintf("G%d.migrate(G%d)+put(%x=%x)", c.target, c.to, c.k, c.v)
	case "create":
		return fmt.Sprintf("script.Create(G%d)", c.to)
	default:
		return fmt.Sprintf("script.Migrate(G%d)", c.to)
	}
}

type vmTx struct {
	deploy int // >= 0: deploy transaction of that generation; -1: invoke transaction
	calls  []vmCall
}

func (x vmTx) String() string {
	if x.deploy >= 0 {
		return fmt.Sprintf("deploy(G%d)", x.deploy)
	}
	var s []string
	for _, c := range x.calls {
		s = append(s, c.String())
	}
	return "[" + strings.Join(s, ",") + "]"
}

type prov struct{ block, tx int }

// vmModel is the reference model.
type vmModel struct {
	status []int
	store  []map[string][]byte
	where  []map[string]prov // provenance of each live entry (block, tx of its last write)
}

func newVMModel(n int) *vmModel {
	m := &vmModel{status: make([]int, n)}
	for i := 0; i < n; i++ {
		m.store = append(m.store, map[string][]byte{})
		m.where = append(m.where, map[string]prov{})
	}
	return m
}

func (m *vmModel) clone() *vmModel {
	c := &vmModel{status: append([]int{}, m.status...)}
	for i := range m.store {
		s, w := map[string][]byte{}, map[string]prov{}
		for k, v := range m.store[i] {
			s[k] = v
		}
		for k, v := range m.where[i] {
			w[k] = v
		}
		c.store = append(c.store, s)
		c.where = append(c.where, w)
	}
	return c
}

func (m *vmModel) pick(st int) []int {
	var out []int
	for i, s := range m.status {
		if s == st {
			out = append(out, i)
		}
	}
	return out
}

type applyInfo struct {
	ok           bool // predicted success of the transaction
	postMortem   bool // contains a write executed after destroy/migrate in the same execution (outcome observed)
	moved        []string
	provClasses  map[string]bool // provenance classes of the entries moved/removed by a successful migrate/destroy
	movedEntries int
}

// apply executes a transaction plan on the model. When the transaction is predicted to fail the
// model is left untouched. skipPostMortemPut=true applies destroyThenPut/migrateThenPut WITHOUT the
// trailing put (used when the real transaction unexpectedly succeeded: the property then demands that
// nothing is stored under the dead address).
func (m *vmModel) apply(gens []vmGen, x vmTx, at prov, skipPostMortemPut bool) applyInfo {
	info := applyInfo{provClasses: map[string]bool{}}
	w := m.clone()
	fail := func() applyInfo { info.ok = false; return info }
	if x.deploy >= 0 {
		switch w.status[x.deploy] {
		case stDestroyed:
			return fail()
		case stNone:
			w.status[x.deploy] = stAlive
		}
		*m = *w
		info.ok = true
		return info
	}
	kill := func(g int) {
		for k := range w.store[g] {
			p := w.where[g][k]
			switch {
			case p == at:
				info.provClasses["same-tx"] = true
			case p.block == at.block:
				info.provClasses["same-block"] = true
			default:
				info.provClasses["earlier-block"] = true
			}
			info.movedEntries++
		}
	}
	for _, c := range x.calls {
		if c.target >= 0 && w.status[c.target] != stAlive {
			return fail() // APPCALL of a non-existent contract
		}
		switch c.kind {
		case "put":
			w.store[c.target][string(c.k)] = c.v
			w.where[c.target][string(c.k)] = at
		case "delete":
			delete(w.store[c.target], string(c.k))
			delete(w.where[c.target], string(c.k))
		case "init":
			for _, e := range gens[c.target].embedded {
				w.store[c.target][string(e.K)] = e.V
				w.where[c.target][string(e.K)] = at
			}
		case "migrate", "migrateThenPut":
			if w.status[c.to] != stNone {
				return fail() // target deployed or destroyed
			}
			if c.kind == "migrateThenPut" {
				info.postMortem = true
				if !skipPostMortemPut {
					return fail()
				}
			}
			kill(c.target)
			w.status[c.to] = stAlive
			for k, v := range w.store[c.target] {
				w.store[c.to][k] = v
				w.where[c.to][k] = w.where[c.target][k]
			}
			w.store[c.target], w.where[c.target] = map[string][]byte{}, map[string]prov{}
			w.status[c.target] = stDestroyed
			info.moved = append(info.moved, fmt.Sprintf("migrate:G%d->G%d", c.target, c.to))
		case "destroy", "destroyThenPut":
			if c.kind == "destroyThenPut" {
				info.postMortem = true
				if !skipPostMortemPut {
					return fail()
				}
			}
			kill(c.target)
			w.store[c.target], w.where[c.target] = map[string][]byte{}, map[string]prov{}
			w.status[c.target] = stDestroyed
			info.moved = append(info.moved, fmt.Sprintf("destroy:G%d", c.target))
		case "create":
			if w.status[c.to] == stNone {
				w.status[c.to] = stAlive
			}
		case "bareMigrate":
			if w.status[c.to] != stNone {
				return fail()
			}
			w.status[c.to] = stAlive
		}
	}
	*m = *w
	info.ok = true
	return info
}

// script assembles the invoke script of a transaction plan.
func c44Script(gens []vmGen, x vmTx) []byte {
	var a asm
	for _, c := range x.calls {
		switch c.kind {
		case "put":
			a.push(c.v).push(c.k).pushInt(opPut).appcall(gens[c.target].addr).drops(3)
		case "delete":
			a.push(c.k).pushInt(opDelete).appcall(gens[c.target].addr).drops(2)
		case "init":
			a.pushInt(opInit).appcall(gens[c.target].addr).drops(1)
		case "migrate":
			a.pushDeployArgs(gens[c.to].code, c44Meta).pushInt(opMigrate).appcall(gens[c.target].addr).drops(8)
		case "destroy":
			a.pushInt(opDestroy).appcall(gens[c.target].addr).drops(1)
		case "destroyThenPut":
			a.push(c.v).push(c.k).pushInt(opDestroyThenPut).appcall(gens[c.target].addr).drops(3)
		case "migrateThenPut":
			a.push(c.v).push(c.k).pushDeployArgs(gens[c.to].code, c44Meta).pushInt(opMigrateThenPut).appcall(gens[c.target].addr).drops(10)
		case "create":
			a.pushDeployArgs(gens[c.to].code, c44Meta).syscall(sysContractCreate).op(vm.DROP)
		case "bareMigrate":
			a.pushDeployArgs(gens[c.to].code, c44Meta).syscall(sysContractMigrate).op(vm.DROP)
		}
	}
	return a.Bytes()
}

type vmHarness struct {
	ch   *fix.Chain
	bk   *fix.ZooKey
	gens []vmGen
}

func (h *vmHarness) buildTx(x vmTx) (*types.Transaction, error) {
	if x.deploy >= 0 {
		mtx, err := cutils.NewDeployTransaction(h.gens[x.deploy].code, c44Meta.Name, c44Meta.Version, c44Meta.Author, c44Meta.Email, c44Meta.Desc, payload.NEOVM_TYPE)
		if err != nil {
			return nil, err
		}
		h.ch.NonceCt++
		mtx.Nonce, mtx.GasLimit, mtx.GasPrice = h.ch.NonceCt, c44GasLimit, 0
		return fix.Sign(mtx, h.bk)
	}
	return fix.Sign(h.ch.RawInvoke(c44Script(h.gens, x), 0, c44GasLimit), h.bk)
}

// observe compares the ledger with the model; stage names the moment for messages.
func (h *vmHarness) observe(m *vmModel, viaVM bool, t *rapid.T, ctx func() string) {
	cache := h.ch.LS.GetCacheDB()
	for i, g := range h.gens {
		dep, destroyed, err := cache.GetContract(g.addr)
		if err != nil {
			t.Fatalf("GetContract(G%d): %v; %s", i, err, ctx())
		}
		switch m.status[i] {
		case stAlive:
			if dep == nil || destroyed || !bytes.Equal(dep.GetRawCode(), g.code) {
				t.Fatalf("G%d is deployed in the model but GetContract = (record %v, destroyed %v); %s", i, dep != nil, destroyed, ctx())
			}
		case stDestroyed:
			if dep != nil || !destroyed {
				t.Fatalf("G%d was destroyed/migrated away (tracking active) but GetContract = (record %v, destroyed %v): the address is deployed again or not marked; %s", i, dep != nil, destroyed, ctx())
			}
		default:
			if dep != nil || destroyed {
				t.Fatalf("G%d was never deployed in the model but GetContract = (record %v, destroyed %v); %s", i, dep != nil, destroyed, ctx())
			}
		}
		ks, raws, err := drain(cache.NewIterator(g.addr[:]))
		if err != nil {
			t.Fatalf("storage iterator of G%d: %v; %s", i, err, ctx())
		}
		got := map[string][]byte{}
		for j := range ks {
			v, err := states.GetValueFromRawStorageItem(raws[j])
			if err != nil {
				t.Fatalf("G%d key %x holds an undecodable storage item %x; %s", i, ks[j][20:], raws[j], ctx())
			}
			got[ks[j][20:]] = v
		}
		if m.status[i] != stAlive && len(got) != 0 {
			t.Fatalf("G%d is %s in the model but storage exists under its address: %s; %s", i, []string{"never deployed", "", "destroyed/migrated away"}[m.status[i]], fmtMap(got), ctx())
		}
		if !sameMap(got, m.store[i]) {
			t.Fatalf("storage under G%d is %s, reference model %s; %s", i, fmtMap(got), fmtMap(m.store[i]), ctx())
		}
		keys := sortedKeys(m.store[i])
		for _, k := range keys {
			v, err := h.ch.LS.GetStorageItem(g.addr, []byte(k))
			if err != nil || !bytes.Equal(v, m.store[i][k]) {
				t.Fatalf("GetStorageItem(G%d, %x) = %x (err %v), model %x; %s", i, k, v, err, m.store[i][k], ctx())
			}
		}
		if viaVM && m.status[i] == stAlive {
			probe := append([]string{}, keys...)
			if len(probe) > 3 {
				probe = probe[:3]
			}
			probe = append(probe, "\x01absent")
			for _, k := range probe {
				tx, err := fix.Sign(h.ch.RawInvoke(new(asm).push([]byte(k)).pushInt(opGet).appcall(g.addr).Bytes(), 0, c44GasLimit), h.bk)
				if err != nil {
					t.Fatal(err)
				}
				r, err := h.ch.LS.PreExecuteContract(tx)
				if err != nil || r == nil || r.State != 1 {
					t.Fatalf("pre-executed Storage.Get(G%d, %x) failed: %v %+v; %s", i, k, err, r, ctx())
				}
				gotHex, _ := r.Result.(string)
				if gotHex != hex.EncodeToString(m.store[i][k]) {
					t.Fatalf("Storage.Get executed by the VM under G%d for key %x returns %q, model %x; %s", i, k, gotHex, m.store[i][k], ctx())
				}
			}
		}
	}
}

func sortedKeys(m map[string][]byte) []string {
	out := make([]string, 0, len(m))
	for k := range m {
		out = append(out, k)
	}
	sort.Strings(out)
	return out
}

func sameMap(a, b map[string][]byte) bool {
	if len(a) != len(b) {
		return false
	}
	for k, v := range a {
		w, ok := b[k]
		if !ok || !bytes.Equal(v, w) {
			return false
		}
	}
	return true
}

func fmtMap(m map[string][]byte) string {
	var s []string
	for _, k := range sortedKeys(m) {
		s = append(s, fmt.Sprintf("%x=%x", k, m[k]))
	}
	return "{" + strings.Join(s, " ") + "}"
}

// c44WitnessWriteAfterDestroy replays the deterministic witness of finding
// C44/write-after-destroy-in-same-execution: deploy the dispatcher, then ONE invoke transaction whose
// contract code calls Contract.Destroy and afterwards Storage.Put in the same execution. It reports
// whether the write was accepted and stays under the destroyed address.
func c44WitnessWriteAfterDestroy() (stillFails bool, detail string, err error) {
	dir, err := os.MkdirTemp("", "c44w-")
	if err != nil {
		return false, "", err
	}
	defer os.RemoveAll(dir)
	bk := fix.Key(fix.KP256, 0)
	ch, err := fix.NewSolo(filepath.Join(dir, "ledger"), bk)
	if err != nil {
		return false, "", err
	}
	defer ch.Close()
	g := vmGen{code: dispatcherCode([]byte("witness"), nil)}
	g.addr = common.AddressFromVmCode(g.code)
	h := &vmHarness{ch: ch, bk: bk, gens: []vmGen{g}}
	dtx, err := h.buildTx(vmTx{deploy: 0})
	if err != nil {
		return false, "", err
	}
	itx, err := h.buildTx(vmTx{deploy: -1, calls: []vmCall{{kind: "destroyThenPut", target: 0, k: []byte("k"), v: []byte("v")}}})
	if err != nil {
		return false, "", err
	}
	if _, res, err := ch.AddTxs([]*types.Transaction{dtx}); err != nil || res.Notify[0].State != 1 {
		return false, "", fmt.Errorf("witness deploy failed: %v", err)
	}
	_, res, err := ch.AddTxs([]*types.Transaction{itx})
	if err != nil {
		return false, "", err
	}
	cache := ch.LS.GetCacheDB()
	_, destroyed, _ := cache.GetContract(g.addr)
	ks, vs, _ := drain(cache.NewIterator(g.addr[:]))
	detail = fmt.Sprintf("tx state %d, destroyed marker %v, storage under the address %s", res.Notify[0].State, destroyed, fmtSeq(ks, vs))
	return res.Notify[0].State == 1 && destroyed && len(ks) > 0, detail, nil
}

func TestC44_VMLedger(t *testing.T) {
	ev := harn.For("C44").Rule("(b) VM level: 6 generated dispatcher contracts (tag + 0-3 embedded entries) on a fresh solo ledger per case; 4-8 blocks of 2-5 state-aware transactions: deploy txs, invoke scripts of 1-4 put/delete/init calls optionally ending in Contract.Migrate / Contract.Destroy (+ calls after it in the same script), and attempts on dead addresses (redeploy tx, Contract.Create, APPCALL put, migrate onto, write after destroy/migrate in the same execution); ~30% of choices ignore the model state. Non-trivial = a successful migrate or destroy of a contract with >= 2 live entries whose writes come from >= 2 of {earlier block, earlier tx of the block, same tx}, followed by >= 1 attempt to deploy / write / migrate onto a dead address; distinct by history")
	ev.Assume("global-params admin method removeDestroyedContract (governance override of the marker) is never invoked; gas price 0; single signer")
	ev.Floor("b:migrate:ok", "b:case", 0.5)
	ev.Floor("b:destroy:ok", "b:case", 0.3)
	ev.Floor("b:nontrivial", "b:case", 0.2)
	ev.Floor("b:attempt:redeploy-tx", "b:case", 0.3)
	ev.Floor("b:attempt:call-dead-address", "b:case", 0.3)
	ev.Floor("b:attempt:migrate-onto-dead", "b:case", 0.2)
	fix.Quiet()
	bk := fix.Key(fix.KP256, 0)

	still, detail, err := c44WitnessWriteAfterDestroy()
	if err != nil {
		t.Fatalf("witness replay: %v", err)
	}
	excludePM := harn.Known("C44", "write-after-destroy-in-same-execution", still)
	if still && !excludePM {
		t.Logf("finding C44/write-after-destroy-in-same-execution reproduces (%s) and is not listed: the class stays in the generator", detail)
	}

	harn.Check(t, 60, 1200, func(t *rapid.T) {
		const nGen = 6
		gens := make([]vmGen, nGen)
		tagSeed := rapid.SliceOfN(rapid.Byte(), 2, 6).Draw(t, "tag")
		for i := range gens {
			for j, n := 0, rapid.IntRange(0, 3).Draw(t, "nEmbedded"); j < n; j++ {
				gens[i].embedded = append(gens[i].embedded, kv{[]byte(genSuffix(t, "ek")), rapid.SliceOfN(rapid.Byte(), 0, 6).Draw(t, "ev")})
			}
			gens[i].code = dispatcherCode(append(append([]byte{}, tagSeed...), byte(i)), gens[i].embedded)
			gens[i].addr = common.AddressFromVmCode(gens[i].code)
		}
		dir, err := os.MkdirTemp("", "c44-")
		if err != nil {
			t.Fatal(err)
		}
		defer os.RemoveAll(dir)
		ch, err := fix.NewSolo(filepath.Join(dir, "ledger"), bk)
		if err != nil {
			t.Fatal(err)
		}
		defer func() { ch.Close() }()
		h := &vmHarness{ch: ch, bk: bk, gens: gens}
		m := newVMModel(nGen)

		var hist []string
		ctx := func() string { return "history: " + strings.Join(hist, " | ") }
		var goodKill bool     // a successful migrate/destroy with >=2 entries from >=2 provenance classes happened
		var attemptsAfter int // attempts on dead addresses after that
		nontrivial := false

		anyGen := func(label string) int { return rapid.IntRange(0, nGen-1).Draw(t, label) }
		pickFrom := func(c []int, label string) int {
			if len(c) == 0 || rapid.IntRange(0, 9).Draw(t, label+"-wild") < 3 {
				return anyGen(label)
			}
			return rapid.SampledFrom(c).Draw(t, label)
		}
		genK := func(g int, w *vmModel, label string) []byte {
			keys := sortedKeys(w.store[g])
			for _, e := range gens[g].embedded {
				keys = append(keys, string(e.K))
			}
			if len(keys) > 0 && rapid.IntRange(0, 9).Draw(t, label+"-known") < 5 {
				return []byte(rapid.SampledFrom(keys).Draw(t, label))
			}
			return []byte(genSuffix(t, label))
		}
		genV := func(label string) []byte { return rapid.SliceOfN(rapid.Byte(), 0, 6).Draw(t, label) }

		nBlocks := rapid.IntRange(4, 8).Draw(t, "blocks")
		for b := 1; b <= nBlocks; b++ {
			nTx := rapid.IntRange(2, 5).Draw(t, "ntx")
			var plans []vmTx
			var infos []applyInfo
			var txs []*types.Transaction
			pred := m.clone() // model as predicted while the block is being generated
			for ti := 0; ti < nTx; ti++ {
				alive, dead, none := pred.pick(stAlive), pred.pick(stDestroyed), pred.pick(stNone)
				var x vmTx
				x.deploy = -1
				kind := rapid.SampledFrom([]string{"invoke", "invoke", "invoke", "invoke", "invoke", "invoke", "deploy", "dead", "dead", "bare"}).Draw(t, "txkind")
				if b == 1 && ti < 2 {
					kind = "deploy" // start with something to work on
				}
				if len(alive) == 0 && kind == "invoke" {
					kind = "deploy"
				}
				if len(dead) == 0 && kind == "dead" {
					kind = "invoke"
					if len(alive) == 0 {
						kind = "deploy"
					}
				}
				switch kind {
				case "deploy":
					// mostly something that can be deployed; sometimes an alive (no-op) or dead (must fail) one
					x.deploy = pickFrom(append(append([]int{}, none...), dead...), "deployGen")
				case "invoke":
					g := pickFrom(alive, "callee")
					work := pred.clone()
					for i, n := 0, rapid.IntRange(1, 4).Draw(t, "ncalls"); i < n; i++ {
						var c vmCall
						switch rapid.IntRange(0, 5).Draw(t, "callkind") {
						case 0:
							c = vmCall{kind: "delete", target: g, k: genK(g, work, "dk")}
						case 1:
							c = vmCall{kind: "init", target: g}
						default:
							c = vmCall{kind: "put", target: g, k: genK(g, work, "pk"), v: genV("pv")}
						}
						x.calls = append(x.calls, c)
						work.apply(gens, vmTx{deploy: -1, calls: []vmCall{c}}, prov{b, ti}, false)
					}
					fin := rapid.SampledFrom([]string{"none", "none", "none", "none", "none", "none", "none", "none", "none", "none", "none", "none",
						"migrate", "migrate", "migrate", "migrate", "destroy", "destroy", "destroyThenPut", "migrateThenPut"}).Draw(t, "final")
					if (fin == "destroyThenPut" || fin == "migrateThenPut") && excludePM {
						ev.Excluded()
						fin = map[string]string{"destroyThenPut": "destroy", "migrateThenPut": "migrate"}[fin]
					}
					switch fin {
					case "migrate", "migrateThenPut":
						to := pickFrom(none, "migrateTo")
						x.calls = append(x.calls, vmCall{kind: fin, target: g, to: to, k: genK(g, work, "pmk"), v: genV("pmv")})
						// calls after the migration inside the same script
						switch rapid.IntRange(0, 4).Draw(t, "afterMigrate") {
						case 0:
							x.calls = append(x.calls, vmCall{kind: "put", target: to, k: genK(g, work, "nk"), v: genV("nv")}) // write under the NEW address
						case 1:
							x.calls = append(x.calls, vmCall{kind: "put", target: g, k: genK(g, work, "ok"), v: genV("ov")}) // through the OLD address: must fail
						case 2:
							x.calls = append(x.calls, vmCall{kind: "create", target: -1, to: g}) // re-create the old code: must not re-create
						}
					case "destroy", "destroyThenPut":
						x.calls = append(x.calls, vmCall{kind: fin, target: g, k: genK(g, work, "pmk"), v: genV("pmv")})
						switch rapid.IntRange(0, 4).Draw(t, "afterDestroy") {
						case 0:
							x.calls = append(x.calls, vmCall{kind: "put", target: g, k: genK(g, work, "ok"), v: genV("ov")})
						case 1:
							x.calls = append(x.calls, vmCall{kind: "create", target: -1, to: g})
						}
					}
					if len(x.calls) == 0 {
						x.calls = append(x.calls, vmCall{kind: "put", target: g, k: genK(g, work, "pk"), v: genV("pv")})
					}
				case "dead":
					d := pickFrom(dead, "deadGen")
					switch rapid.IntRange(0, 4).Draw(t, "deadkind") {
					case 0:
						x.deploy = d
					case 1:
						x.calls = []vmCall{{kind: "put", target: d, k: []byte(genSuffix(t, "dk")), v: genV("dv")}}
					case 2:
						x.calls = []vmCall{{kind: "create", target: -1, to: d}}
					case 3:
						x.calls = []vmCall{{kind: "bareMigrate", target: -1, to: d}}
					default:
						from := pickFrom(alive, "from")
						x.calls = []vmCall{{kind: "migrate", target: from, to: d}}
					}
				default: // bare syscalls from the invoke script itself
					to := pickFrom(append(append([]int{}, none...), dead...), "bareGen")
					x.calls = []vmCall{{kind: rapid.SampledFrom([]string{"create", "bareMigrate"}).Draw(t, "barekind"), target: -1, to: to}}
				}
				before := pred.clone()
				info := pred.apply(gens, x, prov{b, ti}, false)
				tx, err := h.buildTx(x)
				if err != nil {
					t.Fatalf("building %s: %v", x, err)
				}
				plans, infos, txs = append(plans, x), append(infos, info), append(txs, tx)
				// attempts on dead addresses (as of the state before this tx)
				attempt := func(name string) {
					ev.Class("b:attempt:" + name)
					if goodKill {
						attemptsAfter++
					}
				}
				if x.deploy >= 0 && before.status[x.deploy] == stDestroyed {
					attempt("redeploy-tx")
				}
				sim := before.clone() // walk the script call by call (kills applied) to classify each call
				for _, c := range x.calls {
					switch {
					case c.target >= 0 && sim.status[c.target] == stDestroyed:
						attempt("call-dead-address")
					case (c.kind == "migrate" || c.kind == "bareMigrate" || c.kind == "migrateThenPut") && sim.status[c.to] == stDestroyed:
						attempt("migrate-onto-dead")
					case c.kind == "create" && sim.status[c.to] == stDestroyed:
						attempt("create-dead")
					}
					if r := sim.apply(gens, vmTx{deploy: -1, calls: []vmCall{c}}, prov{b, ti}, true); !r.ok {
						break
					}
				}
			}
			_, res, err := ch.AddTxs(txs)
			if err != nil {
				t.Fatalf("block %d rejected: %v; block %v; %s", b, err, plans, ctx())
			}
			if len(res.Notify) != len(txs) {
				t.Fatalf("block %d: %d notifications for %d txs", b, len(res.Notify), len(txs))
			}
			var line []string
			for ti, x := range plans {
				okReal := res.Notify[ti].State == 1
				info := m.apply(gens, x, prov{b, ti}, false)
				line = append(line, fmt.Sprintf("%s=%v", x, okReal))
				hist = append(hist[:len(hist):len(hist)], fmt.Sprintf("B%d:%s", b, strings.Join(line, ";")))
				if info.postMortem {
					ev.Class("b:attempt:write-after-kill-same-execution")
					if okReal {
						// the property: nothing may be stored under the dead address. Apply the kill without the put
						// and let the storage comparison below decide.
						info = m.apply(gens, x, prov{b, ti}, true)
						ev.Class("b:write-after-kill:tx-accepted")
					}
				} else if okReal != info.ok {
					what := "the model expects it to fail (deploy of / call through / migration onto an address that is destroyed, migrated away or already deployed)"
					if info.ok {
						what = "the model expects it to succeed"
					}
					t.Fatalf("block %d tx %d %s: ledger reports success=%v but %s; %s", b, ti, x, okReal, what, ctx())
				}
				hist = hist[:len(hist)-1]
				name := "invoke"
				if x.deploy >= 0 {
					name = "deploy"
				}
				if okReal {
					ev.Class("b:tx:" + name + ":ok")
				} else {
					ev.Class("b:tx:" + name + ":failed")
				}
				if okReal {
					for _, mv := range info.moved {
						ev.Class("b:" + mv[:strings.Index(mv, ":")] + ":ok")
					}
					for c := range info.provClasses {
						ev.Class("b:killed-entry-from:" + c)
					}
					if len(info.moved) > 0 && info.movedEntries >= 2 && len(info.provClasses) >= 2 {
						goodKill = true
						ev.Class("b:kill-with-layered-storage")
					}
				}
			}
			hist = append(hist, fmt.Sprintf("B%d:%s", b, strings.Join(line, ";")))
			h.observe(m, true, t, ctx)
			if rapid.IntRange(0, 11).Draw(t, "reopen") == 0 { // reopening costs ~0.2 s (four goleveldb recoveries)
				if err := ch.Reopen(); err != nil {
					t.Fatalf("reopen: %v", err)
				}
				hist = append(hist, "reopen")
				h.observe(m, false, t, ctx)
			}
		}
		if rapid.IntRange(0, 2).Draw(t, "finalReopen") == 0 {
			if err := ch.Reopen(); err != nil {
				t.Fatalf("reopen: %v", err)
			}
			hist = append(hist, "reopen")
			h.observe(m, true, t, ctx)
			ev.Class("b:final-reopen")
		}
		nontrivial = goodKill && attemptsAfter > 0
		ev.Class("b:case")
		if nontrivial {
			ev.Class("b:nontrivial")
		}
		ev.Case(nontrivial, "b:"+strings.Join(hist, "|"))
	})
}

// TestC44_WriteAfterDestroyWitness replays the minimal deterministic witness of finding
// C44/write-after-destroy-in-same-execution first (own process): when the defect reproduces and is
// not recorded in known_findings.json this is the violation report with the smallest input.
func TestC44_WriteAfterDestroyWitness(t *testing.T) {
	ev := harn.For("C44")
	fix.Quiet()
	still, detail, err := c44WitnessWriteAfterDestroy()
	if err != nil {
		t.Fatalf("witness replay: %v", err)
	}
	if !still {
		ev.Class("witness:write-after-destroy:rejected")
		return
	}
	ev.Class("witness:write-after-destroy:accepted")
	if harn.Known("C44", "write-after-destroy-in-same-execution", true) {
		return
	}
	harn.Violation(t, "C44", map[string]string{
		"block1": "deploy tx: NeoVM dispatcher contract D (neoasm_test.go dispatcherCode(tag \"witness\", no embedded entries))",
		"block2": "invoke tx: PUSH 'v' PUSH 'k' PUSH6 APPCALL D; D executes SYSCALL System.Contract.Destroy, SYSCALL System.Storage.GetContext, SYSCALL System.Storage.Put in the same execution",
	}, "a contract that destroyed itself keeps writing under its destroyed address: %s; expected the write to be rejected (transaction fails) so that no storage exists under a destroyed address", detail)
}
