package fix

import (
	"encoding/hex"
	"fmt"
	"math"
	"os"
	"path/filepath"

	"github.com/ontio/ontology-crypto/keypair"
	"github.com/ontio/ontology/common"
	"github.com/ontio/ontology/common/config"
	"github.com/ontio/ontology/common/constants"
	"github.com/ontio/ontology/common/log"
	"github.com/ontio/ontology/core/genesis"
	"github.com/ontio/ontology/core/payload"
	"github.com/ontio/ontology/core/signature"
	"github.com/ontio/ontology/core/store"
	"github.com/ontio/ontology/core/store/ledgerstore"
	"github.com/ontio/ontology/core/types"
	cutils "github.com/ontio/ontology/core/utils"
	"github.com/ontio/ontology/smartcontract"
	sctx "github.com/ontio/ontology/smartcontract/context"
	"github.com/ontio/ontology/smartcontract/service/native/ont"
	"github.com/ontio/ontology/smartcontract/storage"
)

// Quiet silences the node's logger (it writes to stdout by default).
func Quiet() { log.InitLog(log.MaxLevelLog) }

// Chain is a real ledger store plus what is needed to extend it.
type Chain struct {
	Dir     string
	LS      *ledgerstore.LedgerStoreImp
	Genesis *types.Block
	BKs     []keypair.PublicKey
	Signers []*ZooKey // bookkeeper accounts (solo: one)
	NonceCt uint32
}

// SoloConfig sets the process-wide configuration used by every solo fixture (network id 3).
func SoloConfig(bk *ZooKey) {
	config.DefConfig.Genesis.ConsensusType = "solo"
	config.DefConfig.Genesis.SOLO.GenBlockTime = 3
	config.DefConfig.Genesis.SOLO.Bookkeepers = []string{hex.EncodeToString(keypair.SerializePublicKey(bk.PublicKey))}
	config.DefConfig.P2PNode.NetworkId = 3
}

// NewSolo creates a fresh solo ledger in dir (genesis committed). bk owns all ONT and ONG.
func NewSolo(dir string, bk *ZooKey) (*Chain, error) {
	Quiet()
	SoloConfig(bk)
	bks := []keypair.PublicKey{bk.PublicKey}
	gb, err := genesis.BuildGenesisBlock(bks, config.DefConfig.Genesis)
	if err != nil {
		return nil, err
	}
	c := &Chain{Dir: dir, Genesis: gb, BKs: bks, Signers: []*ZooKey{bk}}
	if err := c.Open(); err != nil {
		return nil, err
	}
	return c, nil
}

// Open (re)opens the ledger store on c.Dir; on an existing directory this runs the recovery path.
func (c *Chain) Open() error {
	ls, err := ledgerstore.NewLedgerStore(c.Dir, 0)
	if err != nil {
		return err
	}
	if err := ls.InitLedgerStoreWithGenesisBlock(c.Genesis, c.BKs); err != nil {
		ls.Close()
		return err
	}
	c.LS = ls
	return nil
}

func (c *Chain) Close() {
	if c.LS != nil {
		c.LS.Close()
		c.LS = nil
	}
}

// Reopen closes and opens again.
func (c *Chain) Reopen() error {
	c.Close()
	return c.Open()
}

// VbftConfig builds a VBFT genesis configuration with the given peers (n >= 7).
func VbftConfig(peers []*ZooKey, cFault uint32) *config.VBFTConfig {
	n := len(peers)
	ps := make([]*config.VBFTPeerStakeInfo, n)
	for i, a := range peers {
		ps[i] = &config.VBFTPeerStakeInfo{Index: uint32(i + 1), PeerPubkey: hex.EncodeToString(keypair.SerializePublicKey(a.PublicKey)),
			Address: a.Address.ToBase58(), InitPos: 10000}
	}
	v := *config.PolarisConfig.VBFT
	v.N, v.K, v.C, v.L = uint32(n), uint32(n), cFault, uint32(16*n)
	v.Peers = ps
	return &v
}

// NewVbft creates a ledger whose genesis carries a VBFT configuration over the given peers.
func NewVbft(dir string, peers []*ZooKey, cFault uint32) (*Chain, error) {
	Quiet()
	config.DefConfig.Genesis.ConsensusType = "vbft"
	config.DefConfig.Genesis.VBFT = VbftConfig(peers, cFault)
	config.DefConfig.P2PNode.NetworkId = 3
	var bks []keypair.PublicKey
	for _, p := range peers {
		bks = append(bks, p.PublicKey)
	}
	gb, err := genesis.BuildGenesisBlock(bks, config.DefConfig.Genesis)
	if err != nil {
		return nil, err
	}
	c := &Chain{Dir: dir, Genesis: gb, BKs: bks, Signers: peers}
	if err := c.Open(); err != nil {
		return nil, err
	}
	return c, nil
}

// ---------------------------------------------------------------------------------------------
// blocks

// MakeBlock builds the next block on the chain, signed by the solo bookkeeper.
// ts == 0 picks parent timestamp + 1.
func (c *Chain) MakeBlock(txs []*types.Transaction, ts uint32) (*types.Block, error) {
	height := c.LS.GetCurrentBlockHeight()
	prev := c.LS.GetCurrentBlockHash()
	if ts == 0 {
		ph, err := c.LS.GetHeaderByHash(prev)
		if err != nil {
			return nil, err
		}
		ts = ph.Timestamp + 1
	}
	return c.MakeBlockAt(height+1, prev, txs, ts)
}

func (c *Chain) MakeBlockAt(height uint32, prev common.Uint256, txs []*types.Transaction, ts uint32) (*types.Block, error) {
	next, err := types.AddressFromBookkeepers(c.BKs)
	if err != nil {
		return nil, err
	}
	var hs []common.Uint256
	for _, t := range txs {
		hs = append(hs, t.Hash())
	}
	txRoot := common.ComputeMerkleRoot(hs)
	blockRoot := c.LS.GetBlockRootWithNewTxRoots(height, []common.Uint256{txRoot})
	h := &types.Header{Version: 0, PrevBlockHash: prev, TransactionsRoot: txRoot, BlockRoot: blockRoot, Timestamp: ts,
		Height: height, ConsensusData: uint64(height), NextBookkeeper: next}
	b := &types.Block{Header: h, Transactions: txs}
	if err := c.SignBlock(b); err != nil {
		return nil, err
	}
	return b, nil
}

// SignBlock (re)signs the block with the solo bookkeeper; the cached hash is recomputed by
// building a fresh header copy.
func (c *Chain) SignBlock(b *types.Block) error {
	hdr := *b.Header
	hdr.Bookkeepers, hdr.SigData = nil, nil
	nh := RehashHeader(&hdr)
	hash := nh.Hash()
	sig, err := signature.Sign(c.Signers[0], hash[:])
	if err != nil {
		return err
	}
	nh.Bookkeepers = []keypair.PublicKey{c.Signers[0].PublicKey}
	nh.SigData = [][]byte{sig}
	b.Header = nh
	return nil
}

// RehashHeader returns a copy of the header whose cached hash is cleared.
func RehashHeader(h *types.Header) *types.Header {
	return &types.Header{Version: h.Version, PrevBlockHash: h.PrevBlockHash, TransactionsRoot: h.TransactionsRoot,
		BlockRoot: h.BlockRoot, Timestamp: h.Timestamp, Height: h.Height, ConsensusData: h.ConsensusData,
		ConsensusPayload: h.ConsensusPayload, NextBookkeeper: h.NextBookkeeper, Bookkeepers: h.Bookkeepers, SigData: h.SigData}
}

// Apply executes and commits a block the way a consensus member does.
func (c *Chain) Apply(b *types.Block) (store.ExecuteResult, error) {
	res, err := c.LS.ExecuteBlock(b)
	if err != nil {
		return res, err
	}
	return res, c.LS.SubmitBlock(b, nil, res)
}

// AddTxs builds, executes and commits a block with the given txs.
func (c *Chain) AddTxs(txs []*types.Transaction) (*types.Block, store.ExecuteResult, error) {
	b, err := c.MakeBlock(txs, 0)
	if err != nil {
		return nil, store.ExecuteResult{}, err
	}
	res, err := c.Apply(b)
	return b, res, err
}

// ---------------------------------------------------------------------------------------------
// transactions

// NativeInvoke builds an unsigned native-contract invocation.
func (c *Chain) NativeInvoke(addr common.Address, method string, params []interface{}, gasPrice, gasLimit uint64) (*types.MutableTransaction, error) {
	code, err := cutils.BuildNativeInvokeCode(addr, 0, method, params)
	if err != nil {
		return nil, err
	}
	c.NonceCt++
	return &types.MutableTransaction{GasPrice: gasPrice, GasLimit: gasLimit, TxType: types.InvokeNeo, Nonce: c.NonceCt,
		Payload: &payload.InvokeCode{Code: code}}, nil
}

// RawInvoke builds an unsigned NeoVM invocation from raw code.
func (c *Chain) RawInvoke(code []byte, gasPrice, gasLimit uint64) *types.MutableTransaction {
	c.NonceCt++
	return &types.MutableTransaction{GasPrice: gasPrice, GasLimit: gasLimit, TxType: types.InvokeNeo, Nonce: c.NonceCt,
		Payload: &payload.InvokeCode{Code: code}}
}

// Sign sets the payer (first signer unless already set) and attaches one single-key Sig per signer.
func Sign(mtx *types.MutableTransaction, signers ...*ZooKey) (*types.Transaction, error) {
	if mtx.Payer == common.ADDRESS_EMPTY && len(signers) > 0 {
		mtx.Payer = signers[0].Address
	}
	h := mtx.Hash()
	mtx.Sigs = nil
	for _, s := range signers {
		sig, err := signature.Sign(s, h[:])
		if err != nil {
			return nil, err
		}
		mtx.Sigs = append(mtx.Sigs, types.Sig{PubKeys: []keypair.PublicKey{s.PublicKey}, M: 1, SigData: [][]byte{sig}})
	}
	return mtx.IntoImmutable()
}

// MultiSign attaches an m-of-n Sig signed by the given subset.
func MultiSign(mtx *types.MutableTransaction, keys []*ZooKey, m int, signWith []*ZooKey) error {
	h := mtx.Hash()
	var pks []keypair.PublicKey
	for _, k := range keys {
		pks = append(pks, k.PublicKey)
	}
	var sigs [][]byte
	for _, s := range signWith {
		sig, err := signature.Sign(s, h[:])
		if err != nil {
			return err
		}
		sigs = append(sigs, sig)
	}
	mtx.Sigs = append(mtx.Sigs, types.Sig{PubKeys: pks, M: uint16(m), SigData: sigs})
	return nil
}

// Transfer builds a signed ONT or ONG transfer (amount in the token's integer unit used by "transfer").
func (c *Chain) Transfer(token common.Address, from *ZooKey, to common.Address, amount uint64, gasPrice, gasLimit uint64) (*types.Transaction, error) {
	st := &ont.TransferState{From: from.Address, To: to, Value: amount}
	mtx, err := c.NativeInvoke(token, "transfer", []interface{}{[]*ont.TransferState{st}}, gasPrice, gasLimit)
	if err != nil {
		return nil, err
	}
	return Sign(mtx, from)
}

// ---------------------------------------------------------------------------------------------
// native sandbox

// Native is the native-contract sandbox: one call = one simulated transaction.
type Native struct {
	LS     *ledgerstore.LedgerStoreImp
	Cache  *storage.CacheDB
	Height uint32
	Time   uint32
}

func (c *Chain) NewNative() *Native {
	return &Native{LS: c.LS, Cache: c.LS.GetCacheDB(), Height: 100, Time: constants.GENESIS_BLOCK_TIMESTAMP + 100}
}

// Call invokes a native method with the given witnesses; commits the tx cache on success and
// resets it on error, exactly as HandleInvokeTransaction treats a transaction.
func (n *Native) Call(contract common.Address, method string, args []byte, signers []common.Address) (res []byte, err error) {
	return n.CallFrom(nil, contract, method, args, signers)
}

// CallFrom is Call with an optional calling-contract context (for methods that inspect the caller).
func (n *Native) CallFrom(caller *common.Address, contract common.Address, method string, args []byte, signers []common.Address) (res []byte, err error) {
	defer func() {
		if r := recover(); r != nil {
			n.Cache.Reset()
			err = fmt.Errorf("PANIC: %v", r)
		}
	}()
	tx := &types.Transaction{SignedAddr: append([]common.Address{}, signers...)}
	sc := smartcontract.SmartContract{Config: &smartcontract.Config{Time: n.Time, Height: n.Height, Tx: tx},
		CacheDB: n.Cache, Store: n.LS, Gas: math.MaxUint64 / 2}
	if caller != nil {
		sc.PushContext(&sctx.Context{ContractAddress: *caller})
	}
	svc, e := sc.NewNativeService()
	if e != nil {
		return nil, e
	}
	r, e := svc.NativeCall(contract, method, args)
	if e != nil {
		n.Cache.Reset()
		return nil, e
	}
	n.Cache.Commit()
	return r, nil
}

// IsPanic reports whether an error returned by Call was a recovered panic.
func IsPanic(err error) bool {
	return err != nil && len(err.Error()) >= 6 && err.Error()[:6] == "PANIC:"
}

// RawBalance reads the raw storage item stored under token||addr (nil when absent).
func (n *Native) RawBalance(token, addr common.Address) ([]byte, error) {
	return n.Cache.Get(append(append([]byte{}, token[:]...), addr[:]...))
}

func TempDir(prefix string) string {
	d, err := os.MkdirTemp("", prefix)
	if err != nil {
		panic(err)
	}
	return filepath.Join(d, "ledger")
}
