package pure

// C03, several overlays alive at once. "The per-block state-change hash and write set depend only on the final value
// of each touched key": they are a function of the content of THIS overlay now. A node has several overlays alive at
// the same time (the block being executed, its per-transaction caches, pre-execution overlays of RPC calls, the
// overlay of the previous block until it is committed), overlays are Reset() and reused, and the hash of one overlay
// is asked for more than once (execute, then submit). So
//   - the hash, the write-set listing and the per-key content of one overlay must not change because OTHER overlays
//     are created, written, hashed, reset or abandoned afterwards;
//   - asked again later, an untouched overlay gives the same hash and listing (no matter what was hashed in between),
//     and a touched overlay gives the hash of its content NOW — also when the edit left the number of entries and the
//     number of live bytes unchanged (same-length overwrite), the case a result remembered under too small a key gets
//     wrong;
//   - Put/Delete copy their arguments: overwriting the caller's key and value buffers after the call changes nothing
//     (established on the unchanged tree: MemDB.Put appends key and value to its own buffer, CacheDB.put copies the
//     key into its scratch key first).
// Zero-copy views: ForEach hands out views into the overlay's buffer and OverlayDB.Get returns such a view (not
// documented, but that is what the unchanged tree does). They are held, too, and compared with copies — but only as
// long as their OWN overlay is untouched; what an overlay's own later writes or Reset() do to views handed out
// earlier is not asserted.
// The earlier C03 tests build one or two overlays per case, hash each once at the end (checkpoints aside) and drop it.

import (
	"bytes"
	"fmt"
	"sort"
	"strings"
	"testing"

	"github.com/ontio/ontology/common"
	"github.com/ontio/ontology/core/store/overlaydb"
	"github.com/ontio/ontology/smartcontract/storage"
	"pgregory.net/rapid"

	"verifharness/internal/harn"
)

func c03Uniform(t *rapid.T, n int, label string) int {
	if n <= 1 {
		return 0
	}
	return int(rapid.Uint64().Draw(t, label) % uint64(n))
}

type c03Live struct {
	name  string
	db    *overlaydb.OverlayDB
	cache *storage.CacheDB // non-nil: written through a transaction cache, one commit per chunk
	model map[string][]byte
	plan  []c03Op
	done  int
	epoch int     // number of chunks / edits / resets applied so far
	log   []c03Op // applied operations with the overlay's keys (for messages)
}

func c03Scribble(b []byte) {
	for i := range b {
		b[i] = ^b[i] + 0x5b
	}
}

// apply writes ops to the overlay, handing in private buffers that are overwritten right after each call.
func (o *c03Live) apply(ops []c03Op, probe c03Probe) {
	if o.cache != nil {
		o.cache.Reset()
	}
	for _, op := range ops {
		k := append([]byte{}, op.key...)
		v := append([]byte{}, op.val...)
		ok := op.key
		switch {
		case o.cache != nil && op.del:
			o.cache.Delete(k)
		case o.cache != nil:
			o.cache.Put(k, v)
		case op.del:
			o.db.Delete(k)
		default:
			probe.before(o.db.GetWriteSet(), k, v)
			o.db.Put(k, v)
		}
		c03Scribble(k)
		c03Scribble(v)
		if o.cache != nil {
			ok = c03TxKey(op.key)
		}
		o.model[string(ok)] = append([]byte{}, op.val...)
		o.log = append(o.log, c03Op{key: ok, val: op.val, del: op.del})
	}
	if o.cache != nil {
		o.cache.Commit()
	}
	o.epoch++
}

type c03Obs struct {
	o      *c03Live
	epoch  int
	hash   common.Uint256
	list   []c03KV // private copy of the listing
	views  []c03KV // the slices ForEach handed out (views into the overlay's buffer), kept untouched
	gets   []c03KV // k = key asked for, v = what OverlayDB.Get returned, kept untouched
	getCpy [][]byte
}

// observe takes hash, listing and some per-key reads of an overlay, judges them against the model of the overlay
// now and returns them for keeping.
func c03Observe(t *rapid.T, o *c03Live) *c03Obs {
	ob := &c03Obs{o: o, epoch: o.epoch}
	ob.hash = o.db.ChangeHash()
	want := c03ModelList(o.model)
	if ref := c03RefHash(want); !bytes.Equal(ob.hash[:], ref[:]) {
		t.Fatalf("%s: ChangeHash %x differs from sha256 over the sorted content now %x; content {%s}; ops=%v", o.name, ob.hash[:], ref[:], c03FmtList(want), o.log)
	}
	o.db.GetWriteSet().ForEach(func(k, v []byte) {
		ob.views = append(ob.views, c03KV{k, v})
		ob.list = append(ob.list, c03KV{append([]byte{}, k...), append([]byte{}, v...)})
	})
	if len(ob.list) != len(want) {
		t.Fatalf("%s: write set lists %d keys, model has %d; got {%s} want {%s}; ops=%v", o.name, len(ob.list), len(want), c03FmtList(ob.list), c03FmtList(want), o.log)
	}
	for i := range want {
		if !bytes.Equal(ob.list[i].k, want[i].k) || !bytes.Equal(ob.list[i].v, want[i].v) {
			t.Fatalf("%s: write set entry %d is %x=%s, model says %x=%s%s; ops=%v", o.name, i, ob.list[i].k, harn.Hex(ob.list[i].v), want[i].k, harn.Hex(want[i].v), c03FirstDiff(ob.list[i].v, want[i].v), o.log)
		}
	}
	for i := 0; i < len(want) && i < 3; i++ {
		kv := want[c03Uniform(t, len(want), "getkey")]
		v, err := o.db.Get(kv.k)
		if err != nil || !bytes.Equal(v, kv.v) {
			t.Fatalf("%s: Get(%x) = %s, %v; model says %s; ops=%v", o.name, kv.k, harn.Hex(v), err, harn.Hex(kv.v), o.log)
		}
		ob.gets = append(ob.gets, c03KV{kv.k, v})
		ob.getCpy = append(ob.getCpy, append([]byte{}, v...))
	}
	return ob
}

// recheck compares a kept observation of an overlay that has not been touched since with the overlay now.
func (ob *c03Obs) recheck(t *rapid.T, when string, all string) {
	o := ob.o
	for i, kv := range ob.views {
		if !bytes.Equal(kv.k, ob.list[i].k) || !bytes.Equal(kv.v, ob.list[i].v) {
			t.Fatalf("%s was not touched, but entry %d of its write set, as handed out by ForEach earlier, changed %s: is %x=%s, was %x=%s%s; %s",
				o.name, i, when, kv.k, harn.Hex(kv.v), ob.list[i].k, harn.Hex(ob.list[i].v), c03FirstDiff(kv.v, ob.list[i].v), all)
		}
	}
	for i, kv := range ob.gets {
		if !bytes.Equal(kv.v, ob.getCpy[i]) {
			t.Fatalf("%s was not touched, but the value Get(%x) returned earlier changed %s: is %s, was %s%s; %s", o.name, kv.k, when, harn.Hex(kv.v), harn.Hex(ob.getCpy[i]), c03FirstDiff(kv.v, ob.getCpy[i]), all)
		}
	}
	n, bad := 0, -1
	o.db.GetWriteSet().ForEach(func(k, v []byte) {
		if bad < 0 && (n >= len(ob.list) || !bytes.Equal(k, ob.list[n].k) || !bytes.Equal(v, ob.list[n].v)) {
			bad = n
		}
		n++
	})
	if bad >= 0 || n != len(ob.list) {
		t.Fatalf("%s was not touched, but its write set changed %s: lists %d entries (first difference at entry %d), listed %d: is {%s}, was {%s}; %s", o.name, when, n, bad, len(ob.list), c03FmtList(c03List(o.db)), c03FmtList(ob.list), all)
	}
	if h := o.db.ChangeHash(); h != ob.hash {
		t.Fatalf("%s was not touched, but its ChangeHash changed %s: is %x, was %x; %s", o.name, when, h[:], ob.hash[:], all)
	}
}

func TestC03_OverlaysAliveTogether(t *testing.T) {
	ev := harn.For("C03").Rule(c03Rule + " || alive: 2..5 overlays alive at once (fresh; reused after Reset() with stale content; written through a transaction CacheDB with one commit per chunk; 'siblings' that replay another overlay's history with every value byte-flipped: same keys, same lengths, other content), " +
		"their histories applied in generated interleaved chunks of 1..12 ops plus same-length single-byte edits of a live value, every Put/Delete with private key/value buffers that are overwritten right after the call; " +
		"at generated points an overlay is observed (ChangeHash, ForEach listing kept as views and as a copy, Get of up to 3 keys kept as returned and as a copy) and judged against its model of that moment; " +
		"kept observations of overlays not touched since must be reproduced (hash, listing) and their views must equal the copies after the other overlays were written / hashed / reset; in the end every overlay equals its own model; " +
		"non-trivial = at least two overlays with different content and an observation re-checked after another overlay was written; distinct = different plans")
	ev.Floor("alive:recheck-after-others-written", "alive:cases", 0.8)
	ev.Floor("alive:reobserved-after-same-shape-edit", "alive:cases", 0.3)
	ev.Floor("alive:sibling", "alive:overlays", 0.1)
	ev.Floor("alive:route=txcache", "alive:overlays", 0.1)
	ev.Floor("alive:reused-after-reset", "alive:overlays", 0.1)
	ev.Floor("alive:buffer-grew", "alive:cases", 0.3)
	harn.Check(t, 1000, 60000, func(t *rapid.T) {
		keys := c03Keys(t, 16)
		m := 2 + c03Uniform(t, 4, "overlays")
		var live []*c03Live
		probe := c03Probe{}
		for i := 0; i < m; i++ {
			o := &c03Live{name: fmt.Sprintf("overlay %d", i), db: overlaydb.NewOverlayDB(nil), model: map[string][]byte{}}
			kind := c03Uniform(t, 6, "okind")
			switch {
			case i > 0 && kind <= 1: // sibling of an earlier overlay: same keys and lengths, other bytes
				src := live[c03Uniform(t, i, "siblingOf")]
				mask := byte(1 + c03Uniform(t, 255, "mask"))
				for _, op := range src.plan {
					v := append([]byte{}, op.val...)
					for j := range v {
						v[j] ^= mask
					}
					o.plan = append(o.plan, c03Op{key: op.key, val: v, del: op.del})
				}
				if src.cache != nil {
					o.cache = storage.NewCacheDB(o.db)
				}
				o.name += fmt.Sprintf(" (sibling of %d, values^%02x)", indexOfLive(live, src), mask)
				ev.Class("alive:sibling")
			default:
				nops := 1 + c03Uniform(t, 40, "nops")
				o.plan, _, _, _ = c03History(t, keys, nops, 6)
				if kind == 2 {
					o.cache = storage.NewCacheDB(o.db)
				}
				if kind == 3 { // stale content, Reset(), reuse
					garbage, _, _, _ := c03History(t, keys, 1+c03Uniform(t, 20, "ngarbage"), 10)
					c03Apply(o.db, garbage, nil)
					o.db.Reset()
					o.name += " (reused after Reset)"
					ev.Class("alive:reused-after-reset")
				}
			}
			if o.cache != nil {
				o.name += " (behind a transaction cache)"
				ev.Class("alive:route=txcache")
			}
			live = append(live, o)
			ev.Class("alive:overlays")
		}
		all := func() string {
			var sb strings.Builder
			for _, o := range live {
				fmt.Fprintf(&sb, "%s: %s| ", o.name, c03Desc(o.log))
			}
			return sb.String()
		}
		var held []*c03Obs
		rechecked, afterEdit := false, false
		lastEdit := map[*c03Live]int{} // epoch right after the last same-shape edit that followed an observation directly
		lastObs := map[*c03Live]int{}  // epoch at the last observation (+1, 0 = never observed)
		written := 0                   // chunks and edits written to any overlay so far
		obsAt := map[*c03Obs]int{}
		recheck := func(when string) {
			for _, ob := range held {
				if ob.epoch != ob.o.epoch {
					ev.Class("alive:obs-overlay-touched-since")
					continue
				}
				ob.recheck(t, when, all())
				ev.Class("alive:obs-rechecked")
				if written > obsAt[ob] { // its own overlay is untouched, so another one was written in between
					rechecked = true
					ev.Class("alive:obs-rechecked-after-others-written")
				}
			}
		}
		for step := 0; step < 200; step++ {
			var pending []*c03Live
			for _, o := range live {
				if o.done < len(o.plan) {
					pending = append(pending, o)
				}
			}
			if len(pending) == 0 {
				break
			}
			switch c03Uniform(t, 10, "step") {
			case 0, 1, 2: // observe an overlay
				o := live[c03Uniform(t, m, "observe")]
				ob := c03Observe(t, o)
				if lastEdit[o] == o.epoch && o.epoch > 0 {
					afterEdit = true
				}
				lastObs[o] = o.epoch + 1
				held = append(held, ob)
				obsAt[ob] = written
				ev.Class("alive:obs")
			case 3: // same-length edit of a live value of an overlay that has been observed before
				o := live[c03Uniform(t, m, "edit")]
				if c03Uniform(t, 4, "editObserved") != 0 { // prefer an overlay whose hash was taken and that is unchanged since
					var fresh []*c03Live
					for _, x := range live {
						if lastObs[x] == x.epoch+1 {
							fresh = append(fresh, x)
						}
					}
					if len(fresh) > 0 {
						o = fresh[c03Uniform(t, len(fresh), "editFresh")]
					}
				}
				var cands []string
				for k, v := range o.model {
					if len(v) > 0 {
						cands = append(cands, k)
					}
				}
				if len(cands) == 0 {
					continue
				}
				sort.Strings(cands)
				k := cands[c03Uniform(t, len(cands), "editKey")]
				v := append([]byte{}, o.model[k]...)
				v[c03Uniform(t, len(v), "editPos")] ^= byte(1 + c03Uniform(t, 255, "editXor"))
				kk := append([]byte{}, k...)
				o.db.Put(kk, v) // the overlay's own key (already prefixed behind a cache)
				o.model[k] = append([]byte{}, v...)
				o.log = append(o.log, c03Op{key: []byte(k), val: append([]byte{}, v...)})
				c03Scribble(kk)
				c03Scribble(v)
				wasObserved := lastObs[o] == o.epoch+1
				o.epoch++
				if wasObserved {
					lastEdit[o] = o.epoch
				}
				written++
				ev.Class("alive:same-shape-edit")
			case 4, 5: // recheck everything kept so far
				recheck("while other overlays were written")
			default: // next chunk of a pending overlay
				o := pending[c03Uniform(t, len(pending), "chunkOf")]
				n := 1 + c03Uniform(t, 12, "chunk")
				if o.done+n > len(o.plan) {
					n = len(o.plan) - o.done
				}
				o.apply(o.plan[o.done:o.done+n], probe)
				o.done += n
				written++
			}
		}
		for _, o := range live { // whatever is left of the plans
			if o.done < len(o.plan) {
				o.apply(o.plan[o.done:], probe)
				o.done = len(o.plan)
				written++
			}
		}
		recheck("by the time all overlays were complete")
		// every overlay against its own model, in a generated order, all others alive
		idx := make([]int, m)
		for i := range idx {
			idx[i] = i
		}
		var finals []*c03Obs
		for _, i := range rapid.Permutation(idx).Draw(t, "finalOrder") {
			o := live[i]
			c03CheckAgainstModel(t, o.name, o.db, o.model, o.log)
			if lastEdit[o] == o.epoch && o.epoch > 0 {
				afterEdit = true
			}
			finals = append(finals, c03Observe(t, o))
		}
		// one overlay is abandoned and reused for something else; the others keep their content
		victim := live[c03Uniform(t, m, "abandon")]
		victim.db.Reset()
		junk, _, _, _ := c03History(t, keys, 1+c03Uniform(t, 20, "njunk"), 10)
		c03Apply(victim.db, junk, nil)
		_ = victim.db.ChangeHash()
		for _, ob := range finals {
			if ob.o != victim {
				ob.recheck(t, fmt.Sprintf("when %s was Reset() and reused", victim.name), all())
			}
		}
		probe.flush(ev)
		grew := 0
		for _, n := range probe {
			grew += n
		}
		if grew > 0 {
			ev.Class("alive:buffer-grew")
		}
		contents := map[string]bool{}
		for _, o := range live {
			h := c03RefHash(c03ModelList(o.model))
			contents[string(h[:])] = true
		}
		if rechecked {
			ev.Class("alive:recheck-after-others-written")
		}
		if afterEdit {
			ev.Class("alive:reobserved-after-same-shape-edit")
		}
		ev.Class("alive:cases")
		var sb strings.Builder
		for _, o := range live {
			fmt.Fprintf(&sb, "%s: %s| ", o.name, c03Desc(o.plan))
		}
		ev.Case(len(contents) >= 2 && rechecked, "alive: "+sb.String())
	})
}

func indexOfLive(live []*c03Live, o *c03Live) int {
	for i, x := range live {
		if x == o {
			return i
		}
	}
	return -1
}
