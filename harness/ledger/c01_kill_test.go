package ledger

// C01, thorough tier only: kill-9 campaign that needs no hook. A child process (the test binary
// re-executed through internal/iso) commits a generated chain with AddBlock and is SIGKILLed after
// a generated fraction of the time the full run takes, so the kill lands anywhere — including inside
// a LevelDB journal write or between the merkle-file append and the commits. The parent reopens the
// surviving directory and applies the same oracle as the crash-point test: recovered height h in
// [0..n], all observables at h equal to the uncrashed reference, remaining blocks accepted with
// identical roots. The kill instant is not reproducible from the seed; on a violation the surviving
// directory itself is saved next to the replay case file.

import (
	"encoding/hex"
	"encoding/json"
	"fmt"
	"os"
	"os/exec"
	"path/filepath"
	"testing"
	"time"

	"github.com/ontio/ontology/common"
	"github.com/ontio/ontology/core/types"
	nutils "github.com/ontio/ontology/smartcontract/service/native/utils"
	"pgregory.net/rapid"

	"verifharness/internal/fix"
	"verifharness/internal/harn"
	"verifharness/internal/iso"
)

type c01KillReq struct {
	Dir    string
	Blocks []string
}

func init() {
	iso.Register("c01-commit", func(in []byte) []byte {
		if string(in) == "PING" {
			return []byte("PONG")
		}
		var req c01KillReq
		if err := json.Unmarshal(in, &req); err != nil {
			return []byte("ERR " + err.Error())
		}
		ch, err := fix.NewSolo(req.Dir, fix.Key(fix.KP256, 0))
		if err != nil {
			return []byte("ERR open: " + err.Error())
		}
		for i, hx := range req.Blocks {
			raw, _ := hex.DecodeString(hx)
			b, err := types.BlockFromRawBytes(raw)
			if err != nil {
				return []byte(fmt.Sprintf("ERR decode %d: %v", i, err))
			}
			res, err := ch.LS.ExecuteBlock(b)
			if err != nil {
				return []byte(fmt.Sprintf("ERR exec %d: %v", i, err))
			}
			if err := ch.LS.AddBlock(b, nil, res.MerkleRoot); err != nil {
				return []byte(fmt.Sprintf("ERR add %d: %v", i, err))
			}
		}
		ch.Close()
		return []byte("OK")
	})
}

func TestC01_KillNine(t *testing.T) {
	if !harn.Thorough() && !harn.Replaying() {
		t.Skip("kill-9 campaign runs in the thorough tier only")
	}
	ev := harn.For("C01").SetLevel("fault_enumeration").
		Rule("thorough only: chains of 12-30 blocks committed by a child process that is SIGKILLed after a generated fraction of the full run time; the surviving directory is reopened and judged like a crash-point snapshot. Non-trivial (kill campaign) = the kill landed after at least one and before the last block; distinct by (chain plan, recovered height)")
	bk := fix.Key(fix.KP256, 0)
	users := []*fix.ZooKey{bk, fix.Key(fix.KP256, 1), fix.Key(fix.KP256, 2), fix.Key(fix.KP256, 3)}
	var accts []common.Address
	for _, u := range users {
		accts = append(accts, u.Address)
	}
	cal := iso.New("c01-commit")
	defer cal.Close()
	harn.Check(t, 1, 96, func(t *rapid.T) {
		nBlocks := rapid.IntRange(12, 30).Draw(t, "blocks")
		frac := rapid.IntRange(25, 98).Draw(t, "killfrac")
		base, err := os.MkdirTemp("", "c01k-")
		if err != nil {
			t.Fatal(err)
		}
		defer os.RemoveAll(base)
		ref, err := fix.NewSolo(filepath.Join(base, "ref"), bk)
		if err != nil {
			t.Fatal(err)
		}
		defer ref.Close()
		obs := map[uint32]c01Obs{}
		txsAt := map[uint32][]*types.Transaction{}
		var blocks []*types.Block
		var raws []string
		var all []*types.Transaction
		var plan []int
		for i := 0; i < nBlocks; i++ {
			n := rapid.IntRange(0, 3).Draw(t, "ntx")
			if i == 0 {
				n = 2
			}
			plan = append(plan, n)
			var txs []*types.Transaction
			for j := 0; j < n; j++ {
				from := 0
				if i > 0 {
					from = rapid.IntRange(0, 3).Draw(t, "from")
				}
				tok := nutils.OntContractAddress
				if rapid.Bool().Draw(t, "ong") {
					tok = nutils.OngContractAddress
				}
				tx, err := ref.Transfer(tok, users[from], users[rapid.IntRange(0, 3).Draw(t, "to")].Address, rapid.Uint64Range(0, 1000).Draw(t, "amt"), 0, 20000)
				if err != nil {
					t.Fatal(err)
				}
				txs = append(txs, tx)
			}
			b, _, err := ref.AddTxs(txs)
			if err != nil {
				t.Fatal(err)
			}
			blocks = append(blocks, b)
			raws = append(raws, hex.EncodeToString(b.ToArray()))
			txsAt[b.Header.Height] = txs
			all = append(all, txs...)
			o, err := c01Observe(ref.LS, b.Header.Height, accts, all)
			if err != nil {
				t.Fatal(err)
			}
			obs[b.Header.Height] = o
		}
		req, _ := json.Marshal(c01KillReq{Dir: filepath.Join(base, "victim"), Blocks: raws})

		// calibration: how long does an unkilled run take (own directory; the calibration worker is
		// reused across cases, the victim worker is started and pinged first so that the kill lands in
		// the commit phase and not in process start-up)
		calReq, _ := json.Marshal(c01KillReq{Dir: filepath.Join(base, "cal"), Blocks: raws})
		if cal.Do([]byte("PING"), 180*time.Second).TimedOut {
			ev.Class("kill:infrastructure-timeout")
			return
		}
		t0 := time.Now()
		r := cal.Do(calReq, 180*time.Second)
		full := time.Since(t0)
		if r.TimedOut {
			ev.Class("kill:infrastructure-timeout")
			return
		}
		if r.Died || string(r.Out) != "OK" {
			t.Fatalf("uncrashed run of the child failed on blocks the reference accepted: died=%v out=%q diag=%s", r.Died, r.Out, r.Diag)
		}

		w := iso.New("c01-commit")
		defer w.Close()
		if p := w.Do([]byte("PING"), 180*time.Second); p.TimedOut || p.Died {
			ev.Class("kill:infrastructure-timeout")
			return
		}
		delay := full * time.Duration(frac) / 100
		timer := time.AfterFunc(delay, w.KillProcess)
		r = w.Do(req, 180*time.Second)
		timer.Stop()
		if r.TimedOut {
			ev.Class("kill:infrastructure-timeout")
			return
		}
		if !r.Died {
			ev.Class("kill:too-late")
		}
		victim := &fix.Chain{Dir: filepath.Join(base, "victim"), Genesis: ref.Genesis, BKs: ref.BKs, Signers: ref.Signers}
		if _, err := os.Stat(victim.Dir); err != nil {
			ev.Class("kill:before-create")
			ev.Case(false, "killed before the directory existed")
			return
		}
		fail := func(format string, args ...interface{}) {
			keep := filepath.Join(os.Getenv("VERIF_REPLAY_OUT"), fmt.Sprintf("c01-killdir-%d", time.Now().UnixNano()))
			_ = exec.Command("cp", "-r", victim.Dir, keep).Run()
			t.Fatalf("kill -9 after %v of %v (plan %v), surviving dir saved at %s: %s", delay, full, plan, keep, fmt.Sprintf(format, args...))
		}
		if err := victim.Open(); err != nil {
			// a kill during genesis initialisation leaves a directory that was never a ledger: the node
			// re-initialises it on the next start or reports it; the property speaks about block commits
			if victim.LS == nil {
				ev.Class("kill:during-genesis-init")
				ev.Case(false, "killed during genesis init: "+err.Error())
				return
			}
		}
		defer victim.Close()
		h := victim.LS.GetCurrentBlockHeight()
		if h > uint32(nBlocks) {
			fail("recovered height %d beyond the chain", h)
		}
		cmp := func(h uint32, stage string) {
			var upTo []*types.Transaction
			for k := uint32(1); k <= h; k++ {
				upTo = append(upTo, txsAt[k]...)
			}
			got, err := c01Observe(victim.LS, h, accts, upTo)
			if err != nil {
				fail("%s at height %d: %v", stage, h, err)
			}
			want := obs[h]
			if h == 0 {
				return
			}
			want.Events = want.Events[:len(upTo)]
			if fmt.Sprint(got) != fmt.Sprint(want) {
				fail("%s at height %d:\n got %+v\nwant %+v", stage, h, got, want)
			}
		}
		cmp(h, "state after recovery")
		for k := h + 1; k <= uint32(nBlocks); k++ {
			b2, err := types.BlockFromRawBytes(blocks[k-1].ToArray())
			if err != nil {
				t.Fatal(err)
			}
			sr, _ := common.Uint256FromHexString(obs[k].StateRoot)
			if err := victim.LS.AddBlock(b2, nil, sr); err != nil {
				fail("recovered ledger (height %d) rejects block %d that the uncrashed node accepted: %v", h, k, err)
			}
			cmp(k, "continuation")
		}
		ev.Class("kill:recovered")
		ev.Case(h >= 1 && h < uint32(nBlocks), fmt.Sprintf("kill plan=%v recovered=%d", plan, h))
	})
}
