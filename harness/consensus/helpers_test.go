package consensus

// Shared helpers of the consensus checks (C28, C29, C31, C32, C33): cached genuine signatures of
// zoo keys, an independent signature check, VBFT chain-config / header builders.

import (
	"encoding/hex"
	"encoding/json"
	"fmt"
	"hash/fnv"
	"os"
	"path/filepath"
	"sort"
	"strings"
	"sync"

	"github.com/ontio/ontology-crypto/keypair"
	"github.com/ontio/ontology/common"
	vconfig "github.com/ontio/ontology/consensus/vbft/config"
	"github.com/ontio/ontology/core/signature"
	"github.com/ontio/ontology/core/types"

	"verifharness/internal/fix"
)

// ---------------------------------------------------------------------------------------------
// signatures

type sigKey struct {
	kind, idx int
	h         common.Uint256
}

var (
	sigMu    sync.Mutex
	sigCache = map[sigKey][]byte{}
	verCache = map[string]bool{}
)

// signHash returns a genuine signature of the zoo key over the 32-byte hash (cached: the
// signature bytes differ between processes, their validity does not).
func signHash(k *fix.ZooKey, h common.Uint256) []byte {
	sigMu.Lock()
	defer sigMu.Unlock()
	key := sigKey{int(k.Kind), k.Idx, h}
	if s, ok := sigCache[key]; ok {
		return s
	}
	s, err := signature.Sign(k, h[:])
	if err != nil {
		panic(err)
	}
	sigCache[key] = s
	return s
}

// signFresh signs without caching (for headers that are used once).
func signFresh(k *fix.ZooKey, h common.Uint256) []byte {
	s, err := signature.Sign(k, h[:])
	if err != nil {
		panic(err)
	}
	return s
}

// sigOK is the harness's own verdict on one signature: deserialise + verify with exactly that key.
func sigOK(pk keypair.PublicKey, h common.Uint256, sig []byte) bool {
	if len(sig) == 0 {
		return false
	}
	k := string(keypair.SerializePublicKey(pk)) + string(h[:]) + string(sig)
	sigMu.Lock()
	v, ok := verCache[k]
	sigMu.Unlock()
	if ok {
		return v
	}
	v = signature.Verify(pk, h[:], sig) == nil
	sigMu.Lock()
	if len(verCache) > 200000 {
		verCache = map[string]bool{}
	}
	verCache[k] = v
	sigMu.Unlock()
	return v
}

func pubHex(pk keypair.PublicKey) string { return hex.EncodeToString(keypair.SerializePublicKey(pk)) }

// distinctValidSigners returns the sorted indices (into keys) of the keys for which at least one
// of the signatures verifies over h. Duplicated keys in `keys` must be removed by the caller.
func distinctValidSigners(keys []*fix.ZooKey, h common.Uint256, sigs [][]byte) []int {
	var out []int
	for i, k := range keys {
		for _, s := range sigs {
			if sigOK(k.PublicKey, h, s) {
				out = append(out, i)
				break
			}
		}
	}
	return out
}

// ---------------------------------------------------------------------------------------------
// misc

func tempLedgerDir(prefix string) (dir string, cleanup func()) {
	d, err := os.MkdirTemp("", prefix)
	if err != nil {
		panic(err)
	}
	return filepath.Join(d, "ledger"), func() { os.RemoveAll(d) }
}

// shortDesc keeps a case description below the evidence limit while staying distinct (hash of the full text).
func shortDesc(d string) string {
	if len(d) <= 560 {
		return d
	}
	h := fnv.New64a()
	h.Write([]byte(d))
	return d[:530] + fmt.Sprintf("…#%x", h.Sum64())
}

func u32s(v []uint32) string {
	s := make([]string, len(v))
	for i, x := range v {
		s[i] = fmt.Sprint(x)
	}
	return strings.Join(s, ",")
}

func ints(v []int) string {
	s := make([]string, len(v))
	for i, x := range v {
		s[i] = fmt.Sprint(x)
	}
	return strings.Join(s, ",")
}

func sortedU32(m map[uint32]bool) []uint32 {
	out := make([]uint32, 0, len(m))
	for k := range m {
		out = append(out, k)
	}
	sort.Slice(out, func(i, j int) bool { return out[i] < out[j] })
	return out
}

// ---------------------------------------------------------------------------------------------
// VBFT headers on a fix.NewVbft ledger

type tip struct {
	height uint32
	hash   common.Uint256
	ts     uint32
}

func genesisTip(c *fix.Chain) tip {
	return tip{0, c.Genesis.Hash(), c.Genesis.Header.Timestamp}
}

// vbftHeader builds an unsigned next-height header the way a VBFT node lays it out
// (ConsensusPayload = json(VbftBlockInfo)); salt makes the hash unique.
func vbftHeader(prev common.Uint256, height, ts, lastCfg uint32, salt uint64) *types.Header {
	info := &vconfig.VbftBlockInfo{Proposer: 1, VrfValue: []byte{1, 2, 3}, VrfProof: []byte{4, 5, 6}, LastConfigBlockNum: lastCfg}
	payload, err := json.Marshal(info)
	if err != nil {
		panic(err)
	}
	return &types.Header{Version: 0, PrevBlockHash: prev, Timestamp: ts, Height: height, ConsensusData: salt, ConsensusPayload: payload}
}
