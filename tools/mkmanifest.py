#!/usr/bin/env python3
"""Regenerate MANIFEST.json from checks.json (+ not_applicable.json) and validate it and the evidence files."""
import json, os, sys, glob
ROOT = os.path.dirname(os.path.dirname(os.path.abspath(__file__)))
reg = json.load(open(os.path.join(ROOT, "checks.json")))
for frag in sorted(glob.glob(os.path.join(ROOT, "checks.d", "*.json"))):
    reg.update(json.load(open(frag)))
na = json.load(open(os.path.join(ROOT, "not_applicable.json")))
props = [json.loads(l) for l in open(os.path.join(ROOT, "properties.jsonl"))]
ids = [p["id"] for p in props]
hooks = json.load(open(os.path.join(ROOT, "hooks.json")))
checks = []
for i in ids:
    if i not in reg or not os.path.exists(os.path.join(ROOT, "evidence", i + ".json")) and "--all" not in sys.argv:
        continue
    s = reg[i]
    checks.append({
        "property_id": i,
        "quick_cmd": "./check %s --tier quick" % i,
        "thorough_cmd": "./check %s --tier thorough" % i,
        "evidence_file": "/verif/evidence/%s.json" % i,
        "replay_cmd_template": "./check %s --replay {path}" % i,
        "engine": "rapid-harness",
        "level_claimed": {"category": s.get("level", "exploration"), "text": s["level_text"], "design_ref": "DESIGN.md §3 " + i},
        "level_note": s["level_note"],
        "technique": s["technique"],
    })
claimed = {c["property_id"] for c in checks}
nal = [{"property_id": i, "reason": na.get(i, "check not built yet in this session; see DESIGN.md")} for i in ids if i not in claimed]
m = {
    "version": 1,
    "setup_cmd": "./check --setup",
    "hooks": hooks,
    "engines": [{"name": "rapid-harness", "path": "/verif/harness", "serves_properties": sorted(claimed),
                 "kind_free_text": "Go module of property-based tests (pgregory.net/rapid v1.3.0 generators, stateful t.Repeat histories, shrinking; native go fuzzing in the thorough tier) linked against /repo via a replace directive; driven by /verif/check"}],
    "checks": checks,
    "notes": "Single technique: generated-input search against explicit oracles (reference models, round-trips, differential and metamorphic relations, history invariants). Exit 2 = inconclusive (build failure, timeout, starved generator class), never reported as violation.",
    "not_applicable": nal,
}
json.dump(m, open(os.path.join(ROOT, "MANIFEST.json"), "w"), indent=1)
try:
    import jsonschema
    jsonschema.validate(m, json.load(open("/root/.vp/MANIFEST.schema.json")))
    es = json.load(open("/root/.vp/EVIDENCE.schema.json"))
    bad = 0
    for c in checks:
        f = c["evidence_file"]
        if not os.path.exists(f):
            print("missing evidence", f); bad += 1; continue
        try:
            jsonschema.validate(json.load(open(f)), es)
        except Exception as e:
            print("INVALID", f, str(e)[:300]); bad += 1
    print("manifest ok; %d checks, %d not claimed, %d evidence problems" % (len(checks), len(nal), bad))
except ImportError:
    print("jsonschema not available; wrote manifest without validation")
