package codec

// C19, held results. "A transaction has one encoding and one hash" is a statement about the
// transaction, not about the moment at which it is looked at: what Transaction.ToArray / Raw / Hash /
// SigHashForChain / GetSignatureAddresses / RawSig.GetSig and the decoded fields say about one
// transaction must not change because OTHER transactions are built, decoded or serialized later.
// The oracle keeps every result obtained for transaction i untouched next to a private deep copy
// taken at return time while 1..7 further transactions (related ones: the same unsigned content under
// an edited signature list, i.e. the same hash under different bytes) go through
// MutableTransaction.IntoImmutable, TransactionFromRawBytes, Transaction.Deserialization (embedded in
// a larger source) and TransactionFromEIP155, interleaved with failing calls and optionally followed
// by joined goroutines doing the same; then compares, recomputes (determinism against call history),
// uses the held bytes again (decode) and finally overwrites the caller-owned buffers: a built
// transaction has no reference to the MutableTransaction it came from, and of a decoded transaction
// the results already returned by value or as copies (ToArray output, hashes, signature addresses,
// parsed keys, scalar fields) do not follow the decoder input (Raw, Sigs and payload code are
// documented zero-copy views and are not asserted there).

import (
	"bytes"
	"fmt"
	"strings"
	"sync"
	"testing"

	ethtypes "github.com/ethereum/go-ethereum/core/types"
	ethcrypto "github.com/ethereum/go-ethereum/crypto"
	"github.com/ethereum/go-ethereum/rlp"
	"github.com/ontio/ontology-crypto/keypair"
	"github.com/ontio/ontology/common"
	"github.com/ontio/ontology/core/payload"
	"github.com/ontio/ontology/core/types"
	"pgregory.net/rapid"

	"verifharness/internal/harn"
)

const (
	c19RBuilt    = iota // MutableTransaction.IntoImmutable
	c19RRaw             // TransactionFromRawBytes(private copy of the canonical bytes)
	c19REmbedded        // Transaction.Deserialization inside a larger source
	c19RSigEdit         // same unsigned content as an earlier job, edited signature list, decoded
	c19REip             // TransactionFromEIP155
	c19REipWire         // 00 d3 varbytes(rlp) decoded
)

var c19RouteName = []string{"built", "raw", "embedded", "sigedit", "eip", "eipwire"}

type c19Job struct {
	route    int
	mtx      *types.MutableTransaction
	eth      *ethtypes.Transaction
	wire     []byte         // the one canonical encoding (reference encoder)
	hash     common.Uint256 // reference hash
	pre, suf []byte
	fields   *c19Fields // generated fields (Ontology format)
	desc     string
}

func (j *c19Job) String() string { return c19RouteName[j.route] + "{" + j.desc + "}" }

type c19Snap struct {
	arr, raw, fields []byte
	hash, sh0, shN   common.Uint256
	head             string
	addrs            []common.Address
	sigKeys, sigData []string
}

type c19Held struct {
	job   *c19Job
	in    []byte // decoder input; owned by the transaction after the call
	off   int    // offset of the transaction inside in
	tx    *types.Transaction
	arr   []byte           // as returned by ToArray
	addrs []common.Address // as returned by GetSignatureAddresses
	sigs  []types.Sig      // as returned by RawSig.GetSig
	snap  *c19Snap
}

func c19SigKeys(s types.Sig, err error) string {
	if err != nil {
		return "err"
	}
	var ks []string
	for _, k := range s.PubKeys {
		ks = append(ks, fmt.Sprintf("%x", keypair.SerializePublicKey(k)))
	}
	return fmt.Sprintf("M=%d keys=%s", s.M, strings.Join(ks, ","))
}

func c19SigDataText(s types.Sig, err error) string {
	if err != nil {
		return "err"
	}
	return fmt.Sprintf("%x", s.SigData)
}

// c19TakeSnap reads every observable of tx into private memory.
func c19TakeSnap(tx *types.Transaction) *c19Snap {
	s := &c19Snap{}
	s.arr = append([]byte{}, tx.ToArray()...)
	s.raw = append([]byte{}, tx.Raw...)
	s.hash, s.sh0, s.shN = tx.Hash(), tx.SigHashForChain(0), tx.SigHashForChain(7)
	s.head = fmt.Sprintf("version=%d type=%x nonce=%d gasPrice=%d gasLimit=%d payer=%x", tx.Version, byte(tx.TxType), tx.Nonce, tx.GasPrice, tx.GasLimit, tx.Payer[:])
	s.addrs = append([]common.Address{}, tx.GetSignatureAddresses()...)
	if tx.TxType == types.EIP155 {
		if e, err := tx.GetEIP155Tx(); err == nil {
			s.fields, _ = rlp.EncodeToBytes(e)
		}
	} else if f, err := c19FieldsOf(tx); err == nil {
		s.fields = f.full().b
	} else {
		s.fields = []byte(err.Error())
	}
	for i := range tx.Sigs {
		sig, err := tx.Sigs[i].GetSig()
		s.sigKeys = append(s.sigKeys, c19SigKeys(sig, err))
		s.sigData = append(s.sigData, c19SigDataText(sig, err))
	}
	return s
}

// c19Was renders two byte strings that should be equal: both abbreviated plus the first differing offset.
func c19Was(was, now []byte) string {
	i := 0
	for i < len(was) && i < len(now) && was[i] == now[i] {
		i++
	}
	lo := i - 8
	if lo < 0 {
		lo = 0
	}
	cut := func(b []byte) []byte {
		if hi := i + 24; hi < len(b) {
			return b[lo:hi]
		} else if lo < len(b) {
			return b[lo:]
		}
		return nil
	}
	return fmt.Sprintf("\n was %s\n now %s\n first difference at byte %d: was ..%x.., now ..%x..", c19Short(was), c19Short(now), i, cut(was), cut(now))
}

func c19Short(b []byte) string {
	if len(b) > 96 {
		return fmt.Sprintf("%x..(%d bytes)", b[:96], len(b))
	}
	return fmt.Sprintf("%x", b)
}

// c19SnapDiff names the first observable in which now differs from then ("" if none). With copiesOnly
// only the observables that are values / copies (not views of the decoder input) are compared.
func c19SnapDiff(now, then *c19Snap, copiesOnly bool) string {
	switch {
	case now.hash != then.hash:
		return fmt.Sprintf("Hash() was %x, is %x", then.hash, now.hash)
	case now.sh0 != then.sh0 || now.shN != then.shN:
		return fmt.Sprintf("SigHashForChain was %x/%x, is %x/%x", then.sh0, then.shN, now.sh0, now.shN)
	case now.head != then.head:
		return fmt.Sprintf("header fields were %s, are %s", then.head, now.head)
	case fmt.Sprint(now.addrs) != fmt.Sprint(then.addrs):
		return fmt.Sprintf("GetSignatureAddresses() was %x, is %x", then.addrs, now.addrs)
	}
	if copiesOnly {
		return ""
	}
	switch {
	case !bytes.Equal(now.arr, then.arr):
		return "ToArray() changed:" + c19Was(then.arr, now.arr)
	case !bytes.Equal(now.raw, then.raw):
		return "Raw changed:" + c19Was(then.raw, now.raw)
	case !bytes.Equal(now.fields, then.fields):
		return fmt.Sprintf("the decoded fields (payload, signature scripts) re-encode as %s, before as %s", c19Short(now.fields), c19Short(then.fields))
	case strings.Join(now.sigKeys, ";") != strings.Join(then.sigKeys, ";"):
		return fmt.Sprintf("RawSig.GetSig() keys were %v, are %v", then.sigKeys, now.sigKeys)
	case strings.Join(now.sigData, ";") != strings.Join(then.sigData, ";"):
		return fmt.Sprintf("RawSig.GetSig() signatures were %v, are %v", then.sigData, now.sigData)
	}
	return ""
}

// run executes the job (safe to call from a goroutine: no rapid draws, no t) and snapshots the results.
func (j *c19Job) run() (h *c19Held, msg string) {
	defer func() {
		if r := recover(); r != nil {
			msg = fmt.Sprintf("panic in %s: %v\n%s", j, r, c18Stack())
		}
	}()
	h = &c19Held{job: j}
	var err error
	switch j.route {
	case c19RBuilt:
		h.tx, err = j.mtx.IntoImmutable()
	case c19REip:
		h.tx, err = types.TransactionFromEIP155(j.eth)
	case c19REmbedded:
		h.in = append(append(append([]byte{}, j.pre...), j.wire...), j.suf...)
		h.off = len(j.pre)
		src := common.NewZeroCopySource(h.in)
		src.Skip(uint64(len(j.pre)))
		h.tx = new(types.Transaction)
		err = h.tx.Deserialization(src)
		if err == nil && src.Pos() != uint64(len(j.pre)+len(j.wire)) {
			return h, fmt.Sprintf("%s: embedded decode consumed up to %d, want %d", j, src.Pos(), len(j.pre)+len(j.wire))
		}
	default:
		h.in = append([]byte{}, j.wire...)
		h.tx, err = types.TransactionFromRawBytes(h.in)
	}
	if err != nil {
		return h, fmt.Sprintf("%s rejected: %v", j, err)
	}
	h.arr = h.tx.ToArray()
	h.addrs = h.tx.GetSignatureAddresses()
	for i := range h.tx.Sigs {
		s, err := h.tx.Sigs[i].GetSig()
		if err != nil {
			return h, fmt.Sprintf("%s: signature set %d does not parse: %v", j, i, err)
		}
		h.sigs = append(h.sigs, s)
	}
	h.snap = c19TakeSnap(h.tx)
	// at return time the results are the reference's
	if !bytes.Equal(h.snap.arr, j.wire) || !bytes.Equal(h.snap.raw, j.wire) {
		return h, fmt.Sprintf("%s: ToArray()/Raw differ from the reference encoding:\n ToArray %s\n Raw     %s\n ref     %s", j, c19Short(h.snap.arr), c19Short(h.snap.raw), c19Short(j.wire))
	}
	if h.snap.hash != j.hash {
		return h, fmt.Sprintf("%s: Hash() %x, reference %x", j, h.snap.hash, j.hash)
	}
	return h, ""
}

// check compares the held results and the transaction's present observables with the snapshot.
func (h *c19Held) check(when string, copiesOnly bool) (msg string) {
	defer func() {
		if r := recover(); r != nil {
			msg = fmt.Sprintf("panic while re-reading %s %s: %v\n%s", h.job, when, r, c18Stack())
		}
	}()
	if !bytes.Equal(h.arr, h.snap.arr) {
		return fmt.Sprintf("the bytes returned by ToArray() for %s changed %s:%s", h.job, when, c19Was(h.snap.arr, h.arr))
	}
	if fmt.Sprint(h.addrs) != fmt.Sprint(h.snap.addrs) {
		return fmt.Sprintf("the addresses returned by GetSignatureAddresses() for %s changed %s: was %x, now %x", h.job, when, h.snap.addrs, h.addrs)
	}
	for i, s := range h.sigs {
		if k := c19SigKeys(s, nil); k != h.snap.sigKeys[i] {
			return fmt.Sprintf("the Sig returned by GetSig() for set %d of %s changed %s: was %s, now %s", i, h.job, when, h.snap.sigKeys[i], k)
		}
		if d := c19SigDataText(s, nil); !copiesOnly && d != h.snap.sigData[i] {
			return fmt.Sprintf("the signatures returned by GetSig() for set %d of %s changed %s: was %s, now %s", i, h.job, when, h.snap.sigData[i], d)
		}
	}
	if d := c19SnapDiff(c19TakeSnap(h.tx), h.snap, copiesOnly); d != "" {
		return fmt.Sprintf("transaction %s read again %s: %s", h.job, when, d)
	}
	return ""
}

func c19Flip(b []byte) {
	for i := range b {
		b[i] ^= 0xA5
	}
}

// c19GenHeldJob draws one job; prev are the Ontology-format jobs drawn so far in this case.
func c19GenHeldJob(t *rapid.T, prev []*c19Job) *c19Job {
	r := c25Uniform(t, 8, "route")
	if r == 7 && len(prev) == 0 {
		r = 1
	}
	switch r {
	case 5, 6: // EIP-155
		for {
			g := c19GenEthTx(t)
			if !g.ok {
				continue
			}
			enc, err := rlp.EncodeToBytes(g.tx)
			if err != nil {
				t.Fatalf("harness: rlp: %v", err)
			}
			j := &c19Job{route: c19REip, eth: g.tx, wire: c19WrapEth(enc), desc: g.desc}
			copy(j.hash[:], ethcrypto.Keccak256(enc))
			if r == 6 {
				j.route = c19REipWire
			}
			return j
		}
	case 7: // the unsigned content of an earlier job under an edited signature list
		p := prev[c25Uniform(t, len(prev), "of")]
		sigs := append([][2][]byte{}, p.fields.sigs...)
		op := "none"
		switch k := c25Uniform(t, 4, "sigOp"); {
		case k == 0 && len(sigs) > 0:
			i := c25Uniform(t, len(sigs), "i")
			sigs = append(sigs[:i:i], sigs[i+1:]...)
			op = "drop"
		case k == 1 && len(sigs) > 0:
			sigs = append(sigs, sigs[c25Uniform(t, len(sigs), "i")])
			op = "dup"
		case k == 2 && len(sigs) > 1:
			sigs[0], sigs[len(sigs)-1] = sigs[len(sigs)-1], sigs[0]
			op = "swap"
		default:
			sigs = nil
		}
		f := *p.fields
		f.sigs = sigs
		return &c19Job{route: c19RSigEdit, wire: c19AppendSigs(p.fields.unsigned(), sigs).b, hash: p.hash, fields: &f, desc: op + " of " + p.desc}
	}
	g := c19GenOntTx(t, 2)
	j := &c19Job{route: c19RBuilt, mtx: g.mtx, wire: g.fields.full().b, hash: c19Sha256d(g.fields.unsigned().b), fields: g.fields, desc: g.desc}
	switch {
	case r >= 3 && r < 5:
		j.route = c19RRaw
	case r >= 1 && r < 3:
		j.route = c19REmbedded
		j.pre = rapid.SliceOfN(rapid.Byte(), 0, 6).Draw(t, "pre")
		j.suf = rapid.SliceOfN(rapid.Byte(), 0, 6).Draw(t, "suf")
	}
	return j
}

func TestC19_HeldResults(t *testing.T) {
	ev := harn.For("C19").Rule(c19Rule)
	ev.Floor("held:distinct>=2", "held", 0.80)
	ev.Floor("held:later>=3", "held", 0.30)
	ev.Floor("held:concurrent", "held", 0.15)
	ev.Floor("held:same-hash-other-bytes", "held", 0.10)
	harn.Check(t, 450, 12000, func(t *rapid.T) {
		n := 2 + c25Uniform(t, 7, "further") // the first transaction is held over 1..7 further ones
		var held []*c19Held
		var ont []*c19Job
		var desc []string
		add := func(j *c19Job) {
			if j.fields != nil {
				ont = append(ont, j)
			}
			desc = append(desc, j.String())
			ev.Class("held:route=" + c19RouteName[j.route])
		}
		for i := 0; i < n; i++ {
			j := c19GenHeldJob(t, ont)
			h, msg := j.run()
			if msg != "" {
				t.Fatalf("%s", msg)
			}
			held = append(held, h)
			add(j)
			// noise between two transactions: failing calls, judging an earlier result
			switch c25Uniform(t, 8, "noise") {
			case 0:
				k := held[c25Uniform(t, len(held), "which")]
				cut := k.snap.arr[:len(k.snap.arr)-1-c25Uniform(t, 3, "cut")]
				var err error
				guard(t, "TransactionFromRawBytes", func() { _, err = types.TransactionFromRawBytes(append([]byte{}, cut...)) })
				if err == nil {
					t.Fatalf("truncated transaction accepted: %x", cut)
				}
				ev.Class("held:noise=truncated")
			case 1:
				var err error
				guard(t, "IntoImmutable", func() {
					_, err = (&types.MutableTransaction{TxType: types.InvokeNeo, Nonce: uint32(i)}).IntoImmutable()
				})
				if err == nil {
					t.Fatalf("MutableTransaction without payload accepted")
				}
				ev.Class("held:noise=nil-payload")
			case 2:
				k := held[c25Uniform(t, len(held), "which")]
				if msg, tx, _, _ := c19Judge(k.snap.arr); msg != "" || tx == nil {
					t.Fatalf("judging the encoding of %s: %s (accepted=%v)", k.job, msg, tx != nil)
				}
				ev.Class("held:noise=judge")
			}
		}
		for i, h := range held {
			if msg := h.check(fmt.Sprintf("after %d further transactions were built/decoded on the same goroutine", n-1-i), false); msg != "" {
				t.Fatalf("%s\nsequence: %s", msg, strings.Join(desc, " ; "))
			}
		}

		// optionally: joined goroutines building/decoding further transactions while everything is held
		conc := 0
		if c25Uniform(t, 3, "concurrent") == 0 {
			conc = 2 + c25Uniform(t, 3, "goroutines")
			jobs := make([][]*c19Job, conc)
			for g := range jobs {
				for k, m := 0, 1+c25Uniform(t, 2, "perG"); k < m; k++ {
					jobs[g] = append(jobs[g], c19GenHeldJob(t, ont))
				}
			}
			res := make([][]*c19Held, conc)
			msgs := make([]string, conc)
			var wg sync.WaitGroup
			for g := range jobs {
				wg.Add(1)
				go func(g int) {
					defer wg.Done()
					for _, j := range jobs[g] {
						h, msg := j.run()
						if msg != "" {
							msgs[g] = msg
							return
						}
						res[g] = append(res[g], h)
					}
				}(g)
			}
			wg.Wait()
			for g := range res {
				if msgs[g] != "" {
					t.Fatalf("goroutine %d of %d: %s", g, conc, msgs[g])
				}
				for _, h := range res[g] {
					held = append(held, h)
					add(h.job)
				}
			}
		}

		// every result is still intact and is reproduced by running its job again
		for _, h := range held {
			if msg := h.check("by the end of the case", false); msg != "" {
				t.Fatalf("%s\nsequence: %s", msg, strings.Join(desc, " ; "))
			}
		}
		for _, h := range held {
			again, msg := h.job.run()
			if msg != "" {
				t.Fatalf("second run: %s", msg)
			}
			if d := c19SnapDiff(again.snap, h.snap, false); d != "" {
				t.Fatalf("%s run again after the others gives a different result: %s\nsequence: %s", h.job, d, strings.Join(desc, " ; "))
			}
		}
		// the held bytes are used again: they decode to the same transaction
		for _, h := range held {
			msg, tx, cons, _ := c19Judge(h.arr)
			if msg != "" || tx == nil || len(cons) != len(h.arr) || tx.Hash() != h.snap.hash {
				t.Fatalf("the bytes held for %s no longer decode to it: %s (accepted=%v)\nsequence: %s", h.job, msg, tx != nil, strings.Join(desc, " ; "))
			}
		}

		// caller-owned buffers are overwritten
		for _, h := range held {
			switch {
			case h.job.route == c19RBuilt: // "output has no reference to self"
				switch pl := h.job.mtx.Payload.(type) {
				case *payload.InvokeCode:
					c19Flip(pl.Code)
				case *payload.DeployCode:
					c19Flip(pl.GetRawCode())
				}
				for _, s := range h.job.mtx.Sigs {
					for _, d := range s.SigData {
						c19Flip(d)
					}
				}
				h.job.mtx.Nonce++
				h.job.mtx.Payer[0] ^= 1
				ev.Class("held:overwrite:mutable-tx")
			case h.in != nil:
				c19Flip(h.in)
				ev.Class("held:overwrite:decoder-input")
			}
		}
		for _, h := range held {
			// of a decoded Ontology-format transaction Raw, Sigs and payload code are views of the input;
			// a decoded EIP-155 transaction and a built one own all their memory
			copiesOnly := h.in != nil && h.job.route != c19REipWire
			if msg := h.check("when the caller-owned buffers (decoder input / MutableTransaction) were overwritten", copiesOnly); msg != "" {
				t.Fatalf("%s\nsequence: %s", msg, strings.Join(desc, " ; "))
			}
		}

		distinct := map[string]bool{}
		hashes := map[common.Uint256]bool{}
		for _, h := range held[:n] {
			distinct[string(h.snap.arr)] = true
			hashes[h.snap.hash] = true
		}
		ev.Class("held")
		ev.ClassN("held:transactions", int64(len(held)))
		if len(distinct) >= 2 {
			ev.Class("held:distinct>=2")
		}
		if len(hashes) < len(distinct) {
			ev.Class("held:same-hash-other-bytes")
		}
		if n-1 >= 3 {
			ev.Class("held:later>=3")
		}
		if conc > 0 {
			ev.Class("held:concurrent")
		}
		d := fmt.Sprintf("held n=%d conc=%d %s", n, conc, strings.Join(desc, " ; "))
		if len(d) > 560 {
			d = d[:560] + fmt.Sprintf("..#%x", c19Sha256d([]byte(d)))[:24]
		}
		ev.Case(len(distinct) >= 2, d)
	})
}
