package txval

// The independent verifier: the oracle of C16. It shares no code with core/validation,
// core/signature.VerifyMultiSignature, core/program or core/types: it has its own envelope parser,
// its own script parser, its own "m distinct keys" count and its own account derivation. Trusted base:
// the primitives of the separate module ontology-crypto (key decoding, single-signature verification,
// key ordering), go-ethereum's PubkeyToAddress, sha256 and ripemd160.

import (
	"crypto/sha256"
	"encoding/binary"
	"errors"
	"fmt"
	"sort"

	ethcrypto "github.com/ethereum/go-ethereum/crypto"
	"github.com/ontio/ontology-crypto/ec"
	"github.com/ontio/ontology-crypto/keypair"
	s "github.com/ontio/ontology-crypto/signature"
	"github.com/ontio/ontology/common"
	"golang.org/x/crypto/ripemd160"
)

// ---------------------------------------------------------------------------------------------
// envelope

type rawSet struct{ Invoke, Verify []byte }

type rawTx struct {
	Unsigned []byte
	TxType   byte
	Payer    common.Address
	Hash     [32]byte
	Sets     []rawSet
}

type reader struct {
	b   []byte
	pos int
}

var errShort = errors.New("short")

func (r *reader) take(n uint64) ([]byte, error) {
	if n > uint64(len(r.b)-r.pos) {
		return nil, errShort
	}
	out := r.b[r.pos : r.pos+int(n)]
	r.pos += int(n)
	return out, nil
}

func (r *reader) varUint() (uint64, error) {
	b, err := r.take(1)
	if err != nil {
		return 0, err
	}
	switch b[0] {
	case 0xfd:
		x, err := r.take(2)
		if err != nil {
			return 0, err
		}
		return uint64(binary.LittleEndian.Uint16(x)), nil
	case 0xfe:
		x, err := r.take(4)
		if err != nil {
			return 0, err
		}
		return uint64(binary.LittleEndian.Uint32(x)), nil
	case 0xff:
		x, err := r.take(8)
		if err != nil {
			return 0, err
		}
		return binary.LittleEndian.Uint64(x), nil
	}
	return uint64(b[0]), nil
}

func (r *reader) varBytes() ([]byte, error) {
	n, err := r.varUint()
	if err != nil {
		return nil, err
	}
	return r.take(n)
}

// parseEnvelope splits an Ontology-format transaction into signed content, payer and raw signature sets.
// It is deliberately lenient (no canonical-varint rule, trailing bytes ignored): it only has to agree
// with the node's decoder on inputs the node decodes.
func parseEnvelope(raw []byte) (*rawTx, error) {
	r := &reader{b: raw}
	hd, err := r.take(2 + 4 + 8 + 8)
	if err != nil {
		return nil, err
	}
	tx := &rawTx{TxType: hd[1]}
	if hd[0] != 0 {
		return nil, errors.New("version")
	}
	p, err := r.take(20)
	if err != nil {
		return nil, err
	}
	copy(tx.Payer[:], p)
	switch tx.TxType {
	case 0xd1, 0xd2:
		if _, err := r.varBytes(); err != nil {
			return nil, err
		}
	case 0xd0:
		if _, err := r.varBytes(); err != nil {
			return nil, err
		}
		if _, err := r.take(1); err != nil {
			return nil, err
		}
		for i := 0; i < 5; i++ {
			if _, err := r.varBytes(); err != nil {
				return nil, err
			}
		}
	default:
		return nil, fmt.Errorf("tx type %02x", tx.TxType)
	}
	at, err := r.varUint()
	if err != nil {
		return nil, err
	}
	if at != 0 {
		return nil, errors.New("attributes")
	}
	tx.Unsigned = raw[:r.pos]
	h1 := sha256.Sum256(tx.Unsigned)
	tx.Hash = sha256.Sum256(h1[:])
	n, err := r.varUint()
	if err != nil {
		return nil, err
	}
	if n > 1<<16 {
		return nil, errors.New("too many sets")
	}
	for i := uint64(0); i < n; i++ {
		inv, err := r.varBytes()
		if err != nil {
			return nil, err
		}
		ver, err := r.varBytes()
		if err != nil {
			return nil, err
		}
		tx.Sets = append(tx.Sets, rawSet{inv, ver})
	}
	return tx, nil
}

// ---------------------------------------------------------------------------------------------
// scripts

type token struct {
	IsNum bool
	Num   int64
	Data  []byte
}

// parsePushes reads a script that consists of push instructions only.
func parsePushes(b []byte) ([]token, bool) {
	var out []token
	for i := 0; i < len(b); {
		op := b[i]
		i++
		var n int
		switch {
		case op == 0x00:
			out = append(out, token{IsNum: true, Num: 0})
			continue
		case op >= 0x01 && op <= 0x4b:
			n = int(op)
		case op == opPUSHDATA1:
			if i+1 > len(b) {
				return nil, false
			}
			n = int(b[i])
			i++
		case op == opPUSHDATA2:
			if i+2 > len(b) {
				return nil, false
			}
			n = int(binary.LittleEndian.Uint16(b[i:]))
			i += 2
		case op == opPUSHDATA4:
			if i+4 > len(b) {
				return nil, false
			}
			n = int(binary.LittleEndian.Uint32(b[i:]))
			i += 4
			if n < 0 {
				return nil, false
			}
		case op == 0x4f:
			out = append(out, token{IsNum: true, Num: -1})
			continue
		case op >= opPUSH1 && op <= 0x60:
			out = append(out, token{IsNum: true, Num: int64(op-opPUSH1) + 1})
			continue
		default:
			return nil, false
		}
		if n > len(b)-i {
			return nil, false
		}
		out = append(out, token{Data: b[i : i+n]})
		i += n
	}
	return out, true
}

func (t token) int() (int64, bool) {
	if t.IsNum {
		return t.Num, true
	}
	if len(t.Data) == 0 || len(t.Data) > 4 {
		return 0, false
	}
	var v int64 // little-endian two's complement, as NeoVM reads integers
	for i := len(t.Data) - 1; i >= 0; i-- {
		v = v<<8 | int64(t.Data[i])
	}
	if t.Data[len(t.Data)-1]&0x80 != 0 {
		v -= 1 << (8 * uint(len(t.Data)))
	}
	return v, true
}

type parsedVerify struct {
	Multi bool
	M     int64
	Keys  [][]byte // pushed key bytes in script order
}

// parseVerify understands the two account script shapes: <key> CHECKSIG and <m> <key>... <n> CHECKMULTISIG.
func parseVerify(v []byte) (*parsedVerify, error) {
	if len(v) < 2 {
		return nil, errors.New("script too short")
	}
	toks, ok := parsePushes(v[:len(v)-1])
	if !ok {
		return nil, errors.New("not a push-only script")
	}
	switch v[len(v)-1] {
	case opCHECKSIG:
		if len(toks) != 1 || toks[0].IsNum {
			return nil, errors.New("CHECKSIG script is not exactly one pushed key")
		}
		return &parsedVerify{M: 1, Keys: [][]byte{toks[0].Data}}, nil
	case opCHECKMULTISIG:
		if len(toks) < 3 {
			return nil, errors.New("CHECKMULTISIG script needs m, keys, n")
		}
		m, ok := toks[0].int()
		if !ok {
			return nil, errors.New("m is not a number")
		}
		p := &parsedVerify{Multi: true, M: m}
		for _, k := range toks[1 : len(toks)-1] {
			if k.IsNum {
				return nil, errors.New("number where a key is expected")
			}
			p.Keys = append(p.Keys, k.Data)
		}
		return p, nil
	}
	return nil, errors.New("script does not end in CHECKSIG/CHECKMULTISIG")
}

// decodeKey is keypair.DeserializePublicKey memoised by input bytes (a pure function; decompressing a P-224
// point costs ~10 ms in ontology-crypto because its square root draws random primes, and zoo keys recur).
var keyCache = map[string]struct {
	k   keypair.PublicKey
	err error
}{}

func decodeKey(b []byte) (keypair.PublicKey, error) {
	if c, ok := keyCache[string(b)]; ok {
		return c.k, c.err
	}
	k, err := keypair.DeserializePublicKey(b)
	if len(keyCache) < 1<<16 {
		keyCache[string(b)] = struct {
			k   keypair.PublicKey
			err error
		}{k, err}
	}
	return k, err
}

// ---------------------------------------------------------------------------------------------
// accounts

func hash160(b []byte) common.Address {
	var a common.Address
	h := sha256.Sum256(b)
	md := ripemd160.New()
	md.Write(h[:])
	copy(a[:], md.Sum(nil))
	return a
}

// indepSetAddress derives the account of a key set: ethereum-type single key -> keccak address; other single
// key -> hash160(push(canonical key) CHECKSIG); m-of-n -> hash160(m, canonical keys in canonical order, n, CHECKMULTISIG).
func indepSetAddress(keys []keypair.PublicKey, m int, multi bool) (common.Address, bool) {
	if !multi {
		if len(keys) != 1 {
			return common.Address{}, false
		}
		if e, ok := keys[0].(*ec.EthereumPublicKey); ok {
			return common.Address(ethcrypto.PubkeyToAddress(*e.PublicKey)), true
		}
		sc := pushData(nil, keypair.SerializePublicKey(keys[0]), pushMin)
		return hash160(append(sc, opCHECKSIG)), true
	}
	if m < 1 || m > len(keys) || len(keys) > 1024 {
		return common.Address{}, false
	}
	sorted := keypair.SortPublicKeys(append([]keypair.PublicKey{}, keys...))
	sc := pushNum(nil, m, numOp)
	for _, k := range sorted {
		sc = pushData(sc, keypair.SerializePublicKey(k), pushMin)
	}
	sc = pushNum(sc, len(keys), numOp)
	return hash160(append(sc, opCHECKMULTISIG)), true
}

// canonicalScript rebuilds the canonical verification script of parsed keys (used by the C17 recogniser).
func canonicalScript(keys []keypair.PublicKey, m int, multi bool) []byte {
	if !multi {
		return append(pushData(nil, keypair.SerializePublicKey(keys[0]), pushMin), opCHECKSIG)
	}
	sorted := keypair.SortPublicKeys(append([]keypair.PublicKey{}, keys...))
	sc := pushNum(nil, m, numOp)
	for _, k := range sorted {
		sc = pushData(sc, keypair.SerializePublicKey(k), pushMin)
	}
	sc = pushNum(sc, len(keys), numOp)
	return append(sc, opCHECKMULTISIG)
}

// ---------------------------------------------------------------------------------------------
// the acceptance conditions

func safeVerify(k keypair.PublicKey, msg []byte, sigBytes []byte) (ok bool) {
	defer func() {
		if recover() != nil {
			ok = false
		}
	}()
	sg, err := s.Deserialize(sigBytes)
	if err != nil {
		return false
	}
	return s.Verify(k, msg, sg)
}

type indepSet struct {
	Multi    bool
	M        int
	Keys     []keypair.PublicKey
	Distinct int // distinct keys of the set that have a valid signature
	Addr     common.Address
	DupKeys  bool
}

type indepResult struct {
	OK     bool
	Why    string
	Sets   []indepSet
	Payer  common.Address
	Hash   [32]byte
	Signer []common.Address // sorted, distinct accounts of the sets
}

// indepVerify establishes the conditions the property demands of an ACCEPTED transaction:
// every set has >= M distinct keys with a valid signature over the hash, and payer = account of some set.
func indepVerify(raw []byte) indepResult {
	res := indepResult{}
	tx, err := parseEnvelope(raw)
	if err != nil {
		res.Why = "envelope: " + err.Error()
		return res
	}
	res.Payer, res.Hash = tx.Payer, tx.Hash
	if len(tx.Sets) == 0 {
		res.Why = "no signature set"
		return res
	}
	ok := true
	seen := map[common.Address]bool{}
	for i, st := range tx.Sets {
		pv, err := parseVerify(st.Verify)
		if err != nil {
			res.Why = fmt.Sprintf("set %d: %v", i, err)
			return res
		}
		is := indepSet{Multi: pv.Multi, M: int(pv.M)}
		if pv.M < 1 || pv.M > int64(len(pv.Keys)) {
			res.Why = fmt.Sprintf("set %d: m=%d with %d keys", i, pv.M, len(pv.Keys))
			return res
		}
		canon := map[string]bool{}
		for _, kb := range pv.Keys {
			k, err := decodeKey(kb)
			if err != nil {
				res.Why = fmt.Sprintf("set %d: undecodable key %x", i, kb)
				return res
			}
			c := string(keypair.SerializePublicKey(k))
			if canon[c] {
				is.DupKeys = true
			}
			canon[c] = true
			is.Keys = append(is.Keys, k)
		}
		sigToks, okp := parsePushes(st.Invoke)
		if !okp {
			res.Why = fmt.Sprintf("set %d: invocation script is not push-only", i)
			return res
		}
		signed := map[string]bool{}
		for _, k := range is.Keys {
			c := string(keypair.SerializePublicKey(k))
			if signed[c] {
				continue
			}
			for _, tk := range sigToks {
				if tk.IsNum {
					continue
				}
				if safeVerify(k, tx.Hash[:], tk.Data) {
					signed[c] = true
					break
				}
			}
		}
		is.Distinct = len(signed)
		a, okA := indepSetAddress(is.Keys, is.M, is.Multi)
		if !okA {
			res.Why = fmt.Sprintf("set %d: no account for m=%d n=%d", i, is.M, len(is.Keys))
			return res
		}
		is.Addr = a
		if !seen[a] {
			seen[a] = true
			res.Signer = append(res.Signer, a)
		}
		if is.Distinct < is.M {
			ok = false
			if res.Why == "" {
				res.Why = fmt.Sprintf("set %d: only %d distinct key(s) of the set signed the hash, script requires m=%d", i, is.Distinct, is.M)
			}
		}
		res.Sets = append(res.Sets, is)
	}
	sort.Slice(res.Signer, func(i, j int) bool { return string(res.Signer[i][:]) < string(res.Signer[j][:]) })
	if !seen[tx.Payer] {
		ok = false
		if res.Why == "" {
			res.Why = fmt.Sprintf("payer %x is not the account of any signature set", tx.Payer[:])
		}
	}
	res.OK = ok
	return res
}

// hasDuplicateKeyScript: recogniser of known finding C16/duplicate-key-in-multisig-counts-twice —
// some CHECKMULTISIG verification script lists the same public key more than once.
func hasDuplicateKeyScript(raw []byte) bool {
	tx, err := parseEnvelope(raw)
	if err != nil {
		return false
	}
	for _, st := range tx.Sets {
		pv, err := parseVerify(st.Verify)
		if err != nil || !pv.Multi {
			continue
		}
		seen := map[string]bool{}
		for _, kb := range pv.Keys {
			k, err := decodeKey(kb)
			if err != nil {
				continue
			}
			c := string(keypair.SerializePublicKey(k))
			if seen[c] {
				return true
			}
			seen[c] = true
		}
	}
	return false
}
