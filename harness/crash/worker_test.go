package crash

// The crash-isolating worker: owns one solo ledger (genesis + a fixed prepared prefix committed as
// real blocks) and executes one serialised case per request through the node's real entry points:
//   block route    signed tx(s) -> MakeBlock -> LedgerStoreImp.ExecuteBlock   (does not commit)
//   pre-exec route LedgerStoreImp.PreExecuteContract / PreExecuteEIP155 / PreExecuteEip155Tx
//   sandbox route  NativeService.NativeCall on a fresh CacheDB (history + hostile call)
//   pool route     txnpool TxPoolService.AppendTransaction (intake of a gossiped transaction)
// Ordinary panics are recovered HERE (the node has no recover on these paths) and reported in the
// reply; fatal runtime errors kill the worker, which the parent observes as Died.

import (
	"encoding/hex"
	"encoding/json"
	"fmt"
	"math"
	"math/big"
	"os"
	"runtime/debug"
	"sort"
	"strings"
	"syscall"
	"time"

	ethcomm "github.com/ethereum/go-ethereum/common"
	ethtypes "github.com/ethereum/go-ethereum/core/types"
	ethcrypto "github.com/ethereum/go-ethereum/crypto"
	"github.com/ontio/ontology/common"
	"github.com/ontio/ontology/common/config"
	"github.com/ontio/ontology/common/constants"
	"github.com/ontio/ontology/core/ledger"
	"github.com/ontio/ontology/core/payload"
	"github.com/ontio/ontology/core/store/ledgerstore"
	"github.com/ontio/ontology/core/types"
	cutils "github.com/ontio/ontology/core/utils"
	"github.com/ontio/ontology/core/validation"
	"github.com/ontio/ontology/smartcontract"
	sctx "github.com/ontio/ontology/smartcontract/context"
	"github.com/ontio/ontology/smartcontract/event"
	"github.com/ontio/ontology/smartcontract/service/native"
	_ "github.com/ontio/ontology/smartcontract/service/native/init"
	nutils "github.com/ontio/ontology/smartcontract/service/native/utils"
	neosvc "github.com/ontio/ontology/smartcontract/service/neovm"
	tc "github.com/ontio/ontology/txnpool/common"
	tp "github.com/ontio/ontology/txnpool/proc"
	vm "github.com/ontio/ontology/vm/neovm"
	vmtypes "github.com/ontio/ontology/vm/neovm/types"

	"verifharness/internal/fix"
	"verifharness/internal/iso"
)

func init() {
	iso.Register("c12", func(in []byte) []byte { return serve(in) })
	// same handler, but with the Go runtime's default 1 GB goroutine stack limit of a 64-bit node
	// (iso.Serve lowers it to 64 MiB): used to confirm that a stack overflow is not an artefact.
	iso.Register("c12big", func(in []byte) []byte {
		debug.SetMaxStack(1000000000)
		return serve(in)
	})
}

// ---------------------------------------------------------------------------------------------
// world

type world struct {
	ch       *fix.Chain
	ethNonce uint64 // nonce of zoo[zEth0] after the prefix
	pool     *tp.TxPoolService
	poolCt   uint64
	memSS    *ledgerstore.StateStore
}

// Addresses of the prefix contracts (deterministic, computed by both sides).
var (
	neoRecurCode = (&asm{}).op(vm.DUP).appcall(make([]byte, 20)).b                                            // DUP; APPCALL <address from stack>
	neoStoreCode = (&asm{}).syscall("System.Storage.GetContext").syscall("System.Storage.Put").op(vm.PUSH1).b // [value key] -> Put(ctx,key,value)
	neoEchoCode  = (&asm{}).op(vm.NOP).b
	// callees of the cross-contract loops: a service call; a contract that calls another; a bounded loop of service calls
	neoTimeCode  = (&asm{}).syscall("System.Runtime.GetTime").op(vm.DROP).b
	neoChainCode = (&asm{}).appcall(addrBytes(neoTimeCode)).b
	neoLoopCode  = asmLoop(&asm{}, 16, func(a *asm) { a.syscall("System.Runtime.GetTime").op(vm.DROP) }).b
	evmLoopRT    = []byte{0x5b, 0x60, 0x00, 0x56}                                     // JUMPDEST PUSH1 0 JUMP
	evmEchoRT    = []byte{0x36, 0x60, 0x00, 0x60, 0x00, 0x37, 0x36, 0x60, 0x00, 0xf3} // return calldata
	evmLogRT     = []byte{0x36, 0x60, 0x00, 0x60, 0x00, 0x37, 0x60, 0x01, 0x60, 0x02, 0x36, 0x60, 0x00, 0xa2, 0x00}
)

func neoAddr(code []byte) common.Address { return common.AddressFromVmCode(code) }

func addrBytes(code []byte) []byte { a := neoAddr(code); return a[:] }

// asmLoop emits: counter on the alt stack, body executed n times (bounded backward jump).
func asmLoop(a *asm, n int64, body func(a *asm)) *asm {
	a.pushI(n).op(vm.TOALTSTACK)
	start := len(a.b)
	body(a)
	a.op(vm.FROMALTSTACK, vm.DEC, vm.DUP, vm.TOALTSTACK)
	a.jmp(vm.JMPIF, int16(start-len(a.b)))
	return a.op(vm.FROMALTSTACK, vm.DROP)
}

func prefixNeoContracts() [][]byte {
	return [][]byte{neoRecurCode, neoStoreCode, neoEchoCode, neoTimeCode, neoChainCode, neoLoopCode}
}

func evmPrefixAddr(i int) ethcomm.Address {
	return ethcrypto.CreateAddress(ethcomm.Address(zoo()[zEth0].Address), uint64(i))
}

var theWorld *world

func getWorld() (*world, error) {
	if theWorld != nil {
		return theWorld, nil
	}
	installCounters()
	// under the parent's scratch directory when there is one (the parent removes it; a killed
	// worker cannot clean up after itself)
	dir, err := os.MkdirTemp(os.Getenv("VERIF_C12_ERRDIR"), "c12w-")
	if err != nil {
		return nil, err
	}
	z := zoo()
	ch, err := fix.NewSolo(dir+"/ledger", z[0])
	if err != nil {
		return nil, err
	}
	config.DefConfig.Common.EnableEventLog = false
	w := &world{ch: ch}
	// block 1: fund the users with ONT and ONG
	var txs []*types.Transaction
	for i := 1; i < zooLen; i++ {
		t1, err := ch.Transfer(nutils.OntContractAddress, z[0], z[i].Address, 2000000, 0, 20000)
		if err != nil {
			return nil, err
		}
		t2, err := ch.Transfer(nutils.OngContractAddress, z[0], z[i].Address, 100000*constants.GWei, 0, 20000)
		if err != nil {
			return nil, err
		}
		txs = append(txs, t1, t2)
	}
	if err := w.commit(txs); err != nil {
		return nil, fmt.Errorf("prefix block 1: %v", err)
	}
	// block 2: NeoVM and EVM contracts
	txs = nil
	for i, code := range prefixNeoContracts() {
		mtx, err := cutils.NewDeployTransaction(code, fmt.Sprintf("c%d", i), "1", "a", "e", "d", payload.NEOVM_TYPE)
		if err != nil {
			return nil, err
		}
		mtx.GasLimit, mtx.Nonce = 30000000, uint32(100+i)
		tx, err := fix.Sign(mtx, z[1])
		if err != nil {
			return nil, err
		}
		txs = append(txs, tx)
	}
	for i, rt := range [][]byte{evmLoopRT, evmEchoRT, evmLogRT} {
		tx, err := w.ethTx(uint64(i), nil, 0, 1000000, 0, evmDeployWrapper(rt))
		if err != nil {
			return nil, err
		}
		txs = append(txs, tx)
	}
	if err := w.commit(txs); err != nil {
		return nil, fmt.Errorf("prefix block 2: %v", err)
	}
	acct, err := ch.LS.GetEthAccount(ethcomm.Address(z[zEth0].Address))
	if err != nil {
		return nil, err
	}
	w.ethNonce = acct.Nonce
	if w.ethNonce != 3 {
		return nil, fmt.Errorf("prefix: eth nonce %d, want 3", w.ethNonce)
	}
	for i := 0; i < 3; i++ {
		code, err := ch.LS.GetEthCode(ethcrypto.Keccak256Hash([][]byte{evmLoopRT, evmEchoRT, evmLogRT}[i]))
		if err != nil || len(code) == 0 {
			return nil, fmt.Errorf("prefix: evm contract %d not deployed (%v)", i, err)
		}
	}
	for _, code := range prefixNeoContracts() {
		if d, err := ch.LS.GetContractState(neoAddr(code)); err != nil || d == nil {
			return nil, fmt.Errorf("prefix: neovm contract not deployed (%v)", err)
		}
	}
	theWorld = w
	return w, nil
}

func (w *world) commit(txs []*types.Transaction) error {
	_, res, err := w.ch.AddTxs(txs)
	if err != nil {
		return err
	}
	for i, n := range res.Notify {
		if n.State != 1 {
			return fmt.Errorf("prefix tx %d failed", i)
		}
	}
	return nil
}

func chainID() *big.Int { return big.NewInt(int64(config.DefConfig.P2PNode.EVMChainId)) }

// ethTx builds a signed EIP-155 transaction of zoo[zEth0] wrapped as an ontology transaction.
func (w *world) ethTx(nonce uint64, to *ethcomm.Address, value, gas, gasPriceGwei uint64, data []byte) (*types.Transaction, error) {
	gp := new(big.Int).Mul(big.NewInt(int64(gasPriceGwei)), big.NewInt(constants.GWei))
	var etx *ethtypes.Transaction
	if to == nil {
		etx = ethtypes.NewContractCreation(nonce, new(big.Int).SetUint64(value), gas, gp, data)
	} else {
		etx = ethtypes.NewTransaction(nonce, *to, new(big.Int).SetUint64(value), gas, gp, data)
	}
	signed, err := ethtypes.SignTx(etx, ethtypes.NewEIP155Signer(chainID()), zoo()[zEth0].EthECDSA())
	if err != nil {
		return nil, err
	}
	return types.TransactionFromEIP155(signed)
}

// ---------------------------------------------------------------------------------------------
// handler-entry counters ("did the case reach a syscall / native handler")

var reached = map[string]bool{}

func hit(s string) { reached[s] = true }

func takeReached() []string {
	out := make([]string, 0, len(reached))
	for k := range reached {
		out = append(out, k)
	}
	sort.Strings(out)
	reached = map[string]bool{}
	return out
}

var countersInstalled bool

func installCounters() {
	if countersInstalled {
		return
	}
	countersInstalled = true
	wrapSvc := func(m map[string]neosvc.ServiceHandler) {
		for name, h := range m {
			n, hh := name, h
			m[n] = func(s *neosvc.NeoVmService, e *vm.Executor) error {
				hit("sys:" + n)
				if probe.on {
					probe.sample(s, e)
				}
				return hh(s, e)
			}
		}
	}
	wrapSvc(neosvc.ServiceMap)
	wrapSvc(neosvc.ServiceMapNew)
	wrapSvc(neosvc.ServiceMapDeprecated)
	for addr, reg := range native.Contracts {
		a, r := addr, reg
		cname := contractName(hex.EncodeToString(a[:]))
		native.Contracts[a] = func(s *native.NativeService) {
			r(s)
			for name, h := range s.ServiceMap {
				n, hh := name, h
				s.ServiceMap[n] = func(ns *native.NativeService) ([]byte, error) { hit("nat:" + cname + "." + n); return hh(ns) }
			}
		}
	}
}

// nativeMethods enumerates the registered method tables at run time (at the given height).
func nativeMethods(height uint32) map[string][]string {
	out := map[string][]string{}
	for addr, reg := range native.Contracts {
		svc := &native.NativeService{ServiceMap: map[string]native.Handler{}, Height: height}
		reg(svc)
		var ms []string
		for m := range svc.ServiceMap {
			ms = append(ms, m)
		}
		sort.Strings(ms)
		out[hex.EncodeToString(addr[:])] = ms
	}
	return out
}

// ---------------------------------------------------------------------------------------------
// guarded execution

func guard(res *pathRes, f func()) {
	t0 := time.Now()
	res.Ran = true
	reached = map[string]bool{}
	defer func() {
		res.Ms = time.Since(t0).Milliseconds()
		res.Reached = takeReached()
		if r := recover(); r != nil {
			if a, ok := r.(probeAbort); ok { // not a panic of the node: the probe stopped a request that passed its bound
				res.Abort = a.msg
				return
			}
			res.Panic = fmt.Sprint(r)
			res.Stack = trimStack(string(debug.Stack()))
		}
	}()
	f()
}

// trimStack keeps the frames between the panic and the harness.
func trimStack(s string) string {
	if i := strings.Index(s, "panic("); i >= 0 {
		s = s[i:]
	}
	if i := strings.Index(s, "verifharness/crash.guard"); i >= 0 {
		s = s[:i]
	}
	if len(s) > 2500 {
		s = s[:2500]
	}
	return s
}

func errStr(err error) string {
	if err == nil {
		return ""
	}
	s := err.Error()
	if len(s) > 400 {
		s = s[:400]
	}
	return s
}

var stderrRedirected bool

// redirectStderr points fd 1 and 2 at $VERIF_C12_ERRDIR/<worker name>.err so that the parent can
// read the HEAD of a fatal-error report (iso keeps only the tail of the output).
func redirectStderr() {
	if stderrRedirected {
		return
	}
	stderrRedirected = true
	dir := os.Getenv("VERIF_C12_ERRDIR")
	if dir == "" {
		return
	}
	f, err := os.OpenFile(dir+"/"+os.Getenv("VERIF_WORKER")+".err", os.O_CREATE|os.O_WRONLY|os.O_TRUNC, 0o644)
	if err != nil {
		return
	}
	_ = syscall.Dup2(int(f.Fd()), 2)
	_ = syscall.Dup2(int(f.Fd()), 1)
}

func serve(in []byte) []byte {
	redirectStderr()
	var rep wreply
	func() {
		defer func() {
			if r := recover(); r != nil {
				rep.Harness = fmt.Sprintf("panic in harness code: %v\n%s", r, debug.Stack())
			}
		}()
		var c wcase
		if err := json.Unmarshal(in, &c); err != nil {
			rep.Harness = "bad case: " + err.Error()
			return
		}
		w, err := getWorld()
		if err != nil {
			rep.Harness = "world: " + err.Error()
			return
		}
		switch c.Kind {
		case "neo":
			w.doNeo(&c, &rep)
		case "amp":
			w.doAmp(&c, &rep)
		case "xloop":
			w.doXloop(&c, &rep)
		case "native":
			w.doNative(&c, &rep)
		case "evm":
			w.doEvm(&c, &rep)
		case "pool":
			w.doPool(&c, &rep)
		case "validate":
			w.doValidate(&c, &rep)
		case "methods":
			b, _ := json.Marshal(nativeMethods(c.Height))
			rep.Harness = "methods:" + string(b)
		default:
			rep.Harness = "unknown kind " + c.Kind
		}
	}()
	out, _ := json.Marshal(rep)
	return out
}

func signers(ix []int) []*fix.ZooKey {
	var out []*fix.ZooKey
	for _, i := range ix {
		out = append(out, zoo()[((i%zooLen)+zooLen)%zooLen])
	}
	return out
}

func (w *world) neoTx(code []byte, gasPrice, gasLimit uint64, sg []int, nonce uint32) (*types.Transaction, error) {
	mtx := &types.MutableTransaction{GasPrice: gasPrice, GasLimit: gasLimit, TxType: types.InvokeNeo, Nonce: nonce,
		Payload: &payload.InvokeCode{Code: code}}
	ks := signers(sg)
	if len(ks) == 0 {
		mtx.Payer = zoo()[1].Address
	}
	return fix.Sign(mtx, ks...)
}

// execBlock runs the transactions as the next block through ExecuteBlock (nothing is committed).
func (w *world) execBlock(txs []*types.Transaction, res *pathRes, per *[]pathRes) {
	b, err := w.ch.MakeBlock(txs, 0)
	if err != nil {
		res.Err = "harness: MakeBlock: " + err.Error()
		return
	}
	guard(res, func() {
		r, err := w.ch.LS.ExecuteBlock(b)
		if err != nil {
			res.Err = "ExecuteBlock: " + errStr(err)
			return
		}
		for i, n := range r.Notify {
			if per != nil {
				*per = append(*per, pathRes{Ran: true, State: int(n.State), Gas: n.GasConsumed, Notifs: len(n.Notify)})
			}
			if i == len(r.Notify)-1 {
				res.State, res.Gas, res.Notifs = int(n.State), n.GasConsumed, len(n.Notify)
			}
		}
	})
}

func (w *world) preExec(tx *types.Transaction, res *pathRes) {
	guard(res, func() {
		r, err := w.ch.LS.PreExecuteContract(tx)
		res.Err = errStr(err)
		if r != nil {
			res.State, res.Gas, res.Notifs = int(r.State), r.Gas, len(r.Notify)
		}
	})
}

func (w *world) doNeo(c *wcase, rep *wreply) {
	tx, err := w.neoTx(c.Code, c.GasPrice, c.GasLimit, c.Signers, 7)
	if err != nil {
		rep.Block.Err = "tx-unbuildable: " + errStr(err)
		return
	}
	w.execBlock([]*types.Transaction{tx}, &rep.Block, nil)
	w.preExec(tx, &rep.Pre)
}

// ---------------------------------------------------------------------------------------------
// amplification programs: metered run first, node routes only when the meter stayed within bounds

// liveItems counts the VM items a program holds: every stack slot, every distinct container
// (by identity: shared arrays / maps count once) and every slot of such a container. The walk stops
// as soon as the count exceeds limit.
func liveItems(e *vm.Executor, limit int) int {
	seen := map[interface{}]struct{}{}
	n := 0
	var walk func(v *vmtypes.VmValue)
	walk = func(v *vmtypes.VmValue) {
		n++
		if n > limit {
			return
		}
		var items []vmtypes.VmValue
		if s, err := v.AsStructValue(); err == nil {
			if _, ok := seen[s]; ok {
				return
			}
			seen[s] = struct{}{}
			items = s.Data
		} else if a, err := v.AsArrayValue(); err == nil {
			if _, ok := seen[a]; ok {
				return
			}
			seen[a] = struct{}{}
			items = a.Data
		} else if m, err := v.AsMapValue(); err == nil {
			if _, ok := seen[m]; ok {
				return
			}
			seen[m] = struct{}{}
			for _, kv := range m.Data { // order is irrelevant for a count
				k, val := kv[0], kv[1]
				walk(&k)
				walk(&val)
				if n > limit {
					return
				}
			}
			return
		}
		for i := range items {
			walk(&items[i])
			if n > limit {
				return
			}
		}
	}
	for _, st := range []*vm.ValueStack{e.EvalStack, e.AltStack} {
		for i := 0; i < st.Count() && n <= limit; i++ {
			v, err := st.Peek(int64(i))
			if err != nil {
				break
			}
			walk(&v)
		}
	}
	return n
}

const ampStepCap = 20000

// probe counts the live items of the node's own executor (the one inside NeoVmService.Invoke, reached
// through ExecuteBlock / PreExecuteContract) on entry to every service handler.
type probeState struct {
	on          bool
	limit       int
	first, peak int
	// call counting (cross-contract loops)
	count    bool
	calls    int
	maxCalls int
	what     string
	steps    int
}

// probeAbort is thrown by the probe through the node's frames (which recover nothing) into guard().
type probeAbort struct{ msg string }

var probe probeState

func probeStart(limit int) { probe = probeState{on: true, limit: limit, first: -1} }

func probeStop() (first, peak int) { probe.on = false; return probe.first, probe.peak }

// probeCalls counts the service-handler entries of one request and stops it beyond maxCalls.
func probeCalls(maxCalls int, what string) {
	probe = probeState{on: true, count: true, maxCalls: maxCalls, what: what}
}

func (p *probeState) sample(s *neosvc.NeoVmService, e *vm.Executor) {
	if p.count {
		p.calls++
		if s.PreExec && os.Getenv("VERIF_C12_NO_STEPCOUNTER") == "" {
			// every opcode of every engine of a pre-execution request passes CheckExecStep first, so the
			// request's step counter can never be behind the number of service-call opcodes entered so far
			if sc, ok := s.ContextRef.(*smartcontract.SmartContract); ok {
				p.steps = sc.ExecStep
				if sc.ExecStep < p.calls {
					p.on = false
					panic(probeAbort{fmt.Sprintf("%s: the request has entered %d service calls (one opcode each) but its step counter SmartContract.ExecStep reads %d: executed opcodes are not counted against VM_STEP_LIMIT", p.what, p.calls, sc.ExecStep)})
				}
			}
		}
		if p.calls > p.maxCalls {
			p.on = false
			panic(probeAbort{fmt.Sprintf("%s: the request has entered %d service calls (one opcode, >= 2 gas each) and is still running; it must have ended with a result or an error before %d", p.what, p.calls, p.maxCalls)})
		}
		return
	}
	n := liveItems(e, p.limit)
	if p.first < 0 {
		p.first = n
	}
	if n > p.peak {
		p.peak = n
	}
}

// meterAmp executes the program on a bare executor exactly as NeoVmService.Invoke drives it (same
// feature flags, one ExecuteOp per opcode) up to its first service call, and counts the live VM
// items after every opcode that can allocate container slots. Unless keepGoing, it stops at the
// first count above ampBound(ops): what follows would only multiply the memory further.
func (w *world) meterAmp(code []byte, keepGoing bool) *ampRes {
	m := &ampRes{End: "end", BlockFirst: -1, PreFirst: -1}
	e := vm.NewExecutor(code, smartcontract.NewVmFeatureFlag(w.ch.LS.GetCurrentBlockHeight()+1))
	sample := func() bool {
		b := ampBound(m.Ops)
		limit := b
		if keepGoing {
			limit = 4 * b
		}
		if n := liveItems(e, limit); n > m.Peak {
			m.Peak, m.PeakAt, m.Bound = n, m.Ops, b
			if n > b {
				m.Over = true
				if !keepGoing {
					m.End = "over"
					return false
				}
			}
		}
		return true
	}
	for {
		if e.Context == nil || e.Context.GetInstructionPointer() >= len(e.Context.Code) {
			break
		}
		if m.Ops >= ampStepCap {
			m.End = "stepcap"
			break
		}
		op, eof := e.Context.ReadOpCode()
		if eof {
			break
		}
		if op == vm.SYSCALL || op == vm.APPCALL || op == vm.TAILCALL {
			m.End = "syscall"
			break
		}
		m.Ops++
		state, err := e.ExecuteOp(op, e.Context)
		if err != nil || state == vm.FAULT {
			m.End = "fault:" + errStr(err)
			break
		}
		switch op {
		case vm.APPEND, vm.SETITEM, vm.PACK, vm.UNPACK, vm.NEWARRAY, vm.NEWSTRUCT, vm.NEWMAP, vm.KEYS, vm.VALUES:
			if !sample() {
				return m
			}
		}
	}
	sample()
	m.Final = liveItems(e, 4*ampBound(m.Ops))
	return m
}

func (w *world) doAmp(c *wcase, rep *wreply) {
	var pr pathRes
	guard(&pr, func() { rep.Amp = w.meterAmp(c.Code, c.Probe) })
	if rep.Amp == nil { // a panic of the bare executor shows on the node routes as well (same ExecuteOp)
		w.doNeo(c, rep)
		return
	}
	m := rep.Amp
	if m.Over && !c.Probe {
		return
	}
	tx, err := w.neoTx(c.Code, c.GasPrice, c.GasLimit, c.Signers, 7)
	if err != nil {
		rep.Block.Err = "tx-unbuildable: " + errStr(err)
		return
	}
	limit := 4 * ampBound(m.Ops)
	probeStart(limit)
	w.execBlock([]*types.Transaction{tx}, &rep.Block, nil)
	m.BlockFirst, m.BlockPeak = probeStop()
	probeStart(limit)
	w.preExec(tx, &rep.Pre)
	m.PreFirst, m.PrePeak = probeStop()
}

// ---------------------------------------------------------------------------------------------
// cross-contract loops: the gas bound of a transaction and the step bound of a pre-execution request,
// counted over all nested engines

// sandboxPre pre-executes tx on a SmartContract built the way PreExecuteContractWithParam builds it,
// except for the gas budget, which is finite.
func (w *world) sandboxPre(tx *types.Transaction, budget uint64, res *pathRes, lr *loopRes) {
	guard(res, func() {
		ls := w.ch.LS
		height := ls.GetCurrentBlockHeight()
		blockTime := uint32(constants.GENESIS_BLOCK_TIMESTAMP + 1)
		if h, err := ls.GetHeaderByHeight(height); err == nil {
			blockTime = h.Timestamp + 1
		}
		gasTable := make(map[string]uint64)
		neosvc.GAS_TABLE.Range(func(k, v interface{}) bool { gasTable[k.(string)] = v.(uint64); return true })
		invoke := tx.Payload.(*payload.InvokeCode)
		sc := smartcontract.SmartContract{
			Config:       &smartcontract.Config{Time: blockTime, Height: height + 1, Tx: tx, BlockHash: ls.GetBlockHash(height)},
			Store:        ls,
			CacheDB:      ls.GetCacheDB(),
			GasTable:     gasTable,
			Gas:          budget,
			WasmExecStep: config.DEFAULT_WASM_MAX_STEPCOUNT,
			PreExec:      true,
		}
		defer func() { lr.SBSteps, lr.SBGas, lr.SBBudget = sc.ExecStep, budget-sc.Gas, budget }()
		engine, err := sc.NewExecuteEngine(invoke.Code, tx.TxType)
		if err != nil {
			res.Err = errStr(err)
			return
		}
		if _, err := engine.Invoke(); err != nil {
			res.Err = errStr(err)
			return
		}
		res.State = 1
	})
}

func (w *world) doXloop(c *wcase, rep *wreply) {
	tx, err := w.neoTx(c.Code, c.GasPrice, c.GasLimit, c.Signers, 7)
	if err != nil {
		rep.Block.Err = "tx-unbuildable: " + errStr(err)
		return
	}
	lr := &loopRes{}
	rep.Loop = lr
	// a transaction: every service call costs at least 2 gas (SYSCALL opcode + service price)
	probeCalls(int(c.GasLimit), "ExecuteBlock, gas limit "+fmt.Sprint(c.GasLimit))
	w.execBlock([]*types.Transaction{tx}, &rep.Block, nil)
	lr.BlockCalls = probe.calls
	probe.on = false
	if rep.Block.Abort != "" {
		return
	}
	limit := neosvc.VM_STEP_LIMIT + xloopStepSlack
	if c.Observe {
		probeCalls(limit, fmt.Sprintf("PreExecuteContract, VM_STEP_LIMIT %d", neosvc.VM_STEP_LIMIT))
		w.preExec(tx, &rep.Pre)
		lr.PreCalls, lr.PreSteps = probe.calls, probe.steps
		probe.on = false
		return
	}
	probeCalls(limit, fmt.Sprintf("pre-execution with a %d gas budget, VM_STEP_LIMIT %d", uint64(xloopGasBudget), neosvc.VM_STEP_LIMIT))
	w.sandboxPre(tx, xloopGasBudget, &rep.PreSB, lr)
	lr.SBCalls = probe.calls
	probe.on = false
}

// ---------------------------------------------------------------------------------------------
// native

func (w *world) doNative(c *wcase, rep *wreply) {
	if c.Call == nil {
		rep.Harness = "native case without call"
		return
	}
	height := c.Height
	if height == 0 {
		height = 100
	}
	// sandbox route: history then the hostile call on a fresh CacheDB over the committed state
	cache := w.ch.LS.GetCacheDB()
	call := func(nc *natCall) ([]byte, error) {
		addr, err := addrFromHex(nc.Contract)
		if err != nil {
			return nil, fmt.Errorf("harness: bad contract %q", nc.Contract)
		}
		var sa []common.Address
		for _, k := range signers(nc.Signers) {
			sa = append(sa, k.Address)
		}
		tx := &types.Transaction{SignedAddr: sa, Payer: zoo()[1].Address}
		if len(sa) > 0 {
			tx.Payer = sa[0]
		}
		sc := smartcontract.SmartContract{Config: &smartcontract.Config{Time: constants.GENESIS_BLOCK_TIMESTAMP + height, Height: height, Tx: tx},
			CacheDB: cache, Store: w.ch.LS, Gas: math.MaxUint64 / 2}
		// In the node a native contract is never entered without a calling context: the entry
		// script of the invoke transaction (or the calling contract) is always below it.
		if nc.Caller != "" {
			ca, err := addrFromHex(nc.Caller)
			if err != nil {
				return nil, fmt.Errorf("harness: bad caller")
			}
			sc.PushContext(&sctx.Context{ContractAddress: ca})
		} else if code, ok := nativeCallCode(addr[:], nc.Method, nc.Args); ok {
			sc.PushContext(&sctx.Context{ContractAddress: common.AddressFromVmCode(code), Code: code})
		} else {
			sc.PushContext(&sctx.Context{ContractAddress: common.AddressFromVmCode([]byte("wasm caller"))})
		}
		svc, err := sc.NewNativeService()
		if err != nil {
			return nil, err
		}
		r, err := svc.NativeCall(addr, nc.Method, nc.Args)
		if err != nil {
			cache.Reset()
			return nil, err
		}
		cache.Commit()
		return r, nil
	}
	histPanic := false
	for i := range c.History {
		var pr pathRes
		var herr error
		guard(&pr, func() { _, herr = call(&c.History[i]) })
		if pr.Panic != "" {
			// a panic in a history step is reported exactly like one in the final call
			rep.Sandbox = pr
			rep.Sandbox.Err = fmt.Sprintf("history step %d", i)
			histPanic = true
			break
		}
		rep.HistOK = append(rep.HistOK, herr == nil)
		rep.HistErr = append(rep.HistErr, errClass(errStr(herr)))
	}
	if !histPanic {
		guard(&rep.Sandbox, func() {
			r, err := call(c.Call)
			rep.Sandbox.Err = errStr(err)
			if err == nil {
				rep.Sandbox.State = 1
				rep.Sandbox.Notifs = len(r)
			}
		})
	}
	if c.NoBlock {
		return
	}
	// block route: the same history and call as signed NeoVM transactions of ONE block
	var txs []*types.Transaction
	all := append(append([]natCall{}, c.History...), *c.Call)
	for i, nc := range all {
		if nc.Caller != "" {
			return // needs a calling contract; sandbox only
		}
		addr, err := addrFromHex(nc.Contract)
		if err != nil {
			return
		}
		code, ok := nativeCallCode(addr[:], nc.Method, nc.Args)
		if !ok {
			rep.Block.Err = "not-neovm-expressible"
			return
		}
		tx, err := w.neoTx(code, 0, 2000000, nc.Signers, uint32(1000+i))
		if err != nil {
			rep.Block.Err = "tx-unbuildable: " + errStr(err)
			return
		}
		txs = append(txs, tx)
	}
	w.execBlock(txs, &rep.Block, &rep.BlockTx)
	w.preExec(txs[len(txs)-1], &rep.Pre)
}

// ---------------------------------------------------------------------------------------------
// evm

func (w *world) doEvm(c *wcase, rep *wreply) {
	e := c.Evm
	if e == nil {
		rep.Harness = "evm case without body"
		return
	}
	from := ethcomm.Address(zoo()[zEth0].Address)
	create, err := w.ethTx(w.ethNonce, nil, e.Value, e.Gas, e.GasPrice, e.Init)
	if err != nil {
		rep.Block.Err = "tx-unbuildable: " + errStr(err)
		return
	}
	txs := []*types.Transaction{create}
	var target ethcomm.Address
	if e.Call {
		target = ethcrypto.CreateAddress(from, w.ethNonce)
		if e.Target != "" {
			target = ethcomm.HexToAddress(e.Target)
		}
		call, err := w.ethTx(w.ethNonce+1, &target, e.Value, e.Gas, e.GasPrice, e.CallData)
		if err != nil {
			rep.Block.Err = "tx-unbuildable: " + errStr(err)
			return
		}
		txs = append(txs, call)
	}
	w.execBlock(txs, &rep.Block, &rep.BlockTx)
	// the same transactions once more through HandleEIP155Transaction on one scratch CacheDB, only
	// to read the gas each one used (the block route does not expose it when the gas price is 0)
	var seq pathRes
	guard(&seq, func() {
		if w.memSS == nil {
			w.memSS = ledgerstore.NewMemStateStore(0) // once: it opens an in-memory LevelDB with background goroutines
		}
		ss := w.memSS
		cache := w.ch.LS.GetCacheDB()
		h := w.ch.LS.GetCurrentBlockHeight()
		for i, tx := range txs {
			etx, err := tx.GetEIP155Tx()
			if err != nil {
				return
			}
			res, _, err := ss.HandleEIP155Transaction(w.ch.LS, cache, etx, ledgerstore.Eip155Context{Height: h + 1, Timestamp: constants.GENESIS_BLOCK_TIMESTAMP + 1000, TxIndex: uint32(i)},
				&event.ExecuteNotify{}, true)
			if err != nil || res == nil {
				rep.EvmGas = append(rep.EvmGas, 0)
				continue
			}
			cache.Commit()
			rep.EvmGas = append(rep.EvmGas, res.UsedGas)
		}
	})
	if seq.Panic != "" && rep.Block.Panic == "" {
		rep.Block.Panic, rep.Block.Stack = seq.Panic, seq.Stack
	}
	// pre-execution of every transaction on the committed state (as the tx pool / RPC does)
	for _, tx := range txs {
		var pr pathRes
		w.preExec(tx, &pr)
		if rep.Pre.Panic == "" {
			ms := rep.Pre.Ms
			rep.Pre = pr
			rep.Pre.Ms += ms
		}
	}
	// eth_call / eth_estimateGas entry point
	gp := new(big.Int).Mul(big.NewInt(int64(e.GasPrice)), big.NewInt(constants.GWei))
	msgs := []ethtypes.Message{ethtypes.NewMessage(from, nil, 0, new(big.Int).SetUint64(e.Value), e.Gas, gp, e.Init, false)}
	if e.Call {
		msgs = append(msgs, ethtypes.NewMessage(from, &target, 0, new(big.Int).SetUint64(e.Value), e.Gas, gp, e.CallData, false))
	}
	for _, m := range msgs {
		var pr pathRes
		guard(&pr, func() {
			r, err := w.ch.LS.PreExecuteEip155Tx(m)
			pr.Err = errStr(err)
			if r != nil {
				pr.Gas = r.UsedGas
				if r.Err != nil {
					pr.Err = "vm: " + errStr(r.Err)
				} else {
					pr.State = 1
				}
			}
		})
		if rep.EthCall.Panic == "" {
			ms := rep.EthCall.Ms
			rep.EthCall = pr
			rep.EthCall.Ms += ms
		}
	}
}

// ---------------------------------------------------------------------------------------------
// tx pool intake (what a node does with a transaction gossiped by a peer or posted through RPC)

func (w *world) doPool(c *wcase, rep *wreply) {
	if w.pool == nil {
		ledger.DefLedger = &ledger.Ledger{LedgerStore: w.ch.LS}
		var srv *tp.TXPoolServer
		var pr pathRes
		guard(&pr, func() { srv = tp.NewTxPoolServer(false, true) })
		if pr.Panic != "" || srv == nil {
			rep.Harness = "cannot start tx pool: " + pr.Panic
			return
		}
		w.pool = tp.NewTxPoolService(srv)
	}
	var tx *types.Transaction
	var err error
	if c.Evm != nil {
		e := c.Evm
		var to *ethcomm.Address
		if e.Target != "" {
			t := ethcomm.HexToAddress(e.Target)
			to = &t
		}
		data := e.Init
		if to != nil {
			data = e.CallData
		}
		tx, err = w.ethTx(w.ethNonce+w.poolCt, to, e.Value, e.Gas, e.GasPrice, data)
	} else {
		tx, err = w.neoTx(c.Code, c.GasPrice, c.GasLimit, c.Signers, uint32(5000+w.poolCt))
	}
	w.poolCt++
	if err != nil {
		rep.Pool.Err = "tx-unbuildable: " + errStr(err)
		return
	}
	guard(&rep.Pool, func() {
		done := make(chan *tc.TxResult, 1)
		go func() {
			defer func() {
				if r := recover(); r != nil {
					rep.Pool.Panic = fmt.Sprint(r)
					rep.Pool.Stack = trimStack(string(debug.Stack()))
					done <- nil
				}
			}()
			done <- w.pool.AppendTransaction(tc.NetSender, tx)
		}()
		select {
		case r := <-done:
			if r != nil {
				rep.Pool.Err = fmt.Sprintf("code=%d %s", r.Err, r.Desc)
				if r.Err == 0 {
					rep.Pool.State = 1
				}
			}
		case <-time.After(20 * time.Second):
			rep.Pool.Err = "harness: no verdict from the pool within 20 s"
		}
	})
}

// ---------------------------------------------------------------------------------------------
// raw bytes -> decode -> stateless validation (-> pre-execution and block execution when valid)
//
// p2p: `go HandlePeerMessage` decodes the Trn message (types.Transaction.Deserialization), the tx
// pool hands the transaction to validator/stateless (validation.VerifyTransaction in a worker
// goroutine) - no recover on either goroutine.

func (w *world) doValidate(c *wcase, rep *wreply) {
	var tx *types.Transaction
	guard(&rep.Valid, func() {
		t, err := types.TransactionFromRawBytes(c.Raw)
		if err != nil {
			rep.Valid.Err = "decode: " + errStr(err)
			return
		}
		hit("validate:decoded")
		code := validation.VerifyTransaction(t)
		if code != 0 {
			rep.Valid.Err = fmt.Sprintf("verify: code %d", code)
			return
		}
		hit("validate:accepted")
		rep.Valid.State = 1
		_ = t.GetSignatureAddresses()
		tx = t
	})
	if tx == nil {
		return
	}
	w.preExec(tx, &rep.Pre)
	w.execBlock([]*types.Transaction{tx}, &rep.Block, nil)
}
