package net

// C24 helpers: an independent reference encoder for every p2p payload (it also records where the
// count/length fields and the field boundaries are), typed generators for the 21 message kinds
// and the canonical textual form used to compare messages field by field.

import (
	"crypto/sha256"
	"encoding/binary"
	"encoding/hex"
	"fmt"
	"math/big"
	"strings"
	"sync"

	ethcomm "github.com/ethereum/go-ethereum/common"
	ethtypes "github.com/ethereum/go-ethereum/core/types"
	"github.com/ethereum/go-ethereum/rlp"
	"github.com/ontio/ontology-crypto/keypair"
	"github.com/ontio/ontology/common"
	"github.com/ontio/ontology/common/config"
	"github.com/ontio/ontology/common/constants"
	"github.com/ontio/ontology/core/payload"
	"github.com/ontio/ontology/core/signature"
	ct "github.com/ontio/ontology/core/types"
	pcom "github.com/ontio/ontology/p2pserver/common"
	"github.com/ontio/ontology/p2pserver/message/types"
	"pgregory.net/rapid"

	"verifharness/internal/fix"
)

// ---------------------------------------------------------------------------------------------
// reference payload builder

type ckind int

const (
	cFix32 ckind = iota // little-endian uint32 count
	cFix64              // little-endian uint64 count
	cVar                // ontology varuint count / length prefix
)

// cmark is one count or length field of a payload.
type cmark struct {
	Off, Width int
	Kind       ckind
	Name       string
	Val        uint64
}

// pb builds a payload with the harness's own encoder and remembers count fields and field
// boundaries (offsets at which a field starts).
type pb struct {
	b      []byte
	counts []cmark
	bounds []int
}

func (p *pb) mark() { p.bounds = append(p.bounds, len(p.b)) }
func (p *pb) u8(v uint8) {
	p.mark()
	p.b = append(p.b, v)
}
func (p *pb) boolean(v bool) {
	if v {
		p.u8(1)
	} else {
		p.u8(0)
	}
}
func (p *pb) u16(v uint16) {
	p.mark()
	p.b = binary.LittleEndian.AppendUint16(p.b, v)
}
func (p *pb) u32(v uint32) {
	p.mark()
	p.b = binary.LittleEndian.AppendUint32(p.b, v)
}
func (p *pb) u64(v uint64) {
	p.mark()
	p.b = binary.LittleEndian.AppendUint64(p.b, v)
}
func (p *pb) raw(v []byte) {
	p.mark()
	p.b = append(p.b, v...)
}

// refVarUint is the reference varuint encoder (shortest form).
func refVarUint(v uint64) []byte {
	switch {
	case v < 0xfd:
		return []byte{byte(v)}
	case v <= 0xffff:
		return binary.LittleEndian.AppendUint16([]byte{0xfd}, uint16(v))
	case v <= 0xffffffff:
		return binary.LittleEndian.AppendUint32([]byte{0xfe}, uint32(v))
	default:
		return binary.LittleEndian.AppendUint64([]byte{0xff}, v)
	}
}

func (p *pb) cnt32(name string, v uint32) {
	p.counts = append(p.counts, cmark{len(p.b), 4, cFix32, name, uint64(v)})
	p.u32(v)
}
func (p *pb) cnt64(name string, v uint64) {
	p.counts = append(p.counts, cmark{len(p.b), 8, cFix64, name, v})
	p.u64(v)
}
func (p *pb) cntVar(name string, v uint64) {
	e := refVarUint(v)
	p.counts = append(p.counts, cmark{len(p.b), len(e), cVar, name, v})
	p.raw(e)
}
func (p *pb) varbytes(name string, v []byte) {
	p.cntVar(name+".len", uint64(len(v)))
	if len(v) > 0 {
		p.raw(v)
	}
}
func (p *pb) str(name, v string) { p.varbytes(name, []byte(v)) }

// sub appends another builder, shifting its marks.
func (p *pb) sub(q *pb, prefix string) {
	base := len(p.b)
	for _, c := range q.counts {
		c.Off += base
		c.Name = prefix + c.Name
		p.counts = append(p.counts, c)
	}
	for _, o := range q.bounds {
		p.bounds = append(p.bounds, o+base)
	}
	p.b = append(p.b, q.b...)
}

// withCount returns the payload with count field i re-encoded as enc.
func (p *pb) withCount(i int, enc []byte) []byte {
	c := p.counts[i]
	out := make([]byte, 0, len(p.b)+len(enc))
	out = append(out, p.b[:c.Off]...)
	out = append(out, enc...)
	out = append(out, p.b[c.Off+c.Width:]...)
	return out
}

// ---------------------------------------------------------------------------------------------
// reference framing (independent of WriteMessage)

func refChecksum(pay []byte) [4]byte {
	a := sha256.Sum256(pay)
	b := sha256.Sum256(a[:])
	var c [4]byte
	copy(c[:], b[:4])
	return c
}

// refFrameHdr builds a frame from explicit header fields (used for header mutants).
func refFrameHdr(magic uint32, cmd string, length uint32, ck [4]byte, pay []byte) []byte {
	out := make([]byte, 0, 24+len(pay))
	out = binary.LittleEndian.AppendUint32(out, magic)
	var c [12]byte
	copy(c[:], cmd)
	out = append(out, c[:]...)
	out = binary.LittleEndian.AppendUint32(out, length)
	out = append(out, ck[:]...)
	return append(out, pay...)
}

func refFrame(cmd string, pay []byte) []byte {
	return refFrameHdr(config.DefConfig.P2PNode.NetworkMagic, cmd, uint32(len(pay)), refChecksum(pay), pay)
}

// ---------------------------------------------------------------------------------------------
// key material

var (
	keyOnce   sync.Once
	pubKinds  []fix.KeyKind // kinds whose public key survives Serialize/Deserialize
	powKeys   []*fix.ZooKey // P-256 zoo keys that satisfy the kad-id proof of work at the process's Difficulty
	powKeyIds []*pcom.PeerKeyId
)

// initKeys must run after pcom.Difficulty was set for the process.
func initKeys() {
	keyOnce.Do(func() {
		for _, k := range fix.AllKinds() {
			z := fix.Key(k, 0)
			b := keypair.SerializePublicKey(z.PublicKey)
			q, err := keypair.DeserializePublicKey(b)
			if err == nil && string(keypair.SerializePublicKey(q)) == string(b) {
				pubKinds = append(pubKinds, k)
			}
		}
		for i := 0; len(powKeys) < 24 && i < 4000; i++ {
			z := fix.Key(fix.KP256, i)
			if kid := kadId(z); kid != nil {
				powKeys = append(powKeys, z)
				powKeyIds = append(powKeyIds, kid)
			}
		}
		if len(pubKinds) < 3 || len(powKeys) < 24 {
			panic("key zoo unusable")
		}
	})
}

// kadId builds the PeerKeyId of a zoo key through the repo's decoder (it enforces the proof of
// work); nil when the key does not satisfy it.
func kadId(z *fix.ZooKey) *pcom.PeerKeyId {
	s := common.NewZeroCopySink(nil)
	s.WriteVarBytes(keypair.SerializePublicKey(z.PublicKey))
	kid := &pcom.PeerKeyId{}
	if err := kid.Deserialization(common.NewZeroCopySource(s.Bytes())); err != nil {
		return nil
	}
	return kid
}

func drawKey(t *rapid.T, label string) *fix.ZooKey {
	k := rapid.SampledFrom(pubKinds).Draw(t, label+".kind")
	if k == fix.KP224 && rapid.IntRange(0, 3).Draw(t, label+".p224") != 0 {
		k = fix.KP256 // decompressing a P-224 key costs ~8 ms: keep it, but rare
	}
	return fix.Key(k, rapid.IntRange(0, 3).Draw(t, label+".idx"))
}

// cheap signing keys (verification happens inside the decoder, keep it fast)
func drawSignKey(t *rapid.T, label string) *fix.ZooKey {
	kinds := []fix.KeyKind{fix.KP256, fix.KEd25519, fix.KP256, fix.KEd25519, fix.KSM2, fix.KP384, fix.KP521, fix.KP256, fix.KEd25519, fix.KP224}
	var ok []fix.KeyKind
	for _, k := range kinds {
		for _, p := range pubKinds {
			if p == k {
				ok = append(ok, k)
			}
		}
	}
	k := rapid.SampledFrom(ok).Draw(t, label+".kind")
	return fix.Key(k, rapid.IntRange(0, 3).Draw(t, label+".idx"))
}

func pubBytes(z *fix.ZooKey) []byte { return keypair.SerializePublicKey(z.PublicKey) }

// ---------------------------------------------------------------------------------------------
// small generators

func drawHash(t *rapid.T, label string) (h common.Uint256) {
	switch rapid.IntRange(0, 5).Draw(t, label+".mode") {
	case 0:
	case 1:
		for i := range h {
			h[i] = 0xff
		}
	default:
		var s [8]byte
		binary.LittleEndian.PutUint64(s[:], rapid.Uint64().Draw(t, label))
		h = sha256.Sum256(s[:])
	}
	return
}

func drawAddr(t *rapid.T, label string) (a common.Address) {
	h := drawHash(t, label)
	copy(a[:], h[:20])
	return
}

func drawBytes(t *rapid.T, label string, max int) []byte {
	n := 0
	switch rapid.IntRange(0, 9).Draw(t, label+".sz") {
	case 0:
		n = 0
	case 1:
		n = rapid.SampledFrom([]int{0xfc, 0xfd, 0xfe, 0xff, 0x100}).Draw(t, label+".edge") // varuint width edge
	case 2:
		n = rapid.IntRange(0, max).Draw(t, label+".n")
	default:
		n = rapid.IntRange(0, 40).Draw(t, label+".n")
	}
	if n > max {
		n = max
	}
	if n == 0 {
		return nil
	}
	out := make([]byte, n)
	seed := rapid.Uint64().Draw(t, label+".seed")
	var ctr [16]byte
	binary.LittleEndian.PutUint64(ctr[:], seed)
	for i := 0; i < n; i += 32 {
		binary.LittleEndian.PutUint64(ctr[8:], uint64(i))
		h := sha256.Sum256(ctr[:])
		copy(out[i:], h[:])
	}
	return out
}

func drawStr(t *rapid.T, label string, max int) string {
	b := drawBytes(t, label, max)
	if rapid.Bool().Draw(t, label+".ascii") {
		for i := range b {
			b[i] = 'a' + b[i]%26
		}
	}
	return string(b)
}

func drawU64(t *rapid.T, label string) uint64 {
	if rapid.IntRange(0, 2).Draw(t, label+".edge?") == 0 {
		return rapid.SampledFrom([]uint64{0, 1, 0xfc, 0xfd, 0xffff, 0x10000, 0xffffffff, 1 << 32, 1<<63 - 1, 1 << 63, 1<<64 - 1}).Draw(t, label)
	}
	return rapid.Uint64().Draw(t, label)
}

func drawU32(t *rapid.T, label string) uint32 {
	if rapid.IntRange(0, 2).Draw(t, label+".edge?") == 0 {
		return rapid.SampledFrom([]uint32{0, 1, 0xfc, 0xfd, 0xffff, 0x10000, 1<<31 - 1, 1 << 31, 1<<32 - 1}).Draw(t, label)
	}
	return rapid.Uint32().Draw(t, label)
}

func peerIdFrom(b [20]byte) (id pcom.PeerId) {
	_ = id.Deserialization(common.NewZeroCopySource(b[:])) // the only way to give a PeerId an arbitrary value
	return
}

func drawPeerId(t *rapid.T, label string) (pcom.PeerId, [20]byte) {
	a := drawAddr(t, label)
	return peerIdFrom(a), a
}

// ---------------------------------------------------------------------------------------------
// generated message

type gm struct {
	cmd   string
	msg   types.Message
	p     *pb
	size  int  // number of list elements / variable bytes: > 0 makes the case non-trivial
	far   bool // decodes only because of a far-future timestamp (never expires): informational
	descr string
}

// rapid's SampledFrom favours the front of the list: the structured kinds come first.
var allCmds = []string{
	pcom.BLOCK_TYPE, pcom.HEADERS_TYPE, pcom.TX_TYPE, pcom.SUBNET_OFFLINE_TYPE, pcom.ADDR_TYPE, pcom.FINDNODE_RESP_TYPE,
	pcom.CONSENSUS_TYPE, pcom.GET_SUBNET_MEMBERS_TYPE, pcom.SUBNET_MEMBERS_TYPE, pcom.INV_TYPE, pcom.VERSION_TYPE,
	pcom.UPDATE_KADID_TYPE, pcom.GET_HEADERS_TYPE, pcom.GET_BLOCKS_TYPE, pcom.GET_DATA_TYPE, pcom.NOT_FOUND_TYPE,
	pcom.FINDNODE_TYPE, pcom.VERACK_TYPE, pcom.GetADDR_TYPE, pcom.PING_TYPE, pcom.PONG_TYPE,
}

func genMsg(t *rapid.T) gm {
	cmd := rapid.SampledFrom(allCmds).Draw(t, "cmd")
	return genMsgOf(t, cmd)
}

func genMsgOf(t *rapid.T, cmd string) gm {
	g := gm{cmd: cmd, p: &pb{}}
	p := g.p
	switch cmd {
	case pcom.PING_TYPE:
		h := drawU64(t, "height")
		p.u64(h)
		g.msg = &types.Ping{Height: h}
		g.size = 1
	case pcom.PONG_TYPE:
		h := drawU64(t, "height")
		p.u64(h)
		g.msg = &types.Pong{Height: h}
		g.size = 1
	case pcom.VERSION_TYPE:
		v := types.VersionPayload{
			Version: drawU32(t, "version"), Services: drawU64(t, "services"), TimeStamp: int64(drawU64(t, "ts")),
			SyncPort: uint16(drawU32(t, "sync")), HttpInfoPort: uint16(drawU32(t, "http")), ConsPort: uint16(drawU32(t, "cons")),
			Nonce: drawU64(t, "nonce"), StartHeight: drawU64(t, "start"), Relay: uint8(drawU32(t, "relay")),
			IsConsensus: rapid.Bool().Draw(t, "iscons"), SoftVersion: drawStr(t, "soft", 300),
		}
		h := drawHash(t, "cap")
		v.Cap = h
		p.u32(v.Version)
		p.u64(v.Services)
		p.u64(uint64(v.TimeStamp))
		p.u16(v.SyncPort)
		p.u16(v.HttpInfoPort)
		p.u16(v.ConsPort)
		p.raw(v.Cap[:])
		p.u64(v.Nonce)
		p.u64(v.StartHeight)
		p.u8(v.Relay)
		p.boolean(v.IsConsensus)
		p.str("softversion", v.SoftVersion)
		g.msg = &types.Version{P: v}
		g.size = 1 + len(v.SoftVersion)
	case pcom.VERACK_TYPE:
		// the only field is unexported: the message is obtained from its one-byte payload
		b := rapid.Bool().Draw(t, "iscons")
		p.boolean(b)
		m := &types.VerACK{}
		if err := m.Deserialization(common.NewZeroCopySource(p.b)); err != nil {
			t.Fatalf("verack fixture: %v", err)
		}
		g.msg = m
		g.size = 1
	case pcom.ADDR_TYPE:
		n := drawListLen(t, "n", pcom.MAX_ADDR_NODE_CNT)
		m := &types.Addr{}
		p.cnt64("addr.count", uint64(n))
		for i := 0; i < n; i++ {
			h := drawHash(t, "ip")
			a := pcom.PeerAddr{Time: int64(drawU64(t, "time")), Services: drawU64(t, "services"),
				Port: uint16(drawU32(t, "port")), ConsensusPort: uint16(drawU32(t, "cport"))}
			copy(a.IpAddr[:], h[:16])
			id := drawU64(t, "id")
			a.ID = pcom.PseudoPeerIdFromUint64(id)
			m.NodeAddrs = append(m.NodeAddrs, a)
			p.u64(uint64(a.Time))
			p.u64(a.Services)
			p.raw(a.IpAddr[:])
			p.u16(a.Port)
			p.u16(a.ConsensusPort)
			p.u64(id)
		}
		g.msg = m
		g.size = n
	case pcom.GetADDR_TYPE:
		_ = rapid.Bool().Draw(t, "nofields") // a Custom generator must draw something
		g.msg = &types.AddrReq{}
		g.size = 1
	case pcom.GET_HEADERS_TYPE:
		m := &types.HeadersReq{Len: uint8(drawU32(t, "len")), HashStart: drawHash(t, "start"), HashEnd: drawHash(t, "end")}
		p.u8(m.Len)
		p.raw(m.HashStart[:])
		p.raw(m.HashEnd[:])
		g.msg = m
		g.size = 1
	case pcom.GET_BLOCKS_TYPE:
		m := &types.BlocksReq{HeaderHashCount: uint8(drawU32(t, "len")), HashStart: drawHash(t, "start"), HashStop: drawHash(t, "end")}
		p.u8(m.HeaderHashCount)
		p.raw(m.HashStart[:])
		p.raw(m.HashStop[:])
		g.msg = m
		g.size = 1
	case pcom.HEADERS_TYPE:
		n := drawListLen(t, "n", 12)
		m := &types.BlkHeader{}
		p.cnt32("headers.count", uint32(n))
		for i := 0; i < n; i++ {
			q := &pb{}
			h := genHeader(t, q, nil)
			p.sub(q, fmt.Sprintf("hdr%d.", i))
			m.BlkHdr = append(m.BlkHdr, h)
		}
		g.msg = m
		g.size = n
	case pcom.INV_TYPE:
		n := drawListLen(t, "n", pcom.MAX_INV_BLK_CNT)
		m := &types.Inv{}
		m.P.InvType = common.InventoryType(drawU32(t, "type"))
		p.u8(uint8(m.P.InvType))
		p.cnt32("inv.count", uint32(n))
		for i := 0; i < n; i++ {
			h := drawHash(t, "h")
			m.P.Blk = append(m.P.Blk, h)
			p.raw(h[:])
		}
		g.msg = m
		g.size = n
	case pcom.GET_DATA_TYPE:
		m := &types.DataReq{DataType: common.InventoryType(drawU32(t, "type")), Hash: drawHash(t, "h")}
		p.u8(uint8(m.DataType))
		p.raw(m.Hash[:])
		g.msg = m
		g.size = 1
	case pcom.NOT_FOUND_TYPE:
		m := &types.NotFound{Hash: drawHash(t, "h")}
		p.raw(m.Hash[:])
		g.msg = m
		g.size = 1
	case pcom.TX_TYPE:
		q := &pb{}
		tx := genTx(t, q, uint32(rapid.IntRange(0, 1<<20).Draw(t, "nonce")))
		p.sub(q, "tx.")
		g.msg = &types.Trn{Txn: tx}
		g.size = len(q.b)
	case pcom.BLOCK_TYPE:
		ntx := drawListLen(t, "ntx", 4)
		var txs []*ct.Transaction
		var tpbs []*pb
		var hashes []common.Uint256
		for i := 0; i < ntx; i++ {
			q := &pb{}
			tx := genTx(t, q, uint32(i)) // distinct nonces -> distinct hashes
			txs = append(txs, tx)
			tpbs = append(tpbs, q)
			hashes = append(hashes, tx.Hash())
		}
		root := common.ComputeMerkleRoot(hashes)
		q := &pb{}
		hdr := genHeader(t, q, &root)
		p.sub(q, "blk.hdr.")
		p.cnt32("blk.txcount", uint32(ntx))
		for i, q := range tpbs {
			p.sub(q, fmt.Sprintf("blk.tx%d.", i))
		}
		m := &types.Block{Blk: &ct.Block{Header: hdr, Transactions: txs}, MerkleRoot: drawHash(t, "mroot")}
		p.raw(m.MerkleRoot[:])
		has := rapid.IntRange(0, 2).Draw(t, "ccm") > 0
		p.boolean(has)
		if has {
			cc := &ct.CrossChainMsg{Version: uint8(drawU32(t, "ccver")), Height: drawU32(t, "cch"), StatesRoot: drawHash(t, "ccroot")}
			p.u8(cc.Version)
			p.u32(cc.Height)
			p.raw(cc.StatesRoot[:])
			ns := drawListLen(t, "ccsigs", 5)
			p.cntVar("ccmsg.siglen", uint64(ns))
			cc.SigData = [][]byte{}
			for i := 0; i < ns; i++ {
				s := drawBytes(t, "ccsig", 80)
				cc.SigData = append(cc.SigData, s)
				p.varbytes(fmt.Sprintf("ccmsg.sig%d", i), s)
			}
			m.CCMsg = cc
			g.size += ns
		}
		g.msg = m
		g.size += 1 + ntx
	case pcom.CONSENSUS_TYPE:
		k := drawKey(t, "owner")
		c := types.ConsensusPayload{Version: drawU32(t, "ver"), PrevHash: drawHash(t, "prev"), Height: drawU32(t, "h"),
			BookkeeperIndex: uint16(drawU32(t, "bk")), Timestamp: drawU32(t, "ts"), Data: drawBytes(t, "data", 3000),
			Owner: k.PublicKey, Signature: drawBytes(t, "sig", 140)}
		p.u32(c.Version)
		p.raw(c.PrevHash[:])
		p.u32(c.Height)
		p.u16(c.BookkeeperIndex)
		p.u32(c.Timestamp)
		p.varbytes("cons.data", c.Data)
		p.varbytes("cons.owner", pubBytes(k))
		p.varbytes("cons.sig", c.Signature)
		g.msg = &types.Consensus{Cons: c}
		g.size = 1 + len(c.Data)
	case pcom.FINDNODE_TYPE:
		id, raw := drawPeerId(t, "target")
		p.raw(raw[:])
		g.msg = &types.FindNodeReq{TargetID: id}
		g.size = 1
	case pcom.FINDNODE_RESP_TYPE:
		id, raw := drawPeerId(t, "target")
		m := &types.FindNodeResp{TargetID: id, Success: rapid.Bool().Draw(t, "succ"), Address: drawStr(t, "addr", 300)}
		p.raw(raw[:])
		p.boolean(m.Success)
		p.str("resp.addr", m.Address)
		n := drawListLen(t, "n", 20)
		p.cnt32("resp.closer", uint32(n))
		for i := 0; i < n; i++ {
			cid, craw := drawPeerId(t, "cid")
			a := drawStr(t, "caddr", 60)
			m.CloserPeers = append(m.CloserPeers, pcom.PeerIDAddressPair{ID: cid, Address: a})
			p.raw(craw[:])
			p.str(fmt.Sprintf("resp.closer%d.addr", i), a)
		}
		g.msg = m
		g.size = n + len(m.Address)
	case pcom.UPDATE_KADID_TYPE:
		i := rapid.IntRange(0, len(powKeys)-1).Draw(t, "key")
		p.varbytes("kad.key", pubBytes(powKeys[i]))
		g.msg = &types.UpdatePeerKeyId{KadKeyId: powKeyIds[i]}
		g.size = 1
	case pcom.GET_SUBNET_MEMBERS_TYPE:
		from, fraw := drawPeerId(t, "from")
		to, traw := drawPeerId(t, "to")
		m := &types.SubnetMembersRequest{From: from, To: to}
		p.raw(fraw[:])
		p.raw(traw[:])
		if rapid.IntRange(0, 3).Draw(t, "seed") == 0 {
			p.u32(0)
			g.size = 1
		} else {
			// far-future timestamps: the decoder's one-hour freshness window compares with the wall
			// clock; a timestamp near 2^32 never expires, so the case does not depend on the clock.
			m.Timestamp = 0xffffffff - uint32(rapid.IntRange(0, 1000).Draw(t, "ts"))
			k := drawSignKey(t, "key")
			m.PubKey = k.PublicKey
			p.u32(m.Timestamp)
			sig, err := signature.Sign(k.Account, p.b) // sigdata = from ‖ to ‖ timestamp = the payload so far
			if err != nil {
				t.Fatalf("sign: %v", err)
			}
			m.Sig = sig
			p.varbytes("req.key", pubBytes(k))
			p.varbytes("req.sig", sig)
			g.size = 2
			g.far = true
		}
		g.msg = m
	case pcom.SUBNET_MEMBERS_TYPE:
		n := drawListLen(t, "n", 30)
		m := &types.SubnetMembers{}
		p.cnt32("members.count", uint32(n))
		for i := 0; i < n; i++ {
			mi := types.MemberInfo{PubKey: drawStr(t, "pk", 70), Addr: drawStr(t, "addr", 40)}
			m.Members = append(m.Members, mi)
			p.str(fmt.Sprintf("members%d.pk", i), mi.PubKey)
			p.str(fmt.Sprintf("members%d.addr", i), mi.Addr)
		}
		g.msg = m
		g.size = n
	case pcom.SUBNET_OFFLINE_TYPE:
		m := &types.OfflineWitnessMsg{Timestamp: drawU32(t, "ts"), View: drawU32(t, "view")}
		nk := drawListLen(t, "nkeys", 8)
		p.u32(m.Timestamp)
		p.u32(m.View)
		p.cnt32("offline.keys", uint32(nk))
		for i := 0; i < nk; i++ {
			s := drawStr(t, "nodekey", 70)
			m.NodePubKeys = append(m.NodePubKeys, s)
			p.str(fmt.Sprintf("offline.key%d", i), s)
		}
		prop := drawSignKey(t, "proposer")
		m.Proposer = hex.EncodeToString(pubBytes(prop))
		p.str("offline.proposer", m.Proposer)
		unsigned := append([]byte{}, p.b...)
		uh := sha256.Sum256(unsigned)
		sig, err := signature.Sign(prop.Account, uh[:])
		if err != nil {
			t.Fatalf("sign: %v", err)
		}
		m.ProposerSig = sig
		p.varbytes("offline.propsig", sig)
		nv := 0
		if nk > 0 {
			nv = drawListLen(t, "nvoters", 3)
		} else if rapid.Bool().Draw(t, "emptyvote") {
			nv = 1 // a voter with an empty index list is valid without node keys
		}
		p.cnt32("offline.voters", uint32(nv))
		for i := 0; i < nv; i++ {
			var idx []uint8
			if nk > 0 {
				for j := rapid.IntRange(0, 4).Draw(t, "nidx"); j > 0; j-- {
					idx = append(idx, uint8(rapid.IntRange(0, nk-1).Draw(t, "idx")))
				}
			}
			vk := drawSignKey(t, "voter")
			vd := sha256.Sum256(append(append([]byte{}, unsigned...), append(refVarUint(uint64(len(idx))), idx...)...))
			vs, err := signature.Sign(vk.Account, vd[:])
			if err != nil {
				t.Fatalf("sign: %v", err)
			}
			v := types.VoterMsg{OfflineIndex: idx, PubKey: hex.EncodeToString(pubBytes(vk)), Sig: vs}
			m.Voters = append(m.Voters, v)
			p.varbytes(fmt.Sprintf("offline.voter%d.idx", i), idx)
			p.str(fmt.Sprintf("offline.voter%d.key", i), v.PubKey)
			p.varbytes(fmt.Sprintf("offline.voter%d.sig", i), vs)
		}
		g.msg = m
		g.size = 1 + nk + nv
	default:
		panic("unknown cmd " + cmd)
	}
	g.descr = fmt.Sprintf("%s size=%d payload=%d sha=%x", cmd, g.size, len(p.b), sha256.Sum256(p.b))[:0] // set below
	g.descr = fmt.Sprintf("%s size=%d payload[%d]=%s", cmd, g.size, len(p.b), shortHex(p.b))
	return g
}

func shortHex(b []byte) string {
	if len(b) <= 64 {
		return hex.EncodeToString(b)
	}
	h := sha256.Sum256(b)
	return hex.EncodeToString(b[:40]) + "…sha256:" + hex.EncodeToString(h[:8])
}

// drawListLen favours 0, 1, the maximum and small values.
func drawListLen(t *rapid.T, label string, max int) int {
	switch rapid.IntRange(0, 7).Draw(t, label+".mode") {
	case 0:
		return 0
	case 1:
		return max
	case 2:
		return rapid.IntRange(0, max).Draw(t, label)
	default:
		m := 4
		if m > max {
			m = max
		}
		return rapid.IntRange(1, m).Draw(t, label)
	}
}

// genHeader writes a block header with the reference encoder and returns the equal struct.
func genHeader(t *rapid.T, p *pb, txRoot *common.Uint256) *ct.Header {
	h := &ct.Header{Version: drawU32(t, "hver"), PrevBlockHash: drawHash(t, "prev"), TransactionsRoot: drawHash(t, "txroot"),
		BlockRoot: drawHash(t, "blockroot"), Timestamp: drawU32(t, "hts"), Height: drawU32(t, "height"),
		ConsensusData: drawU64(t, "consdata"), ConsensusPayload: drawBytes(t, "conspayload", 400), NextBookkeeper: drawAddr(t, "nextbk")}
	if txRoot != nil {
		h.TransactionsRoot = *txRoot
	}
	p.u32(h.Version)
	p.raw(h.PrevBlockHash[:])
	p.raw(h.TransactionsRoot[:])
	p.raw(h.BlockRoot[:])
	p.u32(h.Timestamp)
	p.u32(h.Height)
	p.u64(h.ConsensusData)
	p.varbytes("conspayload", h.ConsensusPayload)
	p.raw(h.NextBookkeeper[:])
	nb := drawListLen(t, "nbk", 4)
	p.cntVar("bookkeepers", uint64(nb))
	for i := 0; i < nb; i++ {
		k := drawKey(t, "bk")
		h.Bookkeepers = append(h.Bookkeepers, k.PublicKey)
		p.varbytes(fmt.Sprintf("bk%d", i), pubBytes(k))
	}
	ns := drawListLen(t, "nsig", 4)
	p.cntVar("sigs", uint64(ns))
	for i := 0; i < ns; i++ {
		s := drawBytes(t, "sig", 80)
		h.SigData = append(h.SigData, s)
		p.varbytes(fmt.Sprintf("sig%d", i), s)
	}
	return h
}

// genTx writes a transaction (invoke neo/wasm, deploy, EIP-155) with the reference encoder and
// returns the Transaction obtained from exactly those bytes.
func genTx(t *rapid.T, p *pb, nonce uint32) *ct.Transaction {
	kind := rapid.IntRange(0, 3).Draw(t, "txkind")
	if kind == 3 {
		k := fix.Key(fix.KEth, rapid.IntRange(0, 2).Draw(t, "ethkey"))
		var to *ethcomm.Address
		if rapid.Bool().Draw(t, "hasto") {
			a := ethcomm.Address(drawAddr(t, "to"))
			to = &a
		}
		price := new(big.Int).Mul(big.NewInt(int64(rapid.IntRange(0, 5000).Draw(t, "gwei"))), big.NewInt(constants.GWei))
		var etx *ethtypes.Transaction
		if to != nil {
			etx = ethtypes.NewTransaction(uint64(nonce), *to, big.NewInt(int64(rapid.IntRange(0, 1<<40).Draw(t, "value"))),
				uint64(rapid.IntRange(0, 1<<30).Draw(t, "gas")), price, drawBytes(t, "data", 300))
		} else {
			etx = ethtypes.NewContractCreation(uint64(nonce), big.NewInt(int64(rapid.IntRange(0, 1<<40).Draw(t, "value"))),
				uint64(rapid.IntRange(0, 1<<30).Draw(t, "gas")), price, drawBytes(t, "data", 300))
		}
		signed, err := ethtypes.SignTx(etx, ethtypes.NewEIP155Signer(big.NewInt(int64(config.DefConfig.P2PNode.EVMChainId))), k.EthECDSA())
		if err != nil {
			t.Fatalf("eth sign: %v", err)
		}
		enc, err := rlp.EncodeToBytes(signed)
		if err != nil {
			t.Fatalf("rlp: %v", err)
		}
		p.u8(0)
		p.u8(byte(ct.EIP155))
		p.varbytes("eip155.rlp", enc)
	} else {
		p.u8(0)
		p.u8([]byte{byte(ct.InvokeNeo), byte(ct.InvokeWasm), byte(ct.Deploy)}[kind])
		p.u32(nonce)
		p.u64(drawU64(t, "gasprice"))
		p.u64(drawU64(t, "gaslimit"))
		a := drawAddr(t, "payer")
		p.raw(a[:])
		if kind == 2 {
			p.varbytes("deploy.code", drawBytes(t, "code", 600))
			p.u8(rapid.SampledFrom([]uint8{0, 1, 3}).Draw(t, "vmflags"))
			p.str("deploy.name", drawStr(t, "name", 252))
			p.str("deploy.version", drawStr(t, "cver", 252))
			p.str("deploy.author", drawStr(t, "author", 252))
			p.str("deploy.email", drawStr(t, "email", 252))
			p.str("deploy.desc", drawStr(t, "desc", 700))
		} else {
			p.varbytes("invoke.code", drawBytes(t, "code", 600))
		}
		p.cntVar("attrs", 0)
		ns := drawListLen(t, "nsigs", 3)
		p.cntVar("sigcount", uint64(ns))
		for i := 0; i < ns; i++ {
			p.varbytes(fmt.Sprintf("sig%d.invoke", i), drawBytes(t, "invoke", 140))
			p.varbytes(fmt.Sprintf("sig%d.verify", i), drawBytes(t, "verify", 80))
		}
	}
	tx, err := ct.TransactionFromRawBytes(append([]byte{}, p.b...))
	if err != nil {
		t.Fatalf("harness: generated transaction %x does not decode: %v", p.b, err)
	}
	return tx
}

// ---------------------------------------------------------------------------------------------
// canonical text of a message (exported fields; keys by their serialization)

func hx(b []byte) string { return hex.EncodeToString(b) }

func canonKey(k keypair.PublicKey) string {
	if k == nil {
		return "nil"
	}
	return hx(keypair.SerializePublicKey(k))
}

func canonHeader(h *ct.Header) string {
	var sb strings.Builder
	fmt.Fprintf(&sb, "hdr{v=%d prev=%x txroot=%x blockroot=%x ts=%d h=%d cd=%d cp=%x next=%x bk=[", h.Version, h.PrevBlockHash[:],
		h.TransactionsRoot[:], h.BlockRoot[:], h.Timestamp, h.Height, h.ConsensusData, h.ConsensusPayload, h.NextBookkeeper[:])
	for _, k := range h.Bookkeepers {
		sb.WriteString(canonKey(k) + ",")
	}
	sb.WriteString("] sigs=[")
	for _, s := range h.SigData {
		sb.WriteString(hx(s) + ",")
	}
	sb.WriteString("]}")
	return sb.String()
}

func canonTx(tx *ct.Transaction) string {
	if tx == nil {
		return "tx{nil}"
	}
	var sb strings.Builder
	fmt.Fprintf(&sb, "tx{v=%d type=%x nonce=%d price=%d limit=%d payer=%x ", tx.Version, byte(tx.TxType), tx.Nonce, tx.GasPrice, tx.GasLimit, tx.Payer[:])
	switch pl := tx.Payload.(type) {
	case *payload.InvokeCode:
		fmt.Fprintf(&sb, "invoke=%x", pl.Code)
	case *payload.DeployCode:
		fmt.Fprintf(&sb, "deploy=%x/%d/%q/%q/%q/%q/%q", pl.GetRawCode(), pl.VmType(), pl.Name, pl.Version, pl.Author, pl.Email, pl.Description)
	case *payload.EIP155Code:
		fmt.Fprintf(&sb, "eip155=%x", pl.EIPTx.Hash())
	default:
		fmt.Fprintf(&sb, "payload=%T", pl)
	}
	sb.WriteString(" sigs=[")
	for _, s := range tx.Sigs {
		fmt.Fprintf(&sb, "%x/%x,", s.Invoke, s.Verify)
	}
	h := tx.Hash()
	fmt.Fprintf(&sb, "] raw=%x hash=%x}", tx.Raw, h[:])
	return sb.String()
}

func canon(m types.Message) string {
	switch v := m.(type) {
	case *types.Ping:
		return fmt.Sprintf("ping{%d}", v.Height)
	case *types.Pong:
		return fmt.Sprintf("pong{%d}", v.Height)
	case *types.Version:
		return fmt.Sprintf("version{%+v}", v.P)
	case *types.VerACK:
		s := common.NewZeroCopySink(nil)
		v.Serialization(s)
		return fmt.Sprintf("verack{%x}", s.Bytes())
	case *types.Addr:
		var sb strings.Builder
		sb.WriteString("addr{")
		for _, a := range v.NodeAddrs {
			fmt.Fprintf(&sb, "(%d %d %x %d %d %s)", a.Time, a.Services, a.IpAddr[:], a.Port, a.ConsensusPort, a.ID.ToHexString())
		}
		return sb.String() + "}"
	case *types.AddrReq:
		return "getaddr{}"
	case *types.HeadersReq:
		return fmt.Sprintf("getheaders{%d %x %x}", v.Len, v.HashStart[:], v.HashEnd[:])
	case *types.BlocksReq:
		return fmt.Sprintf("getblocks{%d %x %x}", v.HeaderHashCount, v.HashStart[:], v.HashStop[:])
	case *types.BlkHeader:
		var sb strings.Builder
		sb.WriteString("headers{")
		for _, h := range v.BlkHdr {
			sb.WriteString(canonHeader(h))
		}
		return sb.String() + "}"
	case *types.Inv:
		var sb strings.Builder
		fmt.Fprintf(&sb, "inv{%d", v.P.InvType)
		for _, h := range v.P.Blk {
			fmt.Fprintf(&sb, " %x", h[:])
		}
		return sb.String() + "}"
	case *types.DataReq:
		return fmt.Sprintf("getdata{%d %x}", v.DataType, v.Hash[:])
	case *types.NotFound:
		return fmt.Sprintf("notfound{%x}", v.Hash[:])
	case *types.Trn:
		return "tx{" + canonTx(v.Txn) + "}"
	case *types.Block:
		var sb strings.Builder
		sb.WriteString("block{")
		if v.Blk != nil && v.Blk.Header != nil {
			sb.WriteString(canonHeader(v.Blk.Header))
			for _, tx := range v.Blk.Transactions {
				sb.WriteString(canonTx(tx))
			}
		}
		fmt.Fprintf(&sb, " mroot=%x", v.MerkleRoot[:])
		if v.CCMsg != nil {
			fmt.Fprintf(&sb, " cc{%d %d %x", v.CCMsg.Version, v.CCMsg.Height, v.CCMsg.StatesRoot[:])
			for _, s := range v.CCMsg.SigData {
				fmt.Fprintf(&sb, " %x,", s)
			}
			sb.WriteString("}")
		}
		return sb.String() + "}"
	case *types.Consensus:
		c := v.Cons
		return fmt.Sprintf("consensus{%d %x %d %d %d %x %s %x}", c.Version, c.PrevHash[:], c.Height, c.BookkeeperIndex, c.Timestamp, c.Data, canonKey(c.Owner), c.Signature)
	case *types.FindNodeReq:
		return "findnode{" + v.TargetID.ToHexString() + "}"
	case *types.FindNodeResp:
		var sb strings.Builder
		fmt.Fprintf(&sb, "findnodeack{%s %v %q", v.TargetID.ToHexString(), v.Success, v.Address)
		for _, c := range v.CloserPeers {
			fmt.Fprintf(&sb, " (%s %q)", c.ID.ToHexString(), c.Address)
		}
		return sb.String() + "}"
	case *types.UpdatePeerKeyId:
		if v.KadKeyId == nil {
			return "updatekadid{nil}"
		}
		return fmt.Sprintf("updatekadid{%s %s}", canonKey(v.KadKeyId.PublicKey), v.KadKeyId.Id.ToHexString())
	case *types.SubnetMembersRequest:
		return fmt.Sprintf("getmembers{%s %s %d %s %x}", v.From.ToHexString(), v.To.ToHexString(), v.Timestamp, canonKey(v.PubKey), v.Sig)
	case *types.SubnetMembers:
		var sb strings.Builder
		sb.WriteString("members{")
		for _, m := range v.Members {
			fmt.Fprintf(&sb, "(%q %q)", m.PubKey, m.Addr)
		}
		return sb.String() + "}"
	case *types.OfflineWitnessMsg:
		var sb strings.Builder
		fmt.Fprintf(&sb, "offline{%d %d %q %q %x", v.Timestamp, v.View, v.NodePubKeys, v.Proposer, v.ProposerSig)
		for _, x := range v.Voters {
			fmt.Fprintf(&sb, " (%v %q %x)", x.OfflineIndex, x.PubKey, x.Sig)
		}
		return sb.String() + "}"
	case *types.UnknownMessage:
		return fmt.Sprintf("unknown{%q %x}", v.Cmd, v.Payload)
	default:
		return fmt.Sprintf("?%T", m)
	}
}
