package gov

// Independent release model of C11 ("nobody withdraws more than it deposited AND has unfrozen").
//
// Maintained only from the arguments of the calls the harness made that succeeded — never from the
// contract's AuthorizeInfo records. Per (address, peer):
//   staked   = ONT the address put on the peer (authorizeForPeer; for the owner registerCandidate InitPos,
//              addInitPos, the genesis InitPos) that has not been released yet
//   released = upper bound of what may ever have become withdrawable: amounts successfully un-authorized
//              (owner: reduceInitPos), and the whole remaining stake once the peer exits (quitNode / blackNode /
//              unRegisterCandidate succeeded; penalties only reduce what is really released)
//   taken    = amounts of the successful withdraw calls
// Derivation from the contract: WithdrawUnfreezePos of a pair only grows in UnAuthorizeForPeer (by pos in total: the
// NewPos part at once, the rest via WithdrawConsensusPos/WithdrawCandidatePos at the next epochs), ReduceInitPos (pos),
// normalQuit (everything, + InitPos for the owner), blackQuit (everything minus the penalty), UnRegisterCandidate /
// RejectCandidate (InitPos). Epoch changes, incl. consensus<->candidate demotion, only move ConsensusPos<->CandidatePos
// and WithdrawConsensusPos -> WithdrawCandidatePos -> WithdrawUnfreezePos; they release nothing new. Releasing at
// call time (ignoring the 1-2 epochs of freezing, and counting an exit when quitNode/blackNode succeeds rather than
// when the epoch change removes the peer) only enlarges the bound, so it is sound.

import (
	"strings"

	"github.com/ontio/ontology/common"
)

type pairKey struct {
	ad  common.Address
	pub string
}

// modelOp is the model-relevant content of an action (filled by the constructors from the arguments).
type modelOp struct {
	op     string // deposit | unauth | reduce | exit | withdraw | minpos
	ad     common.Address
	pubs   []string
	amts   []uint64
	minPos uint64
}

type model struct {
	staked, released, taken map[pairKey]uint64
	minPos                  uint64 // MinAuthorizePos as set by the successful updateGlobalParam2 calls (default 500)
}

func newModel(w *world) *model {
	m := &model{staked: map[pairKey]uint64{}, released: map[pairKey]uint64{}, taken: map[pairKey]uint64{}, minPos: 500}
	for _, nd := range w.nodes {
		if nd.genesis {
			m.staked[pairKey{nd.defOwner, nd.pub}] = w.genesisPos
		}
	}
	return m
}

func lowerAll(pubs []string) []string {
	out := make([]string, len(pubs))
	for i, p := range pubs {
		out[i] = strings.ToLower(p)
	}
	return out
}

func u64s(v []uint32) []uint64 {
	out := make([]uint64, len(v))
	for i, x := range v {
		out[i] = uint64(x)
	}
	return out
}

// apply updates the model with one successful call.
func (m *model) apply(o *modelOp) {
	if o == nil {
		return
	}
	for i, pub := range o.pubs {
		k := pairKey{o.ad, pub}
		var amt uint64
		if i < len(o.amts) {
			amt = o.amts[i]
		}
		switch o.op {
		case "deposit":
			m.staked[k] += amt
		case "unauth", "reduce":
			st := m.staked[k]
			r := amt
			if o.op == "unauth" && st < m.minPos {
				r = st // the contract redeems the whole remainder when it is below MinAuthorizePos
			}
			if r > st {
				r = st
			}
			m.staked[k] = st - r
			m.released[k] += r
		case "withdraw":
			m.taken[k] += amt
		case "exit":
			for k2, st := range m.staked { // order-independent: every pair of the peer is settled the same way
				if k2.pub == pub && st > 0 {
					m.released[k2] += st
					m.staked[k2] = 0
				}
			}
		}
	}
	if o.op == "minpos" {
		m.minPos = o.minPos
	}
}

func (m *model) releasedOf(ad common.Address) uint64 {
	var s uint64
	for k, v := range m.released {
		if k.ad == ad {
			s += v
		}
	}
	return s
}
