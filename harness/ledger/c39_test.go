package ledger

// C39 Invalid blocks are rejected without changing the ledger.
//
// On a solo chain with a generated prefix, a valid next block is built and every single-field
// mutation named by the property is applied to it, in two flavours: left with the now-invalid
// signature (outsider) and re-signed by the legitimate bookkeeper (malicious producer). Each
// mutant is delivered the way a node receives blocks (bytes -> BlockFromRawBytes -> AddBlock) and
// through the consensus path (ExecuteBlock + SubmitBlock). Oracle: an error is returned (or, for
// the documented "height <= current => nil" case, nothing happens) and every observable of the
// ledger plus a logical dump of its three LevelDBs and the merkle file is unchanged; afterwards the
// unmutated block is accepted and produces the state a twin that never saw the mutants has.

import (
	"bytes"
	"crypto/sha256"
	"fmt"
	"os"
	"path/filepath"
	"sort"
	"testing"

	"github.com/ontio/ontology-crypto/keypair"
	"github.com/ontio/ontology/common"
	"github.com/ontio/ontology/core/signature"
	"github.com/ontio/ontology/core/store/ledgerstore"
	"github.com/ontio/ontology/core/types"
	nutils "github.com/ontio/ontology/smartcontract/service/native/utils"
	"github.com/syndtr/goleveldb/leveldb"
	"github.com/syndtr/goleveldb/leveldb/opt"
	"pgregory.net/rapid"

	"verifharness/internal/fix"
	"verifharness/internal/harn"
)

// dumpLedgerDir returns a digest of the logical content (all key/value pairs) of the block, state
// and event stores and of the merkle hash file of a CLOSED ledger directory.
func dumpLedgerDir(dir string) (string, error) {
	m, err := dumpLedgerMap(dir)
	if err != nil {
		return "", err
	}
	keys := make([]string, 0, len(m))
	for k := range m {
		keys = append(keys, k)
	}
	sort.Strings(keys)
	h := sha256.New()
	for _, k := range keys {
		fmt.Fprintf(h, "%s=%s\n", k, m[k])
	}
	return fmt.Sprintf("%x", h.Sum(nil)), nil
}

// dumpDiff lists the keys whose values differ between two closed ledger directories' dumps.
func dumpDiff(a, b map[string]string) []string {
	var out []string
	for k, v := range a {
		if w, ok := b[k]; !ok {
			out = append(out, "removed "+k)
		} else if w != v {
			out = append(out, "changed "+k+": "+v+" -> "+w)
		}
	}
	for k, w := range b {
		if _, ok := a[k]; !ok {
			out = append(out, "added "+k+"="+w)
		}
	}
	sort.Strings(out)
	return out
}

func dumpLedgerMap(dir string) (map[string]string, error) {
	out := map[string]string{}
	for _, sub := range []string{ledgerstore.DBDirBlock, ledgerstore.DBDirState, ledgerstore.DBDirEvent} {
		db, err := leveldb.OpenFile(filepath.Join(dir, sub), &opt.Options{ErrorIfMissing: true})
		if err != nil {
			return nil, fmt.Errorf("open %s: %v", sub, err)
		}
		it := db.NewIterator(nil, nil)
		for it.Next() {
			out[fmt.Sprintf("%s|%x", sub, it.Key())] = fmt.Sprintf("%x", it.Value())
		}
		it.Release()
		db.Close()
	}
	b, err := os.ReadFile(filepath.Join(dir, ledgerstore.MerkleTreeStorePath))
	if err != nil && !os.IsNotExist(err) {
		return nil, err
	}
	out["merkle-file"] = fmt.Sprintf("%d bytes %x", len(b), sha256.Sum256(b))
	return out, nil
}

type c39Obs struct {
	Height, HeaderHeight uint32
	Hash, StateRoot, BR  string
	Bal                  []string
	Blocks               []string
	Headers              []string // header-level queries up to the header tip (synced headers included)
}

func c39Observe(ls *ledgerstore.LedgerStoreImp, accts []common.Address) (c39Obs, error) {
	var o c39Obs
	o.Height = ls.GetCurrentBlockHeight()
	o.HeaderHeight = ls.GetCurrentHeaderHeight()
	ch := ls.GetCurrentBlockHash()
	o.Hash = ch.ToHexString()
	sr, err := ls.GetStateMerkleRoot(o.Height)
	if err != nil {
		return o, err
	}
	o.StateRoot = sr.ToHexString()
	br := ls.GetBlockRootWithNewTxRoots(o.Height+1, []common.Uint256{{9, 9}})
	o.BR = br.ToHexString()
	for _, a := range accts {
		for _, tok := range []common.Address{nutils.OntContractAddress, nutils.OngContractAddress} {
			v, _ := ls.GetStorageItem(tok, a[:])
			o.Bal = append(o.Bal, fmt.Sprintf("%x", v))
		}
	}
	for h := uint32(0); h <= o.Height+2; h++ {
		b, err := ls.GetBlockByHeight(h)
		if err != nil || b == nil {
			o.Blocks = append(o.Blocks, "none")
			continue
		}
		o.Blocks = append(o.Blocks, fmt.Sprintf("%x", sha256.Sum256(b.ToArray())))
	}
	// headers by height and by hash, up to and one above the header tip: a synced header stays servable
	for h := uint32(0); h <= o.HeaderHeight+1; h++ {
		hh := ls.GetBlockHash(h)
		hd, err := ls.GetHeaderByHeight(h)
		if err != nil || hd == nil {
			o.Headers = append(o.Headers, fmt.Sprintf("%d:%x:none", h, hh[:4]))
			continue
		}
		hd2, err2 := ls.GetHeaderByHash(hd.Hash())
		o.Headers = append(o.Headers, fmt.Sprintf("%d:%x:%x:byhash=%v", h, hh[:4], sha256.Sum256(hd.ToArray()), err2 == nil && hd2 != nil && hd2.Hash() == hd.Hash()))
	}
	return o, nil
}

type c39Mutant struct {
	name     string
	resigned bool
	viaBytes bool // deliver bytes (p2p) — required for tx-list mutants whose check lives in the decoder
	mustErr  bool // false only for the documented height<=current no-op
	raw      []byte
	blk      *types.Block
	stateRoot *common.Uint256 // override of the state root passed to AddBlock
}

func cloneHeader(h *types.Header) *types.Header { return fix.RehashHeader(h) }

func TestC39_InvalidBlocksRejected(t *testing.T) {
	ev := harn.For("C39").Rule("solo chain with a generated prefix of 1-4 blocks of ONT/ONG transfers, a valid next block with 0-3 transfers, then EVERY single-field mutation named by the property (height -1/+1/+2, prev hash random / grand-parent / self, timestamp = and < parent, block root flipped, tx root flipped, tx list reordered/dropped/duplicated/foreign with stale root, signature removed/corrupted/by foreign key, bookkeeper replaced/duplicated, wrong state root) x {outsider: signature left stale, producer: re-signed by the legitimate bookkeeper} x {bytes->BlockFromRawBytes->AddBlock, ExecuteBlock+SubmitBlock, AddBlock after the VALID header of that height was synced with AddHeaders}; every mutant is non-trivial; distinct by (prefix plan, mutation, flavour, path)").
		Assume("blocks reach AddBlock only through BlockFromRawBytes/Block.Deserialization (p2p and consensus intake), where the transaction-root and duplicate checks live")
	bk := fix.Key(fix.KP256, 0)
	foreign := fix.Key(fix.KP256, 7)
	users := []*fix.ZooKey{bk, fix.Key(fix.KP256, 1), fix.Key(fix.KP256, 2)}
	var accts []common.Address
	for _, u := range users {
		accts = append(accts, u.Address)
	}
	harn.Check(t, 10, 400, func(t *rapid.T) {
		base, err := os.MkdirTemp("", "c39-")
		if err != nil {
			t.Fatal(err)
		}
		defer os.RemoveAll(base)
		ch, err := fix.NewSolo(filepath.Join(base, "a"), bk)
		if err != nil {
			t.Fatal(err)
		}
		defer ch.Close()
		genTxs := func(n int, first bool) []*types.Transaction {
			var txs []*types.Transaction
			for j := 0; j < n; j++ {
				from := 0
				if !first {
					from = rapid.IntRange(0, 2).Draw(t, "from")
				}
				tok := nutils.OntContractAddress
				if rapid.Bool().Draw(t, "ong") {
					tok = nutils.OngContractAddress
				}
				tx, err := ch.Transfer(tok, users[from], users[rapid.IntRange(0, 2).Draw(t, "to")].Address,
					rapid.Uint64Range(0, 5000).Draw(t, "amt"), 0, 20000)
				if err != nil {
					t.Fatal(err)
				}
				txs = append(txs, tx)
			}
			return txs
		}
		nPrefix := rapid.IntRange(1, 4).Draw(t, "prefix")
		var plan []int
		for i := 0; i < nPrefix; i++ {
			n := rapid.IntRange(0, 3).Draw(t, "ntx")
			if i == 0 && n == 0 {
				n = 1
			}
			plan = append(plan, n)
			if _, _, err := ch.AddTxs(genTxs(n, i == 0)); err != nil {
				t.Fatalf("prefix block rejected: %v", err)
			}
		}
		nNext := rapid.IntRange(0, 3).Draw(t, "nnext")
		nextTxs := genTxs(nNext, false)
		good, err := ch.MakeBlock(nextTxs, 0)
		if err != nil {
			t.Fatal(err)
		}
		goodRes, err := ch.LS.ExecuteBlock(good)
		if err != nil {
			t.Fatalf("valid next block does not execute: %v", err)
		}
		height := ch.LS.GetCurrentBlockHeight()
		parent, _ := ch.LS.GetHeaderByHash(ch.LS.GetCurrentBlockHash())
		var grand *types.Header
		if height >= 1 {
			grand, _ = ch.LS.GetHeaderByHeight(height - 1)
		}
		extraTx, err := ch.Transfer(nutils.OntContractAddress, bk, users[1].Address, 1, 0, 20000)
		if err != nil {
			t.Fatal(err)
		}

		// ---- build mutants
		var muts []c39Mutant
		sign := func(h *types.Header, by *fix.ZooKey, bookkeepers []keypair.PublicKey) *types.Header {
			n := cloneHeader(h)
			n.Bookkeepers, n.SigData = nil, nil
			n = cloneHeader(n)
			hash := n.Hash()
			sig, err := signature.Sign(by, hash[:])
			if err != nil {
				t.Fatal(err)
			}
			n.Bookkeepers = bookkeepers
			n.SigData = [][]byte{sig}
			for len(n.SigData) < len(bookkeepers) {
				n.SigData = append(n.SigData, sig)
			}
			return n
		}
		legit := []keypair.PublicKey{bk.PublicKey}
		addHeaderMut := func(name string, mustErr bool, f func(h *types.Header)) {
			for _, resign := range []bool{false, true} {
				h := cloneHeader(good.Header)
				f(h)
				h = cloneHeader(h) // drop cached hash
				if resign {
					h = sign(h, bk, legit)
				}
				muts = append(muts, c39Mutant{name: name, resigned: resign, mustErr: mustErr || !resign && false,
					blk: &types.Block{Header: h, Transactions: good.Transactions}})
			}
		}
		addHeaderMut("height+1", true, func(h *types.Header) { h.Height++ })
		addHeaderMut("height+2", true, func(h *types.Header) { h.Height += 2 })
		addHeaderMut("height-1(=current, documented no-op)", false, func(h *types.Header) { h.Height-- })
		addHeaderMut("prev=random", true, func(h *types.Header) { h.PrevBlockHash = common.Uint256(sha256.Sum256(h.PrevBlockHash[:])) })
		if grand != nil {
			addHeaderMut("prev=grandparent", true, func(h *types.Header) { h.PrevBlockHash = grand.Hash() })
		}
		addHeaderMut("prev=zero", true, func(h *types.Header) { h.PrevBlockHash = common.UINT256_EMPTY })
		addHeaderMut("timestamp=parent", true, func(h *types.Header) { h.Timestamp = parent.Timestamp })
		addHeaderMut("timestamp<parent", true, func(h *types.Header) { h.Timestamp = parent.Timestamp - 1 })
		addHeaderMut("timestamp=0", true, func(h *types.Header) { h.Timestamp = 0 })
		addHeaderMut("blockroot flipped", true, func(h *types.Header) { h.BlockRoot[rapid.IntRange(0, 31).Draw(t, "bri")] ^= 1 << uint(rapid.IntRange(0, 7).Draw(t, "brb")) })
		addHeaderMut("blockroot=zero", true, func(h *types.Header) { h.BlockRoot = common.UINT256_EMPTY })
		// tx root / tx list mutants: the check lives in the decoder, so they are delivered as bytes only
		addTxMut := func(name string, f func(b *types.Block)) {
			for _, resign := range []bool{false, true} {
				b := &types.Block{Header: cloneHeader(good.Header), Transactions: append([]*types.Transaction{}, good.Transactions...)}
				f(b)
				b.Header = cloneHeader(b.Header)
				if resign {
					b.Header = sign(b.Header, bk, legit)
				}
				muts = append(muts, c39Mutant{name: name, resigned: resign, viaBytes: true, mustErr: true, blk: b})
			}
		}
		addTxMut("txroot flipped", func(b *types.Block) { b.Header.TransactionsRoot[rapid.IntRange(0, 31).Draw(t, "tri")] ^= 0x80 })
		addTxMut("tx appended, stale root", func(b *types.Block) { b.Transactions = append(b.Transactions, extraTx) })
		if len(good.Transactions) >= 1 {
			addTxMut("tx dropped, stale root", func(b *types.Block) { b.Transactions = b.Transactions[1:] })
			addTxMut("tx duplicated, stale root", func(b *types.Block) { b.Transactions = append(b.Transactions, b.Transactions[0]) })
			addTxMut("tx replaced, stale root", func(b *types.Block) { b.Transactions[0] = extraTx })
		}
		if len(good.Transactions) >= 2 {
			addTxMut("tx reordered, stale root", func(b *types.Block) {
				b.Transactions[0], b.Transactions[1] = b.Transactions[1], b.Transactions[0]
			})
		}
		// signature mutants
		addSigMut := func(name string, f func(h *types.Header) *types.Header) {
			h := f(cloneHeader(good.Header))
			muts = append(muts, c39Mutant{name: name, mustErr: true, blk: &types.Block{Header: h, Transactions: good.Transactions}})
		}
		addSigMut("signature removed", func(h *types.Header) *types.Header { h.SigData = nil; return h })
		addSigMut("signatures and bookkeepers removed", func(h *types.Header) *types.Header { h.SigData, h.Bookkeepers = nil, nil; return h })
		addSigMut("signature corrupted", func(h *types.Header) *types.Header {
			s := append([]byte{}, h.SigData[0]...)
			s[rapid.IntRange(1, len(s)-1).Draw(t, "sigi")] ^= 1 << uint(rapid.IntRange(0, 7).Draw(t, "sigb"))
			h.SigData = [][]byte{s}
			return h
		})
		addSigMut("signature truncated", func(h *types.Header) *types.Header { h.SigData = [][]byte{h.SigData[0][:len(h.SigData[0])/2]}; return h })
		addSigMut("signed by foreign key, bookkeeper unchanged", func(h *types.Header) *types.Header { return sign(h, foreign, legit) })
		addSigMut("bookkeeper replaced by foreign key that signs", func(h *types.Header) *types.Header {
			return sign(h, foreign, []keypair.PublicKey{foreign.PublicKey})
		})
		addSigMut("bookkeeper list = legit+foreign, only foreign signs", func(h *types.Header) *types.Header {
			return sign(h, foreign, []keypair.PublicKey{bk.PublicKey, foreign.PublicKey})
		})
		addSigMut("bookkeepers replaced by two foreign keys that both sign", func(h *types.Header) *types.Header {
			f2 := fix.Key(fix.KP256, 8)
			n := cloneHeader(h)
			n.Bookkeepers, n.SigData = nil, nil
			n = cloneHeader(n)
			hash := n.Hash()
			s1, err1 := signature.Sign(foreign, hash[:])
			s2, err2 := signature.Sign(f2, hash[:])
			if err1 != nil || err2 != nil {
				t.Fatal(err1, err2)
			}
			n.Bookkeepers = []keypair.PublicKey{foreign.PublicKey, f2.PublicKey}
			n.SigData = [][]byte{s1, s2}
			return n
		})
		addSigMut("signature of a different block reused", func(h *types.Header) *types.Header {
			h.SigData = [][]byte{parent.SigData[0]}
			return h
		})
		// wrong state root (non-empty blocks only: the code documents that empty blocks skip the check)
		if len(good.Transactions) > 0 {
			bad := goodRes.MerkleRoot
			bad[rapid.IntRange(0, 31).Draw(t, "sri")] ^= 4
			muts = append(muts, c39Mutant{name: "wrong state root passed with valid block", mustErr: true, viaBytes: true, blk: good, stateRoot: &bad})
		}

		before, err := c39Observe(ch.LS, accts)
		if err != nil {
			t.Fatal(err)
		}
		// the first reopen of a ledger writes the bloom filter-start key; do that reopen before the
		// reference dump so that the comparison is between two post-reopen images
		if err := ch.Reopen(); err != nil {
			t.Fatal(err)
		}
		ch.Close()
		dumpBefore, err := dumpLedgerMap(ch.Dir)
		if err != nil {
			t.Fatal(err)
		}
		if err := ch.Open(); err != nil {
			t.Fatal(err)
		}

		for _, m := range muts {
			paths := []string{"bytes+AddBlock"}
			if !m.viaBytes {
				paths = append(paths, "Execute+Submit")
			}
			for _, p := range paths {
				desc := fmt.Sprintf("plan=%v next=%d mut=%q resigned=%v path=%s", plan, nNext, m.name, m.resigned, p)
				var gotErr error
				func() {
					defer func() {
						if r := recover(); r != nil {
							t.Fatalf("%s: panic %v", desc, r)
						}
					}()
					switch p {
					case "bytes+AddBlock":
						raw := m.blk.ToArray()
						b2, err := types.BlockFromRawBytes(raw)
						if err != nil {
							gotErr = fmt.Errorf("decode: %v", err)
							ev.Class("rejected:decoder")
							return
						}
						sr := goodRes.MerkleRoot
						if m.stateRoot != nil {
							sr = *m.stateRoot
						}
						gotErr = ch.LS.AddBlock(b2, nil, sr)
					default:
						res, err := ch.LS.ExecuteBlock(m.blk)
						if err != nil {
							gotErr = fmt.Errorf("execute: %v", err)
							return
						}
						gotErr = ch.LS.SubmitBlock(m.blk, nil, res)
					}
				}()
				if m.mustErr && gotErr == nil {
					t.Fatalf("%s: invalid block was accepted without error", desc)
				}
				after, err := c39Observe(ch.LS, accts)
				if err != nil {
					t.Fatalf("%s: ledger unreadable afterwards: %v", desc, err)
				}
				if fmt.Sprint(after) != fmt.Sprint(before) {
					t.Fatalf("%s (returned %v): ledger changed\nbefore %+v\nafter  %+v", desc, gotErr, before, after)
				}
				if gotErr != nil {
					ev.Class("rejected")
				} else {
					ev.Class("no-op")
				}
				ev.Case(true, desc)
			}
		}
		// persisted content unchanged
		ch.Close()
		dumpAfter, err := dumpLedgerMap(ch.Dir)
		if err != nil {
			t.Fatal(err)
		}
		if d := dumpDiff(dumpBefore, dumpAfter); len(d) > 0 {
			t.Fatalf("plan=%v: persisted LevelDB/merkle content changed after rejected blocks: %v", plan, d)
		}
		if err := ch.Open(); err != nil {
			t.Fatal(err)
		}
		// header-first delivery: the node has synced the VALID header of the next height (AddHeaders, as the
		// header-sync path does) before the mutant blocks arrive; every mutant must still be rejected
		// and leave the ledger as it is (mutations outside the hashed header fields — signatures,
		// bookkeepers, transaction list — give blocks with the cached header's hash)
		{
			rawH := good.Header.ToArray()
			hdr, err := types.HeaderFromRawBytes(rawH)
			if err != nil {
				t.Fatal(err)
			}
			if err := ch.LS.AddHeaders([]*types.Header{hdr}); err != nil {
				t.Fatalf("plan=%v: the valid next header is rejected by AddHeaders: %v", plan, err)
			}
			before2, err := c39Observe(ch.LS, accts)
			if err != nil {
				t.Fatal(err)
			}
			for _, m := range muts {
				desc := fmt.Sprintf("plan=%v next=%d mut=%q resigned=%v path=%s", plan, nNext, m.name, m.resigned, "valid header synced first, then bytes+AddBlock")
				var gotErr error
				func() {
					defer func() {
						if r := recover(); r != nil {
							t.Fatalf("%s: panic %v", desc, r)
						}
					}()
					b2, err := types.BlockFromRawBytes(m.blk.ToArray())
					if err != nil {
						gotErr = fmt.Errorf("decode: %v", err)
						return
					}
					sr := goodRes.MerkleRoot
					if m.stateRoot != nil {
						sr = *m.stateRoot
					}
					gotErr = ch.LS.AddBlock(b2, nil, sr)
				}()
				if m.mustErr && gotErr == nil {
					t.Fatalf("%s: invalid block was accepted without error", desc)
				}
				after, err := c39Observe(ch.LS, accts)
				if err != nil {
					t.Fatalf("%s: ledger unreadable afterwards: %v", desc, err)
				}
				if fmt.Sprint(after) != fmt.Sprint(before2) {
					t.Fatalf("%s (returned %v): ledger changed\nbefore %+v\nafter  %+v", desc, gotErr, before2, after)
				}
				if m.blk.Hash() == good.Hash() {
					ev.Class("header-first:mutant-has-the-cached-header-hash")
				}
				ev.Class("header-first")
				ev.Case(true, desc)
			}
		}
		// the unmutated block is still accepted and gives the expected state
		raw := good.ToArray()
		g2, err := types.BlockFromRawBytes(raw)
		if err != nil {
			t.Fatal(err)
		}
		if err := ch.LS.AddBlock(g2, nil, goodRes.MerkleRoot); err != nil {
			t.Fatalf("plan=%v: after rejecting the mutants the ledger no longer accepts the valid block: %v", plan, err)
		}
		sr, err := ch.LS.GetStateMerkleRoot(height + 1)
		if err != nil || sr != goodRes.MerkleRoot || ch.LS.GetCurrentBlockHeight() != height+1 {
			t.Fatalf("plan=%v: valid block gave state root %x (err %v), expected %x", plan, sr, err, goodRes.MerkleRoot)
		}
		got, _ := ch.LS.GetBlockByHeight(height + 1)
		if got == nil || !bytes.Equal(got.ToArray(), raw) {
			t.Fatalf("plan=%v: stored block differs from the submitted one", plan)
		}
	})
	_ = sort.Strings
}
