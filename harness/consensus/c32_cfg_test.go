package consensus

// C32, configuration changes: histories on one VBFT ledger (genesis configuration N=7, C=2) that
// interleave honest config-change headers (VbftBlockInfo.NewChainConfig, signed by the members in
// force), honest plain headers, and hostile submissions — rejected blocks / headers that ANNOUNCE an
// attacker configuration Z, headers listed and signed only by Z, headers that name a retired
// configuration height, under-signed headers — through AddHeaders and AddBlock.
//
// The harness keeps its own model of the accepted header chain: the configuration governing height
// H is the NewChainConfig of the highest ACCEPTED config-change header below H (genesis at 0).
// Oracle: every accepted header/block carries verifying signatures of at least C+1 distinct members
// of the governing configuration (C of that configuration).

import (
	"encoding/json"
	"fmt"
	"strings"
	"testing"

	"github.com/ontio/ontology/common"
	vconfig "github.com/ontio/ontology/consensus/vbft/config"
	"github.com/ontio/ontology/core/types"
	"pgregory.net/rapid"

	"verifharness/internal/fix"
	"verifharness/internal/harn"
)

const c32KeyStale = "header-names-retired-config-height"

const c32CfgRule = "configuration-change histories on a (7,2) VBFT ledger, up to 8 submissions each: honest config-change headers (new peer sets of 4..8 zoo keys, C 1..(n-1)/3, signed by the members in force), honest plain headers, blocks for height 1 and headers that announce an attacker configuration Z but carry invalid signatures (rejected), headers listed and signed only by Z naming the latest config height, headers naming a retired configuration height signed by its members, under-signed headers; acceptance judged against the harness's model of the configuration governing the height on the ACCEPTED chain; non-trivial = history with at least one accepted config change followed by a hostile submission; distinct = different submission sequence"

type c32Cfg struct {
	height uint32
	keys   []*fix.ZooKey
	c      int
}

type c32Scenario struct {
	l    *c32Ledger
	cfgs []c32Cfg // accepted configurations, ascending height
	log  []string
	salt uint64
}

func (s *c32Scenario) governing(h uint32) c32Cfg {
	g := s.cfgs[0]
	for _, c := range s.cfgs {
		if c.height < h {
			g = c
		}
	}
	return g
}

// retiredExplains: the accepted plain header names the height of an ACCEPTED but retired
// configuration and satisfies the rule for that configuration (C+1 distinct valid member
// signatures, or what the listed threshold/duplicate findings let through for it).
func (s *c32Scenario) retiredExplains(r c32SubResult, lastCfg uint32, k c32Known) bool {
	for _, old := range s.cfgs {
		if old.height == lastCfg && old.height != r.gov.height {
			ro := r.rel(old)
			return ro.D >= old.c+1 || ro.explained(k, len(old.keys), old.c)
		}
	}
	return false
}

func (s *c32Scenario) latest() c32Cfg { return s.cfgs[len(s.cfgs)-1] }

func chainConfigOf(keys []*fix.ZooKey, c int) *vconfig.ChainConfig {
	cfg := &vconfig.ChainConfig{Version: 1, View: 2, N: uint32(len(keys)), C: uint32(c), BlockMsgDelay: 10000, HashMsgDelay: 10000, PeerHandshakeTimeout: 10, MaxBlockChangeView: 1000}
	for i, k := range keys {
		cfg.Peers = append(cfg.Peers, &vconfig.PeerConfig{Index: uint32(i + 1), ID: pubHex(k.PublicKey)})
		cfg.PosTable = append(cfg.PosTable, uint32(i+1), uint32(i+1))
	}
	return cfg
}

type c32Sub struct {
	what     string
	viaBlock bool
	lastCfg  uint32
	newCfg   *c32Cfg       // announced configuration (nil: plain header)
	list     []*fix.ZooKey // bookkeepers
	signers  []*fix.ZooKey // valid signatures, in order
	garbage  int           // garbage signatures put in FRONT of the valid ones
}

type c32SubResult struct {
	accepted bool
	err      error
	height   uint32
	gov      c32Cfg
	D        int
	r        c32Result // quantities relative to the governing configuration, for the known-finding recognisers
	hash     common.Uint256
	sigs     [][]byte
	list     []*fix.ZooKey
}

// rel evaluates the submission against one configuration: distinct valid signers among its
// members, whether every listed key is a member, distinct listed, signatures matchable to list
// positions when duplicates count.
func (res c32SubResult) rel(cfg c32Cfg) c32Result {
	out := c32Result{accepted: res.accepted, allMembers: true}
	out.D = len(distinctValidSigners(cfg.keys, res.hash, res.sigs))
	idx := map[*fix.ZooKey]int{}
	for i, k := range cfg.keys {
		idx[k] = i
	}
	listCount := map[int]int{}
	for _, k := range res.list {
		i, ok := idx[k]
		if !ok {
			out.allMembers = false
			i = -1 - k.Idx
		}
		listCount[i]++
	}
	out.distinctListed = len(listCount)
	m := mCode(len(cfg.keys))
	validCnt := map[int]int{}
	for j, sg := range res.sigs {
		if j >= m {
			break
		}
		for i, k := range cfg.keys {
			if sigOK(k.PublicKey, res.hash, sg) {
				validCnt[i]++
				break
			}
		}
	}
	for i, k := range validCnt {
		out.dMult += min(k, listCount[i])
	}
	return out
}

func names(ks []*fix.ZooKey) string {
	var s []string
	for _, k := range ks {
		s = append(s, fmt.Sprint(k.Idx))
	}
	return strings.Join(s, ",")
}

func (s *c32Scenario) submit(sub c32Sub) c32SubResult {
	l := s.l
	base := l.hdrTip
	if sub.viaBlock {
		base = l.blkTip
	}
	s.salt++
	height := base.height + 1
	info := &vconfig.VbftBlockInfo{Proposer: 1, VrfValue: []byte{1, 2, 3}, VrfProof: []byte{4, 5, 6}, LastConfigBlockNum: sub.lastCfg}
	if sub.newCfg != nil {
		info.NewChainConfig = chainConfigOf(sub.newCfg.keys, sub.newCfg.c)
	}
	payload, _ := json.Marshal(info)
	hdr := &types.Header{Version: 0, PrevBlockHash: base.hash, Timestamp: base.ts + 1, Height: height, ConsensusData: 7_000_000 + s.salt, ConsensusPayload: payload}
	if sub.viaBlock {
		hdr.TransactionsRoot = common.ComputeMerkleRoot(nil)
		hdr.BlockRoot = l.chain.LS.GetBlockRootWithNewTxRoots(hdr.Height, []common.Uint256{hdr.TransactionsRoot})
	}
	hash := hdr.Hash()
	for _, k := range sub.list {
		hdr.Bookkeepers = append(hdr.Bookkeepers, k.PublicKey)
	}
	for i := 0; i < sub.garbage; i++ {
		hdr.SigData = append(hdr.SigData, []byte("garbage-signature-bytes"))
	}
	for _, k := range sub.signers {
		hdr.SigData = append(hdr.SigData, signFresh(k, hash))
	}
	res := c32SubResult{height: height, gov: s.governing(height)}
	blkBefore := l.chain.LS.GetCurrentBlockHeight()
	func() {
		defer func() {
			if r := recover(); r != nil {
				res.err = fmt.Errorf("PANIC: %v", r)
			}
		}()
		if sub.viaBlock {
			res.err = l.chain.LS.AddBlock(&types.Block{Header: hdr}, nil, common.UINT256_EMPTY)
		} else {
			res.err = l.chain.LS.AddHeaders([]*types.Header{hdr})
		}
	}()
	res.accepted = res.err == nil
	if sub.viaBlock && l.chain.LS.GetCurrentBlockHeight() != blkBefore+1 {
		res.accepted = false
	}
	res.hash, res.sigs, res.list = hash, hdr.SigData, sub.list
	res.r = res.rel(res.gov)
	res.D = res.r.D
	cfgNote := ""
	if sub.newCfg != nil {
		cfgNote = fmt.Sprintf(" announces{%s|C=%d}", names(sub.newCfg.keys), sub.newCfg.c)
	}
	via := "hdr"
	if sub.viaBlock {
		via = "blk"
	}
	s.log = append(s.log, fmt.Sprintf("%s@%d %s cfg=%d list=[%s] sigs=%dg+[%s]%s -> %v", via, height, sub.what, sub.lastCfg, names(sub.list), sub.garbage, names(sub.signers), cfgNote, map[bool]string{true: "ACCEPTED", false: "rejected"}[res.accepted]))
	if res.accepted {
		nt := tip{height, hash, hdr.Timestamp}
		if sub.viaBlock {
			l.blkTip = nt
		} else {
			l.hdrTip = nt
			if sub.newCfg != nil {
				nc := *sub.newCfg
				nc.height = height
				s.cfgs = append(s.cfgs, nc)
			}
		}
	}
	return res
}

// c32StaleWitness: after an accepted change to configuration Y at height 1, a header at height 2
// that names the RETIRED genesis configuration (LastConfigBlockNum = 0) and is signed only by
// genesis members that are not in Y.
func c32StaleWitness() (bool, string) {
	l := newC32Ledger(7, 2)
	defer l.cleanup()
	s := &c32Scenario{l: l, cfgs: []c32Cfg{{0, l.members, 2}}}
	y := &c32Cfg{keys: zooRange(10, 7), c: 2}
	a := s.submit(c32Sub{what: "honest-change", lastCfg: 0, newCfg: y, list: l.members, signers: l.members})
	b := s.submit(c32Sub{what: "names-retired-config", lastCfg: 0, list: l.members, signers: l.members})
	return a.accepted && b.accepted && b.D < 3, strings.Join(s.log, " ; ") + fmt.Sprintf(" (second header: %d signatures of the governing configuration's members)", b.D)
}

func zooRange(from, n int) []*fix.ZooKey {
	var out []*fix.ZooKey
	for i := 0; i < n; i++ {
		out = append(out, fix.Key(fix.KP256, from+i))
	}
	return out
}

func TestC32_WitnessRetiredConfig(t *testing.T) { c32WitnessTest(t, c32KeyStale, c32StaleWitness) }

func TestC32_ConfigChangeHistories(t *testing.T) {
	ev := harn.For("C32").Rule(c32CfgRule)
	ev.Floor("cfg:change-accepted", "", 0.40)
	ev.Floor("cfg:hostile-after-change", "", 0.30)
	known := c32KnownSet()
	staleFails, _ := c32StaleWitness()
	knownStale := harn.Known("C32", c32KeyStale, staleFails)
	zKeys := zooRange(30, 7)
	harn.Check(t, 120, 6000, func(t *rapid.T) {
		l := newC32Ledger(7, 2)
		defer l.cleanup()
		s := &c32Scenario{l: l, cfgs: []c32Cfg{{0, l.members, 2}}}
		z := &c32Cfg{keys: zKeys[:rapid.IntRange(4, 7).Draw(t, "zSize")], c: 1}
		poisoned, changes, hostileAfterChange := false, 0, false
		steps := rapid.IntRange(2, 8).Draw(t, "steps")
		for i := 0; i < steps; i++ {
			gov := s.governing(l.hdrTip.height + 1)
			subset := func(label string, ks []*fix.ZooKey, lo int) []*fix.ZooKey {
				if lo > len(ks) {
					lo = len(ks)
				}
				n := rapid.IntRange(lo, len(ks)).Draw(t, label+"N")
				return append([]*fix.ZooKey{}, rapid.Permutation(ks).Draw(t, label)[:n]...)
			}
			// weighted choice of the submission kind (values are thresholds used in the switch below)
			kind := rapid.SampledFrom([]int{40, 40, 40, 40, 65, 65, 65, 65, 0, 0, 0, 0, 30, 30, 30, 55, 55, 80, 80, 95, 95}).Draw(t, "kind")
			if i == 0 && rapid.IntRange(0, 9).Draw(t, "changeFirst") < 7 {
				kind = 0
			}
			if poisoned && rapid.Bool().Draw(t, "followUp") {
				kind = 65
			}
			var sub c32Sub
			switch {
			case kind < 22 && len(s.cfgs) < 4: // honest configuration change
				n := rapid.IntRange(4, 8).Draw(t, "newN")
				from := rapid.SampledFrom([]int{8, 12, 16, 3}).Draw(t, "newFrom")
				nc := &c32Cfg{keys: zooRange(from, n), c: rapid.IntRange(1, (n-1)/3).Draw(t, "newC")}
				signers := subset("chSigners", gov.keys, max(gov.c+1, mCode(len(gov.keys))))
				sub = c32Sub{what: "honest-change", lastCfg: gov.height, newCfg: nc, list: signers, signers: signers}
			case kind < 36: // honest plain header
				signers := subset("plSigners", gov.keys, max(gov.c+1, mCode(len(gov.keys))))
				sub = c32Sub{what: "honest-plain", lastCfg: gov.height, list: signers, signers: signers}
			case kind < 52: // block for height 1 that announces Z, lists real members, invalid signatures
				g1 := s.governing(1)
				sub = c32Sub{what: "poison-block", viaBlock: true, lastCfg: 0, newCfg: z, list: subset("pbList", g1.keys, g1.c+1), garbage: rapid.IntRange(1, 3).Draw(t, "pbGarbage")}
				switch rapid.IntRange(0, 5).Draw(t, "pbTwist") {
				case 0:
					sub.newCfg = nil
				case 1:
					sub.list = z.keys
					sub.signers = z.keys
					sub.garbage = 0
				case 2:
					sub.signers = z.keys[:2] // valid signatures, but of keys that are not listed
					sub.garbage = 0
				}
				poisoned = poisoned || sub.newCfg != nil
			case kind < 60: // header that announces Z, lists members in force, invalid signatures
				sub = c32Sub{what: "poison-header", lastCfg: gov.height, newCfg: z, list: subset("phList", gov.keys, gov.c+1), garbage: rapid.IntRange(1, 3).Draw(t, "phGarbage")}
			case kind < 78: // header listed and signed only by Z, naming the newest config height (or the tip)
				lc := s.latest().height
				if rapid.IntRange(0, 4).Draw(t, "zTip") == 0 {
					lc = l.hdrTip.height
				}
				sub = c32Sub{what: "signed-by-Z", lastCfg: lc, list: z.keys, signers: z.keys}
			case kind < 90 && len(s.cfgs) >= 2: // names a retired configuration, signed by its members
				old := s.cfgs[rapid.IntRange(0, len(s.cfgs)-2).Draw(t, "oldCfg")]
				signers := subset("oldSigners", old.keys, old.c+1)
				sub = c32Sub{what: "names-retired-config", lastCfg: old.height, list: signers, signers: signers}
			default: // under-signed: C+1 members listed, fewer valid signatures
				list := subset("usList", gov.keys, gov.c+1)
				k := rapid.IntRange(0, gov.c).Draw(t, "usK")
				sub = c32Sub{what: "under-signed", lastCfg: gov.height, list: list, signers: list[:min(k, len(list))]}
			}
			hostile := sub.what != "honest-change" && sub.what != "honest-plain"
			if hostile && changes > 0 {
				hostileAfterChange = true
			}
			r := s.submit(sub)
			if r.err != nil && strings.HasPrefix(r.err.Error(), "PANIC") {
				t.Fatalf("%v in history: %s", r.err, strings.Join(s.log, " ; "))
			}
			ev.Class("sub:" + sub.what)
			if !r.accepted {
				continue
			}
			ev.Class("sub:" + sub.what + ":accepted")
			if sub.what == "honest-change" {
				changes++
			}
			if r.D >= r.gov.c+1 {
				continue
			}
			namesGov := sub.newCfg != nil || sub.lastCfg == r.gov.height // a config-change header is always judged by the code against the configuration in force
			switch {
			case namesGov && r.r.explained(known, len(r.gov.keys), r.gov.c):
				ev.Excluded()
				ev.Class("accepted:D<C+1:known-threshold-or-duplicates")
			case knownStale && !namesGov && s.retiredExplains(r, sub.lastCfg, known):
				ev.Excluded()
				ev.Class("accepted:D<C+1:known-retired-config")
			default:
				t.Fatalf("submission %d accepted with only %d distinct member(s) of the configuration governing height %d (accepted config change at height %d, %d peers {%s}, C=%d) having a verifying signature, need C+1=%d. History: %s",
					len(s.log), r.D, r.height, r.gov.height, len(r.gov.keys), names(r.gov.keys), r.gov.c, r.gov.c+1, strings.Join(s.log, " ; "))
			}
			if sub.viaBlock {
				break // the block tip moved; the scenario shapes assume block height 0
			}
		}
		if changes > 0 {
			ev.Class("cfg:change-accepted")
		}
		if hostileAfterChange {
			ev.Class("cfg:hostile-after-change")
		}
		ev.Case(changes > 0 && hostileAfterChange, shortDesc(strings.Join(s.log, ";")))
	})
}
