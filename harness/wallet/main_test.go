package wallet

import (
	"testing"

	"verifharness/internal/harn"
)

func TestMain(m *testing.M) { harn.Main(m) }
