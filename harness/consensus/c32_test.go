package consensus

// C32 Synced VBFT headers carry valid signatures of more than C distinct consensus peers.
//
// A real ledger (fix.NewVbft: genesis carries a VBFT chain configuration over N zoo keys) is fed
// generated next-height headers through LedgerStoreImp.AddHeaders (header sync) and AddBlock
// (block sync). Oracle, independent of verifyHeader's own counting: whenever the header is
// accepted, D := number of distinct members of the governing (genesis) configuration for which
// some entry of SigData verifies under that member's key over the header hash, and D >= C+1.

import (
	"fmt"
	"sort"
	"strings"
	"testing"

	"github.com/ontio/ontology-crypto/keypair"
	"github.com/ontio/ontology/common"
	"github.com/ontio/ontology/core/types"
	"pgregory.net/rapid"

	"verifharness/internal/fix"
	"verifharness/internal/harn"
)

const (
	c32KeyThreshold = "header-sig-threshold-below-c-plus-1"
	c32KeyDup       = "duplicate-bookkeepers-counted"
)

const c32Rule = "ledgers with VBFT genesis configurations (N,C) in {(7,1),(7,2),(10,3),(13,4),(15,1)}; next-height headers (AddHeaders on the running header tip; AddBlock on the block tip) whose bookkeeper list is built from members / non-members / duplicates (65% near-acceptance: L distinct members around C+1 with optional duplicates or one non-member; 35% arbitrary lists of length 0..N+3) and whose SigData holds k valid signatures by distinct members (k around n-6n/7 and C+1), invalid bytes, the same valid signature repeated (also: all listed keys distinct and one signature both in its signer's own list slot and in an earlier slot), signatures by non-members / by members that are not listed / over another hash, in valid-first or shuffled order; a few headers with stale timestamp, wrong height or a LastConfigBlockNum that names no configuration; non-trivial = header with between 1 and C distinct valid member signatures, or accepted; distinct = different (listing, signature pattern, delivery)"

type c32Ledger struct {
	chain   *fix.Chain
	n, c    int
	members []*fix.ZooKey
	outside []*fix.ZooKey
	hdrTip  tip
	blkTip  tip
	cleanup func()
	salt    uint64
}

func newC32Ledger(n, c int) *c32Ledger {
	dir, cleanup := tempLedgerDir("verif-c32-")
	members := fix.P256(n)
	chain, err := fix.NewVbft(dir, members, uint32(c))
	if err != nil {
		cleanup()
		panic(fmt.Sprintf("NewVbft(%d,%d): %v", n, c, err))
	}
	l := &c32Ledger{chain: chain, n: n, c: c, members: members, cleanup: func() { chain.Close(); cleanup() }}
	for j := 0; j < 4; j++ {
		l.outside = append(l.outside, fix.Key(fix.KP256, 40+j))
	}
	l.hdrTip = genesisTip(chain)
	l.blkTip = l.hdrTip
	return l
}

// mCode is the number of signatures verifyHeader's formula asks for with n configured peers.
func mCode(n int) int { return n - (n*6)/7 }

// c32Entry: who is listed / who signs. idx < n: member idx; idx >= n: outsider idx-n.
func (l *c32Ledger) keyOf(idx int) *fix.ZooKey {
	if idx < l.n {
		return l.members[idx]
	}
	return l.outside[(idx-l.n)%len(l.outside)]
}

type c32Sig struct {
	kind   string // "valid" | "garbage" | "empty" | "otherhash" | "truncated"
	signer int
}

type c32Header struct {
	list     []int
	sigs     []c32Sig
	tsDelta  int // timestamp - prev timestamp
	hDelta   int // height - (tip+1)
	lastCfg  uint32
	viaBlock bool
}

func (h c32Header) String() string {
	var ss []string
	for _, s := range h.sigs {
		switch s.kind {
		case "valid":
			ss = append(ss, fmt.Sprint(s.signer))
		default:
			ss = append(ss, fmt.Sprintf("%s%d", s.kind[:1], s.signer))
		}
	}
	d := "hdr"
	if h.viaBlock {
		d = "blk"
	}
	return fmt.Sprintf("%s list=[%s] sigs=[%s] ts%+d h%+d cfg=%d", d, ints(h.list), strings.Join(ss, ","), h.tsDelta, h.hDelta, h.lastCfg)
}

type c32Result struct {
	accepted       bool
	err            error
	hash           common.Uint256
	D              int // distinct members with a verifying signature anywhere in SigData
	allMembers     bool
	distinctListed int
	dMult          int // signatures the code can match to list positions when duplicates count
}

// deliver builds the header on the current tip, hands it to the ledger and evaluates the oracle's
// quantities with the harness's own signature checks.
func (l *c32Ledger) deliver(spec c32Header) c32Result {
	base := l.hdrTip
	if spec.viaBlock {
		base = l.blkTip
	}
	l.salt++
	hdr := vbftHeader(base.hash, uint32(int(base.height)+1+spec.hDelta), uint32(int(base.ts)+spec.tsDelta), spec.lastCfg, l.salt)
	if spec.viaBlock {
		hdr.TransactionsRoot = common.ComputeMerkleRoot(nil)
		hdr.BlockRoot = l.chain.LS.GetBlockRootWithNewTxRoots(hdr.Height, []common.Uint256{hdr.TransactionsRoot})
	}
	hash := hdr.Hash()
	var other common.Uint256
	other[0] = 0xee
	for _, i := range spec.list {
		hdr.Bookkeepers = append(hdr.Bookkeepers, l.keyOf(i).PublicKey)
	}
	for _, s := range spec.sigs {
		var b []byte
		switch s.kind {
		case "valid":
			b = signFresh(l.keyOf(s.signer), hash)
		case "otherhash":
			b = signHash(l.keyOf(s.signer), other)
		case "truncated":
			b = signFresh(l.keyOf(s.signer), hash)
			b = b[:len(b)-1]
		case "garbage":
			b = []byte("garbage-signature-bytes")
		case "empty":
			b = []byte{}
		}
		hdr.SigData = append(hdr.SigData, b)
	}
	// repeated valid signatures must be byte-identical: reuse the first signature of the same signer
	first := map[int][]byte{}
	for i, s := range spec.sigs {
		if s.kind == "valid" {
			if f, ok := first[s.signer]; ok {
				hdr.SigData[i] = f
			} else {
				first[s.signer] = hdr.SigData[i]
			}
		}
	}
	res := c32Result{hash: hash}
	blkBefore := l.chain.LS.GetCurrentBlockHeight()
	func() {
		defer func() {
			if r := recover(); r != nil {
				res.err = fmt.Errorf("PANIC: %v", r)
			}
		}()
		if spec.viaBlock {
			res.err = l.chain.LS.AddBlock(&types.Block{Header: hdr}, nil, common.UINT256_EMPTY)
		} else {
			res.err = l.chain.LS.AddHeaders([]*types.Header{hdr})
		}
	}()
	res.accepted = res.err == nil
	if spec.viaBlock && (hdr.Height != blkBefore+1 || l.chain.LS.GetCurrentBlockHeight() != blkBefore+1) {
		res.accepted = false // AddBlock returns nil without doing anything for a height it already has
	}
	if res.accepted {
		nt := tip{hdr.Height, hash, hdr.Timestamp}
		if spec.viaBlock {
			l.blkTip = nt
		} else {
			l.hdrTip = nt
		}
	}
	// harness-side quantities
	res.D = len(distinctValidSigners(l.members, hash, hdr.SigData))
	res.allMembers = true
	listCount := map[int]int{}
	for _, i := range spec.list {
		if i >= l.n {
			res.allMembers = false
		}
		listCount[i]++
	}
	res.distinctListed = len(listCount)
	m := mCode(l.n)
	validCnt := map[int]int{}
	for j, sg := range hdr.SigData {
		if j >= m {
			break
		}
		for i := 0; i < l.n; i++ {
			if sigOK(l.members[i].PublicKey, hash, sg) {
				validCnt[i]++
				break
			}
		}
	}
	for i, k := range validCnt {
		res.dMult += min(k, listCount[i])
	}
	return res
}

type c32Known struct{ threshold, dup bool }

// explained reports whether an accepted header with D < C+1 is exactly what the listed known
// findings let through: all listed keys are members, at least C+1 distinct members are listed, and
// either D reaches the code's own signature count n-6n/7 (threshold finding) or it reaches it only
// because a member listed twice is matched to the same signature twice (duplicate finding).
func (r c32Result) explained(k c32Known, n, c int) bool {
	if !r.allMembers || r.distinctListed < c+1 {
		return false
	}
	m := mCode(n)
	if k.threshold && r.D >= m {
		return true
	}
	if k.dup && r.D < m && r.dMult >= m && (r.dMult >= c+1 || k.threshold) {
		return true
	}
	return false
}

// --- deterministic witnesses -----------------------------------------------------------------

// c32WitnessThreshold: N=7, C=2, header listing three members, ONE valid signature.
func c32WitnessThreshold() (bool, string) {
	l := newC32Ledger(7, 2)
	defer l.cleanup()
	spec := c32Header{list: []int{0, 1, 2}, sigs: []c32Sig{{"valid", 0}}, tsDelta: 1}
	r := l.deliver(spec)
	return r.accepted && r.D < 3, fmt.Sprintf("N=7 C=2 %s -> accepted=%v (err=%v), distinct valid member signatures D=%d, C+1=3", spec, r.accepted, r.err, r.D)
}

// c32WitnessDup: N=15, C=1 (code asks for 3 signatures): header listing [A,A,A,B] with A's
// signature three times.
func c32WitnessDup() (bool, string) {
	l := newC32Ledger(15, 1)
	defer l.cleanup()
	spec := c32Header{list: []int{0, 0, 0, 1}, sigs: []c32Sig{{"valid", 0}, {"valid", 0}, {"valid", 0}}, tsDelta: 1}
	r := l.deliver(spec)
	return r.accepted && r.D < 2, fmt.Sprintf("N=15 C=1 %s -> accepted=%v (err=%v), distinct valid member signatures D=%d, C+1=2, code's own count n-6n/7=%d", spec, r.accepted, r.err, r.D, mCode(15))
}

func c32KnownSet() c32Known {
	a, _ := c32WitnessThreshold()
	b, _ := c32WitnessDup()
	return c32Known{threshold: harn.Known("C32", c32KeyThreshold, a), dup: harn.Known("C32", c32KeyDup, b)}
}

func c32WitnessTest(t *testing.T, key string, run func() (bool, string)) {
	ev := harn.For("C32").Rule(c32Rule)
	fails, msg := run()
	ev.Case(true, "witness "+key+": "+msg)
	if !fails {
		ev.Class("witness:" + key + ":no-longer-fails")
		return
	}
	ev.Class("witness:" + key + ":fails")
	if harn.Known("C32", key, true) {
		ev.Excluded()
		return
	}
	harn.Violation(t, "C32", map[string]string{"witness": key, "case": msg}, "[%s] header accepted with fewer than C+1 distinct valid member signatures: %s", key, msg)
}

func TestC32_WitnessThreshold(t *testing.T)  { c32WitnessTest(t, c32KeyThreshold, c32WitnessThreshold) }
func TestC32_WitnessDuplicates(t *testing.T) { c32WitnessTest(t, c32KeyDup, c32WitnessDup) }

// --- generator -------------------------------------------------------------------------------

func genC32Header(t *rapid.T, n, c int, viaBlock bool) c32Header {
	h := c32Header{tsDelta: 1, viaBlock: viaBlock}
	m := mCode(n)
	sigKinds := []string{"garbage", "empty", "otherhash", "truncated"}
	if rapid.IntRange(0, 99).Draw(t, "mode") < 65 {
		// near-acceptance
		lo := c - 1
		if lo < 1 {
			lo = 1
		}
		base := max(m, c+1) // smallest listing the code can accept
		L := rapid.SampledFrom([]int{base - 1, base, base, base, base + 1, base + 2, n, rapid.IntRange(lo, n).Draw(t, "Lany")}).Draw(t, "L")
		if L < 1 {
			L = 1
		}
		if L > n {
			L = n
		}
		perm := rapid.Permutation(seqInt(n)).Draw(t, "members")
		h.list = append(h.list, perm[:L]...)
		k := rapid.SampledFrom([]int{0, m - 1, m, m, m, m + 1, c, c + 1, c + 1, base, base, rapid.IntRange(0, L).Draw(t, "kany")}).Draw(t, "k")
		if k < 0 {
			k = 0
		}
		if k > L {
			k = L
		}
		signers := append([]int{}, perm[:k]...)
		dupBeforeOwnSlot := false
		switch rapid.IntRange(0, 13).Draw(t, "twist") {
		case 0: // duplicates of listed members
			nd := rapid.IntRange(1, 3).Draw(t, "ndup")
			for i := 0; i < nd; i++ {
				h.list = append(h.list, h.list[rapid.IntRange(0, len(h.list)-1).Draw(t, "dupOf")])
			}
		case 1: // a non-member in the list
			pos := rapid.IntRange(0, len(h.list)).Draw(t, "outPos")
			h.list = append(h.list[:pos], append([]int{n + rapid.IntRange(0, 3).Draw(t, "out")}, h.list[pos:]...)...)
		case 2: // one signer is a member that is not listed
			if k > 0 && L < n {
				signers[k-1] = perm[L]
			}
		case 3, 4: // a signer is listed several times and its signature repeated: fewer distinct signers than signatures
			if k >= 2 {
				nrep := rapid.IntRange(1, k-1).Draw(t, "nrepSigner")
				for i := 0; i < nrep; i++ {
					signers[k-1-i] = signers[0]
					h.list = append(h.list, signers[0])
				}
			}
		case 5, 6, 7: // all listed keys distinct; one member's signature sits in its own list slot AND in an earlier slot
			mm := mCode(n)
			if mm >= 2 && L >= mm {
				j := rapid.IntRange(1, mm-1).Draw(t, "ownSlot")
				i := rapid.IntRange(0, j-1).Draw(t, "earlierSlot")
				signers = append([]int{}, h.list[:mm]...) // every signature in its signer's own slot ...
				signers[i] = h.list[j]                    // ... except slot i, which repeats the signature of slot j
				for p := 0; p < mm; p++ {
					if p != i && p != j && rapid.IntRange(0, 3).Draw(t, "moreDup") == 0 {
						signers[p] = h.list[j]
					}
				}
				dupBeforeOwnSlot = true
			}
		}
		for _, s := range signers {
			h.sigs = append(h.sigs, c32Sig{"valid", s})
		}
		if dupBeforeOwnSlot {
			return h // no extras, no shuffling: the placement is the point
		}
		// extras
		ne := rapid.SampledFrom([]int{0, 0, 1, 2, 3}).Draw(t, "nextra")
		for i := 0; i < ne; i++ {
			var e c32Sig
			switch rapid.IntRange(0, 5).Draw(t, "extraKind") {
			case 0, 1: // repeat a valid signature
				if len(signers) > 0 {
					e = c32Sig{"valid", signers[rapid.IntRange(0, len(signers)-1).Draw(t, "rep")]}
				} else {
					e = c32Sig{"garbage", 0}
				}
			case 2: // valid signature by a non-member
				e = c32Sig{"valid", n + rapid.IntRange(0, 3).Draw(t, "outSigner")}
			default:
				e = c32Sig{rapid.SampledFrom(sigKinds).Draw(t, "badKind"), perm[rapid.IntRange(0, n-1).Draw(t, "badBy")]}
			}
			pos := len(h.sigs)
			if rapid.IntRange(0, 2).Draw(t, "extraFront") == 0 {
				pos = rapid.IntRange(0, len(h.sigs)).Draw(t, "extraPos")
			}
			h.sigs = append(h.sigs[:pos], append([]c32Sig{e}, h.sigs[pos:]...)...)
		}
		if rapid.IntRange(0, 5).Draw(t, "shuffleList") == 0 {
			h.list = rapid.Permutation(h.list).Draw(t, "listOrder")
		}
	} else {
		ll := rapid.IntRange(0, n+3).Draw(t, "listLen")
		for i := 0; i < ll; i++ {
			h.list = append(h.list, rapid.IntRange(0, n+1).Draw(t, "entry"))
		}
		ls := rapid.IntRange(0, min(n+3, 8)).Draw(t, "sigLen")
		for i := 0; i < ls; i++ {
			if rapid.IntRange(0, 9).Draw(t, "sv") < 6 {
				h.sigs = append(h.sigs, c32Sig{"valid", rapid.IntRange(0, n+1).Draw(t, "signer")})
			} else {
				h.sigs = append(h.sigs, c32Sig{rapid.SampledFrom(sigKinds).Draw(t, "bk"), rapid.IntRange(0, n-1).Draw(t, "bb")})
			}
		}
	}
	switch rapid.IntRange(0, 39).Draw(t, "frame") {
	case 0:
		h.tsDelta = 0
	case 1:
		h.hDelta = rapid.SampledFrom([]int{-1, 1, 5}).Draw(t, "hDelta")
	case 2:
		h.lastCfg = rapid.SampledFrom([]uint32{1, 3, 1 << 31, 4294967295}).Draw(t, "lastCfg")
	}
	return h
}

func seqInt(n int) []int {
	out := make([]int, n)
	for i := range out {
		out[i] = i
	}
	return out
}

func c32Explore(t *testing.T, n, c int, viaBlock bool, quick, thorough int) {
	ev := harn.For("C32").Rule(c32Rule)
	ev.Assume("the governing configuration of every generated header is the genesis configuration (no header carries NewChainConfig); members are P-256 keys")
	ev.Floor("accepted", "", 0.10)
	ev.Floor("rejected", "", 0.20)
	ev.Floor("D:1..C", "", 0.10)
	known := c32KnownSet()
	l := newC32Ledger(n, c)
	defer l.cleanup()
	harn.Check(t, quick, thorough, func(t *rapid.T) {
		spec := genC32Header(t, n, c, viaBlock)
		r := l.deliver(spec)
		desc := fmt.Sprintf("N=%d C=%d %s", n, c, spec)
		if r.err != nil && strings.HasPrefix(r.err.Error(), "PANIC") {
			t.Fatalf("%v on %s", r.err, desc)
		}
		if r.accepted {
			ev.Class("accepted")
			if spec.tsDelta <= 0 || spec.hDelta != 0 {
				ev.Class("accepted:odd-frame")
			}
			if r.D >= c+1 {
				ev.Class("accepted:D>=C+1")
			} else if r.explained(known, n, c) {
				ev.Excluded()
				if r.D >= mCode(n) {
					ev.Class("accepted:D<C+1:known-threshold")
				} else {
					ev.Class("accepted:D<C+1:known-duplicates")
				}
			} else {
				t.Fatalf("%s accepted by %s: only %d distinct member(s) of the %d-peer configuration have a verifying signature in SigData, need C+1=%d (code's own count n-6n/7=%d; all listed are members=%v, distinct listed=%d, signatures matchable with duplicates=%d)",
					desc, map[bool]string{true: "AddBlock", false: "AddHeaders"}[viaBlock], r.D, n, c+1, mCode(n), r.allMembers, r.distinctListed, r.dMult)
			}
		} else {
			ev.Class("rejected")
			if r.D >= c+1 && r.allMembers && spec.tsDelta > 0 && spec.hDelta == 0 && spec.lastCfg == 0 {
				ev.Class("rejected:although-D>=C+1") // not part of C32 (e.g. valid signatures placed behind invalid ones)
			}
		}
		if r.D >= 1 && r.D <= c {
			ev.Class("D:1..C")
		}
		ev.Case(r.accepted || (r.D >= 1 && r.D <= c), desc)
	})
}

func TestC32_AddHeaders_N7C1(t *testing.T)  { c32Explore(t, 7, 1, false, 500, 30000) }
func TestC32_AddHeaders_N7C2(t *testing.T)  { c32Explore(t, 7, 2, false, 500, 30000) }
func TestC32_AddHeaders_N10C3(t *testing.T) { c32Explore(t, 10, 3, false, 400, 24000) }
func TestC32_AddHeaders_N13C4(t *testing.T) { c32Explore(t, 13, 4, false, 300, 20000) }
func TestC32_AddHeaders_N15C1(t *testing.T) { c32Explore(t, 15, 1, false, 300, 20000) }
func TestC32_AddBlock_N7C2(t *testing.T)    { c32Explore(t, 7, 2, true, 250, 12000) }

var _ = sort.Ints
var _ keypair.PublicKey
