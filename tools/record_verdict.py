#!/usr/bin/env python3
"""record_verdict.py <dir-under-seeded> <caught|strengthened|missed> [note]: write verif_result into meta.json"""
import json,sys,os
d,st=sys.argv[1],sys.argv[2]
note=sys.argv[3] if len(sys.argv)>3 else ''
p='/verif/seeded/%s/meta.json'%d
m=json.load(open(p))
cid=d.split('-')[0]
status={'caught':'caught','strengthened':'caught after strengthening','missed':'missed'}[st]
if st=='caught' and not note:
    note='caught by the quick tier of ./check %s at the first attempt'%cid
m['verif_result']={'status':status,'note':note,'ran':'tools/verify_seed.sh %s (demo with/without change, go build, VERIF_REPO=<worktree> ./check %s quick tier)'%(cid,cid)}
json.dump(m,open(p,'w'),indent=1)
