package pure

// C37, held answers. "Nearest-peer queries return distinct peers sorted by XOR distance to the target": an answer is
// a value describing the table at the time of the query. The callers keep answers while the table goes on changing
// (dht.BetterPeers hands the NearestPeers slice to the FindNode handler, which filters and serialises it while other
// connections update the table; the discovery loop walks the ListPeers slice while peers come and go), and several
// handlers query the table at the same time (the table has its own read/write lock for that). So
//   - an answer must not change because the table is queried again with another target or another count,
//   - an answer must not change because peers are added or removed afterwards,
//   - as long as the table is unchanged, asking the same question again (after other questions, from the same or
//     from several goroutines at once) gives the same answer.
// The earlier C37 tests judge every answer at once and drop it, so an answer that aliases state reused by the next
// call is invisible to them. Here every answer (NearestPeers, ListPeers, Bucket.Peers, Find) is kept untouched next
// to a private copy while 1..8 further queries and then 1..8 updates/removals run, and is then compared with the
// copy and judged again against the table content recorded when it was given.
// Answers are slices of PeerIDAddressPair values (a 20-byte array and a string): the copy is a plain element copy.

import (
	"bytes"
	"fmt"
	"sort"
	"strings"
	"sync"
	"testing"

	pcommon "github.com/ontio/ontology/p2pserver/common"
	"pgregory.net/rapid"

	"verifharness/internal/harn"
)

type c37Query struct {
	kind   string // nearest | list | bucket | find
	target []byte
	k      int
	bucket int
}

func (q c37Query) String() string {
	switch q.kind {
	case "nearest":
		return fmt.Sprintf("NearestPeers(%x,%d)", q.target[:4], q.k)
	case "find":
		return fmt.Sprintf("Find(%x)", q.target[:4])
	case "bucket":
		return fmt.Sprintf("Buckets[%d].Peers()", q.bucket)
	}
	return "ListPeers()"
}

type c37Answer struct {
	q     c37Query
	out   []pcommon.PeerIDAddressPair // what the table returned, kept untouched
	snap  []pcommon.PeerIDAddressPair // private copy taken at return time
	found bool
	table map[string]int // table content when the answer was given
	epoch int            // number of table changes before the answer was given
}

func (s *c37State) ask(q c37Query) *c37Answer {
	a := &c37Answer{q: q}
	switch q.kind {
	case "nearest":
		a.out = s.rt.NearestPeers(c37ID(q.target), q.k)
	case "list":
		a.out = s.rt.ListPeers()
	case "bucket":
		a.out = s.rt.Buckets[q.bucket].Peers()
	default:
		p, ok := s.rt.Find(c37ID(q.target))
		a.found = ok
		if ok {
			a.out = []pcommon.PeerIDAddressPair{p}
		}
	}
	a.snap = append([]pcommon.PeerIDAddressPair(nil), a.out...)
	return a
}

func c37Uniform(t *rapid.T, n int, label string) int {
	if n <= 1 {
		return 0
	}
	return int(rapid.Uint64().Draw(t, label) % uint64(n))
}

func (s *c37State) genQuery(t *rapid.T) c37Query {
	switch c37Uniform(t, 8, "qkind") {
	case 0:
		return c37Query{kind: "list"}
	case 1:
		return c37Query{kind: "bucket", bucket: c37Uniform(t, len(s.rt.Buckets), "bucket")}
	case 2:
		return c37Query{kind: "find", target: rapid.SampledFrom(s.pool).Draw(t, "findId")}
	default:
		return c37Query{kind: "nearest", target: s.target(t), k: 1 + c37Uniform(t, 20, "k")}
	}
}

func c37Pairs(ps []pcommon.PeerIDAddressPair) string {
	var sb strings.Builder
	for _, p := range ps {
		fmt.Fprintf(&sb, "%x/%s ", c37Raw(p.ID)[:4], p.Address)
	}
	return "[" + strings.TrimSpace(sb.String()) + "]"
}

func c37Same(a, b []pcommon.PeerIDAddressPair) bool {
	if len(a) != len(b) {
		return false
	}
	for i := range a {
		if a[i] != b[i] {
			return false
		}
	}
	return true
}

// judge checks an answer against the table content recorded when it was given (s.addr: id -> address of the peer).
func (s *c37State) judge(a *c37Answer, ps []pcommon.PeerIDAddressPair, addr map[string]string) string {
	seen := map[string]bool{}
	var prev []byte
	for i, p := range ps {
		raw := c37Raw(p.ID)
		if a.table[string(raw)] == 0 {
			return fmt.Sprintf("names %x which was not in the table when the question was asked", raw)
		}
		if seen[string(raw)] {
			return fmt.Sprintf("names %x twice", raw)
		}
		seen[string(raw)] = true
		if want := addr[string(raw)]; p.Address != want {
			return fmt.Sprintf("gives address %q for %x, the peer was added with %q", p.Address, raw, want)
		}
		if a.q.kind == "nearest" {
			d := c37Dist(raw, a.q.target)
			if i > 0 && bytes.Compare(prev, d) > 0 {
				return fmt.Sprintf("is not sorted by XOR distance to the target at position %d", i)
			}
			prev = d
		}
	}
	switch a.q.kind {
	case "nearest":
		if len(ps) > a.q.k {
			return fmt.Sprintf("has %d peers for count %d", len(ps), a.q.k)
		}
	case "list":
		if len(ps) != len(a.table) {
			return fmt.Sprintf("lists %d peers, the table held %d", len(ps), len(a.table))
		}
	case "find":
		if a.found && !bytes.Equal(c37Raw(ps[0].ID), a.q.target) {
			return fmt.Sprintf("found %x", c37Raw(ps[0].ID))
		}
	}
	return ""
}

func TestC37_HeldAnswers(t *testing.T) {
	ev := harn.For("C37").Rule(c37Rule + " || held: over a table built by 5..60 updates/removals (every peer with its own address), 2..4 rounds of: 2..9 questions (NearestPeers with generated target and count 1..20, ListPeers, Bucket.Peers, Find) asked one after the other while the table is unchanged, " +
		"every answer kept untouched next to a copy; all questions asked again in another order (in a third of the rounds from 2..4 goroutines at once, joined before the round ends) must reproduce the copies; then 1..8 updates/removals; " +
		"all answers kept so far must still equal their copies and still satisfy distinct / member-of-the-table-at-that-time / sorted / address; non-trivial = at least two kept non-empty answers that differ and a table change after them; distinct = different history")
	ev.Floor("held:distinct-answers>=2", "held:cases", 0.9)
	ev.Floor("held:answer-nonempty", "held:answers", 0.6)
	ev.Floor("held:table-changed-after", "held:cases", 0.9)
	ev.Floor("held:concurrent-round", "held:rounds", 0.15)
	ev.Floor("held:nearest>=2peers", "held:answers", 0.25)
	harn.Check(t, 2500, 30000, func(t *rapid.T) {
		s := c37NewState(t, ev, rapid.Bool().Draw(t, "deep"))
		addr := map[string]string{}
		for i, id := range s.pool {
			addr[string(id)] = fmt.Sprintf("10.0.%d.%d:2033%d", i/256, i%256, i%10)
		}
		epoch := 0
		change := func() {
			raw := rapid.SampledFrom(s.pool).Draw(t, "id")
			if c37Uniform(t, 4, "remove") == 0 {
				s.rt.Remove(c37ID(raw))
				delete(s.model, string(raw))
				s.note("R(%x)", raw[:4])
			} else {
				present := s.model[string(raw)]
				err := s.rt.Update(c37ID(raw), addr[string(raw)])
				s.note("U(%x)=%v", raw[:4], err == nil)
				if err == nil {
					s.model[string(raw)] = true
				} else if present {
					t.Fatalf("Update of peer %x that is already in the table failed: %v; history: %s", raw, err, s.history())
				}
			}
			epoch++
		}
		for i, n := 0, 5+c37Uniform(t, 56, "build"); i < n; i++ {
			change()
		}
		var held []*c37Answer
		changedAfter := false
		checkHeld := func(when string) {
			for i, a := range held {
				if !c37Same(a.out, a.snap) {
					t.Fatalf("answer #%d %s changed %s: is %s, was %s; history: %s", i, a.q, when, c37Pairs(a.out), c37Pairs(a.snap), s.history())
				}
				if msg := s.judge(a, a.out, addr); msg != "" {
					t.Fatalf("answer #%d %s, kept %s, %s: %s; history: %s", i, a.q, when, msg, c37Pairs(a.out), s.history())
				}
			}
		}
		rounds := 2 + c37Uniform(t, 3, "rounds")
		for r := 0; r < rounds; r++ {
			s.check(t) // structural invariants; refreshes s.table
			table := s.table
			nq := 2 + c37Uniform(t, 8, "questions")
			round := make([]*c37Answer, 0, nq)
			for i := 0; i < nq; i++ {
				q := s.genQuery(t)
				a := s.ask(q)
				a.table, a.epoch = table, epoch
				if msg := s.judge(a, a.out, addr); msg != "" {
					t.Fatalf("%s %s: %s; history: %s", q, msg, c37Pairs(a.out), s.history())
				}
				round = append(round, a)
				held = append(held, a)
				s.note("%s=%d", q, len(a.out))
				ev.Class("held:answers")
				ev.Class("held:kind=" + q.kind)
				if len(a.out) > 0 {
					ev.Class("held:answer-nonempty")
				}
				if q.kind == "nearest" && len(a.out) >= 2 {
					ev.Class("held:nearest>=2peers")
				}
			}
			checkHeld("while later questions were asked")
			// the table is unchanged: the same questions in another order give the same answers
			idx := make([]int, nq)
			for i := range idx {
				idx[i] = i
			}
			order := rapid.Permutation(idx).Draw(t, "again")
			again := make([]*c37Answer, nq)
			if c37Uniform(t, 3, "concurrent") == 0 {
				g := 2 + c37Uniform(t, 3, "goroutines")
				var wg sync.WaitGroup
				for w := 0; w < g; w++ {
					wg.Add(1)
					go func(w int) {
						defer wg.Done()
						for j := w; j < nq; j += g {
							again[order[j]] = s.ask(round[order[j]].q)
						}
					}(w)
				}
				wg.Wait()
				ev.Class("held:concurrent-round")
			} else {
				for _, i := range order {
					again[i] = s.ask(round[i].q)
				}
			}
			for i, a := range round {
				if !c37Same(again[i].snap, a.snap) || again[i].found != a.found {
					t.Fatalf("%s asked again on the unchanged table (after the other questions, order %v) gives %s, gave %s; history: %s", a.q, order, c37Pairs(again[i].snap), c37Pairs(a.snap), s.history())
				}
				if !c37Same(again[i].out, again[i].snap) {
					t.Fatalf("%s: the repeated answer changed while the other questions were repeated: is %s, was %s; history: %s", a.q, c37Pairs(again[i].out), c37Pairs(again[i].snap), s.history())
				}
			}
			checkHeld("while the questions were asked again")
			ev.Class("held:rounds")
			// the table changes
			for i, n := 0, 1+c37Uniform(t, 8, "changes"); i < n; i++ {
				change()
			}
			changedAfter = true
			checkHeld("while peers were added and removed afterwards")
		}
		s.check(t)
		distinct := map[string]bool{}
		for _, a := range held {
			if len(a.snap) > 0 {
				distinct[c37Pairs(a.snap)] = true
			}
		}
		if len(distinct) >= 2 {
			ev.Class("held:distinct-answers>=2")
		}
		if changedAfter {
			ev.Class("held:table-changed-after")
		}
		ev.Class("held:cases")
		keys := make([]string, 0, len(distinct))
		for k := range distinct {
			keys = append(keys, k)
		}
		sort.Strings(keys)
		ev.Case(len(distinct) >= 2 && changedAfter, "held "+s.desc())
	})
}
