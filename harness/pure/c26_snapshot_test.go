package pure

// C26 (persistence part): stateful histories of one long-lived tree OBJECT that is appended to, read, persisted with
// Marshal at generated points and reloaded with UnMarshal from any of the persisted blobs (same state, older state =
// snapshot rollback, state of an abandoned branch) -- into the CURRENT, already used object (whose Root() may or may
// not have been read since the last change), into fresh objects (NewTree + UnMarshal, zero value + UnMarshal,
// NewTree(size, hashes, store), another used object) and, for file-backed trees, after closing and reopening the hash
// file at the restored size. Oracle: the RFC 6962 reference over the leaf list of the restored state; every read
// (TreeSize, Root, GetRootWithNewLeaves(nil / k leaves), GetRootWithNewLeaf, inclusion and consistency proofs when the
// hash store holds the restored state's nodes) is judged right after the reload, BEFORE any append, and again along
// the rest of the history. The hash store is wrapped by a recording store; a model of its content (written from the
// reference, not from the tree) decides whether proofs are available after a rollback.

import (
	"crypto/sha256"
	"encoding/binary"
	"fmt"
	"math/bits"
	"os"
	"path/filepath"
	"strings"
	"testing"

	"github.com/ontio/ontology/common"
	"github.com/ontio/ontology/merkle"
	"pgregory.net/rapid"

	"verifharness/internal/harn"
)

// c26RecStore delegates to a real hash store and records how many hashes were written at which offset.
type c26RecStore struct {
	inner  merkle.HashStore
	off    int // next write position (in hashes)
	length int // number of hashes the store holds
	writes int // number of Append calls
}

func (s *c26RecStore) Append(h []common.Uint256) error {
	s.writes++
	s.off += len(h)
	if s.off > s.length {
		s.length = s.off
	}
	return s.inner.Append(h)
}
func (s *c26RecStore) Flush() error { return s.inner.Flush() }
func (s *c26RecStore) Close()       { s.inner.Close() }
func (s *c26RecStore) GetHash(pos uint32) (common.Uint256, error) {
	return s.inner.GetHash(pos)
}

// number of hashes a store holds for a tree of n leaves
func c26StoredNum(n int) int { return 2*n - bits.OnesCount32(uint32(n)) }

type c26Snap struct {
	id     int
	blob   []byte
	hashes []common.Uint256
	leaves []common.Uint256
	root   common.Uint256
}

// the object under test together with the model of its state
type c26View struct {
	tree       *merkle.CompactMerkleTree
	attached   bool // the tree object was built over the case's hash store
	leaves     []common.Uint256
	ref        *c26Ref
	rootCached bool // Root() was read since the last append / reload of this object
}

type c26Hist struct {
	rt *rapid.T
	ev *harn.Collector
	c26View
	rec *c26RecStore // nil: the case has no hash store
	// model of the store content: what an RFC 6962 tree writes (leaf, then the completed subtree roots) per append
	msData []common.Uint256
	msOff  int
	prev   []common.Uint256 // leaves of the state that was abandoned by the latest reload (for replaying appends)
	seed   uint64
	ctr    uint64
	trace  []string
}

func (h *c26Hist) log(format string, args ...interface{}) {
	h.trace = append(h.trace, fmt.Sprintf(format, args...))
}

func (h *c26Hist) where() string {
	s := strings.Join(h.trace, " ")
	if len(s) > 900 {
		s = "..." + s[len(s)-900:]
	}
	return s
}

func (h *c26Hist) fail(format string, args ...interface{}) {
	h.rt.Helper()
	h.rt.Fatalf("%s\n  history (seed %d): %s", fmt.Sprintf(format, args...), h.seed, h.where())
}

func (h *c26Hist) newLeaf() common.Uint256 {
	var b [17]byte
	b[0] = 0x26
	binary.LittleEndian.PutUint64(b[1:9], h.seed)
	binary.LittleEndian.PutUint64(b[9:], h.ctr)
	h.ctr++
	return sha256.Sum256(b[:])
}

func (h *c26Hist) msWrite(x common.Uint256) {
	if h.msOff < len(h.msData) {
		h.msData[h.msOff] = x
	} else {
		h.msData = append(h.msData, x)
	}
	h.msOff++
}

func (h *c26Hist) append(leaf common.Uint256) {
	i := len(h.leaves)
	h.leaves = append(h.leaves, leaf)
	h.ref.leaves = h.leaves
	if h.attached {
		h.msWrite(leaf)
		for j := uint(1); (i>>(j-1))&1 == 1; j++ {
			w := 1 << j
			h.msWrite(h.ref.mth(i+1-w, i+1))
		}
	}
	h.tree.AppendHash(leaf)
	h.rootCached = false
}

// storeHolds: the model of the store content has, at the positions a tree of the current size reads, the nodes of the
// current leaf list (false after appends that followed an in-object rollback: those are written behind the old tail).
func (h *c26Hist) storeHolds() bool {
	if !h.attached {
		return false
	}
	n := len(h.leaves)
	if len(h.msData) < c26StoredNum(n) {
		return false
	}
	pos := 0
	for i := 0; i < n; i++ {
		if h.msData[pos] != h.leaves[i] {
			return false
		}
		pos++
		for j := uint(1); (i>>(j-1))&1 == 1; j++ {
			w := 1 << j
			if h.msData[pos] != h.ref.mth(i+1-w, i+1) {
				return false
			}
			pos++
		}
	}
	return true
}

func (h *c26Hist) rootOfExtended(extra []common.Uint256) common.Uint256 {
	if len(extra) == 0 {
		return h.ref.mth(0, len(h.leaves))
	}
	ext := append(append([]common.Uint256{}, h.leaves...), extra...)
	return newC26Ref(ext).mth(0, len(ext))
}

// reads judges every read of the current view against the reference, in a generated order. tag says what preceded.
func (h *c26Hist) reads(tag string) {
	t := h.rt
	n := len(h.leaves)
	want := h.ref.mth(0, n)
	storeBefore := [3]int{}
	if h.rec != nil {
		storeBefore = [3]int{h.rec.off, h.rec.length, h.rec.writes}
	}
	order := rapid.Permutation([]int{0, 1, 2, 3, 4, 5}).Draw(t, "readOrder")
	for _, r := range order {
		switch r {
		case 0:
			if got := h.tree.TreeSize(); got != uint32(n) {
				h.fail("%s: TreeSize() = %d, the reference state has %d leaves", tag, got, n)
			}
		case 1:
			if got := h.tree.Root(); got != want {
				h.fail("%s: Root() = %x, MTH of the %d leaves of this state = %x", tag, got[:6], n, want[:6])
			}
			h.rootCached = true
		case 2:
			if got := h.tree.GetRootWithNewLeaves(nil); got != want {
				h.fail("%s: GetRootWithNewLeaves(nil) = %x, MTH of the %d leaves of this state = %x", tag, got[:6], n, want[:6])
			}
		case 3:
			k := rapid.IntRange(1, 5).Draw(t, "previewK")
			extra := make([]common.Uint256, k)
			for i := range extra {
				extra[i] = h.newLeaf()
			}
			if got, w := h.tree.GetRootWithNewLeaves(extra), h.rootOfExtended(extra); got != w {
				h.fail("%s: GetRootWithNewLeaves(%d leaves) on size %d = %x, MTH of %d leaves = %x", tag, k, n, got[:6], n+k, w[:6])
			}
		case 4:
			x := h.newLeaf()
			if got, w := h.tree.GetRootWithNewLeaf(x), h.rootOfExtended([]common.Uint256{x}); got != w {
				h.fail("%s: GetRootWithNewLeaf on size %d = %x, MTH of %d leaves = %x", tag, n, got[:6], n+1, w[:6])
			}
		case 5:
			h.proofs(tag)
		}
	}
	if got := h.tree.TreeSize(); got != uint32(n) {
		h.fail("%s: TreeSize() = %d after the reads, the reference state has %d leaves", tag, got, n)
	}
	if got := h.tree.Root(); got != want {
		h.fail("%s: Root() after the reads = %x, MTH of the %d leaves = %x", tag, got[:6], n, want[:6])
	}
	h.rootCached = true
	if h.rec != nil {
		if now := [3]int{h.rec.off, h.rec.length, h.rec.writes}; now != storeBefore {
			h.fail("%s: reads wrote to the hash store (offset, length, appends) %v -> %v", tag, storeBefore, now)
		}
	}
}

func (h *c26Hist) proofs(tag string) {
	t := h.rt
	n := len(h.leaves)
	if n == 0 || !h.attached {
		return
	}
	if !h.storeHolds() {
		h.ev.Class("snap:proofs-unavailable-after-rollback-append")
		return
	}
	ver := merkle.NewMerkleVerifier()
	one := func(m, sz int) {
		p, err := h.tree.InclusionProof(uint32(m), uint32(sz))
		if err != nil {
			h.fail("%s: InclusionProof(%d,%d) on size %d: %v", tag, m, sz, n, err)
		}
		if !eqHashes(p, h.ref.path(m, 0, sz)) {
			h.fail("%s: InclusionProof(%d,%d) on size %d differs from RFC 6962 PATH", tag, m, sz, n)
		}
		if err := ver.VerifyLeafHashInclusion(h.leaves[m], uint32(m), p, h.ref.mth(0, sz), uint32(sz)); err != nil {
			h.fail("%s: genuine inclusion proof (%d,%d) rejected: %v", tag, m, sz, err)
		}
		cp := h.tree.ConsistencyProof(uint32(sz), uint32(n))
		if !eqHashes(cp, h.ref.subproof(sz, 0, n, true)) {
			h.fail("%s: ConsistencyProof(%d,%d) differs from RFC 6962 PROOF", tag, sz, n)
		}
		if err := ver.VerifyConsistency(uint32(sz), uint32(n), h.ref.mth(0, sz), h.ref.mth(0, n), cp); err != nil {
			h.fail("%s: genuine consistency proof (%d,%d) rejected: %v", tag, sz, n, err)
		}
	}
	if n <= 12 {
		for sz := 1; sz <= n; sz++ {
			for m := 0; m < sz; m++ {
				one(m, sz)
			}
		}
	} else {
		for i := 0; i < 6; i++ {
			sz := rapid.IntRange(1, n).Draw(t, "proofSize")
			if i == 0 {
				sz = n
			}
			one(rapid.IntRange(0, sz-1).Draw(t, "proofLeaf"), sz)
		}
	}
	h.ev.Class("snap:proofs-checked")
}

func (h *c26Hist) save(snaps []*c26Snap) []*c26Snap {
	n := len(h.leaves)
	blob, err := h.tree.Marshal()
	if err != nil {
		h.fail("Marshal at size %d: %v", n, err)
	}
	s := &c26Snap{
		id:     len(snaps),
		blob:   append([]byte{}, blob...),
		hashes: append([]common.Uint256{}, h.tree.Hashes()...),
		leaves: append([]common.Uint256{}, h.leaves...),
		root:   h.ref.mth(0, n),
	}
	h.log("S%d@%d", s.id, n)
	h.ev.Class("snap:saved")
	return append(snaps, s)
}

// relation of a snapshot to the current state, for the class statistics
func (h *c26Hist) relation(s *c26Snap) string {
	cur := h.ref.mth(0, len(h.leaves))
	switch {
	case s.root == cur && len(s.leaves) == len(h.leaves):
		return "same-state"
	case len(s.leaves) < len(h.leaves) && eqHashes(s.leaves, h.leaves[:len(s.leaves)]):
		return "older-state"
	case len(s.leaves) > len(h.leaves) && eqHashes(h.leaves, s.leaves[:len(h.leaves)]):
		return "newer-state"
	default:
		return "other-branch"
	}
}

func (h *c26Hist) adopt(s *c26Snap) {
	h.prev = h.leaves
	h.leaves = append([]common.Uint256{}, s.leaves...)
	h.ref = newC26Ref(h.leaves)
}

func c26Rel(rel string) string {
	if rel == "same-state" {
		return rel
	}
	return "other-state"
}

func TestC26_SnapshotRestore(t *testing.T) {
	ev := harn.For("C26").Rule(c26Rule)
	// non-triviality of the histories rests on reloads of a DIFFERENT state into an object with a cached root
	ev.Floor("snap:restore-used:root-cached:other-state", "snap:cases", 0.5)
	ev.Floor("snap:restore-used:root-not-cached:other-state", "snap:cases", 0.15)
	ev.Floor("snap:restore-fresh", "snap:cases", 0.3)
	ev.Floor("snap:proofs-checked", "snap:cases", 0.5)
	dir, err := os.MkdirTemp("", "verif-c26s-")
	if err != nil {
		t.Fatal(err)
	}
	defer os.RemoveAll(dir)
	caseNo := 0
	harn.Check(t, 400, 24000, func(t *rapid.T) {
		caseNo++
		h := &c26Hist{rt: t, ev: ev, seed: rapid.Uint64().Draw(t, "seed")}
		// store kind: none (as the ledger's delta tree), memory, file
		kind := "mem"
		switch k := rapid.IntRange(0, 9).Draw(t, "storeKind"); {
		case k <= 2:
			kind = "none"
		case k == 9:
			kind = "file"
		}
		var path string
		switch kind {
		case "mem":
			h.rec = &c26RecStore{inner: merkle.NewMemHashStore()}
		case "file":
			path = filepath.Join(dir, fmt.Sprintf("s%d.db", caseNo))
			defer os.Remove(path)
			fs, err := merkle.NewFileHashStore(path, 0)
			if err != nil {
				t.Fatalf("NewFileHashStore: %v", err)
			}
			h.rec = &c26RecStore{inner: fs}
			defer func() { h.rec.Close() }()
		}
		storeOf := func(attach bool) merkle.HashStore {
			if attach && h.rec != nil {
				return h.rec
			}
			return nil
		}
		h.attached = h.rec != nil
		h.tree = merkle.NewTree(0, nil, storeOf(true))
		h.ref = newC26Ref(nil)
		var snaps []*c26Snap
		usedOther, fresh, reopened := 0, 0, 0
		steps := rapid.IntRange(6, 36).Draw(t, "steps")
		if kind == "file" {
			steps = steps/2 + 3 // every append fsyncs
		}
		for step := 0; step < steps; step++ {
			op := rapid.IntRange(0, 99).Draw(t, "op")
			if len(snaps) == 0 && op >= 60 {
				op = 45
			}
			if op >= 95 && (kind != "file" || !h.attached) {
				op = 60
			}
			switch {
			case op < 35: // append
				k := rapid.IntRange(1, 4).Draw(t, "k")
				if rapid.IntRange(0, 9).Draw(t, "burst") == 0 {
					k = rapid.IntRange(5, 24).Draw(t, "kBig")
				}
				replay := rapid.IntRange(0, 2).Draw(t, "replay") == 0
				readRoot := rapid.IntRange(0, 9).Draw(t, "rootAfterAppend") < 6
				for i := 0; i < k; i++ {
					if replay && len(h.leaves) < len(h.prev) {
						h.append(h.prev[len(h.leaves)])
					} else {
						h.append(h.newLeaf())
					}
					if readRoot { // as the ledger does after every block
						n := len(h.leaves)
						if got, want := h.tree.Root(), h.ref.mth(0, n); got != want {
							h.fail("Root() after append to size %d = %x, MTH = %x", n, got[:6], want[:6])
						}
						h.rootCached = true
					}
				}
				h.log("a%d", k)
				ev.Class("snap:append")
			case op < 45:
				h.log("r")
				h.reads(fmt.Sprintf("reads at size %d", len(h.leaves)))
				ev.Class("snap:reads")
			case op < 60:
				snaps = h.save(snaps)
			case op < 85: // reload a saved blob into the current, already used object
				s := snaps[rapid.IntRange(0, len(snaps)-1).Draw(t, "snap")]
				rel := h.relation(s)
				cached := "root-not-cached"
				if h.rootCached {
					cached = "root-cached"
				}
				h.log("U%d(%s,%s)", s.id, rel, cached)
				if err := h.tree.UnMarshal(s.blob); err != nil {
					h.fail("UnMarshal of the blob saved at size %d: %v", len(s.leaves), err)
				}
				h.adopt(s)
				h.rootCached = false
				ev.Class("snap:restore-used:" + cached + ":" + c26Rel(rel))
				ev.Class("snap:restore-used-relation:" + rel)
				if rel != "same-state" {
					usedOther++
				}
				h.reads(fmt.Sprintf("after UnMarshal of snapshot %d (size %d, %s) into the used tree object (%s)", s.id, len(s.leaves), rel, cached))
			case op < 95: // reload into another object; it replaces the current one or is dropped after the reads
				s := snaps[rapid.IntRange(0, len(snaps)-1).Draw(t, "snap")]
				style := rapid.IntRange(0, 3).Draw(t, "freshStyle")
				attach := rapid.Bool().Draw(t, "attach") && h.attached
				replace := rapid.Bool().Draw(t, "replace")
				old := h.c26View
				oldPrev := h.prev
				var nt *merkle.CompactMerkleTree
				how := ""
				switch style {
				case 0:
					how = "NewTree(0)+UnMarshal"
					nt = merkle.NewTree(0, nil, storeOf(attach))
				case 1:
					how = "zero-value+UnMarshal"
					attach = false
					nt = &merkle.CompactMerkleTree{}
				case 2:
					how = "NewTree(size,hashes)"
					nt = merkle.NewTree(uint32(len(s.leaves)), append([]common.Uint256{}, s.hashes...), storeOf(attach))
				default:
					how = "used-clone+UnMarshal"
					nt = merkle.NewTree(uint32(len(h.leaves)), append([]common.Uint256{}, h.tree.Hashes()...), storeOf(attach))
					if nt.Root() != h.ref.mth(0, len(h.leaves)) {
						h.fail("NewTree(size %d, Hashes()) has another root than the reference", len(h.leaves))
					}
				}
				if style != 2 {
					if err := nt.UnMarshal(s.blob); err != nil {
						h.fail("%s of the blob saved at size %d: %v", how, len(s.leaves), err)
					}
				}
				rel := h.relation(s)
				h.log("F%d(%s,%s,attach=%v,replace=%v)", s.id, how, rel, attach, replace)
				h.tree, h.attached, h.rootCached = nt, attach, false
				h.adopt(s)
				ev.Class("snap:restore-fresh")
				ev.Class("snap:restore-fresh:" + how)
				fresh++
				h.reads(fmt.Sprintf("after %s of snapshot %d (size %d, %s)", how, s.id, len(s.leaves), rel))
				if !replace {
					h.c26View = old
					h.prev = oldPrev
				}
			default: // file store: close, reopen the hash file at the size of a saved state, reload into a new object
				// only states whose nodes fit into what the file holds (trees reloaded WITHOUT the store may have outgrown it)
				var cands []*c26Snap
				for _, c := range snaps {
					if c26StoredNum(len(c.leaves)) <= len(h.msData) {
						cands = append(cands, c)
					}
				}
				if len(cands) == 0 {
					ev.Class("snap:file-reopen-skipped")
					continue
				}
				s := cands[rapid.IntRange(0, len(cands)-1).Draw(t, "snap")]
				size := len(s.leaves)
				h.rec.inner.Close()
				fs, err := merkle.NewFileHashStore(path, uint32(size))
				if err != nil {
					// keep a usable handle for the deferred Close
					if f2, e2 := merkle.NewFileHashStore(path, 0); e2 == nil {
						h.rec.inner = f2
					}
					h.fail("reopening the hash file (%d hashes stored) at tree size %d: %v", h.rec.length, size, err)
				}
				h.rec.inner = fs
				h.rec.off = c26StoredNum(size)
				h.msOff = c26StoredNum(size)
				rel := h.relation(s)
				style := rapid.IntRange(0, 1).Draw(t, "reopenStyle")
				if style == 0 {
					h.tree = merkle.NewTree(uint32(size), append([]common.Uint256{}, s.hashes...), h.rec)
				} else {
					h.tree = merkle.NewTree(0, nil, h.rec)
					if err := h.tree.UnMarshal(s.blob); err != nil {
						h.fail("UnMarshal after reopening the hash file at size %d: %v", size, err)
					}
				}
				h.log("O%d(%s,style%d)", s.id, rel, style)
				h.attached, h.rootCached = true, false
				h.adopt(s)
				ev.Class("snap:file-reopen-at-snapshot:" + c26Rel(rel))
				reopened++
				h.reads(fmt.Sprintf("after reopening the hash file at snapshot %d (size %d, %s)", s.id, size, rel))
			}
		}
		h.reads("final reads")
		ev.Class("snap:cases")
		ev.Class("snap:cases:" + kind)
		desc := fmt.Sprintf("snapshots store=%s seed=%d ops=%s", kind, h.seed, strings.Join(h.trace, " "))
		if len(desc) > 560 {
			desc = desc[:560] + fmt.Sprintf("...#%x", sha256.Sum256([]byte(desc)))[:20]
		}
		ev.Case(usedOther > 0 || fresh > 0 || reopened > 0, desc)
	})
}
