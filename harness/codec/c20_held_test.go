package codec

// C20, held results. "A block decoded from bytes re-encodes to the same bytes" and "the block hash
// covers every header field except ..." describe the block, not the moment of the call: what
// Block.ToArray / Header.ToArray / Header.GetRawHeader / Hash and the decoded header fields,
// bookkeepers, signatures and transactions say about one block must not change because OTHER blocks
// and headers are encoded or decoded later. Every result obtained for block i is kept untouched next
// to a private deep copy taken at return time while 1..6 further blocks go through the encoder
// (struct -> bytes) and the decoders (BlockFromRawBytes, HeaderFromRawBytes, RawHeader) - among them
// RELATED blocks: the same height and transactions with one header field, the signer list or the
// transaction list edited, and exact duplicates - interleaved with failing decodes and optionally
// followed by joined goroutines doing the same. Then everything is compared, recomputed (determinism
// against call history), the held bytes are decoded again, and the caller-owned buffers are
// overwritten: bytes returned by ToArray/GetRawHeader and hashes do not follow the decoder input or
// the ConsensusPayload/SigData buffers of the encoded struct (ConsensusPayload, SigData, RawHeader
// payload and transaction Raw of a DECODED block are zero-copy views and are not asserted there).

import (
	"bytes"
	"crypto/sha256"
	"fmt"
	"strings"
	"sync"
	"testing"

	"github.com/ontio/ontology-crypto/keypair"
	"github.com/ontio/ontology/common"
	"github.com/ontio/ontology/core/types"
	"pgregory.net/rapid"

	"verifharness/internal/harn"
)

const (
	c20RBuilt    = iota // types.Block struct -> ToArray
	c20RDecoded         // BlockFromRawBytes(private copy)
	c20RHeader          // HeaderFromRawBytes(private copy of the header bytes)
	c20RRawHdr          // RawHeader.Deserialization inside a larger source
)

var c20RouteName = []string{"built", "decoded", "header", "rawheader"}

type c20Job struct {
	route int
	hdr   *c20Hdr
	txs   []*types.Transaction
	raws  [][]byte
	ref   []byte // reference encoding of the block
	hdrB  []byte // reference encoding of the header
	hash  common.Uint256
	desc  string
}

func (j *c20Job) String() string { return c20RouteName[j.route] + "{" + j.desc + "}" }

type c20Snap struct {
	arr, hdrArr, rawHdr []byte
	rawHeight           uint32
	hash                common.Uint256
	scalars             string // header fields held by value + canonical bookkeeper keys
	views               []byte // consensus payload and signatures
	txs                 string
}

type c20Held struct {
	job    *c20Job
	in     []byte
	blk    *types.Block // nil for header routes
	hd     *types.Header
	rh     *types.RawHeader // returned by GetRawHeader, or decoded (route rawheader)
	arr    []byte           // returned by Block.ToArray
	hdrArr []byte           // returned by Header.ToArray
	snap   *c20Snap
}

func c20TakeSnap(h *c20Held) *c20Snap {
	s := &c20Snap{}
	if h.blk != nil {
		s.arr = append([]byte{}, h.blk.ToArray()...)
		s.hash = h.blk.Hash()
		var sb strings.Builder
		for _, tx := range h.blk.Transactions {
			fmt.Fprintf(&sb, "%x:%x ", tx.Hash(), sha256.Sum256(tx.ToArray()))
		}
		s.txs = sb.String()
	}
	if h.hd != nil {
		hd := h.hd
		s.hdrArr = append([]byte{}, hd.ToArray()...)
		if h.blk == nil {
			s.hash = hd.Hash()
		} else if hh := hd.Hash(); hh != s.hash {
			s.txs += fmt.Sprintf(" Header.Hash()=%x", hh)
		}
		raw := hd.GetRawHeader()
		s.rawHdr, s.rawHeight = append([]byte{}, raw.Payload...), raw.Height
		var keys []string
		for _, k := range hd.Bookkeepers {
			keys = append(keys, fmt.Sprintf("%x", keypair.SerializePublicKey(k)))
		}
		s.scalars = fmt.Sprintf("version=%d prev=%x txroot=%x blockroot=%x ts=%d height=%d cdata=%d next=%x keys=%s",
			hd.Version, hd.PrevBlockHash, hd.TransactionsRoot, hd.BlockRoot, hd.Timestamp, hd.Height, hd.ConsensusData, hd.NextBookkeeper[:], strings.Join(keys, ","))
		e := &c19Enc{}
		e.varbytes(hd.ConsensusPayload)
		for _, sg := range hd.SigData {
			e.varbytes(sg)
		}
		s.views = e.b
	} else if h.rh != nil {
		s.rawHdr, s.rawHeight = append([]byte{}, h.rh.Payload...), h.rh.Height
	}
	return s
}

func c20SnapDiff(now, then *c20Snap, copiesOnly bool) string {
	switch {
	case now.hash != then.hash:
		return fmt.Sprintf("Hash() was %x, is %x", then.hash, now.hash)
	case now.scalars != then.scalars:
		return fmt.Sprintf("header fields / bookkeepers were %s, are %s", then.scalars, now.scalars)
	case now.rawHeight != then.rawHeight:
		return fmt.Sprintf("raw header height was %d, is %d", then.rawHeight, now.rawHeight)
	}
	if copiesOnly {
		return ""
	}
	switch {
	case !bytes.Equal(now.arr, then.arr):
		return "Block.ToArray() changed:" + c19Was(then.arr, now.arr)
	case !bytes.Equal(now.hdrArr, then.hdrArr):
		return "Header.ToArray() changed:" + c19Was(then.hdrArr, now.hdrArr)
	case !bytes.Equal(now.rawHdr, then.rawHdr):
		return "raw header payload changed:" + c19Was(then.rawHdr, now.rawHdr)
	case !bytes.Equal(now.views, then.views):
		return fmt.Sprintf("ConsensusPayload/SigData were %s, are %s", c19Short(then.views), c19Short(now.views))
	case now.txs != then.txs:
		return fmt.Sprintf("transactions (hash:sha256(ToArray)) were %s, are %s", then.txs, now.txs)
	}
	return ""
}

func c20BuildStruct(j *c20Job) (*types.Block, error) {
	h := j.hdr
	hd := &types.Header{Version: h.version, PrevBlockHash: h.prev, TransactionsRoot: h.txRoot, BlockRoot: h.br, Timestamp: h.ts, Height: h.height,
		ConsensusData: h.cdata, ConsensusPayload: h.cpayload, NextBookkeeper: h.next, SigData: h.sigs}
	for _, kb := range h.keys {
		k, err := keypair.DeserializePublicKey(kb)
		if err != nil {
			return nil, err
		}
		hd.Bookkeepers = append(hd.Bookkeepers, k)
	}
	return &types.Block{Header: hd, Transactions: j.txs}, nil
}

func (j *c20Job) run() (h *c20Held, msg string) {
	defer func() {
		if r := recover(); r != nil {
			msg = fmt.Sprintf("panic in %s: %v\n%s", j, r, c18Stack())
		}
	}()
	h = &c20Held{job: j}
	var err error
	switch j.route {
	case c20RBuilt:
		h.blk, err = c20BuildStruct(j)
	case c20RDecoded:
		h.in = append([]byte{}, j.ref...)
		h.blk, err = types.BlockFromRawBytes(h.in)
	case c20RHeader:
		h.in = append([]byte{}, j.hdrB...)
		h.hd, err = types.HeaderFromRawBytes(h.in)
	default:
		h.in = append(append([]byte{0xEE, 0xEE}, j.hdrB...), 1, 2, 3)
		src := common.NewZeroCopySource(h.in)
		src.Skip(2)
		h.rh = &types.RawHeader{}
		err = h.rh.Deserialization(src)
		if err == nil && src.Pos() != uint64(2+len(j.hdrB)) {
			return h, fmt.Sprintf("%s: RawHeader consumed up to %d, want %d", j, src.Pos(), 2+len(j.hdrB))
		}
	}
	if err != nil {
		return h, fmt.Sprintf("%s rejected: %v", j, err)
	}
	if h.blk != nil {
		h.hd = h.blk.Header
		h.arr = h.blk.ToArray()
	}
	if h.hd != nil {
		h.hdrArr = h.hd.ToArray()
		h.rh = h.hd.GetRawHeader()
	}
	h.snap = c20TakeSnap(h)
	s := h.snap
	if h.blk != nil && !bytes.Equal(s.arr, j.ref) {
		return h, fmt.Sprintf("%s: Block.ToArray() differs from the reference encoding:\n got %s\n ref %s", j, c19Short(s.arr), c19Short(j.ref))
	}
	if h.hd != nil && (!bytes.Equal(s.hdrArr, j.hdrB) || s.hash != j.hash) {
		return h, fmt.Sprintf("%s: Header.ToArray()/Hash() differ from the reference: %s hash %x, reference %s hash %x", j, c19Short(s.hdrArr), s.hash, c19Short(j.hdrB), j.hash)
	}
	if !bytes.Equal(s.rawHdr, j.hdrB) || s.rawHeight != j.hdr.height {
		return h, fmt.Sprintf("%s: raw header (height %d) %s differs from the reference header bytes (height %d) %s", j, s.rawHeight, c19Short(s.rawHdr), j.hdr.height, c19Short(j.hdrB))
	}
	return h, ""
}

func (h *c20Held) check(when string, copiesOnly bool) (msg string) {
	defer func() {
		if r := recover(); r != nil {
			msg = fmt.Sprintf("panic while re-reading %s %s: %v\n%s", h.job, when, r, c18Stack())
		}
	}()
	if !bytes.Equal(h.arr, h.snap.arr) {
		return fmt.Sprintf("the bytes returned by Block.ToArray() for %s changed %s:%s", h.job, when, c19Was(h.snap.arr, h.arr))
	}
	if !bytes.Equal(h.hdrArr, h.snap.hdrArr) {
		return fmt.Sprintf("the bytes returned by Header.ToArray() for %s changed %s:%s", h.job, when, c19Was(h.snap.hdrArr, h.hdrArr))
	}
	if h.hd != nil && (!bytes.Equal(h.rh.Payload, h.snap.rawHdr) || h.rh.Height != h.snap.rawHeight) {
		return fmt.Sprintf("the RawHeader returned by GetRawHeader() for %s changed %s:%s", h.job, when, c19Was(h.snap.rawHdr, h.rh.Payload))
	}
	if d := c20SnapDiff(c20TakeSnap(h), h.snap, copiesOnly); d != "" {
		return fmt.Sprintf("block %s read again %s: %s", h.job, when, d)
	}
	return ""
}

func c20FinishJob(j *c20Job, route int, desc string) *c20Job {
	j.route = route
	j.ref = c20EncodeBlock(j.hdr, uint32(len(j.raws)), j.raws)
	j.hdrB = j.hdr.encode()
	j.hash = c19Sha256d(j.hdr.unsigned())
	j.desc = fmt.Sprintf("%s h=%d ts=%d cp=%d txs=%d bk=%d sigs=%d hash=%x", desc, j.hdr.height, j.hdr.ts, len(j.hdr.cpayload), len(j.raws), len(j.hdr.keys), len(j.hdr.sigs), j.hash[:4])
	return j
}

// c20GenHeldJob draws a fresh block or a relative of an earlier one (same height).
func c20GenHeldJob(t *rapid.T, prev []*c20Job) *c20Job {
	route := c25Uniform(t, 8, "route") // built 3/8, decoded 3/8, header 1/8, rawheader 1/8
	switch {
	case route < 3:
		route = c20RBuilt
	case route < 6:
		route = c20RDecoded
	case route == 6:
		route = c20RHeader
	default:
		route = c20RRawHdr
	}
	if len(prev) == 0 || c25Uniform(t, 2, "fresh") == 0 {
		g := c20GenBlockN(t, 0, 3)
		return c20FinishJob(&c20Job{hdr: g.hdr, txs: g.txs, raws: g.raws}, route, "fresh")
	}
	p := prev[c25Uniform(t, len(prev), "of")]
	j := &c20Job{hdr: p.hdr.clone(), txs: p.txs, raws: p.raws}
	h := j.hdr
	edit := ""
	switch c25Uniform(t, 8, "edit") {
	case 0:
		h.ts ^= 1 << uint(c25Uniform(t, 32, "bit"))
		edit = "timestamp"
	case 1:
		if len(h.cpayload) > 0 {
			h.cpayload[c25Uniform(t, len(h.cpayload), "at")%len(h.cpayload)] ^= 0x10
		} else {
			h.cpayload = []byte{7}
		}
		edit = "cpayload"
	case 2:
		if len(h.sigs) > 0 {
			h.sigs = h.sigs[:len(h.sigs)-1]
		} else {
			h.sigs = append(h.sigs, []byte{1, 2, 3})
		}
		edit = "signatures"
	case 3:
		if len(h.keys) > 1 {
			h.keys[0], h.keys[len(h.keys)-1] = h.keys[len(h.keys)-1], h.keys[0]
		} else {
			h.keys = append(h.keys, keypair.SerializePublicKey(c19GenKey(t, "bk").PublicKey))
		}
		edit = "bookkeepers"
	case 4:
		if len(j.txs) > 0 { // drop the last transaction, recompute the root
			j.txs, j.raws = j.txs[:len(j.txs)-1], j.raws[:len(j.raws)-1]
			var hs []common.Uint256
			for _, tx := range j.txs {
				hs = append(hs, tx.Hash())
			}
			h.txRoot = c20RefRoot(hs)
			edit = "drop-tx"
		} else {
			h.cdata++
			edit = "cdata"
		}
	case 5:
		h.next[c25Uniform(t, 20, "at")] ^= 1
		edit = "next-bookkeeper"
	default:
		edit = "duplicate"
	}
	return c20FinishJob(j, route, edit+" of "+fmt.Sprintf("%x", p.hash[:4]))
}

func TestC20_HeldResults(t *testing.T) {
	ev := harn.For("C20").Rule(c20Rule)
	ev.Floor("held:distinct>=2", "held", 0.80)
	ev.Floor("held:later>=3", "held", 0.30)
	ev.Floor("held:concurrent", "held", 0.15)
	ev.Floor("held:related", "held", 0.40)
	harn.Check(t, 260, 8000, func(t *rapid.T) {
		n := 2 + c25Uniform(t, 6, "further") // the first block is held over 1..6 further ones
		var held []*c20Held
		var jobs []*c20Job
		var desc []string
		related := false
		add := func(h *c20Held) {
			held, jobs = append(held, h), append(jobs, h.job)
			desc = append(desc, h.job.String())
			ev.Class("held:route=" + c20RouteName[h.job.route])
			if strings.Contains(h.job.desc, " of ") {
				related = true
			}
		}
		for i := 0; i < n; i++ {
			j := c20GenHeldJob(t, jobs)
			h, msg := j.run()
			if msg != "" {
				t.Fatalf("%s", msg)
			}
			add(h)
			switch c25Uniform(t, 6, "noise") {
			case 0: // a block that fails late (transaction root)
				k := held[c25Uniform(t, len(held), "which")].job
				bad := k.hdr.clone()
				bad.txRoot[3] ^= 1
				var err error
				guard(t, "BlockFromRawBytes", func() { _, err = types.BlockFromRawBytes(c20EncodeBlock(bad, uint32(len(k.raws)), k.raws)) })
				if err == nil {
					t.Fatalf("block with a modified transaction root accepted")
				}
				ev.Class("held:noise=bad-root")
			case 1:
				k := held[c25Uniform(t, len(held), "which")].job
				var err error
				guard(t, "HeaderFromRawBytes", func() { _, err = types.HeaderFromRawBytes(append([]byte{}, k.hdrB[:len(k.hdrB)-1]...)) })
				if err == nil && len(k.hdr.sigs) > 0 {
					t.Fatalf("truncated header accepted: %x", k.hdrB[:len(k.hdrB)-1])
				}
				ev.Class("held:noise=truncated-header")
			}
		}
		for i, h := range held {
			if msg := h.check(fmt.Sprintf("after %d further blocks were encoded/decoded on the same goroutine", n-1-i), false); msg != "" {
				t.Fatalf("%s\nsequence: %s", msg, strings.Join(desc, " ; "))
			}
		}

		conc := 0
		if c25Uniform(t, 3, "concurrent") == 0 {
			conc = 2 + c25Uniform(t, 3, "goroutines")
			todo := make([][]*c20Job, conc)
			for g := range todo {
				for k, m := 0, 1+c25Uniform(t, 2, "perG"); k < m; k++ {
					todo[g] = append(todo[g], c20GenHeldJob(t, jobs))
				}
			}
			res := make([][]*c20Held, conc)
			msgs := make([]string, conc)
			var wg sync.WaitGroup
			for g := range todo {
				wg.Add(1)
				go func(g int) {
					defer wg.Done()
					for _, j := range todo[g] {
						h, msg := j.run()
						if msg != "" {
							msgs[g] = msg
							return
						}
						res[g] = append(res[g], h)
					}
				}(g)
			}
			wg.Wait()
			for g := range res {
				if msgs[g] != "" {
					t.Fatalf("goroutine %d of %d: %s", g, conc, msgs[g])
				}
				for _, h := range res[g] {
					add(h)
				}
			}
		}

		for _, h := range held {
			if msg := h.check("by the end of the case", false); msg != "" {
				t.Fatalf("%s\nsequence: %s", msg, strings.Join(desc, " ; "))
			}
		}
		for _, h := range held {
			again, msg := h.job.run()
			if msg != "" {
				t.Fatalf("second run: %s", msg)
			}
			if d := c20SnapDiff(again.snap, h.snap, false); d != "" {
				t.Fatalf("%s run again after the others gives a different result: %s\nsequence: %s", h.job, d, strings.Join(desc, " ; "))
			}
		}
		// the held bytes are used again
		for _, h := range held {
			if h.arr != nil {
				msg, v := c20Judge(h.arr, nil)
				if msg != "" || v.blk == nil || len(v.consumed) != len(h.arr) || v.blk.Hash() != h.snap.hash {
					t.Fatalf("the bytes held for %s no longer decode to it: %s (err %v)\nsequence: %s", h.job, msg, v.err, strings.Join(desc, " ; "))
				}
			}
			if h.rh != nil {
				var hd *types.Header
				var err error
				guard(t, "HeaderFromRawBytes", func() { hd, err = types.HeaderFromRawBytes(append([]byte{}, h.rh.Payload...)) })
				if err != nil || hd.Hash() != h.job.hash {
					t.Fatalf("the raw header held for %s no longer decodes to it (err %v)\nsequence: %s", h.job, err, strings.Join(desc, " ; "))
				}
			}
		}

		// caller-owned buffers are overwritten: decoder inputs, and the ConsensusPayload / SigData
		// buffers the encoded structs were made of (relatives share them, so all built blocks count)
		for _, h := range held {
			if h.in != nil {
				c19Flip(h.in)
				ev.Class("held:overwrite:decoder-input")
			} else {
				c19Flip(h.job.hdr.cpayload)
				ev.Class("held:overwrite:struct-buffers")
			}
		}
		seen := map[*byte]bool{}
		for _, h := range held {
			for _, s := range h.job.hdr.sigs {
				if len(s) > 0 && !seen[&s[0]] {
					seen[&s[0]] = true
					c19Flip(s)
				}
			}
		}
		for _, h := range held {
			if h.job.route == c20RRawHdr {
				continue // the decoded RawHeader payload is a view of the input
			}
			if msg := h.check("when the caller-owned buffers (decoder input / ConsensusPayload and SigData of the struct) were overwritten", true); msg != "" {
				t.Fatalf("%s\nsequence: %s", msg, strings.Join(desc, " ; "))
			}
		}

		distinct := map[string]bool{}
		for _, h := range held[:n] {
			distinct[string(h.job.ref)] = true
		}
		ev.Class("held")
		ev.ClassN("held:blocks", int64(len(held)))
		if len(distinct) >= 2 {
			ev.Class("held:distinct>=2")
		}
		if related {
			ev.Class("held:related")
		}
		if n-1 >= 3 {
			ev.Class("held:later>=3")
		}
		if conc > 0 {
			ev.Class("held:concurrent")
		}
		d := fmt.Sprintf("held n=%d conc=%d %s", n, conc, strings.Join(desc, " ; "))
		if len(d) > 560 {
			d = d[:560] + fmt.Sprintf("..#%x", c19Sha256d([]byte(d)))[:24]
		}
		ev.Case(len(distinct) >= 2, d)
	})
}
