package ident

// C41 Role-based contract authorization grants exactly the assigned functions.
//
// Stateful property test of the native auth contract on the native sandbox (real ontid + auth
// contracts over the genesis state). A reference model tracks, per app contract, the admin, the
// functions of every role, the roles held directly by every ONT ID and the delegations
// (role, root, expiry, level); every verifyToken result is compared with
//     key keyNo of caller witnessed  AND  EXISTS role: fn in funcs(role) AND
//         (caller holds role directly  OR  caller holds a delegation of role with expire > now)
// The instant now == expire is a don't-care (auth.go uses `<` in getAuthToken and `<=` in
// verifyToken; the property does not fix it). Admin-type actions (initContractAdmin, transfer,
// assignFuncsToRole, assignOntIDsToRole, delegate, withdraw) are judged one-directionally: a call
// that reports success must have been authorised on the model's pre-state; the model is updated
// from successful calls only, so "unauthorised actions change nothing" is observed through all later
// verifyToken calls and a full (contract x identity x function) sweep at the end of each history.

import (
	"fmt"
	"sort"
	"strings"
	"testing"

	"github.com/ontio/ontology/common"
	"pgregory.net/rapid"

	"verifharness/internal/fix"
	"verifharness/internal/harn"
)

const (
	c41NIDs  = 5 // ids 0..3 are registered, id 4 is a well-formed but unregistered ONT ID
	c41NReg  = 4
	c41NCons = 2
)

var (
	c41Roles = []string{"r", "r1", "r1x", "q"}
	c41Fns   = []string{"f", "f1", "f2", "g"}
	c41Cons  = []common.Address{{0xc4, 0x1a, 1}, {0xc4, 0x1a, 2}}
)

type c41Key struct {
	pk      *pkey
	revoked bool
}

type c41Deleg struct {
	role   string
	root   int
	expire uint32
	level  uint64
}

type c41Model struct {
	ids     [][]byte
	keys    [][]*c41Key   // per id
	admin   [c41NCons]int // -1 unset
	roleFns [c41NCons]map[string]map[string]bool
	direct  [c41NCons][c41NIDs]map[string]bool
	deleg   [c41NCons][c41NIDs][]*c41Deleg
}

func (m *c41Model) witnessed(id int, keyNo uint64, signers []common.Address) bool {
	if keyNo < 1 || keyNo > uint64(len(m.keys[id])) {
		return false
	}
	k := m.keys[id][keyNo-1]
	return !k.revoked && addrSet(signers)[k.pk.addr]
}

// usableKey returns a key number of id that is not revoked (0 if none).
func (m *c41Model) usableKeys(id int) []uint64 {
	var out []uint64
	for i, k := range m.keys[id] {
		if !k.revoked {
			out = append(out, uint64(i+1))
		}
	}
	return out
}

func (m *c41Model) findDeleg(c, to int, role string) *c41Deleg {
	for _, d := range m.deleg[c][to] {
		if d.role == role {
			return d
		}
	}
	return nil
}

// holds: does id hold role (strictly / only at the boundary instant)?
func (m *c41Model) holds(c, id int, role string, now uint32) (strict, boundary bool) {
	if m.direct[c][id][role] {
		return true, false
	}
	if d := m.findDeleg(c, id, role); d != nil {
		if d.expire > now {
			return true, false
		}
		if d.expire == now {
			return false, true
		}
	}
	return false, false
}

// grants: the role part of the verifyToken oracle.
func (m *c41Model) grants(c, id int, fn string, now uint32) (strict, boundary bool, via string) {
	roles := make([]string, 0, len(m.roleFns[c]))
	for r := range m.roleFns[c] {
		roles = append(roles, r)
	}
	sort.Strings(roles)
	for _, r := range roles {
		if !m.roleFns[c][r][fn] {
			continue
		}
		s, b := m.holds(c, id, r, now)
		if s {
			if m.direct[c][id][r] {
				return true, false, "direct"
			}
			if via == "" || via == "instant" {
				via = "delegated"
			}
			strict = true
		}
		if b && !strict {
			boundary = true
			via = "instant"
		}
	}
	if strict {
		return true, false, via
	}
	return false, boundary, via
}

type c41Profile struct {
	name    string
	steps   int
	weights map[string]int
	preseed bool
}

var c41Profiles = map[string]c41Profile{
	"general": {name: "general", steps: 70, weights: map[string]int{"init": 2, "transfer": 2, "assignFuncs": 5, "assignIDs": 5,
		"delegate": 6, "withdraw": 3, "advance": 4, "verify": 12, "revokeKey": 1}},
	"expiry": {name: "expiry", steps: 45, preseed: true, weights: map[string]int{"init": 1, "transfer": 1, "assignFuncs": 2, "assignIDs": 3,
		"delegate": 8, "withdraw": 4, "advance": 7, "verify": 14, "revokeKey": 0}},
}

// c41KnownKey: assignOntIDsToRole reports success but silently skips a person that already has
// some permanent token and currently holds an unexpired *delegated* token of the role
// (auth.go assignToRole de-duplicates with hasRole, which also counts delegations).
const c41KnownKey = "assign-skipped-while-delegated"

// c41Witness replays the minimal history of that finding; true = it still reproduces.
func c41Witness(ch *fix.Chain, pool []*pkey) bool {
	n := ch.NewNative()
	ids := [][]byte{mkID("c41w", 0), mkID("c41w", 1), mkID("c41w", 2)}
	sg := func(i int) []common.Address { return []common.Address{pool[i].addr} }
	for i, id := range ids {
		if _, err := n.Call(ontidAddr, "regIDWithPublicKey", aRegIDWithPublicKey(id, pool[i].pub), sg(i)); err != nil {
			return false
		}
	}
	app := c41Cons[0]
	A, C, D := ids[0], ids[1], ids[2]
	ok := true
	step := func(res []byte, err error) { ok = ok && isTrue(res, err) }
	step(n.CallFrom(&app, authAddr, "initContractAdmin", aInitContractAdmin(A), nil))
	step(n.Call(authAddr, "assignFuncsToRole", aAssignFuncsToRole(app, A, []byte("r"), []string{"f"}, 1), sg(0)))
	step(n.Call(authAddr, "assignOntIDsToRole", aAssignOntIDsToRole(app, A, []byte("r"), [][]byte{C}, 1), sg(0)))
	step(n.Call(authAddr, "assignOntIDsToRole", aAssignOntIDsToRole(app, A, []byte("q"), [][]byte{D}, 1), sg(0)))
	step(n.Call(authAddr, "delegate", aDelegate(app, C, D, []byte("r"), 10, 1, 1), sg(1)))
	step(n.Call(authAddr, "assignOntIDsToRole", aAssignOntIDsToRole(app, A, []byte("r"), [][]byte{D}, 1), sg(0)))
	if !ok {
		return false
	}
	n.Time += 11
	return !isTrue(n.Call(authAddr, "verifyToken", aVerifyToken(app, D, "f", 1), sg(2)))
}

func TestC41_AuthHistory(t *testing.T)      { runC41(t, c41Profiles["general"], 300, 6000) }
func TestC41_DelegationExpiry(t *testing.T) { runC41(t, c41Profiles["expiry"], 300, 6000) }

func runC41(t *testing.T, prof c41Profile, quick, thorough int) {
	ch, done := newLedger(t)
	defer done()
	pool := keyPool(10)
	ev := harn.For("C41")
	ev.Rule("stateful histories (rapid t.Repeat, ~45-70 steps) over the real auth+ontid native contracts: 4 registered ONT IDs " +
		"(1-2 keys, zoo key kinds) + 1 unregistered, 2 app contracts, roles/functions from small alphabets; actions initContractAdmin " +
		"(from the contract context), transfer, assignFuncsToRole, assignOntIDsToRole, delegate(period, level), withdraw, advance time " +
		"(incl. exactly to expire-1/expire/expire+1), ontid key revocation, verifyToken(caller, fn, keyNo, signer set); ~70% of actions " +
		"valid by construction from the model, ~30% unauthorised / wrong key / no witness / not-a-role-holder. Non-trivial: a history with " +
		"at least one verifyToken=true and at least one role-based verifyToken=false under a witnessed key. Distinct: different action logs.")
	ev.Assume("the sandbox call (SignedAddr = chosen signer set, commit on success, reset on error) is how a transaction reaches a native contract")
	ev.Assume("function names are non-empty (the contract drops empty names), key numbers < 2^32, block times before 2100-01-01 (permanent-token expiry)")
	// floors for the classes the non-triviality rule and the mutants rely on; the two profiles run
	// in separate processes, the general one reaches delegations later and less often
	dlgFloor := 0.01
	if prof.preseed {
		dlgFloor = 0.03
	}
	ev.Floor("verifyToken:true-direct", "verifyToken", 0.05)
	ev.Floor("verifyToken:true-delegated", "verifyToken", dlgFloor)
	ev.Floor("verifyToken:false-expired", "verifyToken", dlgFloor/2)
	ev.Floor("verifyToken:false-norole", "verifyToken", 0.05)
	ev.Floor("verifyToken:false-nowitness", "verifyToken", 0.05)
	ev.Floor("delegate:ok", "delegate", 0.15)
	ev.Floor("delegate:unauth-attempt", "delegate", 0.05)
	ev.Floor("withdraw:ok", "withdraw", 0.10)
	ev.Floor("assignFuncsToRole:ok", "assignFuncsToRole", 0.30)
	ev.Floor("assignOntIDsToRole:ok", "assignOntIDsToRole", 0.30)
	ev.Floor("transfer:ok", "transfer", 0.10)
	ev.Floor("admin:unauth-attempt", "admin", 0.10)

	exclude := harn.Known("C41", c41KnownKey, c41Witness(ch, pool))

	harn.CheckSteps(t, prof.steps, quick, thorough, func(rt *rapid.T) {
		n := ch.NewNative()
		m := &c41Model{}
		var logb []string
		sawTrue, sawRoleFalse := false, false
		logf := func(f string, a ...interface{}) {
			logb = append(logb, fmt.Sprintf(f, a...))
		}
		history := func() string { return strings.Join(logb, "; ") }
		fail := func(f string, a ...interface{}) {
			rt.Fatalf("C41 %s\n  history: %s", fmt.Sprintf(f, a...), history())
		}

		// ---- setup: ids and keys through the real ontid contract -------------------------------
		kperm := rapid.Permutation([]int{0, 1, 2, 3, 4, 5, 6, 7, 8, 9, 10, 11, 12, 13, 14, 16}).Draw(rt, "keys") // 15 = eth-type key (kept out: see report)
		nk := 0
		nextKey := func() *pkey { k := pool[kperm[nk]]; nk++; return k }
		for i := 0; i < c41NIDs; i++ {
			m.ids = append(m.ids, mkID("c41", i))
			m.keys = append(m.keys, nil)
		}
		for i := 0; i < c41NReg; i++ {
			k := nextKey()
			if _, err := n.Call(ontidAddr, "regIDWithPublicKey", aRegIDWithPublicKey(m.ids[i], k.pub), []common.Address{k.addr}); err != nil {
				fail("setup: regIDWithPublicKey(id%d,%s) failed: %v", i, k.name, err)
			}
			m.keys[i] = append(m.keys[i], &c41Key{pk: k})
			if i < 2 { // second key: added by addKey, i.e. without authentication rights, still proves control
				k2 := nextKey()
				if _, err := n.Call(ontidAddr, "addKey", aAddKey(m.ids[i], k2.pub, k.pub, nil), []common.Address{k.addr}); err != nil {
					fail("setup: addKey(id%d,%s) failed: %v", i, k2.name, err)
				}
				m.keys[i] = append(m.keys[i], &c41Key{pk: k2})
			}
		}
		for c := 0; c < c41NCons; c++ {
			m.admin[c] = -1
			m.roleFns[c] = map[string]map[string]bool{}
			for i := 0; i < c41NIDs; i++ {
				m.direct[c][i] = map[string]bool{}
			}
		}

		sigOf := func(id int, keyNo uint64) []common.Address {
			if keyNo >= 1 && keyNo <= uint64(len(m.keys[id])) {
				return []common.Address{m.keys[id][keyNo-1].pk.addr}
			}
			return nil
		}
		// goodKey draws a usable (non-revoked) key number of id, 0 if none.
		goodKey := func(id int, label string) uint64 {
			u := m.usableKeys(id)
			if len(u) == 0 {
				return 0
			}
			return pickFrom(rt, label, u)
		}
		// badAuth draws a (keyNo, signers) pair that does NOT prove control of id.
		badAuth := func(id int, label string) (uint64, []common.Address, string) {
			switch uni(rt, label+"Kind", 4) {
			case 0: // right key number, nobody signs
				return goodKey(id, label), nil, "nosig"
			case 1: // right key number, somebody else signs
				other := uni(rt, label+"Other", c41NReg)
				if other == id {
					other = (other + 1) % c41NReg
				}
				return goodKey(id, label), sigOf(other, 1), "othersig"
			case 2: // key number out of range / zero, signed by key 1
				kn := pickFrom(rt, label+"No", []uint64{0, 3, 7})
				return kn, sigOf(id, 1), "badkeyno"
			default: // a revoked key (if any) signed by itself, else key 2 signed by key 1
				for i, k := range m.keys[id] {
					if k.revoked {
						return uint64(i + 1), []common.Address{k.pk.addr}, "revokedkey"
					}
				}
				return 2, sigOf(id, 1), "wrongsig"
			}
		}

		adminCall := func(name string, c int, admin int, keyNo uint64, signers []common.Address, argb []byte, caller *common.Address) bool {
			ev.Class("admin")
			ev.Class(name)
			var res []byte
			var err error
			if caller != nil {
				res, err = n.CallFrom(caller, authAddr, name, argb, signers)
			} else {
				res, err = n.Call(authAddr, name, argb, signers)
			}
			if fix.IsPanic(err) {
				fail("%s panicked: %v", name, err)
			}
			ok := isTrue(res, err)
			switch {
			case ok:
				ev.Class(name + ":ok")
			case err != nil:
				ev.Class(name + ":error")
			default:
				ev.Class(name + ":refused")
			}
			return ok
		}

		if prof.preseed { // the expiry profile starts from a populated contract 0 (built through real calls)
			a := 0
			sg := sigOf(a, 1)
			if !isTrue(n.CallFrom(&c41Cons[0], authAddr, "initContractAdmin", aInitContractAdmin(m.ids[a]), nil)) {
				fail("preseed: initContractAdmin failed")
			}
			m.admin[0] = a
			for ri, role := range []string{"r", "r1"} {
				fns := []string{c41Fns[ri], c41Fns[ri+2]}
				if !isTrue(n.Call(authAddr, "assignFuncsToRole", aAssignFuncsToRole(c41Cons[0], m.ids[a], []byte(role), fns, 1), sg)) {
					fail("preseed: assignFuncsToRole failed")
				}
				m.roleFns[0][role] = map[string]bool{fns[0]: true, fns[1]: true}
				p := ri + 1
				if !isTrue(n.Call(authAddr, "assignOntIDsToRole", aAssignOntIDsToRole(c41Cons[0], m.ids[a], []byte(role), [][]byte{m.ids[p]}, 1), sg)) {
					fail("preseed: assignOntIDsToRole failed")
				}
				m.direct[0][p][role] = true
			}
			logf("preseed(c0 admin=i0 r:{f,f2}->i1 r1:{f1,g}->i2)")
		}

		// ---- verifyToken with oracle ---------------------------------------------------------------
		verify := func(c, id int, fn string, keyNo uint64, signers []common.Address, tag string) {
			res, err := n.Call(authAddr, "verifyToken", aVerifyToken(c41Cons[c], m.ids[id], fn, keyNo), signers)
			if fix.IsPanic(err) {
				fail("verifyToken panicked: %v", err)
			}
			got := isTrue(res, err)
			wit := m.witnessed(id, keyNo, signers)
			strict, boundary, via := m.grants(c, id, fn, n.Time)
			class := ""
			switch {
			case !wit:
				class = "false-nowitness"
				if got {
					fail("verifyToken(c%d, id%d, %q, keyNo %d) = true at t=%d although key %d of the caller is not witnessed (signers %x; keys %s)",
						c, id, fn, keyNo, n.Time, keyNo, signers, m.keyStr(id))
				}
			case strict:
				class = "true-" + via
				if !got {
					fail("verifyToken(c%d, id%d, %q, keyNo %d) = false (err %s) at t=%d although the key is witnessed and the model grants it via %s role; model: %s",
						c, id, fn, keyNo, errStr(err), n.Time, via, m.str(c))
				}
			case boundary:
				class = "dontcare-instant" // now == expire: either answer accepted
			default:
				class = "false-norole"
				if d := m.expiredGrant(c, id, fn, n.Time); d != nil {
					class = "false-expired"
				}
				if got {
					fail("verifyToken(c%d, id%d, %q, keyNo %d) = true at t=%d although the caller holds no role with that function (class %s); model: %s",
						c, id, fn, keyNo, n.Time, class, m.str(c))
				}
			}
			if tag == "" {
				ev.Class("verifyToken")
				ev.Class("verifyToken:" + class)
				logf("vT(c%d,i%d,%s,k%d,%s)=%v", c, id, fn, keyNo, sigStr(m, signers), got)
				if got {
					sawTrue = true
				} else if wit && !boundary {
					sawRoleFalse = true
				}
			} else {
				ev.Class("sweep:" + class)
			}
		}

		pickCon := func(label string) int {
			if prof.preseed && pct(rt, label+"Main") < 80 {
				return 0
			}
			return uni(rt, label, c41NCons)
		}

		// ---- one step ------------------------------------------------------------------------------
		step := func(rt *rapid.T) {
			names := make([]string, 0, len(prof.weights))
			for k := range prof.weights {
				names = append(names, k)
			}
			sort.Strings(names)
			w := make([]int, len(names))
			total := 0
			for i, k := range names {
				w[i] = prof.weights[k]
				// bootstrap: raise the weight of the action the current state is waiting for
				switch {
				case k == "init" && (m.admin[0] < 0 || m.admin[1] < 0):
					w[i] = 14 // nothing else can succeed before an admin exists
				case k == "assignFuncs" && m.admin[0] >= 0 && len(m.roleFns[0]) == 0:
					w[i] *= 3
				case k == "assignIDs" && m.admin[0] >= 0 && m.nDirect() == 0:
					w[i] *= 3
				case k == "delegate" && m.nDirect() > 0 && m.nDeleg() == 0:
					w[i] *= 2
				}
				total += w[i]
			}
			x := uni(rt, "action", total)
			act := ""
			for i, k := range names {
				if x < w[i] {
					act = k
					break
				}
				x -= w[i]
			}
			valid := pct(rt, "valid") < 70

			switch act {
			case "init":
				c := uni(rt, "con", c41NCons)
				if valid && m.admin[c] >= 0 && m.admin[1-c] < 0 {
					c = 1 - c
				}
				a := uni(rt, "admin", c41NIDs)
				if valid {
					a = uni(rt, "adminReg", c41NReg)
				}
				ok := adminCall("initContractAdmin", c, a, 0, nil, aInitContractAdmin(m.ids[a]), &c41Cons[c])
				logf("init(c%d,i%d)=%v", c, a, ok)
				if ok {
					if m.admin[c] >= 0 {
						fail("initContractAdmin(c%d, id%d) succeeded although the admin was already id%d", c, a, m.admin[c])
					}
					m.admin[c] = a
				}
				if pct(rt, "noctx") < 10 { // without a calling contract there is nothing to administer
					if isTrue(n.Call(authAddr, "initContractAdmin", aInitContractAdmin(m.ids[a]), sigOf(a, 1))) {
						fail("initContractAdmin without a calling contract context succeeded")
					}
				}

			case "transfer":
				c := pickCon("con")
				newAdmin := uni(rt, "newAdmin", c41NReg)
				var keyNo uint64
				var signers []common.Address
				kind := "valid"
				if valid && m.admin[c] >= 0 {
					keyNo = goodKey(m.admin[c], "keyNo")
					signers = sigOf(m.admin[c], keyNo)
				} else {
					ev.Class("admin:unauth-attempt")
					who := m.admin[c]
					if who < 0 {
						who = uni(rt, "who", c41NReg)
					}
					keyNo, signers, kind = badAuth(who, "bad")
				}
				ok := adminCall("transfer", c, m.admin[c], keyNo, signers, aAuthTransfer(c41Cons[c], m.ids[newAdmin], keyNo), nil)
				logf("transfer(c%d,->i%d,k%d,%s/%s)=%v", c, newAdmin, keyNo, sigStr(m, signers), kind, ok)
				if ok {
					if m.admin[c] < 0 || !m.witnessed(m.admin[c], keyNo, signers) {
						fail("transfer(c%d -> id%d, keyNo %d) succeeded without the admin's witness (admin id%d, signers %s)", c, newAdmin, keyNo, m.admin[c], sigStr(m, signers))
					}
					m.admin[c] = newAdmin
				}

			case "assignFuncs", "assignIDs":
				c := pickCon("con")
				claimed := m.admin[c]
				var keyNo uint64
				var signers []common.Address
				kind := "valid"
				if valid && m.admin[c] >= 0 {
					keyNo = goodKey(claimed, "keyNo")
					signers = sigOf(claimed, keyNo)
				} else {
					ev.Class("admin:unauth-attempt")
					if m.admin[c] >= 0 && rapid.Bool().Draw(rt, "impostor") {
						// somebody who is not the admin, with a perfectly good witness of its own key
						claimed = uni(rt, "claimed", c41NReg)
						if claimed == m.admin[c] {
							claimed = (claimed + 1) % c41NReg
						}
						keyNo = goodKey(claimed, "keyNo")
						signers = sigOf(claimed, keyNo)
						kind = "impostor"
					} else {
						if claimed < 0 {
							claimed = uni(rt, "claimed", c41NReg)
						}
						keyNo, signers, kind = badAuth(claimed, "bad")
					}
				}
				role := pickFrom(rt, "role", c41Roles)
				authorised := m.admin[c] >= 0 && claimed == m.admin[c] && m.witnessed(claimed, keyNo, signers)
				if act == "assignFuncs" {
					fns := rapid.SliceOfNDistinct(rapid.SampledFrom(c41Fns), 1, 3, rapid.ID[string]).Draw(rt, "fns")
					ok := adminCall("assignFuncsToRole", c, claimed, keyNo, signers, aAssignFuncsToRole(c41Cons[c], m.ids[claimed], []byte(role), fns, keyNo), nil)
					logf("aF(c%d,i%d,%s,%v,k%d,%s/%s)=%v", c, claimed, role, fns, keyNo, sigStr(m, signers), kind, ok)
					if ok {
						if !authorised {
							fail("assignFuncsToRole(c%d, admin id%d, role %s, %v, keyNo %d) succeeded although it was not authorised (admin id%d, signers %s)",
								c, claimed, role, fns, keyNo, m.admin[c], sigStr(m, signers))
						}
						if m.roleFns[c][role] == nil {
							m.roleFns[c][role] = map[string]bool{}
						}
						for _, f := range fns {
							m.roleFns[c][role][f] = true
						}
					}
					return
				}
				persons := rapid.SliceOfNDistinct(rapid.IntRange(0, c41NIDs-1), 1, 3, rapid.ID[int]).Draw(rt, "persons")
				if exclude {
					for _, p := range persons {
						if d := m.findDeleg(c, p, role); d != nil && n.Time < d.expire && len(m.direct[c][p]) > 0 && !m.direct[c][p][role] {
							ev.Excluded()
							logf("aI(excluded)")
							return
						}
					}
				}
				var pb [][]byte
				for _, p := range persons {
					pb = append(pb, m.ids[p])
				}
				ok := adminCall("assignOntIDsToRole", c, claimed, keyNo, signers, aAssignOntIDsToRole(c41Cons[c], m.ids[claimed], []byte(role), pb, keyNo), nil)
				logf("aI(c%d,i%d,%s,%v,k%d,%s/%s)=%v", c, claimed, role, persons, keyNo, sigStr(m, signers), kind, ok)
				if ok {
					if !authorised {
						fail("assignOntIDsToRole(c%d, admin id%d, role %s, %v, keyNo %d) succeeded although it was not authorised (admin id%d, signers %s)",
							c, claimed, role, persons, keyNo, m.admin[c], sigStr(m, signers))
					}
					for _, p := range persons {
						m.direct[c][p][role] = true
					}
				}

			case "delegate":
				ev.Class("admin")
				c := pickCon("con")
				// candidates: (from, role) pairs where from holds role directly
				type fr struct {
					from int
					role string
				}
				var cands []fr
				for i := 0; i < c41NIDs; i++ {
					for _, r := range sortedKeys(m.direct[c][i]) {
						if len(m.usableKeys(i)) > 0 {
							cands = append(cands, fr{i, r})
						}
					}
				}
				var from, to int
				var role string
				var keyNo, level, period uint64
				var signers []common.Address
				kind := "valid"
				period = uint64(1 + uni(rt, "period", 12))
				level = 1
				if valid && len(cands) > 0 {
					x := pickFrom(rt, "fromRole", cands)
					from, role = x.from, x.role
					// prefer a `to` that does not hold the role
					var tos []int
					for i := 0; i < c41NIDs; i++ {
						if s, b := m.holds(c, i, role, n.Time); !s && !b && i != from {
							tos = append(tos, i)
						}
					}
					if len(tos) > 0 {
						to = pickFrom(rt, "to", tos)
					} else {
						to = uni(rt, "toAny", c41NIDs)
						kind = "to-has-role"
					}
					keyNo = goodKey(from, "keyNo")
					signers = sigOf(from, keyNo)
				} else {
					ev.Class("delegate:unauth-attempt")
					ev.Class("admin:unauth-attempt")
					to = uni(rt, "to", c41NIDs)
					role = pickFrom(rt, "role", c41Roles)
					switch uni(rt, "badKind", 4) {
					case 0, 1: // from does not hold the role (but signs properly) — possibly a level-1 delegate
						var nh []int
						for i := 0; i < c41NReg; i++ {
							if !m.direct[c][i][role] && len(m.usableKeys(i)) > 0 && i != to {
								nh = append(nh, i)
							}
						}
						if len(nh) == 0 {
							nh = []int{(to + 1) % c41NReg}
						}
						from = pickFrom(rt, "fromNoRole", nh)
						keyNo = goodKey(from, "keyNo")
						signers = sigOf(from, keyNo)
						kind = "from-no-role"
					case 2: // role holder without witness
						if len(cands) > 0 {
							x := pickFrom(rt, "fromRole", cands)
							from, role = x.from, x.role
						} else {
							from = uni(rt, "from", c41NReg)
						}
						keyNo, signers, kind = badAuth(from, "bad")
					default: // bad level / huge period from a proper holder
						if len(cands) > 0 {
							x := pickFrom(rt, "fromRole", cands)
							from, role = x.from, x.role
						} else {
							from = uni(rt, "from", c41NReg)
						}
						keyNo = goodKey(from, "keyNo")
						signers = sigOf(from, keyNo)
						if rapid.Bool().Draw(rt, "badLevel") {
							level = pickFrom(rt, "level", []uint64{0, 2, 3, 127})
							kind = "bad-level"
						} else {
							period = pickFrom(rt, "hugePeriod", []uint64{1<<32 - 1, 4102488000, 3000000000})
							kind = "huge-period"
						}
					}
				}
				ev.Class("delegate")
				res, err := n.Call(authAddr, "delegate", aDelegate(c41Cons[c], m.ids[from], m.ids[to], []byte(role), period, level, keyNo), signers)
				if fix.IsPanic(err) {
					fail("delegate panicked: %v", err)
				}
				ok := isTrue(res, err)
				logf("dlg(c%d,i%d->i%d,%s,p%d,l%d,k%d,%s/%s)=%v", c, from, to, role, period, level, keyNo, sigStr(m, signers), kind, ok)
				if !ok {
					if err != nil {
						ev.Class("delegate:error")
					} else {
						ev.Class("delegate:refused")
					}
					return
				}
				ev.Class("delegate:ok")
				if !m.witnessed(from, keyNo, signers) {
					fail("delegate(c%d, id%d -> id%d, role %s) succeeded without the witness of key %d of the delegator (signers %s)", c, from, to, role, keyNo, sigStr(m, signers))
				}
				if s, b := m.holds(c, from, role, n.Time); !s && !b {
					fail("delegate(c%d, id%d -> id%d, role %s) succeeded although the delegator does not hold the role; model: %s", c, from, to, role, m.str(c))
				}
				exp := n.Time + uint32(period)
				if d := m.findDeleg(c, to, role); d != nil {
					d.root, d.expire, d.level = from, exp, level
				} else {
					m.deleg[c][to] = append(m.deleg[c][to], &c41Deleg{role: role, root: from, expire: exp, level: level})
				}

			case "withdraw":
				ev.Class("admin")
				c := pickCon("con")
				type dd struct {
					to int
					d  *c41Deleg
				}
				var all []dd
				for i := 0; i < c41NIDs; i++ {
					for _, d := range m.deleg[c][i] {
						all = append(all, dd{i, d})
					}
				}
				var initiator, dele int
				var role string
				var keyNo uint64
				var signers []common.Address
				kind := "valid"
				if valid && len(all) > 0 {
					x := all[uni(rt, "which", len(all))]
					initiator, dele, role = x.d.root, x.to, x.d.role
					keyNo = goodKey(initiator, "keyNo")
					signers = sigOf(initiator, keyNo)
				} else if len(all) > 0 && rapid.Bool().Draw(rt, "existing") {
					ev.Class("admin:unauth-attempt")
					x := all[uni(rt, "which", len(all))]
					dele, role = x.to, x.d.role
					if rapid.Bool().Draw(rt, "notRoot") { // another identity (maybe also a role holder) with a proper witness
						initiator = uni(rt, "initiator", c41NReg)
						if initiator == x.d.root {
							initiator = (initiator + 1) % c41NReg
						}
						keyNo = goodKey(initiator, "keyNo")
						signers = sigOf(initiator, keyNo)
						kind = "not-root"
					} else {
						initiator = x.d.root
						keyNo, signers, kind = badAuth(initiator, "bad")
					}
				} else {
					initiator = uni(rt, "initiator", c41NReg)
					dele = uni(rt, "delegate", c41NIDs)
					role = pickFrom(rt, "role", c41Roles)
					keyNo = goodKey(initiator, "keyNo")
					signers = sigOf(initiator, keyNo)
					kind = "no-such-delegation"
				}
				ev.Class("withdraw")
				res, err := n.Call(authAddr, "withdraw", aWithdraw(c41Cons[c], m.ids[initiator], m.ids[dele], []byte(role), keyNo), signers)
				if fix.IsPanic(err) {
					fail("withdraw panicked: %v", err)
				}
				ok := isTrue(res, err)
				logf("wd(c%d,i%d,i%d,%s,k%d,%s/%s)=%v", c, initiator, dele, role, keyNo, sigStr(m, signers), kind, ok)
				if !ok {
					ev.Class("withdraw:notok")
					return
				}
				ev.Class("withdraw:ok")
				d := m.findDeleg(c, dele, role)
				if !m.witnessed(initiator, keyNo, signers) || d == nil || d.root != initiator {
					fail("withdraw(c%d, initiator id%d, delegate id%d, role %s, keyNo %d) succeeded although the initiator is not the witnessed root of such a delegation; model: %s",
						c, initiator, dele, role, keyNo, m.str(c))
				}
				var rest []*c41Deleg
				for _, e := range m.deleg[c][dele] {
					if e != d {
						rest = append(rest, e)
					}
				}
				m.deleg[c][dele] = rest

			case "advance":
				ev.Class("advance")
				var exps []uint32
				for c := 0; c < c41NCons; c++ {
					for i := 0; i < c41NIDs; i++ {
						for _, d := range m.deleg[c][i] {
							for _, e := range []uint32{d.expire - 1, d.expire, d.expire + 1} {
								if e >= n.Time {
									exps = append(exps, e)
								}
							}
						}
					}
				}
				if len(exps) > 0 && pct(rt, "toExpiry") < 70 {
					sort.Slice(exps, func(i, j int) bool { return exps[i] < exps[j] })
					n.Time = pickFrom(rt, "t", exps)
				} else {
					n.Time += uint32(uni(rt, "dt", 7))
				}
				n.Height++
				logf("t=%d", n.Time)

			case "revokeKey":
				ev.Class("revokeKey")
				id := uni(rt, "id", c41NReg)
				u := m.usableKeys(id)
				if len(u) == 0 {
					return
				}
				kn := pickFrom(rt, "keyNo", u)
				k1 := m.keys[id][0]
				_, err := n.Call(ontidAddr, "removeKey", aRemoveKey(m.ids[id], m.keys[id][kn-1].pk.pub, k1.pk.pub), []common.Address{k1.pk.addr})
				logf("rmKey(i%d,k%d)=%v", id, kn, err == nil)
				if err == nil {
					ev.Class("revokeKey:ok")
					m.keys[id][kn-1].revoked = true
				}

			case "verify":
				c := pickCon("con")
				var id int
				var fn string
				// targeted: an identity that holds (or held) something, and a function of one of its roles
				type tg struct {
					id   int
					role string
				}
				var tgs []tg
				for i := 0; i < c41NIDs; i++ {
					for _, r := range sortedKeys(m.direct[c][i]) {
						tgs = append(tgs, tg{i, r})
					}
					for _, d := range m.deleg[c][i] {
						tgs = append(tgs, tg{i, d.role}, tg{i, d.role}) // delegations weigh double
					}
				}
				if valid && len(tgs) > 0 {
					x := pickFrom(rt, "target", tgs)
					id = x.id
					fs := sortedKeys(m.roleFns[c][x.role])
					if len(fs) > 0 && pct(rt, "fnOfRole") < 80 {
						fn = pickFrom(rt, "fn", fs)
					} else {
						fn = pickFrom(rt, "fnAny", c41Fns)
					}
				} else {
					id = uni(rt, "id", c41NIDs)
					fn = pickFrom(rt, "fnAny", c41Fns)
				}
				if len(m.usableKeys(id)) == 0 && pct(rt, "keylessAgain") < 75 { // unregistered / fully revoked callers stay a minority
					id = uni(rt, "idWithKey", c41NReg)
				}
				var keyNo uint64
				var signers []common.Address
				if pct(rt, "goodSig") < 80 {
					keyNo = goodKey(id, "keyNo")
					signers = sigOf(id, keyNo)
					if pct(rt, "extraSig") < 20 {
						signers = append(signers, pool[uni(rt, "extra", len(pool))].addr)
					}
				} else {
					keyNo, signers, _ = badAuth(id, "bad")
				}
				verify(c, id, fn, keyNo, signers, "")
			}
		}

		rt.Repeat(map[string]func(*rapid.T){"step": step})

		// ---- final sweep: every (contract, identity, function) with the identity's own witness ------
		for c := 0; c < c41NCons; c++ {
			for id := 0; id < c41NIDs; id++ {
				u := m.usableKeys(id)
				var keyNo uint64 = 1
				if len(u) > 0 {
					keyNo = u[0]
				}
				for _, fn := range c41Fns {
					verify(c, id, fn, keyNo, sigOf(id, keyNo), "sweep")
				}
			}
		}
		desc := history()
		if len(desc) > 590 {
			desc = desc[:590]
		}
		ev.Case(sawTrue && sawRoleFalse, prof.name+": "+desc)
	})
}

func (m *c41Model) nDirect() (n int) {
	for c := 0; c < c41NCons; c++ {
		for i := 0; i < c41NIDs; i++ {
			n += len(m.direct[c][i])
		}
	}
	return
}

func (m *c41Model) nDeleg() (n int) {
	for c := 0; c < c41NCons; c++ {
		for i := 0; i < c41NIDs; i++ {
			n += len(m.deleg[c][i])
		}
	}
	return
}

// expiredGrant: a delegation of a role containing fn that has expired (used only to classify).
func (m *c41Model) expiredGrant(c, id int, fn string, now uint32) *c41Deleg {
	for _, d := range m.deleg[c][id] {
		if d.expire < now && m.roleFns[c][d.role][fn] {
			return d
		}
	}
	return nil
}

func (m *c41Model) keyStr(id int) string {
	var s []string
	for i, k := range m.keys[id] {
		r := ""
		if k.revoked {
			r = "(revoked)"
		}
		s = append(s, fmt.Sprintf("%d:%s%s", i+1, k.pk.name, r))
	}
	return strings.Join(s, ",")
}

func (m *c41Model) str(c int) string {
	var sb strings.Builder
	fmt.Fprintf(&sb, "c%d admin=i%d funcs{", c, m.admin[c])
	roles := make([]string, 0)
	for r := range m.roleFns[c] {
		roles = append(roles, r)
	}
	sort.Strings(roles)
	for _, r := range roles {
		fmt.Fprintf(&sb, "%s:%v ", r, sortedKeys(m.roleFns[c][r]))
	}
	sb.WriteString("} direct{")
	for i := 0; i < c41NIDs; i++ {
		if len(m.direct[c][i]) > 0 {
			fmt.Fprintf(&sb, "i%d:%v ", i, sortedKeys(m.direct[c][i]))
		}
	}
	sb.WriteString("} deleg{")
	for i := 0; i < c41NIDs; i++ {
		for _, d := range m.deleg[c][i] {
			fmt.Fprintf(&sb, "i%d<-i%d:%s@%d ", i, d.root, d.role, d.expire)
		}
	}
	sb.WriteString("}")
	return sb.String()
}

// sigStr names the signer set by (identity, key number) where possible.
func sigStr(m *c41Model, signers []common.Address) string {
	if len(signers) == 0 {
		return "-"
	}
	var out []string
	for _, a := range signers {
		name := "x"
		for i := range m.keys {
			for j, k := range m.keys[i] {
				if k.pk.addr == a {
					name = fmt.Sprintf("i%dk%d", i, j+1)
				}
			}
		}
		out = append(out, name)
	}
	return strings.Join(out, "+")
}
