#!/usr/bin/env python3
"""Write seeded/INDEX.md and refresh DESIGN.md §11 from seeded/*/meta.json."""
import json,glob,os,re
ROOT=os.path.dirname(os.path.dirname(os.path.abspath(__file__)))
rows=[];cnt={}
for d in sorted(glob.glob(os.path.join(ROOT,'seeded','C*'))):
    mp=os.path.join(d,'meta.json')
    if not os.path.exists(mp): continue
    m=json.load(open(mp)); k=os.path.basename(d)
    vr=m.get('verif_result',{})
    s=vr.get('status','?'); cnt[s]=cnt.get(s,0)+1
    cl=lambda x,n: (x or '').replace('|','/').replace('\n',' ')[:n]
    rows.append('| %s | %s | %s | %s | %s |'%(k,cl(m.get('summary'),230),cl(m.get('needs_to_manifest'),200),s,cl(vr.get('note'),260)))
hdr='| seed | change | needs to manifest | verdict | note |\n|---|---|---|---|---|\n'
total=sum(cnt.values())
summ='%d seeded changes (four full rounds over all 44 claimed properties plus a fifth round `-r5` over %d of them; every later round was written to differ in kind and site from the earlier ones): '%(total,len(glob.glob(os.path.join(ROOT,'seeded','C*-r5'))))+', '.join('%d %s'%(v,k) for k,v in sorted(cnt.items()))+'.'
open(os.path.join(ROOT,'seeded','INDEX.md'),'w').write('# Seeded breaking changes\n\n'+summ+'\n\nEach directory holds patch.diff, the author\'s demonstration (fails with the change, passes without), demo.sh and meta.json (incl. verif_result).\n\n'+hdr+'\n'.join(rows)+'\n')
p=os.path.join(ROOT,'DESIGN.md'); s=open(p).read()
sec='''## 11. Seeded-change campaign (which checks catch which changes)

Fresh sub-agents were given only the text of one property (statement, quantifier, anchors) and a
scratch worktree of /repo — nothing from /verif — and asked for a small, realistic change that
breaks the property, still compiles, passes the existing tests, and needs something specific to
manifest (a particular interleaving, crash point, multi-step history, boundary input, or two
cooperating sites), together with a demonstration that fails with the change and passes without it.
I confirmed each one in its worktree (`tools/verify_seed.sh`: the patch equals the worktree diff,
the demonstration fails with and passes without the change, the touched packages build) and then ran
the property's quick check against the changed tree (`VERIF_REPO=<worktree> ./check <id>`). Four
rounds were run for every claimed property; the authors of rounds 2, 3 and 4 were told what the earlier
rounds had changed and had to pick a different mechanism (three round-3 authors nevertheless arrived
independently at the same change for C28, C32 and C33: a positional fast path in
`VerifyMultiSignature` that ignores the already-matched mask). A fifth round `-r5` covers 18 properties (14 in the previous session, then C03, C27, C33 and C41: all four caught at the first attempt; C27's was caught late, which led to `TestC27_RelatedLists`). Where a check missed a change, the generator or the oracle was
strengthened (never loosened, never special-cased to the seed) until the change was killed in the
quick tier at seeds 1, 2 and 3 while the unchanged tree stayed green; those are marked "caught after
strengthening" with what was added.

'''+summ+'''

'''+hdr+'\n'.join(rows)+'''

What the misses had in common, and what was changed because of them: generators that never produced
the boundary or the history the change needs (whole-balance transfers that delete a state key,
post-execution balance below the fee, contract-level writes in a failed transaction, maps wider than
1024 entries, integer operands near 2^63 next to byte strings, list-count prefixes with nothing
behind them, more than C empty commits, configuration-change headers, out-of-order key headers,
header-first delivery, duplicated signer entries, re-blacklisting life cycles) and oracles that read
the implementation's own records instead of an independent model (the governance "unfrozen" bound).
Two misses needed techniques beyond plain generation: an injected save failure (C38) and a
harness-owned interleaving through the crash-point hook (C42).

Round 3 was the hardest (its authors had to avoid two earlier mechanisms per property): 26 of 44
were caught at once. Its misses were again generator gaps, of three kinds. (1) *Object life time and
reuse*: iterators held across other reads (C04), merkle paths kept across later calls (C27), codec
sinks reused after Reset/BackUp or over dirty buffers (C18). (2) *Encodings the harness never wrote*:
non-minimal length prefixes on header signatures and consensus-payload signatures (C20, C24), a
generic ECDSA key on the secp256k1 curve (C17; added to the shared key zoo, so every key-generic
check now draws it), balances above 2^64 whole tokens (C21), a signature repeated in an earlier slot
and in its signer's own slot (C28/C32/C33). (3) *Histories with a governance or timing step*:
gas-price changes through the param contract before fee-paying deploys (C02), out-of-gas into a
partial fee unit (C05), verification results arriving after the block that contains the transaction
(C35), amplification loops over container-only trees (C12 — writing that family also exposed the
genuine finding `clone-count-checked-only-on-struct-entry`). One round-3 change (C30) made the code
under test build position tables of billions of entries: the first run was INCONCLUSIVE (time-out
while shrinking), never a violation; a narrow-stake variant of the permutation oracle now reports it.

Round 4 (authors had to avoid three earlier mechanisms per property): 28 of 44 caught at once, 15
after strengthening, 1 not detected. The dominant theme was again *results that alias reusable
internal state* — now recognised as a pattern and checked the same way everywhere it can occur:
whatever a call returns is kept next to a private copy while further calls run, then compared and
used (C25 pooled encoder sink, C29 shared selection buffer, C13 `big.Int` shared by DUP copies and
mutated in place by ABS, C26 root cached across `UnMarshal` into a used tree, C17 address cache
that forgets the threshold — caught, C16 pooled signer-address map — caught). The others: call
chains deeper than one contract (C06 ancestor witnesses), alternative spellings of the same key
(C10 upper-case hex), whitespace around an address (C22), entries larger than the whole memdb
buffer after dead bytes (C03), a native call between a write and the failing tail (C05 evmInvoke),
cross-contract loops on the pre-execution route judged by step/service-call counters (C12), map
cycles under a non-smallest key with a rounds-bounded oracle (C14), optional cross-chain fields of
consensus messages (C31), header-level queries in the 'ledger unchanged' observation (C39), the
consensus sequence ExecuteBlock → pre-execution → SubmitBlock as a schedule point (C42), label
collisions after ImportAccount's renaming (C38). The one change not detected (C43-r4: bloom cache
entry not overwritten after a failed submit) needs an in-process failure of `submitBlock` between
staging and commit followed by continued operation; no public call fails there, and when that failure
is injected through the hook the *unchanged* ledger cannot continue either (its eagerly appended
merkle trees make the next reopen fail), so there is no sound oracle for such histories and the
property quantifies over fault-free chains; recorded as missed, with the experiment, rather than
stretched into a check that would also fail on the unchanged tree. The thorough-tier sweep run
during this round also exposed a floor that could only starve in the thorough tier (C16: a test whose
bases are invalid by construction inherited the shared acceptance floors) — fixed.

After round 4 the held-results oracle was added PROACTIVELY to the checks that had not yet met such
a change (C03, C09, C19, C20, C22, C23, C24, C30, C36, C37; `seeded/proactive/` holds the aliasing
mutations — pooled sinks, scratch buffers, caches keyed by too little — that prove each new test
sensitive; in most cases ONLY the new test catches its mutation). A fifth round over 14 properties
(those outside the packages being hardened at the time) then gave 6 caught at once and 8 after
strengthening: merkle PROOFS after crash recovery (C01: roots were right, only proofs read the
shifted hash file), a script respelt with a second terminator (C02; caught at once by C16, C23
extended with a structural-edit family and an independent script grammar model), the same peer
twice in one governance list (C11), boundary amounts k·10^9 with k >= 2^64 in every native numeric
argument (C12), map mutation histories with REMOVE before KEYS/VALUES/Serialize and a directed
Native.Invoke-with-map-argument class (C15), signer sets held across later validations (C17), fork
siblings in seed sequences against an independent seed derivation (C29), blocks of more than 256
transactions read back from disk (C40).
'''
if '## 11. Seeded-change campaign' in s:
    s=s[:s.index('## 11. Seeded-change campaign')]+sec
else:
    s=s.rstrip('\n')+'\n\n'+sec
open(p,'w').write(s)
print(summ)
