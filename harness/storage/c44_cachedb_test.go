package storage

// C44(a) Contract migration and destruction move or remove all storage — CacheDB level.
//
// The old contract's storage, a neighbouring contract's storage (addresses adjacent to the old one,
// so that its keys sort directly before/after the old prefix) and the old contract record are spread
// over persistent store / block overlay / transaction cache; upper layers shadow or tombstone lower
// ones. Then MigrateContractStorage or CleanContractStorage runs at a generated height on a generated
// network id (tracking height 0 on id 3, 11 700 000 on main net), optionally followed by cache commit
// and overlay commit. Oracle: reference map over full keys (address || suffix).

import (
	"bytes"
	"fmt"
	"sort"
	"strings"
	"testing"

	"github.com/ontio/ontology/common"
	"github.com/ontio/ontology/common/config"
	"github.com/ontio/ontology/common/constants"
	"github.com/ontio/ontology/core/payload"
	scom "github.com/ontio/ontology/core/store/common"
	"github.com/ontio/ontology/core/store/overlaydb"
	"github.com/ontio/ontology/smartcontract/storage"
	"pgregory.net/rapid"

	"verifharness/internal/harn"
)

// genSuffix: storage key below the address: mostly short keys over {a,b,00,ff} (shared prefixes, empty
// key), sometimes long ones up to 40 bytes that extend a short one.
func genSuffix(t *rapid.T, label string) string {
	s := genKey(4).Draw(t, label)
	if rapid.IntRange(0, 5).Draw(t, label+"-long") == 0 {
		n := rapid.IntRange(5, 40).Draw(t, label+"-len")
		b := []byte(s)
		for len(b) < n {
			b = append(b, rapid.SampledFrom(keyAlphabet).Draw(t, label+"-b"))
		}
		s = string(b)
	}
	return s
}

func addrAdd(a common.Address, d int) common.Address {
	// big-endian +/-1 with carry over the 20 bytes (wraps)
	for i := 19; i >= 0; i-- {
		v := int(a[i]) + d
		a[i] = byte(v)
		if v >= 0 && v <= 255 {
			break
		}
		if v > 255 {
			d = 1
		} else {
			d = -1
		}
	}
	return a
}

func TestC44_CacheDBMigrateDestroy(t *testing.T) {
	ev := harn.For("C44").Rule("(a) CacheDB level: 0-14 writes/deletes for the old contract (80%) and two neighbouring addresses old-1/old+1 (20%) spread over persistent store, overlay and tx cache (keys 0-40 bytes over {a,b,00,ff}); old contract record placed in a generated layer; new address random, adjacent to old, or sharing a 19-byte prefix; MigrateContractStorage or CleanContractStorage at heights around the tracking height of network id 3 / main net; then optional cache commit and overlay commit. Non-trivial = old contract has >= 2 live entries coming from >= 2 layers and >= 1 shadowed or tombstoned entry; distinct by layout+operation")
	ev.Assume("the migration target address holds no storage before the migration (ContractMigrate requires it to be neither deployed nor destroyed, and storage can only be written under a deployed contract)")
	ev.Floor("a:nontrivial", "a:case", 0.15)
	ev.Floor("a:tracking-active", "a:case", 0.3)
	ev.Floor("a:tracking-inactive", "a:case", 0.1)
	savedNet := config.DefConfig.P2PNode.NetworkId
	defer func() { config.DefConfig.P2PNode.NetworkId = savedNet }()
	harn.Check(t, 1500, 60000, func(t *rapid.T) {
		// old contract = a real deploy record; its address is the hash of generated code
		code := rapid.SliceOfN(rapid.Byte(), 1, 8).Draw(t, "code")
		dep, err := payload.NewDeployCode(code, payload.NEOVM_TYPE, "n", "v", "a", "e", "d")
		if err != nil {
			t.Fatal(err)
		}
		oldA := dep.Address()
		var newA common.Address
		switch rapid.IntRange(0, 3).Draw(t, "newKind") {
		case 0:
			newA = addrAdd(oldA, 1)
		case 1:
			newA = addrAdd(oldA, -1)
		case 2:
			newA = oldA
			newA[19] ^= byte(rapid.IntRange(1, 255).Draw(t, "lastByte"))
		default:
			copy(newA[:], rapid.SliceOfN(rapid.Byte(), 20, 20).Draw(t, "new"))
		}
		if newA == oldA {
			newA = addrAdd(oldA, 1)
		}
		// neighbours: never the migration target
		var others []common.Address
		for _, o := range []common.Address{addrAdd(oldA, -1), addrAdd(oldA, 1), addrAdd(oldA, 2)} {
			if o != newA && len(others) < 2 {
				others = append(others, o)
			}
		}

		store := freshStore()
		overlay := overlaydb.NewOverlayDB(store)
		cache := storage.NewCacheDB(overlay)

		// layout
		type op struct {
			layer int
			addr  common.Address
			suf   string
			v     []byte
			del   bool
		}
		var ops []op
		n := rapid.IntRange(0, 14).Draw(t, "n")
		var sufs []string
		for i := 0; i < n; i++ {
			a := oldA
			if rapid.IntRange(0, 4).Draw(t, "who") == 0 {
				a = rapid.SampledFrom(others).Draw(t, "other")
			}
			l := rapid.IntRange(0, 2).Draw(t, "layer")
			d := l > 0 && rapid.IntRange(0, 3).Draw(t, "del") == 0
			var suf string
			if len(sufs) > 0 && rapid.IntRange(0, 2).Draw(t, "reuse") == 0 {
				suf = rapid.SampledFrom(sufs).Draw(t, "sufOld") // same key again in another layer: shadowing
			} else {
				suf = genSuffix(t, "suf")
				sufs = append(sufs, suf)
			}
			ops = append(ops, op{l, a, suf, genVal.Draw(t, "v"), d})
		}
		sort.SliceStable(ops, func(i, j int) bool { return ops[i].layer < ops[j].layer })
		layers := [3]layer{{}, {}, {}} // full key -> value (nil = tombstone), index = layer
		var desc []string
		for _, o := range ops {
			k := string(o.addr[:]) + o.suf
			who := "old"
			if o.addr != oldA {
				who = fmt.Sprintf("nb%+d", int(int8(o.addr[19]-oldA[19])))
			}
			switch {
			case o.del && o.layer == 1:
				overlay.Delete(storageKey(k))
				layers[1][k] = nil
			case o.del && o.layer == 2:
				cache.Delete([]byte(k))
				layers[2][k] = nil
			case o.layer == 0:
				if err := store.Put(storageKey(k), o.v); err != nil {
					t.Fatal(err)
				}
				layers[0][k] = o.v
			case o.layer == 1:
				overlay.Put(storageKey(k), o.v)
				layers[1][k] = o.v
			default:
				cache.Put([]byte(k), o.v)
				layers[2][k] = o.v
			}
			if o.del {
				desc = append(desc, fmt.Sprintf("L%d:%s/%x=DEL", o.layer, who, o.suf))
			} else {
				desc = append(desc, fmt.Sprintf("L%d:%s/%x=%x", o.layer, who, o.suf, o.v))
			}
		}
		// the old contract record lives in a generated layer
		recLayer := rapid.IntRange(0, 2).Draw(t, "recLayer")
		{
			sink := common.NewZeroCopySink(nil)
			dep.Serialization(sink)
			rk := append([]byte{byte(scom.ST_CONTRACT)}, oldA[:]...)
			switch recLayer {
			case 0:
				if err := store.Put(rk, sink.Bytes()); err != nil {
					t.Fatal(err)
				}
			case 1:
				overlay.Put(rk, sink.Bytes())
			default:
				cache.PutContract(dep)
			}
		}
		if got, destroyed, err := cache.GetContract(oldA); err != nil || got == nil || destroyed {
			t.Fatalf("setup: old contract record not readable: %v %v %v", got, destroyed, err)
		}

		// non-triviality from the model
		oldLive, oldLayers, shadowOrTomb := 0, map[int]bool{}, 0
		for _, k := range allKeys(layers[2], layers[1], layers[0]) {
			if !strings.HasPrefix(k, string(oldA[:])) {
				continue
			}
			present := 0
			for li := 2; li >= 0; li-- {
				if _, ok := layers[li][k]; ok {
					present++
				}
			}
			if _, ok := lookup(k, layers[2], layers[1], layers[0]); ok {
				oldLive++
				for li := 2; li >= 0; li-- {
					if v, ok := layers[li][k]; ok && v != nil {
						oldLayers[li] = true
						break
					}
				}
			}
			if present > 1 {
				shadowOrTomb++
			}
		}
		nontrivial := oldLive >= 2 && len(oldLayers) >= 2 && shadowOrTomb >= 1

		// network / height
		var height uint32
		main := rapid.IntRange(0, 2).Draw(t, "mainnet") == 0
		if main {
			config.DefConfig.P2PNode.NetworkId = config.NETWORK_ID_MAIN_NET
			th := uint32(constants.BLOCKHEIGHT_TRACK_DESTROYED_CONTRACT_MAINNET)
			height = rapid.SampledFrom([]uint32{0, 1, th - 1, th, th + 1, th + 1000000}).Draw(t, "height")
		} else {
			config.DefConfig.P2PNode.NetworkId = 3
			height = rapid.SampledFrom([]uint32{0, 1, 10, 1 << 31}).Draw(t, "height")
		}
		tracking := config.GetTrackDestroyedContractHeight() <= height

		destroy := rapid.Bool().Draw(t, "destroy")
		if destroy {
			err = cache.CleanContractStorage(oldA, height)
		} else {
			err = cache.MigrateContractStorage(oldA, newA, height)
		}
		if err != nil {
			t.Fatalf("operation returned error %v; layout %v", err, desc)
		}
		opName := "migrate"
		if destroy {
			opName = "destroy"
		}

		// expected content
		want := layer{}
		for _, k := range allKeys(layers[2], layers[1], layers[0]) {
			v, ok := lookup(k, layers[2], layers[1], layers[0])
			if !ok {
				continue
			}
			if strings.HasPrefix(k, string(oldA[:])) {
				if !destroy {
					want[string(newA[:])+k[20:]] = v
				}
			} else {
				want[k] = v
			}
		}

		after := rapid.IntRange(0, 2).Draw(t, "after") // 0 nothing, 1 cache commit, 2 cache commit + overlay commit
		if after >= 1 {
			cache.Commit()
		}
		if after == 2 {
			store.NewBatch()
			overlay.CommitTo()
			if err := store.BatchCommit(); err != nil {
				t.Fatal(err)
			}
			overlay = overlaydb.NewOverlayDB(store)
			cache = storage.NewCacheDB(overlay)
		}
		ctx := fmt.Sprintf("%s old=%x new=%x height=%d net=%d after=%d recLayer=%d layout=%v", opName, oldA, newA, height, config.DefConfig.P2PNode.NetworkId, after, recLayer, desc)

		// observe: the complete contract storage space, then per address prefix, then point reads
		gotK, gotV, err := drain(cache.NewIterator(nil))
		if err != nil {
			t.Fatalf("iterator error %v; %s", err, ctx)
		}
		wantK, wantV := liveWithPrefix("", want)
		if !sameSeq(gotK, gotV, wantK, wantV) {
			t.Fatalf("after %s the contract storage space holds %s, reference map says %s; %s", opName, fmtSeq(gotK, gotV), fmtSeq(wantK, wantV), ctx)
		}
		oldK, oldV, err := drain(cache.NewIterator(oldA[:]))
		if err != nil || len(oldK) != 0 {
			t.Fatalf("after %s the old address still has storage %s (err %v); %s", opName, fmtSeq(oldK, oldV), err, ctx)
		}
		for _, a := range append([]common.Address{newA}, others...) {
			gk, gv, err := drain(cache.NewIterator(a[:]))
			if err != nil {
				t.Fatal(err)
			}
			wk, wv := liveWithPrefix(string(a[:]), want)
			if !sameSeq(gk, gv, wk, wv) {
				t.Fatalf("after %s storage under %x is %s, want %s; %s", opName, a, fmtSeq(gk, gv), fmtSeq(wk, wv), ctx)
			}
		}
		for k, v := range want {
			g, err := cache.Get([]byte(k))
			if err != nil || !bytes.Equal(g, v) {
				t.Fatalf("after %s Get(%x) = %x (err %v), want %x; %s", opName, k, g, err, v, ctx)
			}
		}
		for _, k := range allKeys(layers[2], layers[1], layers[0]) {
			if strings.HasPrefix(k, string(oldA[:])) {
				if g, err := cache.Get([]byte(k)); err != nil || len(g) != 0 {
					t.Fatalf("after %s Get(old key %x) = %x (err %v), want absent; %s", opName, k, g, err, ctx)
				}
			}
		}
		// destroyed marker: only claimed once tracking is active
		if tracking {
			c, destroyed, err := cache.GetContract(oldA)
			if err != nil || c != nil || !destroyed {
				t.Fatalf("tracking active (height %d >= %d) but GetContract(old) = (%v, destroyed=%v, %v), want (nil, true, nil); %s",
					height, config.GetTrackDestroyedContractHeight(), c != nil, destroyed, err, ctx)
			}
			ev.Class("a:tracking-active")
		} else {
			ev.Class("a:tracking-inactive")
		}

		ev.Class("a:case")
		ev.Class("a:" + opName)
		ev.Class(fmt.Sprintf("a:after=%d", after))
		if oldLive > 0 {
			ev.Class("a:old-has-live-entries")
		}
		if len(oldLayers) >= 2 {
			ev.Class("a:old-live-in>=2-layers")
		}
		if len(oldLayers) == 3 {
			ev.Class("a:old-live-in-3-layers")
		}
		if shadowOrTomb > 0 {
			ev.Class("a:old-shadowed-or-tombstoned")
		}
		if nontrivial {
			ev.Class("a:nontrivial")
		}
		ev.Case(nontrivial, fmt.Sprintf("a:%s h=%d net=%d after=%d rec=%d newKind=%x %v", opName, height, config.DefConfig.P2PNode.NetworkId, after, recLayer, newA[16:], desc))
	})
}
