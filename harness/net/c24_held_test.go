package net

// C24 held results. The property's statement ("reading a message returns a message whose
// re-serialization reproduces the payload") quantifies over every message a node reads and writes, and
// the node keeps them: link.Rx pushes each decoded message into a channel and goes on reading the next
// frame from the same reader, one Rx goroutine per link; handlers modify the message they were given
// (msg_handler sets Cons.PeerId); Send serializes from many goroutines. So a message / frame obtained
// for one input must be a function of that input alone and must not change because other inputs are
// processed later. The other C24 tests use every result immediately (and read the re-serialization of
// a message right after the message itself, i.e. the same payload twice), which cannot see a result
// that aliases reusable state (a pooled payload buffer, a per-kind prototype message, a pooled sink).
//
//   TestC24_HeldMessages  decoder side: 2-9 generated messages (same kinds on purpose, unknown commands
//       too) are delivered over 1-3 "links" (one stream of several frames per link, read through
//       bytes.Reader / a chunked reader / bufio as Rx does), interleaved, with failing reads and
//       encodes in between, optionally followed by 2-4 joined goroutines reading their own streams;
//       every returned message is kept untouched next to its canonical text taken at return time.
//   TestC24_HeldFrames    encoder side: Serialization / WriteMessage / SerializeToBytes outputs of
//       2-9 messages built back to back into fresh sinks, one shared sink and sinks over a caller's
//       buffer, optionally followed by joined goroutines; every returned buffer is kept untouched next
//       to a private copy.
//
// Afterwards: unchanged (vs the copy), equal to the generated value, usable again (re-serialized,
// re-decoded); recomputing result i after the others reproduces the copy; overwriting the streams the
// readers were fed from and the []byte fields the encoders were given does not change any result;
// messages from different ReadMessage calls share no memory (overwriting the byte fields of one does
// not change another, nor a frame made from it earlier).
//
// What is a copy on the unchanged tree (established by reading the code and by these tests): ReadMessage
// allocates its own payload buffer per call (io.ReadFull copies out of the reader), so a message never
// follows the reader's bytes; its []byte fields are zero-copy views of THAT private buffer (documented:
// "the buf is referenced by msg to avoid reallocation, so can not reused"), so nothing is asserted about
// a message whose own byte fields the harness overwrote. Every sink write copies its argument.

import (
	"bufio"
	"bytes"
	"crypto/sha256"
	"fmt"
	"io"
	"strings"
	"sync"
	"testing"

	"github.com/ontio/ontology/common"
	ct "github.com/ontio/ontology/core/types"
	pcom "github.com/ontio/ontology/p2pserver/common"
	"github.com/ontio/ontology/p2pserver/message/types"
	"pgregory.net/rapid"

	"verifharness/internal/harn"
)

const c24HeldRule = "held results: sequences of 2-9 generated messages (each later one is with probability ~0.4 of the kind of an earlier one, ~0.1 an unknown command with an arbitrary payload) (a) framed by the reference encoder, spread over 1-3 streams of several frames each and read interleaved by ReadMessage through bytes.Reader / a 1..4096-byte chunked reader / bufio (16 B..256 KiB) as link.Rx does, with rejected frames (bad checksum, short payload) and encodes in between, optionally followed by 2-4 joined goroutines reading 1-3 frames each from their own streams: every returned message is held untouched next to its canonical text taken at return time and must afterwards be unchanged, equal to the generated message, re-serialize to its frame and re-decode; re-reading frame i after the others reproduces the text; overwriting the streams, and the byte fields of the re-read copies and of a drawn half of the held messages, changes no other held message and no frame made earlier; (b) encoded back to back through Serialization / WriteMessage into fresh sinks, WriteMessage into one sink shared by the case and into sinks over a caller's buffer with a prefix, and common.SerializeToBytes, with decodes in between, optionally followed by joined goroutines encoding into their own sinks: every returned buffer is held untouched next to a private copy and must afterwards equal the copy and the reference encoding, decode to its message, be reproduced by encoding message i again, and stay unchanged when the []byte fields of the messages are overwritten; non-trivial = at least two held results with different bytes; distinct = different sequence of (route, frame)"

func c24heldEv() *harn.Collector { return c24ev().Rule(c24HeldRule) }

// c24Uniform draws an (almost) uniform value in [0,n), n <= 64, from boolean bits (rapid's integer
// generators favour small values).
func c24Uniform(t *rapid.T, n int, label string) int {
	x := 0
	for i := 0; i < 9; i++ {
		x <<= 1
		if rapid.Bool().Draw(t, label) {
			x |= 1
		}
	}
	return x % n
}

var c24UnknownCmds = []string{"zzz", "", "abcdefghijkl"}

func c24IsUnknown(cmd string) bool {
	for _, c := range c24UnknownCmds {
		if c == cmd {
			return true
		}
	}
	return false
}

// c24GenHeld draws the next message of a sequence.
func c24GenHeld(t *rapid.T, prev []gm) gm {
	cmd, pickCmd := "", false
	switch k := c24Uniform(t, 10, "pick"); {
	case k == 0:
		cmd, pickCmd = c24UnknownCmds[c24Uniform(t, len(c24UnknownCmds), "unknowncmd")], true
	case k <= 4 && len(prev) > 0:
		cmd, pickCmd = prev[c24Uniform(t, len(prev), "sameas")].cmd, true
	}
	if !pickCmd {
		cmd = rapid.SampledFrom(allCmds).Draw(t, "cmd")
	}
	if cmd == pcom.SUBNET_OFFLINE_TYPE && knownOff {
		cmd = pcom.CONSENSUS_TYPE // recorded finding: no offline message decodes
	}
	if c24IsUnknown(cmd) {
		pay := drawBytes(t, "unknownpayload", 700)
		g := gm{cmd: cmd, p: &pb{}, size: len(pay)}
		g.p.raw(pay)
		g.msg = &types.UnknownMessage{Cmd: cmd, Payload: append([]byte{}, pay...)}
		g.descr = fmt.Sprintf("unknown(%q) size=%d payload[%d]=%s", cmd, g.size, len(pay), shortHex(pay))
		return g
	}
	return genMsgOf(t, cmd)
}

// c24Scribble inverts every []byte field of a message in place (applying it twice restores the
// message) and returns the number of bytes touched. Regions are disjoint: a transaction is covered by
// its Raw bytes (its payload and signature fields are views of Raw).
func c24Scribble(m types.Message) (n int) {
	x := func(b []byte) {
		for i := range b {
			b[i] ^= 0xFF
		}
		n += len(b)
	}
	hdr := func(h *ct.Header) {
		if h == nil {
			return
		}
		x(h.ConsensusPayload)
		for _, s := range h.SigData {
			x(s)
		}
	}
	tx := func(t *ct.Transaction) {
		if t != nil {
			x(t.Raw)
		}
	}
	switch v := m.(type) {
	case *types.Consensus:
		x(v.Cons.Data)
		x(v.Cons.Signature)
	case *types.UnknownMessage:
		x(v.Payload)
	case *types.BlkHeader:
		for _, h := range v.BlkHdr {
			hdr(h)
		}
	case *types.Block:
		if v.Blk != nil {
			hdr(v.Blk.Header)
			for _, t := range v.Blk.Transactions {
				tx(t)
			}
		}
		if v.CCMsg != nil {
			for _, s := range v.CCMsg.SigData {
				x(s)
			}
		}
	case *types.Trn:
		tx(v.Txn)
	case *types.SubnetMembersRequest:
		x(v.Sig)
	case *types.OfflineWitnessMsg:
		x(v.ProposerSig)
		for _, vt := range v.Voters {
			x(vt.OfflineIndex)
			x(vt.Sig)
		}
	}
	return
}

// chunkReader hands out at most chunk bytes per Read.
type chunkReader struct {
	b     []byte
	pos   int
	chunk int
}

func (c *chunkReader) Read(p []byte) (int, error) {
	if c.pos >= len(c.b) {
		return 0, io.EOF
	}
	n := len(p)
	if n > c.chunk {
		n = c.chunk
	}
	if n > len(c.b)-c.pos {
		n = len(c.b) - c.pos
	}
	copy(p, c.b[c.pos:c.pos+n])
	c.pos += n
	return n, nil
}

var (
	c24ReaderKinds = []string{"bytes", "chunk", "bufio"}
	c24Chunks      = []int{1, 7, 24, 100, 4096}
	c24BufSizes    = []int{16, 4096, pcom.MAX_BUF_LEN}
)

func c24NewReader(t *rapid.T, stream []byte) (io.Reader, string) {
	switch k := c24ReaderKinds[c24Uniform(t, len(c24ReaderKinds), "reader")]; k {
	case "chunk":
		c := c24Chunks[c24Uniform(t, len(c24Chunks), "chunk")]
		return &chunkReader{b: stream, chunk: c}, fmt.Sprintf("chunk%d", c)
	case "bufio":
		c := c24Chunks[1+c24Uniform(t, len(c24Chunks)-1, "chunk")]
		s := c24BufSizes[c24Uniform(t, len(c24BufSizes), "bufsize")]
		return bufio.NewReaderSize(&chunkReader{b: stream, chunk: c}, s), fmt.Sprintf("bufio%d/chunk%d", s, c)
	}
	return bytes.NewReader(stream), "bytes"
}

// c24Read is ReadMessage with panic recovery; safe on any goroutine (no shared meter).
func c24Read(r io.Reader) (msg types.Message, n uint32, err error, pan interface{}) {
	defer func() {
		if r := recover(); r != nil {
			pan = r
		}
	}()
	msg, n, err = types.ReadMessage(r)
	return
}

// c24Canon is canon with panic recovery (a message whose buffers were recycled may not even print).
func c24Canon(m types.Message) (s string) {
	defer func() {
		if r := recover(); r != nil {
			s = fmt.Sprintf("<canon panicked: %v>", r)
		}
	}()
	return canon(m)
}

func invert(b []byte) {
	for i := range b {
		b[i] ^= 0xFF
	}
}

func firstDiff(a, b string) string {
	i := 0
	for i < len(a) && i < len(b) && a[i] == b[i] {
		i++
	}
	lo := i - 24
	if lo < 0 {
		lo = 0
	}
	cut := func(s string) string {
		hi := i + 56
		if hi > len(s) {
			hi = len(s)
		}
		if lo > len(s) {
			return ""
		}
		return s[lo:hi]
	}
	return fmt.Sprintf("first difference at offset %d: was …%s… now …%s…", i, cut(a), cut(b))
}

// ---------------------------------------------------------------------------------------------
// decoder side

type c24HeldMsg struct {
	g     gm
	want  string        // canonical text of the generated message
	frame []byte        // reference frame, private to the harness
	msg   types.Message // exactly what ReadMessage returned; the harness only ever inverts byte fields and restores them
	snap  string        // canonical text taken at return time
	where string        // "link1/bufio4096/chunk7#2" or "g1/bytes#0"
	link  int
	back  []byte        // frame re-serialized from msg (an encoder result held as well)
	bsnap []byte
	n     uint32
	err   error
	pan   interface{}
}

func (h *c24HeldMsg) String() string { return h.where + ":" + h.g.cmd + "[" + fmt.Sprint(len(h.frame)) + "]" }

// checkReturned judges a result at return time.
func (h *c24HeldMsg) checkReturned() string {
	if h.pan != nil || h.err != nil {
		return fmt.Sprintf("the valid frame of %s (%s) was not decoded: err=%v panic=%v", h.g.descr, h.where, h.err, h.pan)
	}
	if h.msg == nil || int(h.n) != len(h.frame)-24 || h.msg.CmdType() != h.g.cmd {
		return fmt.Sprintf("reading %s (%s): message %v, payload size %d (want %d)", h.g.descr, h.where, h.msg, h.n, len(h.frame)-24)
	}
	if h.snap != h.want {
		return fmt.Sprintf("%s (%s): decoded fields differ from the generated message\n %s\n decoded   %s\n generated %s", h.g.descr, h.where, firstDiff(h.want, h.snap), clipS(h.snap), clipS(h.want))
	}
	return ""
}

func clipS(s string) string {
	if len(s) > 900 {
		return s[:900] + "…"
	}
	return s
}

// checkHeld: the held message still prints as at return time.
func (h *c24HeldMsg) checkHeld(when string) string {
	if now := c24Canon(h.msg); now != h.snap {
		return fmt.Sprintf("the message returned by ReadMessage for %s (%s) changed %s (a returned message must not alias state that later calls reuse)\n %s\n was %s\n now %s",
			h.g.descr, h.where, when, firstDiff(h.snap, now), clipS(h.snap), clipS(now))
	}
	if h.back != nil && !bytes.Equal(h.back, h.bsnap) {
		return fmt.Sprintf("the frame written from the held message of %s (%s) changed %s: was %x now %x", h.g.descr, h.where, when, clip(h.bsnap, 300), clip(h.back, 300))
	}
	return ""
}

// reuse: the held message is used again — re-serialized (byte-identical to its frame) and re-decoded.
func (h *c24HeldMsg) reuse(when string) string {
	f, pan := encodeFrame(h.msg)
	if pan != nil || !bytes.Equal(f, h.frame) {
		return fmt.Sprintf("the held message of %s (%s) does not re-serialize to its frame %s (panic=%v)\n got  %x\n want %x", h.g.descr, h.where, when, pan, clip(f, 400), clip(h.frame, 400))
	}
	if h.back == nil {
		h.back, h.bsnap = f, append([]byte{}, f...)
	}
	m2, _, err, pan := c24Read(bytes.NewReader(f))
	if err != nil || pan != nil || c24Canon(m2) != h.snap {
		return fmt.Sprintf("the re-serialized held message of %s (%s) does not decode to it %s: err=%v panic=%v", h.g.descr, h.where, when, err, pan)
	}
	return ""
}

func TestC24_HeldMessages(t *testing.T) {
	setup()
	replayKnown()
	ev := c24heldEv()
	ev.Floor("heldmsg:distinct>=2", "heldmsg", 0.80)
	ev.Floor("heldmsg:later>=3", "heldmsg", 0.40)
	ev.Floor("heldmsg:samekind", "heldmsg", 0.40)
	ev.Floor("heldmsg:samereader", "heldmsg", 0.40)
	ev.Floor("heldmsg:views", "heldmsg", 0.50)
	ev.Floor("heldmsg:concurrent", "heldmsg", 0.15)
	harn.Check(t, 500, 24000, func(t *rapid.T) {
		n := 2 + c24Uniform(t, 8, "further") // the first message is held over 1-8 further reads
		links := 1 + c24Uniform(t, 3, "links")
		var gs []gm
		held := make([]*c24HeldMsg, 0, n+12)
		streams := make([][]byte, links)
		perLink := make([]int, links)
		for i := 0; i < n; i++ {
			g := c24GenHeld(t, gs)
			gs = append(gs, g)
			l := c24Uniform(t, links, "link")
			h := &c24HeldMsg{g: g, want: canon(g.msg), frame: refFrame(g.cmd, g.p.b), link: l}
			h.where = fmt.Sprintf("#%d", perLink[l])
			perLink[l]++
			streams[l] = append(streams[l], h.frame...)
			held = append(held, h)
		}
		readers := make([]io.Reader, links)
		rkind := make([]string, links)
		for l := range readers {
			readers[l], rkind[l] = c24NewReader(t, streams[l])
		}
		for _, h := range held {
			h.where = fmt.Sprintf("link%d/%s%s", h.link, rkind[h.link], h.where)
		}

		// the reads, in sequence order (interleaving the links), with noise in between
		for i, h := range held {
			h.msg, h.n, h.err, h.pan = c24Read(readers[h.link])
			if h.err == nil && h.pan == nil && h.msg != nil {
				h.snap = c24Canon(h.msg)
			}
			if msg := h.checkReturned(); msg != "" {
				t.Fatalf("read %d of %d: %s", i+1, n, msg)
			}
			switch c24Uniform(t, 8, "noise") {
			case 0: // a frame with a wrong checksum, from a reader of its own
				k := held[c24Uniform(t, i+1, "which")]
				bad := append([]byte{}, k.frame...)
				bad[20+c24Uniform(t, 4, "ckbyte")] ^= 0x40
				if m, _, err, pan := c24Read(bytes.NewReader(bad)); err == nil || pan != nil || m != nil {
					t.Fatalf("a frame with a wrong checksum was not rejected: msg=%v err=%v panic=%v", m, err, pan)
				}
				ev.Class("heldmsg:noise=badchecksum")
			case 1: // a frame whose payload is cut short
				k := held[c24Uniform(t, i+1, "which")]
				if len(k.frame) > 24 {
					lim := len(k.frame) - 24
					if lim > 64 {
						lim = 64
					}
					if m, _, err, pan := c24Read(bytes.NewReader(k.frame[:24+c24Uniform(t, lim, "cut")])); err == nil || pan != nil || m != nil {
						t.Fatalf("a frame with a short payload was not rejected: msg=%v err=%v panic=%v", m, err, pan)
					}
					ev.Class("heldmsg:noise=short")
				}
			case 2: // an encode of an earlier result
				k := held[c24Uniform(t, i+1, "which")]
				if msg := k.reuse(fmt.Sprintf("after read %d", i+1)); msg != "" {
					t.Fatalf("%s", msg)
				}
				ev.Class("heldmsg:noise=encode")
			}
		}
		for l, r := range readers { // exactly the frames were consumed
			if m, _, err, pan := c24Read(r); err == nil || pan != nil {
				t.Fatalf("link %d (%s): a message %v was read behind the last frame (panic=%v)", l, rkind[l], m, pan)
			}
		}
		for i, h := range held {
			if msg := h.checkHeld(fmt.Sprintf("after %d further ReadMessage calls on the same goroutine", n-1-i)); msg != "" {
				t.Fatalf("%s", msg)
			}
		}

		// optionally: joined goroutines (one Rx loop each) reading their own streams while everything is held
		conc := 0
		if c24Uniform(t, 3, "concurrent") == 0 {
			conc = 2 + c24Uniform(t, 3, "goroutines")
			jobs := make([][]*c24HeldMsg, conc)
			cstreams := make([][]byte, conc)
			for g := range jobs {
				for k, m := 0, 1+c24Uniform(t, 3, "perG"); k < m; k++ {
					x := c24GenHeld(t, gs)
					gs = append(gs, x)
					h := &c24HeldMsg{g: x, want: canon(x.msg), frame: refFrame(x.cmd, x.p.b), where: fmt.Sprintf("g%d/bytes#%d", g, k)}
					jobs[g] = append(jobs[g], h)
					cstreams[g] = append(cstreams[g], h.frame...)
				}
			}
			var wg sync.WaitGroup
			for g := range jobs {
				wg.Add(1)
				go func(g int) {
					defer wg.Done()
					r := bytes.NewReader(cstreams[g])
					for _, h := range jobs[g] {
						h.msg, h.n, h.err, h.pan = c24Read(r)
						if h.err == nil && h.pan == nil && h.msg != nil {
							h.snap = c24Canon(h.msg)
						}
					}
				}(g)
			}
			wg.Wait()
			for g := range jobs {
				for _, h := range jobs[g] {
					if msg := h.checkReturned(); msg != "" {
						t.Fatalf("goroutine %d of %d: %s", g, conc, msg)
					}
					held = append(held, h)
				}
			}
			streams = append(streams, cstreams...)
		}
		all := func(when string) {
			for _, h := range held {
				if msg := h.checkHeld(when); msg != "" {
					t.Fatalf("%s", msg)
				}
			}
		}
		all("by the end of the case")

		// determinism against call history: frame i read again, after all the others
		again := make([]types.Message, len(held))
		for i, h := range held {
			cp := append([]byte{}, h.frame...)
			m, _, err, pan := c24Read(bytes.NewReader(cp))
			if err != nil || pan != nil || c24Canon(m) != h.snap {
				t.Fatalf("reading the frame of %s again after %d other frames gives another result: err=%v panic=%v\n first %s\n again %s", h.g.descr, len(held)-1, err, pan, clipS(h.snap), clipS(c24Canon(m)))
			}
			again[i] = m
			streams = append(streams, cp)
		}
		all("after every frame was read once more")

		// the readers' bytes are the caller's: overwriting them must not reach a returned message
		for _, s := range streams {
			invert(s)
		}
		all("when the streams the readers were fed from were overwritten")

		// messages of different ReadMessage calls share no memory
		views := 0
		for _, m := range again {
			views += c24Scribble(m)
		}
		all("when the byte fields of messages decoded by later ReadMessage calls from equal frames were overwritten")
		for _, h := range held { // every held message is used again, then its re-serialization is held too
			if msg := h.reuse("by the end of the case"); msg != "" {
				t.Fatalf("%s", msg)
			}
		}
		victim := make([]bool, len(held))
		for i, h := range held {
			if victim[i] = rapid.Bool().Draw(t, "victim"); victim[i] {
				c24Scribble(h.msg)
			}
		}
		for i, h := range held {
			if !victim[i] {
				if msg := h.checkHeld("when the byte fields of other held messages were overwritten"); msg != "" {
					t.Fatalf("%s", msg)
				}
			} else if !bytes.Equal(h.back, h.bsnap) {
				t.Fatalf("the frame written from the message of %s (%s) changed when the message's byte fields were overwritten afterwards: was %x now %x", h.g.descr, h.where, clip(h.bsnap, 300), clip(h.back, 300))
			}
		}
		for i, h := range held {
			if victim[i] {
				c24Scribble(h.msg)
			}
		}
		all("after the overwritten byte fields were restored")

		// evidence
		distinct, kinds, sameKind := map[string]bool{}, map[string]string{}, false
		var desc []string
		sum := sha256.New()
		for _, h := range held {
			distinct[string(h.frame)] = true
			if p, ok := kinds[h.g.cmd]; ok && p != string(h.frame) {
				sameKind = true
			}
			kinds[h.g.cmd] = string(h.frame)
			desc = append(desc, h.String())
			sum.Write(h.frame)
			ev.Class("heldmsg:kind=" + kindClass(h.g.cmd))
		}
		sameReader := false
		for _, c := range perLink {
			if c >= 2 {
				sameReader = true
			}
		}
		for _, k := range rkind {
			ev.Class("heldmsg:reader=" + strings.TrimRight(strings.SplitN(k, "/", 2)[0], "0123456789"))
		}
		ev.Class("heldmsg")
		ev.ClassN("heldmsg:messages", int64(len(held)))
		if len(distinct) >= 2 {
			ev.Class("heldmsg:distinct>=2")
		}
		if n-1 >= 3 {
			ev.Class("heldmsg:later>=3")
		}
		if sameKind {
			ev.Class("heldmsg:samekind")
		}
		if sameReader {
			ev.Class("heldmsg:samereader")
		}
		if views > 0 {
			ev.Class("heldmsg:views")
		}
		if conc > 0 {
			ev.Class("heldmsg:concurrent")
		}
		ev.Case(len(distinct) >= 2, fmt.Sprintf("heldmsg n=%d links=%d conc=%d sha=%x %s", n, links, conc, sum.Sum(nil)[:8], strings.Join(desc, " ")))
	})
}

func kindClass(cmd string) string {
	if c24IsUnknown(cmd) {
		return "unknown"
	}
	return cmd
}

// ---------------------------------------------------------------------------------------------
// encoder side

const (
	c24RouteSer    = iota // msg.Serialization into a fresh sink: the payload
	c24RouteWrite         // WriteMessage into a fresh sink: the frame
	c24RouteShared        // WriteMessage appended to the sink shared by the case: the frame, a view of the sink
	c24RouteBytes         // common.SerializeToBytes(msg): the payload
	c24RoutePrefix        // WriteMessage into a sink made over a caller's buffer that already holds a prefix
	c24Routes
)

var c24RouteName = []string{"Serialization", "WriteMessage", "shared-sink", "SerializeToBytes", "prefixed-sink"}

// c24EncJob is one encoder call, completely drawn beforehand so that it can run on any goroutine.
type c24EncJob struct {
	g      gm
	want   string
	route  int
	prefix []byte // route prefixed-sink: the caller's buffer content
	room   int    // route prefixed-sink: spare capacity of the caller's buffer
	ref    []byte
}

type c24HeldBuf struct {
	job   *c24EncJob
	buf   []byte // exactly what the encoder side returned; never touched by the harness
	snap  []byte // private copy taken at return time
	pre   []byte // route prefixed-sink: the prefix as found in the sink afterwards
	panic interface{}
}

func (j *c24EncJob) String() string {
	return fmt.Sprintf("%s:%s[%d]", c24RouteName[j.route], j.g.cmd, len(j.ref))
}

func c24GenEncJob(t *rapid.T, prev []gm, allowShared bool) *c24EncJob {
	g := c24GenHeld(t, prev)
	j := &c24EncJob{g: g, want: canon(g.msg), route: c24Uniform(t, c24Routes, "route")}
	if j.route == c24RouteShared && !allowShared {
		j.route = c24RouteWrite
	}
	switch j.route {
	case c24RouteSer, c24RouteBytes:
		j.ref = append([]byte{}, g.p.b...)
	default:
		j.ref = refFrame(g.cmd, g.p.b)
	}
	if j.route == c24RoutePrefix {
		j.prefix = drawBytes(t, "prefix", 60)
		j.room = []int{0, 8, 600, 20000}[c24Uniform(t, 4, "room")]
	}
	return j
}

// run performs the encoder call; it draws nothing and never calls into rapid.
func (j *c24EncJob) run(shared *common.ZeroCopySink) (h *c24HeldBuf) {
	h = &c24HeldBuf{job: j}
	defer func() {
		if r := recover(); r != nil {
			h.panic = r
		}
	}()
	switch j.route {
	case c24RouteSer:
		s := common.NewZeroCopySink(nil)
		j.g.msg.Serialization(s)
		h.buf = s.Bytes()
	case c24RouteWrite:
		s := common.NewZeroCopySink(nil)
		types.WriteMessage(s, j.g.msg)
		h.buf = s.Bytes()
	case c24RouteShared:
		start := shared.Size()
		types.WriteMessage(shared, j.g.msg)
		b := shared.Bytes()
		h.buf = b[start:len(b):len(b)]
	case c24RouteBytes:
		h.buf = common.SerializeToBytes(j.g.msg)
	case c24RoutePrefix:
		own := make([]byte, len(j.prefix), len(j.prefix)+j.room)
		copy(own, j.prefix)
		s := common.NewZeroCopySink(own)
		types.WriteMessage(s, j.g.msg)
		b := s.Bytes()
		h.pre, h.buf = b[:len(j.prefix):len(j.prefix)], b[len(j.prefix):len(b):len(b)]
	}
	h.snap = append([]byte{}, h.buf...)
	return h
}

func (h *c24HeldBuf) checkReturned() string {
	j := h.job
	if h.panic != nil {
		return fmt.Sprintf("encoding %s through %s panicked: %v", j.g.descr, c24RouteName[j.route], h.panic)
	}
	if !bytes.Equal(h.snap, j.ref) {
		return fmt.Sprintf("%s of %s differs from the reference encoding\n got  %x\n want %x", c24RouteName[j.route], j.g.descr, clip(h.snap, 400), clip(j.ref, 400))
	}
	return ""
}

// checkHeld: unchanged, and still decodable to its message.
func (h *c24HeldBuf) checkHeld(when string, decode bool) string {
	j := h.job
	if !bytes.Equal(h.buf, h.snap) {
		return fmt.Sprintf("the buffer returned by %s for %s changed %s (a result must not alias state that later calls reuse)\n was %x\n now %x", c24RouteName[j.route], j.g.descr, when, clip(h.snap, 400), clip(h.buf, 400))
	}
	if !bytes.Equal(h.pre, j.prefix) {
		return fmt.Sprintf("the prefix in front of the frame of %s changed %s: was %x now %x", j.g.descr, when, j.prefix, h.pre)
	}
	if !decode {
		return ""
	}
	frame := h.buf
	if j.route == c24RouteSer || j.route == c24RouteBytes {
		frame = refFrame(j.g.cmd, h.buf)
	}
	m, n, err, pan := c24Read(bytes.NewReader(frame))
	if err != nil || pan != nil || int(n) != len(frame)-24 || c24Canon(m) != j.want {
		return fmt.Sprintf("the held result of %s for %s does not decode to the message %s: err=%v panic=%v\n decoded   %s\n generated %s", c24RouteName[j.route], j.g.descr, when, err, pan, clipS(c24Canon(m)), clipS(j.want))
	}
	return ""
}

func TestC24_HeldFrames(t *testing.T) {
	setup()
	replayKnown()
	ev := c24heldEv()
	ev.Floor("heldbuf:distinct>=2", "heldbuf", 0.80)
	ev.Floor("heldbuf:later>=3", "heldbuf", 0.40)
	ev.Floor("heldbuf:shared>=2", "heldbuf", 0.20)
	ev.Floor("heldbuf:concurrent", "heldbuf", 0.15)
	harn.Check(t, 600, 30000, func(t *rapid.T) {
		n := 2 + c24Uniform(t, 8, "further") // the first buffer is held over 1-8 further encodes
		shared := common.NewZeroCopySink(nil)
		var sharedRef []byte
		nShared := 0
		var gs []gm
		var held []*c24HeldBuf
		var desc []string
		for i := 0; i < n; i++ {
			j := c24GenEncJob(t, gs, true)
			gs = append(gs, j.g)
			h := j.run(shared)
			if msg := h.checkReturned(); msg != "" {
				t.Fatalf("encode %d of %d: %s", i+1, n, msg)
			}
			if j.route == c24RouteShared {
				sharedRef = append(sharedRef, j.ref...)
				nShared++
			}
			held = append(held, h)
			desc = append(desc, j.String())
			ev.Class("heldbuf:route=" + c24RouteName[j.route])
			switch c24Uniform(t, 8, "noise") {
			case 0: // a decode of an earlier result
				k := held[c24Uniform(t, len(held), "which")]
				if msg := k.checkHeld(fmt.Sprintf("after encode %d", i+1), true); msg != "" {
					t.Fatalf("%s", msg)
				}
				ev.Class("heldbuf:noise=decode")
			case 1: // a rejected frame
				bad := refFrame(j.g.cmd, j.g.p.b)
				bad[20] ^= 1
				if m, _, err, pan := c24Read(bytes.NewReader(bad)); err == nil || pan != nil || m != nil {
					t.Fatalf("a frame with a wrong checksum was not rejected: msg=%v err=%v panic=%v", m, err, pan)
				}
				ev.Class("heldbuf:noise=badchecksum")
			}
		}
		for i, h := range held {
			if msg := h.checkHeld(fmt.Sprintf("after %d further encoder calls on the same goroutine", n-1-i), true); msg != "" {
				t.Fatalf("%s\nsequence: %s", msg, strings.Join(desc, " ; "))
			}
		}
		if !bytes.Equal(shared.Bytes(), sharedRef) {
			t.Fatalf("%d messages written back to back into one sink: the sink holds %x, the frames are %x\nsequence: %s", nShared, clip(shared.Bytes(), 600), clip(sharedRef, 600), strings.Join(desc, " ; "))
		}

		// optionally: joined goroutines (Link.Send is called from many) encoding into their own sinks
		conc := 0
		if c24Uniform(t, 3, "concurrent") == 0 {
			conc = 2 + c24Uniform(t, 3, "goroutines")
			jobs := make([][]*c24EncJob, conc)
			for g := range jobs {
				for k, m := 0, 1+c24Uniform(t, 3, "perG"); k < m; k++ {
					j := c24GenEncJob(t, gs, false)
					gs = append(gs, j.g)
					jobs[g] = append(jobs[g], j)
				}
			}
			res := make([][]*c24HeldBuf, conc)
			var wg sync.WaitGroup
			for g := range jobs {
				wg.Add(1)
				go func(g int) {
					defer wg.Done()
					for _, j := range jobs[g] {
						res[g] = append(res[g], j.run(nil))
					}
				}(g)
			}
			wg.Wait()
			for g := range res {
				for _, h := range res[g] {
					if msg := h.checkReturned(); msg != "" {
						t.Fatalf("goroutine %d of %d: %s", g, conc, msg)
					}
					held = append(held, h)
					desc = append(desc, fmt.Sprintf("g%d:%s", g, h.job))
				}
			}
		}
		all := func(when string, decode bool) {
			for _, h := range held {
				if msg := h.checkHeld(when, decode); msg != "" {
					t.Fatalf("%s\nsequence: %s", msg, strings.Join(desc, " ; "))
				}
			}
		}
		all("by the end of the case", true)

		// determinism against call history: message i encoded again after all the others
		for _, h := range held {
			j2 := *h.job
			if j2.route == c24RouteShared {
				j2.route = c24RouteWrite
			}
			h2 := j2.run(nil)
			if h2.panic != nil || !bytes.Equal(h2.snap, h.snap) {
				t.Fatalf("encoding %s again after %d other messages gives other bytes (panic=%v)\n first %x\n again %x", h.job.g.descr, len(held)-1, h2.panic, clip(h.snap, 400), clip(h2.snap, 400))
			}
		}
		all("after every message was encoded once more", false)

		// the messages' byte fields are the caller's: every sink write is a copy
		args := 0
		for _, h := range held {
			args += c24Scribble(h.job.g.msg)
		}
		all("when the []byte fields of the messages it was made from were overwritten", false)
		if !bytes.Equal(shared.Bytes(), sharedRef) {
			t.Fatalf("the sink shared by %d frames changed when the messages' []byte fields were overwritten", nShared)
		}

		distinct := map[string]bool{}
		sum := sha256.New()
		for _, h := range held {
			distinct[string(h.snap)] = true
			sum.Write(h.snap)
			ev.Class("heldbuf:kind=" + kindClass(h.job.g.cmd))
		}
		ev.Class("heldbuf")
		ev.ClassN("heldbuf:buffers", int64(len(held)))
		if len(distinct) >= 2 {
			ev.Class("heldbuf:distinct>=2")
		}
		if n-1 >= 3 {
			ev.Class("heldbuf:later>=3")
		}
		if nShared >= 2 {
			ev.Class("heldbuf:shared>=2")
		}
		if args > 0 {
			ev.Class("heldbuf:args")
		}
		if conc > 0 {
			ev.Class("heldbuf:concurrent")
		}
		ev.Case(len(distinct) >= 2, fmt.Sprintf("heldbuf n=%d conc=%d sha=%x %s", n, conc, sum.Sum(nil)[:8], strings.Join(desc, " ; ")))
	})
}
