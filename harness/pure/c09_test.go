package pure

// C09 ONG issuance is interval-additive and totals exactly the ONG supply.
// Oracles (none of them re-implements the schedule):
//   * metamorphic: f(a,b) = f(a,m) + f(m,b) for CalcUnbindOng and CalcGovernanceUnbindOng, two-way and n-way splits;
//   * n-way split into single seconds for short windows around every boundary (brute-force sum);
//   * totals: Σ over any partition of [0,MaxUint32] of holder(ONT_TOTAL)+governance = ONG_TOTAL_SUPPLY, per network id.

import (
	"fmt"
	"math"
	"sort"
	"testing"

	"github.com/ontio/ontology/common/config"
	"github.com/ontio/ontology/common/constants"
	nutils "github.com/ontio/ontology/smartcontract/service/native/utils"
	"pgregory.net/rapid"

	"verifharness/internal/harn"
)

const c09GapKey = "gov-unbind-gap-split-at-deadline"

func c09SetNet(id uint32) { config.DefConfig.P2PNode.NetworkId = id }

// c09Net draws a network id: mainnet, polaris, solo(3) or an arbitrary other id.
func c09Net(t *rapid.T) uint32 {
	switch rapid.IntRange(0, 4).Draw(t, "netkind") {
	case 0, 1:
		return config.NETWORK_ID_MAIN_NET
	case 2:
		return config.NETWORK_ID_POLARIS_NET
	case 3:
		return config.NETWORK_ID_SOLO_NET
	default:
		return rapid.Uint32().Draw(t, "netid")
	}
}

// c09Boundaries lists the offsets at which the schedule changes on the currently selected network.
func c09Boundaries() []uint32 {
	hd := config.GetOntHolderUnboundDeadline()
	gd, _ := config.GetGovUnboundDeadline()
	// the two deadlines are listed several times so that they are drawn more often than a year boundary
	b := []uint32{0, hd, gd, math.MaxUint32, gd, gd, gd, hd, hd}
	for k := uint32(1); k <= 19; k++ {
		b = append(b, k*constants.UNBOUND_TIME_INTERVAL)
	}
	return b
}

// c09Offset draws a 32-bit offset: half of the time within ±2 of a boundary, otherwise uniform / small / near another offset.
func c09Offset(t *rapid.T, label string, bounds []uint32) uint32 {
	switch rapid.IntRange(0, 5).Draw(t, label+"kind") {
	case 0, 1, 2:
		b := rapid.SampledFrom(bounds).Draw(t, label+"bound")
		d := rapid.IntRange(-2, 2).Draw(t, label+"delta")
		v := int64(b) + int64(d)
		if v < 0 {
			v = 0
		}
		if v > math.MaxUint32 {
			v = math.MaxUint32
		}
		return uint32(v)
	case 3:
		return rapid.Uint32Range(0, 18*constants.UNBOUND_TIME_INTERVAL+1000).Draw(t, label+"sched")
	case 4:
		return rapid.Uint32Range(0, 5000).Draw(t, label+"small")
	default:
		return rapid.Uint32().Draw(t, label+"any")
	}
}

func c09NearBoundary(x uint32, bounds []uint32) bool {
	for _, b := range bounds {
		d := int64(x) - int64(b)
		if d >= -2 && d <= 2 {
			return true
		}
	}
	return false
}

// c09Balance: ONT balances are whole tokens, at most the total supply (10^9), so amount*balance stays below 2^64.
func c09Balance(t *rapid.T) uint64 {
	switch rapid.IntRange(0, 3).Draw(t, "balkind") {
	case 0:
		return 1
	case 1:
		return constants.ONT_TOTAL_SUPPLY
	case 2:
		return rapid.Uint64Range(0, 10).Draw(t, "balsmall")
	default:
		return rapid.Uint64Range(0, constants.ONT_TOTAL_SUPPLY).Draw(t, "bal")
	}
}

// c09GapWitness replays the recorded finding: on network id the governance release over [0,Max] split exactly at
// the governance deadline d. It returns true when the split sum differs from the unsplit amount.
func c09GapWitness(id uint32) (bool, string) {
	c09SetNet(id)
	d, gap := config.GetGovUnboundDeadline()
	whole := nutils.CalcGovernanceUnbindOng(0, math.MaxUint32)
	split := nutils.CalcGovernanceUnbindOng(0, d) + nutils.CalcGovernanceUnbindOng(d, math.MaxUint32)
	return whole != split, fmt.Sprintf("net=%d d=%d gap=%d whole=%d split=%d diff=%d", id, d, gap, whole, split, int64(whole-split))
}

// c09KnownGap reports whether splits of the governance release exactly at the governance deadline are to be
// excluded (finding listed and still reproducing on all three named networks' code path).
func c09KnownGap(t *testing.T) bool {
	still := false
	for _, id := range []uint32{config.NETWORK_ID_MAIN_NET, config.NETWORK_ID_POLARIS_NET, config.NETWORK_ID_SOLO_NET} {
		bad, desc := c09GapWitness(id)
		if bad {
			still = true
			t.Logf("witness %s: %s", c09GapKey, desc)
		}
	}
	return harn.Known("C09", c09GapKey, still)
}

const c09Rule = "network id from {main, polaris, solo 3, arbitrary uint32}; offsets a<=m<=b from a pool of boundaries " +
	"{0, k*INTERVAL (k<=19), holder deadline, governance deadline, MaxUint32} +-2 mixed with uniform/small values; balance in {1,10^9,0..10,uniform<=10^9}; " +
	"non-trivial = some split point lies within 2 seconds of a boundary and strictly inside (a,b); distinct = different (function, network, balance, offsets)"

// gov computes the governance release and guards the call against panics (table index errors).
func c09Gov(t *rapid.T, a, b uint32) (v uint64) {
	defer func() {
		if r := recover(); r != nil {
			t.Fatalf("CalcGovernanceUnbindOng(%d,%d) on network %d panicked: %v", a, b, config.DefConfig.P2PNode.NetworkId, r)
		}
	}()
	return nutils.CalcGovernanceUnbindOng(a, b)
}

func c09Holder(t *rapid.T, bal uint64, a, b uint32) (v uint64) {
	defer func() {
		if r := recover(); r != nil {
			t.Fatalf("CalcUnbindOng(%d,%d,%d) on network %d panicked: %v", bal, a, b, config.DefConfig.P2PNode.NetworkId, r)
		}
	}()
	return nutils.CalcUnbindOng(bal, a, b)
}

func c09Triple(t *rapid.T, bounds []uint32) (a, m, b uint32) {
	x := []uint32{c09Offset(t, "x", bounds), c09Offset(t, "y", bounds), c09Offset(t, "z", bounds)}
	sort.Slice(x, func(i, j int) bool { return x[i] < x[j] })
	return x[0], x[1], x[2]
}

func TestC09_HolderSplit(t *testing.T) {
	ev := harn.For("C09").Rule(c09Rule)
	ev.Assume("ONT balances passed to CalcUnbindOng are whole tokens <= ONT_TOTAL_SUPPLY (10^9), as produced by the ONT and governance contracts")
	harn.Check(t, 60000, 3000000, func(t *rapid.T) {
		net := c09Net(t)
		c09SetNet(net)
		bounds := c09Boundaries()
		a, m, b := c09Triple(t, bounds)
		bal := c09Balance(t)
		whole := c09Holder(t, bal, a, b)
		l, r := c09Holder(t, bal, a, m), c09Holder(t, bal, m, b)
		if whole != l+r {
			t.Fatalf("holder release not additive on network %d, balance %d: f(%d,%d)=%d but f(%d,%d)+f(%d,%d)=%d+%d=%d",
				net, bal, a, b, whole, a, m, m, b, l, r, l+r)
		}
		if c09Holder(t, bal, b, a) != 0 && a != b {
			t.Fatalf("holder release over reversed interval (%d,%d) on network %d is not zero", b, a, net)
		}
		nt := a < m && m < b && c09NearBoundary(m, bounds)
		if whole > 0 {
			ev.Class("holder:positive")
		} else {
			ev.Class("holder:zero")
		}
		ev.Case(nt, fmt.Sprintf("holder net=%d bal=%d a=%d m=%d b=%d", net, bal, a, m, b))
	})
}

func TestC09_GovSplit(t *testing.T) {
	ev := harn.For("C09").Rule(c09Rule)
	excl := c09KnownGap(t)
	ev.Floor("gov:split-at-deadline", "gov:cases", 0.002)
	harn.Check(t, 60000, 3000000, func(t *rapid.T) {
		net := c09Net(t)
		c09SetNet(net)
		bounds := c09Boundaries()
		gd, _ := config.GetGovUnboundDeadline()
		a, m, b := c09Triple(t, bounds)
		ev.Class("gov:cases")
		if a < m && m < b && m == gd {
			ev.Class("gov:split-at-deadline")
			if excl {
				ev.Excluded()
				return
			}
		}
		whole := c09Gov(t, a, b)
		l, r := c09Gov(t, a, m), c09Gov(t, m, b)
		if whole != l+r {
			t.Fatalf("governance release not additive on network %d (holder deadline %d, governance deadline %d): f(%d,%d)=%d but f(%d,%d)+f(%d,%d)=%d+%d=%d (difference %d)",
				net, config.GetOntHolderUnboundDeadline(), gd, a, b, whole, a, m, m, b, l, r, l+r, int64(whole-(l+r)))
		}
		if whole > 0 {
			ev.Class("gov:positive")
		} else {
			ev.Class("gov:zero")
		}
		nt := a < m && m < b && c09NearBoundary(m, bounds)
		ev.Case(nt, fmt.Sprintf("gov net=%d a=%d m=%d b=%d", net, a, m, b))
	})
}

// n-way splits of both functions, and the whole-schedule total over a random partition of [0,MaxUint32].
func TestC09_NWayAndTotals(t *testing.T) {
	ev := harn.For("C09").Rule(c09Rule)
	excl := c09KnownGap(t)
	harn.Check(t, 20000, 1000000, func(t *rapid.T) {
		net := c09Net(t)
		c09SetNet(net)
		bounds := c09Boundaries()
		gd, _ := config.GetGovUnboundDeadline()
		n := rapid.IntRange(2, 12).Draw(t, "pieces")
		pts := make([]uint32, 0, n+1)
		for i := 0; i <= n; i++ {
			pts = append(pts, c09Offset(t, fmt.Sprintf("p%d", i), bounds))
		}
		total := rapid.IntRange(0, 2).Draw(t, "wholeSchedule") == 0
		if total {
			pts[0], pts[1] = 0, math.MaxUint32
		}
		sort.Slice(pts, func(i, j int) bool { return pts[i] < pts[j] })
		a, b := pts[0], pts[len(pts)-1]
		bal := c09Balance(t)
		if total {
			bal = constants.ONT_TOTAL_SUPPLY
		}
		nt := false
		hitsDeadline := false
		for _, p := range pts[1 : len(pts)-1] {
			if a < p && p < b {
				if c09NearBoundary(p, bounds) {
					nt = true
				}
				if p == gd {
					hitsDeadline = true
				}
			}
		}
		var hsum, gsum uint64
		for i := 0; i+1 < len(pts); i++ {
			hsum += c09Holder(t, bal, pts[i], pts[i+1])
			gsum += c09Gov(t, pts[i], pts[i+1])
		}
		hwhole := c09Holder(t, bal, a, b)
		if hwhole != hsum {
			t.Fatalf("holder release not additive on network %d, balance %d, partition %v: whole=%d, sum of pieces=%d", net, bal, pts, hwhole, hsum)
		}
		skipGov := false
		if hitsDeadline {
			ev.Class("nway:split-at-deadline")
			if excl {
				ev.Excluded()
				skipGov = true
			}
		}
		if !skipGov {
			gwhole := c09Gov(t, a, b)
			if gwhole != gsum {
				t.Fatalf("governance release not additive on network %d (governance deadline %d), partition %v: whole=%d, sum of pieces=%d (difference %d)",
					net, gd, pts, gwhole, gsum, int64(gwhole-gsum))
			}
			if total {
				ev.Class("nway:whole-schedule")
				if hsum+gsum != constants.ONG_TOTAL_SUPPLY {
					t.Fatalf("network %d: holders(10^9 ONT)+governance over partition %v of the whole schedule release %d+%d=%d, ONG total supply is %d",
						net, pts, hsum, gsum, hsum+gsum, uint64(constants.ONG_TOTAL_SUPPLY))
				}
			}
		}
		ev.Case(nt, fmt.Sprintf("nway net=%d bal=%d total=%v pts=%v", net, bal, total, pts))
	})
}

// Windows of single seconds around a boundary: f(a,b) must equal the sum of f(s,s+1).
func TestC09_PerSecondWindows(t *testing.T) {
	ev := harn.For("C09").Rule(c09Rule)
	excl := c09KnownGap(t)
	harn.Check(t, 6000, 300000, func(t *rapid.T) {
		net := c09Net(t)
		c09SetNet(net)
		bounds := c09Boundaries()
		gd, _ := config.GetGovUnboundDeadline()
		center := rapid.SampledFrom(bounds).Draw(t, "center")
		before := rapid.Uint32Range(0, 40).Draw(t, "before")
		length := rapid.Uint32Range(1, 80).Draw(t, "len")
		a := uint32(0)
		if center > before {
			a = center - before
		}
		b := a + length
		if b < a { // wrapped past MaxUint32
			b = math.MaxUint32
		}
		bal := c09Balance(t)
		var hsum, gsum uint64
		for s := a; s < b; s++ {
			hsum += c09Holder(t, bal, s, s+1)
			gsum += c09Gov(t, s, s+1)
		}
		if hw := c09Holder(t, bal, a, b); hw != hsum {
			t.Fatalf("network %d balance %d: holder f(%d,%d)=%d but the per-second sum is %d", net, bal, a, b, hw, hsum)
		}
		if a < gd && gd < b {
			ev.Class("seconds:window-contains-deadline")
			if excl {
				ev.Excluded()
				return
			}
		}
		if gw := c09Gov(t, a, b); gw != gsum {
			t.Fatalf("network %d (governance deadline %d): governance f(%d,%d)=%d but the per-second sum is %d (difference %d)", net, gd, a, b, gw, gsum, int64(gw-gsum))
		}
		ev.Case(b-a >= 2, fmt.Sprintf("seconds net=%d bal=%d a=%d b=%d", net, bal, a, b))
	})
}

// Deterministic totals on the three named networks and a sweep of other ids.
func TestC09_TotalSupply(t *testing.T) {
	ev := harn.For("C09").Rule(c09Rule)
	ids := []uint32{config.NETWORK_ID_MAIN_NET, config.NETWORK_ID_POLARIS_NET, config.NETWORK_ID_SOLO_NET, 0, 4, 5, 12345, math.MaxUint32}
	for _, id := range ids {
		c09SetNet(id)
		h := nutils.CalcUnbindOng(constants.ONT_TOTAL_SUPPLY, 0, math.MaxUint32)
		g := nutils.CalcGovernanceUnbindOng(0, math.MaxUint32)
		if h+g != constants.ONG_TOTAL_SUPPLY {
			harn.Violation(t, "C09", map[string]interface{}{"network": id, "holders": h, "governance": g},
				"network %d: holders %d + governance %d = %d over the whole schedule, ONG total supply is %d", id, h, g, h+g, uint64(constants.ONG_TOTAL_SUPPLY))
		}
		ev.Class("total:network")
		ev.Case(true, fmt.Sprintf("total net=%d holders=%d gov=%d", id, h, g))
	}
}
