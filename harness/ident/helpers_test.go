package ident

// Shared fixtures of the ident package (C41 auth contract, C45 ONT ID contract):
// one solo ledger per process, deterministic ONT IDs, a key pool over the zoo and the argument
// encoders of every ontid / auth method the checks drive. The encoders are written against the
// parameter *decoders* in /repo (smartcontract/service/native/{ontid,auth}) and do not reuse the
// repo's own Serialization methods.

import (
	"fmt"
	"math/bits"
	"os"
	"path/filepath"
	"sort"
	"strings"
	"testing"

	"pgregory.net/rapid"

	"github.com/ontio/ontology-crypto/keypair"
	"github.com/ontio/ontology/account"
	"github.com/ontio/ontology/common"
	"github.com/ontio/ontology/core/types"
	nutils "github.com/ontio/ontology/smartcontract/service/native/utils"

	"verifharness/internal/fix"
)

var (
	ontidAddr = nutils.OntIDContractAddress
	authAddr  = nutils.AuthContractAddress
)

// newLedger creates the process's single solo ledger; cleanup closes and removes it.
func newLedger(t *testing.T) (*fix.Chain, func()) {
	t.Helper()
	base, err := os.MkdirTemp("", "verif-ident-")
	if err != nil {
		t.Fatalf("mkdtemp: %v", err)
	}
	ch, err := fix.NewSolo(filepath.Join(base, "ledger"), fix.Key(fix.KP256, 0))
	if err != nil {
		os.RemoveAll(base)
		t.Fatalf("solo ledger: %v", err)
	}
	return ch, func() { ch.Close(); os.RemoveAll(base) }
}

// mkID derives the i-th ONT ID of a namespace deterministically (account.GenerateID is random;
// account.CreateID(nonce) is its deterministic core: did:ont: + base58(decimal(ver‖ripemd160(nonce)‖checksum))).
func mkID(ns string, i int) []byte {
	id, err := account.CreateID([]byte(fmt.Sprintf("verif-ident/%s/%d", ns, i)))
	if err != nil {
		panic(err)
	}
	if !account.VerifyID(id) {
		panic("derived ONT ID does not verify: " + id)
	}
	return []byte(id)
}

// pkey is one entry of the key pool: serialized public key bytes as handed to the contract and
// the address a transaction must be witnessed by for that key.
type pkey struct {
	name string
	pub  []byte
	addr common.Address
}

// keyPool: P-256 keys 1..nP256 (0 is the bookkeeper), one key of every other zoo kind and one
// alternative (long-form) encoding of a P-256 key which deserializes to the same key/address.
func keyPool(nP256 int) []*pkey {
	var out []*pkey
	add := func(name string, pub []byte) {
		pk, err := keypair.DeserializePublicKey(pub)
		if err != nil {
			panic(fmt.Sprintf("pool key %s does not deserialize: %v", name, err))
		}
		out = append(out, &pkey{name: name, pub: pub, addr: types.AddressFromPubKey(pk)})
	}
	for i := 1; i <= nP256; i++ {
		add(fmt.Sprintf("P256#%d", i), keypair.SerializePublicKey(fix.Key(fix.KP256, i).PublicKey))
	}
	for _, k := range fix.AllKinds() {
		if k == fix.KP256 {
			continue
		}
		add(k.String()+"#0", keypair.SerializePublicKey(fix.Key(k, 0).PublicKey))
	}
	c := keypair.SerializePublicKey(fix.Key(fix.KP256, nP256+1).PublicKey)
	add(fmt.Sprintf("P256#%d/long", nP256+1), append([]byte{byte(keypair.PK_ECDSA), keypair.P256}, c...))
	return out
}

// keyHexJSON mirrors how the ONT ID document prints a key (ontid/owner.go keyType): compressed
// P-256 keys in full, labelled keys without their two label bytes.
func keyHexJSON(pub []byte) string {
	switch keypair.KeyType(pub[0]) {
	case keypair.PK_P256_E, keypair.PK_P256_O, keypair.PK_P256_NC:
		return fmt.Sprintf("%x", pub)
	}
	return fmt.Sprintf("%x", pub[2:])
}

// ---------------------------------------------------------------------------------------------
// primitive argument encoder (native-contract conventions: varbytes, NeoBytes varuint, varbytes address)

type enc struct{ s *common.ZeroCopySink }

func args() *enc                       { return &enc{s: common.NewZeroCopySink(nil)} }
func (e *enc) B(b []byte) *enc         { e.s.WriteVarBytes(b); return e }
func (e *enc) S(v string) *enc         { e.s.WriteVarBytes([]byte(v)); return e }
func (e *enc) U(v uint64) *enc         { nutils.EncodeVarUint(e.s, v); return e }
func (e *enc) A(a common.Address) *enc { e.s.WriteVarBytes(a[:]); return e }
func (e *enc) Raw(b []byte) *enc       { e.s.WriteBytes(b); return e }
func (e *enc) Bytes() []byte           { return e.s.Bytes() }

// attr is an ONT ID attribute (key/path, type, value).
type attr struct{ key, typ, val []byte }

func (e *enc) Attrs(as []attr) *enc {
	e.U(uint64(len(as)))
	for _, a := range as {
		e.B(a.key).B(a.typ).B(a.val)
	}
	return e
}

// signer / group encodings (ontid/group.go rDeserialize, deserializeSigners)
type signer struct {
	id  []byte
	idx uint64
}

func encSigners(ss []signer) []byte {
	e := args().U(uint64(len(ss)))
	for _, s := range ss {
		e.B(s.id).U(s.idx)
	}
	return e.Bytes()
}

// grp is a controller / recovery group: members are ONT IDs (id != nil) or subgroups.
type grp struct {
	members   []gmember
	threshold uint64
}
type gmember struct {
	id  []byte
	sub *grp
}

func (g *grp) bytes() []byte {
	e := args().U(uint64(len(g.members)))
	for _, m := range g.members {
		if m.sub != nil {
			e.B(m.sub.bytes())
		} else {
			e.B(m.id)
		}
	}
	return e.U(g.threshold).Bytes()
}

// json renders the group exactly as ontid.GroupJson marshals ({"members":[...],"threshold":n}).
func (g *grp) json() string {
	var sb strings.Builder
	sb.WriteString(`{"members":[`)
	for i, m := range g.members {
		if i > 0 {
			sb.WriteByte(',')
		}
		if m.sub != nil {
			sb.WriteString(m.sub.json())
		} else {
			sb.WriteString(`"` + string(m.id) + `"`)
		}
	}
	sb.WriteString(fmt.Sprintf(`],"threshold":%d}`, g.threshold))
	return sb.String()
}

func (g *grp) String() string {
	var parts []string
	for _, m := range g.members {
		if m.sub != nil {
			parts = append(parts, m.sub.String())
		} else {
			parts = append(parts, shortID(m.id))
		}
	}
	return fmt.Sprintf("%d-of[%s]", g.threshold, strings.Join(parts, ","))
}

func shortID(id []byte) string {
	if len(id) > 12 {
		return "…" + string(id[len(id)-4:])
	}
	return string(id)
}

// ---------------------------------------------------------------------------------------------
// ontid argument encoders (one per method driven; `proof` is what verifyControllerSignature reads
// from the stream: a varuint key index for a single controller, varbytes(signers) for a group)

func proofIndex(idx uint64) []byte    { return args().U(idx).Bytes() }
func proofSigners(ss []signer) []byte { return args().B(encSigners(ss)).Bytes() }

func aRegIDWithPublicKey(id, pub []byte) []byte { return args().B(id).B(pub).Bytes() }
func aRegIDWithAttributes(id, pub []byte, as []attr) []byte {
	return args().B(id).B(pub).Attrs(as).Bytes()
}
func aRegIDWithController(id, controller, proof []byte) []byte {
	return args().B(id).B(controller).Raw(proof).Bytes()
}
func optCtl(e *enc, ctl []byte) []byte {
	if ctl != nil {
		e.B(ctl)
	}
	return e.Bytes()
}
func aAddKey(id, newPub, op, ctl []byte) []byte { return optCtl(args().B(id).B(newPub).B(op), ctl) }
func aRemoveKey(id, pub, op []byte) []byte      { return args().B(id).B(pub).B(op).Bytes() }
func aAddKeyByIndex(id, newPub []byte, idx uint64, ctl []byte) []byte {
	return optCtl(args().B(id).B(newPub).U(idx), ctl)
}
func aRemoveKeyByIndex(id, pub []byte, idx uint64) []byte { return args().B(id).B(pub).U(idx).Bytes() }
func aAddKeyByController(id, newPub, proof, ctl []byte) []byte {
	return optCtl(args().B(id).B(newPub).Raw(proof), ctl)
}
func aRemoveKeyByController(id []byte, keyIdx uint64, proof []byte) []byte {
	return args().B(id).U(keyIdx).Raw(proof).Bytes()
}
func aAddKeyByRecovery(id, newPub []byte, ss []signer, ctl []byte) []byte {
	return optCtl(args().B(id).B(newPub).B(encSigners(ss)), ctl)
}
func aRemoveKeyByRecovery(id []byte, keyIdx uint64, ss []signer) []byte {
	return args().B(id).U(keyIdx).B(encSigners(ss)).Bytes()
}
func aAddNewAuthKey(id, newPub, ctl []byte, signIdx uint64) []byte {
	return args().B(id).B(newPub).B(ctl).U(signIdx).Bytes()
}
func aAddNewAuthKeyByRecovery(id, newPub, ctl []byte, ss []signer) []byte {
	return args().B(id).B(newPub).B(ctl).B(encSigners(ss)).Bytes()
}
func aAddNewAuthKeyByController(id, newPub, ctl, proof []byte) []byte {
	return args().B(id).B(newPub).B(ctl).Raw(proof).Bytes()
}

// setAuthKey / removeAuthKey share (id, index, signIndex); the ByRecovery / ByController forms
// share (id, index, signers) and (id, index, proof).
func aAuthKeyByIndex(id []byte, idx, signIdx uint64) []byte {
	return args().B(id).U(idx).U(signIdx).Bytes()
}
func aAuthKeyByRecovery(id []byte, idx uint64, ss []signer) []byte {
	return args().B(id).U(idx).B(encSigners(ss)).Bytes()
}
func aAuthKeyByController(id []byte, idx uint64, proof []byte) []byte {
	return args().B(id).U(idx).Raw(proof).Bytes()
}
func aAddAttributes(id []byte, as []attr, op []byte) []byte {
	return args().B(id).Attrs(as).B(op).Bytes()
}
func aRemoveAttribute(id, path, op []byte) []byte { return args().B(id).B(path).B(op).Bytes() }
func aAddAttributesByIndex(id []byte, as []attr, idx uint64) []byte {
	return args().B(id).Attrs(as).U(idx).Bytes()
}
func aRemoveAttributeByIndex(id, path []byte, idx uint64) []byte {
	return args().B(id).B(path).U(idx).Bytes()
}
func aAddAttributesByController(id []byte, as []attr, proof []byte) []byte {
	return args().B(id).Attrs(as).Raw(proof).Bytes()
}
func aRemoveAttributeByController(id, path, proof []byte) []byte {
	return args().B(id).B(path).Raw(proof).Bytes()
}
func aAddRecovery(id []byte, rec common.Address, op []byte) []byte {
	return args().B(id).A(rec).B(op).Bytes()
}
func aChangeRecovery(id []byte, newRec, oldRec common.Address) []byte {
	return args().B(id).A(newRec).A(oldRec).Bytes()
}
func aSetRecovery(id, group []byte, idx uint64) []byte { return args().B(id).B(group).U(idx).Bytes() }
func aUpdateRecovery(id, group []byte, ss []signer) []byte {
	return args().B(id).B(group).B(encSigners(ss)).Bytes()
}
func aIDIndex(id []byte, idx uint64) []byte { return args().B(id).U(idx).Bytes() }     // removeRecovery, removeController, revokeID, verifySignature, getKeyState
func aIDProof(id, proof []byte) []byte      { return args().B(id).Raw(proof).Bytes() } // revokeIDByController, verifyController
func aID(id []byte) []byte                  { return args().B(id).Bytes() }            // getters
func aAddService(id, sid, typ, endpoint []byte, idx uint64) []byte {
	return args().B(id).B(sid).B(typ).B(endpoint).U(idx).Bytes()
}
func aRemoveService(id, sid []byte, idx uint64) []byte { return args().B(id).B(sid).U(idx).Bytes() }
func aContext(id []byte, ctxs [][]byte, idx uint64) []byte { // addContext, removeContext
	e := args().B(id).U(uint64(len(ctxs)))
	for _, c := range ctxs {
		e.B(c)
	}
	return e.U(idx).Bytes()
}

// ---------------------------------------------------------------------------------------------
// auth argument encoders (auth/param.go Deserialization of each *Param)

func aInitContractAdmin(adminID []byte) []byte { return args().B(adminID).Bytes() }
func aAuthTransfer(contract common.Address, newAdmin []byte, keyNo uint64) []byte {
	return args().A(contract).B(newAdmin).U(keyNo).Bytes()
}
func aAssignFuncsToRole(contract common.Address, admin, role []byte, fns []string, keyNo uint64) []byte {
	e := args().A(contract).B(admin).B(role).U(uint64(len(fns)))
	for _, f := range fns {
		e.S(f)
	}
	return e.U(keyNo).Bytes()
}
func aAssignOntIDsToRole(contract common.Address, admin, role []byte, persons [][]byte, keyNo uint64) []byte {
	e := args().A(contract).B(admin).B(role).U(uint64(len(persons)))
	for _, p := range persons {
		e.B(p)
	}
	return e.U(keyNo).Bytes()
}
func aDelegate(contract common.Address, from, to, role []byte, period, level, keyNo uint64) []byte {
	return args().A(contract).B(from).B(to).B(role).U(period).U(level).U(keyNo).Bytes()
}
func aWithdraw(contract common.Address, initiator, delegate, role []byte, keyNo uint64) []byte {
	return args().A(contract).B(initiator).B(delegate).B(role).U(keyNo).Bytes()
}
func aVerifyToken(contract common.Address, caller []byte, fn string, keyNo uint64) []byte {
	return args().A(contract).B(caller).S(fn).U(keyNo).Bytes()
}

// ---------------------------------------------------------------------------------------------
// small utilities

func isTrue(res []byte, err error) bool { return err == nil && len(res) == 1 && res[0] == 1 }

func sortedKeys(m map[string]bool) []string {
	out := make([]string, 0, len(m))
	for k, v := range m {
		if v {
			out = append(out, k)
		}
	}
	sort.Strings(out)
	return out
}

func addrSet(as []common.Address) map[common.Address]bool {
	m := map[common.Address]bool{}
	for _, a := range as {
		m[a] = true
	}
	return m
}

func errStr(err error) string {
	if err == nil {
		return "<nil>"
	}
	s := err.Error()
	if len(s) > 160 {
		s = s[:160] + "…"
	}
	return s
}

// ---------------------------------------------------------------------------------------------
// unbiased choices. rapid's IntRange / SampledFrom are deliberately biased towards small values
// (good for data, bad for picking actions: the first and last action of a sorted list would
// dominate). rapid.Bool is one unbiased bit, so log2(n)+3 of them give a near-uniform index; it still
// shrinks towards 0 (the first alternative).

func uni(t *rapid.T, label string, n int) int {
	if n <= 1 {
		return 0
	}
	nb := bits.Len(uint(n-1)) + 3 // modulo bias < 1/8 of a slot; fewer bits shrink faster
	bs := rapid.SliceOfN(rapid.Bool(), nb, nb).Draw(t, label)
	v := 0
	for _, b := range bs {
		v <<= 1
		if b {
			v |= 1
		}
	}
	return v % n
}

// pct draws a near-uniform number in 0..99.
func pct(t *rapid.T, label string) int { return uni(t, label, 100) }

func pickFrom[T any](t *rapid.T, label string, xs []T) T { return xs[uni(t, label, len(xs))] }
