package codec

// C20 Block encoding round-trips and binds the transaction list.
// Oracles: (1) decode ok => Block.ToArray() == consumed bytes (and == independent reference
// encoding of the generated block); (2) accepted <=> no transaction hash occurs twice and an
// independent double-SHA256 merkle reference over the tx hashes equals the header's
// TransactionsRoot (tx-list mutants: reorder/duplicate/drop/replace/count tamper/odd-level
// duplication); (3) Header.Hash() == sha256d(reference encoding of the nine unsigned fields): it
// changes with every change of one of them and never with signer-list / signature edits;
// (4) no panic on arbitrary bytes; (5) an independent encoder that can widen every var-uint /
// var-bytes length prefix of header and transactions to a non-minimal FD/FE/FF form: such bytes are
// rejected or re-encode identically (the encoder only writes minimal prefixes, so: rejected).

import (
	"bytes"
	"crypto/sha256"
	"fmt"
	"sort"
	"strings"
	"sync"
	"testing"

	"github.com/ontio/ontology-crypto/ec"
	"github.com/ontio/ontology-crypto/keypair"
	"github.com/ontio/ontology/core/signature"
	"github.com/ontio/ontology/common"
	"github.com/ontio/ontology/core/types"
	"pgregory.net/rapid"

	fix "verifharness/codec/fixlite"
	"verifharness/internal/harn"
)

// ---------------------------------------------------------------------------------------------
// reference model of the block encoding

type c20Hdr struct {
	version          uint32
	prev, txRoot, br common.Uint256
	ts, height       uint32
	cdata            uint64
	cpayload         []byte
	next             common.Address
	keys             [][]byte // serialized bookkeeper keys as they appear on the wire
	sigs             [][]byte
	nOverride        []byte // raw replacement of the bookkeeper count field (hostile counts)
	mOverride        []byte
}

func (h *c20Hdr) clone() *c20Hdr {
	c := *h
	c.cpayload = append([]byte{}, h.cpayload...)
	c.keys = append([][]byte{}, h.keys...)
	c.sigs = append([][]byte{}, h.sigs...)
	return &c
}

func (h *c20Hdr) unsigned() []byte {
	e := &c19Enc{}
	e.le(uint64(h.version), 4)
	e.b = append(e.b, h.prev[:]...)
	e.b = append(e.b, h.txRoot[:]...)
	e.b = append(e.b, h.br[:]...)
	e.le(uint64(h.ts), 4)
	e.le(uint64(h.height), 4)
	e.le(h.cdata, 8)
	e.varbytes(h.cpayload)
	e.b = append(e.b, h.next[:]...)
	return e.b
}

func (h *c20Hdr) encode() []byte {
	e := &c19Enc{b: h.unsigned()}
	if h.nOverride != nil {
		e.b = append(e.b, h.nOverride...)
	} else {
		e.varuint(uint64(len(h.keys)))
	}
	for _, k := range h.keys {
		e.varbytes(k)
	}
	if h.mOverride != nil {
		e.b = append(e.b, h.mOverride...)
	} else {
		e.varuint(uint64(len(h.sigs)))
	}
	for _, s := range h.sigs {
		e.varbytes(s)
	}
	return e.b
}

func c20EncodeBlock(h *c20Hdr, count uint32, txs [][]byte) []byte {
	e := &c19Enc{b: h.encode()}
	e.le(uint64(count), 4)
	for _, t := range txs {
		e.b = append(e.b, t...)
	}
	return e.b
}

// c20RefRoot is an independent implementation of the transaction merkle root (pairs hashed with
// double SHA-256, an odd node is paired with itself, empty list = zero hash).
func c20RefRoot(hs []common.Uint256) common.Uint256 {
	if len(hs) == 0 {
		return common.Uint256{}
	}
	level := append([]common.Uint256{}, hs...)
	for len(level) > 1 {
		if len(level)%2 == 1 {
			level = append(level, level[len(level)-1])
		}
		next := make([]common.Uint256, 0, len(level)/2)
		for i := 0; i < len(level); i += 2 {
			next = append(next, c19Sha256d(append(append([]byte{}, level[i][:]...), level[i+1][:]...)))
		}
		level = next
	}
	return level[0]
}

// c20HdrOf converts a decoded header into the reference model (keys re-serialized canonically).
func c20HdrOf(h *types.Header) *c20Hdr {
	r := &c20Hdr{version: h.Version, prev: h.PrevBlockHash, txRoot: h.TransactionsRoot, br: h.BlockRoot, ts: h.Timestamp, height: h.Height,
		cdata: h.ConsensusData, cpayload: h.ConsensusPayload, next: h.NextBookkeeper}
	for _, k := range h.Bookkeepers {
		r.keys = append(r.keys, keypair.SerializePublicKey(k))
	}
	r.sigs = append(r.sigs, h.SigData...)
	return r
}

// c20Scan parses the header part of b with the reference grammar far enough to (a) find the end
// of the unsigned fields and (b) recognise the two recorded finding classes: a bookkeeper key blob
// that is accepted but is not the canonical serialization of its key, and a signer/signature
// count field >= 2^63.
func c20Scan(b []byte) (unsignedLen int, nonCanonKey, hugeCount bool) {
	pos := uint64(4 + 32*3 + 4 + 4 + 8)
	if uint64(len(b)) < pos {
		return -1, false, false
	}
	l, sz, ok := c18RefVarDec(b, pos)
	if !ok || l > uint64(len(b)) || pos+sz+l+20 > uint64(len(b)) {
		return -1, false, false
	}
	pos += sz + l + 20
	unsignedLen = int(pos)
	n, sz, ok := c18RefVarDec(b, pos)
	if !ok {
		return
	}
	pos += sz
	if n >= 1<<63 {
		hugeCount = true
		n = 0
	}
	for i := uint64(0); i < n; i++ {
		l, sz, ok := c18RefVarDec(b, pos)
		if !ok || l > uint64(len(b)) || pos+sz+l > uint64(len(b)) {
			return
		}
		blob := b[pos+sz : pos+sz+l]
		if k, err := keypair.DeserializePublicKey(blob); err == nil && !bytes.Equal(keypair.SerializePublicKey(k), blob) {
			nonCanonKey = true
		}
		pos += sz + l
	}
	m, _, ok := c18RefVarDec(b, pos)
	if ok && m >= 1<<63 {
		hugeCount = true
	}
	return
}

// c20ExpectedReencoding predicts what the two recorded defects turn an accepted block into: every
// bookkeeper key blob replaced by the canonical serialization of its key and a signer/signature
// count >= 2^63 replaced by 0; everything else byte-identical.
func c20ExpectedReencoding(b []byte) ([]byte, bool) {
	uLen, _, _ := c20Scan(b)
	if uLen < 0 {
		return nil, false
	}
	out := append([]byte{}, b[:uLen]...)
	pos := uint64(uLen)
	for section := 0; section < 2; section++ {
		n, sz, ok := c18RefVarDec(b, pos)
		if !ok || sz != c18RefVarSize(n) {
			return nil, false // a non-minimal count is not part of either recorded finding
		}
		pos += sz
		if n >= 1<<63 {
			n = 0
		}
		out = append(out, c18RefVarEnc(n)...)
		for i := uint64(0); i < n; i++ {
			l, sz, ok := c18RefVarDec(b, pos)
			if !ok || sz != c18RefVarSize(l) || l > uint64(len(b)) || pos+sz+l > uint64(len(b)) {
				return nil, false // nor is a non-minimal length prefix of a key or signature
			}
			blob := b[pos+sz : pos+sz+l]
			if section == 0 {
				if k, err := keypair.DeserializePublicKey(blob); err == nil {
					blob = keypair.SerializePublicKey(k)
				}
			}
			out = append(append(out, c18RefVarEnc(uint64(len(blob)))...), blob...)
			pos += sz + l
		}
	}
	return append(out, b[pos:]...), true
}

// ---------------------------------------------------------------------------------------------
// known findings (see the report): witnesses replayed once per process

const (
	c20KeyFinding   = "header-bookkeeper-key-reencoded"
	c20CountFinding = "header-signer-count-overflow"
)

type c20KnownT struct{ key, count bool }

var (
	c20KnownOnce sync.Once
	c20KnownV    c20KnownT
)

func c20UncompressedP256(k *fix.ZooKey) []byte {
	return ec.EncodePublicKey(k.PublicKey.(*ec.PublicKey).PublicKey, false)
}

func c20WitnessKey() []byte {
	h := &c20Hdr{keys: [][]byte{c20UncompressedP256(fix.Key(fix.KP256, 0))}}
	return c20EncodeBlock(h, 0, nil)
}

func c20WitnessCount() []byte {
	h := &c20Hdr{nOverride: []byte{0xFF, 0, 0, 0, 0, 0, 0, 0, 0x80}}
	return c20EncodeBlock(h, 0, nil)
}

func c20RoundTripFails(b []byte) (fails bool) {
	defer func() {
		if recover() != nil {
			fails = true
		}
	}()
	blk, err := types.BlockFromRawBytes(append([]byte{}, b...))
	return err == nil && !bytes.Equal(blk.ToArray(), b)
}

func c20Known() c20KnownT {
	c20KnownOnce.Do(func() {
		c20KnownV.key = harn.Known("C20", c20KeyFinding, c20RoundTripFails(c20WitnessKey()))
		c20KnownV.count = harn.Known("C20", c20CountFinding, c20RoundTripFails(c20WitnessCount()))
	})
	return c20KnownV
}

// ---------------------------------------------------------------------------------------------
// judge for arbitrary block bytes

type c20Verdict struct {
	blk      *types.Block
	consumed []byte
	excluded bool
	err      error
}

func c20Judge(b []byte, ev *harn.Collector) (msg string, v c20Verdict) {
	defer func() {
		if r := recover(); r != nil {
			msg = fmt.Sprintf("panic while decoding block %s: %v\n%s", harn.Hex(b), r, c18Stack())
		}
	}()
	known := c20Known()
	src := common.NewZeroCopySource(append([]byte{}, b...))
	blk := &types.Block{}
	err := blk.Deserialization(src)
	if err != nil {
		v.err = err
		return "", v
	}
	n := src.Pos()
	if n > uint64(len(b)) {
		return fmt.Sprintf("block decoder consumed %d of %d bytes", n, len(b)), v
	}
	v.blk, v.consumed = blk, b[:n]
	// transaction list is bound: no duplicate hash, reference root matches
	seen := map[common.Uint256]bool{}
	hashes := make([]common.Uint256, 0, len(blk.Transactions))
	for i, tx := range blk.Transactions {
		if seen[tx.Hash()] {
			return fmt.Sprintf("accepted block contains transaction %x twice (index %d): %s", tx.Hash(), i, harn.Hex(b)), v
		}
		seen[tx.Hash()] = true
		hashes = append(hashes, tx.Hash())
	}
	if root := c20RefRoot(hashes); root != blk.Header.TransactionsRoot {
		return fmt.Sprintf("accepted block: header tx root %x, reference merkle root of its %d txs %x", blk.Header.TransactionsRoot, len(hashes), root), v
	}
	// hash covers exactly the unsigned header bytes
	uLen, nonCanon, huge := c20Scan(v.consumed)
	if uLen < 0 {
		return fmt.Sprintf("accepted block whose header the reference grammar cannot parse: %s", harn.Hex(b)), v
	}
	if want := c19Sha256d(v.consumed[:uLen]); blk.Hash() != want || blk.Header.Hash() != want {
		return fmt.Sprintf("block hash %x is not sha256d of the unsigned header bytes %x", blk.Hash(), v.consumed[:uLen]), v
	}
	// byte round trip
	arr := blk.ToArray()
	if !bytes.Equal(arr, v.consumed) {
		if exp, ok := c20ExpectedReencoding(v.consumed); (nonCanon && known.key || huge && known.count) && ok && bytes.Equal(arr, exp) {
			// exactly the recorded defect: keys re-serialized canonically / overflowing count written as 0
			v.excluded = true
			if ev != nil {
				ev.Excluded()
			}
		} else {
			return fmt.Sprintf("decoded block re-encodes differently (non-canonical key blob: %v, count >= 2^63: %v):\n consumed %x\n ToArray  %x", nonCanon, huge, v.consumed, arr), v
		}
	}
	// second decode: same hash, fixpoint
	b2, err := types.BlockFromRawBytes(append([]byte{}, arr...))
	if err != nil || b2.Hash() != blk.Hash() || !bytes.Equal(b2.ToArray(), arr) {
		return fmt.Sprintf("second decode of Block.ToArray() fails or differs (err=%v): %x", err, arr), v
	}
	return "", v
}

// ---------------------------------------------------------------------------------------------
// generators

func c20GenHash(t *rapid.T, label string) (h common.Uint256) {
	copy(h[:], c18GenFixed(t, 32))
	return
}

func c20GenSigners(t *rapid.T, h *c20Hdr, hash common.Uint256) string {
	nk := rapid.IntRange(0, 7).Draw(t, "bookkeepers")
	var kinds []string
	for i := 0; i < nk; i++ {
		k := c19GenKey(t, "bk")
		h.keys = append(h.keys, keypair.SerializePublicKey(k.PublicKey))
		kinds = append(kinds, k.Kind.String())
		if rapid.IntRange(0, 3).Draw(t, "realSig") == 0 {
			sig, err := signature.Sign(k, hash[:])
			if err != nil {
				t.Fatalf("harness: sign: %v", err)
			}
			h.sigs = append(h.sigs, sig)
		} else if rapid.IntRange(0, 5).Draw(t, "skipSig") != 0 {
			h.sigs = append(h.sigs, c19GenBlob(t, "sig", 300))
		}
	}
	return strings.Join(kinds, ",")
}

type c20Gen struct {
	hdr  *c20Hdr
	txs  []*types.Transaction
	raws [][]byte
	desc string
}

func c20GenTxs(t *rapid.T, min, max int) []*types.Transaction {
	n := rapid.IntRange(min, max).Draw(t, "ntx")
	var txs []*types.Transaction
	seen := map[common.Uint256]bool{}
	for i := 0; i < n; i++ {
		var tx *types.Transaction
		if rapid.IntRange(0, 4).Draw(t, "eip") == 0 {
			g := c19GenEthTx(t)
			if !g.ok {
				continue
			}
			x, err := types.TransactionFromEIP155(g.tx)
			if err != nil {
				t.Fatalf("harness: TransactionFromEIP155: %v", err)
			}
			tx = x
		} else {
			tx = c19GenOntTx(t, 2).tx
		}
		if seen[tx.Hash()] {
			continue
		}
		seen[tx.Hash()] = true
		txs = append(txs, tx)
	}
	return txs
}

func c20GenBlock(t *rapid.T, maxTx int) *c20Gen { return c20GenBlockN(t, 0, maxTx) }

func c20GenBlockN(t *rapid.T, minTx, maxTx int) *c20Gen {
	g := &c20Gen{hdr: &c20Hdr{}}
	g.txs = c20GenTxs(t, minTx, maxTx)
	var hashes []common.Uint256
	for _, tx := range g.txs {
		g.raws = append(g.raws, tx.ToArray())
		hashes = append(hashes, tx.Hash())
	}
	h := g.hdr
	h.version = rapid.OneOf(rapid.Just(uint32(0)), rapid.Uint32()).Draw(t, "version")
	h.prev = c20GenHash(t, "prev")
	h.txRoot = c20RefRoot(hashes)
	h.br = c20GenHash(t, "blockRoot")
	h.ts = rapid.Uint32().Draw(t, "ts")
	h.height = rapid.OneOf(rapid.Uint32Range(0, 5), rapid.Uint32()).Draw(t, "height")
	h.cdata = c19GenU64(t, "cdata")
	h.cpayload = c19GenBlob(t, "cpayload", 1<<17)
	copy(h.next[:], c18GenFixed(t, 20))
	kinds := c20GenSigners(t, h, c19Sha256d(h.unsigned()))
	g.desc = fmt.Sprintf("block v=%d h=%d ts=%d cd=%d cp=%d txs=%d bk=[%s] sigs=%d root=%x", h.version, h.height, h.ts, h.cdata, len(h.cpayload), len(g.txs), kinds, len(h.sigs), h.txRoot[:6])
	return g
}

// c20Build makes the in-memory Block for the generated model (keys parsed from their canonical blobs).
func c20Build(t *rapid.T, g *c20Gen) *types.Block {
	h := g.hdr
	hd := &types.Header{Version: h.version, PrevBlockHash: h.prev, TransactionsRoot: h.txRoot, BlockRoot: h.br, Timestamp: h.ts, Height: h.height,
		ConsensusData: h.cdata, ConsensusPayload: h.cpayload, NextBookkeeper: h.next, SigData: h.sigs}
	for _, kb := range h.keys {
		k, err := keypair.DeserializePublicKey(kb)
		if err != nil {
			t.Fatalf("harness: key: %v", err)
		}
		hd.Bookkeepers = append(hd.Bookkeepers, k)
	}
	return &types.Block{Header: hd, Transactions: g.txs}
}

const c20Rule = "blocks with 0..12 generated signed txs (deploy/invoke/EIP-155), generated header fields, 0..7 bookkeepers of all key kinds with real or arbitrary signatures; tx-list mutants (swap, permute, duplicate, drop, replace, count tamper, duplication of the odd tail at every merkle level) with and without a recomputed root; header field / signer edits; alternative accepted key encodings and hostile counts in the header; byte mutants and spliced arbitrary bytes; blocks and headers re-written by an independent encoder with 1..3 length prefixes (consensus payload, bookkeeper count, each bookkeeper key, signature count, each signature, every length field inside each tx incl. the EIP-155 wrapper) widened to a drawn non-minimal FD/FE/FF form, with canonical and alternative key blobs; held results: sequences of 2-7 blocks (struct encoded, BlockFromRawBytes, HeaderFromRawBytes, RawHeader; fresh ones and relatives of an earlier block with the same height and one header field, the signer list or the tx list edited, or exact duplicates) whose ToArray/GetRawHeader/Hash results and decoded fields are held to the end of the case next to private copies, optionally with joined goroutines, then re-read, recomputed, decoded again and checked against overwritten caller buffers; non-trivial = block with >=2 txs, any mutant, an arbitrary input that decodes, or a held sequence with >=2 different encodings; distinct = different bytes/edit"

// ---------------------------------------------------------------------------------------------

func TestC20_RoundTrip(t *testing.T) {
	ev := harn.For("C20").Rule(c20Rule)
	ev.Floor("valid:txs>=2", "valid", 0.4)
	harn.Check(t, 700, 20000, func(t *rapid.T) {
		g := c20GenBlock(t, 12)
		ref := c20EncodeBlock(g.hdr, uint32(len(g.raws)), g.raws)
		var enc []byte
		guard(t, "Block.ToArray", func() { enc = c20Build(t, g).ToArray() })
		if !bytes.Equal(enc, ref) {
			t.Fatalf("Block.ToArray differs from the reference encoding:\n got %x\n ref %x", enc, ref)
		}
		suffix := rapid.SliceOfN(rapid.Byte(), 0, 4).Draw(t, "suffix")
		msg, v := c20Judge(append(append([]byte{}, ref...), suffix...), nil)
		if msg != "" {
			t.Fatalf("%s", msg)
		}
		if v.blk == nil || len(v.consumed) != len(ref) {
			t.Fatalf("valid generated block rejected (%v) or partially consumed: %s", v.err, g.desc)
		}
		// decoded fields equal the generated ones
		if got := c20EncodeBlock(c20HdrOf(v.blk.Header), uint32(len(v.blk.Transactions)), nil); !bytes.Equal(got, c20EncodeBlock(g.hdr, uint32(len(g.raws)), nil)) {
			t.Fatalf("decoded header fields differ from the generated ones:\n got %x\n gen %x", got, g.hdr.encode())
		}
		for i, tx := range v.blk.Transactions {
			if tx.Hash() != g.txs[i].Hash() || !bytes.Equal(tx.ToArray(), g.raws[i]) {
				t.Fatalf("transaction %d changed in the block round trip", i)
			}
		}
		if v.blk.Hash() != c19Sha256d(g.hdr.unsigned()) {
			t.Fatalf("block hash is not sha256d of the unsigned header")
		}
		// header alone
		guard(t, "header round trip", func() {
			hb := g.hdr.encode()
			hd, err := types.HeaderFromRawBytes(append([]byte{}, hb...))
			if err != nil || !bytes.Equal(hd.ToArray(), hb) || hd.Hash() != v.blk.Hash() {
				t.Fatalf("header round trip failed (err=%v): %x", err, hb)
			}
			var rh types.RawHeader
			src := common.NewZeroCopySource(append(append([]byte{}, hb...), suffix...))
			if err := rh.Deserialization(src); err != nil || !bytes.Equal(rh.Payload, hb) || rh.Height != g.hdr.height {
				t.Fatalf("RawHeader of %x: err=%v height=%d payload=%x", hb, err, rh.Height, rh.Payload)
			}
			if rw := hd.GetRawHeader(); !bytes.Equal(rw.Payload, hb) || rw.Height != g.hdr.height {
				t.Fatalf("GetRawHeader differs from the header bytes")
			}
		})
		ev.Class("valid")
		if len(g.txs) >= 2 {
			ev.Class("valid:txs>=2")
		}
		ev.Class(fmt.Sprintf("valid:bookkeepers=%d", len(g.hdr.keys)))
		ev.Case(len(g.txs) >= 2, g.desc)
	})
}

func TestC20_TxListMutants(t *testing.T) {
	ev := harn.For("C20").Rule(c20Rule)
	ev.Floor("txmut:accepted", "txmut", 0.08)
	ev.Floor("txmut:rejected:duplicated", "txmut", 0.08)
	ev.Floor("txmut:rejected:mismatched", "txmut", 0.15)
	harn.Check(t, 400, 8000, func(t *rapid.T) {
		g := c20GenBlockN(t, 2, 12)
		extra := c20GenTxs(t, 1, 2) // replacement material
		hashOf := map[string]common.Uint256{}
		for i, r := range g.raws {
			hashOf[string(r)] = g.txs[i].Hash()
		}
		var pool [][]byte
		for _, x := range extra {
			if _, dup := hashOf[string(x.ToArray())]; !dup {
				pool = append(pool, x.ToArray())
				hashOf[string(x.ToArray())] = x.Hash()
			}
		}
		desc := ""
		for k := 0; k < 10; k++ {
			list := append([][]byte{}, g.raws...)
			n := len(list)
			count := -1
			kind := ""
			switch op := rapid.IntRange(0, 8).Draw(t, "op"); {
			case op == 0 && n >= 2:
				i, j := rapid.IntRange(0, n-1).Draw(t, "i"), rapid.IntRange(0, n-1).Draw(t, "j")
				list[i], list[j] = list[j], list[i]
				kind = "swap"
			case op == 1 && n >= 2:
				list = rapid.Permutation(list).Draw(t, "perm")
				kind = "permute"
			case op == 2 && n >= 1:
				i := rapid.IntRange(0, n-1).Draw(t, "i")
				j := rapid.IntRange(0, n).Draw(t, "at")
				list = append(list[:j:j], append([][]byte{g.raws[i]}, list[j:]...)...)
				kind = "duplicate"
			case op == 3 && n >= 1:
				i := rapid.IntRange(0, n-1).Draw(t, "i")
				list = append(list[:i:i], list[i+1:]...)
				kind = "drop"
			case op == 4 && n >= 1 && len(pool) > 0:
				list[rapid.IntRange(0, n-1).Draw(t, "i")] = rapid.SampledFrom(pool).Draw(t, "repl")
				kind = "replace"
			case op == 5 && len(pool) > 0:
				j := rapid.IntRange(0, n).Draw(t, "at")
				list = append(list[:j:j], append([][]byte{rapid.SampledFrom(pool).Draw(t, "ins")}, list[j:]...)...)
				kind = "insert"
			case op == 6:
				count = n + rapid.SampledFrom([]int{-1, 1, 2}).Draw(t, "dc")
				if count < 0 {
					count = 1
				}
				kind = "count"
			case op == 7 && n >= 3:
				// duplicate the tail that the merkle construction pairs with itself: same root, more txs
				for lvl := uint(0); lvl < 4; lvl++ {
					if n%(1<<lvl) == 0 && (n>>lvl)%2 == 1 && n>>lvl > 1 {
						list = append(list, g.raws[n-(1<<lvl):]...)
						kind = fmt.Sprintf("odd-tail-dup-level%d", lvl)
						break
					}
				}
			}
			if kind == "" {
				kind = "identity"
			}
			if count < 0 {
				count = len(list)
			}
			hdr := g.hdr.clone()
			// effective list as the decoder sees it
			var eff []common.Uint256
			decodable := count <= len(list)
			if decodable {
				for _, r := range list[:count] {
					eff = append(eff, hashOf[string(r)])
				}
			}
			rebuilt := rapid.IntRange(0, 3).Draw(t, "rebuildRoot") == 0
			if rebuilt && decodable {
				hdr.txRoot = c20RefRoot(eff)
				kind += "+root"
			}
			dup := false
			seen := map[common.Uint256]bool{}
			for _, h := range eff {
				if seen[h] {
					dup = true
				}
				seen[h] = true
			}
			if strings.HasPrefix(kind, "odd-tail-dup") && !rebuilt && c20RefRoot(eff) != g.hdr.txRoot {
				t.Fatalf("harness: odd-tail duplication changed the reference root")
			}
			wantOK := decodable && !dup && c20RefRoot(eff) == hdr.txRoot
			b := c20EncodeBlock(hdr, uint32(count), list)
			msg, v := c20Judge(b, nil)
			if msg != "" {
				t.Fatalf("tx-list mutant %s of %s: %s", kind, g.desc, msg)
			}
			ev.Class("txmut")
			ev.Class("txmut:" + kind)
			if (v.blk != nil) != wantOK {
				t.Fatalf("tx-list mutant %s (count %d, %d txs, duplicate=%v, reference root matches=%v): accepted=%v err=%v, expected accepted=%v\n block %s",
					kind, count, len(list), dup, decodable && c20RefRoot(eff) == hdr.txRoot, v.blk != nil, v.err, wantOK, harn.Hex(b))
			}
			if v.blk != nil {
				ev.Class("txmut:accepted")
				if len(v.blk.Transactions) != count {
					t.Fatalf("accepted block has %d txs, count field %d", len(v.blk.Transactions), count)
				}
			} else {
				switch {
				case strings.Contains(v.err.Error(), "duplicated"):
					ev.Class("txmut:rejected:duplicated")
				case strings.Contains(v.err.Error(), "mismatched"):
					ev.Class("txmut:rejected:mismatched")
				default:
					ev.Class("txmut:rejected:other")
				}
			}
			desc += " " + kind
		}
		ev.Case(true, "txmut "+g.desc+":"+desc)
	})
}

func TestC20_HeaderHash(t *testing.T) {
	ev := harn.For("C20").Rule(c20Rule)
	harn.Check(t, 1000, 24000, func(t *rapid.T) {
		g := c20GenBlock(t, 3)
		h0 := g.hdr
		base := c20EncodeBlock(h0, uint32(len(g.raws)), g.raws)
		msg, v0 := c20Judge(base, nil)
		if msg != "" || v0.blk == nil {
			t.Fatalf("base block: %s %v", msg, v0.err)
		}
		h := h0.clone()
		field := rapid.IntRange(0, 14).Draw(t, "field")
		unsignedChanged := true
		flip := func(b []byte) {
			b[rapid.IntRange(0, len(b)-1).Draw(t, "byte")] ^= 1 << uint(rapid.IntRange(0, 7).Draw(t, "bit"))
		}
		name := ""
		switch field {
		case 0:
			h.version ^= 1 << uint(rapid.IntRange(0, 31).Draw(t, "bit"))
			name = "Version"
		case 1:
			flip(h.prev[:])
			name = "PrevBlockHash"
		case 2:
			flip(h.txRoot[:])
			name = "TransactionsRoot"
		case 3:
			flip(h.br[:])
			name = "BlockRoot"
		case 4:
			h.ts ^= 1 << uint(rapid.IntRange(0, 31).Draw(t, "bit"))
			name = "Timestamp"
		case 5:
			h.height ^= 1 << uint(rapid.IntRange(0, 31).Draw(t, "bit"))
			name = "Height"
		case 6:
			h.cdata ^= 1 << uint(rapid.IntRange(0, 63).Draw(t, "bit"))
			name = "ConsensusData"
		case 7:
			switch rapid.IntRange(0, 2).Draw(t, "cp") {
			case 0:
				h.cpayload = append(h.cpayload, rapid.Byte().Draw(t, "b"))
			case 1:
				if len(h.cpayload) > 0 {
					h.cpayload = h.cpayload[:len(h.cpayload)-1]
				} else {
					h.cpayload = []byte{0}
				}
			default:
				if len(h.cpayload) > 0 {
					flip(h.cpayload)
				} else {
					h.cpayload = []byte{0}
				}
			}
			name = "ConsensusPayload"
		case 8:
			flip(h.next[:])
			name = "NextBookkeeper"
		default:
			unsignedChanged = false
			switch field {
			case 9:
				if len(h.keys) > 0 {
					i := rapid.IntRange(0, len(h.keys)-1).Draw(t, "i")
					h.keys = append(h.keys[:i:i], h.keys[i+1:]...)
				}
				name = "drop-bookkeeper"
			case 10:
				h.keys = append(h.keys, keypair.SerializePublicKey(c19GenKey(t, "newbk").PublicKey))
				name = "add-bookkeeper"
			case 11:
				h.keys = rapid.Permutation(h.keys).Draw(t, "perm")
				name = "permute-bookkeepers"
			case 12:
				if len(h.sigs) > 0 {
					i := rapid.IntRange(0, len(h.sigs)-1).Draw(t, "i")
					h.sigs[i] = c19GenBlob(t, "newsig", 100)
				} else {
					h.sigs = append(h.sigs, []byte{1, 2, 3})
				}
				name = "replace-sig"
			case 13:
				h.sigs = nil
				h.keys = nil
				name = "strip-signers"
			default:
				h.sigs = append(h.sigs, c19GenBlob(t, "addsig", 100))
				name = "add-sig"
			}
		}
		// struct level
		mk := func(x *c20Hdr) *types.Header {
			g2 := &c20Gen{hdr: x}
			return c20Build(t, g2).Header
		}
		var a, b common.Uint256
		guard(t, "Header.Hash", func() { a, b = mk(h0).Hash(), mk(h).Hash() })
		if a != c19Sha256d(h0.unsigned()) || b != c19Sha256d(h.unsigned()) {
			t.Fatalf("Header.Hash is not sha256d of the nine unsigned fields (edit %s)", name)
		}
		if unsignedChanged == (a == b) {
			t.Fatalf("edit %s: unsigned field changed=%v but hash equal=%v", name, unsignedChanged, a == b)
		}
		// wire level
		mb := c20EncodeBlock(h, uint32(len(g.raws)), g.raws)
		msg, v := c20Judge(mb, nil)
		if msg != "" {
			t.Fatalf("header edit %s: %s", name, msg)
		}
		switch {
		case name == "TransactionsRoot":
			if v.blk != nil {
				t.Fatalf("block with modified TransactionsRoot accepted: %s", harn.Hex(mb))
			}
		case v.blk == nil:
			t.Fatalf("block with edit %s rejected: %v", name, v.err)
		case unsignedChanged == (v.blk.Hash() == v0.blk.Hash()):
			t.Fatalf("wire edit %s: unsigned field changed=%v but decoded hash equal=%v", name, unsignedChanged, v.blk.Hash() == v0.blk.Hash())
		}
		ev.Class("hdredit:" + name)
		ev.Case(true, fmt.Sprintf("hdredit %s on %s", name, g.desc))
	})
}

// c20AltKeyBlob returns an alternative serialization of the key that keypair.DeserializePublicKey
// accepts (or the canonical one for kind "canonical").
func c20AltKeyBlob(t *rapid.T, k *fix.ZooKey) ([]byte, string) {
	canon := keypair.SerializePublicKey(k.PublicKey)
	pk, isEC := k.PublicKey.(*ec.PublicKey)
	if !isEC {
		return canon, "canonical"
	}
	label, err := keypair.GetCurveLabel(pk.Curve)
	if err != nil {
		t.Fatalf("harness: curve label: %v", err)
	}
	tag := byte(keypair.PK_ECDSA)
	if pk.Algorithm == ec.SM2 {
		tag = byte(keypair.PK_SM2)
	}
	switch rapid.IntRange(0, 4).Draw(t, "altEnc") {
	case 0:
		return canon, "canonical"
	case 1: // uncompressed point
		u := ec.EncodePublicKey(pk.PublicKey, false)
		if k.Kind == fix.KP256 && rapid.Bool().Draw(t, "bare") {
			return u, "uncompressed"
		}
		return append([]byte{tag, label}, u...), "tagged-uncompressed"
	case 2: // explicit tag+label in front of a compressed P-256 key
		if k.Kind == fix.KP256 {
			return append([]byte{tag, label}, ec.EncodePublicKey(pk.PublicKey, true)...), "tagged-p256"
		}
		return canon, "canonical"
	case 3: // trailing bytes after the key
		return append(append([]byte{}, canon...), rapid.SliceOfN(rapid.Byte(), 1, 3).Draw(t, "junk")...), "trailing-junk"
	default:
		return canon, "canonical"
	}
}

func TestC20_HeaderSignerEncodings(t *testing.T) {
	ev := harn.For("C20").Rule(c20Rule)
	known := c20Known()
	// deterministic witnesses first (reported as violations unless listed as known findings)
	if harn.Shard() == 0 {
		var msgs []string
		cases := map[string]string{}
		for _, w := range []struct {
			name string
			b    []byte
		}{{c20KeyFinding, c20WitnessKey()}, {c20CountFinding, c20WitnessCount()}} {
			msg, v := c20Judge(w.b, ev)
			if msg != "" {
				msgs = append(msgs, "["+w.name+"] "+msg)
				cases[w.name] = fmt.Sprintf("%x", w.b)
			}
			ev.Case(true, fmt.Sprintf("witness %s excluded=%v", w.name, v.excluded))
		}
		if len(msgs) > 0 {
			harn.Violation(t, "C20", cases, "%s", strings.Join(msgs, "\n"))
		}
	}
	harn.Check(t, 1500, 40000, func(t *rapid.T) {
		g := c20GenBlock(t, 2)
		h := g.hdr.clone()
		h.keys = nil
		var kinds []string
		alt := false
		for i, n := 0, rapid.IntRange(1, 5).Draw(t, "nkeys"); i < n; i++ {
			blob, kind := c20AltKeyBlob(t, c19GenKey(t, "bk"))
			if kind != "canonical" {
				alt = true
			}
			h.keys = append(h.keys, blob)
			kinds = append(kinds, kind)
		}
		hostile := ""
		if rapid.IntRange(0, 3).Draw(t, "hostileCount") == 0 {
			v := rapid.SampledFrom([]uint64{1 << 63, 1<<63 + 1, ^uint64(0), 1<<63 - 1, 1 << 32, 0xFFFF}).Draw(t, "count")
			enc := c18RefVarEnc(v)
			if rapid.Bool().Draw(t, "onSigs") {
				h.mOverride = enc
				h.sigs = nil
				hostile = fmt.Sprintf("m=%d", v)
			} else {
				h.nOverride = enc
				h.keys = nil
				hostile = fmt.Sprintf("n=%d", v)
			}
		}
		if (alt && known.key || hostile != "" && known.count) && rapid.IntRange(0, 9).Draw(t, "keepExcluded") != 0 {
			// recorded finding class: generate only a few (they are counted as excluded by the judge)
			h = g.hdr.clone()
			alt, hostile = false, ""
			kinds = []string{"regenerated-canonical"}
		}
		b := c20EncodeBlock(h, uint32(len(g.raws)), g.raws)
		msg, v := c20Judge(b, ev)
		if msg != "" {
			t.Fatalf("header with key encodings %v %s: %s", kinds, hostile, msg)
		}
		switch {
		case v.blk == nil:
			ev.Class("signerenc:rejected")
		case v.excluded:
			ev.Class("signerenc:excluded-known")
		default:
			ev.Class("signerenc:accepted")
		}
		if alt {
			ev.Class("signerenc:alt-key")
		}
		if hostile != "" {
			ev.Class("signerenc:hostile-count")
		}
		sort.Strings(kinds)
		ev.Case(alt || hostile != "", fmt.Sprintf("signerenc %v %s accepted=%v :: %s", kinds, hostile, v.blk != nil, harn.Hex(h.encode()[len(h.unsigned()):])))
	})
}

// ---------------------------------------------------------------------------------------------
// non-minimal length prefixes at every prefix position

// c20Prefix locates one var-uint / var-bytes length prefix inside a canonical encoding.
type c20Prefix struct {
	off, size int
	kind      string
}

// c20HdrPrefixes encodes the header model canonically and lists its length prefixes in wire order:
// consensus payload, bookkeeper count, every key, signature count, every signature.
func c20HdrPrefixes(h *c20Hdr) ([]byte, []c20Prefix) {
	var b []byte
	var ps []c20Prefix
	vu := func(kind string, v uint64) {
		enc := c18RefVarEnc(v)
		ps = append(ps, c20Prefix{len(b), len(enc), kind})
		b = append(b, enc...)
	}
	vb := func(kind string, x []byte) { vu(kind, uint64(len(x))); b = append(b, x...) }
	u := h.unsigned()
	b = append(b, u[:4+32*3+4+4+8]...)
	vb("cpayload", h.cpayload)
	b = append(b, h.next[:]...)
	vu("bkcount", uint64(len(h.keys)))
	for _, k := range h.keys {
		vb("key", k)
	}
	vu("sigcount", uint64(len(h.sigs)))
	for _, s := range h.sigs {
		vb("sig", s)
	}
	return b, ps
}

// c20TxPrefixes lists the length prefixes of a transaction's canonical encoding (reference field
// encoder of C19; the 00 d3 varuint(len) rlp wrapper for EIP-155).
func c20TxPrefixes(tx *types.Transaction, raw []byte) ([]c20Prefix, error) {
	if tx.TxType == types.EIP155 {
		_, sz, ok := c18RefVarDec(raw, 2)
		if !ok {
			return nil, fmt.Errorf("EIP155 wrapper without length prefix: %x", raw)
		}
		return []c20Prefix{{2, int(sz), "tx"}}, nil
	}
	f, err := c19FieldsOf(tx)
	if err != nil {
		return nil, err
	}
	full := f.full()
	if !bytes.Equal(full.b, raw) {
		return nil, fmt.Errorf("reference tx encoding %x differs from ToArray %x", full.b, raw)
	}
	var ps []c20Prefix
	for _, v := range full.varints {
		ps = append(ps, c20Prefix{v[0], v[1], "tx"})
	}
	return ps, nil
}

// c20Widen re-writes the canonical encoding b with prefix i in the total width widths[i] (3, 5 or 9 bytes).
func c20Widen(b []byte, ps []c20Prefix, widths map[int]int) []byte {
	var out []byte
	last := 0
	for i, p := range ps {
		w, ok := widths[i]
		if !ok {
			continue
		}
		val, _, _ := c18RefVarDec(b, uint64(p.off))
		out = append(append(out, b[last:p.off]...), c18ForcedVarEnc(val, w)...)
		last = p.off + p.size
	}
	return append(out, b[last:]...)
}

func TestC20_NonMinimalPrefixes(t *testing.T) {
	ev := harn.For("C20").Rule(c20Rule)
	for _, k := range []string{"cpayload", "bkcount", "key", "sigcount", "sig", "tx"} {
		ev.Floor("widen:only:"+k, "widen", 0.05)
	}
	ev.Floor("widen:several", "widen", 0.10)
	known := c20Known()
	harn.Check(t, 500, 12000, func(t *rapid.T) {
		g := c20GenBlockN(t, 1, 3)
		h := g.hdr.clone()
		if len(h.keys) == 0 || len(h.sigs) == 0 { // every prefix kind present in every case
			k := c19GenKey(t, "bk")
			h.keys = append(h.keys, keypair.SerializePublicKey(k.PublicKey))
			h.sigs = append(h.sigs, c19GenBlob(t, "sig", 300))
		}
		altKey := ""
		if rapid.IntRange(0, 5).Draw(t, "altKey") == 0 {
			// an alternative accepted key blob next to the widened prefix: the recorded finding must
			// not hide a non-minimal prefix
			i := rapid.IntRange(0, len(h.keys)-1).Draw(t, "altAt")
			h.keys[i], altKey = c20AltKeyBlob(t, c19GenKey(t, "altbk"))
		}
		hb, hps := c20HdrPrefixes(h)
		if !bytes.Equal(hb, h.encode()) {
			t.Fatalf("harness: the two reference header encoders disagree")
		}
		// all prefixes of the block: header, then per tx (offsets relative to the tx)
		type where struct{ tx, idx int } // tx == -1: header
		var all []where
		var kinds []string
		byKind := map[string][]int{}
		txps := make([][]c20Prefix, len(g.txs))
		for i, p := range hps {
			byKind[p.kind] = append(byKind[p.kind], len(all))
			all, kinds = append(all, where{-1, i}), append(kinds, p.kind)
		}
		for ti, tx := range g.txs {
			ps, err := c20TxPrefixes(tx, g.raws[ti])
			if err != nil {
				t.Fatalf("harness: tx %d: %v", ti, err)
			}
			txps[ti] = ps
			for i := range ps {
				byKind["tx"] = append(byKind["tx"], len(all))
				all, kinds = append(all, where{ti, i}), append(kinds, "tx")
			}
		}
		var kindNames []string
		for k := range byKind {
			kindNames = append(kindNames, k)
		}
		sort.Strings(kindNames)
		base := c20EncodeBlock(h, uint32(len(g.raws)), g.raws)
		msg, v0 := c20Judge(base, ev)
		if msg != "" {
			t.Fatalf("canonical block (alt key %q): %s", altKey, msg)
		}
		if v0.blk == nil && (altKey == "" || altKey == "canonical") {
			t.Fatalf("canonical generated block rejected: %v", v0.err)
		}
		desc := ""
		for m := 0; m < 8; m++ {
			chosen := map[int]bool{}
			first := rapid.SampledFrom(kindNames).Draw(t, "kind")
			chosen[rapid.SampledFrom(byKind[first]).Draw(t, "which")] = true
			if rapid.IntRange(0, 2).Draw(t, "more") == 0 {
				for i, n := 0, rapid.IntRange(1, 2).Draw(t, "extra"); i < n; i++ {
					chosen[rapid.IntRange(0, len(all)-1).Draw(t, "also")] = true
				}
			}
			hw := map[int]int{}
			tw := make([]map[int]int, len(g.txs))
			var picks []int
			for c := range chosen {
				picks = append(picks, c)
			}
			sort.Ints(picks)
			var label []string
			for _, c := range picks {
				w := all[c]
				p := hps
				if w.tx >= 0 {
					p = txps[w.tx]
				}
				var sizes []int
				for _, s := range []int{3, 5, 9} {
					if s > p[w.idx].size {
						sizes = append(sizes, s)
					}
				}
				if len(sizes) == 0 {
					t.Fatalf("harness: prefix of 9 bytes in a generated block")
				}
				size := rapid.SampledFrom(sizes).Draw(t, "width")
				if w.tx >= 0 {
					if tw[w.tx] == nil {
						tw[w.tx] = map[int]int{}
					}
					tw[w.tx][w.idx] = size
					label = append(label, fmt.Sprintf("tx%d.%d:%d", w.tx, w.idx, size))
				} else {
					hw[w.idx] = size
					label = append(label, fmt.Sprintf("%s#%d:%d", kinds[c], w.idx, size))
				}
			}
			whb := c20Widen(hb, hps, hw)
			mb := append([]byte{}, whb...)
			mb = append(mb, byte(len(g.raws)), byte(len(g.raws)>>8), byte(len(g.raws)>>16), byte(len(g.raws)>>24))
			for ti, raw := range g.raws {
				mb = append(mb, c20Widen(raw, txps[ti], tw[ti])...)
			}
			grow := 0
			for _, c := range picks {
				if w := all[c]; w.tx >= 0 {
					grow += tw[w.tx][w.idx] - txps[w.tx][w.idx].size
				} else {
					grow += hw[w.idx] - hps[w.idx].size
				}
			}
			if len(mb) != len(base)+grow || grow <= 0 {
				t.Fatalf("harness: widened block has unexpected length")
			}
			ev.Class("widen")
			if len(picks) == 1 {
				ev.Class("widen:only:" + kinds[picks[0]])
			} else {
				ev.Class("widen:several")
			}
			msg, v := c20Judge(mb, ev)
			if msg != "" {
				t.Fatalf("block with non-minimal length prefix(es) %v (alt key %q, finding listed %v): %s", label, altKey, known.key, msg)
			}
			if v.blk != nil {
				// the judge has compared ToArray() with the input; the encoder writes minimal prefixes only
				t.Fatalf("block with non-minimal length prefix(es) %v accepted: %s", label, harn.Hex(mb))
			}
			ev.Class("widen:rejected")
			// the header alone (Header.Deserialization is also the p2p / header-sync entry point)
			if len(hw) > 0 {
				guard(t, "HeaderFromRawBytes", func() {
					hd, err := types.HeaderFromRawBytes(append([]byte{}, whb...))
					if err != nil {
						ev.Class("widen:header:rejected")
						return
					}
					if arr := hd.ToArray(); !bytes.Equal(arr, whb) {
						t.Fatalf("header with non-minimal length prefix(es) %v decodes but re-encodes differently:\n input   %x\n ToArray %x", label, whb, arr)
					}
				})
			}
			desc += " [" + strings.Join(label, ",") + "]"
		}
		ev.Case(true, fmt.Sprintf("widen %s alt=%q:%s", g.desc, altKey, desc))
	})
}

func c20Seeds() [][]byte {
	var out [][]byte
	k := fix.Key(fix.KP256, 0)
	seeds := c19Seeds()
	var hashes []common.Uint256
	var raws [][]byte
	for _, s := range seeds {
		tx, err := types.TransactionFromRawBytes(append([]byte{}, s...))
		if err != nil {
			continue
		}
		hashes = append(hashes, tx.Hash())
		raws = append(raws, s)
	}
	for n := 0; n <= len(raws); n += 1 {
		h := &c20Hdr{height: uint32(n), ts: 1600000000, cpayload: []byte(`{"leader":1}`), txRoot: c20RefRoot(hashes[:n])}
		h.keys = [][]byte{keypair.SerializePublicKey(k.PublicKey), keypair.SerializePublicKey(fix.Key(fix.KEd25519, 0).PublicKey)}
		hash := c19Sha256d(h.unsigned())
		if sig, err := signature.Sign(k, hash[:]); err == nil {
			h.sigs = [][]byte{sig}
		}
		out = append(out, c20EncodeBlock(h, uint32(n), raws[:n]))
	}
	return out
}

func TestC20_ByteMutants(t *testing.T) {
	ev := harn.For("C20").Rule(c20Rule)
	ev.Floor("bytemut:decoded", "bytemut", 0.10)
	seeds := c20Seeds()
	harn.Check(t, 1200, 24000, func(t *rapid.T) {
		var base []byte
		var uLen, hLen int
		if rapid.IntRange(0, 2).Draw(t, "fromSeed") == 0 {
			base = rapid.SampledFrom(seeds).Draw(t, "seed")
			uLen, _, _ = c20Scan(base)
			hLen = uLen + 1
		} else {
			g := c20GenBlock(t, 4)
			base = c20EncodeBlock(g.hdr, uint32(len(g.raws)), g.raws)
			uLen, hLen = len(g.hdr.unsigned()), len(g.hdr.encode())
		}
		decoded := 0
		desc := ""
		for k := 0; k < 8; k++ {
			mb := append([]byte{}, base...)
			pick := func() int {
				switch rapid.IntRange(0, 3).Draw(t, "region") {
				case 0:
					return rapid.IntRange(0, uLen-1).Draw(t, "pos")
				case 1:
					return rapid.IntRange(uLen, hLen+3).Draw(t, "pos")
				}
				return rapid.IntRange(0, len(base)-1).Draw(t, "pos")
			}
			kind := ""
			switch rapid.IntRange(0, 6).Draw(t, "mut") {
			case 0:
				mb[pick()] ^= 1 << uint(rapid.IntRange(0, 7).Draw(t, "bit"))
				kind = "flip"
			case 1:
				mb[pick()] = rapid.SampledFrom([]byte{0, 1, 0x7f, 0x80, 0xFC, 0xFD, 0xFE, 0xFF}).Draw(t, "val")
				kind = "set"
			case 2:
				p := pick()
				mb = append(mb[:p:p], append([]byte{rapid.Byte().Draw(t, "ins")}, mb[p:]...)...)
				kind = "insert"
			case 3:
				p := pick()
				mb = append(mb[:p:p], mb[p+1:]...)
				kind = "delete"
			case 4:
				mb = mb[:pick()]
				kind = "truncate"
			case 5: // hostile count spliced at a signer-count position
				p := uLen
				if rapid.Bool().Draw(t, "txcount") {
					p = hLen
					copy(mb[p:], []byte{0xFF, 0xFF, 0xFF, rapid.SampledFrom([]byte{0x7F, 0xFF}).Draw(t, "hi")})
					kind = "txcount"
				} else {
					enc := c18RefVarEnc(rapid.SampledFrom([]uint64{1 << 63, ^uint64(0), 1 << 31, 0xFFFFFFFF}).Draw(t, "cnt"))
					mb = append(mb[:p:p], append(enc, mb[p+1:]...)...)
					kind = "signercount"
				}
			default: // splice with another seed
				o := rapid.SampledFrom(seeds).Draw(t, "other")
				p := pick()
				mb = append(mb[:p:p], o[rapid.IntRange(0, len(o)).Draw(t, "cut"):]...)
				kind = "splice"
			}
			ev.Class("bytemut")
			ev.Class("bytemut:" + kind)
			msg, v := c20Judge(mb, ev)
			if msg != "" {
				t.Fatalf("byte mutant (%s): %s", kind, msg)
			}
			if v.blk != nil {
				decoded++
				ev.Class("bytemut:decoded")
			}
			desc += " " + kind
		}
		ev.Case(true, fmt.Sprintf("bytemut base=%x.. len=%d:%s decoded=%d", sha256.Sum256(base), len(base), desc, decoded))
	})
}

func FuzzC20_Block(f *testing.F) {
	for _, s := range c20Seeds() {
		f.Add(s)
	}
	f.Fuzz(func(t *testing.T, b []byte) {
		if len(b) > 1<<17 {
			return
		}
		types.CheckChainID = false
		if msg, _ := c20Judge(b, nil); msg != "" {
			t.Fatal(msg)
		}
	})
}
