package chainq

// C40 Chain queries agree with each other for every stored block.
//
// A generated chain (native ONT/ONG transfers incl. failing ones, NeoVM deploy/invoke, EIP-155
// transfers and creations) is committed block by block on a real solo ledger, with restarts at
// generated points. The oracle is the harness's own record of what it committed (bytes of
// block.ToArray(), header bytes, transaction bytes and hashes per height). At every checkpoint
// (before each restart, after each restart, at the end) EVERY height is queried through every
// getter named by the property and compared with the record; unknown hashes/heights must not be
// found.

import (
	"fmt"
	"math"
	"math/big"
	"os"
	"strings"
	"testing"

	ethcommon "github.com/ethereum/go-ethereum/common"
	"github.com/ontio/ontology/common"
	"github.com/ontio/ontology/core/payload"
	"github.com/ontio/ontology/core/store/ledgerstore"
	"github.com/ontio/ontology/core/types"
	cutils "github.com/ontio/ontology/core/utils"
	nutils "github.com/ontio/ontology/smartcontract/service/native/utils"
	"pgregory.net/rapid"

	"verifharness/internal/fix"
	"verifharness/internal/harn"
)

// c40Rec is the harness's record of one committed block.
type c40Rec struct {
	Height  uint32
	Hash    common.Uint256
	Raw     []byte // block.ToArray() taken before the block was handed to the ledger
	HdrRaw  []byte // header.ToArray()
	TxHash  []common.Uint256
	TxRaw   [][]byte
	TxTypes []types.TransactionType
}

func c40Record(b *types.Block) c40Rec {
	r := c40Rec{Height: b.Header.Height, Hash: b.Hash(), Raw: b.ToArray(), HdrRaw: b.Header.ToArray()}
	for _, tx := range b.Transactions {
		r.TxHash = append(r.TxHash, tx.Hash())
		r.TxRaw = append(r.TxRaw, append([]byte{}, tx.ToArray()...))
		r.TxTypes = append(r.TxTypes, tx.TxType)
	}
	return r
}

// c40VerifyHeight compares every getter of the property for one committed height with the record.
func c40VerifyHeight(ls *ledgerstore.LedgerStoreImp, r *c40Rec) error {
	h := r.Height
	if got := ls.GetBlockHash(h); got != r.Hash {
		return fmt.Errorf("GetBlockHash(%d) = %s, committed block hash is %s", h, got.ToHexString(), r.Hash.ToHexString())
	}
	b, err := ls.GetBlockByHeight(h)
	if err != nil || b == nil {
		return fmt.Errorf("GetBlockByHeight(%d): block=%v err=%v, a block was committed at this height", h, b != nil, err)
	}
	if !sameBytes(b.ToArray(), r.Raw) {
		return fmt.Errorf("GetBlockByHeight(%d) differs from the committed block:\n got %s\nwant %s", h, harn.Hex(b.ToArray()), harn.Hex(r.Raw))
	}
	if b.Hash() != r.Hash {
		return fmt.Errorf("GetBlockByHeight(%d).Hash() = %s, committed %s", h, b.Hash().ToHexString(), r.Hash.ToHexString())
	}
	b2, err := ls.GetBlockByHash(r.Hash)
	if err != nil || b2 == nil {
		return fmt.Errorf("GetBlockByHash(hash of height %d): block=%v err=%v", h, b2 != nil, err)
	}
	if !sameBytes(b2.ToArray(), r.Raw) {
		return fmt.Errorf("GetBlockByHash(hash of height %d) differs from the committed block:\n got %s\nwant %s", h, harn.Hex(b2.ToArray()), harn.Hex(r.Raw))
	}
	hd, err := ls.GetHeaderByHash(r.Hash)
	if err != nil || hd == nil {
		return fmt.Errorf("GetHeaderByHash(hash of height %d): header=%v err=%v", h, hd != nil, err)
	}
	if !sameBytes(hd.ToArray(), r.HdrRaw) || hd.Height != h {
		return fmt.Errorf("GetHeaderByHash(hash of height %d) differs from the committed header (height %d):\n got %x\nwant %x", h, hd.Height, hd.ToArray(), r.HdrRaw)
	}
	hd2, err := ls.GetHeaderByHeight(h)
	if err != nil || hd2 == nil {
		return fmt.Errorf("GetHeaderByHeight(%d): header=%v err=%v", h, hd2 != nil, err)
	}
	if !sameBytes(hd2.ToArray(), r.HdrRaw) {
		return fmt.Errorf("GetHeaderByHeight(%d) differs from the committed header:\n got %x\nwant %x", h, hd2.ToArray(), r.HdrRaw)
	}
	rh, err := ls.GetRawHeaderByHash(r.Hash)
	if err != nil || rh == nil {
		return fmt.Errorf("GetRawHeaderByHash(hash of height %d): header=%v err=%v", h, rh != nil, err)
	}
	if rh.Height != h || !sameBytes(rh.Payload, r.HdrRaw) {
		return fmt.Errorf("GetRawHeaderByHash(hash of height %d): height %d payload %x, committed header %x", h, rh.Height, rh.Payload, r.HdrRaw)
	}
	if ok, err := ls.IsContainBlock(r.Hash); err != nil || !ok {
		return fmt.Errorf("IsContainBlock(hash of height %d) = %v, %v", h, ok, err)
	}
	if len(b.Transactions) != len(r.TxHash) {
		return fmt.Errorf("GetBlockByHeight(%d) has %d transactions, committed %d", h, len(b.Transactions), len(r.TxHash))
	}
	for i, th := range r.TxHash {
		if b.Transactions[i].Hash() != th {
			return fmt.Errorf("GetBlockByHeight(%d) transaction %d has hash %s, committed %s", h, i, b.Transactions[i].Hash().ToHexString(), th.ToHexString())
		}
		tx, th2, err := ls.GetTransaction(th)
		if err != nil || tx == nil {
			return fmt.Errorf("GetTransaction(tx %d of height %d, %s): tx=%v err=%v", i, h, th.ToHexString(), tx != nil, err)
		}
		if th2 != h {
			return fmt.Errorf("GetTransaction(tx %d of height %d, %s) reports height %d", i, h, th.ToHexString(), th2)
		}
		if tx.Hash() != th || !sameBytes(tx.ToArray(), r.TxRaw[i]) {
			return fmt.Errorf("GetTransaction(tx %d of height %d) differs from the committed transaction:\n got %x\nwant %x", i, h, tx.ToArray(), r.TxRaw[i])
		}
		if ok, err := ls.IsContainTransaction(th); err != nil || !ok {
			return fmt.Errorf("IsContainTransaction(tx %d of height %d) = %v, %v", i, h, ok, err)
		}
		// a transaction hash is not a block hash
		if ok, _ := ls.IsContainBlock(th); ok {
			return fmt.Errorf("IsContainBlock(transaction hash %s) = true", th.ToHexString())
		}
	}
	// a block hash is not a transaction hash
	if ok, _ := ls.IsContainTransaction(r.Hash); ok {
		return fmt.Errorf("IsContainTransaction(block hash of height %d) = true", h)
	}
	return nil
}

// c40VerifyUnknown checks that heights above the tip and hashes that were never committed are not found.
func c40VerifyUnknown(ls *ledgerstore.LedgerStoreImp, top uint32, unknown []common.Uint256, above []uint32) error {
	for _, d := range above {
		h := top + d
		if h <= top { // overflow guard
			continue
		}
		if got := ls.GetBlockHash(h); got != common.UINT256_EMPTY {
			return fmt.Errorf("GetBlockHash(%d) = %s above the tip %d", h, got.ToHexString(), top)
		}
		if b, err := ls.GetBlockByHeight(h); b != nil {
			return fmt.Errorf("GetBlockByHeight(%d) returned a block (height %d, err %v) above the tip %d", h, b.Header.Height, err, top)
		}
		if hd, err := ls.GetHeaderByHeight(h); err == nil && hd != nil {
			return fmt.Errorf("GetHeaderByHeight(%d) returned a header (height %d) above the tip %d", h, hd.Height, top)
		}
	}
	for _, u := range unknown {
		if b, err := ls.GetBlockByHash(u); err == nil && b != nil {
			return fmt.Errorf("GetBlockByHash(never committed %s) returned a block of height %d", u.ToHexString(), b.Header.Height)
		}
		if hd, err := ls.GetHeaderByHash(u); err == nil && hd != nil {
			return fmt.Errorf("GetHeaderByHash(never committed %s) returned a header of height %d", u.ToHexString(), hd.Height)
		}
		if rh, err := ls.GetRawHeaderByHash(u); err == nil && rh != nil {
			return fmt.Errorf("GetRawHeaderByHash(never committed %s) returned a header of height %d", u.ToHexString(), rh.Height)
		}
		if tx, h, err := ls.GetTransaction(u); err == nil && tx != nil {
			return fmt.Errorf("GetTransaction(never committed %s) returned a transaction at height %d", u.ToHexString(), h)
		}
		if ok, err := ls.IsContainBlock(u); ok || err != nil {
			return fmt.Errorf("IsContainBlock(never committed %s) = %v, %v", u.ToHexString(), ok, err)
		}
		if ok, err := ls.IsContainTransaction(u); ok || err != nil {
			return fmt.Errorf("IsContainTransaction(never committed %s) = %v, %v", u.ToHexString(), ok, err)
		}
	}
	return nil
}

func c40VerifyAll(ls *ledgerstore.LedgerStoreImp, recs []c40Rec, unknown []common.Uint256) error {
	top := uint32(len(recs) - 1)
	if h := ls.GetCurrentBlockHeight(); h != top {
		return fmt.Errorf("GetCurrentBlockHeight() = %d, %d blocks committed above genesis", h, top)
	}
	if hh := ls.GetCurrentBlockHash(); hh != recs[top].Hash {
		return fmt.Errorf("GetCurrentBlockHash() = %s, committed tip %s", hh.ToHexString(), recs[top].Hash.ToHexString())
	}
	for i := range recs {
		if err := c40VerifyHeight(ls, &recs[i]); err != nil {
			return err
		}
	}
	return c40VerifyUnknown(ls, top, unknown, []uint32{1, 2, 7, 2000, math.MaxUint32 - top})
}

// ---------------------------------------------------------------------------------------------
// chain generator

type c40Env struct {
	ch     *fix.Chain
	bk     *fix.ZooKey
	nat    []*fix.ZooKey // native accounts: 0 bookkeeper (owns everything), 1,2 funded in block 1, 3 never funded by the harness
	eth    []*fix.ZooKey // secp256k1 accounts: 0,1 funded in block 1, 2 unfunded
	nonce  []uint64      // next EVM nonce per eth account (every INCLUDED EIP-155 tx bumps it)
	deploy int
}

func c40NewEnv(ch *fix.Chain, bk *fix.ZooKey) *c40Env {
	return &c40Env{ch: ch, bk: bk,
		nat:   []*fix.ZooKey{bk, fix.Key(fix.KP256, 1), fix.Key(fix.KSM2, 0), fix.Key(fix.KEd25519, 0)},
		eth:   []*fix.ZooKey{fix.Key(fix.KEth, 0), fix.Key(fix.KEth, 1), fix.Key(fix.KEth, 2)},
		nonce: make([]uint64, 3)}
}

// fundingTxs is the forced content of block 1: ONG to two native users and two EVM accounts, ONT to user 1.
func (e *c40Env) fundingTxs() ([]*types.Transaction, error) {
	var out []*types.Transaction
	add := func(tok common.Address, to common.Address, amt uint64) error {
		tx, err := e.ch.Transfer(tok, e.bk, to, amt, 0, 20000)
		if err == nil {
			out = append(out, tx)
		}
		return err
	}
	for _, s := range []struct {
		tok common.Address
		to  common.Address
		amt uint64
	}{{nutils.OngContractAddress, e.nat[1].Address, 1000_000000000}, {nutils.OngContractAddress, e.nat[2].Address, 1000_000000000},
		{nutils.OntContractAddress, e.nat[1].Address, 100000}, {nutils.OngContractAddress, e.eth[0].Address, 1000_000000000},
		{nutils.OngContractAddress, e.eth[1].Address, 1000_000000000}} {
		if err := add(s.tok, s.to, s.amt); err != nil {
			return nil, err
		}
	}
	return out, nil
}

// genTx draws one transaction; desc is its canonical short description.
func (e *c40Env) genTx(t *rapid.T) (*types.Transaction, string, error) {
	kind := rapid.SampledFrom([]string{"T", "T", "T", "E", "E", "C", "D", "I"}).Draw(t, "kind")
	switch kind {
	case "T":
		tok, tn := nutils.OntContractAddress, "ont"
		if rapid.Bool().Draw(t, "ong") {
			tok, tn = nutils.OngContractAddress, "ong"
		}
		from := rapid.SampledFrom([]int{0, 0, 0, 1, 1, 2, 3}).Draw(t, "from")
		to := rapid.IntRange(0, 3).Draw(t, "to")
		amt := rapid.OneOf(rapid.Uint64Range(0, 3), rapid.Uint64Range(1, 5000), rapid.Just(uint64(1)<<62)).Draw(t, "amt")
		gp := rapid.SampledFrom([]uint64{0, 0, 2500}).Draw(t, "gp")
		tx, err := e.ch.Transfer(tok, e.nat[from], e.nat[to].Address, amt, gp, 20000)
		return tx, fmt.Sprintf("T%s:%d>%d:%d@%d", tn, from, to, amt, gp), err
	case "E":
		from := rapid.SampledFrom([]int{0, 0, 1, 1, 2}).Draw(t, "efrom")
		to := ethAddr(e.eth[rapid.IntRange(0, 2).Draw(t, "eto")])
		val := rapid.OneOf(rapid.Uint64Range(0, 2), rapid.Uint64Range(1, 1_000_000), rapid.Just(uint64(1)<<60)).Draw(t, "val")
		gl := rapid.SampledFrom([]uint64{21000, 30000, 20000}).Draw(t, "gl") // 20000 < intrinsic gas: fails, still included
		wei := new(big.Int).Mul(new(big.Int).SetUint64(val), big.NewInt(1_000_000_000))
		tx, _, err := signEIP155(e.eth[from], e.nonce[from], &to, wei, gl, 500, nil)
		if err == nil {
			e.nonce[from]++
		}
		return tx, fmt.Sprintf("E%d>%x:%d/gl%d", from, to[:2], val, gl), err
	case "C":
		from := rapid.SampledFrom([]int{0, 1, 2}).Draw(t, "cfrom")
		n := rapid.IntRange(0, 3).Draw(t, "nlogs")
		var logs []evmLog
		for i := 0; i < n; i++ {
			nt := rapid.IntRange(0, 4).Draw(t, "ntopics")
			l := evmLog{Data: rapid.SliceOfN(rapid.Byte(), 0, 40).Draw(t, "data")}
			for j := 0; j < nt; j++ {
				var h ethcommon.Hash
				copy(h[:], rapid.SliceOfN(rapid.Byte(), 32, 32).Draw(t, "topic"))
				l.Topics = append(l.Topics, h)
			}
			logs = append(logs, l)
		}
		end := initEnd(rapid.IntRange(0, 3).Draw(t, "end"))
		code := asmInitCode(logs, nil, end)
		tx, _, err := signEIP155(e.eth[from], e.nonce[from], nil, big.NewInt(0), 300000, 500, code)
		if err == nil {
			e.nonce[from]++
		}
		return tx, fmt.Sprintf("C%d:logs%d/end%d/%x", from, n, end, harnShort(code)), err
	case "D":
		e.deploy++
		code := rapid.SliceOfN(rapid.Byte(), 1, 40).Draw(t, "dcode")
		if len(code) >= 8 && code[0] == 0 && code[1] == 0x61 && code[2] == 0x73 && code[3] == 0x6d {
			code[0] = 1 // never the wasm magic
		}
		mtx, err := cutils.NewDeployTransaction(code, "n", "v", "a", "e", "d", payload.NEOVM_TYPE)
		if err != nil {
			return nil, "", err
		}
		e.ch.NonceCt++
		mtx.Nonce = e.ch.NonceCt
		mtx.GasLimit = 20000000
		signer := e.nat[rapid.IntRange(0, 3).Draw(t, "dsigner")]
		tx, err := fix.Sign(mtx, signer)
		return tx, fmt.Sprintf("D%x", harnShort(code)), err
	default: // "I": tiny NeoVM programs, succeed or fault
		code := rapid.SampledFrom([][]byte{{0x51}, {0x00, 0xf0}, {0x51, 0x52, 0x93}, {0x61}}).Draw(t, "icode")
		mtx := e.ch.RawInvoke(code, 0, 20000)
		signer := e.nat[rapid.IntRange(0, 3).Draw(t, "isigner")]
		tx, err := fix.Sign(mtx, signer)
		return tx, fmt.Sprintf("I%x", code), err
	}
}

func harnShort(b []byte) []byte {
	if len(b) > 6 {
		return b[:6]
	}
	return b
}

func TestC40_QueriesAgree(t *testing.T) {
	ev := harn.For("C40")
	ev.Rule("chains of 5-40 blocks on a solo ledger; block 1 funds two native and two EVM accounts, every other block carries 0-6 generated txs (ONT/ONG transfers by 4 accounts of 3 key types incl. zero/over-balance/unfunded-payer ones, NeoVM deploy and invoke, EIP-155 transfers incl. below-intrinsic-gas and over-balance ones, EIP-155 creations emitting 0-3 logs that return/revert/fault); the ledger is closed and reopened after generated heights; at each checkpoint (before and after each restart, and before/after a final restart) every height is read through GetBlockHash, GetBlockByHeight, GetBlockByHash, GetHeaderByHash, GetHeaderByHeight, GetRawHeaderByHash, GetTransaction(+height), IsContainBlock/Transaction and compared with the harness's record of the committed bytes; never-committed hashes and heights above the tip must not be found. Non-trivial = chain with a block of >= 2 txs, a failing tx, an EIP-155 tx and a restart followed by further blocks; distinct by the full plan")
	bk := fix.Key(fix.KP256, 0)
	harn.Check(t, 40, 600, func(t *rapid.T) {
		nBlocks := rapid.IntRange(5, 40).Draw(t, "blocks")
		base, err := os.MkdirTemp("", "c40-")
		if err != nil {
			t.Fatal(err)
		}
		defer os.RemoveAll(base)
		ch, err := fix.NewSolo(base+"/ledger", bk)
		if err != nil {
			t.Fatal(err)
		}
		defer func() { ch.Close() }()
		env := c40NewEnv(ch, bk)
		recs := []c40Rec{c40Record(ch.Genesis)}
		var unknown []common.Uint256
		for i := 0; i < 3; i++ {
			var u common.Uint256
			copy(u[:], rapid.SliceOfN(rapid.Byte(), 32, 32).Draw(t, "unknown"))
			unknown = append(unknown, u)
		}
		unknown = append(unknown, common.UINT256_EMPTY)
		var plan []string
		var multi, failing, evm, restartMid bool
		restarts := 0
		checkpoint := func(stage string) {
			// hashes derived from committed ones that were never committed themselves
			u := append([]common.Uint256{}, unknown...)
			tip := recs[len(recs)-1].Hash
			tip[31] ^= 1
			u = append(u, tip)
			if err := c40VerifyAll(ch.LS, recs, u); err != nil {
				t.Fatalf("%s (chain %s): %v", stage, strings.Join(plan, "|"), err)
			}
			ev.Class("checkpoint:" + stage)
		}
		for b := 1; b <= nBlocks; b++ {
			var txs []*types.Transaction
			var descs []string
			if b == 1 {
				txs, err = env.fundingTxs()
				if err != nil {
					t.Fatal(err)
				}
				descs = []string{"fund"}
			} else {
				n := rapid.SampledFrom([]int{0, 0, 1, 1, 2, 3, 4, 5, 6}).Draw(t, "ntx")
				for j := 0; j < n; j++ {
					tx, d, err := env.genTx(t)
					if err != nil {
						t.Fatalf("building tx %s: %v", d, err)
					}
					txs = append(txs, tx)
					descs = append(descs, d)
				}
			}
			blk, err := ch.MakeBlock(txs, 0)
			if err != nil {
				t.Fatal(err)
			}
			rec := c40Record(blk)
			res, err := ch.Apply(blk)
			if err != nil {
				t.Fatalf("ledger rejected generated block %d [%s]: %v", b, strings.Join(descs, ","), err)
			}
			recs = append(recs, rec)
			plan = append(plan, fmt.Sprintf("%d:[%s]", b, strings.Join(descs, ",")))
			ev.Class(fmt.Sprintf("block:ntx=%d", len(txs)))
			if len(txs) >= 2 && b > 1 {
				multi = true
			}
			for i, n := range res.Notify {
				k := "native"
				switch txs[i].TxType {
				case types.EIP155:
					k, evm = "eip155", true
				case types.Deploy:
					k = "deploy"
				}
				if n.State == 1 {
					ev.Class("tx:" + k + ":ok")
				} else {
					ev.Class("tx:" + k + ":failed")
					failing = true
				}
				ev.Class("tx:" + k)
			}
			if b < nBlocks && rapid.IntRange(0, 9).Draw(t, "restart") == 0 {
				checkpoint("before-restart")
				if err := ch.Reopen(); err != nil {
					t.Fatalf("reopen after block %d (chain %s): %v", b, strings.Join(plan, "|"), err)
				}
				checkpoint("after-restart")
				plan = append(plan, "R")
				restarts++
				restartMid = true
			}
		}
		checkpoint("final-before-restart")
		if err := ch.Reopen(); err != nil {
			t.Fatalf("final reopen (chain %s): %v", strings.Join(plan, "|"), err)
		}
		checkpoint("final-after-restart")
		if restarts > 3 {
			restarts = 3
		}
		ev.Class(fmt.Sprintf("restarts-mid-chain=%d", restarts))
		ev.Class("chain")
		if restartMid {
			ev.Class("chain:restart-mid")
		}
		d := strings.Join(plan, "|")
		if len(d) > 560 {
			d = d[:400] + fmt.Sprintf("…#%x", recs[len(recs)-1].Hash[:6])
		}
		ev.Case(multi && failing && evm && restartMid, d)
	})
	ev.Floor("chain:restart-mid", "chain", 0.3)
	ev.Floor("tx:eip155:ok", "tx:eip155", 0.2)
	ev.Floor("tx:native:failed", "tx:native", 0.1)
}

// TestC40_HeaderIndexWindow commits a chain longer than HEADER_INDEX_MAX_SIZE (mostly empty blocks)
// so that the in-memory height->hash window slides and old heights are served from the block store,
// restarts once the window has slid (the reload path computes the window from the tip), continues,
// and reads every height.
func TestC40_HeaderIndexWindow(t *testing.T) {
	ev := harn.For("C40")
	ev.Rule("long chains: HEADER_INDEX_MAX_SIZE + 20..400 blocks (about 1 in 40 carrying 1-3 generated txs), a restart at a generated height past the window size, 1..60 further blocks; all heights verified before the restart, after it and at the end (same getters and record as above). Non-trivial = always (the window has slid at every checkpoint); distinct by lengths and restart height")
	bk := fix.Key(fix.KP256, 0)
	harn.Check(t, 1, 16, func(t *rapid.T) {
		W := int(ledgerstore.HEADER_INDEX_MAX_SIZE)
		first := W + rapid.IntRange(20, 400).Draw(t, "first")
		more := rapid.IntRange(1, 60).Draw(t, "more")
		base, err := os.MkdirTemp("", "c40w-")
		if err != nil {
			t.Fatal(err)
		}
		defer os.RemoveAll(base)
		ch, err := fix.NewSolo(base+"/ledger", bk)
		if err != nil {
			t.Fatal(err)
		}
		defer func() { ch.Close() }()
		env := c40NewEnv(ch, bk)
		recs := []c40Rec{c40Record(ch.Genesis)}
		unknown := []common.Uint256{common.UINT256_EMPTY, u256(0xaa, 1, 2, 3)}
		withTx := 0
		add := func(b int) {
			var txs []*types.Transaction
			if b == 1 {
				txs, err = env.fundingTxs()
				if err != nil {
					t.Fatal(err)
				}
			} else if rapid.IntRange(0, 39).Draw(t, "hastx") == 0 {
				n := rapid.IntRange(1, 3).Draw(t, "ntx")
				for j := 0; j < n; j++ {
					tx, d, err := env.genTx(t)
					if err != nil {
						t.Fatalf("building tx %s: %v", d, err)
					}
					txs = append(txs, tx)
				}
				withTx++
			}
			blk, err := ch.MakeBlock(txs, 0)
			if err != nil {
				t.Fatal(err)
			}
			rec := c40Record(blk)
			if _, err := ch.Apply(blk); err != nil {
				t.Fatalf("ledger rejected generated block %d: %v", b, err)
			}
			recs = append(recs, rec)
		}
		for b := 1; b <= first; b++ {
			add(b)
		}
		if err := c40VerifyAll(ch.LS, recs, unknown); err != nil {
			t.Fatalf("chain of %d blocks, before restart: %v", first, err)
		}
		if err := ch.Reopen(); err != nil {
			t.Fatalf("reopen at height %d: %v", first, err)
		}
		if err := c40VerifyAll(ch.LS, recs, unknown); err != nil {
			t.Fatalf("chain of %d blocks, after restart: %v", first, err)
		}
		for b := first + 1; b <= first+more; b++ {
			add(b)
		}
		if err := c40VerifyAll(ch.LS, recs, unknown); err != nil {
			t.Fatalf("chain of %d blocks restarted at %d, at the end: %v", first+more, first, err)
		}
		if err := ch.Reopen(); err != nil {
			t.Fatalf("reopen at height %d: %v", first+more, err)
		}
		if err := c40VerifyAll(ch.LS, recs, unknown); err != nil {
			t.Fatalf("chain of %d blocks restarted at %d and at the end, after the last restart: %v", first+more, first, err)
		}
		ev.Class("longchain")
		ev.ClassN("longchain:blocks-with-txs", int64(withTx))
		ev.Case(true, fmt.Sprintf("long chain first=%d restart@%d more=%d txblocks=%d tip=%s", first, first, more, withTx, recs[len(recs)-1].Hash.ToHexString()))
	})
}
