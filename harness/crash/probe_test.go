package crash

import (
	"fmt"
	"sort"
	"testing"

	"github.com/ontio/ontology/smartcontract/service/native"
	_ "github.com/ontio/ontology/smartcontract/service/native/init"
)

func TestProbe_List(t *testing.T) {
	var addrs []string
	for a, reg := range native.Contracts {
		svc := &native.NativeService{ServiceMap: map[string]native.Handler{}}
		reg(svc)
		var ms []string
		for m := range svc.ServiceMap {
			ms = append(ms, m)
		}
		sort.Strings(ms)
		addrs = append(addrs, fmt.Sprintf("%x %d %v", a[:], len(ms), ms))
	}
	sort.Strings(addrs)
	for _, a := range addrs {
		fmt.Println(a)
	}
}
