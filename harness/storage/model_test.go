package storage

// Reference model shared by C04 and C44: a stack of plain maps. It knows nothing about skip lists,
// merge iterators or tombstone encodings; a deleted key is a map entry with a nil value.

import (
	"bytes"
	"fmt"
	"sort"
	"strings"

	scom "github.com/ontio/ontology/core/store/common"
	"github.com/ontio/ontology/core/store/leveldbstore"
	"pgregory.net/rapid"
)

// layer maps key -> value; a nil value is a tombstone (only meaningful above the persistent layer).
type layer map[string][]byte

func (l layer) clone() layer {
	c := layer{}
	for k, v := range l {
		c[k] = v
	}
	return c
}

// lookup returns the newest value of k; layers are given top-down.
func lookup(k string, ls ...layer) ([]byte, bool) {
	for _, l := range ls {
		if v, ok := l[k]; ok {
			if v == nil {
				return nil, false
			}
			return v, true
		}
	}
	return nil, false
}

// allKeys returns the sorted union of the keys (live or tombstoned) of the layers.
func allKeys(ls ...layer) []string {
	seen := map[string]bool{}
	for _, l := range ls {
		for k := range l {
			seen[k] = true
		}
	}
	out := make([]string, 0, len(seen))
	for k := range seen {
		out = append(out, k)
	}
	sort.Strings(out)
	return out
}

// liveWithPrefix lists the live keys with the prefix in ascending byte order, with their newest value.
func liveWithPrefix(prefix string, ls ...layer) (keys []string, vals [][]byte) {
	for _, k := range allKeys(ls...) {
		if strings.HasPrefix(k, prefix) {
			if v, ok := lookup(k, ls...); ok {
				keys = append(keys, k)
				vals = append(vals, v)
			}
		}
	}
	return
}

// iterShape describes, from the model only, how interesting a merged iteration over (top | below...) is.
type iterShape struct {
	memN, backN   int  // entries of the top layer / live entries of the layers below, inside the prefix
	shadowed      int  // keys live on top AND live below
	tombOverLive  int  // tombstones on top hiding a live key below
	tombOnly      int  // tombstones on top with nothing live below
	firstIsTomb   bool // the smallest key of the merged range is a tombstone on top
	memEndsFirst  bool // the largest key of the range exists only below
	backEndsFirst bool // the largest key of the range exists only on top
}

func shapeOf(prefix string, top layer, below ...layer) iterShape {
	var s iterShape
	keys := []string{}
	for _, k := range allKeys(append([]layer{top}, below...)...) {
		if strings.HasPrefix(k, prefix) {
			keys = append(keys, k)
		}
	}
	first, last := true, ""
	for _, k := range keys {
		tv, inTop := top[k]
		_, liveBelow := lookup(k, below...)
		if !inTop && !liveBelow {
			continue // invisible to both iterators (e.g. overlay tombstone seen from the cache is "below")
		}
		if inTop {
			s.memN++
		}
		if liveBelow {
			s.backN++
		}
		switch {
		case inTop && tv != nil && liveBelow:
			s.shadowed++
		case inTop && tv == nil && liveBelow:
			s.tombOverLive++
		case inTop && tv == nil:
			s.tombOnly++
		}
		if first {
			s.firstIsTomb = inTop && tv == nil
			first = false
		}
		last = k
	}
	if last != "" {
		_, inTop := top[last]
		_, liveBelow := lookup(last, below...)
		s.memEndsFirst = !inTop && s.memN > 0
		s.backEndsFirst = !liveBelow && s.backN > 0
	}
	return s
}

func (s iterShape) nontrivial() bool {
	return s.memN > 0 && s.backN > 0 && (s.shadowed+s.tombOverLive+s.tombOnly) > 0
}

// ---------------------------------------------------------------------------------------------
// generators

var keyAlphabet = []byte{'a', 'b', 0x00, 0xff}

// genKey draws a short key over {a, b, 0x00, 0xff}: many shared prefixes, keys that are prefixes of
// other keys, the empty key, and the 0xff edge of util.BytesPrefix.
func genKey(maxLen int) *rapid.Generator[string] {
	return rapid.Custom(func(t *rapid.T) string {
		n := rapid.IntRange(0, maxLen).Draw(t, "klen")
		b := make([]byte, n)
		for i := range b {
			b[i] = rapid.SampledFrom(keyAlphabet).Draw(t, "kb")
		}
		return string(b)
	})
}

// genVal draws a non-empty value (an empty value IS the tombstone encoding of the memdb; real
// storage items are never empty).
var genVal = rapid.SliceOfN(rapid.Byte(), 1, 6)

// pickKey draws, with probability ~0.7, one of the known keys, a prefix of one, or an extension of
// one; otherwise an arbitrary key.
func pickKey(t *rapid.T, known []string, maxLen int, label string) string {
	if len(known) > 0 && rapid.IntRange(0, 9).Draw(t, label+"-how") < 7 {
		k := rapid.SampledFrom(known).Draw(t, label+"-known")
		switch rapid.IntRange(0, 5).Draw(t, label+"-var") {
		case 0:
			if len(k) > 0 {
				return k[:rapid.IntRange(0, len(k)-1).Draw(t, label+"-cut")]
			}
		case 1:
			if len(k) < maxLen {
				return k + string([]byte{rapid.SampledFrom(keyAlphabet).Draw(t, label+"-ext")})
			}
		}
		return k
	}
	return genKey(maxLen).Draw(t, label)
}

// storageKey is the raw key under which the persistent store / overlay hold a contract storage key.
func storageKey(k string) []byte {
	return append([]byte{byte(scom.ST_STORAGE)}, k...)
}

// drain reads a store iterator to the end (First, then Next) and copies keys and values.
func drain(it scom.StoreIterator) (keys []string, vals [][]byte, err error) {
	defer it.Release()
	for ok := it.First(); ok; ok = it.Next() {
		keys = append(keys, string(it.Key()))
		vals = append(vals, append([]byte{}, it.Value()...))
	}
	return keys, vals, it.Error()
}

func sameSeq(gotK []string, gotV [][]byte, wantK []string, wantV [][]byte) bool {
	if len(gotK) != len(wantK) {
		return false
	}
	for i := range gotK {
		if gotK[i] != wantK[i] || !bytes.Equal(gotV[i], wantV[i]) {
			return false
		}
	}
	return true
}

func fmtSeq(ks []string, vs [][]byte) string {
	var sb strings.Builder
	sb.WriteString("[")
	for i := range ks {
		if i > 0 {
			sb.WriteString(" ")
		}
		fmt.Fprintf(&sb, "%x=%x", ks[i], vs[i])
	}
	sb.WriteString("]")
	return sb.String()
}

func fmtLayer(l layer) string {
	var sb strings.Builder
	sb.WriteString("{")
	for i, k := range allKeys(l) {
		if i > 0 {
			sb.WriteString(" ")
		}
		if l[k] == nil {
			fmt.Fprintf(&sb, "%x=DEL", k)
		} else {
			fmt.Fprintf(&sb, "%x=%x", k, l[k])
		}
	}
	sb.WriteString("}")
	return sb.String()
}

// ---------------------------------------------------------------------------------------------
// persistent layer

var (
	sharedStore     *leveldbstore.LevelDBStore
	sharedStoreUses int
)

// freshStore returns an EMPTY in-memory goleveldb store. Opening a goleveldb costs a zeroed 4 MiB
// write buffer (about 10 ms, more than a whole case), so one store is reused for up to 64 cases and
// wiped in between; the wipe is verified (the store must iterate as empty), which makes a wiped
// store observably equal to a new one. It is re-created regularly so that goleveldb's internal
// tombstones do not pile up and slow the iterators down.
func freshStore() *leveldbstore.LevelDBStore {
	sharedStoreUses++
	if sharedStore == nil || sharedStoreUses%64 == 0 {
		if sharedStore != nil {
			sharedStore.Close()
		}
		sharedStore = leveldbstore.NewMemLevelDBStore()
		return sharedStore
	}
	it := sharedStore.NewIterator(nil)
	var ks [][]byte
	for ok := it.First(); ok; ok = it.Next() {
		ks = append(ks, append([]byte{}, it.Key()...))
	}
	it.Release()
	if len(ks) > 0 {
		sharedStore.NewBatch()
		for _, k := range ks {
			sharedStore.BatchDelete(k)
		}
		if err := sharedStore.BatchCommit(); err != nil {
			panic(err)
		}
	}
	it = sharedStore.NewIterator(nil)
	if it.First() {
		panic("freshStore: wipe left keys behind")
	}
	it.Release()
	return sharedStore
}
