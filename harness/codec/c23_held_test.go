package codec

// C23, held results. "A script built from a key set parses back to the same key set and threshold, the
// multi-signature address is the same for every ordering" speaks about the key set and m alone: the
// script returned for one (key set, m) - ProgramFromPubKey / ProgramFromMultiPubKey /
// EncodeMultiPubKeyProgramInto / Sig.GetRawSig / ProgramFromParams -, the ProgramInfo parsed from one
// script and the address of one key set must not change because OTHER key sets, thresholds or
// orderings are processed later, and must not depend on what was processed before. Every result is
// kept untouched next to a private deep copy taken at return time while 1..7 further jobs run - mostly
// RELATIVES of an earlier one: the same key list under another m, another ordering of the same set
// (same script, same address), the set with one key dropped / added / replaced, one key of the set
// alone - interleaved with rejected parameters and scripts and optionally followed by joined
// goroutines doing the same. Then everything is compared with the copies and the independent
// reference builder, parsed / hashed again, recomputed (determinism against call history), and the
// caller-owned buffers are overwritten: a parsed ProgramInfo does not follow the script bytes, a built
// script does not follow the signature buffers or the key slice it was built from (GetParamInfo is a
// documented zero-copy view and is not asserted there).

import (
	"bytes"
	"fmt"
	"strings"
	"sync"
	"testing"

	ethcrypto "github.com/ethereum/go-ethereum/crypto"
	"github.com/ontio/ontology-crypto/keypair"
	"github.com/ontio/ontology/common"
	"github.com/ontio/ontology/core/program"
	"github.com/ontio/ontology/core/types"
	"pgregory.net/rapid"

	fix "verifharness/codec/fixlite"
	"verifharness/internal/harn"
)

type c23Job struct {
	keys []*fix.ZooKey // in the order handed to the builder
	m    int
	sigs [][]byte // invocation-script material
	desc string
}

func (j *c23Job) String() string { return j.desc }

type c23Snap struct {
	prog, into, verify, invoke, params []byte
	addr                               common.Address
	info                               string // M and canonical keys of the parsed ProgramInfo
	back                               [][]byte
}

type c23Held struct {
	job                                *c23Job
	prog, into, verify, invoke, params []byte // as returned
	info                               program.ProgramInfo
	back                               [][]byte // GetParamInfo(params): views of paramsIn
	progIn, paramsIn                   []byte   // private script copies handed to the parsers
	sigsIn                             [][]byte // signature buffers handed to the builders
	keysIn                             []keypair.PublicKey
	snap                               *c23Snap
}

func c23InfoText(info program.ProgramInfo) string {
	var ks []string
	for _, k := range info.PubKeys {
		ks = append(ks, fmt.Sprintf("%x", keypair.SerializePublicKey(k)))
	}
	return fmt.Sprintf("M=%d keys=%s", info.M, strings.Join(ks, ","))
}

func c23CopyList(l [][]byte) [][]byte {
	out := make([][]byte, len(l))
	for i := range l {
		out[i] = append([]byte{}, l[i]...)
	}
	return out
}

func (h *c23Held) take() *c23Snap {
	cp := func(b []byte) []byte { return append([]byte{}, b...) }
	return &c23Snap{prog: cp(h.prog), into: cp(h.into), verify: cp(h.verify), invoke: cp(h.invoke), params: cp(h.params),
		info: c23InfoText(h.info), back: c23CopyList(h.back)}
}

// run builds, parses and hashes for one (key list, m); compares with the reference at return time.
func (j *c23Job) run() (h *c23Held, msg string) {
	defer func() {
		if r := recover(); r != nil {
			msg = fmt.Sprintf("panic in %s: %v\n%s", j, r, c18Stack())
		}
	}()
	h = &c23Held{job: j}
	pubs := c23Pubs(j.keys)
	n := len(pubs)
	var ref []byte
	var refAddr common.Address
	var addr common.Address
	var err error
	h.sigsIn = c23CopyList(j.sigs)
	if n == 1 {
		ref = c23RefSingle(keypair.SerializePublicKey(pubs[0]))
		refAddr = c23Hash160(ref)
		if j.keys[0].Kind == fix.KEth {
			refAddr = common.Address(ethcrypto.PubkeyToAddress(j.keys[0].EthECDSA().PublicKey))
		}
		h.prog = program.ProgramFromPubKey(pubs[0])
		sink := common.NewZeroCopySink(nil)
		sink.WriteBytes([]byte{0xEE})
		program.EncodeSinglePubKeyProgramInto(sink, pubs[0])
		h.into = sink.Bytes()
		addr = types.AddressFromPubKey(pubs[0])
	} else {
		ref = c23RefMulti(c23SortedSer(pubs), j.m, n)
		refAddr = c23Hash160(ref)
		h.keysIn = append([]keypair.PublicKey{}, pubs...)
		if h.prog, err = program.ProgramFromMultiPubKey(h.keysIn, j.m); err != nil {
			return h, fmt.Sprintf("%s: ProgramFromMultiPubKey: %v", j, err)
		}
		sink := common.NewZeroCopySink(nil)
		sink.WriteBytes([]byte{0xEE})
		if err = program.EncodeMultiPubKeyProgramInto(sink, append([]keypair.PublicKey{}, pubs...), j.m); err != nil {
			return h, fmt.Sprintf("%s: EncodeMultiPubKeyProgramInto: %v", j, err)
		}
		h.into = sink.Bytes()
		if addr, err = types.AddressFromMultiPubKeys(append([]keypair.PublicKey{}, pubs...), j.m); err != nil {
			return h, fmt.Sprintf("%s: AddressFromMultiPubKeys: %v", j, err)
		}
	}
	rs, err := (&types.Sig{PubKeys: append([]keypair.PublicKey{}, pubs...), M: uint16(j.m), SigData: h.sigsIn}).GetRawSig()
	if err != nil {
		return h, fmt.Sprintf("%s: GetRawSig: %v", j, err)
	}
	h.verify, h.invoke = rs.Verify, rs.Invoke
	h.params = program.ProgramFromParams(h.sigsIn)
	h.progIn = append([]byte{}, ref...)
	if h.info, err = program.GetProgramInfo(h.progIn); err != nil {
		return h, fmt.Sprintf("%s: GetProgramInfo(%x): %v", j, ref, err)
	}
	var refParams []byte
	for _, s := range j.sigs {
		refParams = c23PushBytes(refParams, s)
	}
	h.paramsIn = append([]byte{}, refParams...)
	if h.back, err = program.GetParamInfo(h.paramsIn); err != nil {
		return h, fmt.Sprintf("%s: GetParamInfo(%x): %v", j, refParams, err)
	}
	h.snap = h.take()
	h.snap.addr = addr
	s := h.snap
	switch {
	case !bytes.Equal(s.prog, ref) || !bytes.Equal(s.verify, ref) || !bytes.Equal(s.into, append([]byte{0xEE}, ref...)):
		return h, fmt.Sprintf("%s: built scripts differ from the reference %x:\n ProgramFrom..PubKey %x\n Encode..Into        %x\n GetRawSig.Verify    %x", j, ref, s.prog, s.into, s.verify)
	case !bytes.Equal(s.params, refParams) || !bytes.Equal(s.invoke, refParams):
		return h, fmt.Sprintf("%s: invocation scripts differ from the reference %x: ProgramFromParams %x, GetRawSig.Invoke %x", j, refParams, s.params, s.invoke)
	case addr != refAddr:
		return h, fmt.Sprintf("%s: address %x, reference hash160(script) %x", j, addr[:], refAddr[:])
	case s.info != c23InfoText(program.ProgramInfo{M: uint16(j.m), PubKeys: keypair.SortPublicKeys(append([]keypair.PublicKey{}, pubs...))}):
		return h, fmt.Sprintf("%s: GetProgramInfo = %s", j, s.info)
	case !c23EqualLists(s.back, j.sigs):
		return h, fmt.Sprintf("%s: GetParamInfo = %x, want %x", j, s.back, j.sigs)
	}
	return h, ""
}

func c23SnapDiff(now, then *c23Snap, withViews bool) string {
	for _, f := range []struct {
		name     string
		now, was []byte
	}{{"ProgramFrom(Multi)PubKey", now.prog, then.prog}, {"Encode..ProgramInto", now.into, then.into}, {"GetRawSig().Verify", now.verify, then.verify},
		{"GetRawSig().Invoke", now.invoke, then.invoke}, {"ProgramFromParams", now.params, then.params}} {
		if !bytes.Equal(f.now, f.was) {
			return fmt.Sprintf("the script returned by %s was %x, is %x", f.name, f.was, f.now)
		}
	}
	if now.info != then.info {
		return fmt.Sprintf("the ProgramInfo returned by GetProgramInfo was %s, is %s", then.info, now.info)
	}
	if withViews && !c23EqualLists(now.back, then.back) {
		return fmt.Sprintf("the pushes returned by GetParamInfo were %x, are %x", then.back, now.back)
	}
	return ""
}

func (h *c23Held) check(when string, withViews bool) (msg string) {
	defer func() {
		if r := recover(); r != nil {
			msg = fmt.Sprintf("panic while re-reading %s %s: %v\n%s", h.job, when, r, c18Stack())
		}
	}()
	if d := c23SnapDiff(h.take(), h.snap, withViews); d != "" {
		return fmt.Sprintf("%s, %s: %s", h.job, when, d)
	}
	return ""
}

// use parses / hashes the held scripts again.
func (h *c23Held) use() (msg string) {
	defer func() {
		if r := recover(); r != nil {
			msg = fmt.Sprintf("panic while using the held results of %s again: %v\n%s", h.job, r, c18Stack())
		}
	}()
	info, err := program.GetProgramInfo(h.prog)
	if err != nil || c23InfoText(info) != h.snap.info {
		return fmt.Sprintf("%s: the held script %x now parses as %s (err %v), before as %s", h.job, h.prog, c23InfoText(info), err, h.snap.info)
	}
	if len(h.job.keys) > 1 || h.job.keys[0].Kind != fix.KEth {
		if a := common.AddressFromVmCode(h.prog); a != h.snap.addr {
			return fmt.Sprintf("%s: the held script %x now hashes to %x, its address was %x", h.job, h.prog, a[:], h.snap.addr[:])
		}
	}
	var again []byte
	if len(info.PubKeys) == 1 {
		again = program.ProgramFromPubKey(h.info.PubKeys[0])
	} else if again, err = program.ProgramFromMultiPubKey(append([]keypair.PublicKey{}, h.info.PubKeys...), int(h.info.M)); err != nil {
		return fmt.Sprintf("%s: the held ProgramInfo cannot be re-built: %v", h.job, err)
	}
	if !bytes.Equal(again, h.snap.prog) {
		return fmt.Sprintf("%s: re-building the held ProgramInfo gives %x, the script was %x", h.job, again, h.snap.prog)
	}
	return ""
}

func c23KeysDesc(ks []*fix.ZooKey) string {
	var sb strings.Builder
	for _, k := range ks {
		fmt.Fprintf(&sb, "%s%d ", k.Kind, k.Idx)
	}
	return strings.TrimSpace(sb.String())
}

func c23HasKey(ks []*fix.ZooKey, k *fix.ZooKey) bool {
	for _, x := range ks {
		if x.Kind == k.Kind && x.Idx == k.Idx {
			return true
		}
	}
	return false
}

// c23GenHeldJob draws a fresh (key list, m) or a relative of an earlier one.
func c23GenHeldJob(t *rapid.T, prev []*c23Job) *c23Job {
	j := &c23Job{}
	how := "fresh"
	var multi []*c23Job
	for _, p := range prev {
		if len(p.keys) > 1 {
			multi = append(multi, p)
		}
	}
	if len(multi) == 0 || c25Uniform(t, 4, "fresh") == 0 {
		n := 2 + c25Uniform(t, 4, "n") // decompressing a key costs up to a millisecond: mostly small sets
		if c25Uniform(t, 4, "any") == 0 {
			n = 1 + c25Uniform(t, 16, "n")
		}
		j.keys, _ = c23GenKeySet(t, n)
		j.m = 1 + c25Uniform(t, n, "m")
	} else {
		p := multi[c25Uniform(t, len(multi), "of")]
		j.keys, j.m = append([]*fix.ZooKey{}, p.keys...), p.m
		n := len(j.keys)
		switch c25Uniform(t, 8, "relation") {
		case 0, 1: // the same key list under another threshold
			j.m = p.m%n + 1
			how = "other-m"
		case 2, 3: // another ordering of the same set
			j.keys = rapid.Permutation(j.keys).Draw(t, "perm")
			how = "permuted"
		case 4: // one key dropped
			if n > 2 {
				i := c25Uniform(t, n, "drop")
				j.keys = append(j.keys[:i:i], j.keys[i+1:]...)
				if j.m > n-1 {
					j.m = n - 1
				}
				how = "dropped"
			} else {
				j.keys = j.keys[:1]
				j.m = 1
				how = "single-of"
			}
		case 5: // one key added
			if n < 16 {
				for i := 0; ; i++ {
					k := fix.Key(fix.KP256, 30+i)
					if !c23HasKey(j.keys, k) {
						at := c25Uniform(t, n+1, "at")
						j.keys = append(j.keys[:at:at], append([]*fix.ZooKey{k}, j.keys[at:]...)...)
						break
					}
				}
				how = "added"
			} else {
				j.m = p.m%n + 1
				how = "other-m"
			}
		case 6: // one key replaced (same n, same m)
			for i := 0; ; i++ {
				k := fix.Key(fix.KP256, 50+i)
				if !c23HasKey(j.keys, k) {
					j.keys[c25Uniform(t, n, "at")] = k
					break
				}
			}
			how = "replaced"
		default: // one key of the set alone
			j.keys = []*fix.ZooKey{j.keys[c25Uniform(t, n, "which")]}
			j.m = 1
			how = "single-of"
		}
		how += fmt.Sprintf(" of [%d/%d %s]", p.m, len(p.keys), c23KeysDesc(p.keys[:2]))
	}
	if len(j.keys) == 1 {
		j.m = 1
	}
	for i := 0; i < j.m; i++ {
		l := 1 + c25Uniform(t, 64, "sigLen")
		if c25Uniform(t, 8, "longSig") == 0 {
			l = []int{75, 76, 255, 256}[c25Uniform(t, 4, "edge")]
		}
		s := bytes.Repeat([]byte{byte(c25Uniform(t, 64, "fill"))}, l)
		s[0] = byte(i + 1)
		j.sigs = append(j.sigs, s)
	}
	j.desc = fmt.Sprintf("%s %d/%d [%s]", how, j.m, len(j.keys), c23KeysDesc(j.keys))
	return j
}

func TestC23_HeldResults(t *testing.T) {
	ev := harn.For("C23").Rule(c23Rule)
	ev.Floor("held:distinct>=2", "held", 0.80)
	ev.Floor("held:later>=3", "held", 0.30)
	ev.Floor("held:concurrent", "held", 0.15)
	ev.Floor("held:related", "held", 0.50)
	ev.Floor("held:same-set-other-m", "held", 0.15)
	ev.Floor("held:same-set-other-order", "held", 0.15)
	harn.Check(t, 320, 12000, func(t *rapid.T) {
		n := 2 + c25Uniform(t, 7, "further") // the first job is held over 1..7 further ones
		var held []*c23Held
		var jobs []*c23Job
		var desc []string
		classes := map[string]bool{}
		add := func(h *c23Held) {
			held, jobs = append(held, h), append(jobs, h.job)
			desc = append(desc, h.job.String())
			switch {
			case strings.HasPrefix(h.job.desc, "other-m"):
				classes["held:same-set-other-m"] = true
			case strings.HasPrefix(h.job.desc, "permuted"):
				classes["held:same-set-other-order"] = true
			}
			if !strings.HasPrefix(h.job.desc, "fresh") {
				classes["held:related"] = true
			}
		}
		for i := 0; i < n; i++ {
			j := c23GenHeldJob(t, jobs)
			h, msg := j.run()
			if msg != "" {
				t.Fatalf("%s", msg)
			}
			add(h)
			switch c25Uniform(t, 6, "noise") {
			case 0: // rejected parameters over a held key list
				k := held[c25Uniform(t, len(held), "which")].job
				bad := []int{0, len(k.keys) + 1}[c25Uniform(t, 2, "bad")]
				var e1, e2 error
				guard(t, "builders with an invalid m", func() {
					_, e1 = program.ProgramFromMultiPubKey(c23Pubs(k.keys), bad)
					_, e2 = types.AddressFromMultiPubKeys(c23Pubs(k.keys), bad)
				})
				if e1 == nil || e2 == nil {
					t.Fatalf("m=%d over %d keys accepted (%v / %v)", bad, len(k.keys), e1, e2)
				}
				ev.Class("held:noise=bad-m")
			case 1: // a truncated held script
				k := held[c25Uniform(t, len(held), "which")]
				var err error
				guard(t, "GetProgramInfo", func() { _, err = program.GetProgramInfo(append([]byte{}, k.snap.prog[:len(k.snap.prog)-2]...)) })
				if err == nil {
					t.Fatalf("script without its last two bytes accepted: %x", k.snap.prog[:len(k.snap.prog)-2])
				}
				ev.Class("held:noise=truncated")
			}
		}
		for i, h := range held {
			if msg := h.check(fmt.Sprintf("after %d further key sets were processed on the same goroutine", n-1-i), true); msg != "" {
				t.Fatalf("%s\nsequence: %s", msg, strings.Join(desc, " ; "))
			}
		}

		conc := 0
		if c25Uniform(t, 3, "concurrent") == 0 {
			conc = 2 + c25Uniform(t, 3, "goroutines")
			todo := make([][]*c23Job, conc)
			for g := range todo {
				for k, m := 0, 1+c25Uniform(t, 2, "perG"); k < m; k++ {
					todo[g] = append(todo[g], c23GenHeldJob(t, jobs))
				}
			}
			res := make([][]*c23Held, conc)
			msgs := make([]string, conc)
			var wg sync.WaitGroup
			for g := range todo {
				wg.Add(1)
				go func(g int) {
					defer wg.Done()
					for _, j := range todo[g] {
						h, msg := j.run()
						if msg != "" {
							msgs[g] = msg
							return
						}
						res[g] = append(res[g], h)
					}
				}(g)
			}
			wg.Wait()
			for g := range res {
				if msgs[g] != "" {
					t.Fatalf("goroutine %d of %d: %s", g, conc, msgs[g])
				}
				for _, h := range res[g] {
					add(h)
				}
			}
		}

		for _, h := range held {
			if msg := h.check("by the end of the case", true); msg != "" {
				t.Fatalf("%s\nsequence: %s", msg, strings.Join(desc, " ; "))
			}
		}
		for _, h := range held {
			again, msg := h.job.run()
			if msg != "" {
				t.Fatalf("second run: %s", msg)
			}
			again.snap.addr = h.snap.addr // compared by run() against the reference
			if d := c23SnapDiff(again.snap, h.snap, true); d != "" {
				t.Fatalf("%s run again after the others gives a different result: %s\nsequence: %s", h.job, d, strings.Join(desc, " ; "))
			}
		}
		for _, h := range held {
			if msg := h.use(); msg != "" {
				t.Fatalf("%s\nsequence: %s", msg, strings.Join(desc, " ; "))
			}
		}
		// orderings of one key set under one m gave one script and one address; another m another one
		type setKey struct {
			keys string
			m    int
		}
		bySet := map[setKey]*c23Held{}
		byKeys := map[string]*c23Held{}
		for _, h := range held {
			ks := strings.Join(func() []string {
				var out []string
				for _, b := range c23SortedSer(c23Pubs(h.job.keys)) {
					out = append(out, fmt.Sprintf("%x", b))
				}
				return out
			}(), ",")
			if o, ok := bySet[setKey{ks, h.job.m}]; ok && (!bytes.Equal(o.prog, h.prog) || o.snap.addr != h.snap.addr) {
				t.Fatalf("two orderings of one key set under m=%d gave different scripts/addresses: %s -> %x, %s -> %x", h.job.m, o.job, o.snap.addr[:], h.job, h.snap.addr[:])
			}
			bySet[setKey{ks, h.job.m}] = h
			if o, ok := byKeys[ks]; ok && o.job.m != h.job.m && o.snap.addr == h.snap.addr {
				t.Fatalf("%s and %s have the same address %x", o.job, h.job, h.snap.addr[:])
			}
			byKeys[ks] = h
		}

		// caller-owned buffers are overwritten
		for _, h := range held {
			c19Flip(h.progIn)
			c19Flip(h.paramsIn)
			for _, s := range h.sigsIn {
				c19Flip(s)
			}
			for i := range h.keysIn {
				h.keysIn[i] = nil
			}
		}
		for _, h := range held {
			if msg := h.check("when the caller-owned buffers (parsed script, signature buffers, key slice) were overwritten", false); msg != "" {
				t.Fatalf("%s\nsequence: %s", msg, strings.Join(desc, " ; "))
			}
		}

		distinct := map[string]bool{}
		for _, h := range held[:n] {
			distinct[string(h.snap.prog)] = true
		}
		ev.Class("held")
		ev.ClassN("held:jobs", int64(len(held)))
		if len(distinct) >= 2 {
			ev.Class("held:distinct>=2")
		}
		for _, c := range []string{"held:related", "held:same-set-other-m", "held:same-set-other-order"} {
			if classes[c] {
				ev.Class(c)
			}
		}
		if n-1 >= 3 {
			ev.Class("held:later>=3")
		}
		if conc > 0 {
			ev.Class("held:concurrent")
		}
		d := fmt.Sprintf("held n=%d conc=%d %s", n, conc, strings.Join(desc, " ; "))
		if len(d) > 560 {
			d = d[:560] + fmt.Sprintf("..#%x", c19Sha256d([]byte(d)))[:24]
		}
		ev.Case(len(distinct) >= 2, d)
	})
}
