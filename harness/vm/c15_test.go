package vm

// C15 Contract execution results do not depend on Go map iteration order.
//
// Generator: NeoVM programs compiled from value descriptions (vmgen_test.go): the program
// allocates every container (NEWARRAY/NEWSTRUCT/NEWMAP), links them with APPEND/SETITEM through a
// registry array kept on the alt stack (so shared and self-referential values can be built), and
// then runs 1–3 generated tail actions on the value: System.Runtime.Serialize (of the root or of a
// generated sub-value), storage put of the serialization, Serialize∘Deserialize∘Serialize,
// KEYS / VALUES / PICKITEM / HASKEY on a generated map, System.Runtime.Notify, and
// Ontology.Native.Invoke with the value as argument (argument marshalling runs the same detector).
// Value shapes: random graphs with maps; container→map→container sandwiches in which exactly one
// map value pushes the total depth from the root across the detector's limit while its siblings
// do not; sandwiches in which one map value closes a cycle to an outer container (every array on
// the cycle links through its first element, so only the map entry decides whether it is seen).
//
// Oracle (metamorphic): the program runs K = 24 (64 when a map has more than 3 entries) times in
// fresh engines over identically prepared fresh states (inside the crash-isolating child); all
// runs must agree on success/failure, returned value, notifications and write set. Go randomises
// map iteration per range statement, so an order-dependent result with split p:(1-p) escapes
// with probability p^K+(1-p)^K (2^-23 for an even split). The error TEXT of failing runs is
// recorded but not required to agree (the property speaks of success/failure).

import (
	"fmt"
	"sort"
	"strings"
	"testing"

	"github.com/ontio/ontology/smartcontract/service/native/utils"
	scneovm "github.com/ontio/ontology/smartcontract/service/neovm"
	"github.com/ontio/ontology/vm/neovm"
	"pgregory.net/rapid"

	"verifharness/internal/harn"
	"verifharness/internal/iso"
)

const c15Rule = "NeoVM programs compiled from generated value graphs (2–12-key maps, nested arrays/structs/maps, shared sub-values, map values that cross the depth limit or close a cycle while their siblings do not) followed by 1–3 generated actions (Serialize of root or sub-value, storage put, Serialize/Deserialize/Serialize, KEYS, VALUES, PICKITEM, HASKEY, Notify, Native.Invoke); each program is executed 24–64 times in fresh engines on the same state and all observable results must agree; non-trivial = a map with >= 2 entries reaches Serialize or the argument-marshalling detector; distinct = different program bytes"

// ---- program builder --------------------------------------------------------------------------

type prog struct{ code []byte }

func (p *prog) op(o neovm.OpCode) { p.code = append(p.code, byte(o)) }

func (p *prog) pushBytes(b []byte) {
	switch {
	case len(b) == 0:
		p.code = append(p.code, byte(neovm.PUSHDATA1), 0)
	case len(b) <= 75:
		p.code = append(p.code, byte(len(b)))
		p.code = append(p.code, b...)
	case len(b) <= 255:
		p.code = append(p.code, byte(neovm.PUSHDATA1), byte(len(b)))
		p.code = append(p.code, b...)
	default:
		p.code = append(p.code, byte(neovm.PUSHDATA2), byte(len(b)), byte(len(b)>>8))
		p.code = append(p.code, b...)
	}
}

// pushIndex pushes a small non-negative number usable as index/count.
func (p *prog) pushIndex(v int) {
	switch {
	case v == 0:
		p.op(neovm.PUSH0)
	case v <= 16:
		p.code = append(p.code, byte(int(neovm.PUSH1)-1+v))
	default:
		p.pushBytes(neoBytes(mustBig(fmt.Sprint(v))))
	}
}

func (p *prog) syscall(name string) {
	p.op(neovm.SYSCALL)
	p.code = append(p.code, byte(len(name)))
	p.code = append(p.code, name...)
}

type compiler struct {
	prog
	s    *spec
	cidx map[int]int // container node id -> slot in the registry array
}

func (c *compiler) pushPrim(id int) {
	n := &c.s.N[id]
	switch n.K {
	case kBytes:
		c.pushBytes(n.B)
	case kInt:
		v := mustBig(n.I)
		if v.IsInt64() && v.Int64() >= -1 && v.Int64() <= 16 {
			if v.Int64() == -1 {
				c.op(neovm.PUSHM1)
			} else {
				c.pushIndex(int(v.Int64()))
			}
			return
		}
		c.pushBytes(neoBytes(v)) // bytes -> integer
		c.op(neovm.PUSH0)
		c.op(neovm.ADD)
	case kBool:
		if n.O {
			c.op(neovm.PUSH0)
		} else {
			c.op(neovm.PUSH1)
		}
		c.op(neovm.NOT)
	}
}

func (c *compiler) ref(id int) {
	c.op(neovm.DUPFROMALTSTACK)
	c.pushIndex(c.cidx[id])
	c.op(neovm.PICKITEM)
}

func (c *compiler) push(id int) {
	if c.s.N[id].container() {
		c.ref(id)
	} else {
		c.pushPrim(id)
	}
}

// compileValue emits the code that builds the described value; afterwards ref(id) pushes any
// container of it. Containers are filled children-first (structs are copied by value on APPEND).
func compileValue(s *spec) *compiler {
	c := &compiler{s: s, cidx: map[int]int{}}
	var order []int // post-order over the spanning tree from the root
	seen := map[int]bool{}
	var dfs func(id int)
	dfs = func(id int) {
		if !s.N[id].container() || seen[id] {
			return
		}
		seen[id] = true
		for _, ch := range s.N[id].E {
			dfs(ch)
		}
		order = append(order, id)
	}
	dfs(s.Root)
	ids := append([]int{}, order...)
	sort.Ints(ids)
	for i, id := range ids {
		c.cidx[id] = i
	}
	c.pushIndex(len(ids))
	c.op(neovm.NEWARRAY)
	c.op(neovm.TOALTSTACK)
	for _, id := range ids {
		c.op(neovm.DUPFROMALTSTACK)
		c.pushIndex(c.cidx[id])
		switch s.N[id].K {
		case kArray:
			c.op(neovm.PUSH0)
			c.op(neovm.NEWARRAY)
		case kStruct:
			c.op(neovm.PUSH0)
			c.op(neovm.NEWSTRUCT)
		case kMap:
			c.op(neovm.NEWMAP)
		}
		c.op(neovm.SETITEM)
	}
	for _, id := range order {
		n := &s.N[id]
		for i, ch := range n.E {
			c.ref(id)
			if n.K == kMap {
				c.pushPrim(n.MK[i])
				c.push(ch)
				c.op(neovm.SETITEM)
			} else {
				c.push(ch)
				c.op(neovm.APPEND)
			}
		}
	}
	return c
}

// ---- value shapes -----------------------------------------------------------------------------

type shape struct {
	s       *spec
	kind    string
	maps    []int // map nodes reachable from the root
	serOf   []int // containers that may be chosen as Serialize targets
	acyclic bool
}

func chainOfArrays(s *spec, depth int, leaf int) int {
	cur := leaf
	for i := 0; i < depth; i++ {
		cur = s.add(node{K: kArray, E: []int{cur}})
	}
	return cur
}

// genSandwich: outer arrays (linking through element 0) -> map with 2..12 entries -> exactly one
// value that is either a chain of arrays crossing the depth limit or a reference to an outer array.
func genSandwich(t *rapid.T, cyclic bool) shape {
	s := &spec{}
	outer := rapid.IntRange(0, 6).Draw(t, "outer")
	nkeys := rapid.IntRange(2, 12).Draw(t, "nkeys")
	m := s.add(node{K: kMap})
	seen := map[string]bool{}
	g := &gstate{t: t, s: s}
	special := rapid.IntRange(0, nkeys-1).Draw(t, "special")
	// outer arrays are created first so that a cyclic entry can refer to them
	outerIDs := make([]int, outer)
	for i := range outerIDs {
		outerIDs[i] = s.add(node{K: kArray})
	}
	for i := 0; i < nkeys; i++ {
		k, ok := g.freshKey(seen, true)
		if !ok {
			continue
		}
		var v int
		switch {
		case i == special && cyclic:
			if outer == 0 || rapid.IntRange(0, 3).Draw(t, "toMap") == 0 {
				v = m
			} else {
				v = outerIDs[rapid.IntRange(0, outer-1).Draw(t, "toOuter")]
			}
		case i == special:
			// leaf depth = outer + 1 + d must straddle the limit (rejected iff > 10)
			total := rapid.IntRange(8, 13).Draw(t, "leafDepth")
			d := total - outer - 1
			if d < 0 {
				d = 0
			}
			v = chainOfArrays(s, d, s.add(node{K: kInt, I: "7"}))
		default:
			if rapid.IntRange(0, 3).Draw(t, "sibc") == 0 {
				v = chainOfArrays(s, rapid.IntRange(1, 2).Draw(t, "sibd"), s.add(node{K: kInt, I: "1"}))
			} else {
				v = s.add(genPrimNode(t, false))
			}
		}
		n := &s.N[m]
		n.MK = append(n.MK, k)
		n.E = append(n.E, v)
	}
	cur := m
	for i := outer - 1; i >= 0; i-- {
		n := &s.N[outerIDs[i]]
		n.E = []int{cur}
		for j := rapid.IntRange(0, 2).Draw(t, "osib"); j > 0; j-- {
			n.E = append(n.E, s.add(genPrimNode(t, false)))
		}
		cur = outerIDs[i]
	}
	s.Root = cur
	kind := "sandwich-depth"
	if cyclic {
		kind = "sandwich-cycle"
	}
	return shape{s: s, kind: kind, maps: []int{m}, serOf: append([]int{s.Root}, m), acyclic: !cyclic}
}

func genRandomShape(t *rapid.T, deep bool) shape {
	hi := 8
	kind := "random"
	if deep {
		hi = 14
		kind = "random-deep"
	}
	opt := genOpt{
		maxDepth: rapid.IntRange(2, hi).Draw(t, "maxDepth"),
		budget:   rapid.SampledFrom([]int{15, 40, 90}).Draw(t, "budget"),
		alias:    rapid.Bool().Draw(t, "aliasOn"),
		structs:  rapid.IntRange(0, 2).Draw(t, "structsOn") == 0,
		maps:     true,
		spine:    deep || rapid.Bool().Draw(t, "spine"),
	}
	g := genAcyclic(t, opt)
	sh := shape{s: g.s, kind: kind, acyclic: true}
	var cs []int
	for id := range g.s.N {
		if _, ok := g.parent[id]; ok && g.s.N[id].container() {
			cs = append(cs, id)
			if g.s.N[id].K == kMap {
				sh.maps = append(sh.maps, id)
			}
		}
	}
	sort.Ints(cs)
	sort.Ints(sh.maps)
	sh.serOf = cs
	if !g.s.N[g.s.Root].container() {
		id := g.s.add(node{K: kArray, E: []int{g.s.Root}})
		g.s.Root = id
		sh.serOf = append(sh.serOf, id)
	}
	return sh
}

// ---- tail actions -----------------------------------------------------------------------------

type action struct {
	name   string
	target int // node the action is applied to
}

func (c *compiler) emitAction(t *rapid.T, sh *shape, a action, last bool) {
	switch a.name {
	case "serialize":
		c.ref(a.target)
		c.syscall(scneovm.RUNTIME_SERIALIZE_NAME)
	case "serialize-put":
		c.ref(a.target)
		c.syscall(scneovm.RUNTIME_SERIALIZE_NAME)
		c.pushBytes([]byte("key"))
		c.syscall(scneovm.STORAGE_GETCONTEXT_NAME)
		c.syscall(scneovm.STORAGE_PUT_NAME)
		c.op(neovm.PUSH1)
	case "serialize-notify":
		c.ref(a.target)
		c.syscall(scneovm.RUNTIME_SERIALIZE_NAME)
		c.op(neovm.DUP)
		c.syscall(scneovm.RUNTIME_NOTIFY_NAME)
	case "reserialize":
		c.ref(a.target)
		c.syscall(scneovm.RUNTIME_SERIALIZE_NAME)
		c.syscall(scneovm.RUNTIME_DESERIALIZE_NAME)
		c.syscall(scneovm.RUNTIME_SERIALIZE_NAME)
	case "keys":
		c.ref(a.target)
		c.op(neovm.KEYS)
		c.op(neovm.DUP)
		c.syscall(scneovm.RUNTIME_NOTIFY_NAME)
	case "values":
		c.ref(a.target)
		c.op(neovm.VALUES)
	case "pickitem":
		n := &c.s.N[a.target]
		c.ref(a.target)
		c.pushPrim(n.MK[rapid.IntRange(0, len(n.MK)-1).Draw(t, "pick")])
		c.op(neovm.PICKITEM)
	case "haskey":
		n := &c.s.N[a.target]
		c.ref(a.target)
		if rapid.Bool().Draw(t, "present") {
			c.pushPrim(n.MK[rapid.IntRange(0, len(n.MK)-1).Draw(t, "has")])
		} else {
			c.pushBytes([]byte("absent-key"))
		}
		c.op(neovm.HASKEY)
	case "native":
		c.ref(a.target) // args
		c.pushBytes([]byte("name"))
		c.pushBytes(utils.OntContractAddress[:])
		c.op(neovm.PUSH0)
		c.syscall(scneovm.NATIVE_INVOKE_NAME)
	case "notify-value":
		c.ref(a.target)
		c.syscall(scneovm.RUNTIME_NOTIFY_NAME)
		c.op(neovm.PUSH1)
	}
	if !last {
		c.op(neovm.DROP)
	}
}

// ---- the known finding ------------------------------------------------------------------------

// witness: [[[ {a:1, b:<8 nested arrays>} ]]]  Serialize
func orderWitness() []byte {
	s := &spec{}
	one := s.add(node{K: kInt, I: "1"})
	deep := chainOfArrays(s, 8, s.add(node{K: kInt, I: "7"}))
	ka := s.add(node{K: kBytes, B: []byte("a")})
	kb := s.add(node{K: kBytes, B: []byte("b")})
	m := s.add(node{K: kMap, MK: []int{ka, kb}, E: []int{one, deep}})
	s.Root = chainOfArrays(s, 3, m)
	c := compileValue(s)
	c.ref(s.Root)
	c.syscall(scneovm.RUNTIME_SERIALIZE_NAME)
	return c.code
}

func successPart(o string) string {
	// outcome = "OK <value> | notify:... | writes:..." or "ERR <text> | notify:... | writes:..."
	if strings.HasPrefix(o, "ERR ") {
		if i := strings.Index(o, " | notify:"); i >= 0 {
			return "ERR" + o[i:]
		}
		return "ERR"
	}
	return o
}

// distinctObservable groups the outcomes of the runs by what the property observes
// (success/failure, value, notifications, write set), ignoring the error text.
func distinctObservable(rs wres) (obs []string, counts []int, errTexts int) {
	idx := map[string]int{}
	texts := map[string]bool{}
	for i, o := range rs.Runs {
		if strings.HasPrefix(o, "ERR ") {
			texts[o] = true
		}
		k := successPart(o)
		j, ok := idx[k]
		if !ok {
			j = len(obs)
			idx[k] = j
			obs = append(obs, o)
			counts = append(counts, 0)
		}
		counts[j] += rs.Counts[i]
	}
	return obs, counts, len(texts)
}

func orderWitnessStillFails(w *iso.Worker) bool {
	r := callWorker(w, &wreq{Op: "run", Raw: orderWitness(), K: 200})
	if r.timedOut || r.died || r.res.Bad != "" || r.res.Panic != "" {
		return false
	}
	obs, _, _ := distinctObservable(r.res)
	return len(obs) > 1
}

func clipOutcome(o string) string {
	if i := strings.Index(o, " | writes:"); i >= 0 && len(o)-i > 300 {
		o = o[:i+300] + "…"
	}
	if len(o) > 900 {
		o = o[:900] + "…"
	}
	return o
}

// ---- the property -----------------------------------------------------------------------------

func TestC15_Sandwich(t *testing.T)     { checkPrograms(t, true, 600, 36000) }
func TestC15_RandomGraphs(t *testing.T) { checkPrograms(t, false, 500, 24000) }

func checkPrograms(t *testing.T, sandwich bool, quick, thorough int) {
	ev := harn.For("C15").Rule(c15Rule)
	ev.Assume("fresh in-memory state (overlay over an empty memory store with the script deployed as a contract) is the same state for every run")
	if sandwich {
		ev.Floor("detector:map>=2", "", 0.50)
	} else {
		ev.Floor("detector:map>=2", "", 0.30)
	}
	ev.Floor("result:ok", "ran", 0.20)
	ev.Floor("result:err", "ran", 0.10)
	if sandwich {
		ev.Floor("shape:sandwich-depth", "", 0.30)
		ev.Floor("shape:sandwich-cycle", "", 0.20)
	} else {
		ev.Floor("shape:random-deep", "", 0.15)
	}
	w := newWorker(ev)
	defer w.Close()
	known := harn.Known("C15", "detector-checks-one-random-map-entry", orderWitnessStillFails(w))

	harn.Check(t, quick, thorough, func(t *rapid.T) {
		var sh shape
		switch k := rapid.IntRange(0, 9).Draw(t, "shape"); {
		case sandwich && k < 6:
			sh = genSandwich(t, false)
		case sandwich:
			sh = genSandwich(t, true)
		case k < 6:
			sh = genRandomShape(t, false)
		default:
			sh = genRandomShape(t, true)
		}
		s := sh.s
		c := compileValue(s)
		// actions
		menu := []string{"serialize", "serialize", "serialize-put", "serialize-notify", "reserialize", "native", "notify-value"}
		var bigMaps []int
		for _, m := range sh.maps {
			if len(s.N[m].E) > 0 {
				bigMaps = append(bigMaps, m)
			}
		}
		if len(bigMaps) > 0 {
			menu = append(menu, "keys", "values", "pickitem", "haskey")
		}
		nact := rapid.IntRange(1, 3).Draw(t, "nact")
		var acts []action
		usesDetector := false
		orderDep, mayEscape := false, false
		for i := 0; i < nact; i++ {
			a := action{name: rapid.SampledFrom(menu).Draw(t, "act")}
			switch a.name {
			case "keys", "values", "pickitem", "haskey":
				a.target = bigMaps[rapid.IntRange(0, len(bigMaps)-1).Draw(t, "amap")]
			default:
				a.target = s.Root
				if rapid.IntRange(0, 3).Draw(t, "sub") == 0 && len(sh.serOf) > 0 {
					a.target = sh.serOf[rapid.IntRange(0, len(sh.serOf)-1).Draw(t, "atarget")]
				}
			}
			if a.name != "keys" && a.name != "values" && a.name != "pickitem" && a.name != "haskey" && a.name != "notify-value" {
				// does a map with >= 2 entries lie inside the value handed to the detector?
				if reachesWideMap(s, a.target) {
					usesDetector = true
				}
				if p := s.simulate(a.target, a.name == "native"); p.diverged {
					mayEscape = true // a cycle through a map that a one-entry detector can miss forever
				} else if a.name != "native" && !p.rejected && p.anyMay {
					orderDep = true
				}
			}
			acts = append(acts, a)
		}
		for i, a := range acts {
			c.emitAction(t, &sh, a, i == len(acts)-1)
		}
		var names []string
		for _, a := range acts {
			names = append(names, fmt.Sprintf("%s(#%d)", a.name, a.target))
		}
		desc := fmt.Sprintf("%s %s on %s code=%s", sh.kind, strings.Join(names, ";"), s.describe(), harn.Hex(c.code))
		if len(desc) > 590 {
			desc = desc[:590]
		}

		ev.Class("shape:" + sh.kind)
		if usesDetector {
			ev.Class("detector:map>=2")
		}
		if known && (orderDep || mayEscape) {
			// recorded finding: whether the detector rejects this value depends on which map entry it
			// happens to pick (depth limit crossed / cycle closed by one entry only)
			ev.Excluded()
			if orderDep {
				ev.Class("excluded:order-dependent-detector")
			} else {
				ev.Class("excluded:cycle-through-one-map-entry")
			}
			ev.Case(false, desc)
			return
		}

		K := 24
		for _, m := range sh.maps {
			if len(s.N[m].E) > 3 {
				K = 64
			}
		}
		r := callWorker(w, &wreq{Op: "run", Raw: c.code, K: K})
		if r.timedOut {
			ev.Class("timeout")
			return
		}
		if r.died {
			t.Fatalf("the process executing the program DIED (%s); program %s", diagHead(r.diag), desc)
		}
		if r.res.Bad != "" || len(r.res.Runs) == 0 {
			t.Fatalf("harness error (not a finding): %s", r.res.Bad)
		}
		if r.res.Panic != "" {
			t.Fatalf("panic while executing the program: %s; program %s", r.res.Panic, desc)
		}
		for _, o := range r.res.Runs {
			if strings.HasPrefix(o, "harness:") {
				t.Fatalf("harness error (not a finding): %s", o)
			}
		}
		obs, counts, errTexts := distinctObservable(r.res)
		if len(obs) > 1 {
			var sb strings.Builder
			for i := range obs {
				sb.WriteString(fmt.Sprintf("\n  %d× %s", counts[i], clipOutcome(obs[i])))
			}
			t.Fatalf("%d executions of the same program on the same state gave %d different results:%s\nprogram: %s\nvalue: %s", K, len(obs), sb.String(), desc, s.describe())
		}
		if errTexts > 1 {
			ev.Class("errtext-differs")
		}
		if strings.HasPrefix(obs[0], "OK ") {
			ev.Class("result:ok")
		} else {
			ev.Class("result:err")
			if strings.Contains(obs[0], "circular") {
				ev.Class("result:err-circular")
			}
		}
		ev.Class("ran")
		if orderDep {
			ev.Class("model:order-dependent")
		}
		for _, a := range acts {
			ev.Class("act:" + a.name)
		}
		ev.Case(usesDetector, desc)
	})
}

// reachesWideMap: a map with >= 2 entries is reachable from id.
func reachesWideMap(s *spec, id int) bool {
	seen := map[int]bool{}
	var dfs func(id int) bool
	dfs = func(id int) bool {
		n := &s.N[id]
		if !n.container() || seen[id] {
			return false
		}
		seen[id] = true
		if n.K == kMap && len(n.E) >= 2 {
			return true
		}
		for _, c := range n.E {
			if dfs(c) {
				return true
			}
		}
		return false
	}
	return dfs(id)
}
