package crash

// Generator of kind (e): raw transaction BYTES as a node receives them from a peer or through
// sendrawtransaction: decoded with types.TransactionFromRawBytes and checked by the stateless
// validator (validation.VerifyTransaction) before anything is executed. Valid transactions of every
// type and key kind are built, then their signature sets are mutated structurally (lengths,
// scheme bytes, counts, m-of-n parameters, alternative key encodings) and the bytes themselves.

import (
	"fmt"
	"math/big"

	ethtypes "github.com/ethereum/go-ethereum/core/types"
	"github.com/ontio/ontology-crypto/keypair"
	"github.com/ontio/ontology/common"
	"github.com/ontio/ontology/common/constants"
	"github.com/ontio/ontology/core/payload"
	"github.com/ontio/ontology/core/program"
	"github.com/ontio/ontology/core/signature"
	"github.com/ontio/ontology/core/types"
	"pgregory.net/rapid"
)

func genRawTx(t *rapid.T) (raw []byte, tags []string) {
	tag := func(s string) { tags = append(tags, s) }
	z := zoo()
	kind := rng(t, 0, 9, "txkind")
	if kind == 0 {
		tag("raw-bytes")
		return rapid.SliceOfN(rapid.Byte(), 0, 200).Draw(t, "rawtx"), tags
	}
	if kind == 1 { // EIP-155 transaction
		tag("eip155")
		to := evmPrefixAddr(1)
		gp := new(big.Int).Mul(big.NewInt(int64(pick(t, []int{0, 1, 2500}, "egp"))), big.NewInt(constants.GWei))
		if rng(t, 0, 5, "egpodd") == 0 {
			gp = big.NewInt(int64(rng(t, 1, 999, "oddwei")))
		}
		nonce := uint64(pick(t, []int{0, 3, 4, 1 << 31, 1<<32 - 1}, "enonce"))
		gas := uint64(pick(t, []int{0, 20000, 21000, 100000, 6000000, 1 << 40}, "egas"))
		var etx *ethtypes.Transaction
		data := rapid.SliceOfN(rapid.Byte(), 0, 40).Draw(t, "edata")
		if rng(t, 0, 1, "ecreate") == 0 {
			etx = ethtypes.NewContractCreation(nonce, big.NewInt(0), gas, gp, data)
		} else {
			etx = ethtypes.NewTransaction(nonce, to, big.NewInt(int64(rng(t, 0, 2, "eval"))), gas, gp, data)
		}
		chain := chainIDParent()
		if rng(t, 0, 5, "echain") == 0 {
			chain = big.NewInt(int64(pick(t, []int{0, 1, 5851, 1 << 31}, "chain")))
		}
		signed, err := ethtypes.SignTx(etx, ethtypes.NewEIP155Signer(chain), z[zEth0].EthECDSA())
		if err != nil {
			return nil, append(tags, "unbuildable")
		}
		tx, err := types.TransactionFromEIP155(signed)
		if err != nil {
			// still offer the bytes a peer could send: type byte 0xd3 framing is produced by ToArray only
			return nil, append(tags, "eip-rejected-at-construction")
		}
		raw = common.SerializeToBytes(tx)
		if rng(t, 0, 2, "emut") == 0 {
			tag("mutated")
			raw = mutateBytes(t, raw)
		}
		return raw, tags
	}
	// unsigned part
	sink := common.NewZeroCopySink(nil)
	version := 0
	if rng(t, 0, 24, "oddversion") == 0 {
		version = pick(t, []int{1, 255}, "version")
	}
	sink.WriteByte(byte(version))
	ty := types.InvokeNeo
	var pl interface{ Serialization(*common.ZeroCopySink) }
	switch {
	case kind <= 5:
		tag("invoke-neo")
		pl = &payload.InvokeCode{Code: rapid.SliceOfN(rapid.Byte(), 0, 40).Draw(t, "code")}
	case kind == 6:
		tag("invoke-wasm")
		ty = types.InvokeWasm
		pl = &payload.InvokeCode{Code: rapid.SliceOfN(rapid.Byte(), 0, 60).Draw(t, "wcode")}
	default:
		ty = types.Deploy
		vmt := payload.NEOVM_TYPE
		code := rapid.SliceOfN(rapid.Byte(), 1, 60).Draw(t, "dcode")
		if kind >= 8 {
			tag("deploy-wasm")
			vmt = payload.WASMVM_TYPE
			code = append([]byte{0x00, 0x61, 0x73, 0x6d, 0x01, 0x00, 0x00, 0x00}, rapid.SliceOfN(rapid.Byte(), 0, 120).Draw(t, "wasmbody")...)
		} else {
			tag("deploy-neo")
		}
		dc, err := payload.NewDeployCode(code, vmt, "n", "v", "a", "e", "d")
		if err != nil {
			return nil, append(tags, "unbuildable")
		}
		pl = dc
	}
	if rng(t, 0, 14, "badtype") == 0 {
		ty = types.TransactionType(rng(t, 0, 255, "ty"))
		tag("odd-type")
	}
	sink.WriteByte(byte(ty))
	sink.WriteUint32(uint32(rng(t, 0, 65535, "nonce")))
	sink.WriteUint64(uint64(pick(t, []int{0, 500, 2500}, "gp")))
	sink.WriteUint64(uint64(pick(t, []int{0, 20000, 30000000}, "gl")))
	nsig := pick(t, []int{0, 1, 1, 1, 1, 1, 2, 2, 3, 5, 16, 17}, "nsig")
	type signer struct {
		keys []int
		m    int
	}
	var sg []signer
	for i := 0; i < nsig; i++ {
		if rng(t, 0, 3, "multi") == 0 {
			n := rng(t, 2, 5, "mn")
			var ks []int
			for j := 0; j < n; j++ {
				ks = append(ks, rng(t, 0, 7, "mk"))
			}
			sg = append(sg, signer{ks, rng(t, 1, n, "mm")})
		} else {
			sg = append(sg, signer{[]int{rng(t, 0, zEth1, "sk")}, 1})
		}
	}
	payer := z[1].Address
	if len(sg) > 0 && len(sg[0].keys) == 1 && rng(t, 0, 5, "payerk") > 0 {
		payer = z[sg[0].keys[0]].Address
	}
	sink.WriteBytes(payer[:])
	pl.Serialization(sink)
	attrs := 0
	if rng(t, 0, 24, "oddattrs") == 0 {
		attrs = pick(t, []int{1, 255, 65536}, "attrs")
	}
	sink.WriteVarUint(uint64(attrs))
	unsigned := sink.Bytes()
	// the hash the signatures are made over
	probe := append(append([]byte{}, unsigned...), 0)
	var hash common.Uint256
	if ptx, err := types.TransactionFromRawBytes(probe); err == nil {
		hash = ptx.Hash()
	}
	out := common.NewZeroCopySink(nil)
	out.WriteBytes(unsigned)
	cnt := uint64(len(sg))
	if rng(t, 0, 9, "sigcount") == 0 {
		cnt = hostileU64(t, len(sg))
		tag("hostile-sig-count")
	}
	out.WriteVarUint(cnt)
	for _, s := range sg {
		var sigs [][]byte
		for i, k := range s.keys {
			if i >= s.m && rng(t, 0, 2, "extra-sig") > 0 {
				break
			}
			b, err := signature.Sign(z[k], hash[:])
			if err != nil {
				b = nil
			}
			switch rng(t, 0, 17, "sigmut") {
			case 0:
				b = nil
				tag("sig:empty")
			case 1:
				if len(b) > 0 {
					b = b[:rng(t, 0, len(b)-1, "cut")]
				}
				tag("sig:truncated")
			case 2:
				if len(b) > 0 { // change or insert the scheme byte
					b = append([]byte{byte(rng(t, 0, 12, "scheme"))}, b...)
				}
				tag("sig:scheme-prefixed")
			case 3:
				b = rapid.SliceOfN(rapid.Byte(), 0, 140).Draw(t, "junksig")
				tag("sig:junk")
			case 4:
				b = append(b, rapid.SliceOfN(rapid.Byte(), 1, 3).Draw(t, "tail")...)
				tag("sig:tail")
			case 5:
				if len(b) > 1 {
					b[0] = byte(rng(t, 0, 12, "scheme0"))
				}
				tag("sig:scheme-replaced")
			}
			sigs = append(sigs, b)
		}
		inv := &asm{} // invocation program: one push per signature (program.ProgramFromParams rejects empty data)
		for _, sb := range sigs {
			inv.pushBytes(sb)
		}
		out.WriteVarBytes(inv.b)
		// verification program
		var pks []keypair.PublicKey
		for _, k := range s.keys {
			pks = append(pks, z[k].PublicKey)
		}
		var verify []byte
		switch vm := rng(t, 0, 19, "vermut"); {
		case len(pks) == 1 && vm != 8 && vm != 9:
			verify = program.ProgramFromPubKey(pks[0])
		case len(pks) == 1 && vm == 8: // non-canonical key encoding: algorithm + curve label before a compressed P-256 key
			raw := keypair.SerializePublicKey(pks[0])
			if len(raw) == 33 {
				raw = append([]byte{0x12, 0x02}, raw...)
			}
			verify = append((&asm{}).pushBytes(raw).b, 0xac)
			tag("verify:alt-key-encoding")
		case len(pks) > 1 && vm <= 15:
			v, err := program.ProgramFromMultiPubKey(pks, s.m)
			if err != nil {
				v = rapid.SliceOfN(rapid.Byte(), 0, 40).Draw(t, "vjunk2")
			}
			verify = v
		case len(pks) > 1: // hand-made m-of-n program with hostile m / n
			a := &asm{}
			a.pushI(int64(pick(t, []int{0, 1, s.m, len(pks), len(pks) + 1, 17, 1024, 65535, 65536}, "hm")))
			for _, pk := range pks {
				a.pushBytes(keypair.SerializePublicKey(pk))
			}
			a.pushI(int64(pick(t, []int{0, 1, len(pks), len(pks) + 1, 17, 65535}, "hn")))
			verify = append(a.b, 0xae)
			tag("verify:hostile-m-n")
		default:
			verify = rapid.SliceOfN(rapid.Byte(), 0, 40).Draw(t, "vjunk")
			tag("verify:junk")
		}
		out.WriteVarBytes(verify)
	}
	raw = out.Bytes()
	if rng(t, 0, 7, "rawmut") == 0 {
		tag("mutated")
		raw = mutateBytes(t, raw)
	}
	tag(fmt.Sprintf("nsig:%d", nsig))
	return raw, tags
}

// chainIDParent is the EVM chain id both processes use (the configuration default; the solo
// fixture does not change it).
func chainIDParent() *big.Int { return chainID() }
