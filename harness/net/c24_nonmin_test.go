package net

// C24 non-minimal length prefixes.
//
// Every var-uint count and every var-bytes / var-string length prefix of every message kind is
// known to the reference encoder (pb.counts, kind cVar). This test re-encodes 1-3 of them in a wider
// form than the shortest one (FD xx xx, FE xx xx xx xx, FF + 8 bytes) WITHOUT changing their value,
// frames the payload with a correct length and checksum and hands it to ReadMessage.
//
// Oracle (the property's clause "returns a message whose re-serialization reproduces the payload,
// or returns an error"): the frame is rejected, or the returned message re-serializes to exactly the
// frame that was received. Nothing but the width of length prefixes differs from a payload that the
// round-trip test shows to decode, so an accepted frame whose re-serialization differs is a second
// wire encoding of the same (possibly signed) message.

import (
	"bytes"
	"encoding/binary"
	"encoding/hex"
	"encoding/json"
	"fmt"
	"os"
	"sort"
	"strings"
	"testing"

	pcom "github.com/ontio/ontology/p2pserver/common"
	"pgregory.net/rapid"

	"verifharness/internal/harn"
)

// widening is one non-shortest encoding of a var-uint.
type widening struct {
	form string // "fd", "fe", "ff"
	enc  []byte
}

// widenings lists every encoding of c.Val that is longer than the one in the payload.
func widenings(c cmark) (out []widening) {
	if c.Kind != cVar {
		return nil
	}
	if c.Width < 3 && c.Val <= 0xffff {
		out = append(out, widening{"fd", binary.LittleEndian.AppendUint16([]byte{0xfd}, uint16(c.Val))})
	}
	if c.Width < 5 && c.Val <= 0xffffffff {
		out = append(out, widening{"fe", binary.LittleEndian.AppendUint32([]byte{0xfe}, uint32(c.Val))})
	}
	if c.Width < 9 {
		out = append(out, widening{"ff", binary.LittleEndian.AppendUint64([]byte{0xff}, c.Val)})
	}
	return
}

// varFields: indices (into p.counts) of the var-uint fields, grouped by field class, classes sorted.
func varFields(p *pb) (classes []string, byClass map[string][]int) {
	byClass = map[string][]int{}
	for i, c := range p.counts {
		if c.Kind != cVar {
			continue
		}
		fc := fieldClass(c.Name)
		if _, ok := byClass[fc]; !ok {
			classes = append(classes, fc)
		}
		byClass[fc] = append(byClass[fc], i)
	}
	sort.Strings(classes)
	return
}

// withCounts re-encodes several count fields at once (repl: index into p.counts -> new encoding).
func (p *pb) withCounts(repl map[int][]byte) []byte {
	idx := make([]int, 0, len(repl))
	for i := range repl {
		idx = append(idx, i)
	}
	sort.Slice(idx, func(a, b int) bool { return p.counts[idx[a]].Off < p.counts[idx[b]].Off })
	out := make([]byte, 0, len(p.b)+9*len(repl))
	pos := 0
	for _, i := range idx {
		c := p.counts[i]
		out = append(out, p.b[pos:c.Off]...)
		out = append(out, repl[i]...)
		pos = c.Off + c.Width
	}
	return append(out, p.b[pos:]...)
}

// c24uni: uniform choice in [0,n) from unbiased bits (rapid's integer generators favour small values,
// which would starve the later fields of a message).
func c24uni(t *rapid.T, n int, label string) int {
	if n <= 1 {
		return 0
	}
	v := 0
	for i, b := range rapid.SliceOfN(rapid.Bool(), 16, 16).Draw(t, label) {
		if b {
			v |= 1 << uint(i)
		}
	}
	return v % n
}

// cmdsWithVarFields: kinds whose payload has at least one var-uint count or var-bytes/var-string
// length prefix (addr and inv have fixed-width counts only; they are covered by HostileCounts).
var cmdsWithVarFields = []string{pcom.VERSION_TYPE, pcom.HEADERS_TYPE, pcom.BLOCK_TYPE, pcom.TX_TYPE, pcom.CONSENSUS_TYPE,
	pcom.FINDNODE_RESP_TYPE, pcom.UPDATE_KADID_TYPE, pcom.GET_SUBNET_MEMBERS_TYPE, pcom.SUBNET_MEMBERS_TYPE, pcom.SUBNET_OFFLINE_TYPE}

// nonminFloors: (kind, field class) pairs the non-triviality of this test relies on, with the share of
// all judged frames each must reach. Measured shares (quick tier) are 3-30 times the floor.
var nonminFloors = []struct {
	cmd, field string
	share      float64
}{
	{pcom.CONSENSUS_TYPE, "cons.data.len", 0.01}, {pcom.CONSENSUS_TYPE, "cons.owner.len", 0.01}, {pcom.CONSENSUS_TYPE, "cons.sig.len", 0.01},
	{pcom.VERSION_TYPE, "softversion.len", 0.01},
	{pcom.HEADERS_TYPE, "hdr.conspayload.len", 0.004}, {pcom.HEADERS_TYPE, "hdr.bookkeepers", 0.004}, {pcom.HEADERS_TYPE, "hdr.bk.len", 0.004},
	{pcom.HEADERS_TYPE, "hdr.sigs", 0.004}, {pcom.HEADERS_TYPE, "hdr.sig.len", 0.004},
	{pcom.BLOCK_TYPE, "blk.hdr.conspayload.len", 0.002}, {pcom.BLOCK_TYPE, "blk.hdr.bookkeepers", 0.002}, {pcom.BLOCK_TYPE, "blk.hdr.bk.len", 0.002},
	{pcom.BLOCK_TYPE, "blk.hdr.sigs", 0.002}, {pcom.BLOCK_TYPE, "blk.hdr.sig.len", 0.002},
	{pcom.BLOCK_TYPE, "blk.tx.attrs", 0.002}, {pcom.BLOCK_TYPE, "blk.tx.sigcount", 0.002}, {pcom.BLOCK_TYPE, "blk.tx.invoke.code.len", 0.001},
	{pcom.BLOCK_TYPE, "blk.tx.sig.invoke.len", 0.001}, {pcom.BLOCK_TYPE, "blk.tx.sig.verify.len", 0.001},
	{pcom.BLOCK_TYPE, "ccmsg.siglen", 0.002}, {pcom.BLOCK_TYPE, "ccmsg.sig.len", 0.002},
	{pcom.TX_TYPE, "tx.attrs", 0.004}, {pcom.TX_TYPE, "tx.sigcount", 0.004}, {pcom.TX_TYPE, "tx.invoke.code.len", 0.002},
	{pcom.TX_TYPE, "tx.deploy.code.len", 0.001}, {pcom.TX_TYPE, "tx.deploy.name.len", 0.001}, {pcom.TX_TYPE, "tx.eip1.rlp.len", 0.002},
	{pcom.TX_TYPE, "tx.sig.invoke.len", 0.002}, {pcom.TX_TYPE, "tx.sig.verify.len", 0.002},
	{pcom.FINDNODE_RESP_TYPE, "resp.addr.len", 0.01}, {pcom.FINDNODE_RESP_TYPE, "resp.closer.addr.len", 0.01},
	{pcom.UPDATE_KADID_TYPE, "kad.key.len", 0.02},
	{pcom.GET_SUBNET_MEMBERS_TYPE, "req.key.len", 0.01}, {pcom.GET_SUBNET_MEMBERS_TYPE, "req.sig.len", 0.01},
	{pcom.SUBNET_MEMBERS_TYPE, "members.pk.len", 0.01}, {pcom.SUBNET_MEMBERS_TYPE, "members.addr.len", 0.01},
	{pcom.SUBNET_OFFLINE_TYPE, "offline.key.len", 0.004}, {pcom.SUBNET_OFFLINE_TYPE, "offline.proposer.len", 0.004}, {pcom.SUBNET_OFFLINE_TYPE, "offline.propsig.len", 0.004},
	{pcom.SUBNET_OFFLINE_TYPE, "offline.voter.idx.len", 0.002}, {pcom.SUBNET_OFFLINE_TYPE, "offline.voter.key.len", 0.002}, {pcom.SUBNET_OFFLINE_TYPE, "offline.voter.sig.len", 0.002},
}

func TestC24_NonMinimalPrefixes(t *testing.T) {
	setup()
	replayKnown()
	ev := c24ev()
	for _, f := range nonminFloors {
		ev.Floor("nonmin:"+f.cmd+":"+f.field, "nonmin", f.share)
	}
	ev.Floor("nonmin:err", "nonmin", 0.5)
	ev.Floor("nonmin:k2+", "nonmin", 0.1)
	for _, form := range []string{"fd", "fe", "ff"} {
		ev.Floor("nonmin:form:"+form, "nonmin", 0.15)
	}
	seen := map[string]int{}

	// one judges the payload of g with the prefixes in repl widened. It returns a non-empty
	// description of the violation, or "".
	one := func(g gm, repl map[int][]byte, forms map[int]string) (bad string, stream []byte, desc string) {
		idx := make([]int, 0, len(repl))
		for i := range repl {
			idx = append(idx, i)
		}
		sort.Ints(idx)
		var what []string
		for _, i := range idx {
			c := g.p.counts[i]
			what = append(what, fmt.Sprintf("%s@%d(=%d):%s", c.Name, c.Off, c.Val, forms[i]))
		}
		pay := g.p.withCounts(repl)
		stream = refFrame(g.cmd, pay)
		desc = fmt.Sprintf("nonmin %s [%s] in %s", g.cmd, strings.Join(what, " "), g.descr)
		v, excl := judgeGuarded(ev, stream)
		if excl {
			return "", stream, desc
		}
		if v.bad() {
			return fmt.Sprintf("verdict %s: %s", v.Kind, v.Detail), stream, desc
		}
		if v.Kind == "msg" {
			back, pan := encodeFrame(v.msg)
			if pan != nil || !bytes.Equal(back, stream) {
				return fmt.Sprintf("ReadMessage accepted a payload with a non-minimal length prefix, and the returned message does not re-serialize to the payload that was received (panic=%v)\n received      %s\n re-serialized %s",
					pan, hex.EncodeToString(clip(stream[24:], 600)), hex.EncodeToString(clip(back[min(24, len(back)):], 600))), stream, desc
			}
			ev.Class("nonmin:msg:" + g.cmd) // accepted and reproduced byte for byte (decoders that keep the raw bytes)
		}
		for _, i := range idx {
			fc := fieldClass(g.p.counts[i].Name)
			seen[g.cmd+":"+fc]++
			ev.Class("nonmin:" + g.cmd + ":" + fc)
			ev.Class("nonmin:form:" + forms[i])
		}
		if len(idx) >= 2 {
			ev.Class("nonmin:k2+")
		}
		ev.Class("nonmin:" + v.Kind)
		ev.Class("nonmin")
		ev.Case(true, desc)
		return "", stream, desc
	}

	if rp := os.Getenv("VERIF_REPLAY"); strings.HasSuffix(rp, ".case.json") {
		var saved struct {
			Case struct{ Stream, What string }
		}
		b, err := os.ReadFile(rp)
		if err != nil || json.Unmarshal(b, &saved) != nil {
			t.Fatalf("cannot read replay file %s: %v", rp, err)
		}
		stream, _ := hex.DecodeString(saved.Case.Stream)
		v := judge(stream)
		if v.bad() {
			t.Fatalf("replayed %s\n verdict %s: %s", saved.Case.What, v.Kind, v.Detail)
		}
		if v.Kind == "msg" {
			if back, pan := encodeFrame(v.msg); pan != nil || !bytes.Equal(back, stream) {
				t.Fatalf("replayed %s\n accepted, re-serialization differs (panic=%v): %x", saved.Case.What, pan, clip(back, 600))
			}
		}
		return
	}

	// (a) deterministic sweep: a few examples of every kind; every var-uint field of the example x
	// every wider form, one prefix at a time. The sweep is not cut short by a violation: every
	// violating (kind, field) pair is collected, so that one run shows the whole extent.
	type witness struct{ stream, desc, bad string }
	viol := map[string]witness{}
	nEx := harn.N(2, 10)
	for _, cmd := range cmdsWithVarFields {
		cmd := cmd
		gen := rapid.Custom(func(t *rapid.T) gm { return genMsgOf(t, cmd) })
		for s := 0; s < nEx; s++ {
			g := gen.Example(s*harn.Shards() + harn.Shard() + 101)
			// the unwidened payload must decode, so that a rejection is the widened prefix's doing
			if base := judge(refFrame(g.cmd, g.p.b)); base.Kind != "msg" {
				if g.cmd == pcom.SUBNET_OFFLINE_TYPE && knownOff && base.Kind == "err" {
					ev.Class("nonmin:base-rejected-known")
				} else {
					harn.Violation(t, "C24", map[string]string{"stream": hex.EncodeToString(refFrame(g.cmd, g.p.b)), "what": g.descr},
						"generated valid %s was not decoded: %s: %s", g.descr, base.Kind, base.Detail)
					return
				}
			}
			for i, c := range g.p.counts {
				for _, w := range widenings(c) {
					bad, stream, desc := one(g, map[int][]byte{i: w.enc}, map[int]string{i: w.form})
					if bad == "" {
						continue
					}
					key := g.cmd + ":" + fieldClass(c.Name)
					if old, ok := viol[key]; !ok || 2*len(stream) < len(old.stream) { // keep the shortest witness (old.stream is hex)
						viol[key] = witness{hex.EncodeToString(stream), desc, bad}
					}
				}
			}
		}
	}
	if len(viol) > 0 {
		var keys []string
		for k := range viol {
			keys = append(keys, k)
		}
		sort.Strings(keys)
		c := map[string]interface{}{"stream": viol[keys[0]].stream, "what": viol[keys[0]].desc}
		all := map[string]string{}
		for _, k := range keys {
			all[k] = viol[k].stream
			t.Logf("violating field %s: %s\n %s", k, viol[k].desc, viol[k].bad)
		}
		c["all_violating_fields"] = all
		harn.Violation(t, "C24", c, "non-minimal length prefixes are accepted and not reproduced in %d (kind:field) pairs %v; first: %s\n %s",
			len(keys), keys, viol[keys[0]].desc, viol[keys[0]].bad)
		return
	}

	// (b) random: uniformly drawn kind, 1-3 prefixes drawn uniformly over the field classes of the
	// generated message (then over the instances of the class), each in a drawn wider form.
	harn.Check(t, 2500, 80000, func(t *rapid.T) {
		g := genMsgOf(t, cmdsWithVarFields[c24uni(t, len(cmdsWithVarFields), "cmd")])
		classes, byClass := varFields(g.p)
		if len(classes) == 0 { // getmembers sent by a seed node has no variable field
			ev.Class("nonmin:novarfield")
			return
		}
		k := 1 + c24uni(t, 3, "k")
		repl, forms := map[int][]byte{}, map[int]string{}
		for j := 0; j < k; j++ {
			inst := byClass[classes[c24uni(t, len(classes), "class")]]
			i := inst[c24uni(t, len(inst), "instance")]
			ws := widenings(g.p.counts[i])
			if len(ws) == 0 { // a 2^32+ value already needs the widest form: cannot occur for lengths inside a 24 MiB frame
				continue
			}
			w := ws[c24uni(t, len(ws), "form")]
			repl[i], forms[i] = w.enc, w.form
		}
		if len(repl) == 0 {
			ev.Class("nonmin:nowidening")
			return
		}
		if bad, stream, desc := one(g, repl, forms); bad != "" {
			t.Fatalf("%s\n %s\n stream (%d bytes) %s", desc, bad, len(stream), hex.EncodeToString(clip(stream, 600)))
		}
	})

	var fields []string
	for f := range seen {
		fields = append(fields, f)
	}
	sort.Strings(fields)
	ev.Extra("nonminimal_prefix_fields_covered", len(fields))
	t.Logf("var-uint fields covered: %d %v", len(fields), fields)
}
