package vm

// Shared fixture of the vm package (C14, C15): a describable NeoVM value ("spec": a small graph of
// nodes with container identity, so that aliasing and back-edges can be expressed), rapid generators
// for it, the independent oracles over the description (cycle DFS, depth, canonical structural form,
// simulation of the one-path detector for the known-finding recognisers), the builder that turns a
// description into a real types.VmValue, the read-back of a real value into the canonical form, and
// the crash-isolating worker handler that executes the code under test in a child process.

import (
	"bytes"
	"crypto/sha256"
	"encoding/hex"
	"encoding/json"
	"fmt"
	"math/big"
	"os"
	"sort"
	"strings"
	"time"

	"github.com/ontio/ontology/common"
	"github.com/ontio/ontology/common/config"
	"github.com/ontio/ontology/common/log"
	"github.com/ontio/ontology/core/payload"
	"github.com/ontio/ontology/core/store/leveldbstore"
	"github.com/ontio/ontology/core/store/overlaydb"
	ctypes "github.com/ontio/ontology/core/types"
	"github.com/ontio/ontology/smartcontract"
	"github.com/ontio/ontology/smartcontract/service/native/ont"
	nutils "github.com/ontio/ontology/smartcontract/service/native/utils"
	scneovm "github.com/ontio/ontology/smartcontract/service/neovm"
	"github.com/ontio/ontology/smartcontract/storage"
	"github.com/ontio/ontology/vm/neovm/types"
	"pgregory.net/rapid"

	"verifharness/internal/harn"
	"verifharness/internal/iso"
)

// ---------------------------------------------------------------------------------------------
// description of a value

const (
	kBytes  = "b"
	kInt    = "i"
	kBool   = "o"
	kArray  = "a"
	kStruct = "s"
	kMap    = "m"
)

type node struct {
	K  string `json:"k"`
	B  []byte `json:"b,omitempty"`  // bytes payload
	I  string `json:"i,omitempty"`  // decimal integer
	O  bool   `json:"o,omitempty"`  // bool payload
	E  []int  `json:"e,omitempty"`  // element node ids (array/struct) or value node ids (map)
	MK []int  `json:"mk,omitempty"` // map key node ids (primitive nodes), parallel to E
}

// spec is a value graph: container nodes have identity (their id), so the same id referenced twice
// is aliasing and a reference to an ancestor is a cycle.
type spec struct {
	N    []node `json:"n"`
	Root int    `json:"r"`
}

func (n *node) container() bool { return n.K == kArray || n.K == kStruct || n.K == kMap }

func (s *spec) add(n node) int { s.N = append(s.N, n); return len(s.N) - 1 }

// neoBytes: shortest little-endian two's complement, zero = empty (independent reference).
func neoBytes(v *big.Int) []byte {
	if v.Sign() == 0 {
		return []byte{}
	}
	for n := 1; ; n++ {
		lim := new(big.Int).Lsh(big.NewInt(1), uint(8*n-1))
		if v.Cmp(lim) < 0 && v.Cmp(new(big.Int).Neg(lim)) >= 0 {
			m := new(big.Int).Set(v)
			if m.Sign() < 0 {
				m.Add(m, new(big.Int).Lsh(big.NewInt(1), uint(8*n)))
			}
			be := m.Bytes()
			out := make([]byte, n)
			for i := range be {
				out[len(be)-1-i] = be[i]
			}
			return out
		}
	}
}

func mustBig(dec string) *big.Int {
	v, ok := new(big.Int).SetString(dec, 10)
	if !ok {
		panic("harness: bad integer " + dec)
	}
	return v
}

// keyBytes is the map key string of a primitive node as the VM defines it (value as bytes).
func (s *spec) keyBytes(id int) []byte {
	n := &s.N[id]
	switch n.K {
	case kBytes:
		return n.B
	case kInt:
		return neoBytes(mustBig(n.I))
	case kBool:
		if n.O {
			return []byte{1}
		}
		return []byte{0}
	}
	panic("harness: container used as map key")
}

// sortedEntries returns the entry indices of a map node ordered by key bytes.
func (s *spec) sortedEntries(id int) []int {
	n := &s.N[id]
	idx := make([]int, len(n.E))
	for i := range idx {
		idx[i] = i
	}
	sort.Slice(idx, func(a, b int) bool {
		return bytes.Compare(s.keyBytes(n.MK[idx[a]]), s.keyBytes(n.MK[idx[b]])) < 0
	})
	return idx
}

// children in the order the serializer visits them (map values in key order).
func (s *spec) children(id int) []int {
	n := &s.N[id]
	if n.K != kMap {
		return n.E
	}
	out := make([]int, 0, len(n.E))
	for _, i := range s.sortedEntries(id) {
		out = append(out, n.E[i])
	}
	return out
}

// ---------------------------------------------------------------------------------------------
// oracles over the description

// isCyclic: independent DFS (white/grey/black) over container edges from the root.
func (s *spec) isCyclic() bool {
	color := make([]byte, len(s.N))
	var dfs func(id int) bool
	dfs = func(id int) bool {
		if !s.N[id].container() {
			return false
		}
		switch color[id] {
		case 1:
			return true
		case 2:
			return false
		}
		color[id] = 1
		for _, c := range s.N[id].E {
			if dfs(c) {
				return true
			}
		}
		color[id] = 2
		return false
	}
	return dfs(s.Root)
}

// height (acyclic only): deepest depth index below a node; a primitive or empty container is 0.
func (s *spec) height(id int, memo map[int]int) int {
	if h, ok := memo[id]; ok {
		return h
	}
	h := 0
	n := &s.N[id]
	if n.container() {
		for _, c := range n.E {
			if x := 1 + s.height(c, memo); x > h {
				h = x
			}
		}
	}
	memo[id] = h
	return h
}

func (s *spec) maxDepth() int { return s.height(s.Root, map[int]int{}) }

// expanded (acyclic only): number of values and an upper estimate of serialized bytes of the
// value expanded as a tree (shared sub-values count once per reference).
func (s *spec) expanded(id int, memo map[int][2]int) (count, size int) {
	if r, ok := memo[id]; ok {
		return r[0], r[1]
	}
	n := &s.N[id]
	count, size = 1, 12
	switch n.K {
	case kBytes:
		size += len(n.B)
	case kInt:
		size += len(n.I)/2 + 2
	}
	if n.container() {
		for i, c := range n.E {
			cc, cs := s.expanded(c, memo)
			count += cc
			size += cs
			if n.K == kMap {
				kc, ks := s.expanded(n.MK[i], memo)
				count += kc
				size += ks
			}
		}
	}
	memo[id] = [2]int{count, size}
	return
}

// canon: canonical structural form of the value expanded as a tree; map entries ordered by key
// bytes; a reference to a value on the current path is written "<cycle>".
func (s *spec) canon() string {
	var sb strings.Builder
	s.writeCanon(&sb, s.Root, map[int]bool{})
	return sb.String()
}

func (s *spec) canonOf(id int) string {
	var sb strings.Builder
	s.writeCanon(&sb, id, map[int]bool{})
	return sb.String()
}

const canonCap = 3 << 20

func (s *spec) writeCanon(sb *strings.Builder, id int, onPath map[int]bool) {
	if sb.Len() > canonCap {
		return
	}
	n := &s.N[id]
	switch n.K {
	case kBytes:
		sb.WriteString("b'" + hex.EncodeToString(n.B) + "'")
	case kInt:
		sb.WriteString("i" + mustBig(n.I).String())
	case kBool:
		if n.O {
			sb.WriteString("T")
		} else {
			sb.WriteString("F")
		}
	default:
		if onPath[id] {
			sb.WriteString("<cycle>")
			return
		}
		onPath[id] = true
		switch n.K {
		case kArray, kStruct:
			if n.K == kStruct {
				sb.WriteString("s")
			}
			sb.WriteString("[")
			for i, c := range n.E {
				if i > 0 {
					sb.WriteString(",")
				}
				s.writeCanon(sb, c, onPath)
			}
			sb.WriteString("]")
		case kMap:
			sb.WriteString("{")
			for j, i := range s.sortedEntries(id) {
				if j > 0 {
					sb.WriteString(",")
				}
				s.writeCanon(sb, n.MK[i], onPath)
				sb.WriteString("=")
				s.writeCanon(sb, n.E[i], onPath)
			}
			sb.WriteString("}")
		}
		delete(onPath, id)
	}
}

// short description for evidence (bounded length).
func (s *spec) describe() string {
	c := s.canon()
	if len(c) > 420 {
		c = c[:420] + fmt.Sprintf("…(%d)", len(c))
	}
	return c
}

// --- simulation of a detector that follows ONE path (first element of arrays/structs, one
// arbitrary entry of maps) with the real depth rule (depth > 10 => rejected). It is used only by
// the known-finding recognisers (to exclude exactly the class of inputs affected by that root
// cause) and by the C15 generator to aim at order-dependent cases; never as an expected result.

const detDepthLimit = 10

func copySet(m map[int]bool) map[int]bool {
	c := make(map[int]bool, len(m)+1)
	for k := range m {
		c[k] = true
	}
	return c
}

// onePathMayMiss: some choice of map entries makes the one-path detector report "no cycle".
func (s *spec) onePathMayMiss(id int, visited map[int]bool, depth int) bool {
	if depth > detDepthLimit {
		return false
	}
	n := &s.N[id]
	switch n.K {
	case kArray, kStruct:
		if len(n.E) == 0 {
			return true
		}
		if visited[id] {
			return false
		}
		visited[id] = true
		return s.onePathMayMiss(n.E[0], visited, depth+1)
	case kMap:
		if visited[id] {
			return false
		}
		visited[id] = true
		if len(n.E) == 0 {
			return true
		}
		for _, c := range n.E {
			if s.onePathMayMiss(c, copySet(visited), depth+1) {
				return true
			}
		}
		return false
	}
	return true
}

// onePathMayDetect: some choice of map entries makes the one-path detector reject.
func (s *spec) onePathMayDetect(id int, visited map[int]bool, depth int) bool {
	if depth > detDepthLimit {
		return true
	}
	n := &s.N[id]
	switch n.K {
	case kArray, kStruct:
		if len(n.E) == 0 {
			return false
		}
		if visited[id] {
			return true
		}
		visited[id] = true
		return s.onePathMayDetect(n.E[0], visited, depth+1)
	case kMap:
		if visited[id] {
			return true
		}
		visited[id] = true
		for _, c := range n.E {
			if s.onePathMayDetect(c, copySet(visited), depth+1) {
				return true
			}
		}
		return false
	}
	return false
}

type onePathSim struct {
	s        *spec
	miss     map[int]bool // memo: may miss when detection starts at this node
	det      map[int]bool // memo: may detect when detection starts at this node
	native   bool         // BuildParamToNative walk: a map ends the walk with an error
	steps    int
	anyMay   bool // some visited node may detect (and none must)
	diverged bool
	rejected bool
	stack    []int // containers being serialized, outermost first
	loop     []int // when diverged by reaching a container that is still being serialized: the containers of that loop
}

func (p *onePathSim) mayMiss(id int) bool {
	if v, ok := p.miss[id]; ok {
		return v
	}
	v := p.s.onePathMayMiss(id, map[int]bool{}, 0)
	p.miss[id] = v
	return v
}

func (p *onePathSim) mayDetect(id int) bool {
	if v, ok := p.det[id]; ok {
		return v
	}
	v := p.s.onePathMayDetect(id, map[int]bool{}, 0)
	p.det[id] = v
	return v
}

// walk simulates the recursive serializer, which re-runs the detector at every visited value.
// It stops at the first node where the detector certainly rejects (rejected) or when a node on
// the current recursion stack is reached again without a certain rejection (diverged: with an
// unlucky/first-path-only detector the recursion never ends).
func (p *onePathSim) walk(id int, onStack map[int]bool) {
	if p.diverged || p.rejected {
		return
	}
	p.steps++
	if p.steps > 200000 {
		p.diverged = true // treat an explosive walk like a divergence (never reached within the generated bounds)
		return
	}
	n := &p.s.N[id]
	if !n.container() {
		return
	}
	if !p.mayMiss(id) {
		p.rejected = true
		return
	}
	if p.mayDetect(id) {
		p.anyMay = true
	}
	if p.native && n.K == kMap {
		p.rejected = true // maps are not marshalled: error
		return
	}
	if onStack[id] {
		p.diverged = true
		for i, x := range p.stack {
			if x == id {
				p.loop = append([]int{}, p.stack[i:]...)
				break
			}
		}
		return
	}
	onStack[id] = true
	p.stack = append(p.stack, id)
	for _, c := range p.s.children(id) {
		p.walk(c, onStack)
		if p.diverged || p.rejected {
			return
		}
	}
	p.stack = p.stack[:len(p.stack)-1]
	delete(onStack, id)
}

func (s *spec) simulate(id int, native bool) *onePathSim {
	p := &onePathSim{s: s, miss: map[int]bool{}, det: map[int]bool{}, native: native}
	p.walk(id, map[int]bool{})
	return p
}

// serMayDiverge: Serialize of the (cyclic) value may recurse without ever being rejected if the
// detector follows only one path per value.
func (s *spec) serMayDiverge() bool { return s.simulate(s.Root, false).diverged }
func (s *spec) natMayDiverge() bool { return s.simulate(s.Root, true).diverged }

// --- a.s. termination of the serializer on a cycle that the one-path detector can only see by
// chance. Serialize re-runs the detector (fresh random map-entry choices) at every value it visits,
// so when the serializer walks round a reference cycle, every round is another chance to reject.
//
// smallMapEntries: a Go map that never held more than 8 entries is one bucket (one group in the
// swiss-table runtime) whose iteration starts at a uniformly random slot, so `for range` yields each
// of its entries first with probability >= 1/8 whatever the hash seed. Larger maps give no such
// guarantee (an entry in an overflow bucket is never first), hence count as 0 here.
const smallMapEntries = 8

// detectLow: lower bound of the probability that the one-path detector started at id rejects
// (same walk as onePathMayDetect, weighted: single-entry map 1, map of 2..8 entries 1/8 per entry,
// larger map 0).
func (s *spec) detectLow(id int, visited map[int]bool, depth int) float64 {
	if depth > detDepthLimit {
		return 1
	}
	n := &s.N[id]
	switch n.K {
	case kArray, kStruct:
		if len(n.E) == 0 {
			return 0
		}
		if visited[id] {
			return 1
		}
		visited[id] = true
		return s.detectLow(n.E[0], visited, depth+1)
	case kMap:
		if visited[id] {
			return 1
		}
		visited[id] = true
		if len(n.E) == 0 || len(n.E) > smallMapEntries {
			return 0
		}
		w := 1.0 / smallMapEntries
		if len(n.E) == 1 {
			w = 1
		}
		sum := 0.0
		for _, c := range n.E {
			sum += w * s.detectLow(c, copySet(visited), depth+1)
		}
		return sum
	}
	return 0
}

// serLoopRejectLow: for a value on which the serializer walk comes back to a container it is still
// serializing without a certain rejection (simulate().diverged through a loop), a lower bound of the
// probability that ONE round of that loop ends with a rejection: the serializer calls the detector
// once per round on every container of the loop, so the best detectLow among them bounds it.
// ok is false when the walk does not end in such a loop.
func (s *spec) serLoopRejectLow() (low float64, ok bool) {
	p := s.simulate(s.Root, false)
	if !p.diverged || len(p.loop) == 0 {
		return 0, false
	}
	for _, id := range p.loop {
		if x := s.detectLow(id, map[int]bool{}, 0); x > low {
			low = x
		}
	}
	return low, true
}

// rejectLowMin: a cycle whose loop is rejected with probability >= 1/64 per round survives r rounds
// with probability <= (63/64)^r. Killing the worker takes 64 MiB of serializer frames (712 bytes
// each: > 94000 nested calls, i.e. > 8500 rounds of a loop of at most 11 containers - longer loops
// are rejected by the depth rule), so the probability is < 1e-50: such values must come back with
// an error, never with a dead process.
const rejectLowMin = 1.0 / 64

// roundsBound: with a rejection probability of at least low per round, more than 70/low rounds
// happen with probability < e^-70 (< 1e-30).
func roundsBound(low float64) int { return int(70/low) + 1 }

// cutSize: serialized size (reference encoding) of the value expanded as a tree with every reference
// to a container on the current path left out; at most `limit` is computed. One round of the
// serializer through a reference cycle writes at most this many bytes, and so does everything it
// writes before it enters the cycle.
func (s *spec) cutSize(limit int) int {
	total := 0
	var rec func(id int, onPath map[int]bool)
	rec = func(id int, onPath map[int]bool) {
		if total > limit {
			return
		}
		n := &s.N[id]
		if !n.container() {
			total += len(s.refEncode(nil, id))
			return
		}
		if onPath[id] {
			return
		}
		onPath[id] = true
		total += 1 + len(putVarUint(nil, uint64(len(n.E))))
		for i, c := range n.E {
			if n.K == kMap {
				rec(n.MK[i], onPath)
			}
			rec(c, onPath)
		}
		delete(onPath, id)
	}
	rec(s.Root, map[int]bool{})
	return total
}

// serRejectsAlmostSurely: the cycle can escape a single detector run, but Serialize is certain (up to
// a probability below 1e-50) to reject it within a few rounds.
func (s *spec) serRejectsAlmostSurely() bool {
	low, ok := s.serLoopRejectLow()
	return ok && low >= rejectLowMin
}

// serOrderDependent: with a detector that inspects one arbitrary map entry, Serialize of node id
// is accepted for some iteration orders and rejected for others.
func (s *spec) serOrderDependent(id int) bool {
	p := s.simulate(id, false)
	return !p.rejected && !p.diverged && p.anyMay
}

// ---------------------------------------------------------------------------------------------
// generators

var (
	two256   = new(big.Int).Lsh(big.NewInt(1), 256)
	maxVmInt = new(big.Int).Sub(two256, big.NewInt(1)) // largest magnitude with 32 bytes
)

func pow2(n uint) *big.Int { return new(big.Int).Lsh(big.NewInt(1), n) }

// genVmInt draws an integer a VmValue can hold (|v| <= 2^256-1), concentrated on edges.
func genVmInt(t *rapid.T) *big.Int {
	var v *big.Int
	switch rapid.IntRange(0, 4).Draw(t, "ikind") {
	case 0:
		v = big.NewInt(int64(rapid.IntRange(-20, 300).Draw(t, "small")))
	case 1:
		e := []int64{-1 << 63, -1<<63 + 1, 1<<63 - 1, 1<<63 - 2, -1 << 31, 1 << 31, 1<<32 - 1, 127, 128, -128, -129, 255, 256, 32767, 32768}
		v = big.NewInt(rapid.SampledFrom(e).Draw(t, "edge"))
	case 2:
		k := rapid.IntRange(1, 32).Draw(t, "k")
		v = pow2(uint(8*k - rapid.IntRange(0, 1).Draw(t, "half")))
		v.Add(v, big.NewInt(int64(rapid.IntRange(-2, 2).Draw(t, "d"))))
		if rapid.Bool().Draw(t, "neg") {
			v.Neg(v)
		}
	case 3:
		v = new(big.Int).Set(maxVmInt)
		v.Sub(v, big.NewInt(int64(rapid.IntRange(0, 2).Draw(t, "d"))))
		if rapid.Bool().Draw(t, "neg") {
			v.Neg(v)
		}
	default:
		b := rapid.SliceOfN(rapid.Byte(), 0, 32).Draw(t, "ibytes")
		v = new(big.Int).SetBytes(b)
		if rapid.Bool().Draw(t, "neg") {
			v.Neg(v)
		}
	}
	if v.CmpAbs(maxVmInt) > 0 {
		v = new(big.Int).Set(maxVmInt)
	}
	return v
}

func genPrimNode(t *rapid.T, big_ bool) node {
	switch rapid.IntRange(0, 9).Draw(t, "pkind") {
	case 0, 1, 2, 3:
		n := 0
		switch rapid.IntRange(0, 9).Draw(t, "blen") {
		case 0:
			n = 0
		case 1:
			if big_ {
				n = rapid.IntRange(200, 3000).Draw(t, "bn")
			} else {
				n = rapid.IntRange(33, 80).Draw(t, "bn")
			}
		default:
			n = rapid.IntRange(1, 34).Draw(t, "bn")
		}
		b := rapid.SliceOfN(rapid.Byte(), n, n).Draw(t, "b")
		if b == nil {
			b = []byte{}
		}
		return node{K: kBytes, B: b}
	case 4, 5, 6, 7:
		return node{K: kInt, I: genVmInt(t).String()}
	default:
		return node{K: kBool, O: rapid.Bool().Draw(t, "bool")}
	}
}

func genKeyNode(t *rapid.T) node {
	switch rapid.IntRange(0, 5).Draw(t, "kkind") {
	case 0, 1:
		n := rapid.IntRange(0, 5).Draw(t, "klen")
		b := rapid.SliceOfN(rapid.ByteRange('a', 'h'), n, n).Draw(t, "kb")
		if b == nil {
			b = []byte{}
		}
		return node{K: kBytes, B: b}
	case 2, 3:
		return node{K: kInt, I: big.NewInt(int64(rapid.IntRange(-3, 40).Draw(t, "ki"))).String()}
	case 4:
		return node{K: kInt, I: genVmInt(t).String()}
	default:
		return node{K: kBool, O: rapid.Bool().Draw(t, "kbool")}
	}
}

type genOpt struct {
	maxDepth int  // deepest allowed depth index (root = 0)
	budget   int  // bound on the number of values of the expanded tree
	alias    bool // allow DAG sharing of completed containers
	structs  bool
	maps     bool
	bigBytes bool
	wide     bool // occasionally wide containers
	spine    bool // force one chain of containers down to maxDepth
}

type doneC struct{ id, height, size int }

type gstate struct {
	t         *rapid.T
	s         *spec
	opt       genOpt
	remaining int
	done      []doneC
	parent    map[int]int // spanning-tree parent of container nodes (-1 for the root)
	depthOf   map[int]int
	aliases   int
	aliasPos  int // number of alias references placed at an element index > 0
}

func (g *gstate) prim() (int, int, int) {
	g.remaining--
	return g.s.add(genPrimNode(g.t, g.opt.bigBytes)), 0, 1
}

// freshKey draws a map key whose key bytes are not in seen (falls back to a synthetic one).
func (g *gstate) freshKey(seen map[string]bool, must bool) (int, bool) {
	for try := 0; try < 25; try++ {
		kn := genKeyNode(g.t)
		if try > 20 {
			kn = node{K: kBytes, B: []byte(fmt.Sprintf("zz%d", len(seen)))}
		}
		tmp := spec{N: []node{kn}}
		ks := string(tmp.keyBytes(0))
		if !seen[ks] {
			seen[ks] = true
			return g.s.add(kn), true
		}
		if !must {
			return 0, false
		}
	}
	return 0, false
}

// gen creates the sub-value at a depth; returns id, height and expanded size. With spine set the
// value is a non-empty container one of whose elements (at a generated index) continues the
// spine, so that the value reaches opt.maxDepth.
func (g *gstate) gen(depth, parent int, spine bool) (int, int, int) {
	t := g.t
	if depth >= g.opt.maxDepth || (g.remaining <= 2 && !spine) {
		if depth <= g.opt.maxDepth && rapid.IntRange(0, 7).Draw(t, "emptyc") == 0 {
			return g.emptyContainer(depth, parent)
		}
		return g.prim()
	}
	pc := 45
	if depth == 0 {
		pc = 8
	} else if depth < 3 {
		pc = 30
	}
	if !spine && rapid.IntRange(0, 99).Draw(t, "isprim") < pc {
		return g.prim()
	}
	kinds := []string{kArray, kArray}
	if g.opt.structs {
		kinds = append(kinds, kStruct)
	}
	if g.opt.maps {
		kinds = append(kinds, kMap, kMap)
	}
	k := rapid.SampledFrom(kinds).Draw(t, "ckind")
	id := g.s.add(node{K: k})
	g.parent[id] = parent
	g.depthOf[id] = depth
	g.remaining--
	cnt := rapid.IntRange(0, 5).Draw(t, "n")
	if g.opt.wide && rapid.IntRange(0, 19).Draw(t, "wide") == 0 {
		cnt = rapid.IntRange(6, 40).Draw(t, "nwide")
	}
	if lim := g.remaining / 2; cnt > lim {
		cnt = lim // keep within the budget (a map entry costs two values)
		if cnt < 0 {
			cnt = 0
		}
	}
	spineIdx := -1
	if spine {
		if cnt == 0 {
			cnt = 1
		}
		spineIdx = rapid.IntRange(0, cnt-1).Draw(t, "spineIdx")
	}
	height, size := 0, 1
	seenKeys := map[string]bool{}
	for i := 0; i < cnt && (g.remaining > 0 || i <= spineIdx); i++ {
		var mk int
		if k == kMap {
			var ok bool
			mk, ok = g.freshKey(seenKeys, i == spineIdx)
			if !ok {
				continue
			}
			g.remaining--
			size++
		}
		var cid, ch, cs int
		aliased := false
		if i != spineIdx && g.opt.alias && len(g.done) > 0 && rapid.IntRange(0, 99).Draw(t, "alias") < 22 {
			// candidates whose height fits below this depth and whose expanded size fits the budget
			var cand []doneC
			for _, d := range g.done {
				if depth+1+d.height <= g.opt.maxDepth && d.size <= g.remaining {
					cand = append(cand, d)
				}
			}
			if len(cand) > 0 {
				d := cand[rapid.IntRange(0, len(cand)-1).Draw(t, "aliasOf")]
				cid, ch, cs = d.id, d.height, d.size
				g.remaining -= d.size
				g.aliases++
				if len(g.s.N[id].E) > 0 {
					g.aliasPos++
				}
				aliased = true
			}
		}
		if !aliased {
			cid, ch, cs = g.gen(depth+1, id, i == spineIdx)
		}
		n := &g.s.N[id]
		n.E = append(n.E, cid)
		if k == kMap {
			n.MK = append(n.MK, mk)
		}
		if ch+1 > height {
			height = ch + 1
		}
		size += cs
	}
	g.done = append(g.done, doneC{id, height, size})
	return id, height, size
}

func (g *gstate) emptyContainer(depth, parent int) (int, int, int) {
	kinds := []string{kArray}
	if g.opt.structs {
		kinds = append(kinds, kStruct)
	}
	if g.opt.maps {
		kinds = append(kinds, kMap)
	}
	id := g.s.add(node{K: rapid.SampledFrom(kinds).Draw(g.t, "ekind")})
	g.parent[id] = parent
	g.depthOf[id] = depth
	g.remaining--
	g.done = append(g.done, doneC{id, 0, 1})
	return id, 0, 1
}

func newGState(t *rapid.T, opt genOpt) *gstate {
	return &gstate{t: t, s: &spec{}, opt: opt, remaining: opt.budget, parent: map[int]int{}, depthOf: map[int]int{}}
}

// genAcyclic draws an acyclic value (tree or DAG) within opt.
func genAcyclic(t *rapid.T, opt genOpt) *gstate {
	g := newGState(t, opt)
	id, _, _ := g.gen(0, -1, opt.spine)
	g.s.Root = id
	return g
}

// backEdge describes where a cycle was closed.
type backEdge struct {
	from, to  int // container holding the reference, referenced ancestor (or itself)
	index     int // element index (arrays/structs) or position in key order (maps)
	length    int // number of elements of `from` after insertion
	fromDepth int
	hops      int // number of levels the reference goes up (0 = self reference)
	viaStruct bool
	viaMap    bool
}

// addBackEdge inserts a reference to an ancestor (or to the container itself) at a generated
// element index of a generated container. firstOnly forces index 0 / keeps the option open.
func (g *gstate) addBackEdge(forceIndex int) (backEdge, bool) {
	t := g.t
	var cs []int
	for id := range g.s.N {
		if g.s.N[id].container() {
			if _, ok := g.parent[id]; ok {
				cs = append(cs, id)
			}
		}
	}
	if len(cs) == 0 {
		return backEdge{}, false
	}
	sort.Ints(cs)
	x := cs[rapid.IntRange(0, len(cs)-1).Draw(t, "beFrom")]
	// prefer deeper holders: redraw once towards depth
	if y := cs[rapid.IntRange(0, len(cs)-1).Draw(t, "beFrom2")]; g.depthOf[y] > g.depthOf[x] {
		x = y
	}
	hops := rapid.IntRange(0, g.depthOf[x]).Draw(t, "beHops")
	a := x
	be := backEdge{from: x, fromDepth: g.depthOf[x], hops: hops}
	path := []int{x}
	for i := 0; i < hops; i++ {
		a = g.parent[a]
		path = append(path, a)
	}
	be.to = a
	for _, p := range path {
		switch g.s.N[p].K {
		case kStruct:
			be.viaStruct = true
		case kMap:
			be.viaMap = true
		}
	}
	n := &g.s.N[x]
	if n.K == kMap {
		// new distinct key; its rank in key order is the position
		seen := map[string]bool{}
		for _, k := range n.MK {
			seen[string(g.s.keyBytes(k))] = true
		}
		kid, _ := g.freshKey(seen, true)
		n = &g.s.N[x]
		n.MK = append(n.MK, kid)
		n.E = append(n.E, a)
		for pos, i := range g.s.sortedEntries(x) {
			if i == len(n.E)-1 {
				be.index = pos
			}
		}
	} else {
		j := rapid.IntRange(0, len(n.E)).Draw(t, "beIndex")
		if forceIndex >= 0 && forceIndex <= len(n.E) {
			j = forceIndex
		}
		e := append([]int{}, n.E[:j]...)
		e = append(e, a)
		e = append(e, n.E[j:]...)
		n.E = e
		be.index = j
	}
	be.length = len(n.E)
	return be, true
}

// genDeep draws an acyclic value nested beyond the detector's depth limit: a chain of `levels`
// containers, the deeper child at a generated index among small siblings.
func genDeep(t *rapid.T, levels int, structs, maps bool) *spec {
	s := &spec{}
	cur := s.add(genPrimNode(t, false))
	for l := 0; l < levels; l++ {
		kinds := []string{kArray, kArray}
		if structs {
			kinds = append(kinds, kStruct)
		}
		if maps {
			kinds = append(kinds, kMap)
		}
		k := rapid.SampledFrom(kinds).Draw(t, "dkind")
		n := node{K: k}
		sib := rapid.IntRange(0, 3).Draw(t, "dsib")
		pos := rapid.IntRange(0, sib).Draw(t, "dpos")
		for i := 0; i <= sib; i++ {
			c := cur
			if i != pos {
				c = s.add(node{K: kInt, I: fmt.Sprint(i)})
			}
			n.E = append(n.E, c)
			if k == kMap {
				n.MK = append(n.MK, s.add(node{K: kInt, I: fmt.Sprint(i)}))
			}
		}
		cur = s.add(n)
	}
	s.Root = cur
	return s
}

// ---------------------------------------------------------------------------------------------
// real values: build from a description, read back into the canonical form

func buildValue(s *spec) (types.VmValue, error) {
	arrs := map[int]*types.ArrayValue{}
	strs := map[int]*types.StructValue{}
	maps := map[int]*types.MapValue{}
	for id := range s.N {
		switch s.N[id].K {
		case kArray:
			arrs[id] = types.NewArrayValue()
		case kStruct:
			strs[id] = types.NewStructValue()
		case kMap:
			maps[id] = types.NewMapValue()
		}
	}
	valOf := func(id int) (types.VmValue, error) {
		n := &s.N[id]
		switch n.K {
		case kBytes:
			return types.VmValueFromBytes(n.B)
		case kInt:
			return types.VmValueFromBigInt(mustBig(n.I))
		case kBool:
			return types.VmValueFromBool(n.O), nil
		case kArray:
			return types.VmValueFromArrayVal(arrs[id]), nil
		case kStruct:
			return types.VmValueFromStructVal(strs[id]), nil
		case kMap:
			return types.VmValueFromMapValue(maps[id]), nil
		}
		return types.VmValue{}, fmt.Errorf("bad node kind %q", n.K)
	}
	for id := range s.N {
		n := &s.N[id]
		for i, c := range n.E {
			v, err := valOf(c)
			if err != nil {
				return types.VmValue{}, err
			}
			switch n.K {
			case kArray:
				err = arrs[id].Append(v)
			case kStruct:
				err = strs[id].Append(v)
			case kMap:
				var k types.VmValue
				k, err = valOf(n.MK[i])
				if err == nil {
					err = maps[id].Set(k, v)
				}
			}
			if err != nil {
				return types.VmValue{}, err
			}
		}
	}
	return valOf(s.Root)
}

// vmCanon reads a real value back into the canonical form of spec.canon (independent structural
// equality: integers by value, maps by key set in key-byte order, containers by content).
func vmCanon(v types.VmValue) string {
	var sb strings.Builder
	writeVmCanon(&sb, v, map[interface{}]bool{}, 0)
	return sb.String()
}

func writeVmCanon(sb *strings.Builder, v types.VmValue, onPath map[interface{}]bool, depth int) {
	if sb.Len() > canonCap {
		return
	}
	if depth > 3000 {
		sb.WriteString("<deep>")
		return
	}
	switch v.GetType() {
	case types.ByteArrayType:
		b, _ := v.AsBytes()
		sb.WriteString("b'" + hex.EncodeToString(b) + "'")
	case types.IntegerType:
		x, err := v.AsBigInt()
		if err != nil {
			sb.WriteString("i?" + err.Error())
			return
		}
		sb.WriteString("i" + x.String())
	case types.BooleanType:
		b, _ := v.AsBool()
		if b {
			sb.WriteString("T")
		} else {
			sb.WriteString("F")
		}
	case types.ArrayType, types.StructType:
		var data []types.VmValue
		var key interface{}
		if v.GetType() == types.ArrayType {
			a, _ := v.AsArrayValue()
			data, key = a.Data, a
		} else {
			st, _ := v.AsStructValue()
			data, key = st.Data, st
			sb.WriteString("s")
		}
		if onPath[key] {
			sb.WriteString("<cycle>")
			return
		}
		onPath[key] = true
		sb.WriteString("[")
		for i := range data {
			if i > 0 {
				sb.WriteString(",")
			}
			writeVmCanon(sb, data[i], onPath, depth+1)
		}
		sb.WriteString("]")
		delete(onPath, key)
	case types.MapType:
		m, _ := v.AsMapValue()
		if onPath[m] {
			sb.WriteString("<cycle>")
			return
		}
		onPath[m] = true
		type ent struct {
			kb   []byte
			k, v types.VmValue
		}
		var ents []ent
		for _, e := range m.Data {
			kb, _ := e[0].AsBytes()
			ents = append(ents, ent{kb, e[0], e[1]})
		}
		sort.Slice(ents, func(i, j int) bool { return bytes.Compare(ents[i].kb, ents[j].kb) < 0 })
		sb.WriteString("{")
		for i, e := range ents {
			if i > 0 {
				sb.WriteString(",")
			}
			writeVmCanon(sb, e.k, onPath, depth+1)
			sb.WriteString("=")
			writeVmCanon(sb, e.v, onPath, depth+1)
		}
		sb.WriteString("}")
		delete(onPath, m)
	case types.InterfaceType:
		sb.WriteString("<interop>")
	default:
		sb.WriteString(fmt.Sprintf("<type %x>", v.GetType()))
	}
}

// ---------------------------------------------------------------------------------------------
// worker (child process): executes the code under test, reports plain facts; all judging is done
// by the parent.

type wreq struct {
	Op   string   `json:"op"` // ser | nat | deser | run
	Spec *spec    `json:"spec,omitempty"`
	Raw  []byte   `json:"raw,omitempty"`
	K    int      `json:"k,omitempty"`
	Full bool     `json:"full,omitempty"` // run: report outcomes unabridged (for reference oracles)
	Fund [][]byte `json:"fund,omitempty"` // run: 20-byte addresses that hold 100+i ONT in the prepared state
}

type wres struct {
	Bad     string   `json:"bad,omitempty"`   // harness-level problem (cannot build the value)
	Panic   string   `json:"panic,omitempty"` // recovered Go panic inside the code under test
	OK      bool     `json:"ok"`
	Err     string   `json:"err,omitempty"`
	ErrSize int      `json:"errsize,omitempty"` // bytes written to the sink when the encoder gave up
	Out     []byte   `json:"out,omitempty"`
	DeOK    bool     `json:"deok"`
	DeErr   string   `json:"deerr,omitempty"`
	DeCanon string   `json:"decanon,omitempty"`
	DeRest  int      `json:"derest"`
	Runs    []string `json:"runs,omitempty"`   // distinct outcomes of K runs (first-seen order)
	Counts  []int    `json:"counts,omitempty"` // how often each was seen
}

const workerName = "vm"

func init() {
	iso.Register(workerName, workerHandle)
}

func workerHandle(in []byte) (out []byte) {
	var rq wreq
	var rs wres
	defer func() {
		if r := recover(); r != nil {
			rs.Panic = fmt.Sprint(r)
			out, _ = json.Marshal(&rs)
		}
	}()
	if err := json.Unmarshal(in, &rq); err != nil {
		rs.Bad = "bad request: " + err.Error()
		out, _ = json.Marshal(&rs)
		return
	}
	switch rq.Op {
	case "ser", "nat":
		v, err := buildValue(rq.Spec)
		if err != nil {
			rs.Bad = "build: " + err.Error()
			break
		}
		sink := common.NewZeroCopySink(nil)
		if rq.Op == "ser" {
			err = v.Serialize(sink)
		} else {
			err = v.BuildParamToNative(sink)
		}
		if err != nil {
			rs.Err = err.Error()
			rs.ErrSize = int(sink.Size())
			break
		}
		rs.OK = true
		rs.Out = sink.Bytes()
		if rq.Op == "ser" {
			doDeserialize(&rs, rs.Out)
		}
	case "deser":
		doDeserialize(&rs, rq.Raw)
	case "run":
		runProgram(&rs, rq.Raw, rq.K, rq.Full, rq.Fund)
	default:
		rs.Bad = "unknown op " + rq.Op
	}
	out, _ = json.Marshal(&rs)
	return
}

func doDeserialize(rs *wres, raw []byte) {
	var v types.VmValue
	src := common.NewZeroCopySource(raw)
	if err := v.Deserialize(src); err != nil {
		rs.DeErr = err.Error()
		return
	}
	rs.DeOK = true
	rs.DeRest = int(src.Len())
	rs.DeCanon = vmCanon(v)
}

// --- program execution (C15) ---------------------------------------------------------------

var quietOnce bool
var emptyStore *leveldbstore.LevelDBStore

func quiet() {
	if !quietOnce {
		quietOnce = true
		log.InitLog(log.MaxLevelLog)
		config.DefConfig.P2PNode.NetworkId = config.NETWORK_ID_SOLO_NET
	}
}

var gasTable = map[string]uint64{
	scneovm.STORAGE_PUT_NAME:    scneovm.STORAGE_PUT_GAS,
	scneovm.STORAGE_GET_NAME:    scneovm.STORAGE_GET_GAS,
	scneovm.STORAGE_DELETE_NAME: scneovm.STORAGE_DELETE_GAS,
	scneovm.NATIVE_INVOKE_NAME:  scneovm.NATIVE_INVOKE_GAS,
}

// runOnce executes a NeoVM program as the entry script of an invocation in a fresh engine over a
// fresh state in which the script itself is a deployed contract (so that it may use storage), the
// way HandleInvokeTransaction does, and renders everything the property observes.
func runOnce(code []byte, fund [][]byte) (out string) {
	defer func() {
		if r := recover(); r != nil {
			out = fmt.Sprintf("PANIC %v", r)
		}
	}()
	quiet()
	if emptyStore == nil {
		// one empty, never written persistent store per process (a goleveldb instance owns goroutines
		// and buffers); every run gets its own overlay on top of it, so every run starts from the same state
		emptyStore = leveldbstore.NewMemLevelDBStore()
	}
	overlay := overlaydb.NewOverlayDB(emptyStore)
	cache := storage.NewCacheDB(overlay)
	dc, err := payload.NewDeployCode(code, payload.NEOVM_TYPE, "c", "1", "a", "e", "d")
	if err != nil {
		return "harness: deploy code: " + err.Error()
	}
	cache.PutContract(dc)
	for i, a := range fund {
		var addr common.Address
		copy(addr[:], a)
		cache.Put(ont.GenBalanceKey(nutils.OntContractAddress, addr), nutils.GenUInt64StorageItem(uint64(100+i)).ToArray())
	}
	cache.Commit()
	pre := map[string]bool{} // entries of the prepared state (the deployed script)
	overlay.GetWriteSet().ForEach(func(k, v []byte) { pre[hex.EncodeToString(k)+"="+hex.EncodeToString(v)] = true })
	cache = storage.NewCacheDB(overlay)
	sc := smartcontract.SmartContract{
		Config:   &smartcontract.Config{Time: 1600000000, Height: 100, Tx: &ctypes.Transaction{}},
		CacheDB:  cache,
		GasTable: gasTable,
		Gas:      100000000,
	}
	engine, err := sc.NewExecuteEngine(code, ctypes.InvokeNeo)
	if err != nil {
		return "harness: engine: " + err.Error()
	}
	res, err := engine.Invoke()
	var sb strings.Builder
	if err != nil {
		cache.Reset()
		sb.WriteString("ERR " + err.Error())
	} else {
		cache.Commit()
		sb.WriteString("OK ")
		if res == nil {
			sb.WriteString("<nil>")
		} else if v, ok := res.(*types.VmValue); ok && v != nil {
			sb.WriteString(vmCanon(*v))
		} else {
			sb.WriteString(fmt.Sprintf("<%T>", res))
		}
	}
	sb.WriteString(" | notify:")
	for _, n := range sc.Notifications {
		b, _ := json.Marshal(n.States)
		sb.WriteString(" " + n.ContractAddress.ToHexString() + ":" + string(b))
	}
	sb.WriteString(" | writes:")
	overlay.GetWriteSet().ForEach(func(k, v []byte) {
		if e := hex.EncodeToString(k) + "=" + hex.EncodeToString(v); !pre[e] {
			sb.WriteString(" " + e)
		}
	})
	if e := overlay.Error(); e != nil {
		sb.WriteString(" | dberr:" + e.Error())
	}
	return sb.String()
}

func runProgram(rs *wres, code []byte, k int, full bool, fund [][]byte) {
	idx := map[string]int{}
	for i := 0; i < k; i++ {
		o := runOnce(code, fund)
		if len(o) > 8192 && !full {
			// long outcomes (large serializations): keep the head, compare by digest
			d := sha256.Sum256([]byte(o))
			o = fmt.Sprintf("%s…(%d chars, sha256 %x)", o[:2048], len(o), d)
		}
		if j, ok := idx[o]; ok {
			rs.Counts[j]++
			continue
		}
		idx[o] = len(rs.Runs)
		rs.Runs = append(rs.Runs, o)
		rs.Counts = append(rs.Counts, 1)
	}
	rs.OK = true
}

// ---------------------------------------------------------------------------------------------
// parent side

type isoResult struct {
	res      wres
	died     bool
	timedOut bool
	diag     string
}

// newWorker starts the child and waits for its first answer with a generous limit: starting the
// test binary costs seconds of CPU (package initialisation of the wasm validator) and much more
// wall time on a loaded machine, which must not eat into the per-case wait.
func newWorker(ev *harn.Collector) *iso.Worker {
	w := iso.New(workerName)
	b, _ := json.Marshal(&wreq{Op: "deser", Raw: []byte{0x01, 0x01}})
	if r := w.Do(b, 10*time.Minute); r.TimedOut {
		ev.Class("timeout:worker-start")
	}
	return w
}

func callWorker(w *iso.Worker, rq *wreq) isoResult {
	b, err := json.Marshal(rq)
	if err != nil {
		panic("harness: marshal request: " + err.Error())
	}
	r := w.Do(b, 60*time.Second)
	if r.TimedOut {
		return isoResult{timedOut: true, diag: r.Diag}
	}
	if r.Died {
		return isoResult{died: true, diag: r.Diag}
	}
	var rs wres
	if err := json.Unmarshal(r.Out, &rs); err != nil {
		return isoResult{res: wres{Bad: "bad reply: " + err.Error()}}
	}
	return isoResult{res: rs}
}

func diagHead(s string) string {
	s = strings.TrimSpace(s)
	if i := strings.Index(s, "\n\n"); i > 0 && i < 400 && os.Getenv("VERIF_DIAG_FULL") == "" {
		s = s[:i]
	}
	if len(s) > 400 && os.Getenv("VERIF_DIAG_FULL") == "" {
		s = s[:400]
	}
	return strings.ReplaceAll(s, "\n", " / ")
}
