module verifharness

go 1.17
