package ledger

// C01 Ledger recovers to a state identical to an uncrashed run (fault enumeration).
//
// One generated chain is committed on a real ledger store. The verif crash-point hook copies the
// data directory at every named point of submitBlock of every block (what survives a process kill:
// all write()s done, nothing else). Every snapshot is reopened (recovery path), compared with the
// uncrashed run at its height, then fed the remaining blocks and compared again at every height.

import (
	"encoding/json"
	"fmt"
	"os"
	"os/exec"
	"path/filepath"
	"testing"

	"github.com/ontio/ontology/common"
	"github.com/ontio/ontology/core/store/ledgerstore"
	"github.com/ontio/ontology/core/types"
	nutils "github.com/ontio/ontology/smartcontract/service/native/utils"
	"pgregory.net/rapid"

	"verifharness/internal/fix"
	"verifharness/internal/harn"
)

type c01Obs struct {
	Hash      string
	StateRoot string
	BlockRoot string // root of the block merkle tree after this height (via GetBlockRootWithNewTxRoots)
	Bal       []string
	Events    []string
	Proofs    []string // block-merkle inclusion proofs of every height against the current root (read from the hash file by position)
}

func c01Observe(ls *ledgerstore.LedgerStoreImp, h uint32, accts []common.Address, txs []*types.Transaction) (c01Obs, error) {
	var o c01Obs
	if ls.GetCurrentBlockHeight() != h {
		return o, fmt.Errorf("height %d != %d", ls.GetCurrentBlockHeight(), h)
	}
	bh := ls.GetCurrentBlockHash()
	o.Hash = bh.ToHexString()
	sr, err := ls.GetStateMerkleRoot(h)
	if err != nil {
		return o, fmt.Errorf("GetStateMerkleRoot(%d): %v", h, err)
	}
	o.StateRoot = sr.ToHexString()
	probe := common.Uint256{1, 2, 3}
	br := ls.GetBlockRootWithNewTxRoots(h+1, []common.Uint256{probe})
	o.BlockRoot = br.ToHexString()
	for m := uint32(0); m <= h; m++ {
		pr, err := ls.GetMerkleProof(m, h)
		if err != nil {
			o.Proofs = append(o.Proofs, fmt.Sprintf("%d:err:%v", m, err))
			continue
		}
		ps := fmt.Sprintf("%d:", m)
		for _, x := range pr {
			ps += fmt.Sprintf("%x,", x[:6])
		}
		o.Proofs = append(o.Proofs, ps)
	}
	for _, a := range accts {
		for _, tok := range []common.Address{nutils.OntContractAddress, nutils.OngContractAddress} {
			v, err := ls.GetStorageItem(tok, a[:])
			if err != nil && err.Error() != "not found" && err.Error() != "leveldb: not found" {
				return o, fmt.Errorf("balance read: %v", err)
			}
			o.Bal = append(o.Bal, fmt.Sprintf("%x", v))
		}
	}
	for _, tx := range txs {
		n, err := ls.GetEventNotifyByTx(tx.Hash())
		if err != nil {
			o.Events = append(o.Events, "err:"+err.Error())
			continue
		}
		j, _ := json.Marshal(n)
		o.Events = append(o.Events, string(j))
	}
	return o, nil
}

type c01Tx struct {
	Tok      int // 0 ONT 1 ONG
	From, To int
	Amount   uint64
	GasPrice uint64
	Drain    bool // send the sender's whole balance as of the start of the block (the balance key gets deleted)
}

var c01Points = []string{"pre-block-commit", "post-block-commit", "post-event-commit", "post-state-commit"}

func TestC01_CrashPointRecovery(t *testing.T) {
	ev := harn.For("C01").SetLevel("fault_enumeration").
		Rule("chains of 2-6 blocks with 0-4 signed ONT/ONG transfers (zero, normal, over-balance, gas price 0 or 2500) among 4 accounts; for EVERY block and EVERY crash point (pre-block-commit after the eager merkle append, post-block, post-event, post-state) the live data dir is copied, reopened and compared with the uncrashed run (height, tip, state root, block root, balances, events, block-merkle inclusion proofs of every height), then continued with the remaining blocks; plus torn-tail truncation of merkle_tree.db on pre-block snapshots. Non-trivial = snapshot strictly between two of the three commits of a block carrying >=1 successful transfer; distinct by (chain, height, point)").
		Assume("cp -r of the live directory at a hook point equals the on-disk image after a process kill there (goleveldb writes its journal with write() per batch; the hash store uses os.File.Write); power-loss reordering of unsynced writes is out of scope")
	bk := fix.Key(fix.KP256, 0)
	users := []*fix.ZooKey{bk, fix.Key(fix.KP256, 1), fix.Key(fix.KP256, 2), fix.Key(fix.KP256, 3)}
	var accts []common.Address
	for _, u := range users {
		accts = append(accts, u.Address)
	}
	harn.Check(t, 10, 120, func(t *rapid.T) {
		nBlocks := rapid.IntRange(2, 6).Draw(t, "blocks")
		plan := make([][]c01Tx, nBlocks)
		for i := range plan {
			n := rapid.IntRange(0, 4).Draw(t, "ntx")
			if i == 0 && n == 0 {
				n = 1
			}
			for j := 0; j < n; j++ {
				from := rapid.IntRange(0, 3).Draw(t, "from")
				if i == 0 {
					from = 0 // only the bookkeeper is funded at the start
				}
				amt := rapid.OneOf(rapid.Uint64Range(0, 3), rapid.Uint64Range(1, 100000), rapid.Just(uint64(2000000000))).Draw(t, "amt")
				drain := i > 0 && from != 0 && rapid.IntRange(0, 2).Draw(t, "drain") == 0
				gp := rapid.SampledFrom([]uint64{0, 0, 2500}).Draw(t, "gp")
				if drain {
					gp = 0
				}
				plan[i] = append(plan[i], c01Tx{Tok: rapid.IntRange(0, 1).Draw(t, "tok"), From: from, To: rapid.IntRange(0, 3).Draw(t, "to"),
					Amount: amt, GasPrice: gp, Drain: drain})
			}
		}
		tornSeed := rapid.IntRange(1, 95).Draw(t, "torn")

		base, err := os.MkdirTemp("", "c01-")
		if err != nil {
			t.Fatal(err)
		}
		defer os.RemoveAll(base)
		ch, err := fix.NewSolo(filepath.Join(base, "live"), bk)
		if err != nil {
			t.Fatal(err)
		}
		defer func() { ledgerstore.VerifCrashHook = nil; ch.Close() }()

		type snap struct {
			dir    string
			height uint32
			point  string
		}
		var snaps []snap
		ledgerstore.VerifCrashHook = func(name string, height uint32) {
			d := filepath.Join(base, fmt.Sprintf("snap-%d-%s", height, name))
			if out, err := exec.Command("cp", "-r", ch.Dir, d).CombinedOutput(); err != nil {
				panic(fmt.Sprintf("cp: %v %s", err, out))
			}
			snaps = append(snaps, snap{d, height, name})
		}

		// uncrashed reference run (also produces the snapshots)
		ref := map[uint32]c01Obs{}
		var blocks []*types.Block
		txsAt := map[uint32][]*types.Transaction{}
		okTransfer := map[uint32]bool{}
		var allTxs []*types.Transaction
		o0, err := c01Observe(ch.LS, 0, accts, nil)
		if err != nil {
			t.Fatal(err)
		}
		ref[0] = o0
		for i := range plan {
			var txs []*types.Transaction
			for _, p := range plan[i] {
				tok := nutils.OntContractAddress
				if p.Tok == 1 {
					tok = nutils.OngContractAddress
				}
				amount := p.Amount
				if p.Drain {
					// whole balance as committed before this block: a successful drain deletes the balance key
					if v, _ := ch.LS.GetStorageItem(tok, users[p.From].Address[:]); len(v) == 8 {
						amount = uint64(v[0]) | uint64(v[1])<<8 | uint64(v[2])<<16 | uint64(v[3])<<24 | uint64(v[4])<<32 | uint64(v[5])<<40 | uint64(v[6])<<48 | uint64(v[7])<<56
						ev.Class("tx:drain-whole-balance")
					}
				}
				tx, err := ch.Transfer(tok, users[p.From], users[p.To].Address, amount, p.GasPrice, 20000)
				if err != nil {
					t.Fatal(err)
				}
				txs = append(txs, tx)
			}
			b, err := ch.MakeBlock(txs, 0)
			if err != nil {
				t.Fatal(err)
			}
			res, err := ch.Apply(b)
			if err != nil {
				t.Fatalf("reference run rejected generated block %d: %v", i+1, err)
			}
			for _, n := range res.Notify {
				if n.State == 1 {
					okTransfer[b.Header.Height] = true
				}
			}
			blocks = append(blocks, b)
			txsAt[b.Header.Height] = txs
			allTxs = append(allTxs, txs...)
			o, err := c01Observe(ch.LS, b.Header.Height, accts, allTxs)
			if err != nil {
				t.Fatal(err)
			}
			ref[b.Header.Height] = o
		}
		ledgerstore.VerifCrashHook = nil
		ch.Close()

		// torn-tail variants: truncate the merkle file of pre-block snapshots inside the last append
		for _, s := range append([]snap{}, snaps...) {
			if s.point != "pre-block-commit" || s.height == 0 {
				continue
			}
			prev := filepath.Join(base, fmt.Sprintf("snap-%d-%s", s.height-1, "post-state-commit"))
			mp := filepath.Join(s.dir, ledgerstore.MerkleTreeStorePath)
			st1, err1 := os.Stat(mp)
			st0, err0 := os.Stat(filepath.Join(prev, ledgerstore.MerkleTreeStorePath))
			if err0 != nil || err1 != nil || st1.Size() <= st0.Size() {
				continue
			}
			d := s.dir + "-torn"
			if out, err := exec.Command("cp", "-r", s.dir, d).CombinedOutput(); err != nil {
				t.Fatalf("cp: %v %s", err, out)
			}
			cut := st0.Size() + (st1.Size()-st0.Size())*int64(tornSeed)/100
			if err := os.Truncate(filepath.Join(d, ledgerstore.MerkleTreeStorePath), cut); err != nil {
				t.Fatal(err)
			}
			snaps = append(snaps, snap{d, s.height, "pre-block-commit+torn-merkle-tail"})
		}

		top := uint32(len(blocks))
		for _, s := range snaps {
			if s.height == 0 {
				os.RemoveAll(s.dir)
				continue
			}
			func() {
				c2 := &fix.Chain{Dir: s.dir, Genesis: ch.Genesis, BKs: ch.BKs, Signers: ch.Signers}
				if err := c2.Open(); err != nil {
					t.Fatalf("crash at height %d point %s: reopening the data directory fails: %v", s.height, s.point, err)
				}
				defer func() { c2.Close(); os.RemoveAll(s.dir) }()
				h := c2.LS.GetCurrentBlockHeight()
				if h != s.height && h != s.height-1 {
					t.Fatalf("crash at height %d point %s: recovered height %d is neither old nor new", s.height, s.point, h)
				}
				var seen []*types.Transaction
				for k := uint32(1); k <= h; k++ {
					seen = append(seen, txsAt[k]...)
				}
				cmp := func(h uint32, stage string) {
					want := ref[h]
					var upTo []*types.Transaction
					for k := uint32(1); k <= h; k++ {
						upTo = append(upTo, txsAt[k]...)
					}
					got, err := c01Observe(c2.LS, h, accts, upTo)
					if err != nil {
						t.Fatalf("crash at height %d point %s, %s: %v", s.height, s.point, stage, err)
					}
					want.Events = want.Events[:len(upTo)]
					if fmt.Sprint(got) != fmt.Sprint(want) {
						t.Fatalf("crash at height %d point %s, %s at height %d:\n got %+v\nwant %+v", s.height, s.point, stage, h, got, want)
					}
				}
				cmp(h, "state after recovery")
				for k := h + 1; k <= top; k++ {
					b := blocks[k-1]
					// delivered as a syncing node receives it
					raw := b.ToArray()
					b2, err := types.BlockFromRawBytes(raw)
					if err != nil {
						t.Fatal(err)
					}
					sr, _ := common.Uint256FromHexString(ref[k].StateRoot)
					if err := c2.LS.AddBlock(b2, nil, sr); err != nil {
						t.Fatalf("crash at height %d point %s: recovered ledger rejects block %d that the uncrashed node accepted: %v", s.height, s.point, k, err)
					}
					cmp(k, "continuation")
				}
				between := s.point == "post-block-commit" || s.point == "post-event-commit"
				ev.Case(between && okTransfer[s.height], fmt.Sprintf("plan=%v h=%d point=%s recovered=%d", plan, s.height, s.point, h))
				ev.Class("point:" + s.point)
				if h == s.height {
					ev.Class("recovered:new-height")
				} else {
					ev.Class("recovered:old-height")
				}
			}()
		}
	})
}
