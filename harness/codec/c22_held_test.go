package codec

// C22, held results. "Every address encodes to a base58 string that decodes to the same address" is a
// statement about the address alone: the text returned for one address (ToBase58 / ToHexString) and
// the address returned for one text (AddressFromBase58 / AddressFromHexString / AddressParseFromBytes)
// must not change because OTHER addresses are encoded or OTHER strings parsed later, and must not
// depend on what was processed before. Every returned string is kept untouched next to a private copy
// of its bytes while 1..8 further addresses - mostly RELATIVES of an earlier one (shared prefix or
// suffix of 1..19 bytes, one byte or one bit changed, reversed, complemented), which is what a memo
// table keyed by too little would confuse - go through the encoders and parsers, interleaved with
// rejected edits of the held texts and optionally followed by joined goroutines doing the same. Then
// the held strings are compared with their copies and the independent reference, parsed again, every
// address is encoded again (determinism against call history), and the []byte arguments of
// AddressParseFromBytes are overwritten (an Address is a value).

import (
	"bytes"
	"fmt"
	"strings"
	"sync"
	"testing"

	"github.com/ontio/ontology/common"
	"pgregory.net/rapid"

	"verifharness/internal/harn"
)

type c22Held struct {
	a               common.Address
	b58, hex        string // as returned
	b58Copy, hexCpy string // private copies of the bytes
	buf             []byte // argument of AddressParseFromBytes
	parsed          [3]common.Address
	how             string
}

func c22RefHex(a common.Address) string {
	var sb strings.Builder
	for i := 19; i >= 0; i-- {
		fmt.Fprintf(&sb, "%02x", a[i])
	}
	return sb.String()
}

// c22Run encodes and parses one address and checks the results against the reference at return time.
func c22Run(a common.Address, how string) (h *c22Held, msg string) {
	defer func() {
		if r := recover(); r != nil {
			msg = fmt.Sprintf("panic while encoding/parsing address %x: %v\n%s", a[:], r, c18Stack())
		}
	}()
	h = &c22Held{a: a, how: how}
	h.b58 = a.ToBase58()
	h.b58Copy = strings.Clone(h.b58)
	h.hex = a.ToHexString()
	h.hexCpy = strings.Clone(h.hex)
	if ref := c22RefEncode(23, a); h.b58Copy != ref {
		return h, fmt.Sprintf("ToBase58(%x) = %q, reference base58check %q", a[:], h.b58Copy, ref)
	}
	if ref := c22RefHex(a); h.hexCpy != ref {
		return h, fmt.Sprintf("ToHexString(%x) = %q, reference %q", a[:], h.hexCpy, ref)
	}
	var err [3]error
	h.parsed[0], err[0] = common.AddressFromBase58(h.b58Copy)
	h.parsed[1], err[1] = common.AddressFromHexString(h.hexCpy)
	h.buf = append([]byte{}, a[:]...)
	h.parsed[2], err[2] = common.AddressParseFromBytes(h.buf)
	for i, name := range []string{"AddressFromBase58", "AddressFromHexString", "AddressParseFromBytes"} {
		if err[i] != nil || h.parsed[i] != a {
			return h, fmt.Sprintf("%s of the encoding of %x (%s) = %x, err %v", name, a[:], how, h.parsed[i][:], err[i])
		}
	}
	return h, ""
}

func (h *c22Held) check(when string) (msg string) {
	defer func() {
		if r := recover(); r != nil {
			msg = fmt.Sprintf("panic while re-reading the results for %x %s: %v\n%s", h.a[:], when, r, c18Stack())
		}
	}()
	if h.b58 != h.b58Copy {
		return fmt.Sprintf("the string returned by ToBase58(%x) (%s) changed %s: was %q, is %q", h.a[:], h.how, when, h.b58Copy, h.b58)
	}
	if h.hex != h.hexCpy {
		return fmt.Sprintf("the string returned by ToHexString(%x) (%s) changed %s: was %q, is %q", h.a[:], h.how, when, h.hexCpy, h.hex)
	}
	for i := range h.parsed {
		if h.parsed[i] != h.a {
			return fmt.Sprintf("parsed address %d of %x changed %s: %x", i, h.a[:], when, h.parsed[i][:])
		}
	}
	// used again: the held text parses to its address, the address encodes to the held text
	if p, err := common.AddressFromBase58(h.b58); err != nil || p != h.a {
		return fmt.Sprintf("AddressFromBase58(%q) %s = %x, err %v; it is the encoding of %x (%s)", h.b58, when, p[:], err, h.a[:], h.how)
	}
	if p, err := common.AddressFromHexString(h.hex); err != nil || p != h.a {
		return fmt.Sprintf("AddressFromHexString(%q) %s = %x, err %v; want %x", h.hex, when, p[:], err, h.a[:])
	}
	a := h.a
	if s := a.ToBase58(); s != h.b58Copy {
		return fmt.Sprintf("ToBase58(%x) (%s) computed again %s = %q, before %q", h.a[:], h.how, when, s, h.b58Copy)
	}
	if s := a.ToHexString(); s != h.hexCpy {
		return fmt.Sprintf("ToHexString(%x) computed again %s = %q, before %q", h.a[:], when, s, h.hexCpy)
	}
	return ""
}

// c22GenRelative draws a fresh address or a relative of an earlier one.
func c22GenRelative(t *rapid.T, prev []common.Address) (a common.Address, how string) {
	if len(prev) == 0 || c25Uniform(t, 4, "fresh") == 0 {
		a, _ = c22GenAddr(t)
		return a, "fresh"
	}
	p := prev[c25Uniform(t, len(prev), "of")]
	a = p
	switch c25Uniform(t, 8, "relation") {
	case 0, 1: // shared prefix of k bytes, rest fresh
		k := 1 + c25Uniform(t, 19, "k")
		copy(a[k:], rapid.SliceOfN(rapid.Byte(), 20-k, 20-k).Draw(t, "tail"))
		how = fmt.Sprintf("prefix%d", k)
	case 2, 3: // shared suffix of k bytes
		k := 1 + c25Uniform(t, 19, "k")
		copy(a[:20-k], rapid.SliceOfN(rapid.Byte(), 20-k, 20-k).Draw(t, "head"))
		how = fmt.Sprintf("suffix%d", k)
	case 4:
		a[c25Uniform(t, 20, "at")] ^= 1 << uint(c25Uniform(t, 8, "bit"))
		how = "bit"
	case 5:
		a[c25Uniform(t, 20, "at")] += byte(1 + c25Uniform(t, 255, "delta"))
		how = "byte"
	case 6:
		for i := range a {
			a[i] = p[19-i]
		}
		how = "reversed"
	default:
		for i := range a {
			a[i] = ^p[i]
		}
		how = "complement"
	}
	return a, how + fmt.Sprintf(" of %x", p[:3])
}

func TestC22_HeldResults(t *testing.T) {
	ev := harn.For("C22").Rule(c22Rule)
	ev.Floor("held:distinct>=2", "held", 0.80)
	ev.Floor("held:later>=3", "held", 0.40)
	ev.Floor("held:concurrent", "held", 0.15)
	ev.Floor("held:related", "held", 0.50)
	harn.Check(t, 4000, 150000, func(t *rapid.T) {
		n := 2 + c25Uniform(t, 8, "further") // the first address is held over 1..8 further ones
		var held []*c22Held
		var addrs []common.Address
		var desc []string
		related := false
		add := func(h *c22Held) {
			held, addrs = append(held, h), append(addrs, h.a)
			desc = append(desc, fmt.Sprintf("%x(%s)", h.a[:], h.how))
			if h.how != "fresh" {
				related = true
			}
		}
		for i := 0; i < n; i++ {
			a, how := c22GenRelative(t, addrs)
			h, msg := c22Run(a, how)
			if msg != "" {
				t.Fatalf("%s", msg)
			}
			add(h)
			// noise: a rejected or foreign text derived from a held one goes through the parser
			switch c25Uniform(t, 6, "noise") {
			case 0, 1:
				e := []byte(held[c25Uniform(t, len(held), "which")].b58Copy)
				p := c25Uniform(t, len(e), "p") % len(e)
				e[p] = c22Alphabet[c25Uniform(t, 58, "c")]
				if msg, _ := c22Check(string(e)); msg != "" {
					t.Fatalf("substitution in a held text: %s", msg)
				}
				ev.Class("held:noise=subst")
			case 2:
				k := held[c25Uniform(t, len(held), "which")]
				if msg, ok := c22Check(" " + k.b58Copy); msg != "" || ok {
					t.Fatalf("padded text %q: %s accepted=%v", " "+k.b58Copy, msg, ok)
				}
				if _, err := common.AddressFromHexString(k.hexCpy[1:]); err == nil {
					t.Fatalf("39 hex digits accepted: %s", k.hexCpy[1:])
				}
				ev.Class("held:noise=malformed")
			}
		}
		for i, h := range held {
			if msg := h.check(fmt.Sprintf("after %d further addresses were encoded/parsed on the same goroutine", n-1-i)); msg != "" {
				t.Fatalf("%s\nsequence: %s", msg, strings.Join(desc, " ; "))
			}
		}

		conc := 0
		if c25Uniform(t, 3, "concurrent") == 0 {
			conc = 2 + c25Uniform(t, 3, "goroutines")
			type todoT struct {
				a   common.Address
				how string
			}
			todo := make([][]todoT, conc)
			for g := range todo {
				for k, m := 0, 1+c25Uniform(t, 3, "perG"); k < m; k++ {
					a, how := c22GenRelative(t, addrs)
					todo[g] = append(todo[g], todoT{a, how})
				}
			}
			res := make([][]*c22Held, conc)
			msgs := make([]string, conc)
			var wg sync.WaitGroup
			for g := range todo {
				wg.Add(1)
				go func(g int) {
					defer wg.Done()
					for _, x := range todo[g] {
						h, msg := c22Run(x.a, x.how)
						if msg != "" {
							msgs[g] = msg
							return
						}
						res[g] = append(res[g], h)
					}
				}(g)
			}
			wg.Wait()
			for g := range res {
				if msgs[g] != "" {
					t.Fatalf("goroutine %d of %d: %s", g, conc, msgs[g])
				}
				for _, h := range res[g] {
					add(h)
				}
			}
		}

		for _, h := range held {
			if msg := h.check("by the end of the case"); msg != "" {
				t.Fatalf("%s\nsequence: %s", msg, strings.Join(desc, " ; "))
			}
		}
		// caller-owned buffers
		for _, h := range held {
			for i := range h.buf {
				h.buf[i] ^= 0xA5
			}
		}
		for _, h := range held {
			want := append([]byte{}, h.a[:]...)
			for i := range want {
				want[i] ^= 0xA5
			}
			if h.parsed[2] != h.a || !bytes.Equal(h.buf, want) {
				t.Fatalf("AddressParseFromBytes result %x follows (or wrote to) its argument; want %x", h.parsed[2][:], h.a[:])
			}
		}

		distinct := map[common.Address]bool{}
		for _, h := range held[:n] {
			distinct[h.a] = true
		}
		ev.Class("held")
		ev.ClassN("held:addresses", int64(len(held)))
		if len(distinct) >= 2 {
			ev.Class("held:distinct>=2")
		}
		if related {
			ev.Class("held:related")
		}
		if n-1 >= 3 {
			ev.Class("held:later>=3")
		}
		if conc > 0 {
			ev.Class("held:concurrent")
		}
		d := fmt.Sprintf("held n=%d conc=%d %s", n, conc, strings.Join(desc, " ; "))
		if len(d) > 560 {
			d = d[:560] + fmt.Sprintf("..#%x", c19Sha256d([]byte(d)))[:24]
		}
		ev.Case(len(distinct) >= 2, d)
	})
}
