package vm

// C15 (continued): wide maps. The sorted-key helper that makes KEYS / VALUES / Serialize
// independent of Go's map iteration order must do so for EVERY map size: KEYS and VALUES fault
// once the result array would exceed MAX_ARRAY_SIZE (1024), but Serialize has no entry cap (only
// the 1 MiB output limit), so maps far beyond 1024 entries reach it. Programs build one map whose
// entry count is drawn around the sizes the code knows (3, 1023, 1024, 1025, 1026, 1100, 2048,
// arbitrary counts, and in a few cases up to and beyond what fits into 1 MiB), with generated
// distinct keys of 0–3 bytes, optionally nested one level inside an array / struct / map, then run
// 1–3 actions (Serialize, storage put / notify of the bytes, Serialize∘Deserialize∘Serialize, KEYS,
// VALUES, HASKEY, PICKITEM on a generated key). Same oracle as the other C15 tests: K executions
// in fresh engines over identical state must agree (K = 5: an unsorted map of more than 1024
// entries yields a different byte string in almost every execution).

import (
	"fmt"
	"strings"
	"testing"

	"github.com/ontio/ontology/vm/neovm"
	"pgregory.net/rapid"

	"verifharness/internal/harn"
)

const c15WideRule = "wide maps: one map with n entries, n from {3,1023,1024,1025,1026,1100,2048} ∪ [2,1030] ∪ [1025,6000] (few up to 150000, i.e. across the 1 MiB serialization limit), distinct generated keys of 0–3 bytes ((i·mult+add) mod 2^24, little-endian, trailing zeros stripped; maps of >= 6000 entries are filled by an in-program loop with the integer keys n..1), bool or small-int values, optionally nested one level in an array/struct/map, followed by 1–3 of Serialize / put / notify / re-serialize / KEYS / VALUES / HASKEY / PICKITEM; 5 executions must agree; non-trivial = a map with >= 2 entries reaches Serialize, KEYS or VALUES; distinct = different (n, key parameters, nesting, actions)"

func wideKey(i, mult, add int) []byte {
	v := (i*mult + add) & 0xffffff
	b := []byte{byte(v), byte(v >> 8), byte(v >> 16)}
	for len(b) > 0 && b[len(b)-1] == 0 {
		b = b[:len(b)-1]
	}
	return b
}

func TestC15_WideMaps(t *testing.T) {
	ev := harn.For("C15").Rule(c15WideRule)
	ev.Assume("fresh in-memory state (overlay over an empty memory store with the script deployed as a contract) is the same state for every run")
	ev.Floor("wide:n>1024", "wide", 0.40)
	ev.Floor("wide:n>1024+serialize", "wide", 0.25)
	ev.Floor("wide:n<=1024", "wide", 0.15)
	ev.Floor("wide:nested", "wide", 0.20)
	ev.Floor("result:ok", "wide", 0.30)
	w := newWorker(ev)
	defer w.Close()
	const K = 5

	harn.Check(t, 200, 6000, func(t *rapid.T) {
		var n int
		switch k := rapid.IntRange(0, 19).Draw(t, "nkind"); {
		case k < 9:
			n = rapid.SampledFrom([]int{3, 1023, 1024, 1025, 1026, 1100, 2048}).Draw(t, "nfixed")
		case k < 12:
			n = rapid.IntRange(2, 1030).Draw(t, "nsmall")
		case k < 19:
			n = rapid.IntRange(1025, 6000).Draw(t, "nwide")
		default:
			hi := 30000
			if harn.Thorough() {
				hi = 200000 // beyond what fits into the 1 MiB serialization limit (~130000 entries)
			}
			n = rapid.IntRange(6000, hi).Draw(t, "nhuge")
		}
		mult := 2*rapid.IntRange(0, 1<<23-1).Draw(t, "mult") + 1 // odd: i -> i*mult+add is a bijection mod 2^24
		add := rapid.IntRange(0, 1<<24-1).Draw(t, "add")
		valKind := rapid.IntRange(0, 1).Draw(t, "valKind")
		nest := rapid.SampledFrom([]string{"", "", kArray, kStruct, kMap}).Draw(t, "nest")

		s := &spec{}
		var vals []int
		if valKind == 0 {
			vals = []int{s.add(node{K: kBool, O: false}), s.add(node{K: kBool, O: true})}
		} else {
			for i := 0; i < 7; i++ {
				vals = append(vals, s.add(node{K: kInt, I: fmt.Sprint(i)}))
			}
		}
		m := s.add(node{K: kMap})
		var mk, me []int
		for i := 0; i < n && n < 6000; i++ {
			mk, me = append(mk, 0), append(me, 0)
			mk[i] = s.add(node{K: kBytes, B: wideKey(i, mult, add)})
			me[i] = vals[i%len(vals)]
		}
		// maps of 6000 and more entries are filled by a loop inside the program (keys = the integers
		// n..1, i.e. 1–3 key bytes): straight-line code for them would exceed the 1 MiB contract size
		loopBuilt := n >= 6000
		if loopBuilt {
			// the description only carries a few existing keys for PICKITEM / HASKEY
			s.N[m].MK = []int{s.add(node{K: kInt, I: "1"}), s.add(node{K: kInt, I: fmt.Sprint(n)}), s.add(node{K: kInt, I: fmt.Sprint(n/2 + 1)})}
		} else {
			s.N[m].MK, s.N[m].E = mk, me
		}
		s.Root = m
		switch nest {
		case kArray, kStruct:
			pos := rapid.IntRange(0, 2).Draw(t, "nestPos")
			var e []int
			for i := 0; i < 3; i++ {
				if i == pos {
					e = append(e, m)
				} else {
					e = append(e, vals[i%len(vals)])
				}
			}
			s.Root = s.add(node{K: nest, E: e})
		case kMap:
			k1 := s.add(node{K: kBytes, B: []byte("a")})
			k2 := s.add(node{K: kBytes, B: []byte("wide")})
			s.Root = s.add(node{K: kMap, MK: []int{k1, k2}, E: []int{vals[0], m}})
		}
		sh := shape{s: s, kind: "wide", maps: []int{m}, acyclic: true}
		c := compileValue(s)
		if loopBuilt {
			c.pushBytes(neoBytes(mustBig(fmt.Sprint(n))))
			c.op(neovm.PUSH0)
			c.op(neovm.ADD) // i = n as an integer
			loop := len(c.code)
			c.op(neovm.DUP)
			jz := len(c.code)
			c.op(neovm.JMPIFNOT)
			c.code = append(c.code, 0, 0)
			c.ref(m)
			c.op(neovm.OVER)
			c.op(neovm.PUSH1)
			c.op(neovm.SETITEM) // m[i] = 1
			c.op(neovm.DEC)
			back := loop - len(c.code)
			c.op(neovm.JMP)
			c.code = append(c.code, byte(back), byte(back>>8))
			end := len(c.code) - jz
			c.code[jz+1], c.code[jz+2] = byte(end), byte(end>>8)
			c.op(neovm.DROP)
		}

		menu := []string{"serialize", "serialize", "serialize-put", "serialize-notify", "reserialize", "keys", "values", "haskey", "pickitem"}
		nact := rapid.IntRange(1, 3).Draw(t, "nact")
		var acts []action
		serializes, orderOps := false, false
		for i := 0; i < nact; i++ {
			a := action{name: rapid.SampledFrom(menu).Draw(t, "act"), target: m}
			switch a.name {
			case "serialize", "serialize-put", "serialize-notify", "reserialize":
				serializes, orderOps = true, true
				if rapid.Bool().Draw(t, "ofRoot") {
					a.target = s.Root
				}
			case "keys", "values":
				orderOps = true
			}
			acts = append(acts, a)
		}
		for i, a := range acts {
			c.emitAction(t, &sh, a, i == len(acts)-1)
		}
		var names []string
		for _, a := range acts {
			names = append(names, fmt.Sprintf("%s(#%d)", a.name, a.target))
		}
		desc := fmt.Sprintf("wide n=%d keys=(i*%d+%d)&0xffffff vals=%d nest=%q %s code=%d bytes", n, mult, add, valKind, nest, strings.Join(names, ";"), len(c.code))

		r := callWorker(w, &wreq{Op: "run", Raw: c.code, K: K})
		if r.timedOut {
			ev.Class("timeout")
			return
		}
		if r.died {
			t.Fatalf("the process executing the program DIED (%s); program %s", diagHead(r.diag), desc)
		}
		if r.res.Bad != "" || len(r.res.Runs) == 0 {
			t.Fatalf("harness error (not a finding): %s", r.res.Bad)
		}
		if r.res.Panic != "" {
			t.Fatalf("panic while executing the program: %s; program %s", r.res.Panic, desc)
		}
		for _, o := range r.res.Runs {
			if strings.HasPrefix(o, "harness:") {
				t.Fatalf("harness error (not a finding): %s", o)
			}
		}
		obs, counts, _ := distinctObservable(r.res)
		if len(obs) > 1 {
			var sb strings.Builder
			for i := range obs {
				sb.WriteString(fmt.Sprintf("\n  %d× %s", counts[i], clipOutcome(obs[i])))
			}
			t.Fatalf("%d executions of the same program on the same state gave %d different results:%s\nprogram: %s", K, len(obs), sb.String(), desc)
		}
		ev.Class("wide")
		ev.Class("ran")
		if n > 1024 {
			ev.Class("wide:n>1024")
			if serializes {
				ev.Class("wide:n>1024+serialize")
			}
		} else {
			ev.Class("wide:n<=1024")
		}
		if n >= 6000 {
			ev.Class("wide:n>=6000")
		}
		if nest != "" {
			ev.Class("wide:nested")
		}
		if strings.HasPrefix(obs[0], "OK ") {
			ev.Class("result:ok")
		} else {
			ev.Class("result:err")
		}
		for _, a := range acts {
			ev.Class("act:" + a.name)
		}
		ev.Case(orderOps && n >= 2, desc)
	})
}
