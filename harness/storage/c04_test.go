package storage

// C04 Layered contract storage behaves like one ordered key/value map.
//
// Real objects: storage.CacheDB (transaction cache) over overlaydb.OverlayDB (block overlay) over
// leveldbstore.LevelDBStore (in-memory goleveldb = the persistent store).
// Oracle: three plain maps (model_test.go). After every step every known key reads as in the model
// through the cache and through the overlay; every prefix iterator yields exactly the live keys of
// the prefix in ascending byte order with the newest value; Commit publishes exactly the cache's
// writes to the overlay, Reset drops them, an overlay commit moves them to the persistent store.

import (
	"bytes"
	"fmt"
	"strings"
	"testing"

	"github.com/ontio/ontology/core/store/leveldbstore"
	"github.com/ontio/ontology/core/store/overlaydb"
	"github.com/ontio/ontology/smartcontract/storage"
	"pgregory.net/rapid"

	"verifharness/internal/harn"
)

const c04MaxKey = 4

type c04World struct {
	store   *leveldbstore.LevelDBStore
	overlay *overlaydb.OverlayDB
	cache   *storage.CacheDB
	persist layer // live entries only
	ov, ca  layer
	log     []string
	nontriv bool
	ev      *harn.Collector
}

func (w *c04World) known() []string { return allKeys(w.ca, w.ov, w.persist) }

func (w *c04World) note(format string, args ...interface{}) {
	if len(w.log) < 80 {
		w.log = append(w.log, fmt.Sprintf(format, args...))
	}
}

func (w *c04World) state() string {
	return fmt.Sprintf("model: cache=%s overlay=%s persistent=%s; history: %s", fmtLayer(w.ca), fmtLayer(w.ov), fmtLayer(w.persist), strings.Join(w.log, ";"))
}

// checkCacheIter compares CacheDB.NewIterator(prefix) with the model.
func (w *c04World) checkCacheIter(t *rapid.T, prefix string, class string) {
	gotK, gotV, err := drain(w.cache.NewIterator([]byte(prefix)))
	if err != nil {
		t.Fatalf("CacheDB.NewIterator(%x): iterator error %v; %s", prefix, err, w.state())
	}
	wantK, wantV := liveWithPrefix(prefix, w.ca, w.ov, w.persist)
	if !sameSeq(gotK, gotV, wantK, wantV) {
		t.Fatalf("CacheDB.NewIterator(%x) yields %s, want exactly the live keys in ascending order with newest values %s; %s",
			prefix, fmtSeq(gotK, gotV), fmtSeq(wantK, wantV), w.state())
	}
	sh := shapeOf(prefix, w.ca, w.ov, w.persist)
	w.classify(class, sh)
}

func (w *c04World) classify(class string, sh iterShape) {
	ev := w.ev
	ev.Class(class)
	if sh.memN > 0 && sh.backN > 0 {
		ev.Class(class + ":both-sides")
	}
	if sh.memN == 0 && sh.backN == 0 {
		ev.Class(class + ":empty")
	}
	if sh.shadowed > 0 {
		ev.Class(class + ":shadowed")
	}
	if sh.tombOverLive > 0 {
		ev.Class(class + ":tomb-over-live")
	}
	if sh.firstIsTomb {
		ev.Class(class + ":first-is-tombstone")
	}
	if sh.memEndsFirst {
		ev.Class(class + ":mem-exhausted-first")
	}
	if sh.backEndsFirst {
		ev.Class(class + ":backend-exhausted-first")
	}
	if sh.nontrivial() {
		ev.Class(class + ":nontrivial")
		w.nontriv = true
	}
}

// checkOverlayIter compares OverlayDB.NewIterator(ST_STORAGE|prefix) with the model (cache invisible).
func (w *c04World) checkOverlayIter(t *rapid.T, prefix string, class string) {
	gotK, gotV, err := drain(w.overlay.NewIterator(storageKey(prefix)))
	if err != nil {
		t.Fatalf("OverlayDB.NewIterator(05|%x): iterator error %v; %s", prefix, err, w.state())
	}
	for i := range gotK {
		gotK[i] = gotK[i][1:]
	}
	wantK, wantV := liveWithPrefix(prefix, w.ov, w.persist)
	if !sameSeq(gotK, gotV, wantK, wantV) {
		t.Fatalf("OverlayDB.NewIterator(05|%x) yields %s, want %s (uncommitted cache writes must be invisible); %s",
			prefix, fmtSeq(gotK, gotV), fmtSeq(wantK, wantV), w.state())
	}
	w.classify(class, shapeOf(prefix, w.ov, w.persist))
}

// checkGets reads every known key (plus one extension of each) through cache and overlay.
func (w *c04World) checkGets(t *rapid.T) {
	for _, k := range w.known() {
		for _, kk := range []string{k, k + "a"} {
			got, err := w.cache.Get([]byte(kk))
			if err != nil {
				t.Fatalf("CacheDB.Get(%x): %v; %s", kk, err, w.state())
			}
			want, _ := lookup(kk, w.ca, w.ov, w.persist)
			if !bytes.Equal(got, want) {
				t.Fatalf("CacheDB.Get(%x) = %x, most recent write is %x; %s", kk, got, want, w.state())
			}
			got, err = w.overlay.Get(storageKey(kk))
			if err != nil {
				t.Fatalf("OverlayDB.Get(05|%x): %v; %s", kk, err, w.state())
			}
			want, _ = lookup(kk, w.ov, w.persist)
			if !bytes.Equal(got, want) {
				t.Fatalf("OverlayDB.Get(05|%x) = %x, committed state is %x; %s", kk, got, want, w.state())
			}
		}
	}
}

func (w *c04World) checkPersistent(t *rapid.T) {
	gotK, gotV, err := drain(w.store.NewIterator(storageKey("")))
	if err != nil {
		t.Fatal(err)
	}
	for i := range gotK {
		gotK[i] = gotK[i][1:]
	}
	wantK, wantV := liveWithPrefix("", w.persist)
	if !sameSeq(gotK, gotV, wantK, wantV) {
		t.Fatalf("persistent store after overlay commit holds %s, want %s; %s", fmtSeq(gotK, gotV), fmtSeq(wantK, wantV), w.state())
	}
}

func (w *c04World) step(t *rapid.T) {
	// weights: writes dominate so that the cache and the overlay are populated when iterators run
	acts := []string{"put", "put", "put", "put", "delete", "delete", "get", "iter", "iter", "iter", "iter-held",
		"commit", "commit", "reset", "flush", "newcache", "ovget", "oviter"}
	act := rapid.SampledFrom(acts).Draw(t, "act")
	ev := w.ev
	switch act {
	case "put":
		k, v := pickKey(t, w.known(), c04MaxKey, "k"), genVal.Draw(t, "v")
		w.cache.Put([]byte(k), v)
		w.ca[k] = v
		w.note("P%x=%x", k, v)
		ev.Class("step:put")
	case "delete":
		k := pickKey(t, w.known(), c04MaxKey, "k")
		_, live := lookup(k, w.ca, w.ov, w.persist)
		w.cache.Delete([]byte(k))
		w.ca[k] = nil
		w.note("D%x", k)
		ev.Class("step:delete")
		if live {
			ev.Class("step:delete:live-key")
		}
	case "get":
		k := pickKey(t, w.known(), c04MaxKey, "k")
		got, err := w.cache.Get([]byte(k))
		if err != nil {
			t.Fatalf("CacheDB.Get(%x): %v; %s", k, err, w.state())
		}
		want, ok := lookup(k, w.ca, w.ov, w.persist)
		if !bytes.Equal(got, want) {
			t.Fatalf("CacheDB.Get(%x) = %x, most recent write is %x; %s", k, got, want, w.state())
		}
		w.note("G%x", k)
		ev.Class("step:get")
		switch {
		case ok && w.ca[k] != nil:
			ev.Class("step:get:from-cache")
		case ok && w.ov[k] != nil:
			ev.Class("step:get:from-overlay")
		case ok:
			ev.Class("step:get:from-persistent")
		default:
			if _, any := lookup(k, w.ov, w.persist); any {
				ev.Class("step:get:deleted-above-live")
			} else {
				ev.Class("step:get:absent")
			}
		}
	case "iter":
		p := pickKey(t, w.known(), c04MaxKey, "prefix")
		w.note("I%x", p)
		w.checkCacheIter(t, p, "iter")
	case "iter-held":
		// an iterator is an object with a life time: reads through the same cache (and other
		// iterators) between its creation, its first positioning and its advance must not disturb it
		// (rewinding a drained iterator with a second First() is not exercised: no caller does it and
		// JoinIter keeps its end-of-side flags, so its meaning is not defined by the code)
		p := pickKey(t, w.known(), c04MaxKey, "prefix")
		it := w.cache.NewIterator([]byte(p))
		w.note("IH%x", p)
		reads := func(label string) {
			for n := rapid.IntRange(0, 2).Draw(t, label); n > 0; n-- {
				k := pickKey(t, w.known(), c04MaxKey, "hk")
				if rapid.IntRange(0, 3).Draw(t, "other-iter") == 0 {
					o := w.cache.NewIterator([]byte(k))
					o.First()
					o.Release()
					w.note("i%x", k)
				} else {
					got, err := w.cache.Get([]byte(k))
					want, _ := lookup(k, w.ca, w.ov, w.persist)
					if err != nil || !bytes.Equal(got, want) {
						t.Fatalf("CacheDB.Get(%x) = %x, %v, most recent write is %x; %s", k, got, err, want, w.state())
					}
					w.note("g%x", k)
				}
				ev.Class("iter-held:read-while-iterator-open")
			}
		}
		wantK, wantV := liveWithPrefix(p, w.ca, w.ov, w.persist)
		reads("reads-before-first")
		var gotK []string
		var gotV [][]byte
		for ok := it.First(); ok; ok = it.Next() {
			gotK = append(gotK, string(it.Key()))
			gotV = append(gotV, append([]byte{}, it.Value()...))
			if len(gotK) == 1 {
				reads("reads-after-first")
			}
		}
		if err := it.Error(); err != nil {
			t.Fatalf("CacheDB.NewIterator(%x): iterator error %v; %s", p, err, w.state())
		}
		if !sameSeq(gotK, gotV, wantK, wantV) {
			t.Fatalf("CacheDB.NewIterator(%x), with reads between creation, First and Next, yields %s, want exactly the live keys in ascending order with newest values %s; %s",
				p, fmtSeq(gotK, gotV), fmtSeq(wantK, wantV), w.state())
		}
		it.Release()
		w.classify("iter-held", shapeOf(p, w.ca, w.ov, w.persist))
	case "oviter":
		p := pickKey(t, w.known(), c04MaxKey, "prefix")
		w.note("OI%x", p)
		w.checkOverlayIter(t, p, "oviter")
	case "ovget":
		k := pickKey(t, w.known(), c04MaxKey, "k")
		got, err := w.overlay.Get(storageKey(k))
		if err != nil {
			t.Fatalf("OverlayDB.Get(05|%x): %v; %s", k, err, w.state())
		}
		want, _ := lookup(k, w.ov, w.persist)
		if !bytes.Equal(got, want) {
			t.Fatalf("OverlayDB.Get(05|%x) = %x, committed state is %x; %s", k, got, want, w.state())
		}
		w.note("OG%x", k)
		ev.Class("step:ovget")
	case "commit":
		n := len(w.ca)
		w.cache.Commit()
		for k, v := range w.ca {
			w.ov[k] = v
		}
		w.ca = layer{}
		w.note("C")
		ev.Class("step:commit")
		if n > 0 {
			ev.Class("step:commit:nonempty")
		}
		// commit publishes exactly the cache's writes
		w.checkOverlayIter(t, "", "oviter-after-commit")
	case "reset":
		n := len(w.ca)
		w.cache.Reset()
		w.ca = layer{}
		w.note("R")
		ev.Class("step:reset")
		if n > 0 {
			ev.Class("step:reset:nonempty")
		}
	case "newcache":
		// a new transaction cache on the same overlay: pending writes of the old one are gone
		w.cache = storage.NewCacheDB(w.overlay)
		w.ca = layer{}
		w.note("N")
		ev.Class("step:newcache")
	case "flush":
		// overlay -> persistent store (both ways the ledger does it), then a fresh overlay and cache
		w.store.NewBatch()
		if rapid.Bool().Draw(t, "viaWriteSet") {
			w.overlay.GetWriteSet().ForEach(func(key, val []byte) {
				if len(val) == 0 {
					w.store.BatchDelete(key)
				} else {
					w.store.BatchPut(key, val)
				}
			})
		} else {
			w.overlay.CommitTo()
		}
		if err := w.store.BatchCommit(); err != nil {
			t.Fatal(err)
		}
		for k, v := range w.ov {
			if v == nil {
				delete(w.persist, k)
			} else {
				w.persist[k] = v
			}
		}
		if len(w.ov) > 0 {
			ev.Class("step:flush:nonempty")
		}
		w.ov, w.ca = layer{}, layer{}
		w.overlay = overlaydb.NewOverlayDB(w.store)
		w.cache = storage.NewCacheDB(w.overlay)
		w.note("F")
		ev.Class("step:flush")
		w.checkPersistent(t)
	}
}

func TestC04_History(t *testing.T) {
	ev := harn.For("C04").Rule("stateful histories (avg 40 steps) of put/delete/get/iterate/commit/reset/new-cache on a CacheDB (iterators also held open across reads and other iterators, positioned late), get/iterate on the OverlayDB and overlay commit to an in-memory goleveldb pre-populated with 0-8 keys; keys of length 0-4 over {a,b,00,ff}, ~70% drawn from (prefixes/extensions of) keys already present in some layer; after EVERY step all known keys are read through cache and overlay and the whole storage prefix is iterated through the cache. Non-trivial = the history contains an iteration in which the memory side and the backend side both contribute and at least one key is shadowed or tombstoned; distinct by history text")
	ev.Floor("iter:nontrivial", "iter", 0.10)
	ev.Floor("iter:both-sides", "iter", 0.15)
	ev.Floor("iter:first-is-tombstone", "iter", 0.01)
	ev.Floor("step:commit:nonempty", "step:commit", 0.3)
	harn.CheckSteps(t, 40, 1500, 30000, func(t *rapid.T) {
		w := &c04World{store: freshStore(), persist: layer{}, ov: layer{}, ca: layer{}, ev: ev}
		for i, n := 0, rapid.IntRange(0, 8).Draw(t, "npre"); i < n; i++ {
			k, v := genKey(c04MaxKey).Draw(t, "prek"), genVal.Draw(t, "prev")
			if err := w.store.Put(storageKey(k), v); err != nil {
				t.Fatal(err)
			}
			w.persist[k] = v
			w.note("S%x=%x", k, v)
		}
		// a neighbouring prefix family in the persistent store must never leak into ST_STORAGE iterations
		_ = w.store.Put([]byte{0x04, 'a'}, []byte{1})
		_ = w.store.Put([]byte{0x06, 'a'}, []byte{1})
		w.overlay = overlaydb.NewOverlayDB(w.store)
		w.cache = storage.NewCacheDB(w.overlay)
		t.Repeat(map[string]func(*rapid.T){
			"step": w.step,
			"": func(t *rapid.T) {
				w.checkGets(t)
				w.checkCacheIter(t, "", "inv-iter")
			},
		})
		w.checkOverlayIter(t, "", "final-oviter")
		if err := w.overlay.Error(); err != nil {
			t.Fatalf("overlay error %v; %s", err, w.state())
		}
		ev.Case(w.nontriv, strings.Join(w.log, ";"))
	})
}

// TestC04_LayeredSnapshot builds the three layers directly (persistent Put, overlay Put/Delete, cache
// Put/Delete) over a dense key universe and checks Get for the whole universe and iterators for many
// prefixes: the join iterator's edge cases (one side exhausted first, leading/trailing tombstones,
// equal keys on both sides, tombstones over nothing) are dense here.
func TestC04_LayeredSnapshot(t *testing.T) {
	ev := harn.For("C04").Rule("static three-layer layouts: 3-14 keys (length 0-3 over {a,b,00,ff}), each independently absent/present in the persistent store, absent/value/tombstone in the overlay and in the cache; Get of every key and cache+overlay iterators for every prefix of every key are compared with the map model. Non-trivial as above; distinct by layout")
	ev.Floor("snap-iter:nontrivial", "snap-iter", 0.10)
	ev.Floor("snap-iter:first-is-tombstone", "snap-iter", 0.02)
	ev.Floor("snap-iter:mem-exhausted-first", "snap-iter", 0.05)
	ev.Floor("snap-iter:backend-exhausted-first", "snap-iter", 0.05)
	harn.Check(t, 1500, 45000, func(t *rapid.T) {
		w := &c04World{store: freshStore(), persist: layer{}, ov: layer{}, ca: layer{}, ev: ev}
		w.overlay = overlaydb.NewOverlayDB(w.store)
		w.cache = storage.NewCacheDB(w.overlay)
		universe := map[string]bool{}
		for i, n := 0, rapid.IntRange(3, 14).Draw(t, "nkeys"); i < n; i++ {
			universe[genKey(3).Draw(t, "k")] = true
		}
		var keys []string
		for k := range universe {
			keys = append(keys, k)
		}
		keys = allKeys(func() layer {
			l := layer{}
			for _, k := range keys {
				l[k] = nil
			}
			return l
		}())
		for _, k := range keys {
			if rapid.IntRange(0, 2).Draw(t, "inStore") > 0 {
				v := genVal.Draw(t, "sv")
				if err := w.store.Put(storageKey(k), v); err != nil {
					t.Fatal(err)
				}
				w.persist[k] = v
			}
			switch rapid.IntRange(0, 3).Draw(t, "inOverlay") {
			case 0:
				v := genVal.Draw(t, "ov")
				w.overlay.Put(storageKey(k), v)
				w.ov[k] = v
			case 1:
				w.overlay.Delete(storageKey(k))
				w.ov[k] = nil
			}
			switch rapid.IntRange(0, 3).Draw(t, "inCache") {
			case 0:
				v := genVal.Draw(t, "cv")
				w.cache.Put([]byte(k), v)
				w.ca[k] = v
			case 1:
				w.cache.Delete([]byte(k))
				w.ca[k] = nil
			}
		}
		w.checkGets(t)
		prefixes := map[string]bool{"": true}
		for _, k := range keys {
			for i := 0; i <= len(k); i++ {
				prefixes[k[:i]] = true
			}
		}
		pl := layer{}
		for p := range prefixes {
			pl[p] = nil
		}
		for _, p := range allKeys(pl) {
			w.checkCacheIter(t, p, "snap-iter")
			w.checkOverlayIter(t, p, "snap-oviter")
		}
		desc := fmt.Sprintf("cache=%s overlay=%s persistent=%s", fmtLayer(w.ca), fmtLayer(w.ov), fmtLayer(w.persist))
		// commit, then everything must read the same through the cache and now also through the overlay
		w.cache.Commit()
		for k, v := range w.ca {
			w.ov[k] = v
		}
		w.ca = layer{}
		w.checkGets(t)
		w.checkCacheIter(t, "", "snap-iter-after-commit")
		w.checkOverlayIter(t, "", "snap-oviter-after-commit")
		ev.Case(w.nontriv, desc)
	})
}
