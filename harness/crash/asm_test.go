package crash

// Minimal NeoVM and EVM assemblers used by both the generators (parent) and the worker (prefix
// contracts, native-call routing through a NeoVM transaction).

import (
	"encoding/binary"
	"math/big"

	"github.com/ontio/ontology/common"
	vm "github.com/ontio/ontology/vm/neovm"
)

type asm struct{ b []byte }

func (a *asm) op(ops ...vm.OpCode) *asm {
	for _, o := range ops {
		a.b = append(a.b, byte(o))
	}
	return a
}

func (a *asm) raw(b ...byte) *asm { a.b = append(a.b, b...); return a }

// pushBytes emits the shortest correctly framed push of b.
func (a *asm) pushBytes(b []byte) *asm {
	n := len(b)
	switch {
	case n == 0:
		a.b = append(a.b, byte(vm.PUSH0))
	case n <= 75:
		a.b = append(a.b, byte(n))
	case n < 0x100:
		a.b = append(a.b, byte(vm.PUSHDATA1), byte(n))
	case n < 0x10000:
		a.b = append(a.b, byte(vm.PUSHDATA2), byte(n), byte(n>>8))
	default:
		var l [4]byte
		binary.LittleEndian.PutUint32(l[:], uint32(n))
		a.b = append(append(a.b, byte(vm.PUSHDATA4)), l[:]...)
	}
	a.b = append(a.b, b...)
	return a
}

// pushWith emits b with a chosen push opcode family (0 auto, 1 PUSHDATA1, 2 PUSHDATA2, 4 PUSHDATA4).
func (a *asm) pushWith(b []byte, fam int) *asm {
	n := len(b)
	switch {
	case fam == 1 && n < 0x100:
		a.b = append(a.b, byte(vm.PUSHDATA1), byte(n))
	case fam == 2 && n < 0x10000:
		a.b = append(a.b, byte(vm.PUSHDATA2), byte(n), byte(n>>8))
	case fam == 4:
		var l [4]byte
		binary.LittleEndian.PutUint32(l[:], uint32(n))
		a.b = append(append(a.b, byte(vm.PUSHDATA4)), l[:]...)
	default:
		return a.pushBytes(b)
	}
	a.b = append(a.b, b...)
	return a
}

func (a *asm) pushInt(v *big.Int) *asm {
	if v.IsInt64() {
		i := v.Int64()
		if i == -1 {
			return a.op(vm.PUSHM1)
		}
		if i == 0 {
			return a.op(vm.PUSH0)
		}
		if i >= 1 && i <= 16 {
			return a.op(vm.OpCode(int(vm.PUSH1) + int(i) - 1))
		}
	}
	return a.pushBytes(common.BigIntToNeoBytes(v))
}

func (a *asm) pushI(i int64) *asm { return a.pushInt(big.NewInt(i)) }

func (a *asm) pushBool(v bool) *asm {
	if v {
		a.op(vm.PUSH1)
	} else {
		a.op(vm.PUSH0)
	}
	return a.op(vm.NOT, vm.NOT) // NOT pushes a value of bool type
}

func (a *asm) syscall(name string) *asm {
	a.op(vm.SYSCALL)
	a.b = append(a.b, byte(len(name))) // var string, names are < 0xFD bytes
	a.b = append(a.b, name...)
	return a
}

func (a *asm) appcall(addr []byte) *asm {
	a.op(vm.APPCALL)
	a.b = append(a.b, addr...)
	return a
}

// jmp emits a jump-family opcode with a 16-bit relative offset (relative to the opcode position).
func (a *asm) jmp(o vm.OpCode, off int16) *asm {
	a.op(o)
	a.b = append(a.b, byte(off), byte(uint16(off)>>8))
	return a
}

// nativeInvoke emits the standard call sequence of a native method with the value currently on
// top of the stack as its argument value: <args> method address version SYSCALL Native.Invoke.
func (a *asm) nativeInvoke(addr []byte, method string, version int64) *asm {
	a.pushBytes([]byte(method)).pushBytes(addr).pushI(version)
	return a.syscall("Ontology.Native.Invoke")
}

// argAtom is one element of a native argument string as the NeoVM can produce it: a
// length-prefixed byte string or a single bool byte.
type argAtom struct {
	IsBool bool
	Bool   bool
	Bytes  []byte
}

// parseAtoms splits raw native argument bytes into atoms if that is possible (i.e. if a NeoVM
// program can produce exactly these bytes through BuildParamToNative of a struct). Backtracking
// search: a leading 0x01 may be a bool or the length of a one-byte string.
func parseAtoms(b []byte) ([]argAtom, bool) {
	dead := map[int]bool{}
	var out []argAtom
	var rec func(off int) bool
	rec = func(off int) bool {
		if off == len(b) {
			return true
		}
		if dead[off] || len(out) >= 1000 {
			return false
		}
		src := common.NewZeroCopySource(b[off:])
		data, _, irregular, eof := src.NextVarBytes()
		if !eof && !irregular {
			out = append(out, argAtom{Bytes: data})
			if rec(off + int(src.Pos())) {
				return true
			}
			out = out[:len(out)-1]
		}
		if b[off] == 1 {
			out = append(out, argAtom{IsBool: true, Bool: true})
			if rec(off + 1) {
				return true
			}
			out = out[:len(out)-1]
		}
		dead[off] = true
		return false
	}
	if !rec(0) {
		return nil, false
	}
	return out, true
}

// pushAtomsStruct emits code leaving a struct value whose native encoding is the concatenation of
// the atoms.
func (a *asm) pushAtomsStruct(atoms []argAtom) *asm {
	a.op(vm.PUSH0, vm.NEWSTRUCT, vm.TOALTSTACK)
	for _, at := range atoms {
		a.op(vm.DUPFROMALTSTACK)
		if at.IsBool {
			a.pushBool(at.Bool)
		} else {
			a.pushBytes(at.Bytes)
		}
		a.op(vm.APPEND)
	}
	return a.op(vm.FROMALTSTACK)
}

// nativeCallCode builds a complete NeoVM program invoking a native method with exactly the
// given argument bytes; ok == false when the bytes are not producible by a NeoVM program.
func nativeCallCode(addr []byte, method string, args []byte) ([]byte, bool) {
	atoms, ok := parseAtoms(args)
	if !ok {
		return nil, false
	}
	a := &asm{}
	a.pushAtomsStruct(atoms).nativeInvoke(addr, method, 0)
	return a.b, true
}

// ---------------------------------------------------------------------------------------------
// EVM

// evmDeployWrapper returns creation code that installs runtime as the contract's code.
func evmDeployWrapper(runtime []byte) []byte {
	n := len(runtime)
	// PUSH2 n DUP1 PUSH2 off PUSH1 0 CODECOPY PUSH1 0 RETURN
	head := []byte{0x61, byte(n >> 8), byte(n), 0x80, 0x61, 0, 0, 0x60, 0x00, 0x39, 0x60, 0x00, 0xf3}
	off := len(head)
	head[5], head[6] = byte(off>>8), byte(off)
	return append(head, runtime...)
}
