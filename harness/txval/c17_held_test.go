package txval

// C17, held signer sets: the signer set the validator established for an accepted transaction belongs to THAT
// transaction object for as long as the object lives (tx pool -> block proposal -> execution happen much later, after
// the same validator worker has judged many other transactions). "A function of the transaction bytes alone" excludes
// any dependence on what else was validated in between.
//
// History: 2..8 generated transactions (canonical, re-encoded, and rejected variants; single- and multi-signature sets,
// 1..3 sets, different keys) are decoded and validated back to back on one goroutine, optionally followed by a few
// joined goroutines validating further transactions. Every ACCEPTED object is held next to a private copy of its
// SignedAddr taken when the validator returned. At the end (and once in the middle) every held object must
//   - still report exactly that set through SignedAddr and GetSignatureAddresses(),
//   - still hold the bytes it was decoded from, and a fresh decode of those bytes must derive the same set,
//   - answer SmartContract.CheckWitness(a) == (a in the private copy) == CheckWitness on the fresh decode for every
//     account generated anywhere in the history (all set accounts of all transactions, the single-key accounts of all
//     their keys, and a stranger).
// Transactions of the recorded finding's class (non-canonical verification script / ethereum-type single key) keep all
// checks except the comparisons with the fresh decode (that difference IS the recorded finding).

import (
	"bytes"
	"fmt"
	"strings"
	"sync"
	"testing"

	"github.com/ontio/ontology-crypto/keypair"
	"github.com/ontio/ontology/common"
	"github.com/ontio/ontology/core/types"
	"pgregory.net/rapid"

	"verifharness/internal/fix"
	"verifharness/internal/harn"
)

// c17HeldJob is one generated transaction of a history (everything drawn on the test goroutine).
type c17HeldJob struct {
	Raw        []byte
	Kind       string // canon | reenc | sigmut | payermut | stranger-payer
	What       string
	Mode       intake
	KnownClass bool
	Multi      bool
	Accounts   []common.Address // accounts this transaction's generation mentions (set accounts + single-key accounts)
}

type c17HeldTx struct {
	Job   *c17HeldJob
	Where string
	Out   c17Outcome          // verdict + private sorted copy of SignedAddr at return time (Out.SVal)
	Tx    *types.Transaction // the validated object, held
	NAddr int                 // len(SignedAddr) at return time
}

// genHeldTx draws a small valid canonical transaction: 1..3 sets, keys per multisig set <= 4.
func genHeldTx(t *rapid.T) *txSpec {
	tx := &txSpec{Body: genBody(t)}
	ns := 1
	switch w := uniR(t, 0, 9, "nsetsClass"); {
	case w >= 8:
		ns = 3
	case w >= 5:
		ns = 2
	}
	for i := 0; i < ns; i++ {
		tx.Sets = append(tx.Sets, genSet(t, fmt.Sprintf("set%d", i), 4))
	}
	pi := uniR(t, 0, ns-1, "payerSet")
	tx.Payer = specSetAddress(tx.Sets[pi])
	tx.Note = fmt.Sprintf("set%d", pi)
	tx.sign()
	return tx
}

func singleKeyAccount(z *fix.ZooKey) common.Address {
	a, ok := indepSetAddress([]keypair.PublicKey{z.PublicKey}, 1, false)
	if !ok {
		panic("harness: no account for zoo key")
	}
	return a
}

func c17GenHeldJob(t *rapid.T, edits []structMut) *c17HeldJob {
	tx := genHeldTx(t)
	j := &c17HeldJob{Kind: "canon", Mode: intake(uniR(t, 0, 1, "intake"))}
	for _, s := range tx.Sets {
		j.Accounts = append(j.Accounts, specSetAddress(s))
		if s.Multi {
			j.Multi = true
		}
		for _, k := range s.Keys {
			j.Accounts = append(j.Accounts, singleKeyAccount(k.Z))
		}
	}
	how := ""
	switch w := uniR(t, 0, 19, "variant"); {
	case w < 11: // canonical
		j.Raw, _ = tx.raw()
	case w < 14: // re-encoded (stays acceptable)
		j.Kind = "reenc"
		start := uniR(t, 0, len(edits)-1, "edit")
		for k := 0; k < len(edits) && how == ""; k++ {
			e := edits[(start+k)%len(edits)]
			if h := e.Apply(t, tx); h != "" {
				how = e.Name + "(" + h + ")"
			}
		}
		j.Raw, _ = tx.raw()
	case w < 16: // one signature damaged
		j.Kind = "sigmut"
		raw, lay := tx.raw()
		m := genSigMut(t, lay)
		j.Raw, how = m.apply(raw), m.String()
	case w < 18: // payer byte changed after signing
		j.Kind = "payermut"
		raw, _ := tx.raw()
		m := genPayerMut(t)
		j.Raw, how = m.apply(raw), m.String()
	default: // properly signed by every set, but the payer is an account nobody signed for
		j.Kind = "stranger-payer"
		used := map[string]bool{}
		for _, s := range tx.Sets {
			for _, k := range s.Keys {
				used[string(canonKey(k.Z))] = true
			}
		}
		z := drawKey(t, used, "strangerPayer")
		tx.Payer = singleKeyAccount(z)
		tx.Note = "stranger " + keyName(z)
		for _, s := range tx.Sets {
			for i := range s.Sigs {
				s.Sigs[i].Data = nil
			}
		}
		tx.sign()
		j.Accounts = append(j.Accounts, tx.Payer)
		j.Raw, _ = tx.raw()
	}
	h := tx.hash()
	sets := make([]string, len(tx.Sets))
	for i, s := range tx.Sets {
		sets[i] = s.describe()
	}
	j.What = fmt.Sprintf("%s %x [%s]", j.Kind, h[:4], strings.Join(sets, " "))
	if how != "" {
		j.What += " " + how
	}
	j.KnownClass = c17InKnownClass(j.Raw)
	return j
}

// run decodes and validates the job's bytes and takes the private copy (safe on any goroutine: no rapid, no caches).
func (j *c17HeldJob) run(where string) *c17HeldTx {
	h := &c17HeldTx{Job: j, Where: where}
	h.Out = c17EvalMode(j.Raw, j.Mode)
	if h.Out.Accepted {
		h.Tx = h.Out.Verdict.Tx
		h.NAddr = len(h.Tx.SignedAddr)
	}
	return h
}

func addrIn(set []common.Address, a common.Address) bool {
	for _, x := range set {
		if x == a {
			return true
		}
	}
	return false
}

// c17CheckHeld: the held object still reports the set it had when the validator returned. "" = fine.
func c17CheckHeld(h *c17HeldTx, exclKnown bool, accounts []common.Address, when string) (msg string) {
	defer func() {
		if r := recover(); r != nil {
			msg = fmt.Sprintf("PANIC %v while reading the signer set of the held transaction {%s} %s", r, h.Job.What, when)
		}
	}()
	pre := fmt.Sprintf("accepted transaction {%s} (validated %s), observed %s: ", h.Job.What, h.Where, when)
	if now := sortedAddrs(h.Tx.SignedAddr); !sameAddrSet(now, h.Out.SVal) || len(h.Tx.SignedAddr) != h.NAddr {
		return pre + fmt.Sprintf("SignedAddr is now %s (%d entries) but the validator established %s (%d entries) when it accepted it",
			addrsString(now), len(h.Tx.SignedAddr), addrsString(h.Out.SVal), h.NAddr)
	}
	if now := sortedAddrs(h.Tx.GetSignatureAddresses()); !sameAddrSet(now, h.Out.SVal) {
		return pre + fmt.Sprintf("GetSignatureAddresses() is now %s but the validator established %s", addrsString(now), addrsString(h.Out.SVal))
	}
	if !bytes.Equal(h.Tx.ToArray(), h.Job.Raw) {
		return pre + "the object no longer serialises to the bytes it was decoded from"
	}
	skipFresh := exclKnown && h.Job.KnownClass
	var fresh *types.Transaction
	if !skipFresh {
		var err error
		fresh, err = types.TransactionFromRawBytes(append([]byte{}, h.Job.Raw...))
		if err != nil {
			return pre + fmt.Sprintf("its bytes do not decode again: %v", err)
		}
		if fs := sortedAddrs(fresh.GetSignatureAddresses()); !sameAddrSet(fs, h.Out.SVal) {
			return pre + fmt.Sprintf("a fresh decode of its bytes derives %s, the validator established %s", addrsString(fs), addrsString(h.Out.SVal))
		}
	}
	for _, a := range accounts {
		want := addrIn(h.Out.SVal, a)
		if got := checkWitness(h.Tx, a); got != want {
			return pre + fmt.Sprintf("CheckWitness(%x) = %v on the held object, but membership in the set the validator established %s is %v",
				a[:], got, addrsString(h.Out.SVal), want)
		}
		if fresh != nil {
			if got := checkWitness(fresh, a); got != want {
				return pre + fmt.Sprintf("CheckWitness(%x) = %v on a fresh decode of its bytes, %v on the validated object", a[:], got, want)
			}
		}
	}
	return ""
}

func TestC17_HeldSigners(t *testing.T) {
	ev := c17Ev()
	known := c17Replay()
	ev.Floor("held:distinct-sets>=2", "held", 0.80)
	ev.Floor("held:later>=3", "held", 0.40)
	ev.Floor("held:rejected-in-between", "held", 0.25)
	ev.Floor("held:concurrent", "held", 0.15)
	ev.Floor("heldtx:accepted:multisig", "heldtx", 0.25)
	ev.Floor("heldtx:accepted:single-only", "heldtx", 0.10)
	ev.Floor("heldtx:rejected", "heldtx", 0.12)
	var edits []structMut
	for _, m := range structMuts {
		if c17EditNames[m.Name] {
			edits = append(edits, m)
		}
	}
	stranger := singleKeyAccount(fix.Key(fix.KP256, 7))
	harn.Check(t, 260, 2600, func(t *rapid.T) {
		n := uniR(t, 2, 8, "txs")
		var all []*c17HeldTx  // every validation in order
		var held []*c17HeldTx // the accepted ones
		accounts := []common.Address{stranger}
		var desc []string

		record := func(h *c17HeldTx) {
			all = append(all, h)
			desc = append(desc, h.Where+":"+h.Job.What+"="+h.Out.Verdict.String())
			accounts = append(accounts, h.Job.Accounts...)
			ev.Class("heldtx")
			ev.Class("heldtx:kind=" + h.Job.Kind)
			ev.Class("heldtx:intake=" + h.Job.Mode.String())
			if h.Out.Verdict.Panic != "" {
				t.Fatalf("C17: decoder/validator PANICKED (%s) on %s\nraw tx %x", h.Out.Verdict.Panic, h.Job.What, h.Job.Raw)
			}
			if !h.Out.Accepted {
				ev.Class("heldtx:rejected")
				return
			}
			ev.Class("heldtx:accepted")
			if h.Job.Multi {
				ev.Class("heldtx:accepted:multisig")
			} else {
				ev.Class("heldtx:accepted:single-only")
			}
			if h.Job.KnownClass {
				ev.Class("heldtx:accepted:known-class")
			}
			// the single-transaction oracle at return time
			if h.Out.Diff != "" {
				if known && h.Job.KnownClass {
					ev.Excluded()
				} else {
					t.Fatalf("C17: %s\ncase: %s\nraw tx %x", h.Out.Diff, h.Job.What, h.Job.Raw)
				}
			}
			if len(h.Out.SVal) == 0 {
				t.Fatalf("C17: the validator accepted {%s} and established an empty signer set\nraw tx %x", h.Job.What, h.Job.Raw)
			}
			held = append(held, h)
		}
		checkAll := func(when string) {
			acc := sortedAddrs(accounts)
			for _, h := range held {
				if msg := c17CheckHeld(h, known, acc, when); msg != "" {
					t.Fatalf("C17: %s\nhistory: %s\nraw tx %x", msg, strings.Join(desc, " ; "), h.Job.Raw)
				}
			}
		}

		mid := uniR(t, 1, n-1, "midObservation")
		for i := 0; i < n; i++ {
			j := c17GenHeldJob(t, edits)
			record(j.run(fmt.Sprintf("#%d", i)))
			// noise: the same worker validates an earlier accepted object again (tx pool re-verification after a fork switch)
			if len(held) > 0 && uniR(t, 0, 7, "noise") == 0 {
				k := held[uniR(t, 0, len(held)-1, "which")]
				ok, pan := reverify(k.Tx)
				if pan != "" || !ok {
					t.Fatalf("C17: validating the accepted transaction {%s} again on the same object: accepted=%v panic=%q\nhistory: %s", k.Job.What, ok, pan, strings.Join(desc, " ; "))
				}
				k.NAddr = len(k.Tx.SignedAddr)
				if now := sortedAddrs(k.Tx.SignedAddr); !sameAddrSet(now, k.Out.SVal) {
					t.Fatalf("C17: validating {%s} a second time established %s, the first time %s\nhistory: %s", k.Job.What, addrsString(now), addrsString(k.Out.SVal), strings.Join(desc, " ; "))
				}
				desc = append(desc, "again:"+k.Where)
				ev.Class("held:noise=reverify")
			}
			if i+1 == mid {
				checkAll(fmt.Sprintf("after %d of %d validations on the same goroutine", i+1, n))
			}
		}
		checkAll(fmt.Sprintf("after all %d validations on the same goroutine", n))

		// optionally: joined goroutines validate further transactions while everything so far is still held
		conc := 0
		if uniR(t, 0, 3, "concurrent") == 0 {
			conc = uniR(t, 2, 4, "goroutines")
			jobs := make([][]*c17HeldJob, conc)
			for g := range jobs {
				for k, m := 0, uniR(t, 1, 2, "perG"); k < m; k++ {
					jobs[g] = append(jobs[g], c17GenHeldJob(t, edits))
				}
			}
			res := make([][]*c17HeldTx, conc)
			var wg sync.WaitGroup
			for g := range jobs {
				wg.Add(1)
				go func(g int) {
					defer wg.Done()
					for k, j := range jobs[g] {
						res[g] = append(res[g], j.run(fmt.Sprintf("g%d.%d", g, k)))
					}
				}(g)
			}
			wg.Wait()
			for g := range res {
				for _, h := range res[g] {
					record(h)
				}
			}
			checkAll(fmt.Sprintf("after %d joined goroutines validated further transactions", conc))
		}

		// evidence
		distinct := map[string]bool{}
		for _, h := range held {
			distinct[addrsString(h.Out.SVal)] = true
		}
		later, rejectedBetween := 0, false
		if len(held) > 0 {
			seenFirst := false
			for _, h := range all {
				if h == held[0] {
					seenFirst = true
					continue
				}
				if seenFirst {
					later++
					if !h.Out.Accepted && h != all[len(all)-1] {
						rejectedBetween = true
					}
				}
			}
		}
		ev.Class("held")
		ev.Class(fmt.Sprintf("held:accepted=%d", minInt(len(held), 6)))
		if len(distinct) >= 2 {
			ev.Class("held:distinct-sets>=2")
		}
		if later >= 3 {
			ev.Class("held:later>=3")
		}
		if rejectedBetween {
			ev.Class("held:rejected-in-between")
		}
		if conc > 0 {
			ev.Class("held:concurrent")
		}
		d := strings.Join(desc, " ; ")
		if len(d) > 560 {
			d = d[:560] + "..."
		}
		// non-trivial: at least two accepted transactions with different signer sets were held over a later validation
		ev.Case(len(distinct) >= 2 && later >= 1, "held "+d)
	})
}
