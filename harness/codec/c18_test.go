package codec

// C18 Primitive binary codec round-trips, is canonical, never panics.
// Oracles: (1) typed sequences written by ZeroCopySink and by common/serialization give the same
// bytes as an independent reference encoder and read back identically through ZeroCopySource and
// through the io.Reader functions, with Pos/Len equal to a reference cursor; (2) every non-minimal
// varuint prefix is reported irregular / ErrIrregularData, every minimal one is not; (3) arbitrary
// bytes with an arbitrary read script agree step by step with an independent cursor model
// (value, eof, irregular, Pos, Len, off <= len), without panic.

import (
	"bytes"
	"encoding/binary"
	"errors"
	"fmt"
	"io"
	"reflect"
	"runtime/debug"
	"strings"
	"testing"

	"github.com/ontio/ontology/common"
	"github.com/ontio/ontology/common/serialization"
	"pgregory.net/rapid"

	"verifharness/internal/harn"
)

// ---------------------------------------------------------------------------------------------
// independent reference of the varuint format

func c18RefVarSize(v uint64) uint64 {
	switch {
	case v <= 0xFC:
		return 1
	case v < 1<<16:
		return 3
	case v < 1<<32:
		return 5
	}
	return 9
}

func c18RefVarEnc(v uint64) []byte {
	out := []byte{}
	switch c18RefVarSize(v) {
	case 1:
		return []byte{byte(v)}
	case 3:
		out = append(out, 0xFD)
		for i := 0; i < 2; i++ {
			out = append(out, byte(v>>(8*uint(i))))
		}
	case 5:
		out = append(out, 0xFE)
		for i := 0; i < 4; i++ {
			out = append(out, byte(v>>(8*uint(i))))
		}
	default:
		out = append(out, 0xFF)
		for i := 0; i < 8; i++ {
			out = append(out, byte(v>>(8*uint(i))))
		}
	}
	return out
}

// c18ForcedVarEnc encodes v with a prefix of the given total size (3, 5 or 9), minimal or not.
func c18ForcedVarEnc(v uint64, size int) []byte {
	out := []byte{map[int]byte{3: 0xFD, 5: 0xFE, 9: 0xFF}[size]}
	for i := 0; i < size-1; i++ {
		out = append(out, byte(v>>(8*uint(i))))
	}
	return out
}

// c18RefVarDec decodes a varuint at b[pos:]. complete=false when the input is too short.
func c18RefVarDec(b []byte, pos uint64) (val, size uint64, complete bool) {
	if pos >= uint64(len(b)) {
		return 0, 0, false
	}
	n := uint64(1)
	switch b[pos] {
	case 0xFD:
		n = 3
	case 0xFE:
		n = 5
	case 0xFF:
		n = 9
	}
	if uint64(len(b))-pos < n {
		return 0, 0, false
	}
	if n == 1 {
		return uint64(b[pos]), 1, true
	}
	for i := uint64(1); i < n; i++ {
		val |= uint64(b[pos+i]) << (8 * (i - 1))
	}
	return val, n, true
}

func c18LE(b []byte) uint64 {
	var v uint64
	for i := range b {
		v |= uint64(b[i]) << (8 * uint(i))
	}
	return v
}

var c18VarEdges = []uint64{0, 1, 0xFB, 0xFC, 0xFD, 0xFE, 0xFF, 0x100, 0xFFFE, 0xFFFF, 0x10000, 0x10001,
	0xFFFFFFFE, 0xFFFFFFFF, 0x100000000, 0x100000001, 1<<63 - 1, 1 << 63, ^uint64(0) - 1, ^uint64(0)}

func c18GenVarUint() *rapid.Generator[uint64] {
	return rapid.OneOf(rapid.SampledFrom(c18VarEdges), rapid.SampledFrom(c18VarEdges), rapid.Uint64(),
		rapid.Uint64Range(0, 0x400), rapid.Uint64Range(0xFF00, 0x10100), rapid.Uint64Range(0xFFFFFF00, 0x100000100))
}

func c18IsVarEdge(v uint64) bool {
	for _, e := range []uint64{0xFC, 0xFFFF, 0xFFFFFFFF} {
		if v+2 >= e && v <= e+2 {
			return true
		}
	}
	return v >= ^uint64(0)-1
}

// ---------------------------------------------------------------------------------------------
// typed sequences

const (
	c18U8 = iota
	c18U16
	c18U32
	c18U64
	c18I16
	c18I32
	c18I64
	c18Bool
	c18Var
	c18VarBytes
	c18String
	c18Addr
	c18Hash
	c18I128
	c18Byte
	c18Raw
	c18U128
	c18NumKinds
)

var c18KindName = [...]string{"u8", "u16", "u32", "u64", "i16", "i32", "i64", "bool", "varuint", "varbytes", "string", "address", "hash", "i128", "byte", "raw", "u128"}

type c18Item struct {
	kind int
	u    uint64 // integers, bool (0/1)
	b    []byte // bytes, string, address, hash, i128, raw
}

func (it c18Item) String() string {
	if it.b != nil || it.kind >= c18VarBytes && it.kind != c18Byte {
		return fmt.Sprintf("%s:%s", c18KindName[it.kind], harn.Hex(it.b))
	}
	return fmt.Sprintf("%s:%d", c18KindName[it.kind], it.u)
}

func c18GenBytes(t *rapid.T, label string) []byte {
	var n int
	switch rapid.IntRange(0, 9).Draw(t, label+"LenKind") {
	case 0:
		n = 0
	case 1:
		n = rapid.SampledFrom([]int{0xFB, 0xFC, 0xFD, 0xFE, 0xFF, 0x100, 0x101}).Draw(t, label+"LenEdge")
	case 2:
		if rapid.IntRange(0, 7).Draw(t, label+"Big") == 0 {
			n = rapid.SampledFrom([]int{0xFFFE, 0xFFFF, 0x10000, 0x10001}).Draw(t, label+"LenEdge16")
		} else {
			n = rapid.IntRange(0, 600).Draw(t, label+"Len")
		}
	default:
		n = rapid.IntRange(0, 40).Draw(t, label+"Len")
	}
	if n > 300 {
		// long strings: cheap deterministic filler derived from two drawn bytes
		a, s := rapid.Byte().Draw(t, label+"A"), rapid.Byte().Draw(t, label+"S")
		out := make([]byte, n)
		for i := range out {
			out[i] = a + byte(i)*s
		}
		return out
	}
	return rapid.SliceOfN(rapid.Byte(), n, n).Draw(t, label)
}

func c18GenInt(t *rapid.T, bits uint) uint64 {
	mask := ^uint64(0) >> (64 - bits)
	switch rapid.IntRange(0, 2).Draw(t, "intKind") {
	case 0:
		return rapid.Uint64().Draw(t, "int") & mask
	case 1: // around 0, sign boundary, max
		base := rapid.SampledFrom([]uint64{0, uint64(1) << (bits - 1), mask}).Draw(t, "base")
		return (base + uint64(rapid.IntRange(-2, 2).Draw(t, "d"))) & mask
	default:
		return uint64(rapid.IntRange(0, 300).Draw(t, "small")) & mask
	}
}

func c18GenItem(t *rapid.T) c18Item {
	k := rapid.IntRange(0, c18NumKinds-1).Draw(t, "kind")
	if rapid.IntRange(0, 3).Draw(t, "favourVar") == 0 {
		k = rapid.SampledFrom([]int{c18Var, c18VarBytes, c18String}).Draw(t, "varKind")
	}
	it := c18Item{kind: k}
	switch k {
	case c18U8, c18Byte:
		it.u = c18GenInt(t, 8)
	case c18U16, c18I16:
		it.u = c18GenInt(t, 16)
	case c18U32, c18I32:
		it.u = c18GenInt(t, 32)
	case c18U64, c18I64:
		it.u = c18GenInt(t, 64)
	case c18Bool:
		it.u = uint64(rapid.IntRange(0, 1).Draw(t, "bool"))
	case c18Var:
		it.u = c18GenVarUint().Draw(t, "varuint")
	case c18VarBytes, c18String:
		it.b = c18GenBytes(t, "bytes")
	case c18Addr:
		it.b = c18GenFixed(t, 20)
	case c18Hash:
		it.b = c18GenFixed(t, 32)
	case c18I128, c18U128:
		it.b = c18GenFixed(t, 16)
	case c18Raw:
		it.b = rapid.SliceOfN(rapid.Byte(), 0, 12).Draw(t, "raw")
	}
	if it.b == nil && k >= c18VarBytes && k != c18Byte {
		it.b = []byte{}
	}
	return it
}

func c18GenFixed(t *rapid.T, n int) []byte {
	switch rapid.IntRange(0, 3).Draw(t, "fixedKind") {
	case 0:
		return make([]byte, n)
	case 1:
		return bytes.Repeat([]byte{0xFF}, n)
	}
	return rapid.SliceOfN(rapid.Byte(), n, n).Draw(t, "fixed")
}

// c18RefEncode is the independent reference encoder of one item.
func c18RefEncode(it c18Item) []byte {
	le := func(n int) []byte {
		out := make([]byte, n)
		for i := range out {
			out[i] = byte(it.u >> (8 * uint(i)))
		}
		return out
	}
	switch it.kind {
	case c18U8, c18Byte, c18Bool:
		return le(1)
	case c18U16, c18I16:
		return le(2)
	case c18U32, c18I32:
		return le(4)
	case c18U64, c18I64:
		return le(8)
	case c18Var:
		return c18RefVarEnc(it.u)
	case c18VarBytes, c18String:
		return append(c18RefVarEnc(uint64(len(it.b))), it.b...)
	}
	return append([]byte{}, it.b...)
}

func c18SinkWrite(s *common.ZeroCopySink, it c18Item) error {
	switch it.kind {
	case c18U8:
		s.WriteUint8(uint8(it.u))
	case c18Byte:
		s.WriteByte(byte(it.u))
	case c18U16:
		s.WriteUint16(uint16(it.u))
	case c18U32:
		s.WriteUint32(uint32(it.u))
	case c18U64:
		s.WriteUint64(it.u)
	case c18I16:
		s.WriteInt16(int16(uint16(it.u)))
	case c18I32:
		s.WriteInt32(int32(uint32(it.u)))
	case c18I64:
		s.WriteInt64(int64(it.u))
	case c18Bool:
		s.WriteBool(it.u == 1)
	case c18Var:
		if n := s.WriteVarUint(it.u); n != c18RefVarSize(it.u) {
			return fmt.Errorf("WriteVarUint(%d) returned size %d, reference %d", it.u, n, c18RefVarSize(it.u))
		}
	case c18VarBytes:
		if n := s.WriteVarBytes(it.b); n != c18RefVarSize(uint64(len(it.b)))+uint64(len(it.b)) {
			return fmt.Errorf("WriteVarBytes(len %d) returned size %d", len(it.b), n)
		}
	case c18String:
		if n := s.WriteString(string(it.b)); n != c18RefVarSize(uint64(len(it.b)))+uint64(len(it.b)) {
			return fmt.Errorf("WriteString(len %d) returned size %d", len(it.b), n)
		}
	case c18Addr:
		var a common.Address
		copy(a[:], it.b)
		if len(it.b) > 0 && it.b[0]&1 == 1 {
			a.Serialization(s)
		} else {
			s.WriteAddress(a)
		}
	case c18Hash:
		var h common.Uint256
		copy(h[:], it.b)
		s.WriteHash(h)
	case c18I128:
		var i common.I128
		copy(i[:], it.b)
		s.WriteI128(i)
	case c18Raw:
		s.WriteBytes(it.b)
	case c18U128:
		var u common.U128
		copy(u[:], it.b)
		s.WriteU128(u)
	}
	return nil
}

// c18WriterWrite writes the item with the io.Writer API (common/serialization and the Serialize
// methods of Address / Uint256).
func c18WriterWrite(w io.Writer, it c18Item) error {
	switch it.kind {
	case c18U8:
		return serialization.WriteUint8(w, uint8(it.u))
	case c18Byte:
		return serialization.WriteByte(w, byte(it.u))
	case c18U16, c18I16:
		return serialization.WriteUint16(w, uint16(it.u))
	case c18U32, c18I32:
		return serialization.WriteUint32(w, uint32(it.u))
	case c18U64, c18I64:
		return serialization.WriteUint64(w, it.u)
	case c18Bool:
		return serialization.WriteBool(w, it.u == 1)
	case c18Var:
		if serialization.GetVarUintSize(it.u) != int(c18RefVarSize(it.u)) {
			return fmt.Errorf("GetVarUintSize(%d) = %d, reference %d", it.u, serialization.GetVarUintSize(it.u), c18RefVarSize(it.u))
		}
		return serialization.WriteVarUint(w, it.u)
	case c18VarBytes:
		return serialization.WriteVarBytes(w, it.b)
	case c18String:
		return serialization.WriteString(w, string(it.b))
	case c18Hash:
		var h common.Uint256
		copy(h[:], it.b)
		return h.Serialize(w)
	}
	_, err := w.Write(it.b)
	return err
}

// c18SourceRead reads the item back from the source and compares value and flags.
func c18SourceRead(src *common.ZeroCopySource, it c18Item, useReadAPI bool) error {
	bad := func(got interface{}, eof, irr bool) error {
		return fmt.Errorf("item %s read back as %v (eof=%v irregular=%v)", it, got, eof, irr)
	}
	switch it.kind {
	case c18U8:
		v, eof := src.NextUint8()
		if eof || uint64(v) != it.u {
			return bad(v, eof, false)
		}
	case c18Byte:
		v, eof := src.NextByte()
		if eof || uint64(v) != it.u {
			return bad(v, eof, false)
		}
	case c18U16:
		v, eof := src.NextUint16()
		if eof || uint64(v) != it.u {
			return bad(v, eof, false)
		}
	case c18U32:
		if useReadAPI {
			v, err := src.ReadUint32()
			if err != nil || uint64(v) != it.u {
				return bad(v, err != nil, false)
			}
			return nil
		}
		v, eof := src.NextUint32()
		if eof || uint64(v) != it.u {
			return bad(v, eof, false)
		}
	case c18U64:
		if useReadAPI {
			v, err := src.ReadUint64()
			if err != nil || v != it.u {
				return bad(v, err != nil, false)
			}
			return nil
		}
		v, eof := src.NextUint64()
		if eof || v != it.u {
			return bad(v, eof, false)
		}
	case c18I16:
		v, eof := src.NextInt16()
		if eof || v != int16(uint16(it.u)) {
			return bad(v, eof, false)
		}
	case c18I32:
		v, eof := src.NextInt32()
		if eof || v != int32(uint32(it.u)) {
			return bad(v, eof, false)
		}
	case c18I64:
		v, eof := src.NextInt64()
		if eof || v != int64(it.u) {
			return bad(v, eof, false)
		}
	case c18Bool:
		v, irr, eof := src.NextBool()
		if eof || irr || v != (it.u == 1) {
			return bad(v, eof, irr)
		}
	case c18Var:
		if useReadAPI {
			v, err := src.ReadVarUint()
			if err != nil || v != it.u {
				return bad(v, err != nil, false)
			}
			return nil
		}
		v, size, irr, eof := src.NextVarUint()
		if eof || irr || v != it.u || size != c18RefVarSize(it.u) {
			return bad(fmt.Sprintf("%d size %d", v, size), eof, irr)
		}
	case c18VarBytes:
		if useReadAPI {
			v, err := src.ReadVarBytes()
			if err != nil || !bytes.Equal(v, it.b) {
				return bad(harn.Hex(v), err != nil, false)
			}
			return nil
		}
		v, size, irr, eof := src.NextVarBytes()
		if eof || irr || !bytes.Equal(v, it.b) || size != c18RefVarSize(uint64(len(it.b)))+uint64(len(it.b)) {
			return bad(fmt.Sprintf("%s size %d", harn.Hex(v), size), eof, irr)
		}
	case c18String:
		if useReadAPI {
			v, err := src.ReadString()
			if err != nil || v != string(it.b) {
				return bad(harn.Hex([]byte(v)), err != nil, false)
			}
			return nil
		}
		v, size, irr, eof := src.NextString()
		if eof || irr || v != string(it.b) || size != c18RefVarSize(uint64(len(it.b)))+uint64(len(it.b)) {
			return bad(fmt.Sprintf("%s size %d", harn.Hex([]byte(v)), size), eof, irr)
		}
	case c18Addr:
		if useReadAPI {
			var a common.Address
			if err := a.Deserialization(src); err != nil || !bytes.Equal(a[:], it.b) {
				return bad(harn.Hex(a[:]), err != nil, false)
			}
			return nil
		}
		v, eof := src.NextAddress()
		if eof || !bytes.Equal(v[:], it.b) {
			return bad(harn.Hex(v[:]), eof, false)
		}
	case c18Hash:
		v, eof := src.NextHash()
		if eof || !bytes.Equal(v[:], it.b) {
			return bad(harn.Hex(v[:]), eof, false)
		}
	case c18I128:
		v, eof := src.NextI128()
		if eof || !bytes.Equal(v[:], it.b) {
			return bad(harn.Hex(v[:]), eof, false)
		}
	case c18Raw, c18U128: // the source has no NextU128; a U128 is 16 raw little-endian bytes
		v, eof := src.NextBytes(uint64(len(it.b)))
		if eof || !bytes.Equal(v, it.b) {
			return bad(harn.Hex(v), eof, false)
		}
	}
	return nil
}

// c18ReaderRead reads the item back with the io.Reader API.
func c18ReaderRead(r io.Reader, it c18Item) error {
	bad := func(got interface{}, err error) error {
		return fmt.Errorf("io.Reader API: item %s read back as %v (err=%v)", it, got, err)
	}
	switch it.kind {
	case c18U8:
		v, err := serialization.ReadUint8(r)
		if err != nil || uint64(v) != it.u {
			return bad(v, err)
		}
	case c18Byte:
		v, err := serialization.ReadByte(r)
		if err != nil || uint64(v) != it.u {
			return bad(v, err)
		}
	case c18U16, c18I16:
		v, err := serialization.ReadUint16(r)
		if err != nil || uint64(v) != it.u {
			return bad(v, err)
		}
	case c18U32, c18I32:
		v, err := serialization.ReadUint32(r)
		if err != nil || uint64(v) != it.u {
			return bad(v, err)
		}
	case c18U64, c18I64:
		v, err := serialization.ReadUint64(r)
		if err != nil || v != it.u {
			return bad(v, err)
		}
	case c18Bool:
		v, err := serialization.ReadBool(r)
		if err != nil || v != (it.u == 1) {
			return bad(v, err)
		}
	case c18Var:
		v, err := serialization.ReadVarUint(r, 0)
		if err != nil || v != it.u {
			return bad(v, err)
		}
	case c18VarBytes:
		v, err := serialization.ReadVarBytes(r)
		if err != nil || !bytes.Equal(v, it.b) {
			return bad(harn.Hex(v), err)
		}
	case c18String:
		v, err := serialization.ReadString(r)
		if err != nil || v != string(it.b) {
			return bad(harn.Hex([]byte(v)), err)
		}
	case c18Hash:
		var h common.Uint256
		if err := h.Deserialize(r); err != nil || !bytes.Equal(h[:], it.b) {
			return bad(harn.Hex(h[:]), err)
		}
	default:
		v, err := serialization.ReadBytes(r, uint64(len(it.b)))
		if err != nil || !bytes.Equal(v, it.b) {
			return bad(harn.Hex(v), err)
		}
	}
	return nil
}

// guard runs f and turns a Go panic of the code under test into a rapid failure that names the
// operation. rapid's own control-flow panics (t.Fatalf, exhausted draws) are passed through.
func guard(t *rapid.T, what string, f func()) {
	defer func() {
		if r := recover(); r != nil {
			if reflect.TypeOf(r).PkgPath() == "pgregory.net/rapid" {
				panic(r)
			}
			t.Fatalf("panic in %s: %v\n%s", what, r, c18Stack())
		}
	}()
	f()
}

func c18Stack() string {
	b := debug.Stack()
	if len(b) > 2500 {
		b = b[:2500]
	}
	return string(b)
}

func c18NoPanic(t *rapid.T, what string, f func()) { guard(t, what, f) }

const c18Rule = "typed value sequences (ints at 0/sign/max edges, varuints around 0xFC/0xFFFF/2^32/2^64, var-bytes with length 0/0xFC/0xFD/0xFFFF/0x10000, address/hash/I128) written by ZeroCopySink and common/serialization; hand-built minimal and non-minimal varuint prefixes; arbitrary/structured bytes with a byte-coded read script (Next*/Read*/Skip/BackUp<=pos, huge counts); non-trivial = a varuint or length within 2 of a size-class boundary, a non-minimal prefix, a truncated read, or a script step that hits eof/irregular/overflowing count; distinct = different value sequence / bytes+script || sink reuse: every typed sequence is also written by every Write* method (incl. WriteU128, NextBytes) into sinks whose backing memory is dirty — (a) filled with 0xFF/0x01/pattern/bit-inverted bytes and Reset() (1-2 rounds), (b) junk written after any item and BackUp()ed (optionally further back over already written items, which are then rewritten), (c) NewZeroCopySink(dirty[:p]) over a caller-supplied dirty buffer with spare capacity, and combinations — and must give the bytes of the fresh sink and read back without eof/irregular; non-trivial there = at least one item was written over stale bytes that differ from its encoding"

func TestC18_TypedRoundTrip(t *testing.T) {
	ev := harn.For("C18").Rule(c18Rule)
	ev.Floor("seq:has-var-edge", "seq", 0.10)
	harn.Check(t, 12000, 600000, func(t *rapid.T) {
		n := rapid.IntRange(1, 12).Draw(t, "n")
		items := make([]c18Item, n)
		var ref []byte
		ends := make([]uint64, n)
		for i := range items {
			items[i] = c18GenItem(t)
			ref = append(ref, c18RefEncode(items[i])...)
			ends[i] = uint64(len(ref))
		}
		// encoders: sink (fresh and with a small preallocated buffer to force growth) and io.Writer
		var sink *common.ZeroCopySink
		if rapid.Bool().Draw(t, "tinySink") {
			sink = common.NewZeroCopySink(make([]byte, 0, rapid.IntRange(0, 4).Draw(t, "cap")))
		} else {
			sink = common.NewZeroCopySink(nil)
		}
		var buf bytes.Buffer
		c18NoPanic(t, "encoders", func() {
			for i, it := range items {
				if err := c18SinkWrite(sink, it); err != nil {
					t.Fatalf("%v", err)
				}
				if sink.Size() != ends[i] {
					t.Fatalf("sink.Size() = %d after item %d (%s), reference %d", sink.Size(), i, it, ends[i])
				}
				if err := c18WriterWrite(&buf, it); err != nil {
					t.Fatalf("io.Writer encoder failed on %s: %v", it, err)
				}
			}
		})
		if !bytes.Equal(sink.Bytes(), ref) {
			t.Fatalf("ZeroCopySink encoding differs from reference:\n sink %x\n ref  %x\n items %v", sink.Bytes(), ref, items)
		}
		if !bytes.Equal(buf.Bytes(), ref) {
			t.Fatalf("serialization (io.Writer) encoding differs from reference:\n got %x\n ref %x\n items %v", buf.Bytes(), ref, items)
		}
		// decoders
		src := common.NewZeroCopySource(ref)
		rd := bytes.NewReader(ref)
		useRead := rapid.Bool().Draw(t, "readAPI")
		c18NoPanic(t, "decoders", func() {
			for i, it := range items {
				if err := c18SourceRead(src, it, useRead); err != nil {
					t.Fatalf("%v; encoded %x", err, ref)
				}
				if src.Pos() != ends[i] || src.Len() != uint64(len(ref))-ends[i] || src.Size() != uint64(len(ref)) {
					t.Fatalf("after item %d (%s): Pos=%d Len=%d Size=%d, reference cursor %d of %d", i, it, src.Pos(), src.Len(), src.Size(), ends[i], len(ref))
				}
				if err := c18ReaderRead(rd, it); err != nil {
					t.Fatalf("%v; encoded %x", err, ref)
				}
				if uint64(rd.Len()) != uint64(len(ref))-ends[i] {
					t.Fatalf("io.Reader API consumed wrong amount at item %d (%s): %d left, want %d", i, it, rd.Len(), uint64(len(ref))-ends[i])
				}
			}
		})
		// truncation: cut inside item k; items before k read fine, item k reports eof/err, no panic
		hasEdge := false
		for _, it := range items {
			if it.kind == c18Var && c18IsVarEdge(it.u) || (it.kind == c18VarBytes || it.kind == c18String) && c18IsVarEdge(uint64(len(it.b))) {
				hasEdge = true
			}
		}
		truncated := false
		if len(ref) > 0 && rapid.Bool().Draw(t, "truncate") {
			cut := uint64(rapid.IntRange(0, len(ref)-1).Draw(t, "cut"))
			k := 0
			for ends[k] <= cut {
				k++
			}
			start := uint64(0)
			if k > 0 {
				start = ends[k-1]
			}
			if ends[k] > start { // item k has at least one byte and is cut
				truncated = true
				src := common.NewZeroCopySource(ref[:cut])
				c18NoPanic(t, "truncated decode", func() {
					for i := 0; i < k; i++ {
						if err := c18SourceRead(src, items[i], useRead); err != nil {
							t.Fatalf("truncated at %d: complete item failed: %v", cut, err)
						}
					}
					if err := c18SourceRead(src, items[k], useRead); err == nil {
						t.Fatalf("item %d (%s) cut at byte %d of %x was read without eof", k, items[k], cut, ref)
					}
					if src.Pos() > cut || src.Pos()+src.Len() != cut {
						t.Fatalf("after truncated read: Pos=%d Len=%d Size=%d", src.Pos(), src.Len(), cut)
					}
					if err := c18ReaderRead(bytes.NewReader(ref[start:cut]), items[k]); err == nil {
						t.Fatalf("io.Reader API: item %d (%s) cut at byte %d read without error", k, items[k], cut)
					}
				})
			}
		}
		ev.Class("seq")
		if hasEdge {
			ev.Class("seq:has-var-edge")
		}
		if truncated {
			ev.Class("seq:truncated")
		}
		desc := make([]string, len(items))
		for i, it := range items {
			desc[i] = it.String()
			ev.Class("item:" + c18KindName[it.kind])
		}
		ev.Case(hasEdge || truncated, fmt.Sprintf("typed trunc=%v [%s]", truncated, strings.Join(desc, " ")))
	})
}

// ---------------------------------------------------------------------------------------------
// sink reuse: what the encoder emits must not depend on what its backing memory held before. The
// node reuses sinks (core/types/transaction.go temp.Reset(), ledgerstore state_store.go value.Reset())
// and hands caller-supplied buffers to NewZeroCopySink; WriteVarUint itself reserves 9 bytes and
// backs up, so bytes beyond Size() are routinely non-zero.

// c18Backing exposes the sink's whole backing array (also the bytes beyond Size()).
func c18Backing(s *common.ZeroCopySink) []byte { b := s.Bytes(); return b[:cap(b)] }

// c18GenDirt draws n stale bytes: all 0xFF, all 0x01 (reads back as a regular `true`), one repeated
// non-zero byte, an arithmetic pattern, or the bit-inverse of what is going to be written there.
func c18GenDirt(t *rapid.T, n int, at int, ref []byte, label string) []byte {
	out := make([]byte, n)
	kind := rapid.IntRange(0, 4).Draw(t, label+"Kind")
	a, s := rapid.Byte().Draw(t, label+"A"), rapid.Byte().Draw(t, label+"S")
	for i := range out {
		switch kind {
		case 0:
			out[i] = 0xFF
		case 1:
			out[i] = 0x01
		case 2:
			out[i] = a | 1
		case 3:
			out[i] = a + byte(i)*s
		default:
			out[i] = 0xFF
			if at+i >= 0 && at+i < len(ref) {
				out[i] = ^ref[at+i]
			}
		}
	}
	return out
}

// c18GenFillLen draws how many dirty bytes to lay down when `need` bytes are going to be written.
func c18GenFillLen(t *rapid.T, need int, label string) int {
	switch rapid.IntRange(0, 5).Draw(t, label+"LenKind") {
	case 0, 1:
		return need + 9 // also covers the 9-byte scratch area of WriteVarUint
	case 2:
		return need
	case 3:
		return need + rapid.IntRange(0, 40).Draw(t, label+"Extra")
	case 4:
		return need / 2
	}
	return rapid.IntRange(0, 64).Draw(t, label+"Len")
}

// c18PutJunk appends junk to the sink through one of the write paths.
func c18PutJunk(t *rapid.T, s *common.ZeroCopySink, junk []byte, label string) {
	switch rapid.IntRange(0, 2).Draw(t, label+"Via") {
	case 0:
		s.WriteBytes(junk)
	case 1:
		copy(s.NextBytes(uint64(len(junk))), junk)
	default: // byte by byte / word by word through the typed writers
		for len(junk) >= 8 {
			s.WriteUint64(binary.LittleEndian.Uint64(junk))
			junk = junk[8:]
		}
		for _, b := range junk {
			s.WriteByte(b)
		}
	}
}

// c18ReuseRun writes items into a sink prepared by the named prologue, with junk+BackUp episodes,
// and compares with ref. It returns whether some item was written over differing stale bytes.
func c18ReuseRun(t *rapid.T, ev *harn.Collector, prologue string, items []c18Item, ref []byte, ends []uint64) (overStale bool, desc string) {
	var sink *common.ZeroCopySink
	var prefix []byte
	newSink := func() *common.ZeroCopySink {
		if rapid.Bool().Draw(t, prologue+"Tiny") {
			return common.NewZeroCopySink(make([]byte, 0, rapid.IntRange(0, 16).Draw(t, prologue+"Cap")))
		}
		return common.NewZeroCopySink(nil)
	}
	switch prologue {
	case "reset":
		sink = newSink()
		rounds := rapid.IntRange(1, 2).Draw(t, "rounds")
		for r := 0; r < rounds; r++ {
			fill := c18GenFillLen(t, len(ref), "fill")
			c18PutJunk(t, sink, c18GenDirt(t, fill, 0, ref, "fill"), "fill")
			if sink.Size() != uint64(fill) {
				t.Fatalf("sink.Size() = %d after writing %d bytes", sink.Size(), fill)
			}
			sink.Reset()
			if sink.Size() != 0 || len(sink.Bytes()) != 0 {
				t.Fatalf("sink.Size() = %d, len(Bytes()) = %d after Reset()", sink.Size(), len(sink.Bytes()))
			}
			desc += fmt.Sprintf(" fill%d", fill)
		}
	case "caller":
		c := c18GenFillLen(t, len(ref), "buf")
		p := 0
		if c > 0 && rapid.IntRange(0, 2).Draw(t, "hasPrefix") == 0 {
			p = rapid.IntRange(1, c).Draw(t, "prefix")
			if p > 8 {
				p = 8
			}
		}
		dirty := c18GenDirt(t, c, -p, ref, "buf")
		prefix = append([]byte{}, dirty[:p]...)
		sink = common.NewZeroCopySink(dirty[:p])
		desc += fmt.Sprintf(" cap%d prefix%d", c, p)
	default: // "backup": fresh memory, dirt comes from the episodes only
		sink = newSink()
	}
	p := uint64(len(prefix))
	// junk+BackUp episodes: after item k-1, junk is written and backed up to the end of item j-1 (j <= k)
	episodes := map[int]bool{}
	nEp := rapid.IntRange(0, 1).Draw(t, prologue+"Episodes")
	if prologue == "backup" {
		nEp = rapid.IntRange(1, 2).Draw(t, prologue+"Episodes2")
	}
	for i := 0; i < nEp; i++ {
		episodes[rapid.IntRange(0, len(items)).Draw(t, prologue+"At")] = true
	}
	end := func(i int) uint64 { // end offset of item i-1 in ref
		if i == 0 {
			return 0
		}
		return ends[i-1]
	}
	episode := func(k int) int {
		rem := len(ref) - int(end(k))
		n := c18GenFillLen(t, rem, "junk")
		if n == 0 {
			n = 1
		}
		c18PutJunk(t, sink, c18GenDirt(t, n, int(end(k)), ref, "junk"), "junk")
		j := k
		if k > 0 && rapid.IntRange(0, 2).Draw(t, "further") == 0 {
			j = rapid.IntRange(0, k).Draw(t, "backTo")
		}
		back := uint64(n) + end(k) - end(j)
		sink.BackUp(back)
		if sink.Size() != p+end(j) {
			t.Fatalf("[%s] sink.Size() = %d after BackUp(%d) from %d", prologue, sink.Size(), back, p+end(k)+uint64(n))
		}
		desc += fmt.Sprintf(" junk%d@%d->%d", n, k, j)
		return j
	}
	for i := 0; i <= len(items); {
		if episodes[i] {
			delete(episodes, i)
			i = episode(i)
			continue
		}
		if i == len(items) {
			break
		}
		it := items[i]
		// does this write land on stale bytes that differ from what must be written?
		bk, pos, enc := c18Backing(sink), int(sink.Size()), c18RefEncode(it)
		stale := false
		for j := range enc {
			if pos+j < len(bk) && bk[pos+j] != 0 && bk[pos+j] != enc[j] {
				stale = true
			}
		}
		if err := c18SinkWrite(sink, it); err != nil {
			t.Fatalf("[%s] %v", prologue, err)
		}
		if sink.Size() != p+ends[i] {
			t.Fatalf("[%s] sink.Size() = %d after item %d (%s), reference %d", prologue, sink.Size(), i, it, p+ends[i])
		}
		ev.Class("reuse:item:" + c18KindName[it.kind])
		if stale {
			overStale = true
			ev.Class("reuse:item:" + c18KindName[it.kind] + ":over-stale")
		}
		i++
	}
	got := sink.Bytes()
	want := append(append([]byte{}, prefix...), ref...)
	if !bytes.Equal(got, want) {
		at := 0
		for at < len(got) && at < len(want) && got[at] == want[at] {
			at++
		}
		k := 0
		for k < len(ends)-1 && p+ends[k] <= uint64(at) {
			k++
		}
		t.Fatalf("sink with dirty backing memory [%s%s] encodes differently from a fresh sink: first difference at byte %d (item %d, %s)\n dirty sink %x\n fresh sink %x\n items %v",
			prologue, desc, at, k, items[k], got, want, items)
	}
	src := common.NewZeroCopySource(append([]byte{}, got[p:]...))
	for i, it := range items {
		if err := c18SourceRead(src, it, false); err != nil {
			t.Fatalf("[%s%s] %v; encoded %x", prologue, desc, err, got[p:])
		}
		if src.Pos() != ends[i] {
			t.Fatalf("[%s%s] after item %d (%s): Pos=%d, reference cursor %d", prologue, desc, i, it, src.Pos(), ends[i])
		}
	}
	if src.Len() != 0 {
		t.Fatalf("[%s%s] %d bytes left after reading all items back", prologue, desc, src.Len())
	}
	return overStale, prologue + desc
}

// TestC18_SinkReuse: ZeroCopySink output is a function of the written values only.
func TestC18_SinkReuse(t *testing.T) {
	ev := harn.For("C18").Rule(c18Rule)
	ev.Floor("reuse:over-stale", "reuse", 0.60)
	for _, k := range c18KindName {
		ev.Floor("reuse:item:"+k+":over-stale", "reuse:item:"+k, 0.25)
	}
	harn.Check(t, 5000, 250000, func(t *rapid.T) {
		n := rapid.IntRange(1, 12).Draw(t, "n")
		items := make([]c18Item, n)
		var ref []byte
		ends := make([]uint64, n)
		for i := range items {
			items[i] = c18GenItem(t)
			ref = append(ref, c18RefEncode(items[i])...)
			ends[i] = uint64(len(ref))
		}
		over := false
		var descs []string
		c18NoPanic(t, "sink reuse", func() {
			fresh := common.NewZeroCopySink(nil)
			for _, it := range items {
				if err := c18SinkWrite(fresh, it); err != nil {
					t.Fatalf("%v", err)
				}
			}
			if !bytes.Equal(fresh.Bytes(), ref) {
				t.Fatalf("fresh ZeroCopySink encoding differs from reference:\n sink %x\n ref  %x\n items %v", fresh.Bytes(), ref, items)
			}
			for _, prologue := range []string{"reset", "backup", "caller"} {
				o, d := c18ReuseRun(t, ev, prologue, items, ref, ends)
				over = over || o
				descs = append(descs, d)
				ev.Class("reuse:variant:" + prologue)
				if o {
					ev.Class("reuse:variant:" + prologue + ":over-stale")
				}
			}
		})
		ev.Class("reuse")
		if over {
			ev.Class("reuse:over-stale")
		}
		desc := make([]string, len(items))
		for i, it := range items {
			desc[i] = it.String()
		}
		ev.Case(over, fmt.Sprintf("reuse {%s} [%s]", strings.Join(descs, " | "), strings.Join(desc, " ")))
	})
}

// TestC18_VarUintMinimality: every prefix form of a value; exactly the shortest one is regular.
func TestC18_VarUintMinimality(t *testing.T) {
	ev := harn.For("C18").Rule(c18Rule)
	ev.Floor("varuint:nonminimal", "varuint", 0.30)
	check := func(fatal func(string, ...interface{}), v uint64, size int, tail []byte) (nonMinimal bool) {
		var enc []byte
		if size == 1 {
			enc = []byte{byte(v)}
		} else {
			enc = c18ForcedVarEnc(v, size)
		}
		nonMinimal = uint64(size) != c18RefVarSize(v)
		full := append(append([]byte{}, enc...), tail...)
		src := common.NewZeroCopySource(full)
		got, sz, irr, eof := src.NextVarUint()
		if eof || got != v || sz != uint64(size) || src.Pos() != uint64(size) {
			fatal("NextVarUint(%x) = %d size %d eof %v pos %d; want %d size %d", full, got, sz, eof, src.Pos(), v, size)
		}
		if irr != nonMinimal {
			fatal("NextVarUint(%x): value %d encoded in %d bytes (minimal %d) reported irregular=%v", full, v, size, c18RefVarSize(v), irr)
		}
		_, err := common.NewZeroCopySource(full).ReadVarUint()
		if nonMinimal != errors.Is(err, common.ErrIrregularData) || !nonMinimal && err != nil {
			fatal("ReadVarUint(%x): non-minimal=%v but err=%v", full, nonMinimal, err)
		}
		// the same prefix as a length: NextVarBytes / ReadVarBytes / ReadString / NextString
		if v <= uint64(len(tail)) {
			src = common.NewZeroCopySource(full)
			data, tot, irr2, eof2 := src.NextVarBytes()
			if eof2 || irr2 != nonMinimal || !bytes.Equal(data, tail[:v]) || tot != uint64(size)+v {
				fatal("NextVarBytes(%x) = %x size %d irregular %v eof %v; want %x size %d irregular %v", full, data, tot, irr2, eof2, tail[:v], uint64(size)+v, nonMinimal)
			}
			_, _, irr3, _ := common.NewZeroCopySource(full).NextString()
			if irr3 != nonMinimal {
				fatal("NextString(%x) irregular=%v want %v", full, irr3, nonMinimal)
			}
			d, err := common.NewZeroCopySource(full).ReadVarBytes()
			if nonMinimal && !errors.Is(err, common.ErrIrregularData) || !nonMinimal && (err != nil || !bytes.Equal(d, tail[:v])) {
				fatal("ReadVarBytes(%x) = %x, %v; non-minimal=%v", full, d, err, nonMinimal)
			}
			_, err = common.NewZeroCopySource(full).ReadString()
			if nonMinimal != (err != nil) {
				fatal("ReadString(%x) err=%v; non-minimal=%v", full, err, nonMinimal)
			}
		}
		return
	}
	// deterministic boundary sweep (shard 0 only; cheap)
	if harn.Shard() == 0 {
		for _, v := range c18VarEdges {
			for _, size := range []int{1, 3, 5, 9} {
				if size == 1 && v > 0xFC || size == 3 && v > 0xFFFF || size == 5 && v > 0xFFFFFFFF {
					continue
				}
				v, size := v, size
				nm := check(func(f string, a ...interface{}) { harn.Violation(t, "C18", fmt.Sprintf("v=%d size=%d", v, size), f, a...) }, v, size, nil)
				ev.Case(true, fmt.Sprintf("varuint-sweep v=%d size=%d nonminimal=%v", v, size, nm))
			}
		}
	}
	harn.Check(t, 30000, 2000000, func(t *rapid.T) {
		size := rapid.SampledFrom([]int{1, 3, 3, 5, 5, 9, 9}).Draw(t, "size")
		var v uint64
		switch size {
		case 1:
			v = rapid.Uint64Range(0, 0xFC).Draw(t, "v1")
		case 3:
			v = rapid.OneOf(rapid.Uint64Range(0, 0xFFFF), rapid.Uint64Range(0xF0, 0x110), rapid.Uint64Range(0, 0xFC)).Draw(t, "v3")
		case 5:
			v = rapid.OneOf(rapid.Uint64Range(0, 0xFFFFFFFF), rapid.Uint64Range(0xFFF0, 0x10010), rapid.Uint64Range(0, 0x120)).Draw(t, "v5")
		default:
			v = rapid.OneOf(rapid.Uint64(), rapid.Uint64Range(0xFFFFFFF0, 0x100000010), rapid.Uint64Range(0xFFF0, 0x10010), rapid.Uint64Range(0, 0x120)).Draw(t, "v9")
		}
		tail := rapid.SliceOfN(rapid.Byte(), 0, 300).Draw(t, "tail")
		var nm bool
		c18NoPanic(t, "varuint readers", func() {
			nm = check(func(f string, a ...interface{}) { t.Fatalf(f, a...) }, v, size, tail)
		})
		ev.Class("varuint")
		if nm {
			ev.Class("varuint:nonminimal")
		} else {
			ev.Class("varuint:minimal")
		}
		ev.Case(nm || c18IsVarEdge(v), fmt.Sprintf("varuint v=%d size=%d tail=%d", v, size, len(tail)))
	})
}

// ---------------------------------------------------------------------------------------------
// read scripts against a reference cursor

var c18OpNames = []string{"NextByte", "NextUint8", "NextBool", "NextUint16", "NextUint32", "NextUint64", "NextInt16", "NextInt32",
	"NextInt64", "NextVarUint", "NextVarBytes", "NextString", "NextAddress", "NextHash", "NextI128", "NextBytes", "Skip", "BackUp",
	"ReadUint32", "ReadUint64", "ReadVarUint", "ReadVarBytes", "ReadString"}

// c18RunScript interprets script (op byte, argument bytes) over data and compares every step with
// an independent cursor model. It returns a violation message or "" and per-step outcome classes.
func c18RunScript(data, script []byte, class func(string)) (msg string, interesting bool) {
	defer func() {
		if r := recover(); r != nil {
			msg = fmt.Sprintf("panic while reading %x with script %x: %v", data, script, r)
		}
	}()
	src := common.NewZeroCopySource(data)
	size := uint64(len(data))
	pos := uint64(0) // reference cursor
	si := 0
	nextArg := func() byte {
		if si >= len(script) {
			return 0
		}
		b := script[si]
		si++
		return b
	}
	for step := 0; si < len(script) && step < 64; step++ {
		op := int(nextArg()) % len(c18OpNames)
		name := c18OpNames[op]
		rem := size - pos
		fail := func(f string, a ...interface{}) string {
			return fmt.Sprintf("step %d %s at pos %d of %x (script %x): %s", step, name, pos, data, script, fmt.Sprintf(f, a...))
		}
		outcome := "ok"
		fixed := func(n uint64, gotEOF bool, got uint64, check bool) string {
			if rem < n {
				outcome = "eof"
				if !gotEOF {
					return fail("only %d bytes left, needs %d, but no eof reported", rem, n)
				}
				return ""
			}
			if gotEOF {
				return fail("%d bytes left, needs %d, but eof reported", rem, n)
			}
			if check && got != c18LE(data[pos:pos+n]) {
				return fail("value %d, reference %d", got, c18LE(data[pos:pos+n]))
			}
			pos += n
			return ""
		}
		var m string
		switch name {
		case "NextByte":
			v, eof := src.NextByte()
			m = fixed(1, eof, uint64(v), true)
		case "NextUint8":
			v, eof := src.NextUint8()
			m = fixed(1, eof, uint64(v), true)
		case "NextBool":
			v, irr, eof := src.NextBool()
			if rem >= 1 {
				b := data[pos]
				if v != (b != 0) || irr != (b > 1) {
					return fail("byte %#x decoded as %v irregular=%v", b, v, irr), true
				}
				if irr {
					outcome = "irregular"
				}
			}
			m = fixed(1, eof, 0, false)
		case "NextUint16":
			v, eof := src.NextUint16()
			m = fixed(2, eof, uint64(v), true)
		case "NextInt16":
			v, eof := src.NextInt16()
			m = fixed(2, eof, uint64(uint16(v)), true)
		case "NextUint32":
			v, eof := src.NextUint32()
			m = fixed(4, eof, uint64(v), true)
		case "NextInt32":
			v, eof := src.NextInt32()
			m = fixed(4, eof, uint64(uint32(v)), true)
		case "ReadUint32":
			v, err := src.ReadUint32()
			m = fixed(4, err != nil, uint64(v), true)
		case "NextUint64":
			v, eof := src.NextUint64()
			m = fixed(8, eof, v, true)
		case "NextInt64":
			v, eof := src.NextInt64()
			m = fixed(8, eof, uint64(v), true)
		case "ReadUint64":
			v, err := src.ReadUint64()
			m = fixed(8, err != nil, v, true)
		case "NextAddress":
			v, eof := src.NextAddress()
			if rem >= 20 && !bytes.Equal(v[:], data[pos:pos+20]) {
				return fail("address %x", v[:]), true
			}
			m = fixed(20, eof, 0, false)
		case "NextHash":
			v, eof := src.NextHash()
			if rem >= 32 && !bytes.Equal(v[:], data[pos:pos+32]) {
				return fail("hash %x", v[:]), true
			}
			m = fixed(32, eof, 0, false)
		case "NextI128":
			v, eof := src.NextI128()
			if rem >= 16 && !bytes.Equal(v[:], data[pos:pos+16]) {
				return fail("i128 %x", v[:]), true
			}
			m = fixed(16, eof, 0, false)
		case "NextBytes", "Skip":
			var n uint64
			switch a := nextArg(); a % 8 {
			case 0:
				n = uint64(a >> 3)
			case 1:
				n = rem
			case 2:
				n = rem + 1 + uint64(a>>3)
			case 3:
				n = ^uint64(0) - uint64(a>>3)
			case 4:
				n = ^uint64(0) - pos + uint64(a>>3) // pos+n wraps around to a small number
				outcome = "wrap"
			case 5:
				n = 1<<63 + uint64(a>>3)
			case 6:
				n = rem / 2
			default:
				n = uint64(a)
			}
			if name == "Skip" {
				eof := src.Skip(n)
				if eof != (n > rem) {
					return fail("Skip(%d) with %d left: eof=%v", n, rem, eof), true
				}
			} else {
				d, eof := src.NextBytes(n)
				if eof != (n > rem) {
					return fail("NextBytes(%d) with %d left: eof=%v", n, rem, eof), true
				}
				if uint64(len(d)) > rem || !bytes.Equal(d, data[pos:pos+uint64(len(d))]) {
					return fail("NextBytes(%d) returned %x which is not the data at the cursor", n, d), true
				}
				if !eof && uint64(len(d)) != n {
					return fail("NextBytes(%d) returned %d bytes", n, len(d)), true
				}
			}
			if n > rem {
				if outcome != "wrap" {
					outcome = "eof"
				}
			} else {
				outcome = "ok"
				pos += n
			}
		case "BackUp":
			n := uint64(0)
			if pos > 0 {
				n = uint64(nextArg()) % (pos + 1) // documented contract: n <= bytes already read
			}
			src.BackUp(n)
			pos -= n
		case "NextVarUint", "ReadVarUint":
			want, wsz, complete := c18RefVarDec(data, pos)
			var v, sz uint64
			var irr, eof bool
			if name == "NextVarUint" {
				v, sz, irr, eof = src.NextVarUint()
			} else {
				var err error
				v, err = src.ReadVarUint()
				sz = wsz
				irr = errors.Is(err, common.ErrIrregularData)
				eof = err != nil && !irr
				if err == nil && complete && wsz != c18RefVarSize(want) {
					return fail("non-minimal varuint accepted by ReadVarUint"), true
				}
				if irr {
					v = want
				}
			}
			if !complete {
				outcome = "eof"
				if !eof {
					return fail("incomplete varuint but no eof"), true
				}
			} else {
				nonMin := wsz != c18RefVarSize(want)
				if eof || v != want || sz != wsz || irr != nonMin {
					return fail("got %d size %d irregular %v eof %v; reference %d size %d non-minimal %v", v, sz, irr, eof, want, wsz, nonMin), true
				}
				if nonMin {
					outcome = "irregular"
				}
				pos += wsz
			}
		case "NextVarBytes", "NextString", "ReadVarBytes", "ReadString":
			want, wsz, complete := c18RefVarDec(data, pos)
			nonMin := complete && wsz != c18RefVarSize(want)
			enough := complete && want <= rem-wsz
			var d []byte
			var tot uint64
			var irr, eof bool
			var err error
			switch name {
			case "NextVarBytes":
				d, tot, irr, eof = src.NextVarBytes()
			case "NextString":
				var s string
				s, tot, irr, eof = src.NextString()
				d = []byte(s)
			case "ReadVarBytes":
				d, err = src.ReadVarBytes()
			default:
				var s string
				s, err = src.ReadString()
				d = []byte(s)
			}
			if name[0] == 'R' {
				if (err == nil) != (enough && !nonMin) {
					return fail("err=%v but prefix complete=%v non-minimal=%v enough data=%v", err, complete, nonMin, enough), true
				}
				if nonMin && enough && !errors.Is(err, common.ErrIrregularData) {
					return fail("non-minimal length prefix: err=%v, want ErrIrregularData", err), true
				}
				if !nonMin && !enough && !errors.Is(err, io.ErrUnexpectedEOF) {
					return fail("short input: err=%v, want unexpected EOF", err), true
				}
				irr, eof, tot = nonMin, !enough, wsz+want
			}
			if !complete {
				outcome = "eof"
				if !eof {
					return fail("incomplete length prefix but no eof"), true
				}
			} else {
				if irr != nonMin {
					return fail("length prefix %x non-minimal=%v but irregular=%v", data[pos:pos+wsz], nonMin, irr), true
				}
				if eof != !enough {
					return fail("length %d with %d bytes after the prefix: eof=%v", want, rem-wsz, eof), true
				}
				switch {
				case !enough:
					outcome = "eof"
				case nonMin:
					outcome = "irregular"
					pos += wsz + want
				default:
					if !bytes.Equal(d, data[pos+wsz:pos+wsz+want]) || tot != wsz+want {
						return fail("data %x size %d; reference %x size %d", d, tot, data[pos+wsz:pos+wsz+want], wsz+want), true
					}
					pos += wsz + want
				}
			}
		}
		if m != "" {
			return m, true
		}
		if outcome != "ok" {
			interesting = true
		}
		class("op:" + name + ":" + outcome)
		// bookkeeping: after a successful read the cursor is exactly the reference cursor; after an
		// eof it is somewhere in [pos, size] (the reference follows it); always off <= len.
		p := src.Pos()
		if p > size || src.Len() != size-p || src.Size() != size {
			return fail("cursor out of bounds: Pos=%d Len=%d Size=%d (data length %d)", p, src.Len(), src.Size(), size), true
		}
		if outcome == "eof" || outcome == "wrap" {
			if p < pos {
				return fail("cursor moved backwards on eof: Pos=%d, was %d", p, pos), true
			}
			pos = p
		} else if p != pos {
			return fail("Pos=%d, reference cursor %d", p, pos), true
		}
	}
	return "", interesting
}

// c18GenData builds byte strings rich in varuint prefixes (minimal and not) and length-prefixed chunks.
func c18GenData(t *rapid.T) []byte {
	var out []byte
	n := rapid.IntRange(0, 16).Draw(t, "chunks")
	for i := 0; i < n; i++ {
		switch rapid.IntRange(0, 5).Draw(t, "chunk") {
		case 0:
			out = append(out, rapid.SliceOfN(rapid.Byte(), 0, 40).Draw(t, "rand")...)
		case 1:
			out = append(out, c18RefVarEnc(c18GenVarUint().Draw(t, "v"))...)
		case 2:
			size := rapid.SampledFrom([]int{3, 5, 9}).Draw(t, "size")
			v := rapid.OneOf(rapid.Uint64Range(0, 0x120), rapid.Uint64Range(0xFFF0, 0x10010), rapid.Uint64()).Draw(t, "v")
			out = append(out, c18ForcedVarEnc(v, size)...)
		case 3:
			b := rapid.SliceOfN(rapid.Byte(), 0, 30).Draw(t, "vb")
			out = append(out, c18RefVarEnc(uint64(len(b)))...)
			out = append(out, b...)
		case 4:
			b := rapid.SliceOfN(rapid.Byte(), 0, 30).Draw(t, "vb")
			out = append(out, c18ForcedVarEnc(uint64(len(b)), rapid.SampledFrom([]int{3, 5, 9}).Draw(t, "size"))...)
			out = append(out, b...)
		default:
			out = append(out, rapid.SampledFrom([]byte{0, 1, 2, 0xFC, 0xFD, 0xFE, 0xFF}).Draw(t, "edgeByte"))
		}
	}
	return out
}

func TestC18_ReadScript(t *testing.T) {
	ev := harn.For("C18").Rule(c18Rule)
	ev.Floor("script:interesting", "script", 0.30)
	harn.Check(t, 30000, 2000000, func(t *rapid.T) {
		data := c18GenData(t)
		script := rapid.SliceOfN(rapid.Byte(), 1, 40).Draw(t, "script")
		msg, interesting := c18RunScript(data, script, ev.Class)
		if msg != "" {
			t.Fatalf("%s", msg)
		}
		ev.Class("script")
		if interesting {
			ev.Class("script:interesting")
		}
		ev.Case(interesting, fmt.Sprintf("script data=%x script=%x", data, script))
	})
}

// TestC18_ReaderArbitrary: the io.Reader functions on arbitrary bytes give the reference value or an error.
func TestC18_ReaderArbitrary(t *testing.T) {
	ev := harn.For("C18").Rule(c18Rule)
	harn.Check(t, 20000, 1000000, func(t *rapid.T) {
		data := c18GenData(t)
		op := rapid.IntRange(0, 8).Draw(t, "op")
		maxint := rapid.OneOf(rapid.Just(uint64(0)), rapid.Uint64Range(0, 0x200), rapid.Uint64()).Draw(t, "maxint")
		short := false
		c18NoPanic(t, "serialization reader", func() {
			r := bytes.NewReader(data)
			fixed := func(n int, v uint64, err error) {
				if len(data) < n {
					short = true
					if err == nil {
						t.Fatalf("op %d: %d bytes, needs %d, no error", op, len(data), n)
					}
					return
				}
				if err != nil || v != c18LE(data[:n]) {
					t.Fatalf("op %d on %x: got %d, %v; reference %d", op, data, v, err, c18LE(data[:n]))
				}
				if r.Len() != len(data)-n {
					t.Fatalf("op %d consumed %d bytes, want %d", op, len(data)-r.Len(), n)
				}
			}
			switch op {
			case 0:
				v, err := serialization.ReadUint8(r)
				fixed(1, uint64(v), err)
			case 1:
				v, err := serialization.ReadUint16(r)
				fixed(2, uint64(v), err)
			case 2:
				v, err := serialization.ReadUint32(r)
				fixed(4, uint64(v), err)
			case 3:
				v, err := serialization.ReadUint64(r)
				fixed(8, v, err)
			case 4:
				v, err := serialization.ReadByte(r)
				fixed(1, uint64(v), err)
			case 5:
				want, wsz, complete := c18RefVarDec(data, 0)
				v, err := serialization.ReadVarUint(r, maxint)
				lim := maxint
				if lim == 0 {
					lim = ^uint64(0)
				}
				switch {
				case !complete:
					short = true
					if err == nil {
						t.Fatalf("ReadVarUint(%x): incomplete, no error", data)
					}
				case want > lim:
					short = true
					if !errors.Is(err, serialization.ErrRange) {
						t.Fatalf("ReadVarUint(%x, max %d) = %d, %v; want ErrRange", data, maxint, v, err)
					}
				default:
					if err != nil || v != want || r.Len() != len(data)-int(wsz) {
						t.Fatalf("ReadVarUint(%x, max %d) = %d, %v; reference %d size %d", data, maxint, v, err, want, wsz)
					}
				}
			case 6, 7:
				want, wsz, complete := c18RefVarDec(data, 0)
				var d []byte
				var err error
				if op == 6 {
					d, err = serialization.ReadVarBytes(r)
				} else {
					var s string
					s, err = serialization.ReadString(r)
					d = []byte(s)
				}
				if !complete || want > uint64(len(data))-wsz {
					short = true
					if err == nil {
						t.Fatalf("ReadVarBytes(%x): short input accepted", data)
					}
				} else if err != nil || !bytes.Equal(d, data[wsz:wsz+want]) {
					t.Fatalf("ReadVarBytes(%x) = %x, %v", data, d, err)
				}
			default:
				n := rapid.OneOf(rapid.Uint64Range(0, 64), rapid.Just(uint64(len(data))), rapid.Just(uint64(len(data))+1),
					rapid.SampledFrom([]uint64{1 << 21, 1<<21 + 1, 1 << 31, 1 << 32, 1<<63 - 1, 1 << 63, ^uint64(0)})).Draw(t, "n")
				d, err := serialization.ReadBytes(r, n)
				if n > uint64(len(data)) {
					short = true
					if err == nil {
						t.Fatalf("ReadBytes(%d) on %d bytes: no error", n, len(data))
					}
				} else if err != nil || !bytes.Equal(d, data[:n]) {
					t.Fatalf("ReadBytes(%d) on %x = %x, %v", n, data, d, err)
				}
			}
		})
		if short {
			ev.Class("reader:rejected")
		} else {
			ev.Class("reader:ok")
		}
		ev.Case(short, fmt.Sprintf("reader op=%d max=%d data=%x", op, maxint, data))
	})
}

// FuzzC18_Source: coverage-guided (data, script) pairs under the same cursor-model oracle.
func FuzzC18_Source(f *testing.F) {
	f.Add([]byte{0xFD, 0x01, 0x00, 0xFE, 0xFF, 0xFF, 0x00, 0x00}, []byte{9, 9, 15, 3, 16, 4})
	f.Add([]byte{0x03, 'a', 'b', 'c', 0xFF, 1, 0, 0, 0, 0, 0, 0, 0}, []byte{10, 20, 17, 1, 11})
	f.Add(bytes.Repeat([]byte{0xFC}, 40), []byte{12, 13, 14, 15, 12, 16, 28, 17, 3, 21, 22})
	f.Add([]byte{}, []byte{0, 2, 9, 10, 15, 4})
	s := common.NewZeroCopySink(nil)
	s.WriteVarBytes(bytes.Repeat([]byte{7}, 0xFD))
	s.WriteVarUint(0x10000)
	s.WriteBool(true)
	f.Add(append([]byte{}, s.Bytes()...), []byte{21, 9, 2, 2})
	var le [8]byte
	binary.LittleEndian.PutUint64(le[:], 1<<63)
	f.Add(append([]byte{0xFF}, le[:]...), []byte{10, 11, 21, 22})
	f.Fuzz(func(t *testing.T, data, script []byte) {
		if len(data) > 1<<16 || len(script) > 256 {
			return
		}
		if msg, _ := c18RunScript(data, script, func(string) {}); msg != "" {
			t.Fatal(msg)
		}
	})
}
