package ledger

// C02 Every node derives the same state from the same blocks.
//
// Differential over three replicas created from one genesis:
//   A  consensus member: runs the transaction validator on every tx object, executes those objects
//      (ExecuteBlock + SubmitBlock);
//   B  syncing node in the same process: receives block.ToArray(), decodes it with
//      BlockFromRawBytes and commits it with AddBlock using A's state root;
//   C  syncing node in a FRESH OS PROCESS (different map seeds, nothing shared), via internal/iso.
// Compared per block: state-change hash, state merkle root, cross-state root, bloom, the sorted
// write set and every transaction's ExecuteNotify (state, gas, notifications).

import (
	"bytes"
	"crypto/sha256"
	"encoding/hex"
	"encoding/json"
	"fmt"
	"math/big"
	"os"
	"path/filepath"
	"sort"
	"strings"
	"testing"
	"time"

	ethcommon "github.com/ethereum/go-ethereum/common"
	ethtypes "github.com/ethereum/go-ethereum/core/types"
	"github.com/ontio/ontology-crypto/keypair"
	"github.com/ontio/ontology/common"
	"github.com/ontio/ontology/common/config"
	"github.com/ontio/ontology/common/constants"
	"github.com/ontio/ontology/core/payload"
	"github.com/ontio/ontology/core/program"
	"github.com/ontio/ontology/core/signature"
	"github.com/ontio/ontology/core/store"
	"github.com/ontio/ontology/core/types"
	cutils "github.com/ontio/ontology/core/utils"
	"github.com/ontio/ontology/core/validation"
	ontErrors "github.com/ontio/ontology/errors"
	"github.com/ontio/ontology/smartcontract/service/native/global_params"
	"github.com/ontio/ontology/smartcontract/service/native/ont"
	nutils "github.com/ontio/ontology/smartcontract/service/native/utils"
	"github.com/ontio/ontology/smartcontract/service/neovm"
	"pgregory.net/rapid"

	"verifharness/internal/fix"
	"verifharness/internal/harn"
	"verifharness/internal/iso"
)

const c02ChainID = 12345

// ---- accounts --------------------------------------------------------------------------------

type c02Acct struct {
	Name string
	Addr common.Address
	Keys []*fix.ZooKey // n keys
	M    int           // threshold (1 with one key = single sig)
	Eth  bool          // ethereum-type single key (C17 class)
}

func c02Accounts() []*c02Acct {
	single := func(k fix.KeyKind, i int) *c02Acct {
		z := fix.Key(k, i)
		return &c02Acct{Name: fmt.Sprintf("%s#%d", k, i), Addr: z.Address, Keys: []*fix.ZooKey{z}, M: 1, Eth: k == fix.KEth}
	}
	multi := func(name string, m int, ks ...*fix.ZooKey) *c02Acct {
		var pks []keypair.PublicKey
		for _, k := range ks {
			pks = append(pks, k.PublicKey)
		}
		a, err := types.AddressFromMultiPubKeys(pks, m)
		if err != nil {
			panic(err)
		}
		return &c02Acct{Name: name, Addr: a, Keys: ks, M: m}
	}
	return []*c02Acct{
		single(fix.KP256, 0), // bookkeeper, genesis owner
		single(fix.KP256, 1),
		single(fix.KP224, 0),
		single(fix.KP384, 0),
		single(fix.KP521, 0),
		single(fix.KSM2, 0),
		single(fix.KEd25519, 0),
		multi("2of3[P256#2,SM2#1,Ed#1]", 2, fix.Key(fix.KP256, 2), fix.Key(fix.KSM2, 1), fix.Key(fix.KEd25519, 1)),
		multi("1of2[P384#1,P256#3]", 1, fix.Key(fix.KP384, 1), fix.Key(fix.KP256, 3)),
		multi("3of3[P256#4,P256#5,P224#1]", 3, fix.Key(fix.KP256, 4), fix.Key(fix.KP256, 5), fix.Key(fix.KP224, 1)),
		single(fix.KSecp256k1, 0), // generic ECDSA key on the ethereum curve (script-hash address, not keccak)
		single(fix.KEth, 0),       // index 11 (last): ethereum-type key used in an Ontology-format tx
	}
}

const c02EthAcct = 11

// c02Attach appends the account's signature set to the tx (signing with the first M keys, or a
// generated subset of size M when pick != nil).
func c02Attach(mtx *types.MutableTransaction, a *c02Acct, pick []int) error {
	if len(a.Keys) == 1 {
		h := mtx.Hash()
		sig, err := signature.Sign(a.Keys[0], h[:])
		if err != nil {
			return err
		}
		mtx.Sigs = append(mtx.Sigs, types.Sig{PubKeys: []keypair.PublicKey{a.Keys[0].PublicKey}, M: 1, SigData: [][]byte{sig}})
		return nil
	}
	var with []*fix.ZooKey
	if pick == nil {
		with = a.Keys[:a.M]
	} else {
		for _, i := range pick {
			with = append(with, a.Keys[i])
		}
	}
	return fix.MultiSign(mtx, a.Keys, a.M, with)
}

// ---- tiny NeoVM assembler ---------------------------------------------------------------------

type c02Asm struct{ b []byte }

func (a *c02Asm) op(o byte) *c02Asm { a.b = append(a.b, o); return a }
func (a *c02Asm) pushBytes(d []byte) *c02Asm {
	switch {
	case len(d) == 0:
		a.b = append(a.b, 0x00)
	case len(d) <= 75:
		a.b = append(append(a.b, byte(len(d))), d...)
	default:
		a.b = append(append(a.b, 0x4c, byte(len(d))), d...)
	}
	return a
}
func (a *c02Asm) pushInt(n int) *c02Asm {
	switch {
	case n == 0:
		a.b = append(a.b, 0x00)
	case n >= 1 && n <= 16:
		a.b = append(a.b, byte(0x50+n))
	default:
		a.pushBytes(common.BigIntToNeoBytes(big.NewInt(int64(n))))
	}
	return a
}
func (a *c02Asm) syscall(name string) *c02Asm {
	a.b = append(append(a.b, 0x68, byte(len(name))), name...)
	return a
}

// witnessProbe: CheckWitness(addr) for every candidate, packed into an array and notified.
func c02WitnessProbe(cands []common.Address) []byte {
	a := &c02Asm{}
	for i := len(cands) - 1; i >= 0; i-- {
		a.pushBytes(cands[i][:]).syscall("System.Runtime.CheckWitness")
	}
	a.pushInt(len(cands)).op(0xC1).syscall("System.Runtime.Notify")
	return a.b
}

// mapProbe: build a map from the generated entries; notify its KEYS, its VALUES and its serialization.
func c02MapProbe(keys [][]byte, vals []int) []byte {
	a := &c02Asm{}
	a.op(0xC7)
	for i := range keys {
		a.op(0x76).pushBytes(keys[i]).pushInt(vals[i]).op(0xC4)
	}
	a.op(0x76).op(0xCC).syscall("System.Runtime.Notify") // KEYS
	a.op(0x76).op(0xCD).syscall("System.Runtime.Notify") // VALUES
	a.syscall("System.Runtime.Serialize").syscall("System.Runtime.Notify")
	return a.b
}

// ---- replica C (fresh process) ----------------------------------------------------------------

type c02WorkIn struct{ Blocks []string }
type c02WorkOut struct {
	Err   string
	Roots []string // per block: state merkle root | change hash | write-set digest | notify digest
}

func c02Digest(res store.ExecuteResult) string {
	h := sha256.New()
	res.WriteSet.ForEach(func(k, v []byte) { fmt.Fprintf(h, "%x=%x;", k, v) })
	ws := fmt.Sprintf("%x", h.Sum(nil))
	nj, _ := json.Marshal(res.Notify)
	return fmt.Sprintf("root=%s hash=%s cross=%s bloom=%x ws=%s notify=%x", res.MerkleRoot.ToHexString(), res.Hash.ToHexString(),
		res.CrossStatesRoot.ToHexString(), sha256.Sum256(res.Bloom[:]), ws, sha256.Sum256(nj))
}

func init() {
	iso.Register("c02-replica", func(in []byte) []byte {
		var req c02WorkIn
		out := c02WorkOut{}
		reply := func() []byte { b, _ := json.Marshal(out); return b }
		if err := json.Unmarshal(in, &req); err != nil {
			out.Err = err.Error()
			return reply()
		}
		dir, err := os.MkdirTemp("", "c02c-")
		if err != nil {
			out.Err = err.Error()
			return reply()
		}
		defer os.RemoveAll(dir)
		config.DefConfig.P2PNode.EVMChainId = c02ChainID
		ch, err := fix.NewSolo(filepath.Join(dir, "c"), fix.Key(fix.KP256, 0))
		if err != nil {
			out.Err = err.Error()
			return reply()
		}
		defer ch.Close()
		for i, hx := range req.Blocks {
			raw, _ := hex.DecodeString(hx)
			b, err := types.BlockFromRawBytes(raw)
			if err != nil {
				out.Err = fmt.Sprintf("block %d decode: %v", i, err)
				return reply()
			}
			res, err := ch.LS.ExecuteBlock(b)
			if err != nil {
				out.Err = fmt.Sprintf("block %d execute: %v", i, err)
				return reply()
			}
			if err := ch.LS.AddBlock(b, nil, res.MerkleRoot); err != nil {
				out.Err = fmt.Sprintf("block %d add: %v", i, err)
				return reply()
			}
			out.Roots = append(out.Roots, c02Digest(res))
		}
		return reply()
	})
}

// ---- the property ------------------------------------------------------------------------------

type c02TxDesc struct {
	Kind    string
	From    string
	Signers []string
	Extra   string
}

func TestC02_ReplicasAgree(t *testing.T) {
	ev := harn.For("C02").Rule("sequences of 2-5 blocks x 1-4 txs on three replicas from one genesis: native ONT/ONG transfers from single-key accounts of every key type (P-224/256/384/521, secp256k1, SM2, Ed25519) and m-of-n accounts (2of3, 1of2, 3of3 with generated signer subsets and extra co-signers), NeoVM scripts that CheckWitness every candidate account and notify the vector, scripts that build/serialize/notify maps with 2-8 generated keys, NeoVM deploys, EIP-155 transfers and creations (with LOG), Ontology-format txs signed by an ethereum-type key; replica A validates then executes the objects, B decodes the block bytes and syncs, C does the same in a fresh OS process. Non-trivial = block carrying a tx signed by a non-P256 or multi-sig account, a witness/map probe, or an EIP-155 tx; distinct by the block's tx descriptors").
		Assume("both replicas are created from the same genesis block and configuration (network id 3, EVM chain id 12345)")
	config.DefConfig.P2PNode.EVMChainId = c02ChainID
	accts := c02Accounts()
	var cands []common.Address
	for _, a := range accts {
		cands = append(cands, a.Addr)
	}
	// addresses nobody can sign for: they must be witnessed on no replica
	var allFF common.Address
	for i := range allFF {
		allFF[i] = 0xff
	}
	cands = append(cands, common.ADDRESS_EMPTY, allFF, nutils.OntContractAddress, nutils.GovernanceContractAddress)
	evm := []*fix.ZooKey{fix.Key(fix.KEth, 1), fix.Key(fix.KEth, 2)}
	signer := ethtypes.NewEIP155Signer(big.NewInt(c02ChainID))
	worker := iso.New("c02-replica")
	defer worker.Close()

	// Known finding shared with C17: the validator derives signer addresses from parsed keys, a node
	// decoding the block from the raw verification script; for an ethereum-type key these differ.
	ethClassKnown := false
	{
		stillFails, err := c02EthWitnessDiverges(accts)
		if err != nil {
			t.Fatalf("witness replay: %v", err)
		}
		ethClassKnown = harn.Known("C02", "validator-vs-raw-signer-derivation", stillFails)
	}

	harn.Check(t, 16, 900, func(t *rapid.T) {
		base, err := os.MkdirTemp("", "c02-")
		if err != nil {
			t.Fatal(err)
		}
		defer os.RemoveAll(base)
		A, err := fix.NewSolo(filepath.Join(base, "a"), accts[0].Keys[0])
		if err != nil {
			t.Fatal(err)
		}
		defer A.Close()
		B, err := fix.NewSolo(filepath.Join(base, "b"), accts[0].Keys[0])
		if err != nil {
			t.Fatal(err)
		}
		defer B.Close()
		if A.Genesis.Hash() != B.Genesis.Hash() {
			t.Fatalf("harness: genesis differs")
		}

		var rawBlocks []string
		var digestsA []string
		commit := func(txs []*types.Transaction, descs []c02TxDesc, judged bool) {
			for i, tx := range txs {
				if code := validation.VerifyTransaction(tx); code != ontErrors.ErrNoError {
					t.Fatalf("harness: generated tx %+v rejected by the validator: %v", descs[i], code)
				}
			}
			b, err := A.MakeBlock(txs, 0)
			if err != nil {
				t.Fatal(err)
			}
			resA, err := A.LS.ExecuteBlock(b)
			if err != nil {
				t.Fatalf("replica A cannot execute its own block %+v: %v", descs, err)
			}
			if err := A.LS.SubmitBlock(b, nil, resA); err != nil {
				t.Fatalf("replica A cannot submit its own block: %v", err)
			}
			raw := b.ToArray()
			b2, err := types.BlockFromRawBytes(raw)
			if err != nil {
				t.Fatalf("block produced by A does not decode: %v", err)
			}
			resB, err := B.LS.ExecuteBlock(b2)
			if err != nil {
				t.Fatalf("replica B cannot execute the block A sealed (%+v): %v", descs, err)
			}
			dA, dB := c02Digest(resA), c02Digest(resB)
			if dA != dB {
				t.Fatalf("replicas disagree on block %d %+v:\n A(validated objects): %s\n B(decoded bytes):     %s\n notifyA=%s\n notifyB=%s", b.Header.Height, descs, dA, dB, c02Notify(resA), c02Notify(resB))
			}
			if err := B.LS.AddBlock(b2, nil, resA.MerkleRoot); err != nil {
				t.Fatalf("syncing replica rejects the block sealed by A (%+v): %v", descs, err)
			}
			ra, _ := A.LS.GetStateMerkleRoot(b.Header.Height)
			rb, _ := B.LS.GetStateMerkleRoot(b.Header.Height)
			if ra != rb || A.LS.GetCurrentBlockHash() != B.LS.GetCurrentBlockHash() {
				t.Fatalf("committed state roots differ at height %d", b.Header.Height)
			}
			rawBlocks = append(rawBlocks, hex.EncodeToString(raw))
			digestsA = append(digestsA, dA)
			if judged {
				nt := false
				var ds []string
				for _, d := range descs {
					if d.Kind != "transfer" || !strings.HasPrefix(d.From, "P256") || len(d.Signers) > 1 {
						nt = true
					}
					ds = append(ds, fmt.Sprintf("%s/%s/%v/%s", d.Kind, d.From, d.Signers, d.Extra))
					ev.Class("tx:" + d.Kind)
				}
				for i, n := range resA.Notify {
					if i < len(descs) {
						ev.Class(fmt.Sprintf("exec:%s:state%d", descs[i].Kind, n.State))
					}
				}
				ev.Case(nt, strings.Join(ds, " | "))
			}
		}

		// funding block: every account gets ONT and ONG, EVM senders get ONG
		var fund []*types.Transaction
		var fd []c02TxDesc
		for _, a := range accts[1:] {
			for _, tok := range []common.Address{nutils.OntContractAddress, nutils.OngContractAddress} {
				amt := uint64(100000)
				if tok == nutils.OngContractAddress {
					amt = 400000000000
				}
				tx, err := A.Transfer(tok, accts[0].Keys[0], a.Addr, amt, 0, 20000)
				if err != nil {
					t.Fatal(err)
				}
				fund = append(fund, tx)
				fd = append(fd, c02TxDesc{Kind: "fund"})
			}
		}
		for _, e := range evm {
			tx, err := A.Transfer(nutils.OngContractAddress, accts[0].Keys[0], common.Address(ethAddr(e)), 50000000000, 0, 20000)
			if err != nil {
				t.Fatal(err)
			}
			fund = append(fund, tx)
			fd = append(fd, c02TxDesc{Kind: "fund"})
		}
		commit(fund, fd, false)

		evmNonce := map[int]uint64{}
		paramsChanged := false
		nBlocks := rapid.IntRange(2, 5).Draw(t, "blocks")
		for bi := 0; bi < nBlocks; bi++ {
			nTx := rapid.IntRange(1, 4).Draw(t, "ntx")
			var txs []*types.Transaction
			var descs []c02TxDesc
			for j := 0; j < nTx; j++ {
				kind := rapid.SampledFrom([]string{"transfer", "transfer", "transfer", "witness-probe", "witness-probe", "map-probe", "deploy", "deploy", "evm-transfer", "evm-create", "eth-key-ont-tx", "param-change", "param-change"}).Draw(t, "kind")
				if kind == "eth-key-ont-tx" && ethClassKnown {
					ev.Excluded()
					kind = "witness-probe"
				}
				// gas price of the Ontology-format kinds: with a non-zero price the governed gas table
				// (global params, refreshed into a process-wide table per block) decides fees
				gasPrice := rapid.SampledFrom([]uint64{0, 2500, 2500}).Draw(t, "gasprice")
				if paramsChanged {
					// once prices were changed every following tx pays fees, and most of them are deploys
					// (fees are rounded up to 20000-gas units, so only large prices show in balances)
					gasPrice = 2500
					if kind != "param-change" && rapid.IntRange(0, 2).Draw(t, "deploy-after-change") > 0 {
						kind = "deploy"
					}
				}
				d := c02TxDesc{Kind: kind}
				switch kind {
				case "param-change":
					// the operator (genesis bookkeeper) re-prices 1-4 governed gas-table entries and
					// activates them with a snapshot; later blocks are charged by the new prices
					var ps global_params.Params
					var names []string
					for n := rapid.IntRange(1, 4).Draw(t, "nparams"); n > 0; n-- {
						key := rapid.SampledFrom(c02GovernedKeys).Draw(t, "pkey")
						if rapid.Bool().Draw(t, "deploy-price") {
							key = rapid.SampledFrom([]string{neovm.CONTRACT_CREATE_NAME, neovm.UINT_DEPLOY_CODE_LEN_NAME, neovm.NATIVE_INVOKE_NAME, neovm.RUNTIME_CHECKWITNESS_NAME}).Draw(t, "pkey2")
						}
						init := neovm.INIT_GAS_TABLE[key]
						val := rapid.SampledFrom([]uint64{0, 1, init / 2, init + 1, init * 2, init * 3, 25000, 60000}).Draw(t, "pval")
						ps.SetParam(global_params.Param{Key: key, Value: fmt.Sprint(val)})
						names = append(names, fmt.Sprintf("%s=%d", key, val))
					}
					op := accts[0]
					for _, call := range []struct {
						method string
						arg    interface{}
					}{{global_params.SET_GLOBAL_PARAM_NAME, ps}, {global_params.CREATE_SNAPSHOT_NAME, ""}} {
						mtx, err := A.NativeInvoke(nutils.ParamContractAddress, call.method, []interface{}{call.arg}, gasPrice, 200000)
						if err != nil {
							t.Fatal(err)
						}
						mtx.Payer = op.Addr
						if err := c02Attach(mtx, op, nil); err != nil {
							t.Fatal(err)
						}
						tx, err := mtx.IntoImmutable()
						if err != nil {
							t.Fatal(err)
						}
						txs = append(txs, tx)
						descs = append(descs, c02TxDesc{Kind: "param-change", From: op.Name, Signers: []string{op.Name}, Extra: call.method + " " + strings.Join(names, ",")})
					}
					paramsChanged = true
					continue
				case "transfer", "witness-probe", "map-probe", "deploy", "eth-key-ont-tx":
					fromIdx := rapid.IntRange(0, len(accts)-2).Draw(t, "from") // without the eth-type account
					if kind == "eth-key-ont-tx" {
						fromIdx = c02EthAcct
					}
					from := accts[fromIdx]
					d.From = from.Name
					d.Extra = fmt.Sprintf("gp%d ", gasPrice)
					if gasPrice > 0 && paramsChanged {
						ev.Class("fee-paying tx after a gas-price change")
					}
					var mtx *types.MutableTransaction
					switch kind {
					case "transfer", "eth-key-ont-tx":
						tok := nutils.OntContractAddress
						if rapid.Bool().Draw(t, "ong") {
							tok = nutils.OngContractAddress
						}
						to := accts[rapid.IntRange(0, len(accts)-1).Draw(t, "to")]
						amt := rapid.OneOf(rapid.Uint64Range(0, 50), rapid.Just(uint64(1)<<61)).Draw(t, "amt")
						st := &ont.TransferState{From: from.Addr, To: to.Addr, Value: amt}
						mtx, err = A.NativeInvoke(tok, "transfer", []interface{}{[]*ont.TransferState{st}}, gasPrice, rapid.SampledFrom([]uint64{20000, 200000}).Draw(t, "gaslimit"))
						if err != nil {
							t.Fatal(err)
						}
						d.Extra += fmt.Sprintf("%x->%s:%d", tok[19], to.Name, amt)
					case "witness-probe":
						mtx = A.RawInvoke(c02WitnessProbe(cands), gasPrice, 200000)
					case "map-probe":
						n := rapid.IntRange(2, 8).Draw(t, "mapn")
						seen := map[string]bool{}
						var ks [][]byte
						var vs []int
						for len(ks) < n {
							k := rapid.SliceOfN(rapid.Byte(), 1, 6).Draw(t, "mk")
							if seen[string(k)] {
								continue
							}
							seen[string(k)] = true
							ks = append(ks, k)
							vs = append(vs, rapid.IntRange(0, 300).Draw(t, "mv"))
						}
						mtx = A.RawInvoke(c02MapProbe(ks, vs), gasPrice, 200000)
						d.Extra += fmt.Sprintf("map%d", n)
					case "deploy":
						code := append(c02WitnessProbe(cands[:2]), rapid.SliceOfN(rapid.Byte(), 0, 8).Draw(t, "codetail")...)
						// 0-3 whole code-length units (Deploy.Code.Gas is charged per unit)
						code = append(code, make([]byte, neovm.PER_UNIT_CODE_LEN*rapid.IntRange(0, 3).Draw(t, "codeunits"))...)
						mtx, err = cutils.NewDeployTransaction(code, "n", "v", "a", "e", "d", payload.NEOVM_TYPE)
						if err != nil {
							t.Fatal(err)
						}
						A.NonceCt++
						mtx.Nonce = A.NonceCt
						mtx.GasLimit = 70000000
						mtx.GasPrice = gasPrice
					}
					mtx.Payer = from.Addr
					// signer sets: the payer account plus 0-2 generated co-signers
					set := []*c02Acct{from}
					for k := rapid.IntRange(0, 2).Draw(t, "cosigners"); k > 0; k-- {
						c := accts[rapid.IntRange(0, len(accts)-2).Draw(t, "cosigner")]
						dup := false
						for _, s := range set {
							if s == c {
								dup = true
							}
						}
						if !dup {
							set = append(set, c)
						}
					}
					order := rapid.Permutation(set).Draw(t, "sigorder")
					for _, s := range order {
						var pick []int
						if len(s.Keys) > 1 {
							perm := rapid.Permutation(seq(len(s.Keys))).Draw(t, "pick")
							pick = perm[:s.M]
						}
						if err := c02Attach(mtx, s, pick); err != nil {
							t.Fatal(err)
						}
						d.Signers = append(d.Signers, s.Name)
					}
					tx, err := mtx.IntoImmutable()
					if err != nil {
						t.Fatal(err)
					}
					// a non-canonical spelling of the payer's verification script (complete single-key script,
					// then the terminator again): if the validator accepts it at all, the node that validated
					// and the nodes that decode the bytes must still derive the same signers and state
					if kind == "transfer" && len(from.Keys) == 1 && len(set) == 1 && rapid.IntRange(0, 5).Draw(t, "respell-script") == 0 {
						prog := program.ProgramFromPubKey(from.Keys[0].PublicKey)
						raw := tx.ToArray()
						if i := bytes.LastIndex(raw, append([]byte{byte(len(prog))}, prog...)); i >= 0 && len(prog) < 0xfc {
							alt := append([]byte{}, raw[:i]...)
							alt = append(alt, byte(len(prog)+1))
							alt = append(alt, prog...)
							alt = append(alt, prog[len(prog)-1]) // CHECKSIG once more
							alt = append(alt, raw[i+1+len(prog):]...)
							if tx2, err := types.TransactionFromRawBytes(alt); err == nil {
								if code := validation.VerifyTransaction(tx2); code == ontErrors.ErrNoError {
									tx = tx2
									d.Extra += " script+CHECKSIG:accepted-by-validator"
									ev.Class("respelt-script:accepted-by-validator")
								} else {
									ev.Class("respelt-script:rejected-by-validator")
								}
							} else {
								ev.Class("respelt-script:rejected-by-decoder")
							}
						}
					}
					txs = append(txs, tx)
				case "evm-transfer", "evm-create":
					si := rapid.IntRange(0, len(evm)-1).Draw(t, "evmsender")
					d.From = fmt.Sprintf("evm#%d", si)
					gp := new(big.Int).Mul(big.NewInt(int64(rapid.SampledFrom([]int{0, 500, 2500}).Draw(t, "gp"))), big.NewInt(constants.GWei))
					var etx *ethtypes.Transaction
					if kind == "evm-transfer" {
						to := ethAddr(evm[rapid.IntRange(0, len(evm)-1).Draw(t, "evmto")])
						val := big.NewInt(int64(rapid.IntRange(0, 1000).Draw(t, "val")))
						val.Mul(val, big.NewInt(constants.GWei))
						etx = ethtypes.NewTransaction(evmNonce[si], to, val, 100000, gp, nil)
					} else {
						topic := rapid.SliceOfN(rapid.Byte(), 32, 32).Draw(t, "topic")
						// PUSH32 topic PUSH1 0 PUSH1 0 LOG1 ; PUSH1 0 PUSH1 0 RETURN
						init := append(append([]byte{0x7f}, topic...), 0x60, 0x00, 0x60, 0x00, 0xa1, 0x60, 0x00, 0x60, 0x00, 0xf3)
						etx = ethtypes.NewContractCreation(evmNonce[si], big.NewInt(0), 200000, gp, init)
					}
					evmNonce[si]++
					signed, err := ethtypes.SignTx(etx, signer, evm[si].EthECDSA())
					if err != nil {
						t.Fatal(err)
					}
					tx, err := types.TransactionFromEIP155(signed)
					if err != nil {
						t.Fatal(err)
					}
					txs = append(txs, tx)
				}
				descs = append(descs, d)
			}
			commit(txs, descs, true)
		}

		// replica C: fresh process
		in, _ := json.Marshal(c02WorkIn{Blocks: rawBlocks})
		r := worker.Do(in, 120*time.Second)
		if r.TimedOut {
			ev.Class("replicaC:timeout")
			return
		}
		if r.Died {
			t.Fatalf("replica C (fresh process) died while syncing the blocks: %s", r.Diag)
		}
		var out c02WorkOut
		if err := json.Unmarshal(r.Out, &out); err != nil {
			t.Fatalf("replica C reply: %v", err)
		}
		if out.Err != "" {
			t.Fatalf("replica C (fresh process) fails on blocks A and B accepted: %s", out.Err)
		}
		for i := range digestsA {
			if i >= len(out.Roots) || out.Roots[i] != digestsA[i] {
				t.Fatalf("replica C (fresh process) disagrees at block %d:\n A: %s\n C: %v", i+1, digestsA[i], out.Roots)
			}
		}
		ev.Class("replicaC:agreed")
	})
}

// governed gas-table entries a param-change re-prices (the wasm factor is left alone: 0 divides)
var c02GovernedKeys = func() []string {
	var ks []string
	for _, k := range neovm.GAS_TABLE_KEYS {
		if _, ok := neovm.INIT_GAS_TABLE[k]; ok && k != config.WASM_GAS_FACTOR {
			ks = append(ks, k)
		}
	}
	return ks
}()

func seq(n int) []int {
	out := make([]int, n)
	for i := range out {
		out[i] = i
	}
	return out
}

func ethAddr(z *fix.ZooKey) ethcommon.Address {
	return ethcommon.Address(z.Address)
}

func c02Notify(res store.ExecuteResult) string {
	b, _ := json.Marshal(res.Notify)
	if len(b) > 1500 {
		b = b[:1500]
	}
	return string(b)
}

// c02EthWitnessDiverges replays the deterministic witness of the shared C17/C02 finding: an ONT
// transfer from the account of an ethereum-type key, signed with that key in an Ontology-format tx.
func c02EthWitnessDiverges(accts []*c02Acct) (bool, error) {
	base, err := os.MkdirTemp("", "c02w-")
	if err != nil {
		return false, err
	}
	defer os.RemoveAll(base)
	A, err := fix.NewSolo(filepath.Join(base, "a"), accts[0].Keys[0])
	if err != nil {
		return false, err
	}
	defer A.Close()
	eth := accts[c02EthAcct]
	f1, err := A.Transfer(nutils.OntContractAddress, accts[0].Keys[0], eth.Addr, 1000, 0, 20000)
	if err != nil {
		return false, err
	}
	if _, _, err := A.AddTxs([]*types.Transaction{f1}); err != nil {
		return false, err
	}
	st := &ont.TransferState{From: eth.Addr, To: accts[1].Addr, Value: 7}
	mtx, err := A.NativeInvoke(nutils.OntContractAddress, "transfer", []interface{}{[]*ont.TransferState{st}}, 0, 20000)
	if err != nil {
		return false, err
	}
	mtx.Payer = eth.Addr
	if err := c02Attach(mtx, eth, nil); err != nil {
		return false, err
	}
	tx, err := mtx.IntoImmutable()
	if err != nil {
		return false, err
	}
	if validation.VerifyTransaction(tx) != ontErrors.ErrNoError {
		return false, nil // validator no longer accepts it: nothing to diverge on
	}
	b, err := A.MakeBlock([]*types.Transaction{tx}, 0)
	if err != nil {
		return false, err
	}
	resA, err := A.LS.ExecuteBlock(b)
	if err != nil {
		return false, err
	}
	b2, err := types.BlockFromRawBytes(b.ToArray())
	if err != nil {
		return false, err
	}
	resB, err := A.LS.ExecuteBlock(b2)
	if err != nil {
		return false, err
	}
	return c02Digest(resA) != c02Digest(resB), nil
}

var _ = sort.Strings
