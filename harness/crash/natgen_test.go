package crash

// Generator of kind (b): a short VALID history of native calls (open-loop model of the state it
// builds) followed by ONE hostile native call.

import (
	"encoding/binary"
	"encoding/hex"
	"fmt"
	"math/big"
	"sort"

	"github.com/ontio/ontology/common"
	"pgregory.net/rapid"
)

// ---------------------------------------------------------------------------------------------
// argument encoder (the encodings the native decoders read)

type enc struct {
	b     []byte
	marks []int // offset of every length-prefixed atom (var-bytes / var-uint / count) written
}

func (e *enc) vb(b []byte) *enc {
	e.marks = append(e.marks, len(e.b))
	s := common.NewZeroCopySink(nil)
	s.WriteVarBytes(b)
	e.b = append(e.b, s.Bytes()...)
	return e
}
func (e *enc) vbig(x *big.Int) *enc { return e.vb(common.BigIntToNeoBytes(x)) }
func (e *enc) vu(u uint64) *enc     { return e.vbig(new(big.Int).SetUint64(u)) }
func (e *enc) str(s string) *enc    { return e.vb([]byte(s)) }
func (e *enc) bool(v bool) *enc {
	if v {
		e.b = append(e.b, 1)
	} else {
		e.b = append(e.b, 0)
	}
	return e
}
func (e *enc) raw(b []byte) *enc { e.b = append(e.b, b...); return e }
func (e *enc) u32(v uint32) *enc {
	var l [4]byte
	binary.LittleEndian.PutUint32(l[:], v)
	return e.raw(l[:])
}
func (e *enc) u64(v uint64) *enc {
	var l [8]byte
	binary.LittleEndian.PutUint64(l[:], v)
	return e.raw(l[:])
}
func (e *enc) rawVarUint(v uint64) *enc {
	s := common.NewZeroCopySink(nil)
	s.WriteVarUint(v)
	return e.raw(s.Bytes())
}

// hostile numbers: every index/count/amount of the final call is drawn from here (plus the
// lengths the model knows).
func hostileBig(t *rapid.T, lens ...int) *big.Int {
	pool := []*big.Int{big.NewInt(0), big.NewInt(1), big.NewInt(2), big.NewInt(1 << 31), big.NewInt(1<<32 - 1), big.NewInt(1 << 32),
		new(big.Int).Lsh(big.NewInt(1), 63), new(big.Int).Sub(new(big.Int).Lsh(big.NewInt(1), 63), big.NewInt(1)),
		new(big.Int).Sub(new(big.Int).Lsh(big.NewInt(1), 64), big.NewInt(1)), new(big.Int).Lsh(big.NewInt(1), 64),
		big.NewInt(-1), big.NewInt(255), big.NewInt(256), big.NewInt(1024), big.NewInt(1025), big.NewInt(65535)}
	for _, l := range lens {
		pool = append(pool, big.NewInt(int64(l)), big.NewInt(int64(l)+1))
		if l > 0 {
			pool = append(pool, big.NewInt(int64(l)-1))
		}
	}
	return pool[rng(t, 0, len(pool)-1, "hostile")]
}

// boundaryAmounts: the pool every token amount / numeric amount field is drawn from (besides small valid
// values): unit boundaries of the 9-decimal V2 encoding (whole multiples of 10^9 are stored as uint64
// integers, everything else as big numbers), machine-word and 128/256-bit boundaries, total supplies,
// and the negative forms the NeoVM integer encoding allows.
var boundaryAmounts = func() []*big.Int {
	p2 := func(n uint) *big.Int { return new(big.Int).Lsh(big.NewInt(1), n) }
	add := func(x *big.Int, k int64) *big.Int { return new(big.Int).Add(x, big.NewInt(k)) }
	e9 := big.NewInt(1000000000)
	mul9 := func(x *big.Int) *big.Int { return new(big.Int).Mul(x, e9) }
	pow10 := func(n int64) *big.Int { return new(big.Int).Exp(big.NewInt(10), big.NewInt(n), nil) }
	out := []*big.Int{big.NewInt(0), big.NewInt(1), add(e9, -1), e9, add(e9, 1)}
	for _, k := range []*big.Int{p2(32), p2(63), add(p2(64), -1), p2(64), add(p2(64), 1), p2(96), add(p2(128), -1), p2(196)} {
		out = append(out, mul9(k), add(mul9(k), 1), add(mul9(k), -1))
	}
	for _, n := range []uint{63, 64, 127, 128, 255, 256} {
		out = append(out, add(p2(n), -1), p2(n), add(p2(n), 1))
	}
	// total supplies: ONT 10^9 (v1) / 10^18 (V2), ONG 10^18 (v1) / 10^27 (V2)
	for _, sup := range []*big.Int{pow10(18), pow10(27)} {
		out = append(out, add(sup, -1), sup, add(sup, 1))
	}
	// largest whole / fractional amounts below 2^256
	q := new(big.Int).Div(add(p2(256), -1), e9)
	out = append(out, mul9(q), add(mul9(q), -1000000000))
	n := len(out)
	for _, x := range out[1:n] { // negative forms
		if x.BitLen() <= 64 || x.BitLen() == 128 || x.BitLen() > 255 {
			out = append(out, new(big.Int).Neg(x))
		}
	}
	return out
}()

func boundaryAmount(t *rapid.T) *big.Int { return boundaryAmounts[rng(t, 0, len(boundaryAmounts)-1, "bamount")] }

func hostileU64(t *rapid.T, lens ...int) uint64 {
	b := hostileBig(t, lens...)
	if b.Sign() < 0 {
		return ^uint64(0)
	}
	if !b.IsUint64() {
		return 1 << 63
	}
	return b.Uint64()
}

// ---------------------------------------------------------------------------------------------
// model of the state a history builds

type idState struct {
	n      int   // zooID index
	keys   []int // zoo key index of key #1, #2, ... (0 = revoked slot kept for numbering)
	ctrl   int   // controlling id (zooID index) or -1
	group  bool  // controlled by a group {ctrl} threshold 1
	recov  bool  // recovery group set
	nattr  int
	viaKey int // key whose witness authorises (owner key #1 or the controller's key #1)
}

type model struct {
	ids       map[int]*idState
	order     []int // registration order
	nextID    int
	cands     []int // zoo keys registered as governance candidates
	maxAuth   []int // candidates that accept authorisations
	approvals [][2]int
	authAdmin int // id index that is admin of the auth-managed contract, -1 none
	roles     []string
}

func newModel() *model { return &model{ids: map[int]*idState{}, authAdmin: -1} }

func (m *model) idList() []*idState {
	var out []*idState
	for _, n := range m.order {
		out = append(out, m.ids[n])
	}
	return out
}

var allSigners = []int{0, 1, 2, 3, 4, 5, 6, 7}

func groupBytes(members [][]byte, threshold uint64) []byte {
	e := &enc{}
	e.vu(uint64(len(members)))
	for _, mm := range members {
		e.vb(mm)
	}
	e.vu(threshold)
	return e.b
}

func signersBytes(ids [][]byte, idx []uint64) []byte {
	e := &enc{}
	e.vu(uint64(len(ids)))
	for i := range ids {
		e.vb(ids[i]).vu(idx[i])
	}
	return e.b
}

var hONTID, hONT, hONG, hAUTH, hGOV, hPARAM = natAddrHex("ontid"), natAddrHex("ont"), natAddrHex("ong"), natAddrHex("auth"), natAddrHex("gov"), natAddrHex("param")

// genHistory draws 0..6 calls that are valid by construction for the state built so far.
func genHistory(t *rapid.T, m *model, height uint32) []natCall {
	n := rng(t, 0, 6, "histLen")
	var h []natCall
	for len(h) < n {
		var acts []string
		acts = append(acts, "regPK", "regPK", "approve", "transfer")
		if len(m.order) > 0 {
			acts = append(acts, "regCtrl", "regCtrl", "regGroupCtrl", "addKey", "setRecovery", "addAttr", "authInit", "removeKey")
		}
		if m.authAdmin >= 0 {
			acts = append(acts, "authRole", "authAssign")
		}
		acts = append(acts, "regCand")
		if len(m.cands) > 0 && height >= 500000 {
			acts = append(acts, "maxAuth")
		}
		if len(m.maxAuth) > 0 {
			acts = append(acts, "authorize", "authorize")
		}
		switch pick(t, acts, "act") {
		case "regPK":
			k := rng(t, 1, zSM2, "key")
			id := m.nextID
			m.nextID++
			m.ids[id] = &idState{n: id, keys: []int{k}, ctrl: -1, viaKey: k}
			m.order = append(m.order, id)
			h = append(h, natCall{Contract: hONTID, Method: "regIDWithPublicKey", Args: (&enc{}).vb(zooID(id)).vb(zooPub(k)).b, Signers: []int{k}})
		case "regCtrl", "regGroupCtrl":
			// the controller must itself have a live key #1
			var cs []*idState
			for _, s := range m.idList() {
				if len(s.keys) > 0 && s.keys[0] != 0 {
					cs = append(cs, s)
				}
			}
			if len(cs) == 0 {
				continue
			}
			c := cs[rng(t, 0, len(cs)-1, "ctrl")]
			id := m.nextID
			m.nextID++
			grp := len(h)%2 == 1
			e := (&enc{}).vb(zooID(id))
			if grp {
				e.vb(groupBytes([][]byte{zooID(c.n)}, 1)).vb(signersBytes([][]byte{zooID(c.n)}, []uint64{1}))
			} else {
				e.vb(zooID(c.n)).vu(1)
			}
			m.ids[id] = &idState{n: id, ctrl: c.n, group: grp, viaKey: c.keys[0]}
			m.order = append(m.order, id)
			h = append(h, natCall{Contract: hONTID, Method: "regIDWithController", Args: e.b, Signers: []int{c.keys[0]}})
		case "addKey":
			s := m.pickOwned(t)
			if s == nil {
				continue
			}
			k := rng(t, 1, zSM2, "newkey")
			dup := false
			for _, kk := range s.keys {
				dup = dup || kk == k
			}
			if dup {
				continue
			}
			h = append(h, natCall{Contract: hONTID, Method: "addKey", Args: (&enc{}).vb(zooID(s.n)).vb(zooPub(k)).vb(zooPub(s.keys[0])).b, Signers: []int{s.keys[0]}})
			s.keys = append(s.keys, k)
		case "removeKey":
			s := m.pickOwned(t)
			if s == nil || len(s.keys) < 2 || s.keys[len(s.keys)-1] == 0 {
				continue
			}
			last := len(s.keys) - 1
			h = append(h, natCall{Contract: hONTID, Method: "removeKey", Args: (&enc{}).vb(zooID(s.n)).vb(zooPub(s.keys[last])).vb(zooPub(s.keys[0])).b, Signers: []int{s.keys[0]}})
			s.keys[last] = 0
		case "setRecovery":
			s := m.pickOwned(t)
			if s == nil || s.recov {
				continue
			}
			// recovery group = {another registered id with a live key #1, or itself}
			r := s
			for _, o := range m.idList() {
				if o != s && len(o.keys) > 0 && o.keys[0] != 0 {
					r = o
				}
			}
			h = append(h, natCall{Contract: hONTID, Method: "setRecovery", Args: (&enc{}).vb(zooID(s.n)).vb(groupBytes([][]byte{zooID(r.n)}, 1)).vu(1).b, Signers: []int{s.keys[0]}})
			s.recov = true
		case "addAttr":
			s := m.pickOwned(t)
			if s == nil {
				continue
			}
			e := (&enc{}).vb(zooID(s.n)).vu(2)
			for i := 0; i < 2; i++ {
				e.str(fmt.Sprintf("k%d", s.nattr+i)).str("string").str("value")
			}
			e.vb(zooPub(s.keys[0]))
			s.nattr += 2
			h = append(h, natCall{Contract: hONTID, Method: "addAttributes", Args: e.b, Signers: []int{s.keys[0]}})
		case "approve", "transfer":
			tok := hONT
			if len(h)%2 == 0 {
				tok = hONG
			}
			from := rng(t, 1, 7, "from")
			to := rng(t, 0, 7, "to")
			amt := uint64(rng(t, 1, 1000, "amt"))
			if len(h)%3 == 0 {
				h = append(h, natCall{Contract: tok, Method: "approve", Args: (&enc{}).vb(zoo()[from].Address[:]).vb(zoo()[to].Address[:]).vu(amt).b, Signers: []int{from}})
				m.approvals = append(m.approvals, [2]int{from, to})
			} else {
				h = append(h, natCall{Contract: tok, Method: "transfer", Args: (&enc{}).vu(1).vb(zoo()[from].Address[:]).vb(zoo()[to].Address[:]).vu(amt).b, Signers: []int{from}})
			}
		case "authInit":
			if m.authAdmin >= 0 {
				continue
			}
			s := m.pickOwned(t)
			if s == nil {
				continue
			}
			ca := neoAddr(neoEchoCode)
			h = append(h, natCall{Contract: hAUTH, Method: "initContractAdmin", Args: (&enc{}).vb(zooID(s.n)).b, Signers: []int{s.keys[0]}, Caller: hex.EncodeToString(ca[:])})
			m.authAdmin = s.n
		case "authRole":
			a := m.ids[m.authAdmin]
			role := fmt.Sprintf("role%d", len(m.roles))
			ca := neoAddr(neoEchoCode)
			h = append(h, natCall{Contract: hAUTH, Method: "assignFuncsToRole", Args: (&enc{}).vb(ca[:]).vb(zooID(a.n)).str(role).vu(2).str("foo").str("bar").vu(1).b, Signers: []int{a.keys[0]}})
			m.roles = append(m.roles, role)
		case "authAssign":
			if len(m.roles) == 0 {
				continue
			}
			a := m.ids[m.authAdmin]
			ca := neoAddr(neoEchoCode)
			who := m.idList()[rng(t, 0, len(m.order)-1, "who")]
			h = append(h, natCall{Contract: hAUTH, Method: "assignOntIDsToRole", Args: (&enc{}).vb(ca[:]).vb(zooID(a.n)).str(m.roles[0]).vu(1).vb(zooID(who.n)).vu(1).b, Signers: []int{a.keys[0]}})
		case "regCand":
			k := rng(t, 1, 7, "cand")
			dup := false
			for _, c := range m.cands {
				dup = dup || c == k
			}
			if dup {
				continue
			}
			e := (&enc{}).str(hex.EncodeToString(zooPub(k))).vb(zoo()[k].Address[:]).vu(100000).vb(zooID(0)).vu(1)
			h = append(h, natCall{Contract: hGOV, Method: "registerCandidate", Args: e.b, Signers: []int{k}})
			m.cands = append(m.cands, k)
		case "maxAuth":
			k := m.cands[rng(t, 0, len(m.cands)-1, "c")]
			h = append(h, natCall{Contract: hGOV, Method: "changeMaxAuthorization", Args: (&enc{}).str(hex.EncodeToString(zooPub(k))).vb(zoo()[k].Address[:]).vu(50000).b, Signers: []int{k}})
			m.maxAuth = append(m.maxAuth, k)
		case "authorize":
			k := m.maxAuth[rng(t, 0, len(m.maxAuth)-1, "ap")]
			who := rng(t, 1, 7, "staker")
			h = append(h, natCall{Contract: hGOV, Method: "authorizeForPeer", Args: (&enc{}).vb(zoo()[who].Address[:]).vu(1).str(hex.EncodeToString(zooPub(k))).vu(1).vu(500).b, Signers: []int{who}})
		}
	}
	return h
}

// pickOwned returns a registered id that has a live owner key #1.
func (m *model) pickOwned(t *rapid.T) *idState {
	var cs []*idState
	for _, s := range m.idList() {
		if len(s.keys) > 0 && s.keys[0] != 0 {
			cs = append(cs, s)
		}
	}
	if len(cs) == 0 {
		return nil
	}
	return cs[rng(t, 0, len(cs)-1, "owned")]
}

// ---------------------------------------------------------------------------------------------
// hostile call

// ontid method shapes. I id, K public key, N number, G group, Z signers, A address, S short bytes,
// T* attribute list, ? = "N or Z" (controller proof, depends on the controller kind).
var ontidShapes = map[string]string{
	"regIDWithPublicKey": "IK", "regIDWithController": "II?", "revokeID": "IN", "revokeIDByController": "I?",
	"removeController": "IN", "addRecovery": "IAK", "changeRecovery": "IAA", "setRecovery": "IGN", "updateRecovery": "IGZ",
	"removeRecovery": "IN", "addKey": "IKK", "addKeyByIndex": "IKN", "removeKey": "IKK", "removeKeyByIndex": "IKN",
	"addKeyByController": "IK?", "removeKeyByController": "IN?", "addKeyByRecovery": "IKZ", "removeKeyByRecovery": "INZ",
	"regIDWithAttributes": "IKT", "addAttributes": "ITK", "addAttributesByIndex": "ITN", "removeAttribute": "ISK",
	"removeAttributeByIndex": "ISN", "addAttributesByController": "IT?", "removeAttributeByController": "IS?",
	"verifySignature": "IN", "verifyController": "I?", "getPublicKeys": "I", "getKeyState": "IN", "getAttributes": "I", "getDDO": "I",
	"addNewAuthKey": "IKIN", "addNewAuthKeyByRecovery": "IKIZ", "addNewAuthKeyByController": "IKI?", "setAuthKey": "INN",
	"setAuthKeyByRecovery": "INZ", "setAuthKeyByController": "IN?", "removeAuthKey": "INN", "removeAuthKeyByRecovery": "INZ",
	"removeAuthKeyByController": "IN?", "addService": "ISSSN", "updateService": "ISSSN", "removeService": "ISN",
	"addContext": "ILN", "removeContext": "ILN", "addProof": "ISSSSN", "getPublicKeysJson": "I", "getAttributesJson": "I",
	"getAttributeByKey": "IS", "getServiceJson": "IS", "getControllerJson": "I", "getDocumentJson": "I",
}

var otherShapes = map[string]string{
	"ont.transfer": "X", "ong.transfer": "X", "ont.approve": "AAN", "ong.approve": "AAN", "ont.transferFrom": "AAAN", "ong.transferFrom": "AAAN",
	"ont.balanceOf": "A", "ong.balanceOf": "A", "ont.allowance": "AA", "ong.allowance": "AA", "ont.transferV2": "X", "ong.transferV2": "X",
	"ont.approveV2": "AAN", "ong.approveV2": "AAN", "ont.transferFromV2": "AAAN", "ong.transferFromV2": "AAAN",
	"auth.initContractAdmin": "I", "auth.transfer": "CIN", "auth.assignFuncsToRole": "CIRLN", "auth.assignOntIDsToRole": "CIRJN",
	"auth.delegate": "CIIRNNN", "auth.withdraw": "CIIRN", "auth.verifyToken": "CIFN",
	"gov.registerCandidate": "HANIN", "gov.unRegisterCandidate": "HA", "gov.approveCandidate": "H", "gov.rejectCandidate": "H",
	"gov.blackNode": "M", "gov.whiteNode": "H", "gov.quitNode": "HA", "gov.authorizeForPeer": "AMO", "gov.unAuthorizeForPeer": "AMO",
	"gov.withdraw": "AMO", "gov.changeMaxAuthorization": "HAN", "gov.setPeerCost": "HAN", "gov.setFeePercentage": "HANN", "gov.withdrawFee": "A",
	"gov.addInitPos": "HAN", "gov.reduceInitPos": "HAN", "gov.setPromisePos": "HN", "gov.withdrawOng": "A", "gov.transferPenalty": "HA",
	"gov.getPeerInfo": "H", "gov.getPeerPoolByAddress": "A", "gov.getAuthorizeInfo": "HA", "gov.getAddressFee": "A", "gov.setGasAddress": "A",
	"gov.updateSplitCurve": "O", "gov.updateConfig": "NNNNNNNN", "gov.updateGlobalParam": "NNNNNNNN", "gov.updateGlobalParam2": "NNNNNNNN",
	"gov.registerCandidateTransferFrom": "HANIN", "gov.authorizeForPeerTransferFrom": "AMO",
	"param.transferAdmin": "A", "param.setOperator": "A", "param.setGlobalParam": "P", "param.getGlobalParam": "M", "param.addDestroyedContract": "A",
	"param.removeDestroyedContract": "A", "system.evmInvoke": "AAS", "lockproxy.bindProxy": "NS", "lockproxy.bindAsset": "ANSNB",
	"lockproxy.lock": "AANSN", "lockproxy.getProxyHash": "N", "lockproxy.getAssetHash": "AN", "lockproxy.withdrawONG": "AN",
	"ccm.createCrossChainTx": "NSSS", "ccm.processCrossChainTx": "ANSNSS", "hsync.syncGenesisHeader": "S", "hsync.syncBlockHeader": "AJ",
}

type callGen struct {
	t       *rapid.T
	m       *model
	amounts bool // the numbers of this contract are (also) token amounts: draw them from boundaryAmounts most of the time
}

func (g *callGen) anyID() []byte {
	t := g.t
	k := rng(t, 0, 9, "idk")
	switch {
	case k <= 6 && len(g.m.order) > 0:
		return zooID(g.m.order[rng(t, 0, len(g.m.order)-1, "idx")])
	case k == 7:
		return zooID(1000 + rng(t, 0, 3, "fresh"))
	case k == 8:
		return []byte("did:ont:" + rapid.StringN(0, 12, 12).Draw(t, "junkid"))
	default:
		return zooID(g.m.nextID)
	}
}

func (g *callGen) numFor(id []byte) *big.Int {
	lens := []int{}
	for _, s := range g.m.idList() {
		if string(zooID(s.n)) == string(id) {
			lens = append(lens, len(s.keys), s.nattr)
		}
	}
	if rng(g.t, 0, 9, "nvalid") < 3 {
		return big.NewInt(int64(rng(g.t, 1, 3, "small")))
	}
	if g.amounts && rng(g.t, 0, 9, "namount") < 6 {
		return boundaryAmount(g.t)
	}
	return hostileBig(g.t, lens...)
}

// slot encodes one shaped argument.
func (g *callGen) slot(e *enc, kind byte, curID []byte) {
	t := g.t
	z := zoo()
	switch kind {
	case 'I':
		e.vb(g.anyID())
	case 'K':
		if rng(t, 0, 9, "kjunk") == 0 {
			e.vb(rapid.SliceOfN(rapid.Byte(), 0, 70).Draw(t, "junkkey"))
		} else {
			e.vb(zooPub(rng(t, 0, zooLen-1, "pk")))
		}
	case 'H':
		e.str(hex.EncodeToString(zooPub(rng(t, 0, 8, "hpk"))))
	case 'A':
		switch rng(t, 0, 9, "ak") {
		case 0:
			e.vb(make([]byte, 20))
		case 1:
			a, _ := addrFromHex(natAddrHex(pick(t, natNamesSorted(), "nat")))
			e.vb(a[:])
		case 2:
			e.vb(rapid.SliceOfN(rapid.Byte(), 0, 40).Draw(t, "junkaddr"))
		default:
			e.vb(z[rng(t, 0, zooLen-1, "addr")].Address[:])
		}
	case 'C':
		ca := neoAddr(neoEchoCode)
		if rng(t, 0, 4, "ck") == 0 {
			ca = neoAddr(neoStoreCode)
		}
		e.vb(ca[:])
	case 'N':
		e.vbig(g.numFor(curID))
	case 'B':
		e.bool(rapid.Bool().Draw(t, "b"))
	case 'S':
		e.vb(rapid.SliceOfN(rapid.Byte(), 0, 40).Draw(t, "s"))
	case 'R':
		if len(g.m.roles) > 0 && rng(t, 0, 3, "rk") > 0 {
			e.str(g.m.roles[rng(t, 0, len(g.m.roles)-1, "role")])
		} else {
			e.str("role" + rapid.StringN(0, 4, 4).Draw(t, "rs"))
		}
	case 'F':
		e.str(pick(t, []string{"foo", "bar", "baz", ""}, "fn"))
	case 'G':
		e.vb(g.group(0))
	case 'Z':
		e.vb(g.signers())
	case '?':
		if rapid.Bool().Draw(t, "proofkind") {
			e.vbig(g.numFor(curID))
		} else {
			e.vb(g.signers())
		}
	case 'T': // attribute list: count then triples; the count is hostile, the payload has `real` entries
		real := rng(t, 0, 3, "nattr")
		cnt := big.NewInt(int64(real))
		if rng(t, 0, 2, "tcount") == 0 {
			cnt = hostileBig(t, real)
		}
		e.vbig(cnt)
		for i := 0; i < real; i++ {
			e.str(fmt.Sprintf("k%d", rng(t, 0, 5, "ak"))).vb(rapid.SliceOfN(rapid.Byte(), 0, 8).Draw(t, "ty")).vb(rapid.SliceOfN(rapid.Byte(), 0, 30).Draw(t, "val"))
		}
	case 'L', 'J', 'M': // counted list of strings / ids / hex pubkeys with a hostile count
		real := rng(t, 0, 3, "nl")
		cnt := big.NewInt(int64(real))
		if rng(t, 0, 2, "lcount") == 0 {
			cnt = hostileBig(t, real)
		}
		e.vbig(cnt)
		for i := 0; i < real; i++ {
			switch kind {
			case 'L':
				e.str(pick(t, []string{"foo", "bar", "ctx1", "ctx2", ""}, "ls"))
			case 'J':
				e.vb(g.anyID())
			default:
				e.str(hex.EncodeToString(zooPub(rng(t, 0, 8, "mpk"))))
			}
		}
	case 'O': // counted list of numbers
		real := rng(t, 0, 3, "no")
		cnt := big.NewInt(int64(real))
		if rng(t, 0, 2, "ocount") == 0 {
			cnt = hostileBig(t, real)
		}
		e.vbig(cnt)
		for i := 0; i < real; i++ {
			if rng(t, 0, 1, "oamount") == 0 {
				e.vbig(boundaryAmount(t))
			} else {
				e.vbig(hostileBig(t, 500, 10000))
			}
		}
	case 'P': // global params: count, (key, value) strings
		real := rng(t, 0, 3, "np")
		cnt := big.NewInt(int64(real))
		if rng(t, 0, 2, "pcount") == 0 {
			cnt = hostileBig(t, real)
		}
		e.vbig(cnt)
		for i := 0; i < real; i++ {
			e.str(pick(t, []string{"gasPrice", "Ontology.Native.Invoke", "x", ""}, "pk")).str(pick(t, []string{"0", "1", "18446744073709551615", "-1", "abc", ""}, "pv"))
		}
	case 'X': // transfer states: count, (from,to,value)
		real := rng(t, 0, 3, "nx")
		cnt := big.NewInt(int64(real))
		if rng(t, 0, 2, "xcount") == 0 {
			cnt = hostileBig(t, real)
		}
		e.vbig(cnt)
		for i := 0; i < real; i++ {
			g.slot(e, 'A', nil)
			g.slot(e, 'A', nil)
			if rng(t, 0, 2, "xamount") > 0 {
				e.vbig(boundaryAmount(t))
			} else {
				e.vbig(hostileBig(t, 100000))
			}
		}
	default:
		e.vb(nil)
	}
}

func (g *callGen) group(depth int) []byte {
	t := g.t
	n := rng(t, 0, 3, "gn")
	var members [][]byte
	for i := 0; i < n; i++ {
		if depth < 10 && rng(t, 0, 5, "gsub") == 0 {
			members = append(members, g.group(depth+1))
		} else {
			members = append(members, g.anyID())
		}
	}
	e := &enc{}
	if rng(t, 0, 3, "gcount") == 0 {
		e.vbig(hostileBig(t, n))
	} else {
		e.vu(uint64(n))
	}
	for _, mm := range members {
		e.vb(mm)
	}
	if rng(t, 0, 2, "gthr") == 0 {
		e.vbig(hostileBig(t, n))
	} else {
		e.vu(uint64(rng(t, 0, n, "thr")))
	}
	return e.b
}

func (g *callGen) signers() []byte {
	t := g.t
	n := rng(t, 0, 3, "sn")
	e := &enc{}
	if rng(t, 0, 3, "scount") == 0 {
		e.vbig(hostileBig(t, n))
	} else {
		e.vu(uint64(n))
	}
	for i := 0; i < n; i++ {
		id := g.anyID()
		e.vb(id)
		if rng(t, 0, 2, "sidx") == 0 {
			e.vbig(hostileBig(t))
		} else {
			e.vu(1)
		}
	}
	return e.b
}

// genericAtoms: 0..8 atoms of any kind (also raw fixed-width integers and raw bytes).
func (g *callGen) genericAtoms(e *enc) {
	t := g.t
	n := rng(t, 0, 8, "natoms")
	kinds := "IKHAACNNNBSRFGZTLJMOPXuUvrhw"
	for i := 0; i < n; i++ {
		k := kinds[rng(t, 0, len(kinds)-1, "atom")]
		switch k {
		case 'u':
			e.u32(uint32(hostileU64(t)))
		case 'U':
			e.u64(hostileU64(t))
		case 'v':
			e.rawVarUint(hostileU64(t))
		case 'r':
			e.raw(rapid.SliceOfN(rapid.Byte(), 0, 48).Draw(t, "rawbytes"))
		case 'h':
			e.raw(rapid.SliceOfN(rapid.Byte(), 32, 32).Draw(t, "hash"))
		case 'w':
			e.raw(zoo()[rng(t, 0, 7, "rawaddr")].Address[:])
		default:
			g.slot(e, k, nil)
		}
	}
}

// genHostile draws the final call. methods: contract hex -> registered method names.
func genHostile(t *rapid.T, m *model, methods map[string][]string) (natCall, string) {
	g := &callGen{t: t, m: m}
	cname := pick(t, []string{"ontid", "ontid", "ontid", "ontid", "ontid", "ontid", "gov", "gov", "gov", "auth", "auth", "ont", "ong", "param",
		"hsync", "ccm", "lockproxy", "ontfs", "ontfs", "system"}, "contract")
	g.amounts = cname == "ont" || cname == "ong" || cname == "gov" || cname == "lockproxy" || cname == "ontfs" || cname == "ccm"
	chex := natAddrHex(cname)
	ms := methods[chex]
	method := "nosuchmethod"
	if len(ms) > 0 && rng(t, 0, 39, "mk") > 0 {
		method = ms[rng(t, 0, len(ms)-1, "method")]
	}
	shape, have := otherShapes[cname+"."+method]
	if cname == "ontid" {
		shape, have = ontidShapes[method]
	}
	e := &enc{}
	mode := "generic"
	r := rng(t, 0, 99, "argmode")
	if rng(t, 0, 4, "prefixmode") == 0 {
		// count / length prefix with nothing (or too little) behind it: take the structure-aware
		// encoding, replace ONE length-prefixed atom by a hostile count, cut the rest half of the time
		mode = "prefix-hostile"
		if have {
			for i := 0; i < len(shape); i++ {
				g.slot(e, shape[i], nil)
			}
		} else {
			g.genericAtoms(e)
		}
		e.b = prefixHostile(t, e)
		r = 1000
	}
	switch {
	case r == 1000:
	case have && r < 70:
		mode = "shaped"
		var cur []byte
		for i := 0; i < len(shape); i++ {
			before := len(e.b)
			g.slot(e, shape[i], cur)
			if shape[i] == 'I' && cur == nil {
				src := common.NewZeroCopySource(e.b[before:])
				cur, _, _, _ = src.NextVarBytes()
			}
		}
		if rng(t, 0, 5, "extra") == 0 {
			g.genericAtoms(e)
		}
	case have && r < 85:
		mode = "mutated"
		for i := 0; i < len(shape); i++ {
			g.slot(e, shape[i], nil)
		}
		e.b = mutateBytes(t, e.b)
	case r < 95:
		g.genericAtoms(e)
	default:
		mode = "raw"
		e.b = rapid.SliceOfN(rapid.Byte(), 0, 200).Draw(t, "rawargs")
	}
	sg := allSigners
	if rng(t, 0, 4, "sgk") == 0 {
		sg = rapid.SliceOfNDistinct(rapid.IntRange(0, zooLen-1), 0, 4, func(i int) int { return i }).Draw(t, "signers")
		sort.Ints(sg)
	}
	c := natCall{Contract: chex, Method: method, Args: e.b, Signers: sg}
	if cname == "auth" && method == "initContractAdmin" {
		ca := neoAddr(neoEchoCode)
		c.Caller = hex.EncodeToString(ca[:])
	}
	return c, mode
}

// hostileCounts are the values put into count / length prefixes.
var hostileCounts = []uint64{1 << 31, 1<<32 - 1, 1 << 33, 1 << 40, 1 << 62, 1<<63 - 1, 1 << 63, 1<<64 - 1}

// prefixHostile replaces one length-prefixed atom of an encoding by a hostile count - either as a
// native var-uint (var-bytes of the little-endian integer, what utils.DecodeVarUint reads) or as
// the raw length prefix of the atom itself (what NextVarBytes / NextVarUint read) - and truncates
// everything behind it with probability 1/2.
func prefixHostile(t *rapid.T, e *enc) []byte {
	h := pick(t, hostileCounts, "hcount")
	if len(e.marks) == 0 {
		return (&enc{}).vu(h).b
	}
	j := rng(t, 0, len(e.marks)-1, "hmark")
	start := e.marks[j]
	end := len(e.b)
	for _, m := range e.marks {
		if m > start && m < end {
			end = m
		}
	}
	out := append([]byte{}, e.b[:start]...)
	if rng(t, 0, 2, "hrawprefix") == 0 {
		// keep the payload, lie in its length prefix
		src := common.NewZeroCopySource(e.b[start:end])
		payload, _, _, eof := src.NextVarBytes()
		if eof {
			payload = nil
		}
		out = append(out, (&enc{}).rawVarUint(h).b...)
		out = append(out, payload...)
	} else {
		out = append(out, (&enc{}).vu(h).b...)
	}
	if rng(t, 0, 1, "htrunc") == 0 {
		return out
	}
	return append(out, e.b[end:]...)
}

// mutateBytes applies one byte-level mutation (truncate, flip, insert, delete, length tamper).
func mutateBytes(t *rapid.T, b []byte) []byte {
	b = append([]byte{}, b...)
	if len(b) == 0 {
		return []byte{byte(rng(t, 0, 255, "mb"))}
	}
	pos := rng(t, 0, len(b)-1, "mpos")
	switch rng(t, 0, 5, "mkind") {
	case 0:
		return b[:pos]
	case 1:
		b[pos] ^= byte(1 << uint(rng(t, 0, 7, "bit")))
	case 2:
		b = append(b[:pos], append([]byte{byte(rng(t, 0, 255, "ins"))}, b[pos:]...)...)
	case 3:
		b = append(b[:pos], b[pos+1:]...)
	case 4:
		b[pos] = byte(pick(t, []int{0, 1, 0x7f, 0x80, 0xfc, 0xfd, 0xfe, 0xff}, "len"))
	default:
		b = append(b, b[pos:]...)
	}
	return b
}
