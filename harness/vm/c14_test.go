package vm

// C14 NeoVM value serialization round-trips and rejects cycles safely.
//
// Oracles (all judged in the parent; the real code runs in a crash-isolating child because a missed
// cycle ends in `fatal error: stack overflow`, which recover() cannot catch):
//   RoundTrip   acyclic value (tree or DAG with shared sub-values) safely within the limits
//               (depth index <= 9, <= 1024 values, < 1 MiB)  =>  Serialize succeeds, Deserialize of
//               the result succeeds and is structurally equal to the description (own canonical
//               form: integers by value, maps by key set, containers by content);
//   Cyclic      value with a reference cycle (independent DFS over the description; back-edge at a
//               generated element index and depth, through arrays/structs/maps, self references
//               included)  =>  Serialize and BuildParamToNative return an error: never a result,
//               never a crash; a cycle that the detector can see only by its random choice of a
//               map entry (small maps: every entry with probability >= 1/8) is rejected within
//               a bounded number of serializer rounds, not at the 1 MiB output limit;
//   MapCycle    (c14_mapcycle_test.go) the same oracle on a dedicated family: maps of 2-6
//               entries with the self/ancestor reference under the smallest, a middle or the
//               largest key, at top level and nested in arrays/structs/maps;
//   Beyond     values nested deeper than the limit (13..40): no accept/reject requirement, only
//               no crash / no panic;
//   Bytes       any byte string => Deserialize returns a value or an error; no panic, no crash.

import (
	"encoding/binary"
	"fmt"
	"os"
	"strings"
	"testing"

	"github.com/ontio/ontology/common"
	"github.com/ontio/ontology/vm/neovm/types"
	"pgregory.net/rapid"

	"verifharness/internal/harn"
	"verifharness/internal/iso"
)

const c14Rule = "recursive generator of value graphs (bytes incl. empty/long, integers at int64 and 32-byte edges, bools, arrays, structs, maps with distinct primitive keys) with DAG sharing of completed containers and, for the cyclic class, one back-edge to an ancestor or to the container itself inserted at a generated element index (maps: generated key, i.e. position in key order) of a container at a generated depth; byte strings = reference encodings of generated values, mutated (flip/insert/delete/truncate/length tamper), random type-biased bytes and nesting bombs; a cycle that a single run of the one-path detector may miss but that every round of the serializer sees with probability >= 1/64 (random choice among the entries of maps of <= 8 entries) must be rejected within 70/p+2 rounds, not only at the 1 MiB output limit (class rejected-by-chance; the remaining may-diverge values belong to the recorded finding); non-trivial = value depth >= 3 with a shared or cyclic reference that is not in first position (bytes: input that reaches a nested container); distinct = different canonical value / byte string"

// ---- independent reference encoder (only used to produce inputs for Deserialize) ---------------

func putVarUint(b []byte, v uint64) []byte {
	switch {
	case v < 0xfd:
		return append(b, byte(v))
	case v <= 0xffff:
		return append(append(b, 0xfd), byte(v), byte(v>>8))
	case v <= 0xffffffff:
		var x [4]byte
		binary.LittleEndian.PutUint32(x[:], uint32(v))
		return append(append(b, 0xfe), x[:]...)
	default:
		var x [8]byte
		binary.LittleEndian.PutUint64(x[:], v)
		return append(append(b, 0xff), x[:]...)
	}
}

func (s *spec) refEncode(b []byte, id int) []byte {
	n := &s.N[id]
	switch n.K {
	case kBytes:
		b = append(b, 0x00)
		b = putVarUint(b, uint64(len(n.B)))
		return append(b, n.B...)
	case kBool:
		if n.O {
			return append(b, 0x01, 1)
		}
		return append(b, 0x01, 0)
	case kInt:
		e := neoBytes(mustBig(n.I))
		b = append(b, 0x02)
		b = putVarUint(b, uint64(len(e)))
		return append(b, e...)
	case kArray, kStruct:
		if n.K == kArray {
			b = append(b, 0x80)
		} else {
			b = append(b, 0x81)
		}
		b = putVarUint(b, uint64(len(n.E)))
		for _, c := range n.E {
			b = s.refEncode(b, c)
		}
		return b
	default:
		b = append(b, 0x82)
		b = putVarUint(b, uint64(len(n.E)))
		for _, i := range s.sortedEntries(id) {
			b = s.refEncode(b, n.MK[i])
			b = s.refEncode(b, n.E[i])
		}
		return b
	}
}

// ---- helpers ----------------------------------------------------------------------------------

func drawOpt(t *rapid.T, maxDepthHi int) genOpt {
	return genOpt{
		maxDepth: rapid.IntRange(1, maxDepthHi).Draw(t, "maxDepth"),
		budget:   rapid.SampledFrom([]int{12, 40, 120, 400, 900}).Draw(t, "budget"),
		alias:    rapid.IntRange(0, 3).Draw(t, "aliasOn") > 0,
		structs:  rapid.IntRange(0, 4).Draw(t, "structsOn") > 0,
		maps:     rapid.IntRange(0, 4).Draw(t, "mapsOn") > 0,
		bigBytes: rapid.IntRange(0, 5).Draw(t, "bigBytes") == 0,
		wide:     true,
		spine:    rapid.IntRange(0, 9).Draw(t, "spine") < 6,
	}
}

func depthClass(d int) string {
	switch {
	case d <= 2:
		return "depth:0-2"
	case d <= 5:
		return "depth:3-5"
	default:
		return "depth:6-9"
	}
}

// callOrFail sends one request; worker death / recovered panic are violations, a harness-level
// problem is a test error, a time-out is only counted.
func callOrFail(t *rapid.T, ev *harn.Collector, w *iso.Worker, rq *wreq, what string) (wres, bool) {
	r := callWorker(w, rq)
	if r.timedOut {
		ev.Class("timeout")
		return wres{}, false
	}
	if r.died {
		t.Fatalf("%s: the process executing it DIED (%s)", what, diagHead(r.diag))
	}
	if r.res.Bad != "" {
		t.Fatalf("harness error (not a finding): %s: %s", what, r.res.Bad)
	}
	if r.res.Panic != "" {
		t.Fatalf("%s: panic: %s", what, r.res.Panic)
	}
	return r.res, true
}

// ---- RoundTrip --------------------------------------------------------------------------------

func TestC14_RoundTrip(t *testing.T) {
	ev := harn.For("C14").Rule(c14Rule)
	ev.Assume("the description->value builder and the value->canonical-form read-back of the harness are correct (they use only constructors and accessors of vm/neovm/types)")
	ev.Floor("rt:shared", "rt", 0.15)
	ev.Floor("rt:shared-not-first", "rt", 0.08)
	ev.Floor("rt:has-map", "rt", 0.20)
	ev.Floor("rt:has-struct", "rt", 0.15)
	ev.Floor("depth:6-9", "rt", 0.05)
	w := newWorker(ev)
	defer w.Close()
	harn.Check(t, 2000, 80000, func(t *rapid.T) {
		g := genAcyclic(t, drawOpt(t, 9))
		s := g.s
		if s.isCyclic() {
			t.Fatalf("harness error: acyclic generator produced a cycle: %s", s.describe())
		}
		md := s.maxDepth()
		cnt, size := s.expanded(s.Root, map[int][2]int{})
		if md > 9 || cnt > 1024 || size >= 1<<20 {
			t.Fatalf("harness error: generated value outside the safe limits: depth %d count %d size %d", md, cnt, size)
		}
		want := s.canon()
		desc := "rt " + s.describe()
		rs, ok := callOrFail(t, ev, w, &wreq{Op: "ser", Spec: s}, "Serialize+Deserialize of acyclic value "+desc)
		if !ok {
			return
		}
		if !rs.OK {
			t.Fatalf("acyclic value within limits (depth %d, %d values, ~%d bytes) rejected by Serialize: %q; value %s", md, cnt, size, rs.Err, desc)
		}
		if !rs.DeOK {
			t.Fatalf("Deserialize(Serialize(v)) failed: %q; serialized %s; value %s", rs.DeErr, harn.Hex(rs.Out), desc)
		}
		if rs.DeCanon != want {
			t.Fatalf("round trip changed the value:\n want %s\n got  %s\n bytes %s", clip(want), clip(rs.DeCanon), harn.Hex(rs.Out))
		}
		// marshalling an acyclic value: no requirement on the result (maps are unsupported), only no crash
		if _, ok := callOrFail(t, ev, w, &wreq{Op: "nat", Spec: s}, "BuildParamToNative of acyclic value "+desc); !ok {
			return
		}
		ev.Class("rt")
		ev.Class(depthClass(md))
		hasMap, hasStruct := false, false
		for i := range s.N {
			hasMap = hasMap || s.N[i].K == kMap
			hasStruct = hasStruct || s.N[i].K == kStruct
		}
		if hasMap {
			ev.Class("rt:has-map")
		}
		if hasStruct {
			ev.Class("rt:has-struct")
		}
		if g.aliases > 0 {
			ev.Class("rt:shared")
		}
		if g.aliasPos > 0 {
			ev.Class("rt:shared-not-first")
		}
		if cnt > 200 {
			ev.Class("rt:large")
		}
		ev.Case(md >= 3 && g.aliasPos > 0, desc)
	})
}

func clip(s string) string {
	if len(s) > 1500 {
		return s[:1500] + fmt.Sprintf("…(%d)", len(s))
	}
	return s
}

// ---- Cyclic -----------------------------------------------------------------------------------

// witness of the recorded finding: a = [1, a]
func cycleWitness() *spec {
	return &spec{N: []node{{K: kInt, I: "1"}, {K: kArray, E: []int{0, 1}}}, Root: 1}
}

func cycleWitnessStillFails(w *iso.Worker) (bool, string) {
	r := callWorker(w, &wreq{Op: "ser", Spec: cycleWitness()})
	if r.timedOut || r.res.Bad != "" {
		return false, ""
	}
	switch {
	case r.died:
		return true, "the process executing Serialize died: " + diagHead(r.diag)
	case r.res.Panic != "":
		return true, "Serialize panicked: " + r.res.Panic
	case r.res.OK:
		return true, "Serialize returned a result: " + harn.Hex(r.res.Out)
	}
	return false, ""
}

func TestC14_Cyclic(t *testing.T) {
	ev := harn.For("C14").Rule(c14Rule)
	ev.Floor("cyc:not-first", "cyc", 0.30)
	ev.Floor("cyc:first", "cyc", 0.10)
	ev.Floor("cyc:via-map", "cyc", 0.10)
	ev.Floor("cyc:self", "cyc", 0.05)
	ev.Floor("cyc:deep-holder", "cyc", 0.10)
	w := newWorker(ev)
	defer w.Close()
	still, how := cycleWitnessStillFails(w)
	known := harn.Known("C14", "cycle-not-in-first-position", still)
	if still && !known {
		// not a recorded finding: report the minimal deterministic witness right away (shrinking a
		// generated case would cost one child-process crash per attempt)
		harn.Violation(t, "C14", cycleWitness(), "a=[1,a] (array whose SECOND element is the array itself): Serialize must return an error, but %s", how)
	}
	harn.Check(t, 2000, 60000, func(t *rapid.T) {
		opt := drawOpt(t, 7)
		opt.budget = rapid.SampledFrom([]int{8, 20, 60, 200}).Draw(t, "cbudget")
		g := genAcyclic(t, opt)
		force := -1
		if rapid.IntRange(0, 3).Draw(t, "first") == 0 {
			force = 0
		}
		if !g.s.N[g.s.Root].container() {
			// a primitive root cannot hold a reference: wrap it
			id := g.s.add(node{K: kArray, E: []int{g.s.Root}})
			g.parent[id], g.depthOf[id] = -1, 0
			g.s.Root = id
		}
		be, ok := g.addBackEdge(force)
		if !ok {
			t.Fatalf("harness error: no container to hold the back-edge")
		}
		s := g.s
		if !s.isCyclic() {
			t.Fatalf("harness error: back-edge did not close a cycle: %s", s.describe())
		}
		desc := fmt.Sprintf("cyc back-edge %s#%d[%d/%d] depth %d up %d: %s", s.N[be.from].K, be.from, be.index, be.length, be.fromDepth, be.hops, s.describe())
		skipped := false
		for _, op := range []string{"ser", "nat"} {
			name := map[string]string{"ser": "Serialize", "nat": "BuildParamToNative"}[op]
			// a cycle that a single detector run can miss, but that sits where the detector's random map-entry
			// choice (small maps: every entry with probability >= 1/8) sees it with probability >= 1/64 in
			// every round of the serializer: rejected almost surely within a bounded number of rounds
			byChance, low := false, 0.0
			if op == "ser" {
				if l, ok := s.serLoopRejectLow(); ok && l >= rejectLowMin {
					byChance, low = true, l
				}
			}
			if known && !byChance && (op == "ser" && s.serMayDiverge() || op == "nat" && s.natMayDiverge()) {
				// recorded finding: the detector follows one path only, this cycle can escape it
				skipped = true
				ev.Class("excluded:" + op)
				continue
			}
			rs, ok := callOrFail(t, ev, w, &wreq{Op: op, Spec: s}, name+" of cyclic value "+desc)
			if !ok {
				return
			}
			if rs.OK {
				t.Fatalf("%s of a value containing a reference cycle returned a result (%s) instead of an error; value %s", name, harn.Hex(rs.Out), desc)
			}
			if byChance {
				ev.Class("cyc:ser:rejected-by-chance")
				if checkRounds(t, s, low, rs, desc) {
					ev.Class("cyc:ser:rounds-bounded")
				}
			}
			ev.Class("cyc:" + op + ":rejected")
			if strings.Contains(rs.Err, "circular") {
				ev.Class("cyc:" + op + ":rejected-as-circular")
			}
		}
		if skipped {
			ev.Excluded()
		}
		ev.Class("cyc")
		if be.index > 0 {
			ev.Class("cyc:not-first")
		} else {
			ev.Class("cyc:first")
		}
		if be.viaMap {
			ev.Class("cyc:via-map")
		}
		if be.viaStruct {
			ev.Class("cyc:via-struct")
		}
		if be.hops == 0 {
			ev.Class("cyc:self")
		}
		if be.fromDepth >= 2 {
			ev.Class("cyc:deep-holder")
		}
		if g.aliases > 0 {
			ev.Class("cyc:with-sharing")
		}
		ev.Case(!skipped && be.index > 0 && be.fromDepth >= 2, desc)
	})
}

// checkRounds: oracle for a cyclic value that Serialize rejects only by the detector's random choice
// of map entries (rejection probability >= low in every round through the cycle). More than
// roundsBound(low) rounds have probability < 1e-30, and a round writes at most cutSize bytes, so the
// encoder must have given up before writing (roundsBound+2)*cutSize bytes. Returns false when that
// bound is not below the 1 MiB output limit (which then stops the recursion anyway: nothing to check).
func checkRounds(t *rapid.T, s *spec, low float64, rs wres, desc string) bool {
	per := s.cutSize(1 << 20)
	r := roundsBound(low)
	bound := (r + 2) * per
	if bound >= 1<<20 {
		return false
	}
	if rs.ErrSize > bound {
		t.Fatalf("Serialize of a value containing a reference cycle gave up (%q) only after writing %d bytes, i.e. after going round the cycle at least %d times (one round writes at most %d bytes); if the detector could descend into every entry of the map(s) holding the cycle, each round would be rejected with probability >= %.4f and more than %d rounds would have probability < 1e-30: the cycle is not detected, only the output limit (or a stack overflow) stops the recursion; value %s", rs.Err, rs.ErrSize, rs.ErrSize/per-2, per, low, r, desc)
	}
	return true
}

// ---- Beyond the limits ------------------------------------------------------------------------

func TestC14_BeyondLimits(t *testing.T) {
	ev := harn.For("C14").Rule(c14Rule)
	w := newWorker(ev)
	defer w.Close()
	harn.Check(t, 300, 8000, func(t *rapid.T) {
		var s *spec
		var desc string
		if rapid.IntRange(0, 9).Draw(t, "bomb") == 0 {
			// sharing bomb: `levels` arrays, each holding `fan` references to the next one; tiny as a
			// graph, fan^levels values when expanded as a tree (no requirement except an answer)
			levels, fan := rapid.IntRange(4, 10).Draw(t, "blevels"), rapid.IntRange(4, 16).Draw(t, "bfan")
			s = &spec{}
			cur := s.add(node{K: kInt, I: "1"})
			for l := 0; l < levels; l++ {
				n := node{K: kArray}
				for i := 0; i < fan; i++ {
					n.E = append(n.E, cur)
				}
				cur = s.add(n)
			}
			s.Root = cur
			desc = fmt.Sprintf("sharing bomb %d levels fan-out %d", levels, fan)
			ev.Class("deep:sharing-bomb")
		} else {
			levels := rapid.IntRange(13, 40).Draw(t, "levels")
			s = genDeep(t, levels, true, true)
			desc = fmt.Sprintf("deep %d levels: %s", levels, s.describe())
		}
		ops := []string{"ser", "nat"}
		if strings.HasPrefix(desc, "sharing bomb") {
			// Serialize is bounded by its 1 MiB output limit. BuildParamToNative has no output bound and
			// expands shared sub-values as a tree (memory exhaustion on the unchanged tree as well):
			// outside this property's statement, reported separately (C12 territory), not executed here.
			ops = []string{"ser"}
		}
		for _, op := range ops {
			rs, ok := callOrFail(t, ev, w, &wreq{Op: op, Spec: s}, op+" of acyclic value nested beyond the limit "+desc)
			if !ok {
				return
			}
			if rs.OK {
				ev.Class("deep:" + op + ":accepted")
			} else {
				ev.Class("deep:" + op + ":rejected")
			}
		}
		ev.Class("deep")
		ev.Case(false, desc)
	})
}

// ---- arbitrary bytes --------------------------------------------------------------------------

func nestingBomb(levels int, typ byte, tail []byte) []byte {
	b := make([]byte, 0, 2*levels+len(tail))
	for i := 0; i < levels; i++ {
		b = append(b, typ, 0x01)
	}
	return append(b, tail...)
}

func mutate(t *rapid.T, b []byte) []byte {
	b = append([]byte{}, b...)
	n := rapid.IntRange(1, 3).Draw(t, "nmut")
	for i := 0; i < n; i++ {
		if len(b) == 0 {
			b = append(b, rapid.Byte().Draw(t, "mb"))
			continue
		}
		p := rapid.IntRange(0, len(b)-1).Draw(t, "mpos")
		switch rapid.IntRange(0, 5).Draw(t, "mkind") {
		case 0:
			b[p] ^= 1 << uint(rapid.IntRange(0, 7).Draw(t, "bit"))
		case 1:
			b[p] = rapid.SampledFrom([]byte{0x00, 0x01, 0x02, 0x03, 0x40, 0x80, 0x81, 0x82, 0xfd, 0xfe, 0xff, 0x7f}).Draw(t, "tb")
		case 2:
			b = append(b[:p], b[p+1:]...)
		case 3:
			b = append(b[:p], append([]byte{rapid.Byte().Draw(t, "ins")}, b[p:]...)...)
		case 4:
			b = b[:p]
		default: // length tamper: huge count
			b = append(b[:p], append([]byte{0xff, 0xff, 0xff, 0xff, 0xff, 0xff, 0xff, 0xff, 0x7f}, b[p:]...)...)
		}
	}
	return b
}

func genTypeBiased(t *rapid.T) []byte {
	n := rapid.IntRange(0, 60).Draw(t, "rawlen")
	b := make([]byte, n)
	for i := range b {
		if rapid.IntRange(0, 2).Draw(t, "tb?") == 0 {
			b[i] = rapid.SampledFrom([]byte{0x00, 0x01, 0x02, 0x80, 0x81, 0x82, 0x00, 0x01}).Draw(t, "tbyte")
		} else {
			b[i] = byte(rapid.IntRange(0, 6).Draw(t, "lowbyte"))
		}
	}
	return b
}

func TestC14_DeserializeBytes(t *testing.T) {
	ev := harn.For("C14").Rule(c14Rule)
	ev.Floor("bytes:decoded", "bytes", 0.15)
	ev.Floor("bytes:rejected", "bytes", 0.15)
	w := newWorker(ev)
	defer w.Close()

	// deterministic nesting bombs up to the largest byte array the VM can hold (1 MiB): the
	// decoder must answer (value or error) without dying.
	if !harn.Replaying() || strings.HasSuffix(os.Getenv("VERIF_REPLAY"), ".case.json") {
		i := 0
		for _, typ := range []byte{0x80, 0x81, 0x82} {
			for _, levels := range []int{1023, 1024, 1025, 1026, 5000, 100000, 1 << 19} {
				i++
				if i%harn.Shards() != harn.Shard() {
					continue
				}
				var raw []byte
				if typ == 0x82 { // map: key then value; nest in the value
					raw = make([]byte, 0, 4*levels+2)
					for l := 0; l < levels && len(raw)+4 < 1<<20; l++ {
						raw = append(raw, 0x82, 0x01, 0x01, 0x01)
					}
					raw = append(raw, 0x01, 0x01)
				} else {
					if levels > 1<<19-2 {
						levels = 1<<19 - 2
					}
					raw = nestingBomb(levels, typ, []byte{0x01, 0x01})
				}
				r := callWorker(w, &wreq{Op: "deser", Raw: raw})
				desc := fmt.Sprintf("nesting bomb type %#x × %d (%d bytes)", typ, levels, len(raw))
				switch {
				case r.timedOut:
					ev.Class("timeout")
				case r.died:
					harn.Violation(t, "C14", map[string]interface{}{"type": typ, "levels": levels}, "Deserialize of %s killed the process: %s", desc, diagHead(r.diag))
				case r.res.Panic != "":
					harn.Violation(t, "C14", map[string]interface{}{"type": typ, "levels": levels}, "Deserialize of %s panicked: %s", desc, r.res.Panic)
				case r.res.DeOK:
					ev.Class("bomb:decoded")
				default:
					ev.Class("bomb:rejected")
				}
				ev.Case(true, desc)
			}
		}
	}

	harn.Check(t, 3000, 120000, func(t *rapid.T) {
		var raw []byte
		kind := rapid.IntRange(0, 9).Draw(t, "bkind")
		nested := false
		switch {
		case kind < 3: // valid encoding
			opt := drawOpt(t, 9)
			opt.budget = rapid.SampledFrom([]int{6, 20, 60}).Draw(t, "bbudget")
			s := genAcyclic(t, opt).s
			raw = s.refEncode(nil, s.Root)
			nested = s.maxDepth() >= 2
		case kind < 7: // mutated valid encoding
			opt := drawOpt(t, 9)
			opt.budget = rapid.SampledFrom([]int{6, 20, 60}).Draw(t, "bbudget")
			s := genAcyclic(t, opt).s
			raw = mutate(t, s.refEncode(nil, s.Root))
			nested = s.maxDepth() >= 2
		case kind < 9:
			raw = genTypeBiased(t)
		default:
			levels := rapid.IntRange(1000, 3000).Draw(t, "bomb")
			typ := rapid.SampledFrom([]byte{0x80, 0x81}).Draw(t, "bombtype")
			raw = nestingBomb(levels, typ, []byte{0x02, 0x01, 0x05})
			nested = true
		}
		desc := "bytes " + harn.Hex(raw)
		rs, ok := callOrFail(t, ev, w, &wreq{Op: "deser", Raw: raw}, "Deserialize of "+desc)
		if !ok {
			return
		}
		ev.Class("bytes")
		if rs.DeOK {
			ev.Class("bytes:decoded")
		} else {
			ev.Class("bytes:rejected")
		}
		ev.Case(nested, desc)
	})
}

// ---- native fuzz target (thorough tier) -------------------------------------------------------

// FuzzC14_Deserialize: any bytes => value or error, no panic; a decoded value that Serialize
// accepts must decode again to a structurally equal value and re-serialize to the same bytes.
func FuzzC14_Deserialize(f *testing.F) {
	seeds := [][]byte{
		{0x00, 0x00}, {0x01, 0x01}, {0x02, 0x01, 0x7f}, {0x80, 0x00}, {0x81, 0x02, 0x01, 0x00, 0x02, 0x00},
		{0x82, 0x02, 0x00, 0x01, 'a', 0x02, 0x01, 0x01, 0x00, 0x01, 'b', 0x80, 0x01, 0x80, 0x00},
		{0x82, 0x01, 0x02, 0x01, 0x01, 0x82, 0x00}, nestingBomb(12, 0x80, []byte{0x01, 0x00}),
		{0x02, 0x21, 0xff, 0xff, 0xff, 0xff, 0xff, 0xff, 0xff, 0xff, 0xff, 0xff, 0xff, 0xff, 0xff, 0xff, 0xff, 0xff, 0xff, 0xff, 0xff, 0xff, 0xff, 0xff, 0xff, 0xff, 0xff, 0xff, 0xff, 0xff, 0xff, 0xff, 0xff, 0xff, 0x00},
	}
	for _, s := range seeds {
		f.Add(s)
	}
	f.Fuzz(func(t *testing.T, data []byte) {
		if len(data) > 1<<20 {
			return
		}
		defer func() {
			if r := recover(); r != nil {
				t.Fatalf("panic while handling %x: %v", data, r)
			}
		}()
		var v types.VmValue
		if err := v.Deserialize(common.NewZeroCopySource(data)); err != nil {
			return
		}
		s1 := common.NewZeroCopySink(nil)
		if err := v.Serialize(s1); err != nil {
			return // beyond depth/size limits
		}
		var v2 types.VmValue
		if err := v2.Deserialize(common.NewZeroCopySource(s1.Bytes())); err != nil {
			t.Fatalf("Deserialize(Serialize(v)) failed for v decoded from %x: %v", data, err)
		}
		if a, b := vmCanon(v), vmCanon(v2); a != b {
			t.Fatalf("round trip changed the value decoded from %x:\n %s\n %s", data, clip(a), clip(b))
		}
		s2 := common.NewZeroCopySink(nil)
		if err := v2.Serialize(s2); err != nil {
			t.Fatalf("re-serialization failed for %x: %v", data, err)
		}
		if string(s1.Bytes()) != string(s2.Bytes()) {
			t.Fatalf("serialization is not idempotent for %x: %x vs %x", data, s1.Bytes(), s2.Bytes())
		}
	})
}
