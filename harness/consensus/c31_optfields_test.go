package consensus

// C31, optional fields of the three message types and quorum-edge histories.
//
// Every vbft message carries, next to its block signature, OPTIONAL cross-chain fields:
//   commit   : CommitCCMHash + CrossChainMsgCommitterSig (+ CrossChainMsgEndorserSig per claimed endorser)
//   endorse  : CrossChainMsgHash + CrossChainMsgEndorserSig
//   proposal : Block.CrossChainMsg with SigData[0] of the proposer
// A node verifies them with the sender's key in msg.Verify. The property does not let them
// substitute for the block signature: a message counts toward the commit quorum of a proposal only
// if the BLOCK signature it carries verifies under the claimed signer's key over that proposal's
// block hash. The generators below draw (block signature kind) x (cross-chain field kind) for
// faulty senders; the oracle is c31Hist.check (independent recount of verifiable block signatures).

import (
	"fmt"
	"sort"
	"strings"
	"testing"

	"github.com/ontio/ontology/common"
	"github.com/ontio/ontology/consensus/vbft"
	"github.com/ontio/ontology/core/types"
	"pgregory.net/rapid"

	"verifharness/internal/fix"
	"verifharness/internal/harn"
)

const (
	sigValid     = "valid"      // by the sending peer over the hash the message names
	sigOtherPeer = "other-peer" // genuine signature over that hash, but of another key (member, colluder or stranger)
	sigOtherHash = "other-hash" // by the sending peer, over another hash
	sigGarbage64 = "garbage64"  // 64 arbitrary bytes: deserialises as an ECDSA signature, verifies under no key
	sigGarbage   = "garbage"    // does not deserialise (also: empty)
	ccmAbsent    = "absent"     // nil, as for blocks without cross-chain messages / old-version peers
	ccmNoSigData = "no-sigdata" // proposal only: CrossChainMsg without SigData
	c31StrangerK = 1000         // zoo index of a key that is no consensus peer
	optCommit    = "commit"
	optEndorse   = "endorse"
	optProposal  = "proposal"
	c31OptRule   = " OPTIONAL FIELDS: one history in three is a cross-chain round (honest proposals carry a CrossChainMsg signed by the proposer, honest endorse/commit messages carry genuine cross-chain signatures over its hash, commit messages also per bundled endorser); every message of a faulty peer draws its block signature (valid / genuine but of another peer's, a colluder's or a stranger's key / own key over another hash: the proposal's other block, another proposal, the cross-chain hash, random / 64 arbitrary bytes that deserialise / undeserialisable or empty) independently of its cross-chain fields (absent / genuine by the sender / by another key / own key over another hash / 64 arbitrary bytes / undeserialisable / empty non-nil; signed hash = the round's cross-chain hash, random, zero or the block hash itself), for commit, endorse and (faulty proposer) proposal messages. Quorum-edge histories (TestC31_OptionalFieldsAtQuorumEdge): N in {4,7,10}, one proposal delivered, honest endorse/commit messages (commits bundling genuine endorsements) from exactly as many peers as leave the verifiable-signer count at quorum-1 (60%), quorum-2 (25%) or quorum (15%), then 1..3 messages of faulty peers under their own index for that proposal's hash with the field kinds above and only genuine bundled endorsements; commitDone judged after every message by the same independent recount (the cross-chain signature never substitutes for the block signature); non-trivial there = a faulty message with an invalid block signature or invalid cross-chain field arrived while the count was within two of the quorum"
)

// otherSigner draws a key that is not f's: another member, a colluding faulty peer, or a stranger.
func (h *c31Hist) otherSigner(t *rapid.T, label string, f uint32) *fix.ZooKey {
	e := h.e
	switch rapid.IntRange(0, 3).Draw(t, label+"OtherKind") {
	case 0:
		return fix.Key(fix.KP256, c31StrangerK)
	case 1:
		var fl []uint32
		for i := uint32(1); int(i) <= e.n; i++ {
			if h.faulty[i] && i != f {
				fl = append(fl, i)
			}
		}
		if len(fl) > 0 {
			return e.key(fl[rapid.IntRange(0, len(fl)-1).Draw(t, label+"Colluder")])
		}
	}
	g := uint32(rapid.IntRange(1, e.n-1).Draw(t, label+"OtherPeer"))
	if g >= f {
		g++
	}
	return e.key(g)
}

func rndHash(t *rapid.T, label string) common.Uint256 {
	var x common.Uint256
	copy(x[:], rapid.SliceOfN(rapid.Byte(), 32, 32).Draw(t, label))
	return x
}

// drawBlockSig draws the block signature a faulty peer f puts into a message that names `hash`
// (a hash of proposal p). badBias (0..10) is the share of non-valid kinds in tenths.
func (h *c31Hist) drawBlockSig(t *rapid.T, label string, f uint32, hash common.Uint256, p *c31Prop, badBias int) ([]byte, string) {
	e := h.e
	if rapid.IntRange(0, 9).Draw(t, label+"SigBad") >= badBias {
		return signHash(e.key(f), hash), sigValid
	}
	switch rapid.IntRange(0, 9).Draw(t, label+"SigKind") {
	case 0:
		return []byte("garbage"), sigGarbage
	case 1:
		return []byte{}, sigGarbage
	case 2, 3: // own key, other hash
		var alt common.Uint256
		switch rapid.IntRange(0, 3).Draw(t, label+"AltHash") {
		case 0: // the proposal's other block (its empty block / its real block)
			alt = p.hEmpty
			if hash == p.hEmpty {
				alt = p.hBlock
			}
			// a signature over one of the proposal's own hashes is still a signature for that proposal
			return signHash(e.key(f), alt), sigOtherHash + "(same-proposal)"
		case 1:
			alt = e.props[(indexOfProp(e, p)+1)%len(e.props)].hBlock
			if alt == hash {
				alt = e.ccmHash
			}
		case 2:
			alt = e.ccmHash
		default:
			alt = rndHash(t, label+"RndAlt")
		}
		return signHash(e.key(f), alt), sigOtherHash
	case 4, 5:
		return rapid.SliceOfN(rapid.Byte(), 64, 64).Draw(t, label+"Garbage64"), sigGarbage64
	default:
		return signHash(h.otherSigner(t, label, f), hash), sigOtherPeer
	}
}

// drawCCM draws the optional cross-chain (hash, signature) pair of a message sent by f whose
// block hash is blockHash. absentBias / validBias (0..10): share of "no cross-chain fields" and,
// of the rest, of "genuinely signed by the sender".
func (h *c31Hist) drawCCM(t *rapid.T, label string, f uint32, blockHash common.Uint256, absentBias, validBias int) (common.Uint256, []byte, string) {
	e := h.e
	if rapid.IntRange(0, 9).Draw(t, label+"CcmAbsent") < absentBias {
		return common.Uint256{}, nil, ccmAbsent
	}
	var ch common.Uint256
	switch rapid.IntRange(0, 5).Draw(t, label+"CcmHash") {
	case 0:
		ch = rndHash(t, label+"CcmRnd")
	case 1: // zero
	case 2:
		ch = blockHash
	default:
		ch = e.ccmHash
	}
	if rapid.IntRange(0, 9).Draw(t, label+"CcmValid") < validBias {
		return ch, signHash(e.key(f), ch), sigValid
	}
	switch rapid.IntRange(0, 5).Draw(t, label+"CcmKind") {
	case 0, 1:
		return ch, signHash(h.otherSigner(t, label+"Ccm", f), ch), sigOtherPeer
	case 2:
		other := e.ccmHash
		if other == ch {
			other = blockHash
		}
		return ch, signHash(e.key(f), other), sigOtherHash
	case 3:
		return ch, rapid.SliceOfN(rapid.Byte(), 64, 64).Draw(t, label+"CcmGarbage64"), sigGarbage64
	case 4:
		return ch, []byte{}, sigGarbage
	default:
		return ch, []byte("garbage"), sigGarbage
	}
}

// optClass records the (message type, block signature, cross-chain field) class of a faulty message
// and whether it passed intake.
func (h *c31Hist) optClass(typ, bs, ccm string, accepted bool) {
	b := "bad"
	switch bs {
	case sigValid:
		b = "ok"
	case sigOtherHash + "(same-proposal)": // rejected at intake, but a signature for the proposal all the same
		b = "own-other-block"
	}
	c := "bad"
	switch ccm {
	case sigValid:
		c = "valid"
	case ccmAbsent:
		c = "absent"
	}
	name := fmt.Sprintf("opt:%s:blocksig-%s:ccm-%s", typ, b, c)
	h.cls = append(h.cls, name)
	if accepted {
		h.cls = append(h.cls, name+":passed-intake")
	}
	if b != "ok" || c == "bad" {
		h.badOpt++
	}
}

// honestCCMEndorse / honestCCMCommit attach the genuine cross-chain fields of a cross-chain round.
func (h *c31Hist) honestCCMEndorse(m *vbft.VerifEndorseMsg, who uint32) {
	if h.ccmRound {
		m.CrossChainMsgHash = h.e.ccmHash
		m.CrossChainMsgEndorserSig = signHash(h.e.key(who), h.e.ccmHash)
	}
}

func (h *c31Hist) honestCCMCommit(m *vbft.VerifCommitMsg, who uint32) {
	if !h.ccmRound {
		return
	}
	m.CommitCCMHash = h.e.ccmHash
	m.CrossChainMsgCommitterSig = signHash(h.e.key(who), h.e.ccmHash)
	m.CrossChainMsgEndorserSig = map[uint32][]byte{}
	for _, i := range sortedKeys(m.EndorsersSig) {
		if k := h.e.key(i); k != nil {
			m.CrossChainMsgEndorserSig[i] = signHash(k, h.e.ccmHash)
		}
	}
}

// heldProposerSig: the proposer signature an honest committer copies into its commit message —
// the one of the proposal the network saw (the pool's, when it holds one of that proposer that the
// harness did not build as a genuine proposal), else the genuine one.
func (h *c31Hist) heldProposerSig(p *c31Prop, empty bool, genuine []byte) []byte {
	cand := h.pool.Candidate(c31Blk)
	if cand == nil {
		return genuine
	}
	for _, held := range cand.Proposals {
		if held.Block.Info.Proposer != p.proposer {
			continue
		}
		for _, pr := range h.e.props {
			if held == pr.msg || held == pr.msgCCM {
				return genuine
			}
		}
		if empty {
			return held.EmptyBlockProposerSig
		}
		return held.BlockProposerSig
	}
	return genuine
}

// forgedProposal builds the proposal a FAULTY proposer sends for p's block: same header content
// (same block hash), header signature and cross-chain message drawn.
func (h *c31Hist) forgedProposal(t *rapid.T, p *c31Prop, badBias, ccmValidBias int) (*vbft.VerifProposalMsg, string, string) {
	e := h.e
	sig, bs := h.drawBlockSig(t, "prop", p.proposer, p.hBlock, p, badBias)
	if len(sig) == 0 {
		sig, bs = []byte("garbage"), sigGarbage
	}
	hdr := *p.msg.Block.Block.Header
	hdr.SigData = [][]byte{sig}
	blk := &vbft.Block{Block: &types.Block{Header: &hdr}, EmptyBlock: p.msg.Block.EmptyBlock, Info: p.msg.Block.Info}
	ch, csig, ccm := h.drawCCM(t, "prop", p.proposer, p.hBlock, 3, ccmValidBias)
	if ccm != ccmAbsent {
		// the signed hash of a proposal's cross-chain message is the hash of its content
		c := &types.CrossChainMsg{Version: e.ccm.Version, Height: e.ccm.Height, StatesRoot: e.ccm.StatesRoot}
		if ch != e.ccmHash {
			copy(c.StatesRoot[:], ch[:]) // another content, chosen by the proposer
		}
		real := c.Hash()
		switch ccm {
		case sigValid:
			csig = signHash(e.key(p.proposer), real)
		case sigOtherPeer:
			csig = signHash(h.otherSigner(t, "propCcm2", p.proposer), real)
		case sigOtherHash:
			csig = signHash(e.key(p.proposer), p.hBlock)
		}
		c.SigData = [][]byte{csig}
		if len(csig) == 0 && rapid.Bool().Draw(t, "propNoSigData") {
			c.SigData = nil
			ccm = ccmNoSigData
		}
		blk.CrossChainMsg = c
	}
	return &vbft.VerifProposalMsg{Block: blk, BlockProposerSig: sig, EmptyBlockProposerSig: p.msg.EmptyBlockProposerSig}, bs, ccm
}

func (h *c31Hist) sendProposalMsg(p *c31Prop, m *vbft.VerifProposalMsg, tag string) error {
	err := h.intake(p.proposer, m)
	h.note("prop%s(%d.%d)%s", tag, p.proposer, p.variant, okStr(err))
	return err
}

// ---------------------------------------------------------------------------------------------
// quorum-edge histories

func TestC31_OptionalFieldsAtQuorumEdge(t *testing.T) {
	ev := harn.For("C31").Rule(c31Rule + c31OptRule)
	ev.Floor("edge:one-short-before-faulty", "edge:histories", 0.40)
	ev.Floor("opt:commit:blocksig-bad:ccm-valid", "edge:histories", 0.15)
	ev.Floor("opt:endorse:blocksig-bad:ccm-valid", "edge:histories", 0.06)
	ev.Floor("opt:commit:blocksig-ok:ccm-valid:passed-intake", "edge:histories", 0.05)
	ev.Floor("edge:done-with-quorum", "edge:histories", 0.10)
	known := c31KnownSet()
	envs := map[int]*c31Env{4: newC31Env(4), 7: newC31Env(7), 10: newC31Env(10)}
	harn.Check(t, 1200, 80000, func(t *rapid.T) {
		n := rapid.SampledFrom([]int{4, 7, 7, 10}).Draw(t, "N")
		e := envs[n]
		p := e.props[rapid.IntRange(0, len(e.props)-2).Draw(t, "main")]
		// faulty peers: 1..C, the proposer among them in one history of four
		nf := 1 + rapid.IntRange(0, e.c-1).Draw(t, "nFaulty")
		propFaulty := rapid.IntRange(0, 3).Draw(t, "proposerFaulty") == 0
		faulty := map[uint32]bool{}
		var fl, hl []uint32
		if propFaulty {
			faulty[p.proposer] = true
		}
		for _, x := range rapid.Permutation(seqU32(e.n)).Draw(t, "perm") {
			if x == p.proposer {
				continue
			}
			if len(faulty) < nf {
				faulty[x] = true
			} else {
				hl = append(hl, x) // honest, not the proposer, in generated order
			}
		}
		fl = sortedU32(faulty)
		h := e.newHist(faulty)
		h.ccmRound = rapid.Bool().Draw(t, "ccmRound")
		h.note("edge N=%d P=%d faulty=%v ccmRound=%v", n, p.proposer, fl, h.ccmRound)
		// target verifiable-signer count before the faulty messages (the proposer is one of them)
		target := e.q - 1 // (rapid favours small draws: the frequent case sits at the small end)
		switch rapid.IntRange(0, 19).Draw(t, "target") {
		case 12, 13, 14, 15, 16:
			target = e.q - 2
		case 17, 18, 19:
			target = e.q
		}
		k := target - 1
		if k > len(hl) {
			k = len(hl)
		}
		if k < 0 {
			k = 0
		}
		empty := rapid.IntRange(0, 4).Draw(t, "forEmpty") == 0
		hash := p.hBlock
		if empty {
			hash = p.hEmpty
		}
		violated := func() {
			if _, _, viol := h.check(known); viol != "" {
				t.Fatalf("%s", viol)
			}
		}
		// the proposal (genuine; a faulty proposer may send a forged one first, which must be rejected or harmless)
		if propFaulty && rapid.Bool().Draw(t, "forgedProposalFirst") {
			m, bs, ccm := h.forgedProposal(t, p, 5, 5)
			err := h.sendProposalMsg(p, m, fmt.Sprintf("![bs=%s,ccm=%s]", bs, ccm))
			h.optClass(optProposal, bs, ccm, err == nil)
			violated()
		}
		pm := p.msg
		if h.ccmRound {
			pm = p.msgCCM
		}
		h.sendProposalMsg(p, pm, "")
		violated()
		// honest signers
		for _, who := range hl[:k] {
			mode := rapid.IntRange(0, 2).Draw(t, "honestMode") // 0 endorse, 1 commit, 2 both
			if mode != 1 {
				h.hasEndorsed[who] = true
				e.honestEndorse(h, who, p, empty)
				violated()
			}
			if mode != 0 {
				end := map[uint32][]byte{}
				seen := h.endorsed[ekey(p.proposer, empty)]
				for _, i := range sortedKeys(seen) {
					if i != who && rapid.Bool().Draw(t, "bundle") {
						end[i] = seen[i]
					}
				}
				m := e.commitMsg(who, who, p, empty, hash, end)
				m.ProposerSig = h.heldProposerSig(p, empty, m.ProposerSig)
				h.honestCCMCommit(m, who)
				if h.sendCommit(who, m, "") == nil {
					h.honestSigs = append(h.honestSigs, c31HonestSig{who, hash, m.CommitterSig})
				}
				violated()
			}
		}
		before := h.verdict(p.proposer).V
		done0, _, _ := h.check(known)
		// faulty messages, each under the sender's own index, for this proposal's hash
		nmsg := 1 + rapid.IntRange(0, 2).Draw(t, "nFaultyMsgs")
		for j := 0; j < nmsg && !done0; j++ {
			var cands []uint32
			for _, f := range fl {
				if f != p.proposer {
					cands = append(cands, f)
				}
			}
			if len(cands) == 0 {
				break
			}
			f := cands[rapid.IntRange(0, len(cands)-1).Draw(t, "f")]
			if rapid.IntRange(0, 9).Draw(t, "faultyType") < 6 {
				end := map[uint32][]byte{}
				seen := h.endorsed[ekey(p.proposer, empty)]
				for _, i := range sortedKeys(seen) {
					if i != f && rapid.IntRange(0, 3).Draw(t, "fbundle") == 0 {
						end[i] = seen[i]
					}
				}
				m := e.commitMsg(f, f, p, empty, hash, end)
				var bs, ccm string
				m.CommitterSig, bs = h.drawBlockSig(t, "fc", f, hash, p, 6)
				m.CommitCCMHash, m.CrossChainMsgCommitterSig, ccm = h.drawCCM(t, "fc", f, hash, 2, 6)
				if ccm != ccmAbsent && len(end) > 0 && rapid.Bool().Draw(t, "fcEndCcm") {
					m.CrossChainMsgEndorserSig = map[uint32][]byte{}
					for _, i := range sortedKeys(end) {
						m.CrossChainMsgEndorserSig[i] = []byte("garbage")
					}
				}
				err := h.sendCommit(f, m, fmt.Sprintf("![bs=%s,ccm=%s/%x]", bs, ccm, m.CommitCCMHash[:2]))
				h.optClass(optCommit, bs, ccm, err == nil)
			} else {
				m := &vbft.VerifEndorseMsg{Endorser: f, EndorsedProposer: p.proposer, BlockNum: c31Blk, EndorsedBlockHash: hash, EndorseForEmpty: empty}
				var bs, ccm string
				m.EndorserSig, bs = h.drawBlockSig(t, "fe", f, hash, p, 6)
				m.CrossChainMsgHash, m.CrossChainMsgEndorserSig, ccm = h.drawCCM(t, "fe", f, hash, 2, 6)
				err := h.sendEndorseMsg(f, m, fmt.Sprintf("![bs=%s,ccm=%s/%x]", bs, ccm, m.CrossChainMsgHash[:2]))
				h.optClass(optEndorse, bs, ccm, err == nil)
				if err == nil && bs == sigValid {
					ek := ekey(p.proposer, empty)
					if h.endorsed[ek] == nil {
						h.endorsed[ek] = map[uint32][]byte{}
					}
					h.endorsed[ek][f] = m.EndorserSig
				}
			}
			if done, _, viol := h.check(known); viol != "" {
				t.Fatalf("%s", viol)
			} else if done {
				break
			}
		}
		done, excl, viol := h.check(known)
		if viol != "" {
			t.Fatalf("%s", viol)
		}
		ev.Class("edge:histories")
		if before == e.q-1 {
			ev.Class("edge:one-short-before-faulty")
		}
		switch {
		case excl:
			ev.Excluded()
			ev.Class("edge:done-below-quorum-known")
		case done:
			ev.Class("edge:done-with-quorum")
		default:
			ev.Class("edge:not-done")
		}
		if h.ccmRound {
			ev.Class("edge:cross-chain-round")
			if done && !excl {
				ev.Class("edge:cross-chain-round:done-with-quorum")
			}
		}
		sort.Strings(h.cls)
		for _, c := range h.cls {
			ev.Class(c)
		}
		ev.Case(h.badOpt > 0 && before >= e.q-2 && before <= e.q, shortDesc(strings.Join(h.log, ";")))
	})
}
