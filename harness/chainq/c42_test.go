package chainq

// C42 Pre-execution never changes persisted state.
//
// Two ledgers with the same genesis receive the same prefix of blocks (funding, NeoVM contracts
// that put/delete/destroy/migrate, EVM contracts that SSTORE+LOG and SELFDESTRUCT, a few generated
// blocks). Ledger A then serves a generated batch of pre-executions through every read-only
// interface; ledger B (the twin) never pre-executes. Oracles:
//  1. logical dump (all key/value pairs of every LevelDB of the data directory, opened read-only
//     after a clean Close, plus the merkle file bytes) identical before and after the batch;
//  2. after every single pre-execution: height, tip hash, state root and a set of live reads
//     (storage items, EVM slot, nonces, balances, contract records, code) unchanged, and no event
//     record / transaction record exists for the pre-executed transaction;
//  3. the same pre-execution repeated gives the same result, and a fixed set of probe pre-executions
//     (nonce-checked transfers, a storing call, balanceOf) reports the same results as before
//     (nothing a pre-execution did is visible to later requests);
//  4. a following real block gives the same execution result, state root and hash on A and on B,
//     and the two data directories have the same logical content at the end.

import (
	"encoding/json"
	"fmt"
	"math/big"
	"os"
	"strings"
	"testing"

	ethcommon "github.com/ethereum/go-ethereum/common"
	ethtypes "github.com/ethereum/go-ethereum/core/types"
	ethcrypto "github.com/ethereum/go-ethereum/crypto"
	"github.com/ontio/ontology/common"
	"github.com/ontio/ontology/common/config"
	"github.com/ontio/ontology/core/payload"
	"github.com/ontio/ontology/core/store"
	"github.com/ontio/ontology/core/store/ledgerstore"
	"github.com/ontio/ontology/core/types"
	cutils "github.com/ontio/ontology/core/utils"
	"github.com/ontio/ontology/smartcontract/service/native/ont"
	nutils "github.com/ontio/ontology/smartcontract/service/native/utils"
	"github.com/ontio/ontology/smartcontract/service/neovm"
	evm2 "github.com/ontio/ontology/vm/evm"
	"pgregory.net/rapid"

	"verifharness/internal/fix"
	"verifharness/internal/harn"
)

// ---------------------------------------------------------------------------------------------
// NeoVM assembler (straight-line programs only)

type neoAsm struct{ b []byte }

func (a *neoAsm) push(d []byte) *neoAsm {
	n := len(d)
	switch {
	case n == 0:
		a.b = append(a.b, 0x00)
	case n <= 75:
		a.b = append(append(a.b, byte(n)), d...)
	case n <= 255:
		a.b = append(append(a.b, 0x4c, byte(n)), d...)
	default:
		a.b = append(append(a.b, 0x4d, byte(n), byte(n>>8)), d...)
	}
	return a
}

func (a *neoAsm) pushInt(i int) *neoAsm { // 0..16
	if i == 0 {
		a.b = append(a.b, 0x00)
	} else {
		a.b = append(a.b, byte(0x50+i))
	}
	return a
}

func (a *neoAsm) op(o ...byte) *neoAsm { a.b = append(a.b, o...); return a }

func (a *neoAsm) syscall(name string) *neoAsm {
	a.b = append(append(a.b, 0x68, byte(len(name))), name...)
	return a
}

func (a *neoAsm) appcall(addr common.Address) *neoAsm {
	a.b = append(append(a.b, 0x67), addr[:]...)
	return a
}

const (
	nOVER = 0x78
	nDROP = 0x75
	nRET  = 0x66
)

// deployed NeoVM contracts; each expects its arguments on the caller's evaluation stack
func neoPutCode() []byte { // [v,k] -> notify(v); put(ctx,k,v)
	return new(neoAsm).op(nOVER).syscall(neovm.RUNTIME_NOTIFY_NAME).syscall(neovm.STORAGE_GETCONTEXT_NAME).syscall(neovm.STORAGE_PUT_NAME).pushInt(1).op(nRET).b
}
func neoDelCode() []byte { // [k] -> delete(ctx,k)
	return new(neoAsm).syscall(neovm.STORAGE_GETCONTEXT_NAME).syscall(neovm.STORAGE_DELETE_NAME).pushInt(2).op(nRET).b
}
func neoDestroyCode() []byte {
	return new(neoAsm).syscall(neovm.CONTRACT_DESTROY_NAME).pushInt(3).op(nRET).b
}
func neoPutMigrateCode() []byte { // [desc,email,author,version,name,vmtype,code,v,k] -> put; migrate
	return new(neoAsm).syscall(neovm.STORAGE_GETCONTEXT_NAME).syscall(neovm.STORAGE_PUT_NAME).syscall(neovm.CONTRACT_MIGRATE_NAME).op(nDROP).pushInt(4).op(nRET).b
}

func pushDeployParams(a *neoAsm, code []byte) *neoAsm {
	return a.push([]byte("d")).push([]byte("e")).push([]byte("a")).push([]byte("v")).push([]byte("n")).pushInt(1).push(code)
}

// ---------------------------------------------------------------------------------------------
// EVM contracts

// evmWrapRuntime returns init code that deploys the given runtime code.
func evmWrapRuntime(rt []byte) []byte {
	const progLen = 15
	p := []byte{opPUSH2, byte(len(rt) >> 8), byte(len(rt)), opPUSH2, 0, progLen, opPUSH1, 0, opCODECOPY,
		opPUSH2, byte(len(rt) >> 8), byte(len(rt)), opPUSH1, 0, opRETURN}
	return append(p, rt...)
}

// evmStoreRuntime: slot1 := calldata[0:32]; LOG1(topic = calldata[0:32]); STOP
func evmStoreRuntime() []byte {
	return []byte{opPUSH1, 0, 0x35, 0x80, opPUSH1, 1, opSSTORE, opPUSH1, 0, opPUSH1, 0, 0xa1, opSTOP}
}

// evmKillRuntime: SELFDESTRUCT(CALLER)
func evmKillRuntime() []byte { return []byte{0x33, 0xff} }

// ---------------------------------------------------------------------------------------------
// fixture: twin ledgers with a common prefix

type c42Env struct {
	base     string
	A, B     *fix.Chain
	bk, u1   *fix.ZooKey
	eth      []*fix.ZooKey
	nonce    []uint64
	put, del common.Address // NeoVM contracts
	destroy  common.Address
	putmig   common.Address
	eStore   ethcommon.Address
	eKill    ethcommon.Address
	putKeys  [][]byte
	noAtomic bool                             // never generate the atomic batch interface (it takes the block-saving lock)
	hookA    func(name string, height uint32) // installed as ledgerstore.VerifCrashHook only while A submits a block
}

// both applies a block built on A to A and to the twin B and demands identical results.
func (e *c42Env) both(txs []*types.Transaction, what string) (store.ExecuteResult, error) {
	blk, err := e.A.MakeBlock(txs, 0)
	if err != nil {
		return store.ExecuteResult{}, err
	}
	resA, errA := e.A.LS.ExecuteBlock(blk)
	resB, errB := e.B.LS.ExecuteBlock(blk)
	if (errA == nil) != (errB == nil) {
		return resA, fmt.Errorf("%s: block %d executes with err=%v on the ledger that pre-executed and err=%v on its twin that never did", what, blk.Header.Height, errA, errB)
	}
	if errA != nil {
		return resA, fmt.Errorf("harness: %s: generated block rejected by both ledgers: %v", what, errA)
	}
	ja, _ := json.Marshal(resA.Notify)
	jb, _ := json.Marshal(resB.Notify)
	if resA.Hash != resB.Hash || resA.MerkleRoot != resB.MerkleRoot || string(ja) != string(jb) || resA.Bloom != resB.Bloom {
		return resA, fmt.Errorf("%s: block %d gives change hash %s / state root %s on the ledger that pre-executed but %s / %s on its twin; notifications A=%s B=%s",
			what, blk.Header.Height, resA.Hash.ToHexString(), resA.MerkleRoot.ToHexString(), resB.Hash.ToHexString(), resB.MerkleRoot.ToHexString(), ja, jb)
	}
	if e.hookA != nil {
		// consensus executes a proposal, keeps the result and submits it later: requests served between
		// the two calls see a ledger with an executed-but-unsubmitted block
		e.hookA(c42PointBetween, blk.Header.Height)
	}
	ledgerstore.VerifCrashHook = e.hookA
	errA = e.A.LS.SubmitBlock(blk, nil, resA)
	ledgerstore.VerifCrashHook = nil
	errB = e.B.LS.SubmitBlock(blk, nil, resB)
	if errA != nil || errB != nil {
		return resA, fmt.Errorf("%s: block %d submit err A=%v B=%v", what, blk.Header.Height, errA, errB)
	}
	h := blk.Header.Height
	ra, e1 := e.A.LS.GetStateMerkleRoot(h)
	rb, e2 := e.B.LS.GetStateMerkleRoot(h)
	if e1 != nil || e2 != nil || ra != rb || e.A.LS.GetCurrentBlockHash() != e.B.LS.GetCurrentBlockHash() {
		return resA, fmt.Errorf("%s: after block %d state root A=%s (%v) B=%s (%v), tip A=%s B=%s", what, h, ra.ToHexString(), e1, rb.ToHexString(), e2,
			e.A.LS.GetCurrentBlockHash().ToHexString(), e.B.LS.GetCurrentBlockHash().ToHexString())
	}
	return resA, nil
}

func (e *c42Env) neoInvoke(code []byte, signer *fix.ZooKey, gasPrice uint64) (*types.Transaction, error) {
	mtx := e.A.RawInvoke(code, gasPrice, 2000000)
	if signer == nil {
		return mtx.IntoImmutable()
	}
	return fix.Sign(mtx, signer)
}

func (e *c42Env) deployTx(code []byte, name string) (*types.Transaction, common.Address, error) {
	mtx, err := cutils.NewDeployTransaction(code, name, "v", "a", "e", "d", payload.NEOVM_TYPE)
	if err != nil {
		return nil, common.Address{}, err
	}
	e.A.NonceCt++
	mtx.Nonce = e.A.NonceCt
	mtx.GasLimit = 30000000
	tx, err := fix.Sign(mtx, e.bk)
	return tx, common.AddressFromVmCode(code), err
}

func (e *c42Env) evmTx(from int, to *ethcommon.Address, valueOng uint64, gas, gpGwei uint64, data []byte) (*types.Transaction, *ethtypes.Transaction, error) {
	tx, raw, err := signEIP155(e.eth[from], e.nonce[from], to, new(big.Int).Mul(new(big.Int).SetUint64(valueOng), big.NewInt(1_000_000_000)), gas, gpGwei, data)
	return tx, raw, err
}

func word(b byte, rest ...byte) []byte {
	w := make([]byte, 32)
	w[31] = b
	copy(w, rest)
	return w
}

func c42Setup(extra int, extraAmt []uint64) (*c42Env, error) {
	config.DefConfig.Common.EnableEventLog = true
	base, err := os.MkdirTemp("", "c42-")
	if err != nil {
		return nil, err
	}
	e := &c42Env{base: base, bk: fix.Key(fix.KP256, 0), u1: fix.Key(fix.KP256, 1),
		eth: []*fix.ZooKey{fix.Key(fix.KEth, 0), fix.Key(fix.KEth, 1), fix.Key(fix.KEth, 2)}, nonce: make([]uint64, 3)}
	fail := func(err error) (*c42Env, error) { e.close(); return nil, err }
	if e.A, err = fix.NewSolo(base+"/A", e.bk); err != nil {
		return fail(err)
	}
	if e.B, err = fix.NewSolo(base+"/B", e.bk); err != nil {
		return fail(err)
	}
	// block 1: funding
	var txs []*types.Transaction
	for _, f := range []struct {
		tok common.Address
		to  common.Address
		amt uint64
	}{{nutils.OngContractAddress, e.u1.Address, 5000_000000000}, {nutils.OntContractAddress, e.u1.Address, 1000000},
		{nutils.OngContractAddress, e.eth[0].Address, 5000_000000000}, {nutils.OngContractAddress, e.eth[1].Address, 5000_000000000}} {
		tx, err := e.A.Transfer(f.tok, e.bk, f.to, f.amt, 0, 20000)
		if err != nil {
			return fail(err)
		}
		txs = append(txs, tx)
	}
	if _, err := e.both(txs, "setup funding"); err != nil {
		return fail(err)
	}
	// block 2: contracts
	txs = nil
	for _, c := range []struct {
		code []byte
		dst  *common.Address
		name string
	}{{neoPutCode(), &e.put, "put"}, {neoDelCode(), &e.del, "del"}, {neoDestroyCode(), &e.destroy, "destroy"}, {neoPutMigrateCode(), &e.putmig, "putmig"}} {
		tx, addr, err := e.deployTx(c.code, c.name)
		if err != nil {
			return fail(err)
		}
		*c.dst = addr
		txs = append(txs, tx)
	}
	e.eStore = ethcrypto.CreateAddress(ethAddr(e.eth[0]), 0)
	tx, _, err := e.evmTx(0, nil, 0, 300000, 500, evmWrapRuntime(evmStoreRuntime()))
	if err != nil {
		return fail(err)
	}
	e.nonce[0]++
	txs = append(txs, tx)
	e.eKill = ethcrypto.CreateAddress(ethAddr(e.eth[0]), 1)
	tx, _, err = e.evmTx(0, nil, 5, 300000, 500, evmWrapRuntime(evmKillRuntime()))
	if err != nil {
		return fail(err)
	}
	e.nonce[0]++
	txs = append(txs, tx)
	res, err := e.both(txs, "setup contracts")
	if err != nil {
		return fail(err)
	}
	for i, n := range res.Notify {
		if n.State != 1 {
			return fail(fmt.Errorf("harness: setup contract tx %d failed", i))
		}
	}
	// block 3: give the contracts state (storage in put/del/putmig, slot 1 of eStore)
	txs = nil
	e.putKeys = [][]byte{[]byte("k0"), []byte("k1")}
	for i, k := range e.putKeys {
		code := new(neoAsm).push([]byte{0xa0 + byte(i), 7}).push(k).appcall(e.put).b
		tx, err := e.neoInvoke(code, e.bk, 0)
		if err != nil {
			return fail(err)
		}
		txs = append(txs, tx)
	}
	to := e.eStore
	tx, _, err = e.evmTx(0, &to, 0, 100000, 500, word(0x11))
	if err != nil {
		return fail(err)
	}
	e.nonce[0]++
	txs = append(txs, tx)
	res, err = e.both(txs, "setup state")
	if err != nil {
		return fail(err)
	}
	for i, n := range res.Notify {
		if n.State != 1 {
			return fail(fmt.Errorf("harness: setup state tx %d failed", i))
		}
	}
	// extra generated blocks
	for i := 0; i < extra; i++ {
		var txs []*types.Transaction
		if extraAmt[i] > 0 {
			tx, err := e.A.Transfer(nutils.OngContractAddress, e.bk, e.u1.Address, extraAmt[i], 2500, 20000)
			if err != nil {
				return fail(err)
			}
			txs = append(txs, tx)
		}
		if _, err := e.both(txs, "setup extra"); err != nil {
			return fail(err)
		}
	}
	// one clean close/open cycle on both sides so that open-time bookkeeping (bloom filter start) is settled
	if err := e.A.Reopen(); err != nil {
		return fail(err)
	}
	if err := e.B.Reopen(); err != nil {
		return fail(err)
	}
	return e, nil
}

func (e *c42Env) close() {
	if e.A != nil {
		e.A.Close()
	}
	if e.B != nil {
		e.B.Close()
	}
	os.RemoveAll(e.base)
}

// live is the set of cheap reads compared after every single pre-execution.
func (e *c42Env) live() string { return e.liveOf(e.A.LS) }

func (e *c42Env) liveOf(ls *ledgerstore.LedgerStoreImp) string {
	var sb strings.Builder
	h := ls.GetCurrentBlockHeight()
	hh := ls.GetCurrentBlockHash()
	sr, err := ls.GetStateMerkleRoot(h)
	fmt.Fprintf(&sb, "height=%d tip=%s stateroot=%s/%v", h, hh.ToHexString(), sr.ToHexString(), err)
	for _, c := range []common.Address{e.put, e.del, e.destroy, e.putmig} {
		dc, err := ls.GetContractState(c)
		fmt.Fprintf(&sb, " contract[%x]=%v/%v", c[:3], dc != nil, err)
		for _, k := range append(e.putKeys, []byte("new")) {
			v, err := ls.GetStorageItem(c, k)
			fmt.Fprintf(&sb, " %s=%x/%v", k, v, err != nil)
		}
	}
	for _, a := range []common.Address{e.bk.Address, e.u1.Address, e.eth[0].Address, e.eth[1].Address, e.eth[2].Address, common.Address(e.eKill), nutils.GovernanceContractAddress} {
		for _, tok := range []common.Address{nutils.OntContractAddress, nutils.OngContractAddress} {
			v, _ := ls.GetStorageItem(tok, a[:])
			fmt.Fprintf(&sb, " bal[%x]=%x", a[:3], v)
		}
	}
	for _, k := range e.eth {
		acc, err := ls.GetEthAccount(ethAddr(k))
		if err == nil && acc != nil {
			fmt.Fprintf(&sb, " eth[%x]=nonce%d/code%x", ethAddr(k).Bytes()[:3], acc.Nonce, acc.CodeHash[:4])
		} else {
			fmt.Fprintf(&sb, " eth[%x]=err", ethAddr(k).Bytes()[:3])
		}
	}
	for _, c := range []ethcommon.Address{e.eStore, e.eKill} {
		acc, err := ls.GetEthAccount(c)
		if err == nil && acc != nil {
			code, _ := ls.GetEthCode(acc.CodeHash)
			fmt.Fprintf(&sb, " evmc[%x]=nonce%d/code%x", c[:3], acc.Nonce, code)
		} else {
			fmt.Fprintf(&sb, " evmc[%x]=err", c[:3])
		}
		v, err := ls.GetEthState(c, ethcommon.BytesToHash([]byte{1}))
		fmt.Fprintf(&sb, " slot1=%x/%v", v, err != nil)
	}
	return sb.String()
}

// probe runs a fixed set of pre-executions whose results depend on nonces, balances and contract
// storage as the read-only interfaces see them: a nonce-checked value transfer per funded EVM sender
// through PreExecuteEip155Tx, a call of the storing contract through PreExecuteEIP155 and native
// balanceOf queries through PreExecuteContract. Its rendering must not change while only
// pre-executions happen (error texts are not rendered).
func (e *c42Env) probe() string {
	ls := e.A.LS
	var sb strings.Builder
	defer func() {
		if p := recover(); p != nil {
			fmt.Fprintf(&sb, " panic:%v", p)
		}
	}()
	to := ethAddr(e.eth[2])
	for i := 0; i < 2; i++ {
		msg := ethtypes.NewMessage(ethAddr(e.eth[i]), &to, e.nonce[i], big.NewInt(1_000_000_000), 30000, big.NewInt(500_000_000_000), nil, true)
		r, err := ls.PreExecuteEip155Tx(msg)
		fmt.Fprintf(&sb, " transfer[e%d,nonce%d]=err%v", i, e.nonce[i], err != nil)
		if r != nil {
			fmt.Fprintf(&sb, "/used%d/vmerr%v", r.UsedGas, r.Err != nil)
		}
	}
	st := e.eStore
	if _, raw, err := signEIP155(e.eth[1], e.nonce[1], &st, big.NewInt(0), 100000, 500, word(0x77)); err == nil {
		h := ls.GetCurrentBlockHeight()
		ts := uint32(0)
		if hdr, err := ls.GetHeaderByHeight(h); err == nil {
			ts = hdr.Timestamp + 1
		}
		r, n, err := ls.PreExecuteEIP155(raw, ledgerstore.Eip155Context{BlockHash: ls.GetBlockHash(h), Height: h, Timestamp: ts})
		fmt.Fprintf(&sb, " store=err%v", err != nil)
		if r != nil && n != nil {
			fmt.Fprintf(&sb, "/used%d/state%d/notify%d", r.UsedGas, n.State, len(n.Notify))
		}
	}
	for _, q := range []struct {
		tok  common.Address
		addr common.Address
	}{{nutils.OngContractAddress, e.eth[0].Address}, {nutils.OngContractAddress, e.eth[2].Address}, {nutils.OngContractAddress, e.bk.Address},
		{nutils.OntContractAddress, e.u1.Address}, {nutils.OntContractAddress, e.eth[2].Address}} {
		code, err := cutils.BuildNativeInvokeCode(q.tok, 0, "balanceOf", []interface{}{q.addr[:]})
		if err != nil {
			fmt.Fprintf(&sb, " balanceOf=builderr")
			continue
		}
		tx, err := (&types.MutableTransaction{TxType: types.InvokeNeo, Nonce: 1, GasLimit: 20000, Payload: &payload.InvokeCode{Code: code}}).IntoImmutable()
		if err != nil {
			fmt.Fprintf(&sb, " balanceOf=txerr")
			continue
		}
		r, err := ls.PreExecuteContract(tx)
		fmt.Fprintf(&sb, " balanceOf[%x,%x]=err%v", q.tok[19:], q.addr[:3], err != nil)
		if r != nil {
			fmt.Fprintf(&sb, "/%v", r.Result)
		}
	}
	return sb.String()
}

// ---------------------------------------------------------------------------------------------
// pre-execution requests

type c42Req struct {
	desc string
	kind string // generator class of a single-transaction request ("" for batches)
	// run performs the pre-execution on A and returns a canonical rendering of the result,
	// whether it was a success, whether it was non-trivial, and the hash of the transaction (if any).
	run func() (render string, ok, nontrivial bool, txHash *common.Uint256)
}

// renderPre renders a pre-execution result for the repeatability comparison. Error TEXTS are not
// compared (native error messages print pointer values), only whether there was an error.
func renderPre(res interface{}, err error) string {
	j, _ := json.Marshal(res)
	return fmt.Sprintf("%s err=%v", j, err != nil)
}

func safely(desc string, f func() (string, bool, bool, *common.Uint256)) (r string, ok, nt bool, h *common.Uint256, pan interface{}) {
	defer func() {
		if p := recover(); p != nil {
			pan = p
		}
	}()
	r, ok, nt, h = f()
	return
}

func (e *c42Env) genNeoTx(t *rapid.T) (*types.Transaction, string, string) {
	kind := rapid.SampledFrom([]string{"ont", "ong", "approve", "put", "put", "del", "destroy", "putmig", "create", "deploy", "bad"}).Draw(t, "nkind")
	must := func(tx *types.Transaction, err error) *types.Transaction {
		if err != nil {
			t.Fatalf("harness: building %s: %v", kind, err)
		}
		return tx
	}
	signers := []*fix.ZooKey{e.bk, e.bk, e.u1, nil}
	signer := rapid.SampledFrom(signers).Draw(t, "signer")
	sname := "none"
	if signer != nil {
		sname = fmt.Sprintf("P256#%d", signer.Idx)
	}
	gp := rapid.SampledFrom([]uint64{0, 2500}).Draw(t, "ngp")
	switch kind {
	case "ont", "ong":
		tok := nutils.OntContractAddress
		if kind == "ong" {
			tok = nutils.OngContractAddress
		}
		amt := rapid.OneOf(rapid.Uint64Range(1, 1000), rapid.Just(uint64(1)<<61)).Draw(t, "amt")
		from := e.bk
		if signer != nil {
			from = signer
		}
		st := &ont.TransferState{From: from.Address, To: e.eth[2].Address, Value: amt}
		mtx, err := e.A.NativeInvoke(tok, "transfer", []interface{}{[]*ont.TransferState{st}}, gp, 20000)
		if err != nil {
			t.Fatal(err)
		}
		if signer == nil {
			return must(mtx.IntoImmutable()), fmt.Sprintf("%s-transfer(%d) unsigned", kind, amt), "neo:" + kind
		}
		return must(fix.Sign(mtx, signer)), fmt.Sprintf("%s-transfer(%d) by %s gp%d", kind, amt, sname, gp), "neo:" + kind
	case "approve":
		from := e.bk
		if signer != nil {
			from = signer
		}
		amt := rapid.Uint64Range(1, 100000).Draw(t, "aamt")
		st := &ont.TransferState{From: from.Address, To: e.u1.Address, Value: amt}
		mtx, err := e.A.NativeInvoke(nutils.OngContractAddress, "approve", []interface{}{st}, gp, 20000)
		if err != nil {
			t.Fatal(err)
		}
		if signer == nil {
			return must(mtx.IntoImmutable()), "ong-approve unsigned", "neo:" + kind
		}
		return must(fix.Sign(mtx, signer)), fmt.Sprintf("ong-approve(%d) by %s", amt, sname), "neo:" + kind
	case "put":
		k := rapid.SampledFrom([][]byte{[]byte("k0"), []byte("k1"), []byte("new")}).Draw(t, "pk")
		v := rapid.SliceOfN(rapid.Byte(), 1, 24).Draw(t, "pv")
		code := new(neoAsm).push(v).push(k).appcall(e.put).b
		return must(e.neoInvoke(code, signer, gp)), fmt.Sprintf("neo put(%s,%x)", k, v), "neo:" + kind
	case "del":
		// the del contract has no storage of its own; deleting through put's context is refused, so this exercises delete of an absent key
		k := rapid.SampledFrom([][]byte{[]byte("k0"), []byte("zz")}).Draw(t, "dk")
		code := new(neoAsm).push(k).appcall(e.del).b
		return must(e.neoInvoke(code, signer, gp)), fmt.Sprintf("neo del(%s)", k), "neo:" + kind
	case "destroy":
		target := rapid.SampledFrom([]common.Address{e.destroy, e.destroy, e.put}).Draw(t, "dt")
		code := new(neoAsm).appcall(target).b
		if target == e.put { // put expects two stack items
			code = new(neoAsm).push([]byte{1}).push([]byte("k0")).appcall(e.put).appcall(e.destroy).b
		}
		return must(e.neoInvoke(code, signer, gp)), fmt.Sprintf("neo destroy via %x", target[:3]), "neo:" + kind
	case "putmig":
		newCode := append([]byte{0x51, 0x66}, rapid.SliceOfN(rapid.Byte(), 0, 6).Draw(t, "mcode")...)
		v := rapid.SliceOfN(rapid.Byte(), 1, 8).Draw(t, "mv")
		code := pushDeployParams(new(neoAsm), newCode).push(v).push([]byte("new")).appcall(e.putmig).b
		return must(e.neoInvoke(code, signer, gp)), fmt.Sprintf("neo put+migrate(new code %x)", newCode), "neo:" + kind
	case "create":
		newCode := append([]byte{0x52, 0x66}, rapid.SliceOfN(rapid.Byte(), 0, 6).Draw(t, "ccode")...)
		code := pushDeployParams(new(neoAsm), newCode).syscall(neovm.CONTRACT_CREATE_NAME).op(nDROP).pushInt(5).b
		return must(e.neoInvoke(code, signer, gp)), fmt.Sprintf("neo Contract.Create(%x)", newCode), "neo:" + kind
	case "deploy":
		newCode := append([]byte{0x53, 0x66}, rapid.SliceOfN(rapid.Byte(), 0, 40).Draw(t, "dcode")...)
		mtx, err := cutils.NewDeployTransaction(newCode, "n", "v", "a", "e", "d", payload.NEOVM_TYPE)
		if err != nil {
			t.Fatal(err)
		}
		e.A.NonceCt++
		mtx.Nonce, mtx.GasLimit, mtx.GasPrice = e.A.NonceCt, 30000000, gp
		return must(fix.Sign(mtx, e.bk)), fmt.Sprintf("deploy tx(%x)", newCode), "neo:" + kind
	default: // faulting / nonsense code
		code := rapid.SampledFrom([][]byte{{0x00, 0xf0}, {0x67, 1, 2, 3}, new(neoAsm).syscall("No.Such.Service").b, new(neoAsm).push([]byte{1}).push([]byte("k")).syscall(neovm.STORAGE_GETCONTEXT_NAME).syscall(neovm.STORAGE_PUT_NAME).b}).Draw(t, "bcode")
		return must(e.neoInvoke(code, signer, gp)), fmt.Sprintf("neo bad code %x", code), "neo:" + kind
	}
}

func (e *c42Env) genNeoReq(t *rapid.T) c42Req {
	iface := rapid.SampledFrom([]string{"PreExecuteContract", "PreExecuteContract", "Batch", "Batch-atomic", "WithParam"}).Draw(t, "niface")
	if e.noAtomic && iface == "Batch-atomic" {
		iface = "Batch"
	}
	ls := func() *ledgerstore.LedgerStoreImp { return e.A.LS }
	minGas := uint64(neovm.MIN_TRANSACTION_GAS)
	switch iface {
	case "PreExecuteContract", "WithParam":
		tx, d, k := e.genNeoTx(t)
		h := tx.Hash()
		return c42Req{desc: iface + ":" + d, kind: k, run: func() (string, bool, bool, *common.Uint256) {
			var res interface{}
			var err error
			var ok, nt bool
			if iface == "WithParam" {
				r, e2 := ls().PreExecuteContractWithParam(tx, ledgerstore.PrexecuteParam{MinGas: false})
				res, err = r, e2
				ok = e2 == nil && r != nil && r.State == 1
				nt = ok && (len(r.Notify) > 0 || r.Gas > minGas)
			} else {
				r, e2 := ls().PreExecuteContract(tx)
				res, err = r, e2
				ok = e2 == nil && r != nil && r.State == 1
				nt = ok && (len(r.Notify) > 0 || r.Gas > minGas)
			}
			return renderPre(res, err), ok, nt, &h
		}}
	default:
		n := rapid.IntRange(1, 3).Draw(t, "nbatch")
		var txs []*types.Transaction
		var ds []string
		for i := 0; i < n; i++ {
			tx, d, _ := e.genNeoTx(t)
			txs = append(txs, tx)
			ds = append(ds, d)
		}
		h := txs[0].Hash()
		atomic := iface == "Batch-atomic"
		return c42Req{desc: iface + ":[" + strings.Join(ds, ";") + "]", run: func() (string, bool, bool, *common.Uint256) {
			rs, height, err := ls().PreExecuteContractBatch(txs, atomic)
			ok := err == nil && len(rs) == len(txs)
			nt := false
			for _, r := range rs {
				if r != nil && r.State == 1 && (len(r.Notify) > 0 || r.Gas > minGas) {
					nt = true
				}
			}
			return fmt.Sprintf("height=%d %s", height, renderPre(rs, err)), ok, ok && nt, &h
		}}
	}
}

func (e *c42Env) genEvmReq(t *rapid.T) c42Req {
	iface := rapid.SampledFrom([]string{"PreExecuteContract", "PreExecuteEIP155", "PreExecuteEIP155", "PreExecuteEip155Tx", "TraceEip155Tx"}).Draw(t, "eiface")
	kind := rapid.SampledFrom([]string{"create", "create", "store", "store", "kill", "transfer", "poor"}).Draw(t, "ekind")
	from := rapid.SampledFrom([]int{0, 0, 1}).Draw(t, "efrom")
	var to *ethcommon.Address
	var data []byte
	value := uint64(0)
	gas := uint64(400000)
	d := kind
	switch kind {
	case "create":
		n := rapid.IntRange(0, 3).Draw(t, "nlogs")
		var logs []evmLog
		for i := 0; i < n; i++ {
			l := evmLog{Data: rapid.SliceOfN(rapid.Byte(), 0, 20).Draw(t, "ldata")}
			for j := rapid.IntRange(0, 4).Draw(t, "nt"); j > 0; j-- {
				var h ethcommon.Hash
				copy(h[:], rapid.SliceOfN(rapid.Byte(), 32, 32).Draw(t, "topic"))
				l.Topics = append(l.Topics, h)
			}
			logs = append(logs, l)
		}
		var ss [][2]byte
		for i := rapid.IntRange(0, 3).Draw(t, "nsstore"); i > 0; i-- {
			ss = append(ss, [2]byte{rapid.Byte().Draw(t, "sk"), rapid.ByteRange(1, 255).Draw(t, "sv")})
		}
		end := rapid.SampledFrom([]initEnd{endReturnEmpty, endReturnCode, endReturnCode, endRevert}).Draw(t, "end")
		data = asmInitCode(logs, ss, end)
		value = rapid.SampledFrom([]uint64{0, 0, 3}).Draw(t, "cval")
		d = fmt.Sprintf("create(logs%d,sstore%d,end%d,value%d)", n, len(ss), end, value)
	case "store":
		a := e.eStore
		to = &a
		data = word(rapid.Byte().Draw(t, "w"), rapid.SliceOfN(rapid.Byte(), 0, 8).Draw(t, "wrest")...)
		d = fmt.Sprintf("call store(%x)", data)
	case "kill":
		a := e.eKill
		to = &a
		d = "call selfdestruct contract"
	case "transfer":
		a := ethAddr(e.eth[rapid.IntRange(1, 2).Draw(t, "tto")])
		to = &a
		value = rapid.Uint64Range(1, 1000).Draw(t, "tval")
		gas = 30000
		d = fmt.Sprintf("transfer %d", value)
	default: // sender without funds, or too little gas
		if rapid.Bool().Draw(t, "unfunded") {
			from = 2
		} else {
			gas = 20000
		}
		a := e.eStore
		to = &a
		data = word(9)
		d = fmt.Sprintf("poor(from%d,gas%d)", from, gas)
	}
	gp := rapid.SampledFrom([]uint64{500, 2500}).Draw(t, "egp")
	nonce := e.nonce[from]
	if rapid.IntRange(0, 3).Draw(t, "oddnonce") == 0 { // pre-execution does not check the nonce
		nonce += uint64(rapid.IntRange(1, 5).Draw(t, "nonceoff"))
	}
	wei := new(big.Int).Mul(new(big.Int).SetUint64(value), big.NewInt(1_000_000_000))
	desc := fmt.Sprintf("%s:evm %s from e%d nonce%d gp%d", iface, d, from, nonce, gp)
	ls := func() *ledgerstore.LedgerStoreImp { return e.A.LS }
	switch iface {
	case "PreExecuteContract", "PreExecuteEIP155":
		tx, raw, err := signEIP155(e.eth[from], nonce, to, wei, gas, gp, data)
		if err != nil {
			t.Fatal(err)
		}
		h := tx.Hash()
		if iface == "PreExecuteContract" {
			return c42Req{desc: desc, kind: "evm:" + kind, run: func() (string, bool, bool, *common.Uint256) {
				r, err := ls().PreExecuteContract(tx)
				ok := err == nil && r != nil && r.State == 1
				return renderPre(r, err), ok, ok && (len(r.Notify) > 0 || r.Gas > 21000), &h
			}}
		}
		return c42Req{desc: desc, kind: "evm:" + kind, run: func() (string, bool, bool, *common.Uint256) {
			l := ls()
			height := l.GetCurrentBlockHeight()
			hdr, err := l.GetHeaderByHeight(height)
			if err != nil {
				return "harness: no header: " + err.Error(), false, false, &h
			}
			ctx := ledgerstore.Eip155Context{BlockHash: l.GetBlockHash(height), Height: height, Timestamp: hdr.Timestamp + 1}
			r, n, err := l.PreExecuteEIP155(raw, ctx)
			ok := err == nil && r != nil && !r.Failed() && n.State == 1
			out := renderPre(n, err)
			if r != nil {
				out += fmt.Sprintf(" used=%d vmerr=%v ret=%x", r.UsedGas, r.Err != nil, r.ReturnData)
			}
			return out, ok, ok && (len(n.Notify) > 0 || r.UsedGas > 21000), &h
		}}
	default:
		gpWei := new(big.Int).Mul(new(big.Int).SetUint64(gp), big.NewInt(1_000_000_000))
		if rapid.Bool().Draw(t, "zeroGasPrice") { // eth_call default
			gpWei = new(big.Int)
		}
		check := rapid.IntRange(0, 4).Draw(t, "checknonce") == 0
		msg := ethtypes.NewMessage(ethAddr(e.eth[from]), to, nonce, wei, gas, gpWei, data, check)
		desc += fmt.Sprintf(" gpwei%s check%v", gpWei, check)
		return c42Req{desc: desc, kind: "evm:" + kind, run: func() (string, bool, bool, *common.Uint256) {
			var r interface {
				Failed() bool
			}
			var used uint64
			var out string
			if iface == "TraceEip155Tx" {
				tr := evm2.NewStructLogger(nil)
				res, err := ls().TraceEip155Tx(msg, tr)
				out = fmt.Sprintf("err=%v steps=%d", err != nil, len(tr.StructLogs()))
				if res != nil {
					r, used = res, res.UsedGas
					out += fmt.Sprintf(" used=%d vmerr=%v ret=%x", res.UsedGas, res.Err != nil, res.ReturnData)
				}
			} else {
				res, err := ls().PreExecuteEip155Tx(msg)
				out = fmt.Sprintf("err=%v", err != nil)
				if res != nil {
					r, used = res, res.UsedGas
					out += fmt.Sprintf(" used=%d vmerr=%v ret=%x", res.UsedGas, res.Err != nil, res.ReturnData)
				}
			}
			ok := r != nil && !r.Failed()
			return out, ok, ok && used > 21000, nil
		}}
	}
}

// ---------------------------------------------------------------------------------------------

// genRealTxs draws the transactions of a real block: ONG transfer, NeoVM put, EVM storing call, EVM value transfer.
func (e *c42Env) genRealTxs(t *rapid.T) []*types.Transaction {
	var txs []*types.Transaction
	n := rapid.IntRange(0, 4).Draw(t, "realtx")
	for j := 0; j < n; j++ {
		switch rapid.IntRange(0, 3).Draw(t, "realkind") {
		case 0:
			tx, err := e.A.Transfer(nutils.OngContractAddress, e.bk, e.u1.Address, rapid.Uint64Range(1, 999).Draw(t, "ramt"), 2500, 20000)
			if err != nil {
				t.Fatal(err)
			}
			txs = append(txs, tx)
		case 1:
			v := rapid.SliceOfN(rapid.Byte(), 1, 8).Draw(t, "rv")
			k := rapid.SampledFrom([][]byte{[]byte("k0"), []byte("new")}).Draw(t, "rk")
			tx, err := e.neoInvoke(new(neoAsm).push(v).push(k).appcall(e.put).b, e.bk, 0)
			if err != nil {
				t.Fatal(err)
			}
			txs = append(txs, tx)
		case 2:
			from := rapid.IntRange(0, 1).Draw(t, "rfrom")
			to := e.eStore
			tx, _, err := e.evmTx(from, &to, 0, 100000, 500, word(rapid.Byte().Draw(t, "rw")))
			if err != nil {
				t.Fatal(err)
			}
			e.nonce[from]++
			txs = append(txs, tx)
		default:
			from := rapid.IntRange(0, 1).Draw(t, "rfrom2")
			to := ethAddr(e.eth[2])
			tx, _, err := e.evmTx(from, &to, rapid.Uint64Range(1, 50).Draw(t, "rval"), 30000, 500, nil)
			if err != nil {
				t.Fatal(err)
			}
			e.nonce[from]++
			txs = append(txs, tx)
		}
	}

	return txs
}

func c42Run(t *testing.T, family string, quick, thorough int) {
	ev := harn.For("C42")
	ev.Rule("twin solo ledgers (same genesis, same 3+0..3 prefix blocks: funding; NeoVM contracts put/del/destroy/put+migrate and EVM contracts sstore+log / selfdestruct; state-giving calls; generated transfers), one clean reopen on both; ledger A then serves 2-5 rounds of 6-16 generated pre-executions, each round followed by 1-2 real blocks applied to both ledgers: NeoVM/native family = ONT/ONG transfer, approve, contract put/delete/destroy/put+migrate via APPCALL, Contract.Create from invoke code, deploy tx, faulting code, signed by the owner / another account / nobody, through PreExecuteContract, PreExecuteContractWithParam, PreExecuteContractBatch (atomic and not, 1-3 txs); EVM family = creation (0-3 logs, 0-3 SSTOREs, return/return-code/revert, with value), call of the storing+logging contract, call of the self-destructing contract, value transfer, unfunded sender / too little gas, right and wrong nonces, through PreExecuteContract(EIP-155 tx), PreExecuteEIP155, PreExecuteEip155Tx and TraceEip155Tx (zero and non-zero gas price). After each: live reads unchanged, no event/tx record for the pre-executed hash, same request repeated gives the same result and a fixed set of probe pre-executions (nonce-checked EVM transfers, storing call, native balanceOf) is unchanged. After the batch: logical dump of every LevelDB of the closed data dir + merkle file bytes equal to the dump before. Then 1-3 real blocks on both ledgers must give identical execution results/roots and finally identical dumps. Non-trivial = pre-execution that succeeds with a notification or gas above the base (20000 NeoVM / 21000 EVM); distinct by request description")
	ev.Assume("goleveldb opened read-only on a cleanly closed directory returns exactly the persisted key/value pairs (journal replayed in memory, nothing rewritten)")
	harn.Check(t, quick, thorough, func(t *rapid.T) {
		extra := rapid.IntRange(0, 3).Draw(t, "extra")
		amts := make([]uint64, extra)
		for i := range amts {
			amts[i] = rapid.Uint64Range(0, 5000).Draw(t, "extraamt")
		}
		e, err := c42Setup(extra, amts)
		if err != nil {
			t.Fatalf("setup: %v", err)
		}
		defer e.close()
		rounds := rapid.IntRange(2, 5).Draw(t, "rounds")
		for round := 0; round < rounds; round++ {
			e.A.Close()
			before, err := dumpLedgerDir(e.A.Dir, true)
			if err != nil {
				t.Fatalf("harness: dump before: %v", err)
			}
			if err := e.A.Open(); err != nil {
				t.Fatalf("reopen A: %v", err)
			}
			live0 := e.live()
			probe0 := e.probe()
			if p := e.probe(); p != probe0 {
				t.Fatalf("the probe pre-executions are not repeatable on an idle ledger:\n first  %s\n second %s", probe0, p)
			}
			if strings.Contains(probe0, "errtrue") || strings.Contains(probe0, "panic") {
				t.Fatalf("harness: a probe pre-execution fails on the idle ledger: %s", probe0)
			}
			ev.Class("probe:all-ok")
			nreq := rapid.IntRange(6, 16).Draw(t, "nreq")
			var descs []string
			for i := 0; i < nreq; i++ {
				var rq c42Req
				if family == "neo" {
					rq = e.genNeoReq(t)
				} else {
					rq = e.genEvmReq(t)
				}
				descs = append(descs, rq.desc)
				out1, ok, nt, h, pan := safely(rq.desc, rq.run)
				iface := rq.desc[:strings.Index(rq.desc, ":")]
				if pan != nil {
					// a crash is C12's subject; for C42 only the state matters, which is still compared below
					ev.Class("preexec:" + iface + ":panic")
					out1 = fmt.Sprintf("panic: %v", pan)
				} else if ok {
					ev.Class("preexec:" + iface + ":ok")
				} else {
					ev.Class("preexec:" + iface + ":rejected")
				}
				ev.Class("preexec:" + iface)
				ev.Class("preexec")
				if rq.kind != "" {
					if ok {
						ev.Class("kind:" + rq.kind + ":ok")
					} else {
						ev.Class("kind:" + rq.kind + ":rejected")
					}
				}
				if nt {
					ev.Class("preexec:nontrivial")
					ev.Class("preexec:" + iface + ":nontrivial")
				}
				if l := e.live(); l != live0 {
					t.Fatalf("after pre-execution %q (result %s) the ledger reads differ:\n before %s\n after  %s", rq.desc, out1, live0, l)
				}
				if h != nil {
					if n, err := e.A.LS.GetEventNotifyByTx(*h); err == nil && n != nil {
						t.Fatalf("after pre-execution %q an event record exists for the pre-executed transaction %s", rq.desc, h.ToHexString())
					}
					if ok, _ := e.A.LS.IsContainTransaction(*h); ok {
						t.Fatalf("after pre-execution %q the ledger contains the pre-executed transaction %s", rq.desc, h.ToHexString())
					}
				}
				out2, _, _, _, pan2 := safely(rq.desc, rq.run)
				if pan2 != nil {
					out2 = fmt.Sprintf("panic: %v", pan2)
				}
				if out1 != out2 {
					t.Fatalf("pre-execution %q is not repeatable, so the first run left something behind:\n first  %s\n second %s", rq.desc, out1, out2)
				}
				if p := e.probe(); p != probe0 {
					t.Fatalf("after pre-execution %q the probe pre-executions (nonce-checked transfers, storing call, balanceOf) report different results:\n before %s\n after  %s", rq.desc, probe0, p)
				}
				ev.Case(nt, rq.desc)
			}
			e.A.Close()
			after, err := dumpLedgerDir(e.A.Dir, true)
			if err != nil {
				t.Fatalf("harness: dump after: %v", err)
			}
			if d := diffDumps(before, after); d != "" {
				t.Fatalf("persisted content changed across the pre-executions [%s]: %s", strings.Join(descs, " | "), d)
			}
			if err := e.A.Open(); err != nil {
				t.Fatalf("reopen A: %v", err)
			}
			if l := e.live(); l != live0 {
				t.Fatalf("after reopening, the ledger reads differ from before the pre-executions:\n before %s\n after  %s", live0, l)
			}
			ev.Class("round")
			// real blocks on both ledgers
			nb := rapid.IntRange(1, 2).Draw(t, "realblocks")
			for b := 0; b < nb; b++ {
				txs := e.genRealTxs(t)
				if _, err := e.both(txs, "real block after the pre-executions ["+strings.Join(descs, " | ")+"]"); err != nil {
					t.Fatalf("%v", err)
				}
				ev.Class("realblock")
			}
		}
		e.A.Close()
		e.B.Close()
		da, err := dumpLedgerDir(e.A.Dir, true)
		if err != nil {
			t.Fatalf("harness: final dump A: %v", err)
		}
		db, err := dumpLedgerDir(e.B.Dir, true)
		if err != nil {
			t.Fatalf("harness: final dump B: %v", err)
		}
		if d := diffDumps(db, da); d != "" {
			t.Fatalf("the ledger that pre-executed ends with different persisted content than its twin that never did (before=twin, after=pre-executing ledger): %s", d)
		}
		ev.Class("session")
	})
	ev.Floor("preexec:nontrivial", "preexec", 0.2)
}

func TestC42_NeoNative(t *testing.T) { c42Run(t, "neo", 4, 300) }
func TestC42_Evm(t *testing.T)       { c42Run(t, "evm", 4, 300) }

// c42CacheRead is the "GetCacheDB + reads" request: what the transaction pool and eth_call do.
func (e *c42Env) c42CacheRead(t *rapid.T) c42Req {
	who := rapid.IntRange(0, 2).Draw(t, "cacheread")
	addr := e.eth[who].Address
	return c42Req{desc: fmt.Sprintf("GetCacheDB:read ONG balance and EVM account of e%d", who), kind: "cache:read", run: func() (string, bool, bool, *common.Uint256) {
		c := e.A.LS.GetCacheDB()
		v, err := c.Get(append(append([]byte{}, nutils.OngContractAddress[:]...), addr[:]...))
		acc, err2 := c.GetEthAccount(ethAddr(e.eth[who]))
		return fmt.Sprintf("%x err=%v nonce=%d err=%v", v, err != nil, acc.Nonce, err2 != nil), err == nil && err2 == nil, false, nil
	}}
}

// c42PointBetween is not a hook point of submitBlock: the harness itself calls the hook between
// ExecuteBlock and SubmitBlock of ledger A (block executed by consensus, not yet submitted).
const c42PointBetween = "between-execute-and-submit"

var c42Points = []string{c42PointBetween, c42PointBetween, "pre-block-commit", "post-block-commit", "post-event-commit", "post-state-commit"}

// TestC42_PreExecInsideCommitWindow lets pre-execution requests land BETWEEN the store commits of a
// block: the verif hook of submitBlock runs them synchronously at a drawn point of ledger A's commit
// (harness-owned schedule, no real concurrency). The twin B commits the same block undisturbed.
func TestC42_PreExecInsideCommitWindow(t *testing.T) {
	ev := harn.For("C42")
	ev.Rule("commit window: twin ledgers as above; 3-7 real blocks (0-4 txs: ONG transfer, NeoVM put, EVM storing call, EVM transfer); while ledger A commits each block, at a DRAWN point — between ExecuteBlock and SubmitBlock (block executed, result kept, not yet submitted: the consensus sequence), or inside submitBlock (pre-block-commit = all three batches staged, post-block-commit, post-event-commit, post-state-commit = before the height advances) 1-3 generated requests run inside the commit through the interfaces that do not take the block-saving lock: PreExecuteContract, PreExecuteContractWithParam, non-atomic PreExecuteContractBatch, PreExecuteEIP155, PreExecuteEip155Tx, TraceEip155Tx, GetCacheDB + reads (the ATOMIC PreExecuteContractBatch takes the saving lock, cannot run there and is never generated in this test); B commits the same block with no request. Nothing is asserted about the RESULT of a request inside the window (it may see the old or the partially committed state); after each block: state root, tip and the live reads of A and B equal; afterwards 1-2 undisturbed blocks must be accepted identically and the closed data directories must have identical logical content. One case per request; non-trivial = request that succeeded with a notification or gas above the base while a block with >= 1 tx was between its commits; distinct by point and request")
	harn.Check(t, 20, 600, func(t *rapid.T) {
		extra := rapid.IntRange(0, 2).Draw(t, "extra")
		amts := make([]uint64, extra)
		for i := range amts {
			amts[i] = rapid.Uint64Range(0, 5000).Draw(t, "extraamt")
		}
		e, err := c42Setup(extra, amts)
		if err != nil {
			t.Fatalf("setup: %v", err)
		}
		defer func() { ledgerstore.VerifCrashHook = nil; e.close() }()
		e.noAtomic = true
		nBlocks := rapid.IntRange(3, 7).Draw(t, "blocks")
		var history []string
		for b := 0; b < nBlocks; b++ {
			txs := e.genRealTxs(t)
			point := rapid.SampledFrom(c42Points).Draw(t, "point")
			nreq := rapid.IntRange(1, 3).Draw(t, "nreq")
			var reqs []c42Req
			for i := 0; i < nreq; i++ {
				switch rapid.IntRange(0, 4).Draw(t, "family") {
				case 0, 1:
					reqs = append(reqs, e.genNeoReq(t))
				case 2, 3:
					reqs = append(reqs, e.genEvmReq(t))
				default:
					reqs = append(reqs, e.c42CacheRead(t))
				}
			}
			fired := 0
			type outcome struct {
				ok, nt bool
				pan    interface{}
			}
			var outs []outcome
			next := e.A.LS.GetCurrentBlockHeight() + 1
			e.hookA = func(name string, height uint32) {
				if name != point || height != next {
					return
				}
				fired++
				for _, rq := range reqs {
					_, ok, nt, _, pan := safely(rq.desc, rq.run)
					outs = append(outs, outcome{ok, nt, pan})
				}
			}
			var ds []string
			for _, rq := range reqs {
				ds = append(ds, rq.desc)
			}
			what := fmt.Sprintf("block %d (%d txs) with requests [%s] run at %s of its commit", next, len(txs), strings.Join(ds, " | "), point)
			history = append(history, what)
			_, err := e.both(txs, what)
			e.hookA = nil
			if err != nil {
				t.Fatalf("%v\nhistory: %s", err, strings.Join(history, " ;; "))
			}
			if fired != 1 {
				t.Fatalf("harness: hook point %s of block %d fired %d times", point, next, fired)
			}
			if la, lb := e.liveOf(e.A.LS), e.liveOf(e.B.LS); la != lb {
				t.Fatalf("after %s the ledger reads differ from the twin that committed the same block undisturbed:\n twin %s\n this %s", what, lb, la)
			}
			ev.Class("window:" + point)
			ev.Class("window")
			for i, o := range outs {
				iface := reqs[i].desc[:strings.Index(reqs[i].desc, ":")]
				switch {
				case o.pan != nil:
					ev.Class("window-req:" + iface + ":panic")
				case o.ok:
					ev.Class("window-req:" + iface + ":ok")
				default:
					ev.Class("window-req:" + iface + ":rejected")
				}
				ev.Class("window-req")
				if o.nt {
					ev.Class("window-req:nontrivial")
				}
				ev.Case(o.nt && len(txs) > 0, point+" "+reqs[i].desc)
			}
		}
		for i := rapid.IntRange(1, 2).Draw(t, "after"); i > 0; i-- {
			if _, err := e.both(e.genRealTxs(t), "undisturbed block after: "+strings.Join(history, " ;; ")); err != nil {
				t.Fatalf("%v", err)
			}
		}
		e.A.Close()
		e.B.Close()
		da, err := dumpLedgerDir(e.A.Dir, true)
		if err != nil {
			t.Fatalf("harness: final dump A: %v", err)
		}
		db, err := dumpLedgerDir(e.B.Dir, true)
		if err != nil {
			t.Fatalf("harness: final dump B: %v", err)
		}
		if d := diffDumps(db, da); d != "" {
			t.Fatalf("persisted content differs from the twin (before=twin, after=ledger that served requests inside its commits) after: %s\n%s", strings.Join(history, " ;; "), d)
		}
		ev.Class("window-session")
	})
	for _, p := range c42Points {
		ev.Floor("window:"+p, "window", 0.07)
	}
	ev.Floor("window-req:nontrivial", "window-req", 0.15)
}
